//go:build verif

// Accessors used by the manager stage of property C13 (add-only, thin): the queue between Broadcast and the
// goroutine that files own chains as wanted, so that a driver can wait until that goroutine is idle.
package chainexchange

// VerifPendingWanted returns how many own broadcasts wait to be filed as wanted chains.
func (p *PubSubChainExchange) VerifPendingWanted() int { return len(p.pendingCacheAsWanted) }

// VerifEnqueueWanted queues a message exactly as Broadcast does before publishing (blocking send).
func (p *PubSubChainExchange) VerifEnqueueWanted(m Message) { p.pendingCacheAsWanted <- m }

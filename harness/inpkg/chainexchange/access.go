//go:build verif

// Accessors for property C18 (add-only, thin): pass-throughs to the unexported critical sections of
// PubSubChainExchange so that a driver can feed traffic synchronously, plus a read-only dump of the two
// per-instance LRU caches (hashicorp Keys()/Peek do not touch recency).
package chainexchange

import (
	"context"
	"sort"

	"github.com/filecoin-project/go-f3/gpbft"
	pubsub "github.com/libp2p/go-libp2p-pubsub"
	pb "github.com/libp2p/go-libp2p-pubsub/pb"
)

// VerifDiscovered is what the subscription loop does with a validated message.
func (p *PubSubChainExchange) VerifDiscovered(ctx context.Context, m Message) {
	p.cacheAsDiscoveredChain(ctx, m)
}

// VerifWanted is what the pendingCacheAsWanted loop does with a message passed to Broadcast.
func (p *PubSubChainExchange) VerifWanted(ctx context.Context, m Message) {
	p.cacheAsWantedChain(ctx, m)
}

// VerifValidate runs the pubsub topic validator on raw bytes. It returns the verdict and the
// ValidatorData the validator attached (what the subscription loop would hand to the cache).
func (p *PubSubChainExchange) VerifValidate(ctx context.Context, data []byte) (pubsub.ValidationResult, *Message) {
	msg := &pubsub.Message{Message: &pb.Message{Data: data}}
	res := p.validatePubSubMessage(ctx, "", msg)
	if m, ok := msg.ValidatorData.(Message); ok {
		return res, &m
	}
	return res, nil
}

// VerifEncode encodes a message exactly as Broadcast would.
func (p *PubSubChainExchange) VerifEncode(m *Message) ([]byte, error) { return p.encoding.Encode(m) }

// VerifEntry is one cache entry: its key and the chain filed under it (nil for a placeholder).
type VerifEntry struct {
	Key   gpbft.ECChainKey
	Chain *gpbft.ECChain
}

// VerifDump returns, for every instance that currently has a cache, the entries most recent first.
func (p *PubSubChainExchange) VerifDump() (wanted, discovered map[uint64][]VerifEntry) {
	p.mu.Lock()
	defer p.mu.Unlock()
	wanted, discovered = map[uint64][]VerifEntry{}, map[uint64][]VerifEntry{}
	for i, c := range p.chainsWanted {
		keys := c.Keys() // oldest to newest
		es := make([]VerifEntry, 0, len(keys))
		for j := len(keys) - 1; j >= 0; j-- {
			v, _ := c.Peek(keys[j])
			e := VerifEntry{Key: keys[j]}
			if v != nil && !v.IsPlaceholder() {
				e.Chain = v.chain
			}
			es = append(es, e)
		}
		wanted[i] = es
	}
	for i, c := range p.chainsDiscovered {
		keys := c.Keys()
		es := make([]VerifEntry, 0, len(keys))
		for j := len(keys) - 1; j >= 0; j-- {
			v, _ := c.Peek(keys[j])
			e := VerifEntry{Key: keys[j]}
			if v != nil && !v.IsPlaceholder() {
				e.Chain = v.chain
			}
			es = append(es, e)
		}
		discovered[i] = es
	}
	return wanted, discovered
}

// VerifInstances lists the instances that have a wanted / discovered cache.
func (p *PubSubChainExchange) VerifInstances() (w, d []uint64) {
	p.mu.Lock()
	defer p.mu.Unlock()
	for i := range p.chainsWanted {
		w = append(w, i)
	}
	for i := range p.chainsDiscovered {
		d = append(d, i)
	}
	sort.Slice(w, func(a, b int) bool { return w[a] < w[b] })
	sort.Slice(d, func(a, b int) bool { return d[a] < d[b] })
	return
}

//go:build verif

package certstore

// VerifSetPowerTableFrequency lowers the unexported power-table checkpoint frequency of a live
// store (production value: defaultPowerTableFrequency) so that the verification drivers cross
// checkpoint boundaries densely.  Injected with `go test -overlay`; never part of /repo.
func VerifSetPowerTableFrequency(cs *Store, f uint64) { cs.powerTableFrequency = f }

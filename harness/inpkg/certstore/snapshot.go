//go:build verif

package certstore

import (
	"context"

	"github.com/filecoin-project/go-f3/manifest"
	"github.com/ipfs/go-datastore"
)

// VerifImportSnapshotWithFrequency is the real import routine with the power-table checkpoint
// frequency the repository's own round-trip test uses (0 = production frequency, i.e. exactly
// ImportSnapshotToDatastore).  Thin accessor for the C17 driver; injected with `go test -overlay`.
func VerifImportSnapshotWithFrequency(ctx context.Context, snapshot SnapshotReader, ds datastore.Batching, m *manifest.Manifest, f uint64) error {
	return importSnapshotToDatastoreWithTestingPowerTableFrequency(ctx, snapshot, ds, m, f)
}

// VerifFirstInstance exposes the first instance an opened store was created with.
func VerifFirstInstance(cs *Store) uint64 { return cs.firstInstance }

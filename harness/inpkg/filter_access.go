//go:build verif

// Accessor (property C12): the unexported equivocationFilter of package f3, add-only and thin.
// No verdicts here: the driver logs what these return and TLC judges (spec/host/BroadcastTrace.tla).
package f3

import (
	"sort"

	"github.com/filecoin-project/go-f3/gpbft"
	"github.com/libp2p/go-libp2p/core/peer"
)

// VerifFilter wraps a real equivocationFilter built by newEquivocationFilter.
type VerifFilter struct{ f *equivocationFilter }

func VerifNewFilter(local peer.ID) *VerifFilter {
	f := newEquivocationFilter(local)
	return &VerifFilter{f: &f}
}

func (v *VerifFilter) ProcessBroadcast(m *gpbft.GMessage) bool { return v.f.ProcessBroadcast(m) }
func (v *VerifFilter) ProcessReceive(p peer.ID, m *gpbft.GMessage) {
	v.f.ProcessReceive(p, m)
}

// Clone copies the filter state (for depth-first enumeration of the real object's state graph).
func (v *VerifFilter) Clone() *VerifFilter {
	v.f.lk.Lock()
	defer v.f.lk.Unlock()
	c := newEquivocationFilter(v.f.localPID)
	c.currentInstance = v.f.currentInstance
	for k, m := range v.f.seenMessages {
		c.seenMessages[k] = equivMessage{signature: append([]byte(nil), m.signature...), origin: m.origin}
	}
	for k, s := range v.f.activeSenders {
		c.activeSenders[k] = equivSenders{origins: append([]peer.ID(nil), s.origins...), equivocation: s.equivocation}
	}
	return &VerifFilter{f: &c}
}

type VerifSeen struct {
	Sender uint64
	Round  uint64
	Phase  uint8
	Sig    []byte
	Origin peer.ID
}

type VerifActive struct {
	Sender       uint64
	Origins      []peer.ID
	Equivocation bool
}

func verifDumpFilter(f *equivocationFilter) (cur uint64, seen []VerifSeen, act []VerifActive) {
	f.lk.Lock()
	defer f.lk.Unlock()
	cur = f.currentInstance
	for k, m := range f.seenMessages {
		seen = append(seen, VerifSeen{Sender: uint64(k.Sender), Round: k.Round, Phase: uint8(k.Phase), Sig: m.signature, Origin: m.origin})
	}
	sort.Slice(seen, func(i, j int) bool {
		a, b := seen[i], seen[j]
		if a.Sender != b.Sender {
			return a.Sender < b.Sender
		}
		if a.Round != b.Round {
			return a.Round < b.Round
		}
		return a.Phase < b.Phase
	})
	for k, s := range f.activeSenders {
		act = append(act, VerifActive{Sender: uint64(k), Origins: append([]peer.ID(nil), s.origins...), Equivocation: s.equivocation})
	}
	sort.Slice(act, func(i, j int) bool { return act[i].Sender < act[j].Sender })
	return
}

// Dump returns the filter's fields (sorted) without interpreting them.
func (v *VerifFilter) Dump() (uint64, []VerifSeen, []VerifActive) { return verifDumpFilter(v.f) }

//go:build verif

// Accessor for the power-store stage of C15 (harness/drivers/powerstore). Thin, add-only: exposes what the
// background loop keeps in memory so the trace can compare it with the model after every iteration.
package powerstore

import "github.com/filecoin-project/go-f3/gpbft"

// VerifMem returns lastStoredEpoch and lastStoredPt. Only call while the loop goroutine is parked.
func VerifMem(ps *Store) (int64, gpbft.PowerEntries) { return ps.lastStoredEpoch, ps.lastStoredPt }

//go:build verif

// Accessors for the C20 driver (harness/drivers/polling). Thin, add-only: they expose the
// unexported pieces of the polling subscriber so that single rounds and the real run loop can be
// driven deterministically with a mock clock.
package polling

import (
	"context"
	"time"

	"github.com/filecoin-project/go-f3/internal/clock"
	"github.com/libp2p/go-libp2p/core/peer"
)

// VerifInit does what Subscriber.Start does before it launches goroutines.
func VerifInit(ctx context.Context, s *Subscriber) error {
	s.clock = clock.GetClock(ctx)
	s.peerTracker = newPeerTracker(s.clock)
	p, err := NewPoller(ctx, &s.Client, s.Store, s.SignatureVerifier)
	s.poller = p
	return err
}

func VerifSeePeer(s *Subscriber, p peer.ID)  { s.peerTracker.peerSeen(p) }
func VerifNextInstance(s *Subscriber) uint64 { return s.poller.NextInstance }

// VerifCatchUp is the first step of a round of Subscriber.run.
func VerifCatchUp(ctx context.Context, s *Subscriber) (uint64, error) { return s.poller.CatchUp(ctx) }

// VerifPoll is Subscriber.poll: one polling round over the suggested peers.
func VerifPoll(ctx context.Context, s *Subscriber) (uint64, bool, error) { return s.poll(ctx) }

// VerifRun runs the real Subscriber.run loop (after VerifInit) with a driver-owned discovery channel.
func VerifRun(ctx context.Context, s *Subscriber, discover <-chan peer.ID) error {
	s.discoverCh = discover
	return s.run(ctx)
}

// VerifPredictor wraps the real interval predictor.
type VerifPredictor struct{ p *predictor }

func VerifNewPredictor(minInterval, defaultInterval, maxInterval time.Duration) *VerifPredictor {
	return &VerifPredictor{p: newPredictor(minInterval, defaultInterval, maxInterval)}
}
func (v *VerifPredictor) Update(progress uint64) time.Duration { return v.p.update(progress) }

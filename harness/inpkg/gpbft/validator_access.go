//go:build verif

package gpbft

// VerifSetProgress publishes (id, round, phase) as the participant's current progress through the
// same atomicProgression.NotifyProgress the running instance uses; the validator reads nothing else
// of the participant's consensus state (C05/C13 drivers explore progress states with it).
func VerifSetProgress(p *Participant, id, round uint64, phase Phase) {
	p.progression.NotifyProgress(InstanceProgress{Instant: Instant{ID: id, Round: round, Phase: phase}})
}

//go:build verif

// Accessor (runner stage of C15): read-only view of the participant's queue of messages for
// instances that have not begun yet.  Add-only, thin; call only while no API method is running.
package gpbft

import "sort"

func (p *Participant) VerifQueued(instance uint64) []*GMessage {
	var out []*GMessage
	for _, ms := range p.mqueue.messages[instance] {
		out = append(out, ms...)
	}
	sort.SliceStable(out, func(i, j int) bool {
		a, b := out[i], out[j]
		if a.Vote.Round != b.Vote.Round {
			return a.Vote.Round < b.Vote.Round
		}
		if a.Vote.Phase != b.Vote.Phase {
			return a.Vote.Phase < b.Vote.Phase
		}
		return a.Sender < b.Sender
	})
	return out
}

// VerifBegun: the participant has begun its current instance (proposal and committee fetched).
func (p *Participant) VerifBegun() bool { return p.gpbft != nil }

//go:build verif

package gpbft

// Thin accessors for property C08 (quorum arithmetic). Add-only, injected at build time as
// /repo/gpbft/zz_verif_quorum_access.go. Nothing here decides anything: every function forwards
// to the unexported production code.

// VerifQHasWeakQuorum forwards to hasWeakQuorum.
func VerifQHasWeakQuorum(part, whole int64) bool { return hasWeakQuorum(part, whole) }

// VerifQTally wraps the production quorumState.
type VerifQTally struct {
	q   *quorumState
	key ECChainKey
}

// VerifQNewTally creates a production quorumState over a real power table.
func VerifQNewTally(pt *PowerTable) *VerifQTally {
	return &VerifQTally{q: newQuorumState(pt)}
}

// VerifQNewSyntheticTally creates a quorumState whose power table only carries the scaled total
// (the only field CouldReachStrongQuorumFor reads besides the tally itself).
func VerifQNewSyntheticTally(whole int64, key ECChainKey) *VerifQTally {
	pt := NewPowerTable()
	pt.ScaledTotal = whole
	return &VerifQTally{q: newQuorumState(pt), key: key}
}

// SetSynthetic sets the two tally numbers read by CouldReachStrongQuorumFor.
func (t *VerifQTally) SetSynthetic(support, senders int64) {
	t.q.sendersTotalPower = senders
	t.q.chainSupport[t.key] = chainSupport{power: support}
}

// CouldReachSynthetic forwards to quorumState.CouldReachStrongQuorumFor for the synthetic key.
func (t *VerifQTally) CouldReachSynthetic(withAdversary bool) bool {
	return t.q.CouldReachStrongQuorumFor(t.key, withAdversary)
}

func (t *VerifQTally) Receive(sender ActorID, value *ECChain) {
	t.q.Receive(sender, value, []byte{1})
}
func (t *VerifQTally) HasStrongQuorumFor(v *ECChain) bool { return t.q.HasStrongQuorumFor(v.Key()) }
func (t *VerifQTally) ReceivedFromStrongQuorum() bool      { return t.q.ReceivedFromStrongQuorum() }
func (t *VerifQTally) ReceivedFromWeakQuorum() bool        { return t.q.ReceivedFromWeakQuorum() }
func (t *VerifQTally) CouldReachStrongQuorumFor(v *ECChain, withAdversary bool) bool {
	return t.q.CouldReachStrongQuorumFor(v.Key(), withAdversary)
}

// VerifQValidateJustification runs the message validator's justification quorum + signature
// check (validator.go validateJustificationSignature) against the given committee table.
func VerifQValidateJustification(nn NetworkName, verifier Verifier, pt *PowerTable, j *Justification) error {
	agg, err := verifier.Aggregate(pt.Entries.PublicKeys())
	if err != nil {
		return err
	}
	v := &cachingValidator{networkName: nn, verifier: verifier}
	comt := &Committee{PowerTable: pt, AggregateVerifier: agg}
	return v.validateJustificationSignature(comt, j, j.Vote.Value.Key())
}

//go:build verif

package gpbft

import "time"

// VerifPhaseTimeout exposes the current instance's phase timeout so that the consensus driver can log
// whether the timeout has elapsed at an event (an argument of the spec's Receive/Alarm actions).
func (p *Participant) VerifPhaseTimeout() (time.Time, bool) {
	if p.gpbft == nil {
		return time.Time{}, false
	}
	return p.gpbft.phaseTimeout, true
}

// VerifLocalState exposes proposal, value and the number of candidates of the running instance.
func (p *Participant) VerifLocalState() (proposal, value *ECChain, candidates int, ok bool) {
	if p.gpbft == nil {
		return nil, nil, 0, false
	}
	return p.gpbft.proposal, p.gpbft.value, len(p.gpbft.candidates), true
}

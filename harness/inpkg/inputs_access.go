//go:build verif

// Accessor (properties C15, C19): the production consensus-inputs component of package f3
// (consensus_inputs.go) built by the real newInputs over a caller-supplied EC backend, certificate
// store and clock.  Add-only, thin, self-contained; no verdicts here.
package f3

import (
	"context"

	"github.com/filecoin-project/go-f3/certstore"
	"github.com/filecoin-project/go-f3/ec"
	"github.com/filecoin-project/go-f3/gpbft"
	"github.com/filecoin-project/go-f3/internal/clock"
	"github.com/filecoin-project/go-f3/manifest"
)

// VerifInputs wraps the unexported gpbftInputs (what gpbftHost.GetProposal/GetCommittee delegate to).
type VerifInputs struct{ in gpbftInputs }

func VerifNewInputs(m manifest.Manifest, cs *certstore.Store, backend ec.Backend, verifier gpbft.Verifier, clk clock.Clock) *VerifInputs {
	return &VerifInputs{in: newInputs(m, cs, backend, verifier, clk)}
}

func (v *VerifInputs) GetProposal(ctx context.Context, instance uint64) (*gpbft.SupplementalData, *gpbft.ECChain, error) {
	return v.in.GetProposal(ctx, instance)
}

func (v *VerifInputs) GetCommittee(ctx context.Context, instance uint64) (*gpbft.Committee, error) {
	return v.in.GetCommittee(ctx, instance)
}

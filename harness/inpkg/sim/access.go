//go:build verif

package sim

import "github.com/filecoin-project/go-f3/gpbft"

// VerifDecisionOf exposes the decision (justification) a participant reported for this instance, so that the C19 driver's
// adversary can re-use the aggregate of an honest decision ("observed signatures") in a forged one.
func (eci *ECInstance) VerifDecisionOf(id gpbft.ActorID) *gpbft.Justification { return eci.decisions[id] }

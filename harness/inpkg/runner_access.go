//go:build verif

// Accessor (property C12): a production gpbftRunner built by the real newRunner, with the
// message encoder field interposed so that the driver can observe (and abort) the moment a
// message is encoded for topic.Publish.  Add-only, thin; no verdicts here.
package f3

import (
	"context"
	"path/filepath"
	"sort"
	"strings"

	"github.com/filecoin-project/go-f3/certstore"
	"github.com/filecoin-project/go-f3/ec"
	"github.com/filecoin-project/go-f3/gpbft"
	"github.com/filecoin-project/go-f3/internal/encoding"
	"github.com/filecoin-project/go-f3/internal/psutil"
	"github.com/filecoin-project/go-f3/internal/writeaheadlog"
	"github.com/filecoin-project/go-f3/manifest"
	pubsub "github.com/libp2p/go-libp2p-pubsub"
	"github.com/libp2p/go-libp2p/core/peer"
)

// VerifRunner is a gpbftRunner built by newRunner; the event loops are not started unless
// Start is called.
type VerifRunner struct{ r *gpbftRunner }

type verifEncoder struct {
	inner encoding.EncodeDecoder[*gpbft.PartialGMessage]
	hook  func(*gpbft.PartialGMessage) error
}

func (e *verifEncoder) Encode(v *gpbft.PartialGMessage) ([]byte, error) {
	if e.hook != nil {
		if err := e.hook(v); err != nil {
			return nil, err // the call stops here: "process died between WAL append and publish"
		}
	}
	return e.inner.Encode(v)
}
func (e *verifEncoder) Decode(b []byte, v *gpbft.PartialGMessage) error { return e.inner.Decode(b, v) }

// VerifNewRunner opens the WAL in walDir exactly as F3 does and calls the production newRunner.
// topic: an already joined topic handle to publish on (shared across simulated restarts), or
// nil to leave the runner without a topic (BroadcastMessage then returns after the WAL append).
func VerifNewRunner(ctx context.Context, cs *certstore.Store, backend ec.Backend, ps *pubsub.PubSub, verifier gpbft.Verifier,
	m manifest.Manifest, walDir string, pid peer.ID, topic *pubsub.Topic, beforePublish func(*gpbft.PartialGMessage) error) (*VerifRunner, error) {
	wal, err := writeaheadlog.Open[walEntry](walDir)
	if err != nil {
		return nil, err
	}
	out := make(chan *gpbft.MessageBuilder, 128)
	r, err := newRunner(ctx, cs, backend, ps, verifier, out, m, wal, pid)
	if err != nil {
		return nil, err
	}
	r.topic = topic
	r.msgEncoding = &verifEncoder{inner: r.msgEncoding, hook: beforePublish}
	return &VerifRunner{r: r}, nil
}

// VerifJoinGPBFTTopic joins the GPBFT topic of the manifest the way setupPubsub does (without the validator).
func VerifJoinGPBFTTopic(ps *pubsub.PubSub, m manifest.Manifest) (*pubsub.Topic, error) {
	return ps.Join(m.PubSubTopic(), pubsub.WithTopicMessageIdFn(psutil.GPBFTMessageIdFn))
}

func (v *VerifRunner) Broadcast(ctx context.Context, msg *gpbft.GMessage) error {
	return v.r.BroadcastMessage(ctx, msg)
}
func (v *VerifRunner) Rebroadcast(i gpbft.Instant) error {
	return (*gpbftHost)(v.r).RequestRebroadcast(i)
}
func (v *VerifRunner) SetTopic(t *pubsub.Topic) { v.r.topic = t }
func (v *VerifRunner) CloseWAL() error          { return v.r.wal.Close() }
func (v *VerifRunner) PurgeWAL(keep uint64) error {
	return v.r.wal.Purge(keep)
}
func (v *VerifRunner) WALMessages() ([]*gpbft.GMessage, error) {
	es, err := v.r.wal.All()
	out := make([]*gpbft.GMessage, 0, len(es))
	for _, e := range es {
		out = append(out, e.Message)
	}
	return out, err
}
func (v *VerifRunner) FilterDump() (uint64, []VerifSeen, []VerifActive) {
	return verifDumpFilter(&v.r.equivFilter)
}
func (v *VerifRunner) FilterReceive(p peer.ID, m *gpbft.GMessage) { v.r.equivFilter.ProcessReceive(p, m) }

// SelfMessages returns the rebroadcast store, flattened (instance, round, phase order).
func (v *VerifRunner) SelfMessages() []*gpbft.GMessage {
	v.r.msgsMutex.Lock()
	defer v.r.msgsMutex.Unlock()
	var out []*gpbft.GMessage
	for _, byRP := range v.r.selfMessages {
		for _, ms := range byRP {
			out = append(out, ms...)
		}
	}
	sort.SliceStable(out, func(i, j int) bool {
		a, b := out[i].Vote, out[j].Vote
		if a.Instance != b.Instance {
			return a.Instance < b.Instance
		}
		if a.Round != b.Round {
			return a.Round < b.Round
		}
		return a.Phase < b.Phase
	})
	return out
}

// VerifReadWAL reads a WAL directory the way a restarted process would (hydrate + All); it
// does not write to it.
func VerifReadWAL(dir string) ([]*gpbft.GMessage, error) {
	wal, err := writeaheadlog.Open[walEntry](dir)
	if err != nil {
		return nil, err
	}
	es, err := wal.All()
	out := make([]*gpbft.GMessage, 0, len(es))
	for _, e := range es {
		out = append(out, e.Message)
	}
	return out, err
}

// ---- end-to-end (public F3 API) helpers: observation only

// VerifF3WrapEncoder interposes the encoder of the running F3's runner (call right after Start
// reports running, before any message is handed to Broadcast). Returns false if F3 is not running.
func VerifF3WrapEncoder(m *F3, beforePublish func(*gpbft.PartialGMessage) error) bool {
	st := m.state.Load()
	if st == nil || st.runner == nil {
		return false
	}
	if _, ok := st.runner.msgEncoding.(*verifEncoder); ok {
		return true
	}
	st.runner.msgEncoding = &verifEncoder{inner: st.runner.msgEncoding, hook: beforePublish}
	return true
}

// VerifF3WALDir is the directory startInternal opens the WAL in.
func VerifF3WALDir(m *F3) string {
	cleanName := strings.ReplaceAll(string(m.mfst.NetworkName), "/", "-")
	cleanName = strings.ReplaceAll(cleanName, ".", "")
	cleanName = strings.ReplaceAll(cleanName, "\u0000", "")
	return filepath.Join(m.diskPath, "wal", cleanName)
}

// VerifF3FilterDump dumps the equivocation filter of the running F3's runner.
func VerifF3FilterDump(m *F3) (uint64, []VerifSeen, []VerifActive, bool) {
	st := m.state.Load()
	if st == nil || st.runner == nil {
		return 0, nil, nil, false
	}
	c, s, a := verifDumpFilter(&st.runner.equivFilter)
	return c, s, a, true
}

//go:build verif

// Accessor (property C12): a production gpbftRunner built by the real newRunner, with the
// message encoder field interposed so that the driver can observe (and abort) the moment a
// message is encoded for topic.Publish.  Add-only, thin; no verdicts here.
package f3

import (
	"context"
	"path/filepath"
	"reflect"
	"sort"
	"strings"
	"time"
	"unsafe"

	"github.com/filecoin-project/go-f3/certs"
	"github.com/filecoin-project/go-f3/certstore"
	"github.com/filecoin-project/go-f3/ec"
	"github.com/filecoin-project/go-f3/gpbft"
	"github.com/filecoin-project/go-f3/internal/encoding"
	"github.com/filecoin-project/go-f3/internal/psutil"
	"github.com/filecoin-project/go-f3/internal/writeaheadlog"
	"github.com/filecoin-project/go-f3/manifest"
	pubsub "github.com/libp2p/go-libp2p-pubsub"
	"github.com/libp2p/go-libp2p/core/peer"
)

// VerifRunner is a gpbftRunner built by newRunner; the event loops are not started unless
// Start is called.
type VerifRunner struct{ r *gpbftRunner }

type verifEncoder struct {
	inner encoding.EncodeDecoder[*gpbft.PartialGMessage]
	hook  func(*gpbft.PartialGMessage) error
}

func (e *verifEncoder) Encode(v *gpbft.PartialGMessage) ([]byte, error) {
	if e.hook != nil {
		if err := e.hook(v); err != nil {
			return nil, err // the call stops here: "process died between WAL append and publish"
		}
	}
	return e.inner.Encode(v)
}
func (e *verifEncoder) Decode(b []byte, v *gpbft.PartialGMessage) error { return e.inner.Decode(b, v) }

// VerifNewRunner opens the WAL in walDir exactly as F3 does and calls the production newRunner.
// topic: an already joined topic handle to publish on (shared across simulated restarts), or
// nil to leave the runner without a topic (BroadcastMessage then returns after the WAL append).
func VerifNewRunner(ctx context.Context, cs *certstore.Store, backend ec.Backend, ps *pubsub.PubSub, verifier gpbft.Verifier,
	m manifest.Manifest, walDir string, pid peer.ID, topic *pubsub.Topic, beforePublish func(*gpbft.PartialGMessage) error) (*VerifRunner, error) {
	wal, err := writeaheadlog.Open[walEntry](walDir)
	if err != nil {
		return nil, err
	}
	out := make(chan *gpbft.MessageBuilder, 128)
	r, err := newRunner(ctx, cs, backend, ps, verifier, out, m, wal, pid)
	if err != nil {
		return nil, err
	}
	r.topic = topic
	r.msgEncoding = &verifEncoder{inner: r.msgEncoding, hook: beforePublish}
	return &VerifRunner{r: r}, nil
}

// VerifJoinGPBFTTopic joins the GPBFT topic of the manifest the way setupPubsub does (without the validator).
func VerifJoinGPBFTTopic(ps *pubsub.PubSub, m manifest.Manifest) (*pubsub.Topic, error) {
	return ps.Join(m.PubSubTopic(), pubsub.WithTopicMessageIdFn(psutil.GPBFTMessageIdFn))
}

func (v *VerifRunner) Broadcast(ctx context.Context, msg *gpbft.GMessage) error {
	return v.r.BroadcastMessage(ctx, msg)
}
func (v *VerifRunner) Rebroadcast(i gpbft.Instant) error {
	return (*gpbftHost)(v.r).RequestRebroadcast(i)
}
func (v *VerifRunner) SetTopic(t *pubsub.Topic) { v.r.topic = t }
func (v *VerifRunner) CloseWAL() error          { return v.r.wal.Close() }
func (v *VerifRunner) PurgeWAL(keep uint64) error {
	return v.r.wal.Purge(keep)
}
func (v *VerifRunner) WALMessages() ([]*gpbft.GMessage, error) {
	es, err := v.r.wal.All()
	out := make([]*gpbft.GMessage, 0, len(es))
	for _, e := range es {
		out = append(out, e.Message)
	}
	return out, err
}
func (v *VerifRunner) FilterDump() (uint64, []VerifSeen, []VerifActive) {
	return verifDumpFilter(&v.r.equivFilter)
}
func (v *VerifRunner) FilterReceive(p peer.ID, m *gpbft.GMessage) { v.r.equivFilter.ProcessReceive(p, m) }

// SelfMessages returns the rebroadcast store, flattened (instance, round, phase order).
func (v *VerifRunner) SelfMessages() []*gpbft.GMessage {
	v.r.msgsMutex.Lock()
	defer v.r.msgsMutex.Unlock()
	var out []*gpbft.GMessage
	for _, byRP := range v.r.selfMessages {
		for _, ms := range byRP {
			out = append(out, ms...)
		}
	}
	sort.SliceStable(out, func(i, j int) bool {
		a, b := out[i].Vote, out[j].Vote
		if a.Instance != b.Instance {
			return a.Instance < b.Instance
		}
		if a.Round != b.Round {
			return a.Round < b.Round
		}
		return a.Phase < b.Phase
	})
	return out
}

// VerifReadWAL reads a WAL directory the way a restarted process would (hydrate + All); it
// does not write to it.
func VerifReadWAL(dir string) ([]*gpbft.GMessage, error) {
	wal, err := writeaheadlog.Open[walEntry](dir)
	if err != nil {
		return nil, err
	}
	es, err := wal.All()
	out := make([]*gpbft.GMessage, 0, len(es))
	for _, e := range es {
		out = append(out, e.Message)
	}
	return out, err
}

// ---- end-to-end (public F3 API) helpers: observation only

// VerifF3WrapEncoder interposes the encoder of the running F3's runner (call right after Start
// reports running, before any message is handed to Broadcast). Returns false if F3 is not running.
func VerifF3WrapEncoder(m *F3, beforePublish func(*gpbft.PartialGMessage) error) bool {
	st := m.state.Load()
	if st == nil || st.runner == nil {
		return false
	}
	if _, ok := st.runner.msgEncoding.(*verifEncoder); ok {
		return true
	}
	st.runner.msgEncoding = &verifEncoder{inner: st.runner.msgEncoding, hook: beforePublish}
	return true
}

// VerifF3WALDir is the directory startInternal opens the WAL in.
func VerifF3WALDir(m *F3) string {
	cleanName := strings.ReplaceAll(string(m.mfst.NetworkName), "/", "-")
	cleanName = strings.ReplaceAll(cleanName, ".", "")
	cleanName = strings.ReplaceAll(cleanName, "\u0000", "")
	return filepath.Join(m.diskPath, "wal", cleanName)
}

// VerifF3FilterDump dumps the equivocation filter of the running F3's runner.
func VerifF3FilterDump(m *F3) (uint64, []VerifSeen, []VerifActive, bool) {
	st := m.state.Load()
	if st == nil || st.runner == nil {
		return 0, nil, nil, false
	}
	c, s, a := verifDumpFilter(&st.runner.equivFilter)
	return c, s, a, true
}

// ---- runner stage of C15 (spec/host/Runner.tla): instance advancement, scheduling, event loop.
// Add-only, thin: every function below calls the production method of the same name (or reads a field).

// VerifNewRunnerOut is VerifNewRunner that also hands out the channel on which the participant
// requests broadcasts (F3.MessagesToSign reads it in production).
func VerifNewRunnerOut(ctx context.Context, cs *certstore.Store, backend ec.Backend, ps *pubsub.PubSub, verifier gpbft.Verifier,
	m manifest.Manifest, walDir string, pid peer.ID) (*VerifRunner, <-chan *gpbft.MessageBuilder, error) {
	wal, err := writeaheadlog.Open[walEntry](walDir)
	if err != nil {
		return nil, nil, err
	}
	out := make(chan *gpbft.MessageBuilder, 256)
	r, err := newRunner(ctx, cs, backend, ps, verifier, out, m, wal, pid)
	if err != nil {
		return nil, nil, err
	}
	return &VerifRunner{r: r}, out, nil
}

func (v *VerifRunner) ComputeNextInstanceStart(c *certs.FinalityCertificate) time.Time {
	return v.r.computeNextInstanceStart(c)
}
func (v *VerifRunner) ReceiveCertificate(ctx context.Context, c *certs.FinalityCertificate) error {
	return v.r.receiveCertificate(ctx, c)
}
func (v *VerifRunner) StartInstanceAt(ctx context.Context, instance uint64, at time.Time) error {
	return v.r.startInstanceAt(ctx, instance, at)
}
func (v *VerifRunner) Progress() gpbft.InstanceProgress { return v.r.Progress() }
func (v *VerifRunner) Start(ctx context.Context) error  { return v.r.Start(ctx) }
func (v *VerifRunner) Stop(ctx context.Context) error   { return v.r.Stop(ctx) }

// Alarm reads the alert timer (mock clock): the time it is set for, whether it is still waiting,
// and whether it has fired without the tick having been taken yet.
func (v *VerifRunner) Alarm() (at time.Time, waiting bool, fired bool) {
	t := v.r.alertTimer
	rv := reflect.ValueOf(t).Elem()
	nf, sf := rv.FieldByName("next"), rv.FieldByName("stopped")
	at = *(*time.Time)(unsafe.Pointer(nf.UnsafeAddr()))
	waiting = !*(*bool)(unsafe.Pointer(sf.UnsafeAddr()))
	return at, waiting, len(t.C) > 0
}

// TakeAlarm does what the event loop does when the alert timer has fired (host.go:202-203); it
// returns false (and does nothing) when no tick is waiting.
func (v *VerifRunner) TakeAlarm(ctx context.Context) (bool, error) {
	select {
	case <-v.r.alertTimer.C:
		return true, v.r.participant.ReceiveAlarm(ctx)
	default:
		return false, nil
	}
}

// TakeMessage does what the pubsub validator and the event loop do with a complete message
// (host.go:566, host.go:228).
func (v *VerifRunner) TakeMessage(ctx context.Context, msg *gpbft.GMessage) (validateErr, receiveErr error) {
	vm, err := v.r.participant.ValidateMessage(ctx, msg)
	if err != nil {
		return err, nil
	}
	return nil, v.r.participant.ReceiveMessage(ctx, vm)
}

// Queued: the messages the participant holds for a future start of `instance`.
func (v *VerifRunner) Queued(instance uint64) []*gpbft.GMessage {
	return v.r.participant.VerifQueued(instance)
}

// SelfInstances: the instances selfMessages holds entries for.
func (v *VerifRunner) SelfInstances() []uint64 {
	v.r.msgsMutex.Lock()
	defer v.r.msgsMutex.Unlock()
	out := make([]uint64, 0, len(v.r.selfMessages))
	for i := range v.r.selfMessages {
		out = append(out, i)
	}
	sort.Slice(out, func(i, j int) bool { return out[i] < out[j] })
	return out
}

// VerifSetTracer replaces the tracer handed to every participant created afterwards (logging.go:9).
func VerifSetTracer(t gpbft.Tracer) gpbft.Tracer {
	old := tracer
	tracer = t
	return old
}

// Begun: the participant has begun its current instance (proposal and committee fetched).
func (v *VerifRunner) Begun() bool { return v.r.participant.VerifBegun() }

// PublishRaw publishes bytes on the GPBFT topic the running runner joined (what any peer's message
// goes through: the registered validator, the subscription, the validated-message queue).
func (v *VerifRunner) PublishRaw(ctx context.Context, data []byte) error {
	return v.r.topic.Publish(ctx, data)
}

//go:build verif

// Accessors for the manager stage of property C13 (add-only, thin).  The run loop of the partial message
// manager is an anonymous goroutine of Start(), so it cannot be called; a driver feeds it one event at a
// time through the public API and uses VerifPending (lengths of the input channels) to wait until the loop
// has taken the event, and VerifDump (read-only: lru Keys()/Peek do not touch recency) to look at the two
// per-instance maps once the loop is idle.
package pmsg

import (
	"sort"

	"github.com/filecoin-project/go-f3/chainexchange"
	"github.com/filecoin-project/go-f3/gpbft"
)

// VerifPending returns how many events are queued on each input channel of the manager.
func (pmm *PartialMessageManager) VerifPending() (partials, discovered, removals, broadcasts int) {
	return len(pmm.pendingPartialMessages), len(pmm.pendingDiscoveredChains), len(pmm.pendingInstanceRemoval), len(pmm.pendingChainBroadcasts)
}

// VerifChainExchange returns the chain exchange the manager looks chains up in.
func (pmm *PartialMessageManager) VerifChainExchange() *chainexchange.PubSubChainExchange {
	return pmm.chainex
}

// VerifLimits returns the configured bounds.
func (pmm *PartialMessageManager) VerifLimits() (maxBufferedPerInstance, completedBuffer int) {
	return pmm.maxBuffMsgPerInstance, pmm.completedMsgsBufSize
}

// VerifSlot is the key under which the manager files a buffered message.
type VerifSlot struct {
	Sender  gpbft.ActorID
	Instant gpbft.Instant
}

// VerifBuffered is one entry of a per-instance buffer.
type VerifBuffered struct {
	Slot VerifSlot
	Msg  gpbft.PartiallyValidatedMessage
}

// VerifIndexEntry is one list of the auxiliary index: the slots filed under a chain key at an instance.
type VerifIndexEntry struct {
	Instance uint64
	Key      gpbft.ECChainKey
	Slots    []VerifSlot
}

// VerifDump returns the buffers (per instance, oldest entry first) and the auxiliary index (instances ascending;
// the keys of one instance in no particular order).  Only call it while the run loop is idle.
func (pmm *PartialMessageManager) VerifDump() (instances []uint64, buffers map[uint64][]VerifBuffered, index []VerifIndexEntry) {
	buffers = map[uint64][]VerifBuffered{}
	for i, c := range pmm.pmByInstance {
		instances = append(instances, i)
		keys := c.Keys() // oldest to newest
		es := make([]VerifBuffered, 0, len(keys))
		for _, k := range keys {
			if v, ok := c.Peek(k); ok {
				es = append(es, VerifBuffered{Slot: VerifSlot{Sender: k.sender, Instant: k.instant}, Msg: v})
			}
		}
		buffers[i] = es
	}
	sort.Slice(instances, func(a, b int) bool { return instances[a] < instances[b] })
	var is []uint64
	for i := range pmm.pmkByInstanceByChainKey {
		is = append(is, i)
	}
	sort.Slice(is, func(a, b int) bool { return is[a] < is[b] })
	for _, i := range is {
		for k, slots := range pmm.pmkByInstanceByChainKey[i] {
			e := VerifIndexEntry{Instance: i, Key: k}
			for _, s := range slots {
				e.Slots = append(e.Slots, VerifSlot{Sender: s.sender, Instant: s.instant})
			}
			index = append(index, e)
		}
	}
	return instances, buffers, index
}

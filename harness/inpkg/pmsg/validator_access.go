//go:build verif

package pmsg

import "github.com/filecoin-project/go-f3/gpbft"

// VerifInferJustificationVoteValue exposes the production inference applied when a partial message
// is completed (CompleteMessage and the chain-discovery loop both run it right after setting
// pgmsg.Vote.Value); used by the C13 driver so that completion is done by the production code.
func VerifInferJustificationVoteValue(pgmsg *gpbft.PartialGMessage) { inferJustificationVoteValue(pgmsg) }

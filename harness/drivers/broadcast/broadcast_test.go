//go:build verif

// Driver for property C12 (no self-equivocation on the wire across requests, rebroadcasts and
// restarts).  It runs the REAL code
//   - filter level: the unexported equivocationFilter (accessor harness/inpkg/filter_access.go),
//     depth-first over its whole state graph for small alphabets, plus random histories;
//   - runner level: a production gpbftRunner built by newRunner over a real WAL directory, an
//     in-memory certificate store, the fake EC on a mock clock and a mocknet pubsub host, driven
//     through BroadcastMessage / RequestRebroadcast exactly as F3.Broadcast and gpbft do.  The
//     runner's message encoder is interposed: at the moment a message is encoded for
//     topic.Publish the WAL directory is read the way a restarted process would read it, and
//     the call can be cut there (process death between WAL append and publish).  A restart is
//     a second runner over the same WAL directory.
//
// and writes one NDJSON line per call with what the code returned / let through.  There is no
// oracle in this file: verdicts are TLC's (spec/host/BroadcastTrace.tla).
package zzbroadcast

import (
	"bufio"
	"bytes"
	"context"
	"crypto/sha256"
	"encoding/hex"
	"encoding/json"
	"errors"
	"fmt"
	"math/rand"
	"os"
	"path/filepath"
	"sort"
	"strconv"
	"strings"
	"testing"
	"time"

	f3 "github.com/filecoin-project/go-f3"
	"github.com/filecoin-project/go-f3/certstore"
	"github.com/filecoin-project/go-f3/gpbft"
	"github.com/filecoin-project/go-f3/internal/clock"
	"github.com/filecoin-project/go-f3/internal/consensus"
	"github.com/filecoin-project/go-f3/internal/encoding"
	"github.com/filecoin-project/go-f3/manifest"
	"github.com/filecoin-project/go-f3/sim/signing"
	"github.com/ipfs/go-datastore"
	ds_sync "github.com/ipfs/go-datastore/sync"
	pubsub "github.com/libp2p/go-libp2p-pubsub"
	"github.com/libp2p/go-libp2p/core/peer"
	mocknetwork "github.com/libp2p/go-libp2p/p2p/net/mock"
)

type ev map[string]any

type rec struct {
	w *bufio.Writer
	n int
}

func (r *rec) emit(e ev) {
	b, err := json.Marshal(e)
	if err != nil {
		panic(err)
	}
	r.w.Write(b)
	r.w.WriteByte('\n')
	r.n++
}

func envInt(k string, d int) int {
	if v, err := strconv.Atoi(os.Getenv(k)); err == nil {
		return v
	}
	return d
}

// ------------------------------------------------------------------ abstract <-> concrete messages

// A signature id names concrete signature bytes.  "a" and "c" sign the same value (two
// different signatures over one vote), "b" signs another value.
var sigValue = map[string]string{"a": "x", "b": "y", "c": "x"}

type mkey struct {
	inst, sender, round uint64
	phase               uint8
	sig                 string
}

type codec struct {
	nonce string            // per history: signatures (hence published bytes) never repeat across histories
	names map[string]string // signature bytes -> printable id
}

var cidPT = gpbft.MakeCid([]byte("verif-c12-pt"))

func chainFor(val string) *gpbft.ECChain {
	return &gpbft.ECChain{TipSets: []*gpbft.TipSet{
		{Epoch: 1, Key: []byte("base"), PowerTable: cidPT},
		{Epoch: 2, Key: []byte("head-" + val), PowerTable: cidPT},
	}}
}

func (c *codec) sigBytes(k mkey) []byte {
	h := sha256.Sum256([]byte(fmt.Sprintf("%s|%d|%d|%d|%d|%s", c.nonce, k.inst, k.sender, k.round, k.phase, k.sig)))
	b := h[:]
	c.names[string(b)] = k.sig + "-" + hex.EncodeToString(b[:3])
	return b
}

func (c *codec) sigName(b []byte) string {
	if n, ok := c.names[string(b)]; ok {
		return n
	}
	return "?" + hex.EncodeToString(b)
}

func (c *codec) msg(k mkey) *gpbft.GMessage {
	return &gpbft.GMessage{
		Sender: gpbft.ActorID(k.sender),
		Vote: gpbft.Payload{Instance: k.inst, Round: k.round, Phase: gpbft.Phase(k.phase),
			SupplementalData: gpbft.SupplementalData{PowerTable: cidPT}, Value: chainFor(sigValue[k.sig])},
		Signature: c.sigBytes(k),
	}
}

func (c *codec) jm(m *gpbft.GMessage) ev {
	return ev{"inst": m.Vote.Instance, "sender": uint64(m.Sender), "round": m.Vote.Round, "phase": uint8(m.Vote.Phase), "sig": c.sigName(m.Signature)}
}

func (c *codec) jms(ms []*gpbft.GMessage) []ev {
	out := make([]ev, 0, len(ms))
	for _, m := range ms {
		out = append(out, c.jm(m))
	}
	return out
}

// ------------------------------------------------------------------ filter dumps

type peers struct {
	local          peer.ID
	small, large   peer.ID // remote peers sorting before / after the local id
	smallN, largeN string
}

func (p *peers) byName(n string) peer.ID {
	if n == p.smallN {
		return p.small
	}
	return p.large
}

func (p *peers) jpeer(id peer.ID) ev {
	name := "?" + hex.EncodeToString([]byte(id))
	switch id {
	case p.small:
		name = p.smallN
	case p.large:
		name = p.largeN
	}
	return ev{"id": name, "lt": string(id) < string(p.local)}
}

func dumpInto(e ev, c *codec, p *peers, cur uint64, seen []f3.VerifSeen, act []f3.VerifActive) {
	e["cur"] = cur
	js := make([]ev, 0, len(seen))
	for _, s := range seen {
		js = append(js, ev{"sender": s.Sender, "round": s.Round, "phase": s.Phase, "sig": c.sigName(s.Sig), "local": s.Origin == p.local})
	}
	e["seen"] = js
	ja := make([]ev, 0, len(act))
	for _, a := range act {
		rem := make([]ev, 0)
		for _, o := range a.Origins {
			if o != p.local {
				rem = append(rem, p.jpeer(o))
			}
		}
		ja = append(ja, ev{"sender": a.Sender, "remotes": rem, "equiv": a.Equivocation})
	}
	e["act"] = ja
}

// ================================================================== filter level

type fstate struct {
	f   *f3.VerifFilter
	acc map[string]bool // printable ids of the messages the filter let through on this path (part of the visit key only)
}

func dumpKey(c *codec, p *peers, f *f3.VerifFilter, acc map[string]bool, withAcc bool) string {
	e := ev{}
	cur, seen, act := f.Dump()
	dumpInto(e, c, p, cur, seen, act)
	b, _ := json.Marshal(e)
	if !withAcc {
		return string(b)
	}
	ks := make([]string, 0, len(acc))
	for k := range acc {
		ks = append(ks, k)
	}
	sort.Strings(ks)
	return string(b) + "|" + strings.Join(ks, ",")
}

type fop struct {
	recv bool
	peer string
	k    mkey
}

// dfsFilter walks the state graph of the real filter: every operation of `ops` in every state
// reachable with them (states identified by the accessor's dump, plus - when the property
// clauses apply - the set of messages let through so far).
func dfsFilter(r *rec, c *codec, p *peers, st fstate, ops []fop, foreign bool, visited map[string]bool, edges *int, maxEdges int) {
	for _, op := range ops {
		if *edges >= maxEdges {
			return
		}
		if op.recv && !foreign {
			// echo of an own message only: the message must have been let through on this path
			if !st.acc[fmt.Sprintf("%d/%d/%d/%d/%s", op.k.inst, op.k.sender, op.k.round, op.k.phase, op.k.sig)] {
				continue
			}
		}
		*edges++
		r.emit(ev{"ev": "FPush"})
		nf := st.f.Clone()
		nacc := st.acc
		m := c.msg(op.k)
		e := ev{"m": c.jm(m)}
		if op.recv {
			nf.ProcessReceive(p.byName(op.peer), m)
			e["ev"] = "FReceive"
			e["peer"] = p.jpeer(p.byName(op.peer))
		} else {
			ok := nf.ProcessBroadcast(m)
			e["ev"] = "FBroadcast"
			e["ok"] = ok
			if ok {
				nacc = make(map[string]bool, len(st.acc)+1)
				for k := range st.acc {
					nacc[k] = true
				}
				nacc[fmt.Sprintf("%d/%d/%d/%d/%s", op.k.inst, op.k.sender, op.k.round, op.k.phase, op.k.sig)] = true
			}
		}
		cur, seen, act := nf.Dump()
		dumpInto(e, c, p, cur, seen, act)
		r.emit(e)
		key := dumpKey(c, p, nf, nacc, !foreign)
		if !visited[key] {
			visited[key] = true
			dfsFilter(r, c, p, fstate{f: nf, acc: nacc}, ops, foreign, visited, edges, maxEdges)
		}
		r.emit(ev{"ev": "FPop"})
	}
}

func mkPeers(local peer.ID) *peers {
	return &peers{local: local, small: peer.ID("\x00verif-small"), large: peer.ID("\xffverif-large"), smallN: "p", largeN: "q"}
}

func TestFilterGraph(t *testing.T) {
	out := os.Getenv("VERIF_OUT")
	if out == "" {
		t.Skip("VERIF_OUT not set")
	}
	fh, err := os.Create(out)
	if err != nil {
		t.Fatal(err)
	}
	defer fh.Close()
	r := &rec{w: bufio.NewWriterSize(fh, 1<<20)}
	defer r.w.Flush()
	maxEdges := envInt("VERIF_DFS_MAX", 200000)
	nslots := envInt("VERIF_DFS_SLOTS", 3)
	ninst := envInt("VERIF_DFS_INSTS", 2)
	seed := int64(envInt("VERIF_SEED", 1))
	rng := rand.New(rand.NewSource(seed))
	local := peer.ID("mverif-local")
	p := mkPeers(local)
	slots := [][2]uint64{{0, 3}, {0, 4}, {1, 3}, {1, 4}}[:nslots]
	build := func(insts []uint64, slots [][2]uint64, senders []uint64, sigs []string, recvPeers []string) []fop {
		var ops []fop
		for _, i := range insts {
			for _, s := range slots {
				for _, sd := range senders {
					for _, g := range sigs {
						k := mkey{inst: i, sender: sd, round: s[0], phase: uint8(s[1]), sig: g}
						ops = append(ops, fop{k: k})
						for _, pn := range recvPeers {
							ops = append(ops, fop{recv: true, peer: pn, k: k})
						}
					}
				}
			}
		}
		return ops
	}
	insts := []uint64{}
	for i := 1; i <= ninst; i++ {
		insts = append(insts, uint64(i))
	}
	total := 0
	// (1) the property's setting: own broadcasts + echoes of own messages from a remote peer
	{
		c := &codec{nonce: "F1", names: map[string]string{}}
		r.emit(ev{"ev": "Reset", "level": "filter", "foreign": false})
		visited := map[string]bool{}
		edges := 0
		f := f3.VerifNewFilter(local)
		visited[dumpKey(c, p, f, map[string]bool{}, true)] = true
		dfsFilter(r, c, p, fstate{f: f, acc: map[string]bool{}}, build(insts, slots, []uint64{1}, []string{"a", "b"}, []string{"p"}), false, visited, &edges, maxEdges)
		t.Logf("filter graph (own identity only): states=%d edges=%d", len(visited), edges)
		r.emit(ev{"ev": "Info", "what": "dfs", "foreign": false, "states": len(visited), "edges": edges, "closed": edges < maxEdges})
		total += edges
	}
	// (2) outside the assumption: another node signs with our identity (conformance only)
	{
		c := &codec{nonce: "F2", names: map[string]string{}}
		r.emit(ev{"ev": "Reset", "level": "filter", "foreign": true})
		visited := map[string]bool{}
		edges := 0
		f := f3.VerifNewFilter(local)
		visited[dumpKey(c, p, f, nil, false)] = true
		dfsFilter(r, c, p, fstate{f: f, acc: map[string]bool{}}, build(insts[:min(2, len(insts))], slots[:2], []uint64{1}, []string{"a", "b"}, []string{"p", "q"}), true, visited, &edges, maxEdges)
		t.Logf("filter graph (foreign users of our identity): states=%d edges=%d", len(visited), edges)
		r.emit(ev{"ev": "Info", "what": "dfs", "foreign": true, "states": len(visited), "edges": edges, "closed": edges < maxEdges})
		total += edges
	}
	// (3) random long histories over a wider alphabet (two senders, three signatures, more instances)
	nh := envInt("VERIF_FN", 60)
	for h := 0; h < nh; h++ {
		foreign := h%3 == 2
		c := &codec{nonce: fmt.Sprintf("F3-%d-%d", seed, h), names: map[string]string{}}
		r.emit(ev{"ev": "Reset", "level": "filter", "foreign": foreign})
		f := f3.VerifNewFilter(local)
		var accepted []mkey
		base := uint64(1 + rng.Intn(3))
		for s := 0; s < 40; s++ {
			k := mkey{inst: base + uint64(rng.Intn(3)), sender: uint64(1 + rng.Intn(2)), round: uint64(rng.Intn(2)), phase: uint8(3 + rng.Intn(2)), sig: []string{"a", "b", "c"}[rng.Intn(3)]}
			if rng.Intn(10) == 0 {
				base++
			}
			recv := rng.Intn(4) == 0
			if recv && !foreign {
				if len(accepted) == 0 {
					continue
				}
				k = accepted[rng.Intn(len(accepted))]
			}
			m := c.msg(k)
			e := ev{"m": c.jm(m)}
			if recv {
				pn := []string{"p", "q"}[rng.Intn(2)]
				f.ProcessReceive(p.byName(pn), m)
				e["ev"], e["peer"] = "FReceive", p.jpeer(p.byName(pn))
			} else {
				ok := f.ProcessBroadcast(m)
				e["ev"], e["ok"] = "FBroadcast", ok
				if ok {
					accepted = append(accepted, k)
				}
			}
			cur, seen, act := f.Dump()
			dumpInto(e, c, p, cur, seen, act)
			r.emit(e)
		}
	}
	t.Logf("events=%d edges=%d", r.n, total)
}

// ================================================================== runner level

type world struct {
	t      *testing.T
	ctx    context.Context
	clk    *clock.Mock
	sb     *signing.FakeBackend
	pt     gpbft.PowerEntries
	m      manifest.Manifest
	fec    *consensus.FakeEC
	ps     *pubsub.PubSub
	cs     *certstore.Store
	topic  *pubsub.Topic
	sub    *pubsub.Subscription
	pid    peer.ID
	peers  *peers
	enc    encoding.EncodeDecoder[*gpbft.PartialGMessage]
	fenceN int
}

func newWorld(t *testing.T, ctx context.Context) *world {
	ctx, clk := clock.WithMockClock(ctx)
	clk.Set(time.Unix(1_700_000_000, 0))
	w := &world{t: t, ctx: ctx, clk: clk, sb: signing.NewFakeBackend()}
	for i := 0; i < 3; i++ {
		k, _ := w.sb.GenerateKey()
		w.pt = append(w.pt, gpbft.PowerEntry{ID: gpbft.ActorID(i + 1), Power: gpbft.NewStoragePower(10), PubKey: k})
	}
	w.m = manifest.LocalDevnetManifest()
	w.m.NetworkName = "verifc12"
	w.m.BootstrapEpoch = 950
	w.m.EC.Finality = 900
	// zstd (the production default) allocates a large encoder per runner; the codec is not the subject here
	w.m.PubSub.CompressionEnabled = envInt("VERIF_ZSTD", 0) == 1
	w.fec = consensus.NewFakeEC(consensus.WithClock(clk), consensus.WithBootstrapEpoch(w.m.BootstrapEpoch), consensus.WithECPeriod(w.m.EC.Period),
		consensus.WithInitialPowerTable(w.pt), consensus.WithSeed(1))
	mn := mocknetwork.New()
	h, err := mn.GenPeer()
	if err != nil {
		t.Fatal(err)
	}
	w.pid = h.ID()
	w.peers = mkPeers(w.pid)
	w.ps, err = pubsub.NewGossipSub(ctx, h, pubsub.WithMessageSignaturePolicy(pubsub.StrictNoSign))
	if err != nil {
		t.Fatal(err)
	}
	w.cs, err = certstore.CreateStore(ctx, ds_sync.MutexWrap(datastore.NewMapDatastore()), 0, w.pt)
	if err != nil {
		t.Fatal(err)
	}
	w.topic, err = f3.VerifJoinGPBFTTopic(w.ps, w.m)
	if err != nil {
		t.Fatal(err)
	}
	w.sub, err = w.topic.Subscribe(pubsub.WithBufferSize(1024))
	if err != nil {
		t.Fatal(err)
	}
	if w.m.PubSub.CompressionEnabled {
		z, err := encoding.NewZSTD[*gpbft.PartialGMessage]()
		if err != nil {
			t.Fatal(err)
		}
		w.enc = z
	} else {
		w.enc = encoding.NewCBOR[*gpbft.PartialGMessage]()
	}
	return w
}

// drain publishes a unique fence on the topic and returns every GPBFT message delivered to the
// topic's local subscriber before it (pubsub handles published messages in order).
func (w *world) drain() []*gpbft.GMessage {
	w.fenceN++
	fence := []byte(fmt.Sprintf("verif-fence-%d-%d", os.Getpid(), w.fenceN))
	if err := w.topic.Publish(w.ctx, fence); err != nil {
		w.t.Fatalf("fence publish: %v", err)
	}
	var out []*gpbft.GMessage
	for {
		cctx, cancel := context.WithTimeout(w.ctx, 20*time.Second)
		msg, err := w.sub.Next(cctx)
		cancel()
		if err != nil {
			w.t.Fatalf("waiting for fence: %v", err)
		}
		if bytes.Equal(msg.Data, fence) {
			return out
		}
		if bytes.HasPrefix(msg.Data, []byte("verif-fence-")) {
			continue
		}
		var pm gpbft.PartialGMessage
		if err := w.enc.Decode(msg.Data, &pm); err != nil {
			w.t.Fatalf("undecodable message on the topic: %v", err)
		}
		out = append(out, pm.GMessage)
	}
}

type encObs struct {
	m       *gpbft.GMessage
	wal     []*gpbft.GMessage
	aborted bool
}

var errCut = errors.New("verif: call cut between WAL append and publish")

type history struct {
	w        *world
	r        *rec
	c        *codec
	dir      string
	run      *f3.VerifRunner
	encs     []encObs
	cutNext  bool
	tearFile string // newest WAL file if the last call was cut after growing it (else "")
	tearMax  int64  // bytes that call added to it
	lastWire []*gpbft.GMessage
}

func (h *history) hook(p *gpbft.PartialGMessage) error {
	snap, err := f3.VerifReadWAL(h.dir)
	if err != nil {
		h.w.t.Fatalf("reading WAL dir: %v", err)
	}
	o := encObs{m: p.GMessage, wal: snap}
	if h.cutNext {
		h.cutNext = false
		o.aborted = true
		h.encs = append(h.encs, o)
		return errCut
	}
	h.encs = append(h.encs, o)
	return nil
}

func (h *history) start() {
	run, err := f3.VerifNewRunner(h.w.ctx, h.w.cs, h.w.fec, h.w.ps, h.w.sb, h.w.m, h.dir, h.w.pid, h.w.topic, h.hook)
	if err != nil {
		h.w.t.Fatalf("newRunner: %v", err)
	}
	h.run = run
}

func (h *history) state(e ev) {
	cur, seen, act := h.run.FilterDump()
	dumpInto(e, h.c, h.w.peers, cur, seen, act)
	e["self"] = h.c.jms(h.run.SelfMessages())
	wal, err := f3.VerifReadWAL(h.dir)
	if err != nil {
		h.w.t.Fatalf("reading WAL dir: %v", err)
	}
	e["wal"] = h.c.jms(wal)
}

func walSizes(dir string) map[string]int64 {
	out := map[string]int64{}
	des, _ := os.ReadDir(dir)
	for _, d := range des {
		if strings.HasSuffix(d.Name(), ".wal.cbor") {
			if fi, err := d.Info(); err == nil {
				out[d.Name()] = fi.Size()
			}
		}
	}
	return out
}

func (h *history) callObs(e ev, err error) {
	encs := make([]ev, 0, len(h.encs))
	encWal := make([][]ev, 0, len(h.encs))
	for _, o := range h.encs {
		encs = append(encs, ev{"m": h.c.jm(o.m), "aborted": o.aborted})
		encWal = append(encWal, h.c.jms(o.wal))
	}
	e["enc"], e["encWal"] = encs, encWal
	h.lastWire = h.w.drain()
	e["wire"] = h.c.jms(h.lastWire)
	e["err"] = ""
	if err != nil {
		e["err"] = err.Error()
	}
	h.state(e)
	h.encs = nil
}

func (h *history) broadcast(k mkey, abort string) {
	m := h.c.msg(k)
	h.encs, h.cutNext = nil, abort == "encode"
	if abort == "notopic" {
		h.run.SetTopic(nil)
	}
	before := walSizes(h.dir)
	err := h.run.Broadcast(h.w.ctx, m)
	if abort == "notopic" {
		h.run.SetTopic(h.w.topic)
	}
	h.cutNext = false
	h.tearFile, h.tearMax = "", 0
	if len(h.encs) == 1 && h.encs[0].aborted {
		for n, sz := range walSizes(h.dir) {
			if sz > before[n] {
				h.tearFile, h.tearMax = n, sz-before[n]
			}
		}
	}
	e := ev{"ev": "Broadcast", "m": h.c.jm(m), "abort": abort, "val": sigValue[k.sig]}
	h.callObs(e, err)
	h.r.emit(e)
}

func (h *history) rebroadcast(inst, round uint64, phase uint8) {
	h.encs, h.cutNext, h.tearFile = nil, false, ""
	err := h.run.Rebroadcast(gpbft.Instant{ID: inst, Round: round, Phase: gpbft.Phase(phase)})
	e := ev{"ev": "Rebroadcast", "inst": inst, "round": round, "phase": phase}
	h.callObs(e, err)
	h.r.emit(e)
}

// restart: the old runner object is dropped without Stop (process death); optionally the
// record written last is cut short first (death inside the WAL append of the last call).
func (h *history) restart(tear int, ecAdvance bool) {
	torn := false
	if tear > 0 && h.tearFile != "" && int64(tear) < h.tearMax {
		// death inside the WAL append of the call that was cut: its record (and only it) is incomplete
		p := filepath.Join(h.dir, h.tearFile)
		if fi, err := os.Stat(p); err == nil {
			if err := os.Truncate(p, fi.Size()-int64(tear)); err == nil {
				torn = true
			}
		}
	}
	h.tearFile = ""
	if ecAdvance {
		// the node comes back later: the EC head (and with it any proposal) has moved
		h.w.clk.Add(h.w.m.EC.Period * time.Duration(1+tear%3))
	}
	_ = h.run.CloseWAL()
	h.start()
	e := ev{"ev": "Restart", "tear": torn, "ecAdvance": ecAdvance}
	h.state(e)
	h.r.emit(e)
}

func (h *history) purge(k uint64) {
	h.tearFile = ""
	_ = h.run.PurgeWAL(k)
	e := ev{"ev": "Purge", "k": k}
	h.state(e)
	h.r.emit(e)
}

func (h *history) receive(k mkey, pn string) {
	m := h.c.msg(k)
	h.run.FilterReceive(h.w.peers.byName(pn), m)
	e := ev{"ev": "Receive", "m": h.c.jm(m), "peer": h.w.peers.jpeer(h.w.peers.byName(pn))}
	h.state(e)
	h.r.emit(e)
}

// ------------------------------------------------------------------ operations (generated here or by TLC)

type op struct {
	Op     string `json:"op"` // B R X P E
	Inst   uint64 `json:"inst"`
	Sender uint64 `json:"sender"`
	Round  uint64 `json:"round"`
	Phase  uint8  `json:"phase"`
	Sig    string `json:"sig"`
	Abort  string `json:"abort"` // none | encode | notopic
	Tear   int    `json:"tear"`  // X: bytes cut from the newest WAL file (0 = none)
	EC     bool   `json:"ec"`    // X: the EC head moves while the node is down
	K      uint64 `json:"k"`     // P
	Peer   string `json:"peer"`  // E
}

func (h *history) exec(o op) {
	k := mkey{inst: o.Inst, sender: o.Sender, round: o.Round, phase: o.Phase, sig: o.Sig}
	switch o.Op {
	case "B":
		a := o.Abort
		if a == "" {
			a = "none"
		}
		h.broadcast(k, a)
	case "R":
		h.rebroadcast(o.Inst, o.Round, o.Phase)
	case "X":
		h.restart(o.Tear, o.EC)
	case "P":
		h.purge(o.K)
	case "E":
		h.receive(k, o.Peer)
	default:
		h.w.t.Fatalf("unknown op %q", o.Op)
	}
}

// gen produces a seeded history step by step: conflicting requests over a small moving window of
// instances, a few slots and three signatures, interleaved with cut calls, restarts (some tearing
// the record of the cut call, some with the EC head moving), rebroadcasts of current and old
// slots, purges, and echoes of messages that were observed on the wire.
type gen struct {
	rng    *rand.Rand
	cur    uint64
	floor  uint64
	rounds []uint64
	phases []uint8
	nsend  int
	used   []op
	wire   []op // messages observed on the topic (candidates for echoes)
	cut    bool
}

func newGen(rng *rand.Rand) *gen {
	return &gen{rng: rng, cur: uint64(1 + rng.Intn(6)), rounds: []uint64{0, uint64(1 + rng.Intn(2))},
		phases: [][]uint8{{3, 4}, {1, 3}, {4, 5}, {3, 4}}[rng.Intn(4)], nsend: 1 + rng.Intn(2)}
}

func (g *gen) next() op {
	rng := g.rng
	for {
		x := rng.Intn(100)
		switch {
		case x < 56:
			inst := g.cur
			switch y := rng.Intn(10); {
			case y < 2 && g.cur > 1:
				inst = g.cur - 1
			case y < 4:
				inst = g.cur + 1
			case y == 4:
				inst = g.cur + 2
			}
			o := op{Op: "B", Inst: inst, Sender: uint64(1 + rng.Intn(g.nsend)), Round: g.rounds[rng.Intn(2)], Phase: g.phases[rng.Intn(2)],
				Sig: []string{"a", "a", "b", "b", "c"}[rng.Intn(5)], Abort: "none"}
			if len(g.used) > 0 && rng.Intn(3) == 0 {
				u := g.used[rng.Intn(len(g.used))] // aim at a slot used before, with any signature
				o.Inst, o.Sender, o.Round, o.Phase = u.Inst, u.Sender, u.Round, u.Phase
			}
			if o.Inst < g.floor {
				o.Inst = g.floor // environment: nothing is requested below a purge bound
			}
			switch y := rng.Intn(100); {
			case y < 14:
				o.Abort = "encode"
			case y < 20:
				o.Abort = "notopic"
			}
			g.cut = o.Abort == "encode"
			if o.Inst > g.cur {
				g.cur = o.Inst
			}
			g.used = append(g.used, o)
			return o
		case x < 70:
			o := op{Op: "R", Inst: g.cur, Round: g.rounds[rng.Intn(2)], Phase: g.phases[rng.Intn(2)]}
			if len(g.used) > 0 && rng.Intn(4) != 0 {
				u := g.used[rng.Intn(len(g.used))]
				o.Inst, o.Round, o.Phase = u.Inst, u.Round, u.Phase
			}
			g.cut = false
			return o
		case x < 86:
			o := op{Op: "X", EC: rng.Intn(2) == 0}
			if g.cut && rng.Intn(2) == 0 {
				o.Tear = 1 + rng.Intn(40)
			}
			g.cut = false
			return o
		case x < 93:
			k := uint64(rng.Intn(int(g.cur) + 2))
			if k > g.floor {
				g.floor = k
			}
			g.cut = false
			return op{Op: "P", K: k}
		default:
			if len(g.wire) == 0 {
				continue
			}
			u := g.wire[rng.Intn(len(g.wire))]
			g.cut = false
			return op{Op: "E", Inst: u.Inst, Sender: u.Sender, Round: u.Round, Phase: u.Phase, Sig: u.Sig, Peer: []string{"p", "q"}[rng.Intn(2)]}
		}
	}
}

// observed: remember what was seen on the topic after request o (signature ids are per request)
func (g *gen) observed(o op, wire []*gpbft.GMessage) {
	if o.Op != "B" {
		return
	}
	for _, m := range wire {
		if m.Vote.Instance == o.Inst && uint64(m.Sender) == o.Sender && m.Vote.Round == o.Round && uint8(m.Vote.Phase) == o.Phase {
			g.wire = append(g.wire, o)
		}
	}
}

func TestRunnerHistories(t *testing.T) {
	out := os.Getenv("VERIF_OUT")
	if out == "" {
		t.Skip("VERIF_OUT not set")
	}
	fh, err := os.Create(out)
	if err != nil {
		t.Fatal(err)
	}
	defer fh.Close()
	r := &rec{w: bufio.NewWriterSize(fh, 1<<20)}
	defer r.w.Flush()
	seed := int64(envInt("VERIF_SEED", 1))
	nh := envInt("VERIF_N", 100)
	steps := envInt("VERIF_STEPS", 14)
	rng := rand.New(rand.NewSource(seed))
	ctx, cancel := context.WithCancel(context.Background())
	defer cancel()
	w := newWorld(t, ctx)
	base := t.TempDir()

	var scripted [][]op
	if p := os.Getenv("VERIF_OPS"); p != "" {
		fh, err := os.Open(p)
		if err != nil {
			t.Fatal(err)
		}
		sc := bufio.NewScanner(fh)
		sc.Buffer(make([]byte, 1<<20), 1<<24)
		for sc.Scan() {
			if len(bytes.TrimSpace(sc.Bytes())) == 0 {
				continue
			}
			var ops []op
			if err := json.Unmarshal(sc.Bytes(), &ops); err != nil {
				t.Fatalf("bad ops line: %v", err)
			}
			scripted = append(scripted, ops)
		}
		fh.Close()
	}
	hi := 0
	runOne := func(ops []op, origin string) {
		hi++
		h := &history{w: w, r: r, c: &codec{nonce: fmt.Sprintf("R-%d-%d", seed, hi), names: map[string]string{}}, dir: filepath.Join(base, fmt.Sprintf("h%d", hi))}
		// in a foreign history another node uses our identity: echoes carry signatures we never produced
		foreign := false
		for _, o := range ops {
			if o.Op == "E" && strings.HasPrefix(o.Peer, "!") {
				foreign = true
			}
		}
		r.emit(ev{"ev": "Reset", "level": "runner", "foreign": foreign, "origin": origin})
		h.start()
		for _, o := range ops {
			o.Peer = strings.TrimPrefix(o.Peer, "!")
			h.exec(o)
		}
		_ = h.run.CloseWAL()
		os.RemoveAll(h.dir)
	}
	for _, ops := range scripted {
		runOne(ops, "model")
	}
	for i := 0; i < nh; i++ {
		hi++
		h := &history{w: w, r: r, c: &codec{nonce: fmt.Sprintf("R-%d-%d", seed, hi), names: map[string]string{}}, dir: filepath.Join(base, fmt.Sprintf("h%d", hi))}
		r.emit(ev{"ev": "Reset", "level": "runner", "foreign": false, "origin": "random"})
		h.start()
		g := newGen(rng)
		for n := steps + rng.Intn(steps/2+1); n > 0; n-- {
			o := g.next()
			h.lastWire = nil
			h.exec(o)
			g.observed(o, h.lastWire)
		}
		_ = h.run.CloseWAL()
		os.RemoveAll(h.dir)
	}
	t.Logf("events=%d histories=%d", r.n, hi)
}

//go:build verif

// Driver for property C20 (certificate polling cadence).  Three recorders, no oracle:
//
//	TestPredictor  the REAL predictor (accessor) fed with TLC-generated progress sequences (open loop) and
//	               closed over certificate production patterns (one round = one update, wait = interval)
//	TestRounds     single polling rounds of the REAL Subscriber (CatchUp + poll through accessors) against
//	               mocknet peers (up to date, lagging, failing, serving a forged certificate), with
//	               certificates arriving locally before / during the poll: what poll() reports vs what
//	               the store did
//	TestRunLoop    the REAL Subscriber.run loop on a mock clock: servers inject request latency by advancing
//	               the clock, the armed delay is read from the predictedPollingInterval gauge (recorded by
//	               run right after timer.Reset) and cross-checked by stepping the clock to one tick before it
//
// One tick = 1ns of the mock clock.  The verdict is TLC's (spec/exchange/PollingTrace.tla).
package zzpolling

import (
	"bufio"
	"bytes"
	"context"
	"encoding/json"
	"fmt"
	"math"
	"math/rand"
	"os"
	"sort"
	"strconv"
	"sync"
	"sync/atomic"
	"testing"
	"time"

	"github.com/filecoin-project/go-f3/certexchange"
	"github.com/filecoin-project/go-f3/certexchange/polling"
	"github.com/filecoin-project/go-f3/certs"
	"github.com/filecoin-project/go-f3/certstore"
	"github.com/filecoin-project/go-f3/gpbft"
	"github.com/filecoin-project/go-f3/internal/clock"
	"github.com/filecoin-project/go-f3/sim"
	"github.com/filecoin-project/go-f3/sim/signing"
	"github.com/ipfs/go-datastore"
	ds_sync "github.com/ipfs/go-datastore/sync"
	"github.com/libp2p/go-libp2p/core/host"
	"github.com/libp2p/go-libp2p/core/network"
	"github.com/libp2p/go-libp2p/core/peer"
	"github.com/libp2p/go-libp2p/core/protocol"
	mocknetwork "github.com/libp2p/go-libp2p/p2p/net/mock"
	"go.opentelemetry.io/otel"
	"go.opentelemetry.io/otel/metric"
	"go.opentelemetry.io/otel/metric/noop"
)

const nn gpbft.NetworkName = "verif"
const huge = uint64(1) << 30

func clip(v uint64) uint64 {
	if v >= huge {
		return huge
	}
	return v
}

// ---------------------------------------------------------------------------- NDJSON
type recorder struct {
	f *os.File
	w *bufio.Writer
	n int
}

func newRecorder(t *testing.T) *recorder {
	p := os.Getenv("VERIF_OUT")
	if p == "" {
		t.Skip("VERIF_OUT not set")
	}
	f, err := os.Create(p)
	if err != nil {
		t.Fatal(err)
	}
	return &recorder{f: f, w: bufio.NewWriterSize(f, 1<<20)}
}
func (r *recorder) emit(m map[string]any) {
	b, err := json.Marshal(m)
	if err != nil {
		panic(err)
	}
	r.w.Write(b)
	r.w.WriteByte('\n')
	r.n++
}
func (r *recorder) close() { r.w.Flush(); r.f.Close() }

func seed() int64 {
	s, _ := strconv.ParseInt(os.Getenv("VERIF_SEED"), 10, 64)
	if s == 0 {
		s = 1
	}
	return s
}
func envInt(name string, def int) int {
	if v, err := strconv.Atoi(os.Getenv(name)); err == nil {
		return v
	}
	return def
}

// ---------------------------------------------------------------------------- production patterns (environment)
type seg struct {
	Dur    int64 `json:"dur"`
	T      int64 `json:"T"`
	Settle bool  `json:"settle"`
}

const big = int64(1000000000)

// produced: certificates that exist at time t (same definition as Produced in Polling.tla; TLC re-checks it)
func produced(segs []seg, t int64) uint64 {
	var n, start int64
	for _, s := range segs {
		if t <= start {
			break
		}
		e := start + s.Dur
		if s.T > 0 {
			n += (min(t, e) - start) / s.T
		}
		start = e
	}
	return uint64(n)
}

// ---------------------------------------------------------------------------- TestPredictor
func TestPredictor(t *testing.T) {
	rec := newRecorder(t)
	defer rec.close()
	rng := rand.New(rand.NewSource(seed()))
	// open loop: TLC-generated sequences
	nseq := 0
	if p := os.Getenv("VERIF_SEQS"); p != "" {
		f, err := os.Open(p)
		if err != nil {
			t.Fatal(err)
		}
		sc := bufio.NewScanner(f)
		for sc.Scan() {
			if len(bytes.TrimSpace(sc.Bytes())) == 0 {
				continue
			}
			var s struct {
				Mn, Init, Mx int64
				Seq          []uint64
			}
			if err := json.Unmarshal(sc.Bytes(), &s); err != nil {
				t.Fatal(err)
			}
			rec.emit(map[string]any{"ev": "PReset", "mn": s.Mn, "init": s.Init, "mx": s.Mx, "segs": []seg{}, "closed": false})
			p := polling.VerifNewPredictor(time.Duration(s.Mn), time.Duration(s.Init), time.Duration(s.Mx))
			var now int64
			for _, pr := range s.Seq {
				out := int64(p.Update(pr))
				rec.emit(map[string]any{"ev": "Update", "t": now, "progress": pr, "out": out})
				now += out
			}
			nseq++
		}
		f.Close()
	}
	// closed loop over production patterns: wait = returned interval, progress = certificates produced since
	runs := envInt("VERIF_PRUNS", 28)
	settings := [][3]int64{{1000, 30000, 120000}, {1000, 1000, 120000}, {1000, 120000, 120000}, {500, 10000, 60000}, {2000, 5000, 20000}, {100, 3000, 12000}, {1000, 2000, 4000}}
	for i := 0; i < runs; i++ {
		s := settings[rng.Intn(len(settings))]
		mn, init, mx := s[0], s[1], s[2]
		T1, T2 := mn+rng.Int63n(mx-mn+1), mn+rng.Int63n(mx-mn+1)
		var segs []seg
		rounds := 280
		switch i % 4 {
		case 0, 1:
			ph := rng.Int63n(T1)
			if ph > 0 {
				segs = append(segs, seg{ph, 0, false})
			}
			segs = append(segs, seg{big, T1, true})
		case 2:
			segs = []seg{{T1 * (20 + rng.Int63n(100)), T1, true}, {mx * (1 + rng.Int63n(20)), 0, false}, {big, T2, true}}
			rounds = 520
		case 3:
			tb := max(1, T1/(3+rng.Int63n(17)))
			segs = []seg{{T1 * (20 + rng.Int63n(100)), T1, true}, {tb * (10 + rng.Int63n(90)), tb, false}, {big, T2, true}}
			rounds = 520
		}
		rec.emit(map[string]any{"ev": "PReset", "mn": mn, "init": init, "mx": mx, "segs": segs, "closed": true})
		p := polling.VerifNewPredictor(time.Duration(mn), time.Duration(init), time.Duration(mx))
		now, next := init, uint64(0)
		for r := 0; r < rounds && now < 1500000000; r++ {
			avail := produced(segs, now)
			pr := avail - next
			next = avail
			out := int64(p.Update(pr))
			rec.emit(map[string]any{"ev": "Update", "t": now, "progress": pr, "out": out})
			now += out
		}
	}
	t.Logf("events=%d open-loop sequences=%d closed-loop runs=%d", rec.n, nseq, runs)
}

// ---------------------------------------------------------------------------- honest chain fixture
type fixture struct {
	backend *signing.FakeBackend
	tables  []gpbft.PowerEntries
	certs   []*certs.FinalityCertificate
	base    *gpbft.TipSet
}

func newFixture(t *testing.T) *fixture {
	f := &fixture{backend: signing.NewFakeBackend()}
	var pt gpbft.PowerEntries
	for i := 0; i < 4; i++ {
		k, _ := f.backend.GenerateKey()
		pt = append(pt, gpbft.PowerEntry{ID: gpbft.ActorID(i + 1), Power: gpbft.NewStoragePower(int64(1000 - 100*i)), PubKey: k})
	}
	sort.Sort(pt)
	f.tables = append(f.tables, pt)
	c, err := certs.MakePowerTableCID(pt)
	if err != nil {
		t.Fatal(err)
	}
	f.base = &gpbft.TipSet{Epoch: 0, Key: []byte("genesis"), PowerTable: c}
	return f
}

func (f *fixture) cert(i uint64) *certs.FinalityCertificate {
	for uint64(len(f.certs)) <= i {
		k := uint64(len(f.certs))
		cur := f.tables[k]
		diff := certs.PowerTableDiff{{ParticipantID: gpbft.ActorID(k%4 + 1), PowerDelta: gpbft.NewStoragePower(1)}}
		nxt, err := certs.ApplyPowerTableDiffs(cur, diff)
		if err != nil {
			panic(err)
		}
		ncid, err := certs.MakePowerTableCID(nxt)
		if err != nil {
			panic(err)
		}
		chain, err := gpbft.NewChain(f.base, &gpbft.TipSet{Epoch: int64(k + 1), Key: []byte(fmt.Sprintf("ts-%d", k)), PowerTable: ncid})
		if err != nil {
			panic(err)
		}
		j, err := sim.MakeJustification(f.backend, nn, chain, k, cur, nxt)
		if err != nil {
			panic(err)
		}
		c, err := certs.NewFinalityCertificate(certs.MakePowerTableDiff(cur, nxt), j)
		if err != nil {
			panic(err)
		}
		f.certs = append(f.certs, c)
		f.tables = append(f.tables, nxt)
		f.base = chain.Head()
	}
	return f.certs[i]
}

func pendingOf(cs *certstore.Store) uint64 {
	if l := cs.Latest(); l != nil {
		return l.GPBFTInstance + 1
	}
	return 0
}

// ---------------------------------------------------------------------------- instrumented peers
type peerSpec struct {
	Lag  uint64 `json:"lag"`  // instances behind production
	Lat  int64  `json:"lat"`  // ticks the clock advances while this peer answers
	Fail int    `json:"fail"` // percent of requests answered with a stream reset
	Evil bool   `json:"evil"` // serves a certificate with a forged signature at some instances
}

type reqRec struct {
	Peer  int    `json:"peer"`
	At    int64  `json:"at"`
	First uint64 `json:"first"`
}

type world struct {
	t        *testing.T
	ctx      context.Context
	fx       *fixture
	mock     *clock.Mock
	clockMu  sync.Mutex // serialises Mock.Add (main goroutine vs. request hooks)
	mn       mocknetwork.Mocknet
	subHost  host.Host
	subStore *certstore.Store
	servers  []*server

	mu          sync.Mutex
	reqs        []reqRec
	localTarget uint64 // certificates to put into the subscriber's own store while a request is in flight
	localPut    int
	arrivals    atomic.Int64
	wg          sync.WaitGroup
}

type server struct {
	w        *world
	idx      int
	spec     peerSpec
	host     host.Host
	store    *certstore.Store
	srv      *certexchange.Server
	failNow  bool
	evilFrom uint64
}

type teeStream struct {
	network.Stream
	buf bytes.Buffer
}

func (s *teeStream) Read(p []byte) (int, error) {
	n, err := s.Stream.Read(p)
	s.buf.Write(p[:n])
	return n, err
}

type hookHost struct {
	host.Host
	sv *server
}

func (h *hookHost) SetStreamHandler(pid protocol.ID, handler network.StreamHandler) {
	h.Host.SetStreamHandler(pid, func(s network.Stream) {
		sv, w := h.sv, h.sv.w
		w.arrivals.Add(1)
		w.wg.Add(1)
		defer w.wg.Done()
		w.clockMu.Lock()
		at := w.mock.Now().UnixNano()
		w.mu.Lock()
		fail := sv.failNow
		if !fail && sv.spec.Lag == 0 && !sv.spec.Evil && w.localTarget > 0 {
			// "local action": GPBFT finishes instances while the poll is in flight
			for i := pendingOf(w.subStore); i < w.localTarget; i++ {
				if err := w.subStore.Put(w.ctx, w.fx.cert(i)); err != nil {
					panic(err)
				}
				w.localPut++
			}
		}
		w.mu.Unlock()
		if sv.spec.Lat > 0 {
			w.mock.Add(time.Duration(sv.spec.Lat))
		}
		w.clockMu.Unlock()
		rec := reqRec{Peer: sv.idx, At: at, First: huge}
		if fail {
			w.mu.Lock()
			w.reqs = append(w.reqs, rec)
			w.mu.Unlock()
			_ = s.Reset()
			return
		}
		ts := &teeStream{Stream: s}
		handler(ts)
		var req certexchange.Request
		if err := req.UnmarshalCBOR(bytes.NewReader(ts.buf.Bytes())); err == nil {
			rec.First = clip(req.FirstInstance)
		}
		w.mu.Lock()
		w.reqs = append(w.reqs, rec)
		w.mu.Unlock()
	})
}

func newWorld(t *testing.T, fx *fixture, specs []peerSpec) (*world, context.Context, context.CancelFunc) {
	ctx, cancel := context.WithCancel(context.Background())
	ctx, mock := clock.WithMockClock(ctx)
	w := &world{t: t, ctx: ctx, fx: fx, mock: mock, mn: mocknetwork.New()}
	var err error
	if w.subHost, err = w.mn.GenPeer(); err != nil {
		t.Fatal(err)
	}
	w.subStore, err = certstore.CreateStore(ctx, ds_sync.MutexWrap(datastore.NewMapDatastore()), 0, fx.tables[0])
	if err != nil {
		t.Fatal(err)
	}
	for i, sp := range specs {
		h, err := w.mn.GenPeer()
		if err != nil {
			t.Fatal(err)
		}
		cs, err := certstore.CreateStore(ctx, ds_sync.MutexWrap(datastore.NewMapDatastore()), 0, fx.tables[0])
		if err != nil {
			t.Fatal(err)
		}
		sv := &server{w: w, idx: i, spec: sp, host: h, store: cs, evilFrom: math.MaxUint64}
		sv.srv = &certexchange.Server{NetworkName: nn, Host: &hookHost{Host: h, sv: sv}, Store: cs}
		if err := sv.srv.Start(ctx); err != nil {
			t.Fatal(err)
		}
		w.servers = append(w.servers, sv)
	}
	if err := w.mn.LinkAll(); err != nil {
		t.Fatal(err)
	}
	if err := w.mn.ConnectAllButSelf(); err != nil {
		t.Fatal(err)
	}
	return w, ctx, func() {
		for _, sv := range w.servers {
			_ = sv.srv.Stop(context.Background())
		}
		cancel()
		_ = w.mn.Close()
	}
}

// advance the peers' stores to what exists at this moment (minus their lag)
func (w *world) produce(target uint64, rng *rand.Rand) {
	for _, sv := range w.servers {
		upto := uint64(0)
		if target > sv.spec.Lag {
			upto = target - sv.spec.Lag
		}
		for i := pendingOf(sv.store); i < upto; i++ {
			c := w.fx.cert(i)
			if sv.spec.Evil && i >= sv.evilFrom {
				var bad certs.FinalityCertificate
				var buf bytes.Buffer
				_ = c.MarshalCBOR(&buf)
				_ = bad.UnmarshalCBOR(&buf)
				bad.Signature[0] ^= 0xff
				c = &bad
			}
			if err := sv.store.Put(w.ctx, c); err != nil {
				w.t.Fatal(err)
			}
		}
		sv.failNow = rng.Intn(100) < sv.spec.Fail
	}
}

func (w *world) putLocal(upto uint64) int {
	n := 0
	for i := pendingOf(w.subStore); i < upto; i++ {
		if err := w.subStore.Put(w.ctx, w.fx.cert(i)); err != nil {
			w.t.Fatal(err)
		}
		n++
	}
	return n
}

func (w *world) beginRound(localDuring uint64) {
	w.mu.Lock()
	w.reqs, w.localTarget, w.localPut = nil, localDuring, 0
	w.mu.Unlock()
}
func (w *world) endRound() ([]reqRec, int) {
	w.wg.Wait()
	w.mu.Lock()
	defer w.mu.Unlock()
	r := w.reqs
	if r == nil {
		r = []reqRec{}
	}
	w.localTarget = 0
	return r, w.localPut
}

func (w *world) newSubscriber(mn, init, mx int64) *polling.Subscriber {
	return &polling.Subscriber{Client: certexchange.Client{Host: w.subHost, NetworkName: nn}, Store: w.subStore, SignatureVerifier: w.fx.backend,
		MinimumPollInterval: time.Duration(mn), InitialPollInterval: time.Duration(init), MaximumPollInterval: time.Duration(mx)}
}

// ---------------------------------------------------------------------------- TestRounds (accessor-driven single rounds)
func TestRounds(t *testing.T) {
	rec := newRecorder(t)
	defer rec.close()
	rng := rand.New(rand.NewSource(seed()))
	fx := newFixture(t)
	scenarios := envInt("VERIF_ASCEN", 6)
	rounds := envInt("VERIF_AROUNDS", 60)
	pops := [][]peerSpec{
		{{}, {}, {}},
		{{}, {Lag: 2}, {Fail: 100}, {Lag: 1}},
		{{Lag: 1}, {Lag: 3}},
		{{}, {Evil: true}, {Fail: 50}},
		{{Fail: 100}, {Fail: 100}},
		{{}, {Lag: 5}, {Evil: true}, {Fail: 30}, {}},
	}
	for sc := 0; sc < scenarios; sc++ {
		specs := pops[sc%len(pops)]
		w, ctx, done := newWorld(t, fx, specs)
		sub := w.newSubscriber(1000, 30000, 120000)
		if err := polling.VerifInit(ctx, sub); err != nil {
			t.Fatal(err)
		}
		for _, sv := range w.servers {
			polling.VerifSeePeer(sub, sv.host.ID())
		}
		rec.emit(map[string]any{"ev": "AReset", "next": polling.VerifNextInstance(sub), "peers": specs})
		target := uint64(0)
		sprev := pendingOf(w.subStore)
		for r := 0; r < rounds; r++ {
			target += []uint64{0, 1, 1, 1, 2, 3, 5, 0, 1, 300}[rng.Intn(10)]
			for _, sv := range w.servers {
				if sv.spec.Evil && sv.evilFrom == math.MaxUint64 && rng.Intn(4) == 0 {
					sv.evilFrom = max(pendingOf(sv.store), target-min(target, 1))
				}
			}
			w.produce(target, rng)
			mode := rng.Intn(6) // 0: certificates arrive locally before the round, 1: during the poll, else: network only
			nb := polling.VerifNextInstance(sub)
			if mode == 0 {
				w.putLocal(target - min(target, uint64(rng.Intn(2))))
			}
			sb := pendingOf(w.subStore)
			during := uint64(0)
			if mode == 1 {
				during = target
			}
			w.beginRound(during)
			cprog, err := polling.VerifCatchUp(ctx, sub)
			ev := map[string]any{"ev": "ARound", "nb": nb, "sprev": sprev, "sb": sb, "cprog": clip(cprog), "polled": false, "progress": 0, "newcert": false,
				"target": target, "interr": err != nil}
			if err == nil && cprog == 0 {
				progress, newCert, err := polling.VerifPoll(ctx, sub)
				ev["polled"], ev["progress"], ev["newcert"], ev["interr"] = true, clip(progress), newCert, err != nil
			}
			reqs, localIn := w.endRound()
			ev["na"], ev["sa"], ev["local_in"], ev["nreq"] = polling.VerifNextInstance(sub), pendingOf(w.subStore), localIn, len(reqs)
			rec.emit(ev)
			sprev = pendingOf(w.subStore)
		}
		done()
	}
	t.Logf("events=%d", rec.n)
}

// ---------------------------------------------------------------------------- gauge interception (delay armed by run)
type hookProvider struct{ noop.MeterProvider }
type hookMeter struct{ noop.Meter }
type hookGauge struct{ noop.Float64Gauge }

var gaugeHook atomic.Pointer[func(float64)]

func (hookProvider) Meter(string, ...metric.MeterOption) metric.Meter { return hookMeter{} }
func (hookMeter) Float64Gauge(name string, _ ...metric.Float64GaugeOption) (metric.Float64Gauge, error) {
	if name == "f3_certexchange_polling_predicted_interval" {
		return hookGauge{}, nil
	}
	return noop.Float64Gauge{}, nil
}
func (hookGauge) Record(_ context.Context, v float64, _ ...metric.RecordOption) {
	if f := gaugeHook.Load(); f != nil {
		(*f)(v)
	}
}

var setProvider sync.Once

type roundEnd struct {
	armed, now      int64
	next, storeNext uint64
}

type runSpec struct {
	mn, init, mx int64
	segs         []seg
	peers        []peerSpec
	local        string // "none" | "between" | "during" | "mixed"
	rounds       int
}

// lockedAdd advances the mock clock and returns the time reached (read before any request hook can move it on)
func (w *world) lockedAdd(d int64) int64 {
	w.clockMu.Lock()
	defer w.clockMu.Unlock()
	w.mock.Add(time.Duration(d))
	return w.mock.Now().UnixNano()
}

func runLoop(t *testing.T, rec *recorder, fx *fixture, rng *rand.Rand, rs runSpec) {
	setProvider.Do(func() { otel.SetMeterProvider(hookProvider{}) })
	w, ctx, done := newWorld(t, fx, rs.peers)
	defer done()
	sub := w.newSubscriber(rs.mn, rs.init, rs.mx)
	if err := polling.VerifInit(ctx, sub); err != nil {
		t.Fatal(err)
	}
	endCh := make(chan roundEnd, 4)
	hook := func(v float64) {
		endCh <- roundEnd{armed: int64(math.Round(v * 1e9)), now: w.mock.Now().UnixNano(), next: polling.VerifNextInstance(sub), storeNext: pendingOf(w.subStore)}
	}
	gaugeHook.Store(&hook)
	defer gaugeHook.Store(nil)
	discover := make(chan peer.ID)
	runCtx, stop := context.WithCancel(ctx)
	finished := make(chan error, 1)
	go func() { finished <- polling.VerifRun(runCtx, sub, discover) }()
	for _, sv := range w.servers {
		discover <- sv.host.ID() // unbuffered: the loop (and its timer) exists once this returns
	}
	rec.emit(map[string]any{"ev": "RReset", "mn": rs.mn, "init": rs.init, "mx": rs.mx, "segs": rs.segs, "next": polling.VerifNextInstance(sub),
		"peers": rs.peers, "local": rs.local, "t0": w.mock.Now().UnixNano()})
	wait := rs.init
	prevNa, prevSa := polling.VerifNextInstance(sub), pendingOf(w.subStore)
	for r := 0; r < rs.rounds; r++ {
		tFire := w.mock.Now().UnixNano() + wait
		if tFire > 1800000000 {
			break
		}
		target := produced(rs.segs, tFire)
		w.produce(target, rng)
		mode := rs.local
		if mode == "mixed" {
			mode = []string{"none", "none", "between", "during"}[rng.Intn(4)]
		}
		if mode == "between" {
			w.putLocal(target)
		}
		sb := pendingOf(w.subStore)
		during := uint64(0)
		if mode == "during" {
			during = target
		}
		w.beginRound(during)
		arrivals0 := w.arrivals.Load()
		early := false
		tPoll := w.mock.Now().UnixNano()
		if wait > 1 {
			// the timer must not fire one tick before the delay reported by the gauge
			tPoll = w.lockedAdd(wait - 1)
			time.Sleep(300 * time.Microsecond)
			if w.arrivals.Load() != arrivals0 || len(endCh) > 0 {
				early = true
			}
		}
		if !early {
			tPoll = w.lockedAdd(min(wait, 1))
		}
		var end roundEnd
		select {
		case end = <-endCh:
		case <-time.After(20 * time.Second):
			rec.emit(map[string]any{"ev": "Stuck", "t": tPoll, "wait": wait})
			stop()
			return
		}
		reqs, localIn := w.endRound()
		rec.emit(map[string]any{"ev": "Round", "t": tPoll, "nb": prevNa, "na": end.next, "sprev": prevSa, "sb": sb, "sa": end.storeNext, "local_in": localIn,
			"rt": end.now - tPoll, "armed": end.armed, "reqs": reqs, "nreq": len(reqs), "early": early, "target": target})
		prevNa, prevSa = end.next, end.storeNext
		wait = end.armed
	}
	stop()
	select {
	case <-finished:
	case <-time.After(10 * time.Second):
		t.Fatal("run loop did not stop")
	}
}

func TestRunLoop(t *testing.T) {
	rec := newRecorder(t)
	defer rec.close()
	rng := rand.New(rand.NewSource(seed()))
	fx := newFixture(t)
	good := []peerSpec{{}, {Lat: 20}, {Lat: 50}}
	mixed := []peerSpec{{Lat: 20}, {Lag: 2, Lat: 50}, {Fail: 50}, {}}
	slow := []peerSpec{{Lat: 700}, {Lat: 2500}}
	full := envInt("VERIF_RROUNDS", 215)
	rT := func(lo, hi int64) int64 { return lo + rng.Int63n(hi-lo+1) }
	specs := []runSpec{
		{1000, 30000, 120000, []seg{{big, 30000, true}}, good, "none", full},
		{2000, 5000, 20000, []seg{{rT(1, 5000), 0, false}, {big, rT(4000, 10000), true}}, mixed, "none", full},
		{100, 3000, 12000, []seg{{100 * 2000, 2000, true}, {12000 * rT(2, 9), 0, false}, {big, rT(1000, 6000), true}}, good, "none", 115 + full},
		{500, 10000, 60000, []seg{{60 * 9000, 9000, true}, {rT(20, 60) * 600, 600, false}, {big, rT(5000, 30000), true}}, mixed, "none", 80 + full},
		{1000, 4000, 16000, []seg{{big, rT(3000, 6000), false}}, slow, "mixed", 70},
		{1000, 30000, 120000, []seg{{big, rT(10000, 60000), true}}, good, "between", full},
		{2000, 5000, 20000, []seg{{big, rT(4000, 10000), false}}, mixed, "mixed", 90},
		{1000, 4000, 16000, []seg{{big, rT(200, 400), false}}, slow, "none", 40}, // request time exceeds the interval: delay clamps at 0
	}
	n := envInt("VERIF_RRUNS", len(specs))
	for i := 0; i < n; i++ {
		runLoop(t, rec, fx, rng, specs[i%len(specs)])
	}
	t.Logf("events=%d runs=%d", rec.n, n)
}

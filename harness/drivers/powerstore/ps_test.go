//go:build verif

// Driver for the power-store stage of C15: runs seeded random histories on the real internal/powerstore.Store (its real
// background loop on a mock clock, a real certificate store, a model EC with null epochs and evolving tables that can
// refuse power-table lookups) and records one NDJSON event per step. The verdict is TLC's (spec/host/PowerStoreTrace.tla);
// this file contains no oracle.
package zzpowerstore

import (
	"bufio"
	"bytes"
	"context"
	"encoding/json"
	"errors"
	"fmt"
	"math/rand"
	"os"
	"reflect"
	"regexp"
	"runtime"
	"sort"
	"strconv"
	"strings"
	"sync"
	"sync/atomic"
	"testing"
	"time"

	"github.com/filecoin-project/go-f3/certs"
	"github.com/filecoin-project/go-f3/certstore"
	"github.com/filecoin-project/go-f3/ec"
	"github.com/filecoin-project/go-f3/gpbft"
	"github.com/filecoin-project/go-f3/internal/clock"
	"github.com/filecoin-project/go-f3/internal/powerstore"
	"github.com/filecoin-project/go-f3/manifest"
	"github.com/ipfs/go-datastore"
	"github.com/ipfs/go-datastore/query"
	ds_sync "github.com/ipfs/go-datastore/sync"
)

type ev map[string]any

type rec struct {
	w *bufio.Writer
	f *os.File
}

func newRec(t *testing.T) *rec {
	p := os.Getenv("VERIF_OUT")
	if p == "" {
		t.Skip("VERIF_OUT not set")
	}
	f, err := os.Create(p)
	if err != nil {
		t.Fatal(err)
	}
	return &rec{w: bufio.NewWriterSize(f, 1<<20), f: f}
}
func (r *rec) emit(e ev) {
	b, err := json.Marshal(e)
	if err != nil {
		panic(err)
	}
	r.w.Write(b)
	r.w.WriteByte('\n')
}
func (r *rec) close() { r.w.Flush(); r.f.Close() }

func envInt(k string, d int) int {
	if v := os.Getenv(k); v != "" {
		n, err := strconv.Atoi(v)
		if err == nil {
			return n
		}
	}
	return d
}

// ---------------------------------------------------------------- tables: abstract id -> real canonical table
var tables = map[int]gpbft.PowerEntries{}

func init() {
	mk := func(rows ...[2]int64) gpbft.PowerEntries {
		pt := gpbft.PowerEntries{}
		for _, r := range rows {
			pt = append(pt, gpbft.PowerEntry{ID: gpbft.ActorID(r[0]), Power: gpbft.NewStoragePower(r[1]), PubKey: gpbft.PubKey(fmt.Sprintf("key-%d", r[0]))})
		}
		sort.Sort(pt)
		return pt
	}
	tables[1] = mk([2]int64{1, 50}, [2]int64{3, 10}, [2]int64{4, 4})
	tables[2] = mk([2]int64{1, 60}, [2]int64{3, 10}, [2]int64{4, 4})            // one power changed
	tables[3] = mk([2]int64{1, 50}, [2]int64{3, 10}, [2]int64{4, 4}, [2]int64{7, 20}) // a member joined
	tables[4] = mk([2]int64{1, 5}, [2]int64{4, 44})                             // a member left, order changed
}

func tableID(pt gpbft.PowerEntries) int {
	if pt == nil {
		return -2
	}
	for id, t := range tables {
		if len(t) == len(pt) {
			same := true
			for i := range t {
				if t[i].ID != pt[i].ID || !t[i].Power.Equals(pt[i].Power) || !bytes.Equal(t[i].PubKey, pt[i].PubKey) {
					same = false
					break
				}
			}
			if same {
				return id
			}
		}
	}
	return -3
}

func diffID(d certs.PowerTableDiff) (int, int) {
	if len(d) == 0 {
		return 0, 0
	}
	for a, ta := range tables {
		for b, tb := range tables {
			if a != b && reflect.DeepEqual(certs.MakePowerTableDiff(ta, tb), d) {
				return a, b
			}
		}
	}
	return -3, -3
}

// ---------------------------------------------------------------- model EC
type tipset struct {
	epoch int64
}

func tskOf(e int64) gpbft.TipSetKey { return gpbft.TipSetKey(fmt.Sprintf("tipset-%08d", e)) }
func (t *tipset) Key() gpbft.TipSetKey { return tskOf(t.epoch) }
func (t *tipset) Beacon() []byte       { return []byte(fmt.Sprintf("beacon-%d", t.epoch)) }
func (t *tipset) Epoch() int64         { return t.epoch }
func (t *tipset) Timestamp() time.Time { return time.Unix(t.epoch*30, 0) }
func (t *tipset) String() string       { return fmt.Sprintf("ts@%d", t.epoch) }

type modelEC struct {
	mu       sync.Mutex
	chain    []int // chain[e] = table id, 0 = null epoch
	down     bool  // every power-table lookup fails
	failAt   int64 // lookups for this epoch fail (-9: none)
	getHeads atomic.Int64
}

var _ ec.Backend = (*modelEC)(nil)

func (m *modelEC) head() int64 { return int64(len(m.chain) - 1) }
func (m *modelEC) at(e int64) int64 {
	if e > m.head() {
		e = m.head()
	}
	for e > 0 && m.chain[e] == 0 {
		e--
	}
	return e
}
func (m *modelEC) GetTipsetByEpoch(_ context.Context, epoch int64) (ec.TipSet, error) {
	m.mu.Lock()
	defer m.mu.Unlock()
	if epoch < 0 {
		return nil, errors.New("negative epoch")
	}
	return &tipset{m.at(epoch)}, nil
}
func epochOfKey(tsk gpbft.TipSetKey) (int64, error) {
	s := string(tsk)
	if !strings.HasPrefix(s, "tipset-") {
		return 0, errors.New("unknown tipset key")
	}
	return strconv.ParseInt(s[7:], 10, 64)
}
func (m *modelEC) GetTipset(_ context.Context, tsk gpbft.TipSetKey) (ec.TipSet, error) {
	e, err := epochOfKey(tsk)
	if err != nil {
		return nil, err
	}
	m.mu.Lock()
	defer m.mu.Unlock()
	if e < 0 || e > m.head() || m.chain[e] == 0 {
		return nil, errors.New("no such tipset")
	}
	return &tipset{e}, nil
}
func (m *modelEC) GetHead(context.Context) (ec.TipSet, error) {
	m.mu.Lock()
	defer m.mu.Unlock()
	m.getHeads.Add(1)
	return &tipset{m.head()}, nil
}
func (m *modelEC) GetParent(_ context.Context, ts ec.TipSet) (ec.TipSet, error) {
	m.mu.Lock()
	defer m.mu.Unlock()
	if ts.Epoch() <= 0 {
		return nil, errors.New("genesis has no parent")
	}
	return &tipset{m.at(ts.Epoch() - 1)}, nil
}
func (m *modelEC) GetPowerTable(_ context.Context, tsk gpbft.TipSetKey) (gpbft.PowerEntries, error) {
	e, err := epochOfKey(tsk)
	if err != nil {
		return nil, err
	}
	m.mu.Lock()
	defer m.mu.Unlock()
	if m.down || e == m.failAt {
		return nil, errors.New("state not available")
	}
	if e < 0 || e > m.head() || m.chain[e] == 0 {
		return nil, errors.New("no such tipset")
	}
	return append(gpbft.PowerEntries{}, tables[m.chain[e]]...), nil
}
func (m *modelEC) Finalize(context.Context, gpbft.TipSetKey) error { return nil }

// ---------------------------------------------------------------- datastore whose deletes can fail per key
type flakyDS struct {
	datastore.Datastore
	mu   sync.Mutex
	keep map[int64]bool
}

var diffKeyRe = regexp.MustCompile(`/powerdiffs/([0-9A-F]{16})$`)

func keyEpoch(k string) (int64, bool) {
	m := diffKeyRe.FindStringSubmatch(k)
	if m == nil {
		return 0, false
	}
	v, err := strconv.ParseInt(m[1], 16, 64)
	return v, err == nil
}
func (f *flakyDS) Delete(c context.Context, k datastore.Key) error {
	if e, ok := keyEpoch(k.String()); ok {
		f.mu.Lock()
		kp := f.keep[e]
		f.mu.Unlock()
		if kp {
			return errors.New("injected delete failure")
		}
	}
	return f.Datastore.Delete(c, k)
}

// ---------------------------------------------------------------- one history
type hist struct {
	t                 *testing.T
	r                 *rec
	rng               *rand.Rand
	ctx               context.Context
	clk               *clock.Mock
	m                 manifest.Manifest
	ec                *modelEC
	ds                *flakyDS
	cs                *certstore.Store
	ps                *powerstore.Store
	heads             []int64
	fin, boot, lb     int64
	initial           uint64
	lastTickEngaged   bool
}

var runRe = regexp.MustCompile(`(?s)goroutine \d+ \[([^\]]*)\]:\n[^\n]*\n[^\n]*\n(?:[^\n]+\n)*?[^\n]*powerstore\.\(\*Store\)\.run`)

// waitParked blocks until the loop goroutine of the power store has made `want` iterations and is back in its select.
func (h *hist) waitParked(want int64) {
	deadline := time.Now().Add(20 * time.Second)
	buf := make([]byte, 1<<20)
	for {
		if h.ec.getHeads.Load() >= want {
			n := runtime.Stack(buf, true)
			for _, g := range strings.Split(string(buf[:n]), "\n\n") {
				if strings.Contains(g, "powerstore.(*Store).run(") && !strings.Contains(g, "powerstore.(*Store).run.func") {
					hdr := g[:strings.Index(g, "\n")]
					if strings.Contains(hdr, "[select") {
						return
					}
				}
			}
		}
		if time.Now().After(deadline) {
			h.t.Fatalf("power store loop did not park (iterations %d, want %d)", h.ec.getHeads.Load(), want)
		}
		time.Sleep(200 * time.Microsecond)
	}
}

func (h *hist) committee(inst uint64) gpbft.PowerEntries {
	if inst < h.initial+uint64(h.lb) {
		return tables[h.ec.chain[h.ec.at(h.boot-h.fin)]]
	}
	return tables[h.ec.chain[h.heads[inst-uint64(h.lb)-h.initial]]]
}

func (h *hist) lastFinal() int64 {
	if len(h.heads) == 0 {
		return h.ec.at(h.boot - h.fin)
	}
	return h.heads[len(h.heads)-1]
}

func (h *hist) start() {
	ps, err := powerstore.New(h.ctx, h.ec, h.ds, h.cs, h.m)
	if err != nil {
		h.t.Fatal(err)
	}
	if err := ps.Start(h.ctx); err != nil {
		h.t.Fatal(err)
	}
	h.ps = ps
	h.waitParked(h.ec.getHeads.Load())
}

func newHist(t *testing.T, r *rec, rng *rand.Rand, fin, boot, lb int64, initial uint64) *hist {
	ctx, clk := clock.WithMockClock(context.Background())
	m := manifest.LocalDevnetManifest()
	m.EC.Finality, m.BootstrapEpoch, m.CommitteeLookback, m.InitialInstance = fin, boot, uint64(lb), initial
	h := &hist{t: t, r: r, rng: rng, ctx: ctx, clk: clk, m: m, fin: fin, boot: boot, lb: lb, initial: initial}
	chain := make([]int, boot+1)
	cur := 1
	for e := range chain {
		if e > 0 && int64(e) < boot && rng.Intn(4) == 0 {
			chain[e] = 0
			continue
		}
		if e > 0 && rng.Intn(3) == 0 {
			cur = 1 + rng.Intn(len(tables))
		}
		chain[e] = cur
	}
	h.ec = &modelEC{chain: chain, failAt: -9}
	h.ds = &flakyDS{Datastore: ds_sync.MutexWrap(datastore.NewMapDatastore()), keep: map[int64]bool{}}
	cs, err := certstore.CreateStore(ctx, h.ds, initial, h.committee(initial))
	if err != nil {
		t.Fatal(err)
	}
	h.cs = cs
	r.emit(ev{"ev": "Reset", "fin": fin, "boot": boot, "init": initial, "lb": lb, "chain": chain})
	h.start()
	return h
}

func (h *hist) stop() {
	if err := h.ps.Stop(context.Background()); err != nil {
		h.t.Fatal(err)
	}
}

func (h *hist) opHead() {
	nulls := 0
	if h.rng.Intn(3) == 0 {
		nulls = 1 + h.rng.Intn(2)
	}
	t := h.ec.chain[h.ec.head()]
	if h.rng.Intn(5) < 2 {
		t = 1 + h.rng.Intn(len(tables))
	}
	h.ec.mu.Lock()
	for i := 0; i < nulls; i++ {
		h.ec.chain = append(h.ec.chain, 0)
	}
	h.ec.chain = append(h.ec.chain, t)
	h.ec.mu.Unlock()
	h.r.emit(ev{"ev": "Head", "nulls": nulls, "t": t})
}

func (h *hist) opCert(far bool) {
	lo, hi := h.lastFinal(), h.ec.head()
	var cands []int64
	for e := lo; e <= hi; e++ {
		if h.ec.chain[e] != 0 {
			cands = append(cands, e)
		}
	}
	target := cands[h.rng.Intn(len(cands))]
	if far {
		target = cands[len(cands)-1-h.rng.Intn(min(2, len(cands)))]
	} else if len(cands) > 3 {
		target = cands[h.rng.Intn(3)]
	}
	inst := h.initial + uint64(len(h.heads))
	chain := &gpbft.ECChain{}
	for e := lo; e <= target && chain.Len() < gpbft.ChainMaxLen; e++ {
		if h.ec.chain[e] == 0 {
			continue
		}
		ptcid, err := certs.MakePowerTableCID(tables[h.ec.chain[e]])
		if err != nil {
			h.t.Fatal(err)
		}
		chain = chain.Append(&gpbft.TipSet{Epoch: e, Key: tskOf(e), PowerTable: ptcid})
		target2 := e
		_ = target2
	}
	target = chain.Head().Epoch
	h.heads = append(h.heads, target)
	cur, next := h.committee(inst), h.committee(inst+1)
	ptcid, err := certs.MakePowerTableCID(next)
	if err != nil {
		h.t.Fatal(err)
	}
	cert := &certs.FinalityCertificate{GPBFTInstance: inst, ECChain: chain, SupplementalData: gpbft.SupplementalData{PowerTable: ptcid},
		Signature: []byte("sig"), PowerTableDelta: certs.MakePowerTableDiff(cur, next)}
	err = h.cs.Put(h.ctx, cert)
	h.r.emit(ev{"ev": "Cert", "h": target, "ok": err == nil})
	if err != nil {
		h.t.Fatalf("certstore refused a well-formed certificate: %v", err)
	}
}

func (h *hist) dsKeys() [][3]int64 {
	res, err := h.ds.Query(h.ctx, query.Query{Prefix: "/ohshitstore/powerdiffs"})
	if err != nil {
		h.t.Fatal(err)
	}
	defer res.Close()
	out := [][3]int64{}
	for r := range res.Next() {
		if r.Error != nil {
			h.t.Fatal(r.Error)
		}
		e, ok := keyEpoch(r.Key)
		if !ok {
			h.t.Fatalf("unexpected power store key %q", r.Key)
		}
		var d certs.PowerTableDiff
		a, b := -3, -3
		if err := d.UnmarshalCBOR(bytes.NewReader(r.Value)); err == nil {
			a, b = diffID(d)
		}
		out = append(out, [3]int64{e, int64(a), int64(b)})
	}
	sort.Slice(out, func(i, j int) bool { return out[i][0] < out[j][0] })
	return out
}

func (h *hist) opTick() {
	failAt := int64(-9)
	le, lp := powerstore.VerifMem(h.ps)
	target := h.ec.head() - h.fin
	if lp != nil && h.rng.Intn(6) == 0 {
		var c []int64
		for e := le + 1; e <= target; e++ {
			if e >= 0 && h.ec.chain[e] != 0 {
				c = append(c, e)
			}
		}
		if len(c) > 0 {
			failAt = c[h.rng.Intn(len(c))]
		}
	}
	keep := []int64{}
	if h.rng.Intn(5) == 0 {
		for _, k := range h.dsKeys() {
			if h.rng.Intn(2) == 0 {
				keep = append(keep, k[0])
			}
		}
	}
	h.ec.mu.Lock()
	h.ec.failAt = failAt
	h.ec.mu.Unlock()
	h.ds.mu.Lock()
	h.ds.keep = map[int64]bool{}
	for _, k := range keep {
		h.ds.keep[k] = true
	}
	h.ds.mu.Unlock()
	want := h.ec.getHeads.Load() + 1
	h.clk.Add(2 * h.m.EC.Period)
	h.waitParked(want)
	h.ec.mu.Lock()
	h.ec.failAt = -9
	h.ec.mu.Unlock()
	le, lp = powerstore.VerifMem(h.ps)
	h.lastTickEngaged = lp != nil
	h.r.emit(ev{"ev": "Tick", "failAt": failAt, "keep": keep, "le": le, "lp": tableID(lp), "keys": h.dsKeys()})
}

func (h *hist) opRestart() {
	h.stop()
	h.start()
	h.r.emit(ev{"ev": "Restart", "engaged": h.lastTickEngaged})
}

func (h *hist) get(e int64, ecOK bool) {
	h.ec.mu.Lock()
	h.ec.down = !ecOK
	h.ec.mu.Unlock()
	pt, err := h.ps.GetPowerTable(h.ctx, tskOf(e))
	h.ec.mu.Lock()
	h.ec.down = false
	h.ec.mu.Unlock()
	res := -1
	if err == nil {
		res = tableID(pt)
		if res == -2 {
			res = -3
		}
	}
	h.r.emit(ev{"ev": "Get", "e": e, "ecOK": ecOK, "res": res})
}

func (h *hist) gets() {
	var nn []int64
	for e := int64(0); e <= h.ec.head(); e++ {
		if h.ec.chain[e] != 0 {
			nn = append(nn, e)
		}
	}
	if len(nn) <= 10 {
		for _, e := range nn {
			h.get(e, false)
		}
	} else {
		le, _ := powerstore.VerifMem(h.ps)
		h.get(h.ec.at(max(le, 0)), false)
		for i := 0; i < 8; i++ {
			h.get(nn[h.rng.Intn(len(nn))], false)
		}
	}
	h.get(nn[h.rng.Intn(len(nn))], true)
}

func (h *hist) run(steps int) {
	// phases make the interesting regimes likely: EC runs ahead (engage), F3 catches up (stop), again
	phase := 0
	for i := 0; i < steps; i++ {
		if h.rng.Intn(12) == 0 {
			phase = (phase + 1) % 3
		}
		x := h.rng.Intn(100)
		switch {
		case x < 6:
			h.opRestart()
		case x < 40:
			h.opTick()
		case phase != 1 && x < 85, phase == 1 && x < 55:
			h.opHead()
		default:
			if len(h.heads) < 40 {
				h.opCert(phase == 1)
			} else {
				h.opHead()
			}
		}
		if h.ec.head() > 60 {
			break
		}
		h.gets()
	}
	h.stop()
}

func TestPowerStoreHistories(t *testing.T) {
	r := newRec(t)
	defer r.close()
	seed := int64(envInt("VERIF_SEED", 1))
	n, steps := envInt("VERIF_N", 30), envInt("VERIF_STEPS", 60)
	fin, boot, lb, initial := int64(envInt("VERIF_FIN", 2)), int64(envInt("VERIF_BOOT", 2)), int64(envInt("VERIF_LB", 1)), uint64(envInt("VERIF_INIT", 0))
	for i := 0; i < n; i++ {
		rng := rand.New(rand.NewSource(seed*100003 + int64(i)*7919 + fin*31 + boot*17 + lb))
		h := newHist(t, r, rng, fin, boot, lb, initial)
		h.run(steps)
	}
}

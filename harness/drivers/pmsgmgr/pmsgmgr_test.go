//go:build verif

// Driver for the manager stage of property C13: the production pmsg.PartialMessageManager (built with the public
// constructor on a real pubsub + chain exchange and Start()ed, so its two goroutines run the production loop bodies) is
// fed one event at a time through its public API; after every event the driver waits until the loop is idle (input
// channels empty, then a no-op event taken), drains the completed-message queue, and writes
//
//	one NDJSON line per input  (Reset, Complete, Arrive, Notify, Admit, Own, Tick, Prune, Drain, End) with a read-only dump of
//	                           the manager's buffers / index and of the chain exchange caches, and
//	one NDJSON line per emitted message (Emit) with: which arrival it is (object identity), instance, slot, announced key,
//	                           the chain it was completed with, the justification value, byte-equality with the original
//	                           full message, the verdict of the real stage 2 (FullyValidateMessage) and of the real one-shot
//	                           validation of an independently completed copy.
//
// Messages are real, really signed GMessages of a 4-member committee; the wire form is produced by the production
// ToPartialGMessage; stage 1 is the real PartiallyValidateMessage and only what it accepts is fed (unless the history is a
// "bypass" history, which hands the manager messages the way a faulty caller could).
// Nothing in this file knows what the manager should do: the judgement is TLC's (spec/msg/PartialManagerTrace.tla).
//
// Abstraction: tipset id t -> TipSet{Epoch: 100+t, Key: "ts<t>"}; a chain is the list of its tipset ids; a key is logged as
// the id list of the chain it is the key of (through a registry of generated chains; unknown -> [-1]).
package zzpmsgmgr

import (
	"bufio"
	"bytes"
	"context"
	"encoding/json"
	"errors"
	"fmt"
	"math/rand"
	"os"
	"runtime"
	"sort"
	"strconv"
	"strings"
	"testing"
	"time"

	"github.com/filecoin-project/go-bitfield"
	"github.com/filecoin-project/go-f3/chainexchange"
	"github.com/filecoin-project/go-f3/gpbft"
	"github.com/filecoin-project/go-f3/internal/clock"
	"github.com/filecoin-project/go-f3/manifest"
	"github.com/filecoin-project/go-f3/pmsg"
	"github.com/filecoin-project/go-f3/sim/signing"
	"github.com/libp2p/go-libp2p"
	pubsub "github.com/libp2p/go-libp2p-pubsub"
)

const (
	netName     = "verif-pmsgmgr"
	baseInst    = uint64(10) // current instance of the validating participant; messages live in 10..13
	lookback    = uint64(4)
	barrierInst = uint64(1) << 62 // reserved instance of the no-op events used to wait for the goroutines
	rebroadcast = 2 * time.Second
)

var (
	beacon = []byte("verif-beacon")
	ptCid  = gpbft.MakeCid([]byte("pt"))
)

type ev map[string]any

// ---------------------------------------------------------------------------- chains

func tipset(t int) *gpbft.TipSet {
	return &gpbft.TipSet{Epoch: int64(100 + t), Key: []byte("ts" + strconv.Itoa(t)), PowerTable: ptCid}
}

// mk builds a fresh ECChain (no cached key) from tipset ids; the zero chain for the empty list.
func mk(ids []int) *gpbft.ECChain {
	c := &gpbft.ECChain{}
	for _, t := range ids {
		c.TipSets = append(c.TipSets, tipset(t))
	}
	return c
}

// abs reads a chain back as tipset ids from its content.
func abs(c *gpbft.ECChain) []int {
	out := []int{}
	if c == nil {
		return out
	}
	for _, ts := range c.TipSets {
		s := string(ts.Key)
		n, err := strconv.Atoi(strings.TrimPrefix(s, "ts"))
		if !strings.HasPrefix(s, "ts") || err != nil || int64(100+n) != ts.Epoch {
			n = -1
		}
		out = append(out, n)
	}
	return out
}

func ints(a []int) []int {
	if a == nil {
		return []int{}
	}
	return a
}

// ---------------------------------------------------------------------------- committee, signing, validating participant

type world struct {
	t    *testing.T
	bw   *bufio.Writer
	rng  *rand.Rand
	ctx  context.Context
	sb   *signing.FakeBackend
	pt   *gpbft.PowerTable
	keys map[gpbft.ActorID]gpbft.PubKey
	agg  gpbft.Aggregate
	supp gpbft.SupplementalData
	part *gpbft.Participant
	ps   *pubsub.PubSub
	jc   map[string]*gpbft.Justification

	// per history
	pmm      *pmsg.PartialMessageManager
	cx       *chainexchange.PubSubChainExchange
	clk      *clock.Mock
	out      <-chan gpbft.PartiallyValidatedMessage
	hold     bool
	bypass   bool
	registry map[gpbft.ECChainKey][]int
	arrivals map[*gpbft.PartialGMessage]*arrival
	lines    []ev

	nMid, nHist, nEvents, nEmits int
}

type arrival struct {
	mid  int
	orig *gpbft.GMessage        // the full message the sender signed
	wire *gpbft.PartialGMessage // private copy of what went over the wire
	p1   string
}

type vhost struct{ w *world }

func (h *vhost) GetProposal(context.Context, uint64) (*gpbft.SupplementalData, *gpbft.ECChain, error) {
	return &h.w.supp, mk([]int{1, 2}), nil
}
func (h *vhost) GetCommittee(context.Context, uint64) (*gpbft.Committee, error) {
	return &gpbft.Committee{PowerTable: h.w.pt, Beacon: beacon, AggregateVerifier: h.w.agg}, nil
}
func (h *vhost) NetworkName() gpbft.NetworkName                      { return netName }
func (h *vhost) RequestBroadcast(*gpbft.MessageBuilder) error        { return nil }
func (h *vhost) RequestRebroadcast(gpbft.Instant) error              { return nil }
func (h *vhost) Time() time.Time                                     { return time.Unix(1000, 0) }
func (h *vhost) SetAlarm(time.Time)                                  {}
func (h *vhost) Verify(k gpbft.PubKey, m, s []byte) error            { return h.w.sb.Verify(k, m, s) }
func (h *vhost) Aggregate(k []gpbft.PubKey) (gpbft.Aggregate, error) { return h.w.sb.Aggregate(k) }
func (h *vhost) ReceiveDecision(context.Context, *gpbft.Justification) (time.Time, error) {
	return time.Unix(5000, 0), nil
}

func newWorld(t *testing.T) (*world, func()) {
	out := os.Getenv("VERIF_OUT")
	if out == "" {
		t.Skip("VERIF_OUT not set")
	}
	f, err := os.Create(out)
	if err != nil {
		t.Fatal(err)
	}
	w := &world{t: t, bw: bufio.NewWriterSize(f, 1<<20), rng: rand.New(rand.NewSource(int64(envInt("VERIF_SEED", 1)))), ctx: context.Background(),
		sb: signing.NewFakeBackend(), pt: gpbft.NewPowerTable(), keys: map[gpbft.ActorID]gpbft.PubKey{}, jc: map[string]*gpbft.Justification{}}
	var entries []gpbft.PowerEntry
	for _, id := range []gpbft.ActorID{1, 2, 3, 4} {
		k, _ := w.sb.GenerateKey()
		w.keys[id] = k
		entries = append(entries, gpbft.PowerEntry{ID: id, Power: gpbft.NewStoragePower(1_000_000_000), PubKey: k})
	}
	if err := w.pt.Add(entries...); err != nil {
		t.Fatal(err)
	}
	if w.agg, err = w.sb.Aggregate(w.pt.Entries.PublicKeys()); err != nil {
		t.Fatal(err)
	}
	w.supp = gpbft.SupplementalData{PowerTable: gpbft.MakeCid([]byte("supp"))}
	if w.part, err = gpbft.NewParticipant(&vhost{w}, gpbft.WithCommitteeLookback(lookback), gpbft.WithMaxCachedMessagesPerInstance(256)); err != nil {
		t.Fatal(err)
	}
	if err := w.part.StartInstanceAt(baseInst, time.Unix(1000, 0)); err != nil {
		t.Fatal(err)
	}
	h, err := libp2p.New(libp2p.NoListenAddrs)
	if err != nil {
		t.Fatal(err)
	}
	if w.ps, err = pubsub.NewGossipSub(w.ctx, h); err != nil {
		t.Fatal(err)
	}
	return w, func() {
		w.closeHistory()
		w.bw.Flush()
		f.Close()
		_ = h.Close()
		t.Logf("VERIF_STATS histories=%d events=%d emits=%d", w.nHist, w.nEvents, w.nEmits)
	}
}

func (w *world) sign(id gpbft.ActorID, payload []byte) []byte {
	s, err := w.sb.Sign(w.ctx, w.keys[id], payload)
	if err != nil {
		w.t.Fatal(err)
	}
	return s
}

// justification: a strong quorum (members 1,2,3) really signed <inst, round, phase, value>
func (w *world) justification(inst, round uint64, phase gpbft.Phase, value []int) *gpbft.Justification {
	key := fmt.Sprint(inst, round, phase, value)
	if j, ok := w.jc[key]; ok {
		c := *j
		c.Vote.Value = mk(value)
		return &c
	}
	pl := gpbft.Payload{Instance: inst, Round: round, Phase: phase, SupplementalData: w.supp, Value: mk(value)}
	payload := pl.MarshalForSigning(netName)
	bf := bitfield.New()
	var mask []int
	var sigs [][]byte
	for i, e := range w.pt.Entries {
		if e.ID <= 3 {
			mask = append(mask, i)
			sigs = append(sigs, w.sign(e.ID, payload))
			bf.Set(uint64(i))
		}
	}
	ag, err := w.agg.Aggregate(mask, sigs)
	if err != nil {
		w.t.Fatal(err)
	}
	j := &gpbft.Justification{Vote: pl, Signers: bf, Signature: ag}
	w.jc[key] = j
	c := *j
	c.Vote.Value = mk(value)
	return &c
}

// kinds of (valid) messages; jk = what the justification is for: "none", "val" (the vote value), "bot" (bottom)
type kind struct {
	name   string
	phase  gpbft.Phase
	round  uint64
	jphase gpbft.Phase
	jround uint64
	jk     string
	ticket bool
}

var kinds = []kind{
	{"Q", gpbft.QUALITY_PHASE, 0, 0, 0, "none", false},
	{"P0", gpbft.PREPARE_PHASE, 0, 0, 0, "none", false},
	{"P1", gpbft.PREPARE_PHASE, 1, gpbft.PREPARE_PHASE, 0, "val", false},
	{"P1b", gpbft.PREPARE_PHASE, 1, gpbft.COMMIT_PHASE, 0, "bot", false},
	{"V1", gpbft.CONVERGE_PHASE, 1, gpbft.PREPARE_PHASE, 0, "val", true},
	{"V1b", gpbft.CONVERGE_PHASE, 1, gpbft.COMMIT_PHASE, 0, "bot", true},
	{"C0", gpbft.COMMIT_PHASE, 0, gpbft.PREPARE_PHASE, 0, "val", false},
	{"C1", gpbft.COMMIT_PHASE, 1, gpbft.PREPARE_PHASE, 1, "val", false},
	{"D", gpbft.DECIDE_PHASE, 0, gpbft.COMMIT_PHASE, 0, "val", false},
}

func kindOf(name string) kind {
	for _, k := range kinds {
		if k.name == name {
			return k
		}
	}
	panic("unknown kind " + name)
}

var phaseNames = map[gpbft.Phase]string{gpbft.QUALITY_PHASE: "QUALITY", gpbft.CONVERGE_PHASE: "CONVERGE", gpbft.PREPARE_PHASE: "PREPARE",
	gpbft.COMMIT_PHASE: "COMMIT", gpbft.DECIDE_PHASE: "DECIDE"}

// full builds the message <kind> of sender for value at inst, really signed.
func (w *world) full(k kind, sender gpbft.ActorID, inst uint64, value []int) *gpbft.GMessage {
	pl := gpbft.Payload{Instance: inst, Round: k.round, Phase: k.phase, SupplementalData: w.supp, Value: mk(value)}
	m := &gpbft.GMessage{Sender: sender, Vote: pl, Signature: w.sign(sender, pl.MarshalForSigning(netName))}
	if k.ticket {
		mb := &gpbft.MessageBuilder{NetworkName: netName, PowerTable: w.pt, Payload: pl, BeaconForTicket: beacon}
		sbd, err := mb.PrepareSigningInputs(sender)
		if err != nil {
			w.t.Fatal(err)
		}
		m.Ticket = w.sign(sender, sbd.VRFToSign)
	}
	switch k.jk {
	case "val":
		m.Justification = w.justification(inst, k.jround, k.jphase, value)
	case "bot":
		m.Justification = w.justification(inst, k.jround, k.jphase, nil)
	}
	return m
}

func copyChain(c *gpbft.ECChain) *gpbft.ECChain {
	if c == nil {
		return nil
	}
	if len(c.TipSets) == 0 {
		return &gpbft.ECChain{}
	}
	return &gpbft.ECChain{TipSets: append([]*gpbft.TipSet{}, c.TipSets...)}
}

func copyMsg(m *gpbft.GMessage) *gpbft.GMessage {
	c := *m
	c.Vote.Value = copyChain(m.Vote.Value)
	c.Signature = append([]byte{}, m.Signature...)
	if m.Ticket != nil {
		c.Ticket = append(gpbft.Ticket{}, m.Ticket...)
	}
	if m.Justification != nil {
		j := *m.Justification
		j.Vote.Value = copyChain(m.Justification.Vote.Value)
		j.Signature = append([]byte{}, m.Justification.Signature...)
		c.Justification = &j
	}
	return &c
}

func copyPartial(p *gpbft.PartialGMessage) *gpbft.PartialGMessage {
	return &gpbft.PartialGMessage{GMessage: copyMsg(p.GMessage), VoteValueKey: p.VoteValueKey}
}

func cborOf(m *gpbft.GMessage) []byte {
	var b bytes.Buffer
	if m == nil || m.MarshalCBOR(&b) != nil {
		return nil
	}
	return b.Bytes()
}

func class(err error) string {
	switch {
	case err == nil:
		return "OK"
	case errors.Is(err, gpbft.ErrValidationInvalid):
		return "Invalid"
	case errors.Is(err, gpbft.ErrValidationTooOld):
		return "TooOld"
	case errors.Is(err, gpbft.ErrValidationNotRelevant):
		return "NotRelevant"
	case errors.Is(err, gpbft.ErrValidationNoCommittee):
		return "NoCommittee"
	default:
		return "Other"
	}
}

// forged is a PartiallyValidatedMessage nobody validated (bypass histories only).
type forged struct{ m *gpbft.PartialGMessage }

func (f *forged) PartialMessage() *gpbft.PartialGMessage { return f.m }

// ---------------------------------------------------------------------------- registry of keys

func (w *world) keyOf(ids []int) gpbft.ECChainKey {
	for n := 1; n <= len(ids); n++ {
		p := append([]int{}, ids[:n]...)
		w.registry[mk(p).Key()] = p
	}
	return mk(ids).Key()
}

func (w *world) absKey(k gpbft.ECChainKey) []int {
	if k.IsZero() {
		return []int{}
	}
	if ids, ok := w.registry[k]; ok {
		return ids
	}
	return []int{-1}
}

// keyOfContent: the key of a chain's content, recomputed on a fresh object (not the cached key of the object)
func (w *world) keyOfContent(c *gpbft.ECChain) []int {
	ids := abs(c)
	for _, t := range ids {
		if t < 0 {
			return []int{-1}
		}
	}
	return w.absKey(mk(ids).Key())
}

// ---------------------------------------------------------------------------- the manager under test

func (w *world) waitFor(what string, cond func() bool) {
	deadline := time.Now().Add(60 * time.Second)
	for i := 0; !cond(); i++ {
		if i < 200 {
			runtime.Gosched()
		} else {
			time.Sleep(50 * time.Microsecond)
		}
		if i%1000 == 999 && time.Now().After(deadline) {
			w.flush()
			w.t.Fatalf("the manager did not become idle (%s)", what)
		}
	}
}

func (w *world) barrierChain() *gpbft.ECChain { return mk([]int{90}) }

// settleBroadcast: the broadcast goroutine has taken everything queued and then k no-op requests (instance 0 is older than
// every instance used; the very first one of a history becomes "current" of instance 0, which is filtered from the dumps).
func (w *world) settleBroadcast(k int) {
	for j := 0; j < k; j++ {
		w.waitFor("chain broadcasts", func() bool { _, _, _, b := w.pmm.VerifPending(); return b == 0 })
		_ = w.pmm.BroadcastChain(w.ctx, 0, w.barrierChain())
		w.waitFor("chain broadcast barrier", func() bool { _, _, _, b := w.pmm.VerifPending(); return b == 0 })
		if k > 1 {
			time.Sleep(100 * time.Microsecond)
		}
	}
}

// settleWanted: the chain exchange goroutine that files own broadcasts has taken everything and then a no-op.
func (w *world) settleWanted() {
	w.waitFor("wanted queue", func() bool { return w.cx.VerifPendingWanted() == 0 })
	w.cx.VerifEnqueueWanted(chainexchange.Message{Instance: barrierInst, Chain: w.barrierChain()})
	w.waitFor("wanted barrier", func() bool { return w.cx.VerifPendingWanted() == 0 })
}

// settleLoop: the run loop has taken everything queued and then a no-op discovery (an instance nobody announced at).
func (w *world) settleLoop() {
	w.waitFor("manager inputs", func() bool { p, d, r, _ := w.pmm.VerifPending(); return p == 0 && d == 0 && r == 0 })
	w.pmm.NotifyChainDiscovered(w.ctx, barrierInst+1, w.barrierChain())
	w.waitFor("manager barrier", func() bool { p, d, r, _ := w.pmm.VerifPending(); return p == 0 && d == 0 && r == 0 })
}

func (w *world) settle(broadcastRounds int) {
	if broadcastRounds > 0 {
		w.settleBroadcast(broadcastRounds)
	}
	w.settleWanted()
	w.settleLoop()
	w.settleLoop()
}

func (w *world) closeHistory() {
	if w.pmm != nil {
		w.line(ev{"ev": "End"}, true)
		w.flush()
		_ = w.pmm.Shutdown(w.ctx)
		w.pmm = nil
	}
}

func (w *world) reset(cap, capOut int, hold, bypass bool, tag string) {
	w.closeHistory()
	w.nHist++
	w.hold, w.bypass = hold, bypass
	w.registry = map[gpbft.ECChainKey][]int{}
	w.arrivals = map[*gpbft.PartialGMessage]*arrival{}
	w.clk = clock.NewMock()
	w.clk.Set(time.UnixMilli(1_700_000_000_000))
	m := manifest.LocalDevnetManifest()
	m.NetworkName = gpbft.NetworkName(fmt.Sprintf("verif-%d-%d", os.Getpid(), w.nHist))
	m.PubSub.ChainCompressionEnabled = false
	m.ChainExchange.RebroadcastInterval = rebroadcast
	m.PartialMessageManager.MaxBufferedMessagesPerInstance = cap
	m.PartialMessageManager.CompletedMessagesBufferSize = capOut
	// the chain exchange validator sees a far-away instance: own publications are not looped back into the discovered cache
	// (the pubsub transport is not part of this check; what Broadcast files as wanted is observed in the cache dump)
	progress := func() gpbft.InstanceProgress { return gpbft.InstanceProgress{Instant: gpbft.Instant{ID: 1 << 40}} }
	pmm, err := pmsg.NewPartialMessageManager(progress, w.ps, m, w.clk)
	if err != nil {
		w.t.Fatal(err)
	}
	out, err := pmm.Start(w.ctx)
	if err != nil {
		w.t.Fatal(err)
	}
	w.pmm, w.out, w.cx = pmm, out, pmm.VerifChainExchange()
	w.settle(2)
	rc, rco := pmm.VerifLimits()
	w.line(ev{"ev": "Reset", "cap": rc, "capOut": rco, "hold": hold, "bypass": bypass, "tag": tag}, true)
}

// ---------------------------------------------------------------------------- recording

func slotOf(inst uint64, sender gpbft.ActorID, round uint64, phase gpbft.Phase) []any {
	ph, ok := phaseNames[phase]
	if !ok {
		ph = "P" + strconv.Itoa(int(phase))
	}
	return []any{inst, uint64(sender), round, ph}
}

func (w *world) dump(e ev) {
	insts, bufs, index := w.pmm.VerifDump()
	bl := []any{}
	for _, i := range insts {
		q := []any{}
		for _, b := range bufs[i] {
			mid := -1
			var ak []int = []int{-1}
			if pm := b.Msg.PartialMessage(); pm != nil {
				if a, ok := w.arrivals[pm]; ok {
					mid = a.mid
				}
				ak = w.absKey(pm.VoteValueKey)
			}
			q = append(q, ev{"s": slotOf(b.Slot.Instant.ID, b.Slot.Sender, b.Slot.Instant.Round, b.Slot.Instant.Phase), "k": ak, "mid": mid})
		}
		bl = append(bl, ev{"i": i, "q": q})
	}
	il := []any{}
	for _, x := range index {
		q := []any{}
		for _, s := range x.Slots {
			q = append(q, slotOf(s.Instant.ID, s.Sender, s.Instant.Round, s.Instant.Phase))
		}
		il = append(il, ev{"i": x.Instance, "k": w.absKey(x.Key), "q": q})
	}
	sort.Slice(il, func(a, b int) bool {
		x, y := il[a].(ev), il[b].(ev)
		if x["i"].(uint64) != y["i"].(uint64) {
			return x["i"].(uint64) < y["i"].(uint64)
		}
		return fmt.Sprint(x["k"]) < fmt.Sprint(y["k"])
	})
	e["bufs"], e["idx"] = bl, il
	wm, dm := w.cx.VerifDump()
	cw, cd := []any{}, []any{}
	for _, m := range []struct {
		src map[uint64][]chainexchange.VerifEntry
		dst *[]any
		st  bool
	}{{wm, &cw, true}, {dm, &cd, false}} {
		var is []uint64
		for i := range m.src {
			if i != 0 && i < barrierInst {
				is = append(is, i)
			}
		}
		sort.Slice(is, func(a, b int) bool { return is[a] < is[b] })
		for _, i := range is {
			var rows []ev
			for _, x := range m.src[i] {
				r := ev{"i": i, "k": w.absKey(x.Key)}
				if m.st {
					r["st"] = "ph"
					if x.Chain != nil {
						r["st"] = "ch"
						r["v"] = abs(x.Chain)
					} else {
						r["v"] = []int{}
					}
				}
				rows = append(rows, r)
			}
			sort.Slice(rows, func(a, b int) bool { return fmt.Sprint(rows[a]["k"]) < fmt.Sprint(rows[b]["k"]) })
			for _, r := range rows {
				*m.dst = append(*m.dst, r)
			}
		}
	}
	e["cw"], e["cd"] = cw, cd
}

// drain takes everything off the completed-message queue (the loop is idle) and describes it.
func (w *world) drain() []ev {
	var out []ev
	for {
		select {
		case pv, ok := <-w.out:
			if !ok {
				return out
			}
			out = append(out, w.describe(pv))
		default:
			return out
		}
	}
}

func (w *world) describe(pv gpbft.PartiallyValidatedMessage) ev {
	pm := pv.PartialMessage()
	e := ev{"ev": "Emit", "mid": -1, "p1": "-", "eq": false, "ov": "-"}
	e["s"] = slotOf(pm.Vote.Instance, pm.Sender, pm.Vote.Round, pm.Vote.Phase)
	e["inst"] = pm.Vote.Instance
	e["ak"] = w.absKey(pm.VoteValueKey)
	e["cv"] = abs(pm.Vote.Value)
	e["ck"] = w.keyOfContent(pm.Vote.Value)
	e["hasj"] = pm.Justification != nil
	e["jc"] = []int{}
	if pm.Justification != nil {
		e["jc"] = abs(pm.Justification.Vote.Value)
	}
	if a, ok := w.arrivals[pm]; ok {
		e["mid"], e["p1"] = a.mid, a.p1
		e["eq"] = bytes.Equal(cborOf(pm.GMessage), cborOf(a.orig))
		// one-shot validation of an independently completed copy of what went over the wire (production inference)
		c := copyPartial(a.wire)
		c.Vote.Value = mk(abs(pm.Vote.Value))
		pmsg.VerifInferJustificationVoteValue(c)
		_, err := w.part.ValidateMessage(w.ctx, c.GMessage)
		e["ov"] = class(err)
	}
	_, err := w.part.FullyValidateMessage(w.ctx, pv)
	e["fv"] = class(err)
	return e
}

// line records an input event: waits for the goroutines, drains (unless the history holds the output back), dumps.
func (w *world) line(e ev, forceDrain bool) {
	w.nEvents++
	var emits []ev
	if !w.hold || forceDrain {
		emits = w.drain()
	}
	w.dump(e)
	e["n"] = len(emits)
	w.lines = append(w.lines, e)
	for _, x := range emits {
		w.nEmits++
		w.lines = append(w.lines, x)
	}
	if len(w.lines) > 256 {
		w.flush()
	}
}

func (w *world) flush() {
	for _, e := range w.lines {
		b, err := json.Marshal(e)
		if err != nil {
			panic(err)
		}
		w.bw.Write(b)
		w.bw.WriteByte('\n')
	}
	w.lines = nil
	w.bw.Flush()
}

// ---------------------------------------------------------------------------- messages as events

type msgSpec struct {
	kind     string
	sender   int
	inst     int
	value    []int // the chain the sender signed; nil = bottom (COMMIT only)
	announce []int // nil = the production strip untouched; otherwise the announced key is replaced by this chain's key
}

func (w *world) wireOf(s msgSpec) (*arrival, ev) {
	k := kindOf(s.kind)
	if len(s.value) == 0 {
		k = kind{"Cbot", gpbft.COMMIT_PHASE, 0, 0, 0, "none", false}
	}
	w.keyOf(s.value)
	orig := w.full(k, gpbft.ActorID(s.sender), uint64(s.inst), s.value)
	pm, err := w.pmm.ToPartialGMessage(copyMsg(orig))
	if err != nil {
		w.t.Fatal(err)
	}
	gen := true
	if s.announce != nil {
		pm.VoteValueKey = w.keyOf(s.announce)
		gen = fmt.Sprint(s.announce) == fmt.Sprint(s.value)
	}
	w.nMid++
	a := &arrival{mid: w.nMid, orig: orig, wire: copyPartial(pm), p1: "-"}
	e := ev{"mid": a.mid, "kind": k.name, "inst": s.inst, "s": slotOf(uint64(s.inst), gpbft.ActorID(s.sender), k.round, k.phase),
		"ak": w.absKey(pm.VoteValueKey), "oc": ints(s.value), "jk": k.jk, "gen": gen}
	return a, e
}

// complete: what the pubsub validator of the host does first with a wire message.
func (w *world) complete(s msgSpec) bool {
	a, e := w.wireOf(s)
	pm := copyPartial(a.wire)
	w.arrivals[pm] = a
	g, found := w.pmm.CompleteMessage(w.ctx, pm)
	w.settle(0)
	e["ev"], e["found"], e["p1"], e["fed"] = "Complete", found, "-", false
	e["cv"], e["ck"], e["hasj"], e["jc"], e["eq"], e["ov"] = []int{}, []int{}, false, []int{}, false, "-"
	if found && g != nil {
		e["cv"], e["ck"] = abs(g.Vote.Value), w.keyOfContent(g.Vote.Value)
		e["hasj"] = g.Justification != nil
		if g.Justification != nil {
			e["jc"] = abs(g.Justification.Vote.Value)
		}
		e["eq"] = bytes.Equal(cborOf(g), cborOf(a.orig))
		_, err := w.part.ValidateMessage(w.ctx, g) // the host validates a completed message in one shot
		e["ov"] = class(err)
	}
	w.line(e, false)
	return found
}

// arrive: stage 1 on the wire message; what it accepts is handed to the manager (as the host's subscription loop does).
func (w *world) arrive(s msgSpec) {
	a, e := w.wireOf(s)
	pm := copyPartial(a.wire)
	w.arrivals[pm] = a
	pv, err := w.part.PartiallyValidateMessage(w.ctx, pm)
	a.p1 = class(err)
	fed := err == nil
	if err != nil && w.bypass {
		pv, fed = &forged{pm}, true
	}
	if fed {
		w.pmm.BufferPartialMessage(w.ctx, pv)
		w.settle(0)
	}
	e["ev"], e["p1"], e["fed"] = "Arrive", a.p1, fed
	w.line(e, false)
}

func (w *world) notify(inst int, chain []int) {
	w.keyOf(chain)
	w.pmm.NotifyChainDiscovered(w.ctx, uint64(inst), mk(chain))
	w.settle(0)
	w.line(ev{"ev": "Notify", "inst": inst, "chain": ints(chain)}, false)
}

func (w *world) admit(inst int, chain []int) {
	w.keyOf(chain)
	w.cx.VerifDiscovered(w.ctx, chainexchange.Message{Instance: uint64(inst), Chain: mk(chain), Timestamp: w.clk.Now().UnixMilli()})
	w.settle(0)
	w.line(ev{"ev": "Admit", "inst": inst, "chain": ints(chain)}, false)
}

func (w *world) own(inst int, chain []int) {
	w.keyOf(chain)
	err := w.pmm.BroadcastChain(w.ctx, uint64(inst), mk(chain))
	w.settle(2)
	w.line(ev{"ev": "Own", "inst": inst, "chain": ints(chain), "err": err != nil}, false)
}

func (w *world) tick() {
	w.clk.Add(rebroadcast)
	w.settle(8)
	w.line(ev{"ev": "Tick"}, false)
}

func (w *world) prune(n int) {
	w.pmm.RemoveMessagesBeforeInstance(w.ctx, uint64(n))
	w.settle(0)
	w.line(ev{"ev": "Prune", "below": n}, false)
}

func (w *world) drainEv() {
	w.settle(0)
	w.line(ev{"ev": "Drain"}, true)
}

// ---------------------------------------------------------------------------- scripted boundary histories

var (
	cD = []int{1}       // the base alone
	cA = []int{1, 2}    // D < A < C
	cB = []int{1, 3}    // D < B < E
	cC = []int{1, 2, 4} //
	cE = []int{1, 3, 5} //
)

func ms(kind string, sender, inst int, value []int) msgSpec {
	return msgSpec{kind: kind, sender: sender, inst: inst, value: value}
}

func (w *world) scripted() {
	// the same key announced in two instances; discovery per instance
	for _, first := range []int{10, 11} {
		w.reset(4, 8, false, false, "same-key-two-instances")
		w.arrive(ms("P0", 1, 10, cA))
		w.arrive(ms("P0", 1, 11, cA))
		w.arrive(ms("C0", 2, 11, cA))
		w.notify(first, cA)
		w.notify(21-first, cA)
		w.notify(first, cA)
	}
	// two chains whose keys differ, interleaved senders, every kind of message
	w.reset(16, 16, false, false, "two-keys-all-kinds")
	for j, k := range kinds {
		w.arrive(ms(k.name, 1+j%4, 10, cA))
		w.arrive(ms(k.name, 1+(j+1)%4, 10, cB))
	}
	w.notify(10, cB)
	w.notify(10, cC)
	w.notify(10, cA)
	w.notify(10, cA)
	// the same message bytes announced under two different keys (stage 1 sees a signature over another key)
	for _, byp := range []bool{false, true} {
		w.reset(4, 8, false, byp, "same-bytes-two-keys")
		w.arrive(ms("P1", 1, 10, cA))
		w.arrive(msgSpec{kind: "P1", sender: 2, inst: 10, value: cA, announce: cB})
		w.arrive(msgSpec{kind: "C0", sender: 3, inst: 10, value: cA, announce: cB})
		w.arrive(msgSpec{kind: "Q", sender: 3, inst: 10, value: cA, announce: cA})
		w.notify(10, cB)
		w.notify(10, cA)
	}
	// discovery before / after arrival; the chain exchange knows the chain before / after the lookup
	w.reset(4, 8, false, false, "discovery-before-arrival")
	w.notify(10, cA)
	w.arrive(ms("P0", 1, 10, cA))
	w.notify(10, cB)
	w.notify(10, cA)
	w.reset(4, 8, false, false, "admit-before-lookup")
	w.admit(10, cC)               // C, A, D discovered
	w.arrive(ms("P0", 1, 10, cA)) // buffered without a lookup (lookup raced with the admission)
	w.arrive(ms("C0", 2, 10, cA))
	w.arrive(ms("P0", 3, 10, cD))
	w.complete(ms("P0", 4, 10, cA)) // found among the discovered chains: listener notified, both buffered ones complete
	w.complete(ms("C0", 4, 10, cA)) // found among the wanted chains: nobody notified
	w.complete(ms("Q", 4, 11, cA))  // another instance: unknown
	w.complete(ms("Q", 4, 10, cD))
	w.reset(4, 8, false, false, "lookup-before-admit")
	if !w.complete(ms("P0", 1, 10, cA)) { // unknown: placeholder
		w.arrive(ms("P0", 1, 10, cA))
	}
	w.admit(10, cA) // replaces the placeholder; nobody is notified
	w.complete(ms("P0", 2, 10, cA))
	w.complete(ms("C0", 0+3, 10, nil)) // COMMIT for bottom: nothing to complete
	w.notify(10, cA)
	// overflow of the per-instance buffer
	for _, cap := range []int{1, 2, 3} {
		w.reset(cap, 8, false, false, "overflow")
		for s := 1; s <= 4; s++ {
			w.arrive(ms("P0", s, 10, cA))
		}
		w.arrive(ms("Q", 1, 10, cA))
		w.arrive(ms("P0", 1, 11, cA))
		w.notify(10, cA)
		w.notify(11, cA)
		w.arrive(ms("P0", 1, 10, cA)) // again, after its first copy was evicted
		w.arrive(ms("P0", 1, 10, cA))
		w.notify(10, cA)
	}
	// overflow, then the evicted slot announced again under another key (an equivocating sender), then the first key's chain
	for _, cap := range []int{1, 2} {
		for _, byp := range []bool{false, true} {
			w.reset(cap, 8, false, byp, "evicted-slot-reannounced")
			w.arrive(ms("P0", 1, 10, cA))
			for s := 2; s <= 1+cap; s++ {
				w.arrive(ms("P0", s, 10, cB))
			}
			w.arrive(ms("P0", 1, 10, cE))
			w.notify(10, cA)
			w.notify(10, cE)
			w.notify(10, cB)
		}
	}
	// pruning between arrival and discovery, at n-1 / n / n+1
	for _, n := range []int{10, 11, 12, 13} {
		w.reset(4, 8, false, false, "prune-between")
		w.arrive(ms("P0", 1, 10, cA))
		w.arrive(ms("P0", 1, 11, cA))
		w.arrive(ms("C0", 2, 11, cA))
		w.arrive(ms("P0", 1, 12, cA))
		w.prune(n)
		w.notify(10, cA)
		w.notify(11, cA)
		w.notify(12, cA)
		w.arrive(ms("P0", 2, 10, cB)) // a late message of a pruned instance
		w.notify(10, cB)
	}
	// duplicates: the same message twice; the same slot under another key while the first is still buffered
	w.reset(4, 8, false, false, "duplicates")
	w.arrive(ms("P0", 1, 10, cA))
	w.arrive(ms("P0", 1, 10, cA))
	w.arrive(ms("P0", 1, 10, cB))
	w.arrive(ms("Q", 1, 10, cB))
	w.notify(10, cB)
	w.notify(10, cA)
	w.arrive(ms("P0", 1, 10, cB))
	w.notify(10, cB)
	// the completed-message queue overflows while nobody reads it
	for _, capOut := range []int{1, 2, 3} {
		w.reset(8, capOut, true, false, "output-overflow")
		for s := 1; s <= 4; s++ {
			w.arrive(ms("P0", s, 10, cA))
		}
		w.arrive(ms("P0", 1, 11, cB))
		w.notify(10, cA)
		w.notify(11, cB)
		w.drainEv()
		w.arrive(ms("Q", 1, 10, cA))
		w.notify(10, cA)
		w.drainEv()
	}
	// one discovery completes more messages than the queue holds, even when it is read after every event
	w.reset(8, 2, false, false, "output-overflow-one-event")
	for s := 1; s <= 4; s++ {
		w.arrive(ms("P0", s, 10, cA))
	}
	w.notify(10, cA)
	// the broadcast side: newer instance, same instance (prefix / extension / fork), older instance, ticks; own chains complete
	w.reset(8, 16, false, false, "broadcast")
	w.tick()
	w.arrive(ms("P0", 1, 10, cD))
	w.arrive(ms("P0", 2, 10, cA))
	w.arrive(ms("P0", 3, 10, cC))
	w.arrive(ms("P0", 4, 10, cB))
	w.arrive(ms("P0", 4, 11, cB))
	w.own(10, nil)
	w.own(10, cA) // first: published; A and D become known to the manager
	w.own(10, cC) // same instance, extension: taken as current, not published
	w.tick()      // now C is published
	w.own(10, cA) // same instance, prefix of current: ignored
	w.own(10, cB) // same instance, fork: current
	w.tick()
	w.own(11, cE) // newer instance: published at once
	w.own(10, cC) // older instance: dropped
	w.tick()
	w.prune(12) // the chain exchange forgets 10 and 11
	w.tick()    // ... and current (11, E) is published again
	w.own(13, cA)
	w.own(12, cB)
	w.tick()
}

// ---------------------------------------------------------------------------- seeded random histories

func (w *world) randomHistory(steps int) {
	rng := w.rng
	cap := []int{1, 2, 2, 3, 4, 6}[rng.Intn(6)]
	capOut := []int{1, 2, 3, 8, 16}[rng.Intn(5)]
	hold := rng.Intn(6) == 0
	byp := rng.Intn(5) == 0
	w.reset(cap, capOut, hold, byp, "random")
	chains := [][]int{cA, cB, cC, cD, cE}
	nInst := 1 + rng.Intn(3)
	floor := 10
	pickInst := func() int { return floor + rng.Intn(nInst) - rng.Intn(2)*rng.Intn(2) }
	nSenders := 1 + rng.Intn(4)
	var announced [][2]any
	spec := func() msgSpec {
		s := ms(kinds[rng.Intn(len(kinds))].name, 1+rng.Intn(nSenders), pickInst(), chains[rng.Intn(len(chains))])
		if s.inst < 10 {
			s.inst = 10
		}
		if rng.Intn(3) == 0 {
			s.kind = "P0" // collide on slots
		}
		if rng.Intn(12) == 0 {
			s.announce = chains[rng.Intn(len(chains))]
		}
		if rng.Intn(25) == 0 {
			s.value = nil
		}
		announced = append(announced, [2]any{s.inst, s.value})
		return s
	}
	for i := 0; i < steps; i++ {
		switch x := rng.Intn(100); {
		case x < 30:
			s := spec()
			if !w.complete(s) {
				w.arrive(s)
			}
		case x < 45:
			w.arrive(spec())
		case x < 50:
			w.complete(spec())
		case x < 70:
			if len(announced) > 0 && rng.Intn(4) > 0 {
				a := announced[rng.Intn(len(announced))]
				if c := a[1].([]int); len(c) > 0 {
					w.notify(a[0].(int), c)
					break
				}
			}
			w.notify(pickInst(), chains[rng.Intn(len(chains))])
		case x < 77:
			w.admit(pickInst(), chains[rng.Intn(len(chains))])
		case x < 85:
			w.own(pickInst(), chains[rng.Intn(len(chains))])
		case x < 89:
			w.tick()
		case x < 94:
			n := floor + rng.Intn(3) - 1
			w.prune(n)
			if n > floor && rng.Intn(2) == 0 {
				floor = n
			}
		default:
			if hold {
				w.drainEv()
			} else {
				w.notify(pickInst(), chains[rng.Intn(len(chains))])
			}
		}
	}
	if hold {
		w.drainEv()
	}
}

func envInt(name string, def int) int {
	if v, err := strconv.Atoi(os.Getenv(name)); err == nil {
		return v
	}
	return def
}

func TestMgrHistories(t *testing.T) {
	w, done := newWorld(t)
	defer done()
	if envInt("VERIF_SCRIPTED", 1) == 1 {
		w.scripted()
	}
	n, steps := envInt("VERIF_N", 30), envInt("VERIF_STEPS", 40)
	for h := 0; h < n; h++ {
		w.randomHistory(steps)
	}
}

// ---------------------------------------------------------------------------- model-generated histories (spec -> code)

type mop struct {
	Op    string `json:"op"`
	Inst  int    `json:"inst"`
	Snd   int    `json:"snd"`
	Ak    []int  `json:"ak"`
	Oc    []int  `json:"oc"`
	Jk    string `json:"jk"`
	Chain []int  `json:"chain"`
	N     int    `json:"n"`
}

type mhist struct {
	Cap    int   `json:"cap"`
	CapOut int   `json:"capOut"`
	Ops    []mop `json:"ops"`
}

// TestMgrModel executes operation sequences generated by TLC (-simulate on MCPartialManager, variable hist).  The abstract
// message (instance, sender, announced key, signed chain, justification kind) becomes a real signed message; a message whose
// announced key is not the key of the signed chain is handed to the manager although stage 1 rejects it (the model says fed).
func TestMgrModel(t *testing.T) {
	w, done := newWorld(t)
	defer done()
	b, err := os.ReadFile(os.Getenv("VERIF_IN"))
	if err != nil {
		t.Fatal(err)
	}
	var hs []mhist
	if err := json.Unmarshal(b, &hs); err != nil {
		t.Fatal(err)
	}
	kindFor := map[string]string{"none": "P0", "val": "C0", "bot": "P1b"}
	for _, h := range hs {
		w.reset(h.Cap, h.CapOut, false, true, "model")
		for _, o := range h.Ops {
			spec := msgSpec{kind: kindFor[o.Jk], sender: o.Snd, inst: o.Inst, value: o.Oc, announce: o.Ak}
			switch o.Op {
			case "Arrive":
				w.arrive(spec)
			case "Complete":
				w.complete(spec)
			case "Notify":
				w.notify(o.Inst, o.Chain)
			case "Admit":
				w.admit(o.Inst, o.Chain)
			case "Own":
				w.own(o.Inst, o.Chain)
			case "Tick":
				w.tick()
			case "Prune":
				w.prune(o.N)
			case "Take":
			default:
				t.Fatalf("unknown op %q", o.Op)
			}
		}
	}
}

//go:build verif

// Driver for the runner stage of property C15 (spec/host/Runner.tla): WHICH instance a node works on and WHEN.
// It runs the REAL gpbftRunner (host.go) built by the production newRunner over a real WAL directory, a real
// certificate store holding real (signed) certificates, an ec.Backend serving a linear chain whose head the
// driver moves, and a mock clock:
//
//	TestRunnerTable      computeNextInstanceStart over a grid of manifests x certificate histories x EC heads
//	                     x clock offsets; one NDJSON row per call with the time the code returned
//	TestRunnerHistories  seeded histories of certificate arrivals (in order, skipping, stale, duplicate), alarms,
//	                     the node's own messages and decisions (the real participant decides; the driver only
//	                     signs what it asks to be signed and hands messages back), process death and restart over
//	                     the same WAL and store.  The event loop is not running here: the driver makes the loop's
//	                     calls one at a time (accessor TakeAlarm / TakeMessage / ReceiveCertificate)
//	TestRunnerLoop       the real Start and event loop: initial choice, certificate subscription, alarms, and
//	                     the priority of certificates and alarms over messages
//
// Times are logged in milliseconds relative to T0 (plus the remainder in ns, which must be 0 on the exact grid).
// There is no oracle in this file: every verdict is TLC's (spec/host/RunnerTrace.tla).
package zzrunner

import (
	"bufio"
	"context"
	"encoding/json"
	"fmt"
	"math/rand"
	"os"
	"path/filepath"
	"runtime"
	"strconv"
	"strings"
	"sync"
	"testing"
	"time"

	"github.com/filecoin-project/go-bitfield"
	f3 "github.com/filecoin-project/go-f3"
	"github.com/filecoin-project/go-f3/certs"
	"github.com/filecoin-project/go-f3/certstore"
	"github.com/filecoin-project/go-f3/ec"
	"github.com/filecoin-project/go-f3/gpbft"
	"github.com/filecoin-project/go-f3/internal/clock"
	"github.com/filecoin-project/go-f3/internal/encoding"
	"github.com/filecoin-project/go-f3/manifest"
	"github.com/filecoin-project/go-f3/sim/signing"
	"github.com/ipfs/go-cid"
	"github.com/ipfs/go-datastore"
	ds_sync "github.com/ipfs/go-datastore/sync"
	pubsub "github.com/libp2p/go-libp2p-pubsub"
	"github.com/libp2p/go-libp2p/core/peer"
	mocknetwork "github.com/libp2p/go-libp2p/p2p/net/mock"
)

const (
	netName  = gpbft.NetworkName("verifc15r")
	bootE    = int64(10) // epoch of the bootstrap tipset (BootstrapEpoch - Finality)
	finality = int64(2)
)

var T0 = time.Unix(1_700_000_000, 0)

func at(ms int64) time.Time { return T0.Add(time.Duration(ms) * time.Millisecond) }
func msOf(t time.Time) (int64, int64) {
	ns := t.Sub(T0).Nanoseconds()
	return ns / 1_000_000, ns % 1_000_000
}

type ev map[string]any

type rec struct {
	w *bufio.Writer
	n int
}

func (r *rec) emit(e ev) {
	b, err := json.Marshal(e)
	if err != nil {
		panic(err)
	}
	r.w.Write(b)
	r.w.WriteByte('\n')
	r.n++
}

func envInt(k string, d int) int {
	if v, err := strconv.Atoi(os.Getenv(k)); err == nil {
		return v
	}
	return d
}

func openRec(t *testing.T) (*rec, func()) {
	out := os.Getenv("VERIF_OUT")
	if out == "" {
		t.Skip("VERIF_OUT not set")
	}
	fh, err := os.Create(out)
	if err != nil {
		t.Fatal(err)
	}
	r := &rec{w: bufio.NewWriterSize(fh, 1<<20)}
	return r, func() { r.w.Flush(); fh.Close() }
}

// ---------------------------------------------------------------- EC backend: a linear chain, one tipset per epoch

type lts struct {
	e  int64
	ts time.Time
}

func (t *lts) Key() gpbft.TipSetKey { return []byte(fmt.Sprintf("T%d", t.e)) }
func (t *lts) Beacon() []byte       { return []byte(fmt.Sprintf("B%d", t.e)) }
func (t *lts) Epoch() int64         { return t.e }
func (t *lts) Timestamp() time.Time { return t.ts }
func (t *lts) String() string       { return fmt.Sprintf("T%d", t.e) }

func epochOfKey(k []byte) (int64, bool) {
	s := string(k)
	if !strings.HasPrefix(s, "T") {
		return 0, false
	}
	n, err := strconv.ParseInt(s[1:], 10, 64)
	return n, err == nil
}

// linEC: tipset e has timestamp T0 + e*period, except that the head reports headTs (the table test skews it).
// gate: when armed, the next call of a gated method blocks until released (loop test only).
type linEC struct {
	mu      sync.Mutex
	period  time.Duration
	headE   int64
	headTs  time.Time
	headErr bool
	table   gpbft.PowerEntries
	calls   []string
	gateOn  map[string]bool
	entered chan string
	release chan struct{}
	hl      *hookLog
}

// hookLog: what the runner did, in the order it did it (EC calls and participant trace lines share one log)
type hookLog struct {
	mu    sync.Mutex
	lines []string
}

func (l *hookLog) add(s string) {
	if l == nil {
		return
	}
	l.mu.Lock()
	l.lines = append(l.lines, s)
	l.mu.Unlock()
}
func (l *hookLog) take() []string {
	l.mu.Lock()
	defer l.mu.Unlock()
	out := l.lines
	l.lines = nil
	return out
}
func (l *hookLog) has(sub string) bool {
	l.mu.Lock()
	defer l.mu.Unlock()
	for _, x := range l.lines {
		if strings.Contains(x, sub) {
			return true
		}
	}
	return false
}

type recTracer struct{ l *hookLog }

func (t *recTracer) Log(format string, args ...any) { t.l.add("trace:" + fmt.Sprintf(format, args...)) }

var _ ec.Backend = (*linEC)(nil)

func (b *linEC) enter(name string) {
	b.hl.add("ec:" + name)
	b.mu.Lock()
	b.calls = append(b.calls, name)
	gated := b.gateOn[name]
	if gated {
		delete(b.gateOn, name)
	}
	b.mu.Unlock()
	if gated {
		b.entered <- name
		<-b.release
	}
}

func (b *linEC) takeCalls() []string {
	b.mu.Lock()
	defer b.mu.Unlock()
	c := b.calls
	b.calls = nil
	if c == nil {
		c = []string{}
	}
	return c
}

func (b *linEC) ts(e int64) *lts {
	if e == b.headE {
		return &lts{e: e, ts: b.headTs}
	}
	return &lts{e: e, ts: T0.Add(time.Duration(e) * b.period)}
}
func (b *linEC) setHead(e int64, ts time.Time, fail bool) {
	b.mu.Lock()
	b.headE, b.headTs, b.headErr = e, ts, fail
	b.mu.Unlock()
}
func (b *linEC) GetHead(context.Context) (ec.TipSet, error) {
	b.enter("GetHead")
	b.mu.Lock()
	defer b.mu.Unlock()
	if b.headErr {
		return nil, fmt.Errorf("verif: EC head unavailable")
	}
	return b.ts(b.headE), nil
}
func (b *linEC) GetTipsetByEpoch(_ context.Context, e int64) (ec.TipSet, error) {
	b.enter("GetTipset")
	b.mu.Lock()
	defer b.mu.Unlock()
	if e > b.headE || e < 0 {
		return nil, fmt.Errorf("verif: no tipset at epoch %d (head %d)", e, b.headE)
	}
	return b.ts(e), nil
}
func (b *linEC) GetTipset(_ context.Context, k gpbft.TipSetKey) (ec.TipSet, error) {
	b.enter("GetTipset")
	b.mu.Lock()
	defer b.mu.Unlock()
	e, ok := epochOfKey(k)
	if !ok || e > b.headE || e < 0 {
		return nil, fmt.Errorf("verif: unknown tipset %q (head %d)", k, b.headE)
	}
	return b.ts(e), nil
}
func (b *linEC) GetParent(_ context.Context, t ec.TipSet) (ec.TipSet, error) {
	b.mu.Lock()
	defer b.mu.Unlock()
	if t.Epoch() <= 0 {
		return nil, fmt.Errorf("verif: no parent of %v", t)
	}
	return b.ts(t.Epoch() - 1), nil
}
func (b *linEC) GetPowerTable(context.Context, gpbft.TipSetKey) (gpbft.PowerEntries, error) {
	return b.table, nil
}
func (b *linEC) Finalize(context.Context, gpbft.TipSetKey) error { return nil }

// ---------------------------------------------------------------- verifier that records signature checks

type recVerifier struct {
	*signing.FakeBackend
	mu   sync.Mutex
	sigs [][]byte
}

func (v *recVerifier) Verify(k gpbft.PubKey, msg, sig []byte) error {
	v.mu.Lock()
	v.sigs = append(v.sigs, append([]byte(nil), sig...))
	v.mu.Unlock()
	return v.FakeBackend.Verify(k, msg, sig)
}
func (v *recVerifier) saw(sig []byte) bool {
	v.mu.Lock()
	defer v.mu.Unlock()
	for _, s := range v.sigs {
		if string(s) == string(sig) {
			return true
		}
	}
	return false
}
func (v *recVerifier) take() [][]byte {
	v.mu.Lock()
	defer v.mu.Unlock()
	s := v.sigs
	v.sigs = nil
	return s
}

// ---------------------------------------------------------------- world

type world struct {
	t     *testing.T
	sb    *signing.FakeBackend
	ver   *recVerifier
	table gpbft.PowerEntries
	ptCid cid.Cid
	ps    *pubsub.PubSub
	pid   peer.ID
}

func newWorld(t *testing.T, ctx context.Context) *world {
	w := &world{t: t, sb: signing.NewFakeBackend()}
	w.ver = &recVerifier{FakeBackend: w.sb}
	for i, p := range []int64{2, 1, 1} {
		k, _ := w.sb.GenerateKey()
		w.table = append(w.table, gpbft.PowerEntry{ID: gpbft.ActorID(i + 1), Power: gpbft.NewStoragePower(p), PubKey: k})
	}
	var err error
	if w.ptCid, err = certs.MakePowerTableCID(w.table); err != nil {
		t.Fatal(err)
	}
	mn := mocknetwork.New()
	h, err := mn.GenPeer()
	if err != nil {
		t.Fatal(err)
	}
	w.pid = h.ID()
	w.ps, err = pubsub.NewGossipSub(ctx, h, pubsub.WithMessageSignaturePolicy(pubsub.StrictNoSign))
	if err != nil {
		t.Fatal(err)
	}
	return w
}

type mfSpec struct {
	Period   int64   `json:"period"` // ms
	Mult2    int     `json:"mult2"`  // 2 * DelayMultiplier
	Lookback int     `json:"lookback"`
	Table2   []int   `json:"table2"` // 2 * BaseDecisionBackoffTable
	Align    int64   `json:"align"`  // ms, 0 = off
	Init     uint64  `json:"init"`
	tablef   []float64
}

func (w *world) manifest(s mfSpec) manifest.Manifest {
	m := manifest.LocalDevnetManifest()
	m.NetworkName = netName
	m.InitialInstance = s.Init
	m.BootstrapEpoch = bootE + finality
	m.EC.Finality = finality
	m.EC.Finalize = false
	m.EC.Period = time.Duration(s.Period) * time.Millisecond
	m.EC.DelayMultiplier = float64(s.Mult2) / 2
	m.EC.HeadLookback = s.Lookback
	m.EC.BaseDecisionBackoffTable = nil
	for _, x := range s.Table2 {
		m.EC.BaseDecisionBackoffTable = append(m.EC.BaseDecisionBackoffTable, float64(x)/2)
	}
	m.CatchUpAlignment = time.Duration(s.Align) * time.Millisecond
	m.PubSub.CompressionEnabled = false
	return m
}

func tipset(w *world, e int64) *gpbft.TipSet {
	return &gpbft.TipSet{Epoch: e, Key: []byte(fmt.Sprintf("T%d", e)), PowerTable: w.ptCid}
}

// mkCert: a real certificate for `inst` finalizing the tipsets from..to of the linear chain (from = base), signed by everybody.
func (w *world) mkCert(inst uint64, from, to int64) *certs.FinalityCertificate {
	ctx := context.Background()
	var tss []*gpbft.TipSet
	for e := from; e <= to; e++ {
		tss = append(tss, tipset(w, e))
	}
	chain, err := gpbft.NewChain(tss[0], tss[1:]...)
	if err != nil {
		w.t.Fatal(err)
	}
	pl := gpbft.Payload{Instance: inst, Round: 0, Phase: gpbft.DECIDE_PHASE,
		SupplementalData: gpbft.SupplementalData{PowerTable: w.ptCid}, Value: chain}
	agg, err := w.sb.Aggregate(w.table.PublicKeys())
	if err != nil {
		w.t.Fatal(err)
	}
	msg := pl.MarshalForSigning(netName)
	signers := bitfield.New()
	var mask []int
	var sigs [][]byte
	for i, e := range w.table {
		s, err := w.sb.Sign(ctx, e.PubKey, msg)
		if err != nil {
			w.t.Fatal(err)
		}
		signers.Set(uint64(i))
		mask, sigs = append(mask, i), append(sigs, s)
	}
	sig, err := agg.Aggregate(mask, sigs)
	if err != nil {
		w.t.Fatal(err)
	}
	crt, err := certs.NewFinalityCertificate(certs.MakePowerTableDiff(w.table, w.table), &gpbft.Justification{Vote: pl, Signers: signers, Signature: sig})
	if err != nil {
		w.t.Fatal(err)
	}
	return crt
}

// what a certificate carries, read back from the real object
func jcert(c *certs.FinalityCertificate) ev {
	return ev{"inst": c.GPBFTInstance, "suffix": c.ECChain.HasSuffix(), "epoch": c.ECChain.Head().Epoch}
}

var noCert = ev{"inst": -1, "suffix": false, "epoch": 0, "own": -1}

func jstore(ctx context.Context, cs *certstore.Store, first uint64) []ev {
	out := []ev{}
	l := cs.Latest()
	if l == nil {
		return out
	}
	for i := first; i <= l.GPBFTInstance; i++ {
		c, err := cs.Get(ctx, i)
		if err != nil {
			panic(err)
		}
		out = append(out, jcert(c))
	}
	return out
}

func latestOf(cs *certstore.Store) int64 {
	if l := cs.Latest(); l != nil {
		return int64(l.GPBFTInstance)
	}
	return -1
}

// ================================================================== (i) table

var (
	gPeriods = []int64{1000, 4000, 30000}
	gMult2   = []int{2, 3, 4, 5, 6}
	gLook    = []int{0, 1, 3}
	gTables  = [][]int{{3}, {1, 2}, {2, 4, 1}, {3, 1, 4, 6, 5}}
	gAligns  = []int64{0, 2000, 7500, 15000}
	gInits   = []uint64{0, 5}
)

func TestRunnerTable(t *testing.T) {
	r, done := openRec(t)
	defer done()
	seed := int64(envInt("VERIF_SEED", 1))
	groups := envInt("VERIF_GROUPS", 120)
	rng := rand.New(rand.NewSource(seed))
	ctx0, cancel := context.WithCancel(context.Background())
	defer cancel()
	w := newWorld(t, ctx0)
	base := t.TempDir()
	rows := 0
	for g := 0; g < groups; g++ {
		// mixed-radix walk with a seeded offset: every value of every parameter, most pairs
		x := g + int(seed)*7
		s := mfSpec{Period: gPeriods[x%3], Mult2: gMult2[x%5], Lookback: gLook[(x/3)%3], Table2: gTables[(x/5+x)%4],
			Align: gAligns[(x/2+x/7)%4], Init: gInits[(x/4+x)%2]}
		if rng.Intn(4) == 0 {
			s = mfSpec{Period: gPeriods[rng.Intn(3)], Mult2: gMult2[rng.Intn(5)], Lookback: gLook[rng.Intn(3)], Table2: gTables[rng.Intn(4)],
				Align: gAligns[rng.Intn(4)], Init: gInits[rng.Intn(2)]}
		}
		m := w.manifest(s)
		ctx, clk := clock.WithMockClock(ctx0)
		clk.Set(T0)
		cs, err := certstore.CreateStore(ctx, ds_sync.MutexWrap(datastore.NewMapDatastore()), s.Init, w.table)
		if err != nil {
			t.Fatal(err)
		}
		// certificate history: 1..8 instances; base-only runs of every length, at the start, in the middle, at the end
		n := 1 + (g % 8)
		bits := rng.Intn(1 << n)
		switch g % 5 {
		case 0:
			bits = 0 // only base decisions
		case 1:
			bits = 1 << (g % n) // a single decision with suffix
		}
		e := bootE
		var crts []*certs.FinalityCertificate
		for k := 0; k < n; k++ {
			from := e
			if bits&(1<<k) != 0 {
				e += 1 + int64((k+g)%3)
			}
			c := w.mkCert(s.Init+uint64(k), from, e)
			if err := cs.Put(ctx, c); err != nil {
				t.Fatalf("Put(%d): %v", c.GPBFTInstance, err)
			}
			crts = append(crts, c)
		}
		backend := &linEC{period: m.EC.Period, table: w.table}
		run, _, err := f3.VerifNewRunnerOut(ctx, cs, backend, w.ps, w.ver, m, filepath.Join(base, fmt.Sprintf("g%d", g)), w.pid)
		if err != nil {
			t.Fatalf("newRunner: %v", err)
		}
		r.emit(ev{"ev": "TReset", "mf": s, "store": jstore(ctx, cs, s.Init)})
		P, A := s.Period, s.Align
		// the clock is set once per group (every Set of the mock clock sleeps); the distance between the clock and
		// the finalized tipset's timestamp is varied through the head's timestamp instead
		now := 50_000_000 + rng.Int63n(1000)*P + rng.Int63n(P)
		clk.Set(at(now))
		call := func(c *certs.FinalityCertificate, he, hts int64, herr bool) int64 {
			backend.setHead(he, at(hts), herr)
			got := run.ComputeNextInstanceStart(c)
			ms, rem := msOf(got)
			r.emit(ev{"ev": "Row", "i": c.GPBFTInstance, "head": ev{"epoch": he, "ts": hts, "err": herr}, "now": now, "start": ms, "rem": rem})
			rows++
			return ms
		}
		for k, c := range crts {
			ce := c.ECChain.Head().Epoch
			for hv := 0; hv < 2; hv++ {
				he := ce + []int64{-2, 0, 3, 1}[(k+g+2*hv)%4]
				// d = now - (timestamp of the finalized tipset as the head implies it); only used to choose inputs
				// around the interesting boundaries: d -> head timestamp
				htsFor := func(d int64) int64 { return now - d - (ce-he)*P }
				raw := call(c, he, htsFor(-100*P), false) - (now + 100*P) // clock far behind: the code's own unaligned delay
				ds := []int64{raw - 5, raw, raw + 10*P}
				if A > 0 {
					k2 := raw/A + 3
					ds = []int64{raw + A - 1, raw + A, raw + A + 1, raw + A + 1 + rng.Int63n(3*A), raw + 40*A + rng.Int63n(A),
						k2 * A, k2*A + 1, k2*A - 1, raw - 5}
				}
				for _, d := range ds {
					call(c, he, htsFor(d), false)
				}
				if (k+g+hv)%7 == 0 {
					call(c, he, htsFor(rng.Int63n(20*P)), true)
				}
			}
		}
		_ = run.CloseWAL()
	}
	t.Logf("groups=%d rows=%d events=%d", groups, rows, r.n)
}

// ================================================================== (ii) histories, loop calls made one at a time

type mkey struct {
	Inst   uint64 `json:"inst"`
	Round  uint64 `json:"round"`
	Phase  uint8  `json:"phase"`
	Sender uint64 `json:"sender"`
}

func keyOf(m *gpbft.GMessage) mkey {
	return mkey{Inst: m.Vote.Instance, Round: m.Vote.Round, Phase: uint8(m.Vote.Phase), Sender: uint64(m.Sender)}
}
func jmsgs(ms []*gpbft.GMessage) []mkey {
	out := make([]mkey, 0, len(ms))
	for _, m := range ms {
		out = append(out, keyOf(m))
	}
	return out
}

type hist struct {
	w       *world
	r       *rec
	rng     *rand.Rand
	ctx     context.Context
	clk     *clock.Mock
	s       mfSpec
	m       manifest.Manifest
	ds      datastore.Datastore
	cs      *certstore.Store
	backend *linEC
	dir     string
	local   map[uint64]bool
	run     *f3.VerifRunner
	out     <-chan *gpbft.MessageBuilder
	now     int64
	lag     int64
	stall   int
	lossy   bool
	inbox   []*gpbft.GMessage
	sigs    map[string]mkey
	lastEp  int64 // head epoch of the newest certificate in the store
	hold    bool  // certificates decided by the others are waiting: the node must not decide those instances differently
	voted   map[uint64]bool // instances the node has cast votes for (survives restarts, like the WAL)
	decEnd  map[uint64]int64 // head epoch of the value the node itself announced DECIDE for
}

func (h *hist) obs() ev {
	p := h.run.Progress()
	t, waiting, fired := h.run.Alarm()
	a := ev{"armed": waiting || fired, "at": int64(-1), "fired": fired}
	if waiting || fired {
		ms, rem := msOf(t)
		a["at"] = ms
		if rem != 0 {
			a["at"] = -7 // off the millisecond grid (participant-internal alarms may be)
		}
	}
	return ev{"prog": p.ID, "begun": h.run.Begun(), "alarm": a, "latest": latestOf(h.cs), "selfinsts": h.run.SelfInstances()}
}

func (h *hist) drainOut() ([]ev, []*gpbft.MessageBuilder) {
	js, mbs := []ev{}, []*gpbft.MessageBuilder{}
	for {
		select {
		case mb := <-h.out:
			e := ev{"inst": mb.Payload.Instance, "round": mb.Payload.Round, "phase": uint8(mb.Payload.Phase), "base": int64(-1), "len": 0}
			if !mb.Payload.Value.IsZero() {
				e["base"], e["len"] = mb.Payload.Value.Base().Epoch, mb.Payload.Value.Len()
			}
			js, mbs = append(js, e), append(mbs, mb)
		default:
			return js, mbs
		}
	}
}

func (h *hist) replayed() []mkey {
	out := []mkey{}
	for _, s := range h.w.ver.take() {
		if k, ok := h.sigs[string(s)]; ok {
			out = append(out, k)
		}
	}
	return out
}

func errs(err error) string {
	if err == nil {
		return ""
	}
	s := err.Error()
	if len(s) > 120 {
		s = s[:120]
	}
	return s
}

func (h *hist) head() ev {
	return ev{"epoch": h.backend.headE, "ts": h.backend.headE * h.s.Period, "err": false}
}

// tick: the clock moves to `now`; the EC head follows (unless it is stalled)
func (h *hist) tick(now int64) {
	if now < h.now {
		now = h.now
	}
	h.now = now
	if h.stall > 0 {
		h.stall--
	} else {
		e := now/h.s.Period - h.lag
		if e > h.backend.headE {
			h.backend.setHead(e, at(e*h.s.Period), false)
		}
	}
	h.clk.Set(at(now))
	e := ev{"ev": "Tick", "now": now, "head": h.head()}
	if h.run != nil {
		e["o"] = h.obs()
	} else {
		e["o"] = ev{"prog": 0, "begun": false, "alarm": ev{"armed": false, "at": -1, "fired": false}, "latest": latestOf(h.cs), "selfinsts": []uint64{}}
	}
	h.r.emit(e)
}

// put: certificates obtained from other nodes are stored (the runner is not told here)
func (h *hist) put(n int) {
	js := []ev{}
	for k := 0; k < n; k++ {
		inst := h.s.Init
		if l := h.cs.Latest(); l != nil {
			inst = l.GPBFTInstance + 1
		}
		from, to := h.lastEp, h.lastEp
		if _, ok := h.decEnd[inst]; h.voted[inst] && !ok {
			// every quorum of this table contains one of the node's identities: the others cannot have decided an instance
			// the node is voting on before the node has announced its own decision (which they then share - agreement)
			break
		}
		if end, ok := h.decEnd[inst]; ok {
			to = end // the node has announced its decision for this instance: the others decided the same (agreement)
		} else if h.hold = true; h.rng.Intn(3) != 0 {
			to = from + 1 + int64(h.rng.Intn(2))
			if to > h.backend.headE+1 {
				to = from
			}
		}
		c := h.w.mkCert(inst, from, to)
		if err := h.cs.Put(h.ctx, c); err != nil {
			h.w.t.Fatalf("Put(%d): %v", inst, err)
		}
		h.lastEp = to
		js = append(js, jcert(c))
	}
	if len(js) > 0 {
		h.r.emit(ev{"ev": "Put", "certs": js, "latest": latestOf(h.cs)})
	}
}

func (h *hist) boot() {
	cs, err := certstore.OpenStore(h.ctx, h.ds) // a restarted process opens the store from disk
	if err != nil {
		h.w.t.Fatalf("OpenStore: %v", err)
	}
	h.cs = cs
	h.w.ver.take()
	run, out, err := f3.VerifNewRunnerOut(h.ctx, h.cs, h.backend, h.w.ps, h.w.ver, h.m, h.dir, h.w.pid)
	if err != nil {
		h.w.t.Fatalf("newRunner: %v", err)
	}
	h.run, h.out, h.inbox, h.hold = run, out, nil, false // (decEnd and voted survive: the others have seen those votes)
	h.r.emit(ev{"ev": "Boot", "self": jmsgs(run.SelfMessages()), "o": h.obs()})
}

// certLatest: the subscription hands over the newest stored certificate (if there is one)
func (h *hist) certLatest() {
	if l := h.cs.Latest(); l != nil {
		h.cert(l.GPBFTInstance)
	}
}

func (h *hist) cert(i uint64) {
	c, err := h.cs.Get(h.ctx, i)
	if err != nil {
		h.w.t.Fatalf("Get(%d): %v", i, err)
	}
	h.w.ver.take()
	err = h.run.ReceiveCertificate(h.ctx, c)
	if int64(i) == latestOf(h.cs) {
		h.hold = false
	}
	o := h.obs()
	h.r.emit(ev{"ev": "Cert", "cert": jcert(c), "err": errs(err), "replay": h.replayed(),
		"queued": jmsgs(h.run.Queued(o["prog"].(uint64))), "o": o})
}

func (h *hist) startAt(inst uint64, when int64) {
	h.w.ver.take()
	err := h.run.StartInstanceAt(h.ctx, inst, at(when))
	o := h.obs()
	h.r.emit(ev{"ev": "StartAt", "inst": inst, "at": when, "err": errs(err), "replay": h.replayed(),
		"queued": jmsgs(h.run.Queued(o["prog"].(uint64))), "o": o})
}

// decided: if the participant moved on by itself during the last call, the certificate it stored
func (h *hist) decided(before uint64) ev {
	if h.run.Progress().ID == before {
		return noCert
	}
	c, err := h.cs.Get(h.ctx, before)
	if err != nil {
		return ev{"inst": -2, "suffix": false, "epoch": 0, "own": -1}
	}
	if e := c.ECChain.Head().Epoch; e > h.lastEp {
		h.lastEp = e
	}
	j := jcert(c)
	j["own"] = int64(-1) // head epoch of the value the node announced DECIDE for (the store may hold the others' certificate)
	if e, ok := h.decEnd[before]; ok {
		j["own"] = e
	}
	return j
}

func (h *hist) note(mbs []*gpbft.MessageBuilder) {
	for _, mb := range mbs {
		if mb.Payload.Phase == gpbft.DECIDE_PHASE && !mb.Payload.Value.IsZero() {
			h.decEnd[mb.Payload.Instance] = mb.Payload.Value.Head().Epoch
		}
	}
}

func (h *hist) collect(mbs []*gpbft.MessageBuilder) {
	for _, mb := range mbs {
		for _, pe := range h.w.table {
			id := uint64(pe.ID)
			msg, err := mb.Build(h.ctx, h.w.sb, pe.ID)
			if err != nil {
				h.w.t.Fatalf("signing for %d: %v", id, err)
			}
			h.sigs[string(msg.Signature)] = keyOf(msg)
			if h.local[id] {
				// the application signs for its own identities and hands the message to F3.Broadcast
				before := len(h.run.SelfMessages())
				err := h.run.Broadcast(h.ctx, msg)
				stored := len(h.run.SelfMessages()) > before
				h.r.emit(ev{"ev": "Bcast", "m": keyOf(msg), "stored": stored, "err": errs(err), "o": h.obs()})
				if !stored {
					continue // refused by the equivocation filter: never published, never comes back
				}
				h.voted[msg.Vote.Instance] = true
			} else if h.lossy && h.rng.Intn(3) == 0 {
				continue // a remote vote that never arrives
			}
			h.inbox = append(h.inbox, msg)
		}
	}
}

func (h *hist) alarm() {
	before := h.run.Progress().ID
	h.w.ver.take()
	fired, err := h.run.TakeAlarm(h.ctx)
	out, mbs := h.drainOut()
	h.note(mbs)
	h.r.emit(ev{"ev": "Alarm", "fired": fired, "err": errs(err), "out": out, "dec": h.decided(before), "o": h.obs()})
	h.collect(mbs)
}

func (h *hist) deliver() {
	k := 0
	if h.lossy {
		k = h.rng.Intn(len(h.inbox))
	}
	msg := h.inbox[k]
	h.inbox = append(h.inbox[:k], h.inbox[k+1:]...)
	before := h.run.Progress().ID
	verr, rerr := h.run.TakeMessage(h.ctx, msg)
	out, mbs := h.drainOut()
	h.note(mbs)
	h.r.emit(ev{"ev": "Deliver", "m": keyOf(msg), "local": h.local[uint64(msg.Sender)], "verr": errs(verr), "rerr": errs(rerr),
		"out": out, "dec": h.decided(before), "o": h.obs()})
	h.collect(mbs)
}

func (h *hist) crash() {
	_ = h.run.CloseWAL()
	h.run, h.out, h.inbox = nil, nil, nil
	h.r.emit(ev{"ev": "Crash"})
}

// initial choice: the two statements of Start (host.go:176-185); the real Start is exercised by TestRunnerLoop
func (h *hist) initialChoice() {
	if l := h.cs.Latest(); l != nil {
		h.cert(l.GPBFTInstance)
	} else {
		h.startAt(h.s.Init, h.now)
	}
}

var hPeriods = []int64{2000, 4000, 30000}

func TestRunnerHistories(t *testing.T) {
	r, done := openRec(t)
	defer done()
	seed := int64(envInt("VERIF_SEED", 1))
	nh := envInt("VERIF_N", 60)
	steps := envInt("VERIF_STEPS", 70)
	rng := rand.New(rand.NewSource(seed))
	ctx0, cancel := context.WithCancel(context.Background())
	defer cancel()
	w := newWorld(t, ctx0)
	base := t.TempDir()
	locals := [][]uint64{{1, 2}, {1, 2, 3}, {1}, {2, 3}, {1, 3}}
	spent := map[int]time.Duration{}
	for hi := 0; hi < nh; hi++ {
		s := mfSpec{Period: hPeriods[(hi+int(seed))%3], Mult2: gMult2[rng.Intn(5)], Lookback: []int{0, 0, 1, 2}[rng.Intn(4)],
			Table2: gTables[rng.Intn(4)], Align: []int64{0, 3000, 8000}[rng.Intn(3)], Init: gInits[hi%2]}
		ctx, clk := clock.WithMockClock(ctx0)
		h := &hist{w: w, r: r, rng: rng, ctx: ctx, clk: clk, s: s, m: w.manifest(s), dir: filepath.Join(base, fmt.Sprintf("h%d", hi)),
			local: map[uint64]bool{}, sigs: map[string]mkey{}, lastEp: bootE, lag: int64(rng.Intn(3)), lossy: hi%4 == 3,
			ds: ds_sync.MutexWrap(datastore.NewMapDatastore()), decEnd: map[uint64]int64{}, voted: map[uint64]bool{}}
		for _, id := range locals[hi%len(locals)] {
			h.local[id] = true
		}
		h.backend = &linEC{period: h.m.EC.Period, table: w.table}
		h.now = (bootE+3+int64(rng.Intn(4)))*s.Period + int64(rng.Intn(int(s.Period)))
		he := h.now/s.Period - h.lag
		h.backend.setHead(he, at(he*s.Period), false)
		clk.Set(at(h.now))
		var err error
		if h.cs, err = certstore.CreateStore(ctx, h.ds, s.Init, w.table); err != nil {
			t.Fatal(err)
		}
		lids := []uint64{}
		for _, id := range locals[hi%len(locals)] {
			lids = append(lids, id)
		}
		r.emit(ev{"ev": "HReset", "mf": s, "local": lids, "now": h.now, "head": h.head(), "lossy": h.lossy, "bootE": bootE})
		if rng.Intn(3) == 0 {
			h.put(1 + rng.Intn(4)) // the store already holds certificates when the node starts
		}
		idle := 0
		for n := 0; n < steps; n++ {
			if h.run == nil {
				if rng.Intn(3) == 0 { // the node was down for a while: clock, EC and the other nodes moved on
					h.tick(h.now + int64(rng.Intn(60))*s.Period + int64(rng.Intn(int(s.Period))))
					if rng.Intn(2) == 0 {
						h.put(1 + rng.Intn(3))
					}
				}
				h.boot()
				h.initialChoice()
				continue
			}
			_, mbs := h.drainOut()
			h.collect(mbs)
			_, waiting, fired := h.run.Alarm()
			x := rng.Intn(100)
			t0 := time.Now()
			if h.hold && x >= 16 {
				if x < 60 {
					h.certLatest()
					continue
				}
				x = 99 // no message is handed over meanwhile; the clock may move, alarms may fire
			}
			switch {
			case x < 2:
				h.crash()
			case x < 7:
				h.put(1 + rng.Intn(3))
				if rng.Intn(3) != 0 {
					h.certLatest() // the subscription hands over the newest one only
				}
			case x < 13 && latestOf(h.cs) >= int64(s.Init):
				// any stored certificate: a stale one, a duplicate, the newest
				lo, hi := int64(s.Init), latestOf(h.cs)
				i := lo + rng.Int63n(hi-lo+1)
				if rng.Intn(2) == 0 {
					i = hi
				}
				h.cert(uint64(i))
			case x < 24 && !h.hold && func() bool { _, ok := h.decEnd[h.run.Progress().ID]; return ok }() && latestOf(h.cs) < int64(h.run.Progress().ID):
				// the node has announced its decision but not yet terminated: the others' certificate for the same
				// instance (same value) reaches the store first; the node's own decision then finds it there
				h.put(1)
			case x < 16:
				h.stall = 2 + rng.Intn(6) // EC stops producing for a while: base decisions follow
				h.tick(h.now + int64(rng.Intn(int(s.Period))))
			case len(h.inbox) > 0 && x < 85:
				h.deliver()
				idle = 0
			case fired:
				h.alarm()
			case waiting:
				t1, _, _ := h.run.Alarm()
				ms, _ := msOf(t1)
				if rng.Intn(4) == 0 && ms > h.now+1 {
					h.tick(h.now + 1 + rng.Int63n(ms-h.now)) // not yet due
				} else {
					h.tick(ms + int64(rng.Intn(3))*int64(rng.Intn(int(s.Period))))
				}
			case len(h.inbox) > 0 && !h.hold:
				h.deliver()
			default:
				// nothing armed, nothing to deliver: the node waits for the others
				idle++
				h.tick(h.now + int64(rng.Intn(int(2*s.Period))))
				if idle > 2 {
					h.put(1)
					h.certLatest()
					idle = 0
				}
			}
			spent[x/1] += time.Since(t0)
		}
		if h.run != nil {
			_ = h.run.CloseWAL()
		}
		os.RemoveAll(h.dir)
	}
	var tot [5]time.Duration
	for x, d := range spent {
		switch {
		case x < 2:
			tot[0] += d
		case x < 13:
			tot[1] += d
		case x < 16:
			tot[2] += d
		default:
			tot[3] += d
		}
	}
	t.Logf("histories=%d events=%d time: crash=%v put/cert=%v stall=%v other=%v", nh, r.n, tot[0], tot[1], tot[2], tot[3])
}

// ================================================================== (iii) the real Start and event loop

// loopIdle: every goroutine of gpbftRunner.Start (event loop, finalizer) is parked in its select.  A goroutine
// with a value waiting on one of its channels is runnable, not parked - so after a stimulus that sends
// synchronously (certstore.Put, mock clock) "parked" means "has nothing left to do".
var stackBuf = make([]byte, 4<<20)

func loopIdle() (idle bool, found int) {
	buf := stackBuf
	n := runtime.Stack(buf, true)
	idle = true
	for _, g := range strings.Split(string(buf[:n]), "\n\n") {
		if !strings.Contains(g, "(*gpbftRunner).Start.func") {
			continue
		}
		found++
		hdr := g
		if i := strings.IndexByte(g, '\n'); i >= 0 {
			hdr = g[:i]
		}
		a, b := strings.IndexByte(hdr, '['), strings.IndexByte(hdr, ']')
		st := ""
		if a >= 0 && b > a {
			st = hdr[a+1 : b]
		}
		if i := strings.IndexByte(st, ','); i >= 0 {
			st = st[:i]
		}
		if st != "select" {
			idle = false
		}
	}
	return idle, found
}

func settle(t *testing.T, want int) {
	deadline := time.Now().Add(120 * time.Second)
	for time.Now().Before(deadline) {
		if idle, found := loopIdle(); idle && found == want {
			return
		}
		time.Sleep(time.Millisecond)
	}
	t.Fatalf("event loop did not settle")
}

// decideMsg: a DECIDE vote of `sender` for instance inst finalizing from..to, justified by everybody's COMMIT
// (justified by the COMMITs of round `nonce`: pubsub drops a message whose bytes it has seen before)
func (w *world) decideMsg(inst uint64, from, to int64, sender int, nonce uint64) *gpbft.GMessage {
	ctx := context.Background()
	crt := w.mkCert(inst, from, to)
	commit := gpbft.Payload{Instance: inst, Round: nonce, Phase: gpbft.COMMIT_PHASE, SupplementalData: crt.SupplementalData, Value: crt.ECChain}
	agg, err := w.sb.Aggregate(w.table.PublicKeys())
	if err != nil {
		w.t.Fatal(err)
	}
	cm := commit.MarshalForSigning(netName)
	signers := bitfield.New()
	var mask []int
	var sigs [][]byte
	for i, e := range w.table {
		s, err := w.sb.Sign(ctx, e.PubKey, cm)
		if err != nil {
			w.t.Fatal(err)
		}
		signers.Set(uint64(i))
		mask, sigs = append(mask, i), append(sigs, s)
	}
	asig, err := agg.Aggregate(mask, sigs)
	if err != nil {
		w.t.Fatal(err)
	}
	pl := gpbft.Payload{Instance: inst, Round: 0, Phase: gpbft.DECIDE_PHASE, SupplementalData: crt.SupplementalData, Value: crt.ECChain}
	sig, err := w.sb.Sign(ctx, w.table[sender].PubKey, pl.MarshalForSigning(netName))
	if err != nil {
		w.t.Fatal(err)
	}
	return &gpbft.GMessage{Sender: w.table[sender].ID, Vote: pl, Signature: sig,
		Justification: &gpbft.Justification{Vote: commit, Signers: signers, Signature: asig}}
}

type loopH struct {
	*hist
	t       *testing.T
	hl      *hookLog
	started bool
	nonce   uint64
}

func (h *loopH) nextNonce() uint64 { h.nonce++; return h.nonce }
func (h *loopH) nextStoreInst() uint64 {
	if l := h.cs.Latest(); l != nil {
		return l.GPBFTInstance + 1
	}
	return h.s.Init
}

func (h *loopH) lobs() ev {
	o := h.obs()
	o["queued"] = jmsgs(h.run.Queued(o["prog"].(uint64)))
	return o
}

func (h *loopH) lstart() {
	cs, err := certstore.OpenStore(h.ctx, h.ds)
	if err != nil {
		if h.cs.Latest() != nil {
			h.t.Fatalf("OpenStore: %v", err)
		}
		cs = h.cs // nothing stored yet: the store created for this history
	}
	h.cs = cs
	h.w.ver.take()
	h.hl.take()
	run, out, err := f3.VerifNewRunnerOut(h.ctx, h.cs, h.backend, h.w.ps, h.w.ver, h.m, h.dir, h.w.pid)
	if err != nil {
		h.t.Fatalf("newRunner: %v", err)
	}
	h.run, h.out = run, out
	if err := run.Start(h.ctx); err != nil {
		h.t.Fatalf("Start: %v", err)
	}
	h.started = true
	settle(h.t, 2)
	outs, _ := h.drainOut()
	h.r.emit(ev{"ev": "LStart", "self": jmsgs(run.SelfMessages()), "replay": h.replayed(), "out": outs, "o": h.lobs()})
}

func (h *loopH) lstop() {
	ctx, cancel := context.WithTimeout(context.Background(), 60*time.Second)
	err := h.run.Stop(ctx)
	cancel()
	settle(h.t, 0)
	h.started, h.run = false, nil
	h.r.emit(ev{"ev": "LStop", "err": errs(err)})
}

// lstep: the clock (and the EC head) move, then certificates obtained from other nodes are stored; the loop reacts
func (h *loopH) lstep(now int64, ncerts int, kind string, first string) {
	if now > h.now {
		h.now = now
		e := now/h.s.Period - h.lag
		if e > h.backend.headE {
			h.backend.setHead(e, at(e*h.s.Period), false)
		}
		h.clk.Set(at(now))
		settle(h.t, 2)
	}
	certs := []ev{}
	for k := 0; k < ncerts; k++ {
		inst := h.s.Init
		if l := h.cs.Latest(); l != nil {
			inst = l.GPBFTInstance + 1
		}
		to := h.lastEp
		if h.rng.Intn(3) != 0 && h.lastEp+1 <= h.backend.headE {
			to = h.lastEp + 1
		}
		c := h.w.mkCert(inst, h.lastEp, to)
		if err := h.cs.Put(h.ctx, c); err != nil {
			h.t.Fatalf("Put(%d): %v", inst, err)
		}
		h.lastEp = to
		certs = append(certs, jcert(c))
	}
	settle(h.t, 2)
	outs, _ := h.drainOut()
	h.r.emit(ev{"ev": "LStep", "kind": kind, "first": first, "now": h.now, "head": h.head(), "certs": certs, "replay": h.replayed(),
		"out": outs, "o": h.lobs()})
}

func (h *loopH) publish(msg *gpbft.GMessage) (validated bool) {
	enc := encoding.NewCBOR[*gpbft.PartialGMessage]()
	data, err := enc.Encode(&gpbft.PartialGMessage{GMessage: msg})
	if err != nil {
		h.t.Fatal(err)
	}
	if err := h.run.PublishRaw(h.ctx, data); err != nil {
		h.t.Fatalf("publish: %v", err)
	}
	// validated by the runner's topic validator (on a pubsub goroutine) ...
	deadline := time.Now().Add(30 * time.Second)
	for !h.w.ver.saw(msg.Signature) && time.Now().Before(deadline) {
		time.Sleep(time.Millisecond)
	}
	if os.Getenv("VERIF_DEBUG") != "" {
		h.t.Logf("publish inst=%d phase=%d: validated=%v after %v", msg.Vote.Instance, msg.Vote.Phase, h.w.ver.saw(msg.Signature), time.Since(deadline.Add(-30*time.Second)))
	}
	// ... then forwarded to the loop's message queue; give that hand-over time (being late only weakens the probe)
	time.Sleep(40 * time.Millisecond)
	return h.w.ver.saw(msg.Signature)
}

// fenceMsg: a QUALITY vote of identity 3 for an instance a few ahead.  Messages are served in the order they were
// published, so once this one sits in the participant's queue everything published before it has been served.
func (w *world) fenceMsg(inst uint64, e int64, nonce uint64) *gpbft.GMessage {
	ts := tipset(w, e)
	ts.Key = []byte(fmt.Sprintf("F%d", nonce))
	chain, err := gpbft.NewChain(ts)
	if err != nil {
		w.t.Fatal(err)
	}
	pl := gpbft.Payload{Instance: inst, Round: 0, Phase: gpbft.QUALITY_PHASE, SupplementalData: gpbft.SupplementalData{PowerTable: w.ptCid}, Value: chain}
	sig, err := w.sb.Sign(context.Background(), w.table[2].PubKey, pl.MarshalForSigning(netName))
	if err != nil {
		w.t.Fatal(err)
	}
	return &gpbft.GMessage{Sender: w.table[2].ID, Vote: pl, Signature: sig}
}

// served: wait until the fence message has reached the participant's queue
func (h *loopH) served(inst uint64) (ok bool) {
	deadline := time.Now().Add(60 * time.Second)
	if os.Getenv("VERIF_DEBUG") != "" {
		defer func() { h.t.Logf("served(%d)=%v after %v", inst, ok, time.Since(deadline.Add(-60*time.Second))) }()
	}
	for time.Now().Before(deadline) {
		settle(h.t, 2)
		for _, m := range h.run.Queued(inst) {
			if m.Sender == h.w.table[2].ID && m.Vote.Phase == gpbft.QUALITY_PHASE {
				return true
			}
		}
		time.Sleep(2 * time.Millisecond)
	}
	return false
}

// prio1: the loop is busy beginning instance k (held inside GetProposal); meanwhile a certificate for k is stored and a
// DECIDE vote for k arrives.  Served certificate first: the node skips to k+1 and drops the vote as old.  Served
// message first: the node joins the DECIDE phase of k and asks for its own DECIDE vote to be signed.
func (h *loopH) prio1() {
	tA, waiting, _ := h.run.Alarm()
	if !waiting || h.run.Begun() {
		return
	}
	k := h.nextStoreInst() // the probe needs the node to be working on the instance the next certificate is for
	if h.run.Progress().ID != k {
		return
	}
	ms, _ := msOf(tA)
	h.backend.mu.Lock()
	h.backend.gateOn = map[string]bool{"GetTipset": true}
	h.backend.mu.Unlock()
	h.w.ver.take()
	h.now = ms
	e := h.now/h.s.Period - h.lag
	if e > h.backend.headE {
		h.backend.setHead(e, at(e*h.s.Period), false)
	}
	h.hl.take()
	h.clk.Set(at(ms)) // the alarm fires; the loop takes it and is held at the gate
	select {
	case <-h.backend.entered:
	case <-time.After(60 * time.Second):
		h.t.Fatalf("prio1: the loop did not take the alarm")
	}
	to := h.lastEp
	if h.lastEp+1 <= h.backend.headE {
		to = h.lastEp + 1
	}
	c := h.w.mkCert(k, h.lastEp, to)
	if err := h.cs.Put(h.ctx, c); err != nil {
		h.t.Fatalf("Put(%d): %v", k, err)
	}
	from := h.lastEp
	h.lastEp = to
	ok := h.publish(h.w.decideMsg(k, from, to, 0, h.nextNonce()))
	h.publish(h.w.fenceMsg(k+3, to, h.nextNonce()))
	h.backend.release <- struct{}{}
	first := "unknown"
	if h.served(k+3) && ok {
		// the DECIDE vote for k has been served: dropped as old (the certificate came first) or received by instance k
		first = "msg"
		if h.hl.has(fmt.Sprintf("dropping message from old instance %d ", k)) {
			first = "cert"
		}
	}
	settle(h.t, 2)
	outs, _ := h.drainOut()
	if os.Getenv("VERIF_DEBUG") != "" {
		h.t.Logf("prio1 k=%d first=%s log=%q", k, first, h.hl.take())
	}
	h.r.emit(ev{"ev": "LStep", "kind": "prio-cert", "first": first, "now": h.now, "head": h.head(), "certs": []ev{jcert(c)}, "replay": h.replayed(),
		"out": outs, "o": h.lobs()})
}

// prio2: the loop is busy with the certificate for k (held inside computeNextInstanceStart); the start it computes for
// k+1 is already due, and meanwhile a DECIDE vote for k+1 arrives.  Served alarm first: instance k+1 begins with
// nothing queued.  Served message first: the vote is queued and handed over when the instance begins.
func (h *loopH) prio2() {
	k := h.nextStoreInst()
	if h.run.Progress().ID != k {
		return
	}
	h.backend.mu.Lock()
	h.backend.gateOn = map[string]bool{"GetHead": true}
	h.backend.mu.Unlock()
	h.w.ver.take()
	h.hl.take()
	to := h.lastEp
	if h.lastEp+1 <= h.backend.headE {
		to = h.lastEp + 1
	}
	c := h.w.mkCert(k, h.lastEp, to)
	if err := h.cs.Put(h.ctx, c); err != nil {
		h.t.Fatalf("Put(%d): %v", k, err)
	}
	h.lastEp = to
	select {
	case <-h.backend.entered:
	case <-time.After(60 * time.Second):
		h.t.Fatalf("prio2: the loop did not take the certificate")
	}
	ok := h.publish(h.w.decideMsg(k+1, to, to, 0, h.nextNonce()))
	h.publish(h.w.fenceMsg(k+4, to, h.nextNonce()))
	h.backend.release <- struct{}{}
	first := "unknown"
	if h.served(k+4) && ok && h.run.Begun() && h.run.Progress().ID == k+1 {
		// the start computed for k+1 was due and the DECIDE vote for k+1 has been served: queued and handed over when
		// the instance began (the message came first), or received by the running instance
		first = "alarm"
		if h.hl.has(fmt.Sprintf("Delivering queued {%d} ← P1: DECIDE", k+1)) {
			first = "msg"
		}
	}
	settle(h.t, 2)
	outs, _ := h.drainOut()
	if os.Getenv("VERIF_DEBUG") != "" {
		h.t.Logf("prio2 k=%d first=%s log=%q", k, first, h.hl.take())
	}
	h.r.emit(ev{"ev": "LStep", "kind": "prio-alarm", "first": first, "now": h.now, "head": h.head(), "certs": []ev{jcert(c)}, "replay": h.replayed(),
		"out": outs, "o": h.lobs()})
}

func TestRunnerLoop(t *testing.T) {
	r, done := openRec(t)
	defer done()
	seed := int64(envInt("VERIF_SEED", 1))
	nh := envInt("VERIF_N", 16)
	rng := rand.New(rand.NewSource(seed))
	hl := &hookLog{}
	f3.VerifSetTracer(&recTracer{l: hl})
	base := t.TempDir()
	for hi := 0; hi < nh; hi++ {
		s := mfSpec{Period: hPeriods[(hi+int(seed))%3], Mult2: gMult2[rng.Intn(5)], Lookback: []int{0, 0, 1}[rng.Intn(3)],
			Table2: gTables[rng.Intn(4)], Align: []int64{0, 0, 3000, 8000}[rng.Intn(4)], Init: gInits[hi%2]}
		// a node of its own per history (own libp2p host, pubsub and keys)
		ctx0, cancel := context.WithCancel(context.Background())
		w := newWorld(t, ctx0)
		ctx, clk := clock.WithMockClock(ctx0)
		m := w.manifest(s)
		m.ChainExchange.RebroadcastInterval = 24 * time.Hour // a ticker on the mock clock: keep it out of the way of clock jumps
		h := &loopH{t: t, hl: hl, hist: &hist{w: w, r: r, rng: rng, ctx: ctx, clk: clk, s: s, m: m, dir: filepath.Join(base, fmt.Sprintf("l%d", hi)),
			// one identity without a quorum of its own: replaying its votes cannot decide an instance by itself
			local: map[uint64]bool{1: true}, sigs: map[string]mkey{}, lastEp: bootE, lag: int64(rng.Intn(2)),
			ds: ds_sync.MutexWrap(datastore.NewMapDatastore()), decEnd: map[uint64]int64{}, voted: map[uint64]bool{}}}
		h.backend = &linEC{period: m.EC.Period, table: w.table, hl: hl, entered: make(chan string, 1), release: make(chan struct{})}
		h.now = (bootE+3+int64(rng.Intn(4)))*s.Period + int64(rng.Intn(int(s.Period)))
		he := h.now/s.Period - h.lag
		h.backend.setHead(he, at(he*s.Period), false)
		clk.Set(at(h.now))
		var err error
		if h.cs, err = certstore.CreateStore(ctx, h.ds, s.Init, w.table); err != nil {
			t.Fatal(err)
		}
		r.emit(ev{"ev": "HReset", "mf": s, "local": []uint64{1}, "now": h.now, "head": h.head(), "lossy": false, "bootE": bootE})
		if hi%3 != 0 {
			h.put(1 + rng.Intn(4))
		}
		// some histories: the node has been working on the next instance before (its votes are in the WAL)
		if hi%2 == 1 {
			h.boot()
			h.initialChoice()
			for n := 0; n < 12; n++ {
				_, mbs := h.drainOut()
				h.collect(mbs)
				_, waiting, fired := h.run.Alarm()
				switch {
				case len(h.inbox) > 0 && n < 9:
					h.deliver()
				case fired:
					h.alarm()
				case waiting:
					t1, _, _ := h.run.Alarm()
					ms, _ := msOf(t1)
					h.tick(ms)
				}
			}
			h.crash()
			if rng.Intn(3) == 0 {
				h.put(1 + rng.Intn(2)) // the others moved on while the node was down
			}
		}
		h.lstart()
		for n := 0; n < 5; n++ {
			switch x := rng.Intn(10); {
			case x < 3:
				h.lstep(h.now, 1+rng.Intn(3), "put", "")
			case x < 5:
				t1, waiting, _ := h.run.Alarm()
				ms, _ := msOf(t1)
				if waiting && ms > h.now {
					h.lstep(ms, 0, "tick", "")
				} else {
					h.lstep(h.now+int64(rng.Intn(int(3*s.Period))), 0, "tick", "")
				}
			case x < 7 || (x < 9 && s.Align > 0):
				h.prio1()
			case x < 9:
				// the node is far behind: whatever start is computed next is already due
				h.lstep(h.now+int64(40+rng.Intn(40))*s.Period, 0, "tick", "")
				h.prio2()
			default:
				h.lstop()
				h.lstart()
			}
		}
		h.lstop()
		os.RemoveAll(h.dir)
		cancel()
	}
	t.Logf("histories=%d events=%d", nh, r.n)
}

// TestRunnerProbeDefaultBackoff is not part of the check: it prints what the production function returns for the
// DEFAULT manifest after n consecutive base decisions (used for the observations in checks/runnerstage.mutations.txt).
func TestRunnerProbeDefaultBackoff(t *testing.T) {
	if os.Getenv("VERIF_PROBE") == "" {
		t.Skip("VERIF_PROBE not set")
	}
	ctx0, cancel := context.WithCancel(context.Background())
	defer cancel()
	w := newWorld(t, ctx0)
	m := manifest.LocalDevnetManifest()
	m.NetworkName = netName
	m.BootstrapEpoch = bootE + finality
	m.EC.Finality = finality
	m.PubSub.CompressionEnabled = false
	m.CatchUpAlignment = 0
	ctx, clk := clock.WithMockClock(ctx0)
	clk.Set(T0)
	cs, err := certstore.CreateStore(ctx, ds_sync.MutexWrap(datastore.NewMapDatastore()), 0, w.table)
	if err != nil {
		t.Fatal(err)
	}
	var crts []*certs.FinalityCertificate
	for k := 0; k < 14; k++ {
		c := w.mkCert(uint64(k), bootE, bootE) // every decision is the base alone
		if err := cs.Put(ctx, c); err != nil {
			t.Fatal(err)
		}
		crts = append(crts, c)
	}
	backend := &linEC{period: m.EC.Period, table: w.table}
	backend.setHead(bootE, T0.Add(time.Duration(bootE)*m.EC.Period), false)
	run, _, err := f3.VerifNewRunnerOut(ctx, cs, backend, w.ps, w.ver, m, filepath.Join(t.TempDir(), "wal"), w.pid)
	if err != nil {
		t.Fatal(err)
	}
	base := T0.Add(time.Duration(bootE) * m.EC.Period)
	t.Logf("default manifest: period=%v multiplier=%v table=%v", m.EC.Period, m.EC.DelayMultiplier, m.EC.BaseDecisionBackoffTable)
	for _, c := range crts {
		t.Logf("certificate %2d (base decision, %2d earlier ones in a row after the initial instance): start = finalized tipset + %v",
			c.GPBFTInstance, max(0, int(c.GPBFTInstance)-1), run.ComputeNextInstanceStart(c).Sub(base))
	}
}

//go:build verif

// End-to-end driver for property C12 (thorough tier): the full public path
//   gpbft.Participant -> F3.MessagesToSign -> (this file signs) -> F3.Broadcast -> filter -> WAL -> pubsub
// on a real F3 node (f3.New / Start / Stop over one datastore, one disk path, the fake EC on a mock
// clock) connected over mocknet to a second libp2p host that only observes the node's GPBFT topic.
// The node holds all the power, so it walks through instances alone; the driver stops it at random
// points (often right after the first vote of an instance, sometimes cutting a call between WAL
// append and publish), lets the EC head move while it is down, and starts it again: the restarted
// participant re-enters the same instance with a different proposal and asks to broadcast votes for
// slots it already voted in.  Stale and re-signed requests from before the restart are replayed too.
//
// One NDJSON line per observation (what was requested, what passed the publish point with the WAL
// directory as a restarted process would read it, what arrived at the observer, the filter after
// each start).  No oracle here: verdicts are TLC's (spec/host/BroadcastTrace.tla).
package zzbroadcastf3

import (
	"bufio"
	"context"
	"encoding/hex"
	"encoding/json"
	"errors"
	"math/rand"
	"os"
	"strconv"
	"sync"
	"testing"
	"time"

	f3 "github.com/filecoin-project/go-f3"
	"github.com/filecoin-project/go-f3/gpbft"
	"github.com/filecoin-project/go-f3/internal/clock"
	"github.com/filecoin-project/go-f3/internal/consensus"
	"github.com/filecoin-project/go-f3/internal/encoding"
	"github.com/filecoin-project/go-f3/manifest"
	"github.com/filecoin-project/go-f3/sim/signing"
	"github.com/ipfs/go-datastore"
	ds_sync "github.com/ipfs/go-datastore/sync"
	pubsub "github.com/libp2p/go-libp2p-pubsub"
	"github.com/libp2p/go-libp2p/core/peer"
	mocknet "github.com/libp2p/go-libp2p/p2p/net/mock"
)

type ev map[string]any

type rec struct {
	mu sync.Mutex
	w  *bufio.Writer
	n  int
}

func (r *rec) emit(e ev) {
	b, err := json.Marshal(e)
	if err != nil {
		panic(err)
	}
	r.mu.Lock()
	defer r.mu.Unlock()
	r.w.Write(b)
	r.w.WriteByte('\n')
	r.n++
}

func envInt(k string, d int) int {
	if v, err := strconv.Atoi(os.Getenv(k)); err == nil {
		return v
	}
	return d
}

func sigName(b []byte) string {
	if len(b) > 6 {
		b = b[:6]
	}
	return hex.EncodeToString(b)
}

func jm(m *gpbft.GMessage) ev {
	return ev{"inst": m.Vote.Instance, "sender": uint64(m.Sender), "round": m.Vote.Round, "phase": uint8(m.Vote.Phase), "sig": sigName(m.Signature)}
}

func jms(ms []*gpbft.GMessage) []ev {
	out := make([]ev, 0, len(ms))
	for _, m := range ms {
		out = append(out, jm(m))
	}
	return out
}

var errCut = errors.New("verif: call cut between WAL append and publish")

type node struct {
	t      *testing.T
	r      *rec
	ctx    context.Context
	m      manifest.Manifest
	sb     *signing.FakeBackend
	fec    *consensus.FakeEC
	ds     datastore.Datastore
	h      peer.ID
	mk     func() (*f3.F3, error)
	f3     *f3.F3
	walDir string
	local  peer.ID

	mu     sync.Mutex
	cutSig string // signature id of the message whose publish is to be cut ("" = none)
}

func (n *node) snapshot() []ev {
	var err error
	for try := 0; try < 5; try++ { // a purge may delete a file between listing and reading
		var ms []*gpbft.GMessage
		if ms, err = f3.VerifReadWAL(n.walDir); err == nil {
			return jms(ms)
		}
		time.Sleep(time.Millisecond)
	}
	n.r.emit(ev{"ev": "Info", "what": "reading WAL dir: " + err.Error()})
	return []ev{}
}

func (n *node) hook(p *gpbft.PartialGMessage) error {
	e := ev{"ev": "F3Enc", "m": jm(p.GMessage), "wal": n.snapshot(), "aborted": false}
	n.mu.Lock()
	cut := n.cutSig != "" && n.cutSig == sigName(p.Signature)
	if cut {
		n.cutSig = ""
	}
	n.mu.Unlock()
	if cut {
		e["aborted"] = true
		n.r.emit(e)
		return errCut
	}
	n.r.emit(e)
	return nil
}

func (n *node) dump(e ev) {
	cur, seen, act, ok := f3.VerifF3FilterDump(n.f3)
	if !ok {
		n.t.Fatalf("filter dump: F3 not running")
	}
	e["cur"] = cur
	js := make([]ev, 0, len(seen))
	for _, s := range seen {
		js = append(js, ev{"sender": s.Sender, "round": s.Round, "phase": s.Phase, "sig": sigName(s.Sig), "local": s.Origin == n.local})
	}
	e["seen"] = js
	ja := make([]ev, 0, len(act))
	for _, a := range act {
		rem := make([]ev, 0)
		for _, o := range a.Origins {
			if o != n.local {
				rem = append(rem, ev{"id": o.String(), "lt": string(o) < string(n.local)})
			}
		}
		ja = append(ja, ev{"sender": a.Sender, "remotes": rem, "equiv": a.Equivocation})
	}
	e["act"] = ja
}

type signed struct {
	sb  *gpbft.SignatureBuilder
	sig []byte
	vrf []byte
	msg *gpbft.GMessage
}

func TestF3Histories(t *testing.T) {
	out := os.Getenv("VERIF_OUT")
	if out == "" {
		t.Skip("VERIF_OUT not set")
	}
	fh, err := os.Create(out)
	if err != nil {
		t.Fatal(err)
	}
	defer fh.Close()
	r := &rec{w: bufio.NewWriterSize(fh, 1<<20)}
	defer func() { r.mu.Lock(); r.w.Flush(); r.mu.Unlock() }()
	seed := int64(envInt("VERIF_SEED", 1))
	cycles := envInt("VERIF_CYCLES", 12)
	rng := rand.New(rand.NewSource(seed))

	ctx, cancel := context.WithCancel(context.Background())
	defer cancel()
	ctx, clk := clock.WithMockClock(ctx)

	m := manifest.LocalDevnetManifest()
	m.NetworkName = gpbft.NetworkName("verifc12e2e")
	m.BootstrapEpoch = 50
	m.EC.Finality = 40
	m.EC.Period = 10 * time.Second
	m.EC.HeadLookback = 0
	m.CatchUpAlignment = 5 * time.Second

	sb := signing.NewFakeBackend()
	pub, _ := sb.GenerateKey()
	sb.Allow(1)
	pt := gpbft.PowerEntries{{ID: 1, PubKey: pub, Power: gpbft.NewStoragePower(1000)}}
	fec := consensus.NewFakeEC(consensus.WithClock(clk), consensus.WithSeed(1413+seed), consensus.WithBootstrapEpoch(m.BootstrapEpoch),
		consensus.WithMaxLookback(2*m.EC.Finality), consensus.WithECPeriod(m.EC.Period), consensus.WithInitialPowerTable(pt))

	mn := mocknet.New()
	defer mn.Close()
	hA, err := mn.GenPeer()
	if err != nil {
		t.Fatal(err)
	}
	hO, err := mn.GenPeer()
	if err != nil {
		t.Fatal(err)
	}
	if err := mn.LinkAll(); err != nil {
		t.Fatal(err)
	}
	if err := mn.ConnectAllButSelf(); err != nil {
		t.Fatal(err)
	}
	// flood publish (as Lotus configures it): own messages go to every topic peer at once, mesh or not
	psA, err := pubsub.NewGossipSub(ctx, hA, pubsub.WithMessageSignaturePolicy(pubsub.StrictNoSign), pubsub.WithFloodPublish(true))
	if err != nil {
		t.Fatal(err)
	}
	psO, err := pubsub.NewGossipSub(ctx, hO, pubsub.WithMessageSignaturePolicy(pubsub.StrictNoSign))
	if err != nil {
		t.Fatal(err)
	}
	topicO, err := f3.VerifJoinGPBFTTopic(psO, m)
	if err != nil {
		t.Fatal(err)
	}
	subO, err := topicO.Subscribe(pubsub.WithBufferSize(4096))
	if err != nil {
		t.Fatal(err)
	}
	var dec encoding.EncodeDecoder[*gpbft.PartialGMessage]
	if m.PubSub.CompressionEnabled {
		z, err := encoding.NewZSTD[*gpbft.PartialGMessage]()
		if err != nil {
			t.Fatal(err)
		}
		dec = z
	} else {
		dec = encoding.NewCBOR[*gpbft.PartialGMessage]()
	}

	ds := ds_sync.MutexWrap(datastore.NewMapDatastore())
	disk := t.TempDir()
	n := &node{t: t, r: r, ctx: ctx, m: m, sb: sb, fec: fec, ds: ds, local: hA.ID()}
	n.mk = func() (*f3.F3, error) { return f3.New(ctx, m, ds, hA, psA, sb, fec, disk) }

	r.emit(ev{"ev": "Reset", "level": "f3", "foreign": false, "origin": "e2e"})

	// the observer: everything the node's topic delivers to another libp2p host
	var wireN int
	var wireMu sync.Mutex
	go func() {
		for {
			msg, err := subO.Next(ctx)
			if err != nil {
				return
			}
			var pm gpbft.PartialGMessage
			if err := dec.Decode(msg.Data, &pm); err != nil {
				r.emit(ev{"ev": "Info", "what": "undecodable message at the observer"})
				continue
			}
			r.emit(ev{"ev": "F3Wire", "m": jm(pm.GMessage), "wal": n.snapshot()})
			wireMu.Lock()
			wireN++
			wireMu.Unlock()
		}
	}()

	// mock time runs 20x real time while a node is up
	var tick sync.Mutex
	running := true
	go func() {
		tk := time.NewTicker(5 * time.Millisecond)
		defer tk.Stop()
		for ctx.Err() == nil {
			<-tk.C
			tick.Lock()
			if running {
				clk.Add(100 * time.Millisecond)
			}
			tick.Unlock()
		}
	}()
	setRunning := func(b bool) { tick.Lock(); running = b; tick.Unlock() }

	var stale []signed // requests of earlier process lifetimes
	requests := 0
	for c := 0; c < cycles; c++ {
		node, err := n.mk()
		if err != nil {
			t.Fatal(err)
		}
		n.f3 = node
		n.walDir = f3.VerifF3WALDir(node)
		if err := node.Start(ctx); err != nil {
			t.Fatal(err)
		}
		deadline := time.Now().Add(60 * time.Second)
		for !node.IsRunning() {
			if time.Now().After(deadline) {
				t.Fatalf("F3 did not start")
			}
			time.Sleep(2 * time.Millisecond)
		}
		if !f3.VerifF3WrapEncoder(node, n.hook) {
			t.Fatalf("encoder not wrapped")
		}
		se := ev{"ev": "F3Start", "cycle": c, "wal": n.snapshot()}
		n.dump(se)
		r.emit(se)

		// how this process lifetime ends: after `quota` fresh requests; the last one possibly cut
		quota := 1 + rng.Intn(7)
		if rng.Intn(3) == 0 {
			quota = 1 // die right after the first vote of the instance it came back into
		}
		cutLast := rng.Intn(3) == 0
		fresh := 0
		var mine []signed
		idle := time.NewTimer(20 * time.Second)
	life:
		for {
			// replay something from an earlier lifetime: the same request again, or re-signed
			if len(stale) > 0 && rng.Intn(3) == 0 {
				s := stale[rng.Intn(len(stale))]
				kind := "stale"
				sig := s.sig
				if rng.Intn(2) == 0 {
					kind = "resigned"
					sig = append([]byte(nil), s.sig...)
					sig[0] ^= 0x5a
				}
				msg := s.sb.Build(sig, s.vrf)
				r.emit(ev{"ev": "F3Request", "m": jm(msg), "cut": false, "kind": kind})
				node.Broadcast(ctx, s.sb, sig, s.vrf)
				requests++
			}
			select {
			case mb := <-node.MessagesToSign():
				sbuilder, err := mb.PrepareSigningInputs(1)
				if err != nil {
					continue
				}
				sig, vrf, err := sbuilder.Sign(ctx, sb)
				if err != nil {
					t.Fatalf("sign: %v", err)
				}
				msg := sbuilder.Build(sig, vrf)
				fresh++
				cut := cutLast && fresh == quota
				if cut {
					n.mu.Lock()
					n.cutSig = sigName(sig)
					n.mu.Unlock()
				}
				r.emit(ev{"ev": "F3Request", "m": jm(msg), "cut": cut, "kind": "fresh"})
				node.Broadcast(ctx, sbuilder, sig, vrf)
				requests++
				mine = append(mine, signed{sb: sbuilder, sig: sig, vrf: vrf, msg: msg})
				if fresh >= quota {
					break life
				}
				if !idle.Stop() {
					select {
					case <-idle.C:
					default:
					}
				}
				idle.Reset(20 * time.Second)
			case <-idle.C:
				break life // the participant has nothing more to say for now
			}
		}
		idle.Stop()
		// give in-flight publications a moment to reach the observer, then the process goes away
		time.Sleep(30 * time.Millisecond)
		setRunning(false)
		if err := node.Stop(ctx); err != nil {
			r.emit(ev{"ev": "Info", "what": "stop: " + err.Error()})
		}
		r.emit(ev{"ev": "F3Stop", "cycle": c})
		stale = append(stale, mine...)
		if len(stale) > 12 {
			stale = stale[len(stale)-12:]
		}
		// the EC head moves while the node is down
		clk.Add(time.Duration(rng.Intn(6)) * m.EC.Period)
		setRunning(true)
	}
	time.Sleep(50 * time.Millisecond)
	wireMu.Lock()
	t.Logf("events=%d cycles=%d requests=%d observed-on-wire=%d", r.n, cycles, requests, wireN)
	wireMu.Unlock()
}

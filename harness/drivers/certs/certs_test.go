//go:build verif

// Driver for property C04 (certificate chains and power-table deltas).
//
// It builds REAL finality certificates (sim/signing.FakeBackend signatures) from abstract
// descriptions and runs the REAL certs.ValidateFinalityCertificates, certs.MakePowerTableDiff,
// certs.ApplyPowerTableDiffs and certs.MakePowerTableCID on them, recording one NDJSON row per
// call: the abstract input and what the code returned. There is no oracle here: TLC judges every
// row against spec/certs/Certs.tla and PowerDiff.tla (CertsTrace.tla / PowerDiffTrace.tla).
//
// Sources of "val" rows (ValidateFinalityCertificates):
//   mc         calls enumerated by TLC (spec/certs/MCCerts.tla, every sequence of <= 3 certificates with
//              bounded corruption weight over two honest histories), read from VERIF_CASES
//   pipeline   honest chains over random table evolutions: real MakePowerTableDiff + a DECIDE
//              justification signed by a random strong quorum + real NewFinalityCertificate
//   random     the same chains with one random corruption (abstract record edited, then realised)
//   consensus  certificates built from the decisions of real gpbft.Participants run on an in-memory
//              network whose committee and committed next table change at every instance
//   special    boundary shapes (empty sequence, 128/129 tipsets, nil chain, permuted caller table, ...)
// Rows "make" / "apply" record MakePowerTableDiff / ApplyPowerTableDiffs on all pairs of small
// tables, all short deltas over a small alphabet, random and malformed deltas.
// Abstract power levels are mapped to big integers by x1 and x(2^80+7) (field "mag").
package zzcerts

import (
	"bufio"
	"bytes"
	"context"
	"encoding/json"
	"fmt"
	"math/big"
	"math/rand"
	"os"
	"sort"
	"strconv"
	"strings"
	"testing"
	"time"

	"github.com/filecoin-project/go-bitfield"
	"github.com/filecoin-project/go-f3/certs"
	"github.com/filecoin-project/go-f3/gpbft"
	"github.com/filecoin-project/go-f3/sim/signing"
	"github.com/ipfs/go-cid"
)

const nn = gpbft.NetworkName("verif-c04")

// ---------------------------------------------------------------------------- abstract records
type aEntry struct {
	ID int64 `json:"id"`
	P  int64 `json:"p"`
	K  int64 `json:"k"`
}
type aDelta struct {
	ID int64 `json:"id"`
	DP int64 `json:"dp"`
	K  int64 `json:"k"`
}
type aChain struct {
	Ts  []int64 `json:"ts"`
	Bad string  `json:"bad"`
}
type aSig struct {
	Over string  `json:"over"`
	Mask []int64 `json:"mask"`
	Keys []int64 `json:"keys"`
}
type aCert struct {
	Inst    int64    `json:"inst"`
	Chain   aChain   `json:"chain"`
	Signers []int64  `json:"signers"`
	Sig     aSig     `json:"sig"`
	Supp    []aEntry `json:"supp"`
	Delta   []aDelta `json:"delta"`
}
type aCall struct {
	Pt    []aEntry `json:"pt"`
	Next  int64    `json:"next"`
	Base  int64    `json:"base"`
	Certs []aCert  `json:"certs"`
}

type row map[string]any

type out struct {
	f *os.File
	w *bufio.Writer
	n int
}

func newOut(t *testing.T) *out {
	p := os.Getenv("VERIF_OUT")
	if p == "" {
		t.Skip("VERIF_OUT not set")
	}
	f, err := os.Create(p)
	if err != nil {
		t.Fatal(err)
	}
	return &out{f: f, w: bufio.NewWriterSize(f, 1<<20)}
}
func (o *out) emit(r row) {
	b, err := json.Marshal(r)
	if err != nil {
		panic(err)
	}
	o.w.Write(b)
	o.w.WriteByte('\n')
	o.n++
}
func (o *out) close() { o.w.Flush(); o.f.Close() }

func envInt(name string, def int) int {
	if v := os.Getenv(name); v != "" {
		if n, err := strconv.Atoi(v); err == nil {
			return n
		}
	}
	return def
}

func ne64(s []int64) []int64 {
	if s == nil {
		return []int64{}
	}
	return s
}
func neE(s []aEntry) []aEntry {
	if s == nil {
		return []aEntry{}
	}
	return s
}
func neD(s []aDelta) []aDelta {
	if s == nil {
		return []aDelta{}
	}
	return s
}

// normalise makes every slice non-nil (TLC needs [] rather than null)
func (c *aCert) normalise() {
	c.Chain.Ts = ne64(c.Chain.Ts)
	c.Signers = ne64(c.Signers)
	c.Sig.Mask = ne64(c.Sig.Mask)
	c.Sig.Keys = ne64(c.Sig.Keys)
	c.Supp = neE(c.Supp)
	c.Delta = neD(c.Delta)
}
func (c aCert) clone() aCert {
	d := c
	d.Chain.Ts = append([]int64{}, c.Chain.Ts...)
	d.Signers = append([]int64{}, c.Signers...)
	d.Sig.Mask = append([]int64{}, c.Sig.Mask...)
	d.Sig.Keys = append([]int64{}, c.Sig.Keys...)
	d.Supp = append([]aEntry{}, c.Supp...)
	d.Delta = append([]aDelta{}, c.Delta...)
	return d
}

// ---------------------------------------------------------------------------- abstract <-> concrete
var magBig = func() *big.Int {
	m := new(big.Int).Lsh(big.NewInt(1), 80)
	return m.Add(m, big.NewInt(7))
}()

type world struct {
	sb  *signing.FakeBackend
	mag int
	m   *big.Int
}

func newWorld(sb *signing.FakeBackend, mag int) *world {
	w := &world{sb: sb, mag: mag, m: big.NewInt(1)}
	if mag == 2 {
		w.m = magBig
	}
	return w
}

// wordWorld: magnitude 3 - a multiplier that puts the table's largest entry into the lower part of [2^(k-1), 2^k), k sweeping 40..66 with the case
// index, i.e. around the places where 64-bit shortcuts of p*65535 or of the total would wrap (raw Filecoin powers are of this size).
func wordWorld(sb *signing.FakeBackend, t []aEntry, idx int) *world {
	pmax := int64(1)
	for _, e := range t {
		if e.P > pmax {
			pmax = e.P
		}
	}
	k := 40 + idx%27
	u := int64((uint64(idx)*2654435761)>>7) % 600 // the largest entry lands at 2^(k-1) * (1 + u/1000), u in [0, 0.6)
	m := new(big.Int).Lsh(big.NewInt(1), uint(k-1))
	m.Mul(m, big.NewInt(1000+u))
	m.Quo(m, big.NewInt(1000*pmax))
	m.Add(m, big.NewInt(1))
	return &world{sb: sb, mag: 3, m: m}
}

func (w *world) power(p int64) gpbft.StoragePower {
	return gpbft.StoragePower{Int: new(big.Int).Mul(big.NewInt(p), w.m)}
}

// unpower maps a concrete power back to its abstract level (-999999 if it is not a multiple of the magnitude)
func (w *world) unpower(p gpbft.StoragePower) int64 {
	if p.Int == nil {
		return -999998
	}
	q, r := new(big.Int).QuoRem(p.Int, w.m, new(big.Int))
	if r.Sign() != 0 || !q.IsInt64() || q.Int64() > 1<<30 || q.Int64() < -(1<<30) {
		return -999999
	}
	return q.Int64()
}

// key id = participant id * 64 + key version; key id 0 is a key nobody in a table owns
func (w *world) keyByID(kid int64) gpbft.PubKey { return w.sb.Allow(int(kid)) }
func (w *world) entryKey(id, k int64) gpbft.PubKey {
	if k == 0 {
		return nil
	}
	return w.keyByID(id*64 + k)
}
func (w *world) unkey(id int64, pk gpbft.PubKey) int64 {
	if len(pk) == 0 {
		return 0
	}
	s := string(pk)
	if !strings.HasPrefix(s, "pubkey::") {
		return -1
	}
	v, err := strconv.ParseInt(s[8:], 16, 64)
	if err != nil {
		return -1
	}
	k := v - id*64
	if k < 1 || k > 63 {
		return -1
	}
	return k
}

func (w *world) table(t []aEntry) gpbft.PowerEntries {
	pe := make(gpbft.PowerEntries, 0, len(t))
	for _, e := range t {
		pe = append(pe, gpbft.PowerEntry{ID: gpbft.ActorID(e.ID), Power: w.power(e.P), PubKey: w.entryKey(e.ID, e.K)})
	}
	return pe
}
func (w *world) untable(pe gpbft.PowerEntries) []aEntry {
	t := make([]aEntry, 0, len(pe))
	for _, e := range pe {
		t = append(t, aEntry{ID: int64(e.ID), P: w.unpower(e.Power), K: w.unkey(int64(e.ID), e.PubKey)})
	}
	return t
}
func (w *world) delta(d []aDelta) certs.PowerTableDiff {
	if len(d) == 0 {
		return nil
	}
	r := make(certs.PowerTableDiff, 0, len(d))
	for _, e := range d {
		r = append(r, certs.PowerTableDelta{ParticipantID: gpbft.ActorID(e.ID), PowerDelta: w.power(e.DP), SigningKey: w.entryKey(e.ID, e.K)})
	}
	return r
}
func (w *world) undelta(d certs.PowerTableDiff) []aDelta {
	r := make([]aDelta, 0, len(d))
	for _, e := range d {
		r = append(r, aDelta{ID: int64(e.ParticipantID), DP: w.unpower(e.PowerDelta), K: w.unkey(int64(e.ParticipantID), e.SigningKey)})
	}
	return r
}

var tipsetPT = gpbft.MakeCid([]byte("tipset-pt"))
var tipsetPT2 = gpbft.MakeCid([]byte("tipset-pt-2"))

// tipset id t: epoch t%1000, key "ts<epoch>", variant t/1000 (1: other commitments, 2: other power table cid)
func tipset(t int64) *gpbft.TipSet {
	e, v := t%1000, t/1000
	ts := &gpbft.TipSet{Epoch: e, Key: []byte(fmt.Sprintf("ts%d", e)), PowerTable: tipsetPT}
	switch v {
	case 0:
	case 2:
		ts.PowerTable = tipsetPT2
	default:
		ts.Commitments[0] = byte(v)
	}
	return ts
}
func untipset(ts *gpbft.TipSet) int64 {
	if ts == nil {
		return -1
	}
	s := string(ts.Key)
	if !strings.HasPrefix(s, "ts") {
		return -2
	}
	e, err := strconv.ParseInt(s[2:], 10, 64)
	if err != nil || e != ts.Epoch {
		return -2
	}
	v := int64(ts.Commitments[0])
	if ts.PowerTable.Equals(tipsetPT2) {
		if v != 0 {
			return -3
		}
		v = 2
	} else if !ts.PowerTable.Equals(tipsetPT) {
		return -3
	}
	return e + 1000*v
}
func unchain(c *gpbft.ECChain) []int64 {
	r := []int64{}
	if c == nil {
		return r
	}
	for _, ts := range c.TipSets {
		r = append(r, untipset(ts))
	}
	return r
}

func chainOf(a aChain, nilIfEmpty bool) *gpbft.ECChain {
	if len(a.Ts) == 0 {
		if nilIfEmpty {
			return nil
		}
		return &gpbft.ECChain{}
	}
	c := &gpbft.ECChain{}
	for _, t := range a.Ts {
		c.TipSets = append(c.TipSets, tipset(t))
	}
	last := len(c.TipSets) - 1
	switch a.Bad {
	case "":
	case "emptykey":
		c.TipSets[last].Key = nil
	case "nocid":
		c.TipSets[last].PowerTable = cid.Undef
	case "longkey":
		c.TipSets[last].Key = bytes.Repeat([]byte("k"), gpbft.TipsetKeyMaxLen+1)
	case "nilts":
		c.TipSets[last] = nil
	default:
		panic("bad chain kind " + a.Bad)
	}
	return c
}

// sign computes the aggregate exactly as described by the abstract signature: the signers at bitfield positions
// mask[n] sign `msg` with key keys[n] (only the public API of the fake backend is used).
func (w *world) sign(mask, keys []int64, msg []byte) []byte {
	if len(mask) != len(keys) {
		panic("mask/keys length")
	}
	max := int64(-1)
	for _, b := range mask {
		if b > max {
			max = b
		}
	}
	ks := make([]gpbft.PubKey, max+1)
	for i := range ks {
		ks[i] = w.keyByID(0)
	}
	im := make([]int, len(mask))
	sigs := make([][]byte, len(mask))
	for n, b := range mask {
		pk := w.keyByID(keys[n])
		ks[b] = pk
		im[n] = int(b)
		s, err := w.sb.Sign(context.Background(), pk, msg)
		if err != nil {
			panic(err)
		}
		sigs[n] = s
	}
	agg, err := w.sb.Aggregate(ks)
	if err != nil {
		panic(err)
	}
	sig, err := agg.Aggregate(im, sigs)
	if err != nil {
		panic(err)
	}
	return sig
}

// cert realises an abstract certificate. Returns the real certificate and how it was constructed.
func (w *world) cert(a aCert, variant int) (*certs.FinalityCertificate, string) {
	chain := chainOf(a.Chain, variant%2 == 1)
	suppCid, err := certs.MakePowerTableCID(w.table(a.Supp))
	if err != nil {
		panic(err)
	}
	supp := gpbft.SupplementalData{PowerTable: suppCid}
	// the payload that is really signed
	p := gpbft.Payload{Instance: uint64(a.Inst), Round: 0, Phase: gpbft.DECIDE_PHASE, SupplementalData: supp, Value: chain}
	net := nn
	switch a.Sig.Over {
	case "exact", "garbage", "emptysig":
	case "otherValue":
		ext := &gpbft.ECChain{}
		if chain != nil {
			ext.TipSets = append(ext.TipSets, chain.TipSets...)
		}
		ext.TipSets = append(ext.TipSets, tipset(999))
		p.Value = ext
	case "otherInst":
		p.Instance++
	case "otherSupp":
		p.SupplementalData.PowerTable = gpbft.MakeCid([]byte("other-supp"))
	case "otherCommitments":
		p.SupplementalData.Commitments[0] = 1
	case "otherNet":
		net = nn + "x"
	case "otherRound":
		p.Round = 1
	case "otherPhase":
		p.Phase = gpbft.COMMIT_PHASE
	default:
		panic("sig kind " + a.Sig.Over)
	}
	var sig []byte
	switch a.Sig.Over {
	case "garbage":
		sig = bytes.Repeat([]byte{0xab}, 32)
	case "emptysig":
		sig = nil
	default:
		var msg []byte
		func() {
			defer func() {
				if r := recover(); r != nil { // malformed chains (nil tipset) cannot be marshalled: sign the base chain instead
					q := p
					q.Value = &gpbft.ECChain{TipSets: []*gpbft.TipSet{tipset(998)}}
					msg = q.MarshalForSigning(net)
				}
			}()
			msg = p.MarshalForSigning(net)
		}()
		sig = w.sign(a.Sig.Mask, a.Sig.Keys, msg)
	}
	idx := make([]uint64, len(a.Signers))
	for i, s := range a.Signers {
		idx[i] = uint64(s)
	}
	bf := bitfield.NewFromSet(idx)
	delta := w.delta(a.Delta)
	// through the real constructor whenever it accepts the shape
	j := &gpbft.Justification{Vote: gpbft.Payload{Instance: uint64(a.Inst), Round: 0, Phase: gpbft.DECIDE_PHASE, SupplementalData: supp, Value: chain},
		Signers: bf, Signature: sig}
	if !chain.IsZero() {
		if c, err := certs.NewFinalityCertificate(delta, j); err == nil {
			return c, "new"
		}
	}
	return &certs.FinalityCertificate{GPBFTInstance: uint64(a.Inst), ECChain: chain, SupplementalData: supp, Signers: bf, Signature: sig, PowerTableDelta: delta}, "literal"
}

func errClass(err error) string {
	if err == nil {
		return ""
	}
	s := err.Error()
	switch {
	case strings.HasPrefix(s, "expected instance"):
		return "instance"
	case strings.HasPrefix(s, "invalid finality certificate at instance"):
		return "chain"
	case strings.HasPrefix(s, "empty finality certificate"):
		return "empty"
	case strings.HasPrefix(s, "base tipset does not match"):
		return "base"
	case strings.HasPrefix(s, "failed to scale power table"):
		return "table"
	case strings.Contains(s, "specifies a signer") && strings.Contains(s, "but we only have"):
		return "range"
	case strings.Contains(s, "no effective power after scaling"):
		return "zeropower"
	case strings.Contains(s, "has insufficient power"):
		return "quorum"
	case strings.HasPrefix(s, "invalid signature on finality certificate"):
		return "signature"
	case strings.HasPrefix(s, "failed to apply power table delta"):
		return "delta"
	case strings.HasPrefix(s, "incorrect power diff"):
		return "commit"
	}
	return "other"
}

func short(err error) string {
	if err == nil {
		return ""
	}
	s := err.Error()
	if len(s) > 120 {
		s = s[:120]
	}
	return s
}

// runVal executes one call of the real ValidateFinalityCertificates and records it.
func (w *world) runVal(o *out, src string, call aCall, variant int) {
	for i := range call.Certs {
		call.Certs[i].normalise()
	}
	call.Pt = neE(call.Pt)
	if call.Certs == nil {
		call.Certs = []aCert{}
	}
	pt := w.table(call.Pt)
	var base *gpbft.TipSet
	if call.Base >= 0 {
		base = tipset(call.Base)
	}
	cs := make([]*certs.FinalityCertificate, len(call.Certs))
	how := ""
	for i, a := range call.Certs {
		var h string
		cs[i], h = w.cert(a, variant+i)
		how += h[:1]
		// what is logged about the delta and the signers is what the certificate really carries
		call.Certs[i].Delta = w.undelta(cs[i].PowerTableDelta)
		if idx, err := cs[i].Signers.All(1 << 20); err == nil {
			call.Certs[i].Signers = make([]int64, len(idx))
			for k, v := range idx {
				call.Certs[i].Signers[k] = int64(v)
			}
		}
	}
	var rnext uint64
	var rchain *gpbft.ECChain
	var rtable gpbft.PowerEntries
	var err error
	panicked := ""
	func() {
		defer func() {
			if r := recover(); r != nil {
				panicked = fmt.Sprint(r)
			}
		}()
		rnext, rchain, rtable, err = certs.ValidateFinalityCertificates(w.sb, nn, pt, uint64(call.Next), base, cs...)
	}()
	if rnext > 1<<30 {
		rnext = 1 << 30
	}
	o.emit(row{"k": "val", "src": src, "mag": w.mag, "how": how, "pt": call.Pt, "next": call.Next, "base": call.Base, "certs": call.Certs,
		"ok": err == nil && panicked == "", "errc": errClass(err), "err": short(err), "panic": panicked,
		"rnext": rnext, "rchain": unchain(rchain), "rtable": w.untable(rtable), "rnil": rtable == nil, "ptAfter": w.untable(pt)})
}

// ---------------------------------------------------------------------------- abstract helpers for generators
func canon(t []aEntry) []aEntry {
	r := append([]aEntry{}, t...)
	sort.SliceStable(r, func(i, j int) bool {
		if r[i].P != r[j].P {
			return r[i].P > r[j].P
		}
		return r[i].ID < r[j].ID
	})
	return r
}

func scaled(t []aEntry) ([]int64, int64) {
	var tot int64
	for _, e := range t {
		tot += e.P
	}
	s := make([]int64, len(t))
	var st int64
	for i, e := range t {
		s[i] = 65535 * e.P / tot
		st += s[i]
	}
	return s, st
}

// quorum picks a random minimal strong quorum of members with effective power (indices into t, ascending)
func quorum(rng *rand.Rand, t []aEntry) []int64 {
	s, tot := scaled(t)
	var acc int64
	var r []int64
	for _, i := range rng.Perm(len(t)) {
		if s[i] == 0 {
			continue
		}
		r = append(r, int64(i))
		acc += s[i]
		if 3*acc >= 2*tot {
			break
		}
	}
	sort.Slice(r, func(a, b int) bool { return r[a] < r[b] })
	return r
}

func keysAt(t []aEntry, idx []int64) []int64 {
	r := make([]int64, len(idx))
	for n, i := range idx {
		if i >= 0 && int(i) < len(t) {
			r[n] = t[i].ID*64 + t[i].K
		}
	}
	return r
}

func randTable(rng *rand.Rand) []aEntry {
	var t []aEntry
	switch rng.Intn(6) {
	case 0:
		t = []aEntry{{1, 1, 1}, {2, 1, 1}, {3, 1, 1}}
	case 1:
		t = []aEntry{{1, 3, 1}, {2, 2, 1}, {3, 1, 1}}
	case 2:
		t = []aEntry{{1, 30000, 1}, {2, 30000, 1}, {3, 20000, 1}, {4, 1, 1}}
	case 3:
		n := 1 + rng.Intn(6)
		for i := 1; i <= n; i++ {
			t = append(t, aEntry{int64(i), 1 + int64(rng.Intn(3)), 1 + int64(rng.Intn(2))})
		}
	case 4:
		n := 2 + rng.Intn(5)
		for i := 1; i <= n; i++ {
			t = append(t, aEntry{int64(i * 2), 1 + int64(rng.Intn(1000)), 1})
		}
	default:
		n := 4 + rng.Intn(3)
		for i := 1; i <= n; i++ {
			p := int64(20000 + rng.Intn(12000))
			if rng.Intn(4) == 0 {
				p = 1
			}
			t = append(t, aEntry{int64(i), p, 1 + int64(rng.Intn(3))})
		}
		t[0].P = 30000
	}
	return canon(t)
}

func evolve(rng *rand.Rand, t []aEntry) []aEntry {
	r := append([]aEntry{}, t...)
	nops := rng.Intn(4)
	for o := 0; o < nops; o++ {
		switch rng.Intn(5) {
		case 0: // power change
			i := rng.Intn(len(r))
			np := r[i].P + int64(rng.Intn(5)) - 2
			if np >= 1 && np <= 32767 {
				r[i].P = np
			}
		case 1: // removal
			if len(r) > 2 {
				i := rng.Intn(len(r))
				r = append(r[:i], r[i+1:]...)
			}
		case 2: // new member
			id := int64(1 + rng.Intn(12))
			dup := false
			for _, e := range r {
				dup = dup || e.ID == id
			}
			if !dup {
				p := int64(1 + rng.Intn(3))
				if r[0].P > 1000 && rng.Intn(2) == 0 {
					p = int64(15000 + rng.Intn(10000))
				}
				r = append(r, aEntry{id, p, 1 + int64(rng.Intn(2))})
			}
		case 3: // key rotation
			i := rng.Intn(len(r))
			r[i].K = r[i].K%5 + 1
		case 4: // power change + key rotation
			i := rng.Intn(len(r))
			r[i].K = r[i].K%5 + 1
			if r[i].P < 32000 {
				r[i].P++
			}
		}
	}
	return canon(r)
}

// honestChain builds n abstract honest certificates starting at instance `first` with table t0 and base tipset b0;
// the deltas are computed by the REAL MakePowerTableDiff (and read back into the abstract record).
func (w *world) honestChain(rng *rand.Rand, t0 []aEntry, first int64, b0 int64, n int) ([]aCert, [][]aEntry) {
	var cs []aCert
	tables := [][]aEntry{t0}
	cur, base := t0, b0
	for i := 0; i < n; i++ {
		nxt := evolve(rng, cur)
		ts := []int64{base}
		for e, k := base%1000, rng.Intn(4); k > 0 && e < 900; k-- {
			e += 1 + int64(rng.Intn(2))
			ts = append(ts, e)
		}
		s := quorum(rng, cur)
		d := certs.MakePowerTableDiff(w.table(cur), w.table(nxt))
		c := aCert{Inst: first + int64(i), Chain: aChain{Ts: ts}, Signers: s, Sig: aSig{Over: "exact", Mask: s, Keys: keysAt(cur, s)}, Supp: nxt, Delta: w.undelta(d)}
		c.normalise()
		cs = append(cs, c)
		tables = append(tables, nxt)
		cur, base = nxt, ts[len(ts)-1]
	}
	return cs, tables
}

// corrupt edits one field of certificate i of an honest chain (abstract level); returns the name of the edit.
func corrupt(rng *rand.Rand, cs []aCert, tables [][]aEntry, i int) string {
	c := &cs[i]
	t := tables[i]
	kinds := []string{"inst+1", "reinst+1", "wrongBase", "baseVariant", "baseVariant2", "epochs", "emptykey", "nocid", "longkey", "nilts", "empty",
		"dropSigner", "addSigner", "zeroSigner", "rangeSigner", "noSigners", "otherValue", "otherInst", "otherSupp", "otherCommitments", "otherNet", "otherRound", "otherPhase",
		"garbage", "emptysig", "maskDrop", "keysOther", "oldKey", "commitOther", "commitPermuted", "plusOne", "zeroEntry", "dupFirst", "sameKey", "badNew", "nonPositiveNew",
		"reversed", "dropLast", "emptied", "negative", "rekeyRemove", "swapWithNext", "dropCert"}
	k := kinds[rng.Intn(len(kinds))]
	setSigners := func(s []int64) {
		sort.Slice(s, func(a, b int) bool { return s[a] < s[b] })
		c.Signers, c.Sig.Mask, c.Sig.Keys = s, append([]int64{}, s...), keysAt(t, s)
	}
	maxID := int64(0)
	for _, e := range t {
		if e.ID > maxID {
			maxID = e.ID
		}
	}
	switch k {
	case "inst+1":
		c.Inst++
		c.Sig.Over = "otherInst"
	case "reinst+1":
		c.Inst++
	case "wrongBase":
		c.Chain.Ts[0] = 1
	case "baseVariant":
		c.Chain.Ts[0] += 1000
	case "baseVariant2":
		c.Chain.Ts[0] += 2000
	case "epochs":
		c.Chain.Ts = append(c.Chain.Ts, c.Chain.Ts[len(c.Chain.Ts)-1])
	case "emptykey", "nocid", "longkey", "nilts":
		c.Chain.Bad = k
	case "empty":
		c.Chain.Ts = []int64{}
	case "dropSigner":
		if len(c.Signers) > 0 {
			j := rng.Intn(len(c.Signers))
			setSigners(append(append([]int64{}, c.Signers[:j]...), c.Signers[j+1:]...))
		}
	case "addSigner":
		in := map[int64]bool{}
		for _, s := range c.Signers {
			in[s] = true
		}
		for j := range t {
			if !in[int64(j)] {
				setSigners(append(append([]int64{}, c.Signers...), int64(j)))
				break
			}
		}
	case "zeroSigner":
		sc, _ := scaled(t)
		for j := range t {
			if sc[j] == 0 {
				has := false
				for _, s := range c.Signers {
					has = has || s == int64(j)
				}
				if !has {
					setSigners(append(append([]int64{}, c.Signers...), int64(j)))
				}
				break
			}
		}
	case "rangeSigner":
		setSigners(append(append([]int64{}, c.Signers...), int64(len(t)+rng.Intn(3))))
	case "noSigners":
		setSigners([]int64{})
	case "otherValue", "otherInst", "otherSupp", "otherCommitments", "otherNet", "otherRound", "otherPhase", "garbage", "emptysig":
		c.Sig.Over = k
	case "maskDrop":
		if len(c.Sig.Mask) > 0 {
			c.Sig.Mask = c.Sig.Mask[:len(c.Sig.Mask)-1]
			c.Sig.Keys = c.Sig.Keys[:len(c.Sig.Keys)-1]
		}
	case "keysOther":
		if len(c.Sig.Keys) > 0 {
			c.Sig.Keys[0] = 0
		}
	case "oldKey":
		if len(c.Sig.Keys) > 0 {
			j := rng.Intn(len(c.Sig.Keys))
			c.Sig.Keys[j] = c.Sig.Keys[j]/64*64 + (c.Sig.Keys[j]%64)%5 + 1
		}
	case "commitOther":
		c.Supp = append([]aEntry{}, c.Supp...)
		c.Supp[0].P++
	case "commitPermuted":
		if len(c.Supp) > 1 {
			p := append([]aEntry{}, c.Supp...)
			p[0], p[len(p)-1] = p[len(p)-1], p[0]
			c.Supp = p
		}
	case "plusOne":
		if len(c.Delta) > 0 {
			c.Delta[0].DP++
		} else {
			c.Delta = []aDelta{{t[0].ID, 1, 0}}
		}
	case "zeroEntry":
		c.Delta = append(c.Delta, aDelta{maxID + 20, 0, 0})
	case "dupFirst":
		if len(c.Delta) > 0 {
			c.Delta = append([]aDelta{c.Delta[0]}, c.Delta...)
		} else {
			c.Delta = []aDelta{{t[0].ID, 1, 0}, {t[0].ID, -1, 0}}
		}
	case "sameKey":
		c.Delta = []aDelta{{t[0].ID, 0, t[0].K}}
	case "badNew":
		c.Delta = append(c.Delta, aDelta{maxID + 20, 1, 0})
	case "nonPositiveNew":
		c.Delta = append(c.Delta, aDelta{maxID + 20, int64(-rng.Intn(2)), 1})
	case "reversed":
		for a, b := 0, len(c.Delta)-1; a < b; a, b = a+1, b-1 {
			c.Delta[a], c.Delta[b] = c.Delta[b], c.Delta[a]
		}
	case "dropLast":
		if len(c.Delta) > 0 {
			c.Delta = c.Delta[:len(c.Delta)-1]
		}
	case "emptied":
		c.Delta = []aDelta{}
	case "negative":
		c.Delta = []aDelta{{t[len(t)-1].ID, -t[len(t)-1].P - 1, 0}}
	case "rekeyRemove":
		c.Delta = []aDelta{{t[len(t)-1].ID, -t[len(t)-1].P, t[len(t)-1].K%5 + 1}}
	case "swapWithNext":
		if i+1 < len(cs) {
			cs[i], cs[i+1] = cs[i+1], cs[i]
		}
	case "dropCert":
		// handled by the caller (needs to shorten the slice)
	}
	return k
}

// ---------------------------------------------------------------------------- consensus: real participants produce the decisions
type cnet struct {
	sb      *signing.FakeBackend
	now     time.Time
	inst    uint64
	pt      *gpbft.PowerTable
	agg     gpbft.Aggregate
	supp    gpbft.SupplementalData
	hosts   []*chost
	queue   []*gpbft.GMessage
	rng     *rand.Rand
	stepped int
}
type chost struct {
	n        *cnet
	id       gpbft.ActorID
	p        *gpbft.Participant
	proposal *gpbft.ECChain
	alarm    time.Time
	armed    bool
	dec      *gpbft.Justification
	sent     map[gpbft.Instant]*gpbft.GMessage
}

func (h *chost) GetProposal(ctx context.Context, i uint64) (*gpbft.SupplementalData, *gpbft.ECChain, error) {
	if i != h.n.inst {
		return nil, nil, fmt.Errorf("no proposal for instance %d", i)
	}
	s := h.n.supp
	return &s, h.proposal, nil
}
func (h *chost) GetCommittee(ctx context.Context, i uint64) (*gpbft.Committee, error) {
	if i != h.n.inst {
		return nil, fmt.Errorf("no committee for instance %d", i)
	}
	return &gpbft.Committee{PowerTable: h.n.pt, Beacon: []byte("beacon"), AggregateVerifier: h.n.agg}, nil
}
func (h *chost) NetworkName() gpbft.NetworkName { return nn }
func (h *chost) RequestBroadcast(mb *gpbft.MessageBuilder) error {
	m, err := mb.Build(context.Background(), h.n.sb, h.id)
	if err != nil {
		return err
	}
	h.sent[gpbft.Instant{ID: m.Vote.Instance, Round: m.Vote.Round, Phase: m.Vote.Phase}] = m
	h.n.queue = append(h.n.queue, m)
	return nil
}
func (h *chost) RequestRebroadcast(i gpbft.Instant) error {
	if m, ok := h.sent[i]; ok {
		h.n.queue = append(h.n.queue, m)
	}
	return nil
}
func (h *chost) Time() time.Time { return h.n.now }
func (h *chost) SetAlarm(at time.Time) {
	h.alarm, h.armed = at, !at.IsZero()
}
func (h *chost) Verify(k gpbft.PubKey, m, s []byte) error { return h.n.sb.Verify(k, m, s) }
func (h *chost) Aggregate(keys []gpbft.PubKey) (gpbft.Aggregate, error) {
	return h.n.sb.Aggregate(keys)
}
func (h *chost) ReceiveDecision(ctx context.Context, d *gpbft.Justification) (time.Time, error) {
	h.dec = d
	return time.Time{}, fmt.Errorf("stop after one instance")
}

// decide runs one real GossiPBFT instance among the members of `table` that have effective power and
// returns every member's decision.
func decide(rng *rand.Rand, w *world, inst uint64, table []aEntry, next []aEntry, proposals func(member int) []int64) ([]*gpbft.Justification, error) {
	pt := gpbft.NewPowerTable()
	if err := pt.Add(w.table(table)...); err != nil {
		return nil, err
	}
	agg, err := w.sb.Aggregate(pt.Entries.PublicKeys())
	if err != nil {
		return nil, err
	}
	ncid, err := certs.MakePowerTableCID(w.table(next))
	if err != nil {
		return nil, err
	}
	n := &cnet{sb: w.sb, now: time.Unix(1700000000, 0), inst: inst, pt: pt, agg: agg, supp: gpbft.SupplementalData{PowerTable: ncid}, rng: rng}
	for i, e := range pt.Entries {
		if pt.ScaledPower[i] == 0 {
			continue
		}
		h := &chost{n: n, id: e.ID, sent: map[gpbft.Instant]*gpbft.GMessage{}, proposal: chainOf(aChain{Ts: proposals(len(n.hosts))}, false)}
		p, err := gpbft.NewParticipant(h)
		if err != nil {
			return nil, err
		}
		h.p = p
		n.hosts = append(n.hosts, h)
	}
	ctx := context.Background()
	for _, h := range n.hosts {
		if err := h.p.StartInstanceAt(inst, n.now); err != nil {
			return nil, err
		}
	}
	undecided := func() int {
		c := 0
		for _, h := range n.hosts {
			if h.dec == nil {
				c++
			}
		}
		return c
	}
	for steps := 0; undecided() > 0; steps++ {
		if steps > 200000 {
			return nil, fmt.Errorf("no decision after %d steps", steps)
		}
		if len(n.queue) > 0 {
			// random delivery order: which DECIDE votes end up in a member's justification varies
			k := 0
			if rng.Intn(3) == 0 {
				k = rng.Intn(len(n.queue))
			}
			m := n.queue[k]
			n.queue = append(n.queue[:k], n.queue[k+1:]...)
			for _, hi := range rng.Perm(len(n.hosts)) {
				h := n.hosts[hi]
				if h.dec != nil {
					continue
				}
				vm, err := h.p.ValidateMessage(ctx, m)
				if err != nil {
					continue
				}
				if err := h.p.ReceiveMessage(ctx, vm); err != nil {
					return nil, fmt.Errorf("receive: %w", err)
				}
			}
			continue
		}
		var first *chost
		for _, h := range n.hosts {
			if h.dec == nil && h.armed && (first == nil || h.alarm.Before(first.alarm)) {
				first = h
			}
		}
		if first == nil {
			return nil, fmt.Errorf("deadlock: no message, no alarm, %d undecided", undecided())
		}
		if first.alarm.After(n.now) {
			n.now = first.alarm
		}
		first.armed = false
		if err := first.p.ReceiveAlarm(ctx); err != nil {
			return nil, fmt.Errorf("alarm: %w", err)
		}
	}
	var ds []*gpbft.Justification
	for _, h := range n.hosts {
		ds = append(ds, h.dec)
	}
	return ds, nil
}

// consensusRows: a history of `n` instances decided by real participants; certificates are built exactly as
// host.go does (MakePowerTableDiff + NewFinalityCertificate) and validated as chains by a node that holds the
// first table only.
func (w *world) consensusRows(t *testing.T, o *out, rng *rand.Rand, n int) {
	cur := randTable(rng)
	for len(cur) < 3 {
		cur = randTable(rng)
	}
	first := int64(rng.Intn(5))
	base := int64(10 + rng.Intn(5))
	type inst struct {
		table, next []aEntry
		decs        []*gpbft.Justification
		base        int64
	}
	var hist []inst
	for i := 0; i < n; i++ {
		nxt := evolve(rng, cur)
		common := []int64{base, base%1000 + 1, base%1000 + 2}
		props := func(member int) []int64 {
			p := append([]int64{}, common...)
			switch member % 3 {
			case 1:
				p = append(p, base%1000+3)
			case 2:
				p = append(p, base%1000+4, base%1000+5)
			}
			return p
		}
		if rng.Intn(4) == 0 { // everybody proposes only the base: the instance finalizes nothing new
			props = func(int) []int64 { return []int64{base} }
		}
		ds, err := decide(rng, w, uint64(first)+uint64(i), cur, nxt, props)
		if err != nil {
			t.Fatalf("consensus instance %d: %v", i, err)
		}
		hist = append(hist, inst{table: cur, next: nxt, decs: ds, base: base})
		base = untipset(ds[0].Vote.Value.Head())
		cur = nxt
	}
	// certificate chains as seen by different nodes (each node holds its own justification per instance)
	for node := 0; node < 3; node++ {
		var cs []*certs.FinalityCertificate
		var as []aCert
		for i, in := range hist {
			d := in.decs[(node+i)%len(in.decs)]
			diff := certs.MakePowerTableDiff(w.table(in.table), w.table(in.next))
			c, err := certs.NewFinalityCertificate(diff, d)
			if err != nil {
				t.Fatalf("NewFinalityCertificate: %v", err)
			}
			cs = append(cs, c)
			idx, _ := c.Signers.All(1 << 20)
			s := make([]int64, len(idx))
			for k, v := range idx {
				s[k] = int64(v)
			}
			a := aCert{Inst: int64(c.GPBFTInstance), Chain: aChain{Ts: unchain(c.ECChain)}, Signers: s,
				Sig: aSig{Over: "consensus", Mask: s, Keys: []int64{}}, Supp: in.next, Delta: w.undelta(c.PowerTableDelta)}
			a.normalise()
			as = append(as, a)
		}
		// whole history and every suffix / infix, with and without the caller's base
		for from := 0; from < len(hist); from++ {
			for to := from + 1; to <= len(hist); to++ {
				if node > 0 && !(from == 0 && to == len(hist)) && rng.Intn(3) != 0 {
					continue
				}
				for _, b := range []int64{-1, hist[from].base} {
					pt := w.table(hist[from].table)
					var bt *gpbft.TipSet
					if b >= 0 {
						bt = tipset(b)
					}
					rnext, rchain, rtable, err := certs.ValidateFinalityCertificates(w.sb, nn, pt, uint64(first)+uint64(from), bt, cs[from:to]...)
					o.emit(row{"k": "val", "src": "consensus", "mag": w.mag, "how": "consensus", "pt": hist[from].table, "next": first + int64(from), "base": b,
						"certs": as[from:to], "ok": err == nil, "errc": errClass(err), "err": short(err), "panic": "",
						"rnext": rnext, "rchain": unchain(rchain), "rtable": w.untable(rtable), "rnil": rtable == nil, "ptAfter": w.untable(pt)})
				}
			}
		}
	}
}

// ---------------------------------------------------------------------------- TestValRows
func TestValRows(t *testing.T) {
	o := newOut(t)
	defer o.close()
	seed := int64(envInt("VERIF_SEED", 1))
	rng := rand.New(rand.NewSource(seed))
	sb := signing.NewFakeBackend()
	worlds := []*world{newWorld(sb, 1), newWorld(sb, 2)}

	// 1. calls enumerated by TLC
	if p := os.Getenv("VERIF_CASES"); p != "" {
		f, err := os.Open(p)
		if err != nil {
			t.Fatal(err)
		}
		sc := bufio.NewScanner(f)
		sc.Buffer(make([]byte, 1<<20), 1<<26)
		n := 0
		bothEvery := envInt("VERIF_MC_BOTH", 1) // every n-th case runs under both magnitudes (1 = all)
		for sc.Scan() {
			if len(bytes.TrimSpace(sc.Bytes())) == 0 {
				continue
			}
			var c aCall
			if err := json.Unmarshal(sc.Bytes(), &c); err != nil {
				t.Fatalf("case %d: %v", n, err)
			}
			w := worlds[n%2]
			w.runVal(o, "mc", c, n)
			if n%bothEvery == 0 {
				var c2 aCall
				_ = json.Unmarshal(sc.Bytes(), &c2)
				worlds[(n+1)%2].runVal(o, "mc", c2, n)
			}
			n++
		}
		f.Close()
	}

	// 2. honest chains over random table evolutions, and single random corruptions of them
	nrand := envInt("VERIF_NRANDOM", 300)
	for i := 0; i < nrand; i++ {
		w := worlds[i%2]
		t0 := randTable(rng)
		if i%4 == 3 {
			if (i/4)%3 != 0 { // a member holding more than half of the power: the total stays within one bit of the largest entry
				t0 = []aEntry{{1, 20 + int64(rng.Intn(20)), 1}, {2, 1 + int64(rng.Intn(2)), 1}, {3, 1 + int64(rng.Intn(2)), 1}}
			}
			w = wordWorld(sb, t0, i/4)
		}
		first := int64(rng.Intn(4))
		if i%17 == 0 {
			first = 1<<29 + int64(rng.Intn(100))
		}
		b0 := int64(10 + rng.Intn(20))
		n := 1 + rng.Intn(5)
		if i%10 == 0 {
			n = 6 + rng.Intn(6)
		}
		cs, tables := w.honestChain(rng, t0, first, b0, n)
		for _, b := range []int64{-1, b0} {
			call := aCall{Pt: t0, Next: first, Base: b}
			for _, c := range cs {
				call.Certs = append(call.Certs, c.clone())
			}
			w.runVal(o, "pipeline", call, i)
		}
		// start in the middle of the history (table and base of that point)
		if n > 1 {
			j := 1 + rng.Intn(n-1)
			call := aCall{Pt: tables[j], Next: first + int64(j), Base: cs[j].Chain.Ts[0]}
			for _, c := range cs[j:] {
				call.Certs = append(call.Certs, c.clone())
			}
			w.runVal(o, "pipeline", call, i)
		}
		for v := 0; v < 4; v++ {
			cc := make([]aCert, len(cs))
			for k := range cs {
				cc[k] = cs[k].clone()
			}
			pos := rng.Intn(len(cc))
			kind := corrupt(rng, cc, tables, pos)
			if kind == "dropCert" {
				cc = append(cc[:pos], cc[pos+1:]...)
			}
			b := b0
			switch rng.Intn(6) {
			case 0:
				b = -1
			case 1:
				b = b0 + 1000
			case 2:
				b = 3
			}
			w.runVal(o, "random", aCall{Pt: t0, Next: first, Base: b, Certs: cc}, i+v)
		}
	}

	// 3. certificates produced by real consensus
	ncons := envInt("VERIF_NCONS", 6)
	for i := 0; i < ncons; i++ {
		worlds[i%2].consensusRows(t, o, rng, 2+rng.Intn(3))
	}

	// 4. boundary shapes
	for wi, w := range worlds {
		t0 := []aEntry{{1, 3, 1}, {2, 2, 1}, {3, 1, 1}}
		// empty sequences
		for _, b := range []int64{-1, 10} {
			w.runVal(o, "special", aCall{Pt: t0, Next: int64(5 * wi), Base: b}, 0)
		}
		w.runVal(o, "special", aCall{Pt: []aEntry{}, Next: 0, Base: -1}, 0)
		mk := func(pt []aEntry, inst int64, ts []int64, signers []int64, next []aEntry) aCert {
			d := certs.MakePowerTableDiff(w.table(pt), w.table(next))
			c := aCert{Inst: inst, Chain: aChain{Ts: ts}, Signers: signers, Sig: aSig{Over: "exact", Mask: signers, Keys: keysAt(pt, signers)}, Supp: canon(next), Delta: w.undelta(d)}
			c.normalise()
			return c
		}
		// chain of exactly 128 tipsets (accepted) and of 129 (too long)
		for _, n := range []int{128, 129} {
			ts := make([]int64, n)
			for k := range ts {
				ts[k] = int64(k + 1)
			}
			w.runVal(o, "special", aCall{Pt: t0, Next: 2, Base: 1, Certs: []aCert{mk(t0, 2, ts, []int64{0, 1}, t0)}}, 0)
		}
		// base-only chain, zero and nil chain
		w.runVal(o, "special", aCall{Pt: t0, Next: 2, Base: 7, Certs: []aCert{mk(t0, 2, []int64{7}, []int64{0, 1}, t0)}}, 0)
		w.runVal(o, "special", aCall{Pt: t0, Next: 2, Base: 7, Certs: []aCert{mk(t0, 2, []int64{}, []int64{0, 1}, t0)}}, 0)
		w.runVal(o, "special", aCall{Pt: t0, Next: 2, Base: 7, Certs: []aCert{mk(t0, 2, []int64{}, []int64{0, 1}, t0)}}, 1)
		// caller's table in a non-canonical order: signer indices refer to the order passed in
		perm := []aEntry{{3, 1, 1}, {1, 3, 1}, {2, 2, 1}}
		for _, s := range [][]int64{{1, 2}, {0, 1}, {0, 2}, {0, 1, 2}, {1}} {
			w.runVal(o, "special", aCall{Pt: perm, Next: 0, Base: -1, Certs: []aCert{mk(perm, 0, []int64{4, 5}, s, []aEntry{{3, 1, 1}, {1, 3, 1}, {2, 3, 2}})}}, 0)
		}
		// everybody leaves: the committed next table is empty; afterwards the empty signer set is a (vacuous) quorum
		all := mk(t0, 0, []int64{4, 5}, []int64{0, 1, 2}, []aEntry{})
		after := mk([]aEntry{}, 1, []int64{5, 6}, []int64{}, []aEntry{})
		w.runVal(o, "special", aCall{Pt: t0, Next: 0, Base: -1, Certs: []aCert{all, after}}, 0)
		// every subset of signers of the three engineered tables (exact 2/3, one below, zero-scaled member), plus out of range
		for _, tb := range [][]aEntry{{{1, 1, 1}, {2, 1, 1}, {3, 1, 1}}, {{1, 3, 1}, {2, 2, 1}, {3, 1, 1}}, {{1, 30000, 1}, {2, 30000, 1}, {3, 20000, 1}, {4, 1, 1}},
			{{1, 2, 1}, {2, 1, 1}}, {{1, 1, 1}}, {{1, 32767, 1}, {2, 32767, 1}, {3, 32767, 1}, {4, 1, 1}, {5, 1, 1}}} {
			m := len(tb) + 1
			for bits := 0; bits < 1<<m; bits++ {
				var s []int64
				for j := 0; j < m; j++ {
					if bits>>j&1 == 1 {
						s = append(s, int64(j))
					}
				}
				w.runVal(o, "special", aCall{Pt: tb, Next: 1, Base: 4, Certs: []aCert{mk(tb, 1, []int64{4, 6}, s, tb)}}, 0)
			}
		}
	}
	o.emit(row{"k": "end", "rows": o.n})
}

// ---------------------------------------------------------------------------- TestDeltaRows
func allTables(ids []int64, pmax, kmax int64) [][]aEntry {
	res := [][]aEntry{{}}
	for _, id := range ids {
		var nxt [][]aEntry
		for _, t := range res {
			nxt = append(nxt, t)
			for p := int64(1); p <= pmax; p++ {
				for k := int64(1); k <= kmax; k++ {
					nxt = append(nxt, append(append([]aEntry{}, t...), aEntry{id, p, k}))
				}
			}
		}
		res = nxt
	}
	return res
}

func shuffled(rng *rand.Rand, t []aEntry) []aEntry {
	r := append([]aEntry{}, t...)
	rng.Shuffle(len(r), func(i, j int) { r[i], r[j] = r[j], r[i] })
	return r
}

func (w *world) runMake(o *out, a, b []aEntry) {
	ra, rb := w.table(a), w.table(b)
	d := certs.MakePowerTableDiff(ra, rb)
	res, err := certs.ApplyPowerTableDiffs(ra, d)
	o.emit(row{"k": "make", "mag": w.mag, "a": neE(a), "b": neE(b), "d": w.undelta(d), "ok": err == nil, "err": short(err),
		"res": w.untable(res), "aAfter": w.untable(ra), "bAfter": w.untable(rb)})
}

func applyClass(err error) string {
	if err == nil {
		return ""
	}
	s := err.Error()
	switch {
	case strings.Contains(s, "not sorted by participant ID"):
		return "unsorted"
	case strings.Contains(s, "contains an empty delta"):
		return "zero"
	case strings.Contains(s, "includes an unchanged key"):
		return "samekey"
	case strings.Contains(s, "removes all power for participant"):
		return "rekeyremove"
	case strings.Contains(s, "new entry with a non-positive power delta"):
		return "newnonpositive"
	case strings.Contains(s, "with an empty signing key"):
		return "newnokey"
	case strings.Contains(s, "resulted in negative power"):
		return "negative"
	}
	return "other"
}

func (w *world) runApply(o *out, a []aEntry, ds ...[]aDelta) {
	ra := w.table(a)
	rds := make([]certs.PowerTableDiff, len(ds))
	lds := make([][]aDelta, len(ds))
	for i, d := range ds {
		rds[i] = w.delta(d)
		lds[i] = w.undelta(rds[i])
	}
	res, err := certs.ApplyPowerTableDiffs(ra, rds...)
	o.emit(row{"k": "apply", "mag": w.mag, "a": neE(a), "ds": lds, "ok": err == nil, "errc": applyClass(err), "err": short(err),
		"res": w.untable(res), "aAfter": w.untable(ra)})
}

func TestDeltaRows(t *testing.T) {
	o := newOut(t)
	defer o.close()
	seed := int64(envInt("VERIF_SEED", 1))
	rng := rand.New(rand.NewSource(seed))
	sb := signing.NewFakeBackend()
	worlds := []*world{newWorld(sb, 1), newWorld(sb, 2)}
	pmax := int64(envInt("VERIF_PMAX", 2))
	tables := allTables([]int64{1, 2, 3}, pmax, 2)
	bothEvery := envInt("VERIF_DELTA_BOTH", 1) // every n-th pair runs under both magnitudes (1 = all)

	// all ordered pairs of small tables; the caller's order is canonical, reversed or shuffled
	n := 0
	for _, a := range tables {
		for _, b := range tables {
			ca, cb := canon(a), canon(b)
			switch n % 3 {
			case 1:
				ca, cb = a, b // ascending id
			case 2:
				ca, cb = shuffled(rng, a), shuffled(rng, b)
			}
			worlds[n%2].runMake(o, ca, cb)
			if n%bothEvery == 0 {
				worlds[(n+1)%2].runMake(o, ca, cb)
			}
			n++
		}
	}
	// every delta of length <= 1 on every table; every delta of length 2 on a seeded sample of tables
	var alpha []aDelta
	for id := int64(1); id <= 3; id++ {
		for dp := -pmax; dp <= pmax; dp++ {
			for k := int64(0); k <= 2; k++ {
				alpha = append(alpha, aDelta{id, dp, k})
			}
		}
	}
	for _, a := range tables {
		worlds[n%2].runApply(o, canon(a), []aDelta{})
		for _, e := range alpha {
			worlds[n%2].runApply(o, canon(a), []aDelta{e})
			n++
		}
	}
	n2 := envInt("VERIF_NAPPLY2", 12)
	for i := 0; i < n2; i++ {
		a := tables[rng.Intn(len(tables))]
		if i < 3 { // always: the full table, a two-member table and the empty one
			a = [][]aEntry{{{1, 2, 1}, {2, 1, 2}, {3, 1, 1}}, {{1, 1, 1}, {3, 2, 2}}, {}}[i]
		}
		ca := canon(a)
		if i%2 == 1 {
			ca = shuffled(rng, a)
		}
		for _, e1 := range alpha {
			for _, e2 := range alpha {
				worlds[n%2].runApply(o, ca, []aDelta{e1, e2})
				n++
			}
		}
	}
	// random: larger tables, the computed delta and mutations of it, sequences of diffs
	nrand := envInt("VERIF_NDELTA", 2000)
	bigTable := func() []aEntry {
		var t []aEntry
		for id := int64(1); id <= 9; id++ {
			if rng.Intn(3) > 0 {
				t = append(t, aEntry{id, 1 + int64(rng.Intn(50)), 1 + int64(rng.Intn(3))})
			}
		}
		return t
	}
	for i := 0; i < nrand; i++ {
		w := worlds[i%2]
		a, b, c := bigTable(), bigTable(), bigTable()
		w.runMake(o, shuffled(rng, a), shuffled(rng, b))
		d1 := w.undelta(certs.MakePowerTableDiff(w.table(a), w.table(b)))
		d2 := w.undelta(certs.MakePowerTableDiff(w.table(b), w.table(c)))
		w.runApply(o, canon(a), d1, d2)
		w.runApply(o, shuffled(rng, a), d1)
		m := append([]aDelta{}, d1...)
		switch k := rng.Intn(9); {
		case k == 0 && len(m) >= 2:
			j := rng.Intn(len(m) - 1)
			m[j], m[j+1] = m[j+1], m[j]
		case k == 1 && len(m) >= 1:
			m = append(m, m[rng.Intn(len(m))])
		case k == 2:
			m = append(m, aDelta{20, 0, 0})
		case k == 3 && len(m) >= 1:
			m[rng.Intn(len(m))].DP -= 60
		case k == 4:
			m = append(m, aDelta{21, 1 + int64(rng.Intn(3)), 0})
		case k == 5:
			m = append(m, aDelta{22, int64(-rng.Intn(3)), 1})
		case k == 6 && len(a) >= 1:
			e := a[rng.Intn(len(a))]
			m = []aDelta{{e.ID, int64(rng.Intn(3)), e.K}}
		case k == 7 && len(a) >= 1:
			e := a[rng.Intn(len(a))]
			m = []aDelta{{e.ID, -e.P, e.K%3 + 1}}
		case k == 8 && len(m) >= 1:
			m[rng.Intn(len(m))].DP++
		}
		w.runApply(o, canon(a), m)
		if i%3 == 0 {
			w.runApply(o, canon(a), d1, m)
		}
	}
	o.emit(row{"k": "end", "rows": o.n})
}

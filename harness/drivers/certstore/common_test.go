//go:build verif

// Drivers for properties C09 / C10: run random, boundary and adversarial histories on the real
// certstore.Store (over a sync-wrapped datastore.MapDatastore, for C10 behind a fault-injecting
// datastore wrapper) and record one NDJSON event per public call.  Verdicts are TLC's
// (spec/certstore/CertStoreTrace.tla, CertStoreCrashTrace.tla); nothing here decides anything.
package zzcertstore

import (
	"bufio"
	"bytes"
	"context"
	"crypto/sha256"
	"encoding/binary"
	"encoding/hex"
	"encoding/json"
	"errors"
	"fmt"
	"os"
	"sort"
	"strconv"
	"strings"
	"sync"

	"github.com/filecoin-project/go-f3/certs"
	"github.com/filecoin-project/go-f3/certstore"
	"github.com/filecoin-project/go-f3/gpbft"
	"github.com/ipfs/go-cid"
	"github.com/ipfs/go-datastore"
	"github.com/ipfs/go-datastore/query"
	ds_sync "github.com/ipfs/go-datastore/sync"
)

var ctx = context.Background()

type ev map[string]any

type rec struct {
	mu sync.Mutex
	w  *bufio.Writer
	n  int
}

func (r *rec) emit(e ev) {
	b, err := json.Marshal(e)
	if err != nil {
		panic(err)
	}
	r.mu.Lock()
	r.w.Write(b)
	r.w.WriteByte('\n')
	r.n++
	r.mu.Unlock()
}

func envInt(k string, d int) int {
	if v, err := strconv.Atoi(os.Getenv(k)); err == nil {
		return v
	}
	return d
}

// ---------------------------------------------------------------- abstract <-> real power tables

// abstract table: list of [participant, power, key]; participant p -> ActorID(p), key k -> "k<k>"
type atable [][3]int64

func keyBytes(k int64) gpbft.PubKey {
	if k == 0 {
		return nil
	}
	return gpbft.PubKey("k" + strconv.FormatInt(k, 10))
}

func keyNum(b []byte) int64 {
	if len(b) == 0 {
		return 0
	}
	s := string(b)
	if !strings.HasPrefix(s, "k") {
		return -1
	}
	n, err := strconv.ParseInt(s[1:], 10, 64)
	if err != nil {
		return -1
	}
	return n
}

// realTable builds the canonical (sorted: power descending, id ascending) real table.
func realTable(t atable) gpbft.PowerEntries {
	pt := make(gpbft.PowerEntries, 0, len(t))
	for _, e := range t {
		pt = append(pt, gpbft.PowerEntry{ID: gpbft.ActorID(e[0]), Power: gpbft.NewStoragePower(e[1]), PubKey: keyBytes(e[2])})
	}
	sort.Sort(pt)
	return pt
}

// absTable projects a real table (in the order returned by the code).
func absTable(pt gpbft.PowerEntries) atable {
	out := make(atable, 0, len(pt))
	for _, e := range pt {
		p := int64(-999)
		if e.Power.Int != nil && e.Power.IsInt64() {
			p = e.Power.Int64()
		}
		out = append(out, [3]int64{int64(e.ID), p, keyNum(e.PubKey)})
	}
	return out
}

func canon(t atable) atable {
	return absTable(realTable(t))
}

func absDelta(d certs.PowerTableDiff) atable {
	out := make(atable, 0, len(d))
	for _, e := range d {
		p := int64(-999)
		if e.PowerDelta.Int != nil && e.PowerDelta.IsInt64() {
			p = e.PowerDelta.Int64()
		}
		out = append(out, [3]int64{int64(e.ParticipantID), p, keyNum(e.SigningKey)})
	}
	return out
}

func realDelta(d atable) certs.PowerTableDiff {
	var out certs.PowerTableDiff
	for _, e := range d {
		out = append(out, certs.PowerTableDelta{ParticipantID: gpbft.ActorID(e[0]), PowerDelta: gpbft.NewStoragePower(e[1]), SigningKey: keyBytes(e[2])})
	}
	return out
}

var garbageTable = atable{{0, 0, 1}} // the model's "a CID that is no table's"
var failTable = atable{{0, 0, 0}}    // the model's "error instead of a table"

func tableCID(t atable) cid.Cid {
	if len(t) == 1 && t[0] == garbageTable[0] {
		return gpbft.MakeCid([]byte("no such power table"))
	}
	k, err := certs.MakePowerTableCID(realTable(t))
	if err != nil {
		panic(err)
	}
	return k
}

// ---------------------------------------------------------------- certificates

type certSpec struct {
	Inst  uint64
	Chain string // ok | bottom | invalid
	Delta atable
	Supp  atable
}

var certSerial uint64

func buildCert(s certSpec) *certs.FinalityCertificate {
	certSerial++
	supp := tableCID(s.Supp)
	c := &certs.FinalityCertificate{
		GPBFTInstance:    s.Inst,
		SupplementalData: gpbft.SupplementalData{PowerTable: supp},
		Signature:        []byte(fmt.Sprintf("sig-%d", certSerial)),
		PowerTableDelta:  realDelta(s.Delta),
	}
	ts := func(epoch int64, n int) *gpbft.TipSet {
		return &gpbft.TipSet{Epoch: epoch, Key: gpbft.TipSetKey(fmt.Sprintf("ts-%d-%d", certSerial, n)), PowerTable: supp}
	}
	switch s.Chain {
	case "ok":
		c.ECChain = &gpbft.ECChain{TipSets: []*gpbft.TipSet{ts(int64(s.Inst)*2, 0), ts(int64(s.Inst)*2+1, 1)}}
	case "bottom":
		c.ECChain = &gpbft.ECChain{}
	default: // invalid: epochs do not increase
		c.ECChain = &gpbft.ECChain{TipSets: []*gpbft.TipSet{ts(int64(s.Inst)*2+1, 0), ts(int64(s.Inst)*2+1, 1)}}
	}
	return c
}

func certID(c *certs.FinalityCertificate) string {
	if c == nil {
		return ""
	}
	var buf bytes.Buffer
	if err := c.MarshalCBOR(&buf); err != nil {
		return "unmarshalable"
	}
	h := sha256.Sum256(buf.Bytes())
	return hex.EncodeToString(h[:8])
}

func errClass(err error) string {
	switch {
	case err == nil:
		return ""
	case errors.Is(err, certstore.ErrCertNotFound):
		return "notfound"
	case errors.Is(err, certstore.ErrNotInitialized):
		return "notinit"
	default:
		return "other"
	}
}

// ---------------------------------------------------------------- datastores

func newMap() datastore.Datastore { return ds_sync.MutexWrap(datastore.NewMapDatastore()) }

func copyDS(src datastore.Datastore) datastore.Datastore {
	dst := newMap()
	res, err := src.Query(ctx, query.Query{})
	if err != nil {
		panic(err)
	}
	all, err := res.Rest()
	if err != nil {
		panic(err)
	}
	for _, e := range all {
		if err := dst.Put(ctx, datastore.NewKey(e.Key), e.Value); err != nil {
			panic(err)
		}
	}
	return dst
}

func keysLeft(d datastore.Datastore) int {
	res, err := d.Query(ctx, query.Query{KeysOnly: true})
	if err != nil {
		panic(err)
	}
	all, _ := res.Rest()
	return len(all)
}

var errCrash = errors.New("verif: process stopped")

// faultDS lets `limit` writes/deletes through and then fails every call (the process is gone).
type faultDS struct {
	inner   datastore.Datastore
	mu      sync.Mutex
	limit   int // <0: unlimited
	n       int
	crashed bool
	log     [][]any // [op, kind, index, value] per write that reached the datastore
}

func (f *faultDS) arm(limit int) {
	f.mu.Lock()
	f.limit, f.n, f.crashed, f.log = limit, 0, false, nil
	f.mu.Unlock()
}

func describeKey(k datastore.Key, v []byte) (string, int64, int64) {
	s := strings.TrimPrefix(k.String(), "/certstore")
	val := int64(-1)
	if len(v) == 8 {
		val = int64(binary.BigEndian.Uint64(v))
	}
	switch {
	case strings.HasPrefix(s, "/certs/"):
		i, _ := strconv.ParseUint(s[len("/certs/"):], 16, 64)
		return "cert", int64(i), -1
	case strings.HasPrefix(s, "/power/"):
		i, _ := strconv.ParseUint(s[len("/power/"):], 16, 64)
		return "power", int64(i), -1
	case s == "/latestCert":
		return "latest", -1, val
	case s == "/firstInstance":
		return "first", -1, val
	case s == "/tombstone" && strings.HasPrefix(k.String(), "/certstore"):
		return "tomb", -1, -1
	}
	return "unknown:" + k.String(), -1, -1
}

func (f *faultDS) write(op string, k datastore.Key, v []byte) error {
	f.mu.Lock()
	defer f.mu.Unlock()
	if f.crashed || (f.limit >= 0 && f.n >= f.limit) {
		f.crashed = true
		return errCrash
	}
	f.n++
	kind, idx, val := describeKey(k, v)
	f.log = append(f.log, []any{op, kind, idx, val})
	return nil
}
func (f *faultDS) dead() error {
	f.mu.Lock()
	defer f.mu.Unlock()
	if f.crashed {
		return errCrash
	}
	return nil
}
func (f *faultDS) Put(c context.Context, k datastore.Key, v []byte) error {
	if err := f.write("put", k, v); err != nil {
		return err
	}
	return f.inner.Put(c, k, v)
}
func (f *faultDS) Delete(c context.Context, k datastore.Key) error {
	if err := f.write("del", k, nil); err != nil {
		return err
	}
	return f.inner.Delete(c, k)
}
func (f *faultDS) Get(c context.Context, k datastore.Key) ([]byte, error) {
	if err := f.dead(); err != nil {
		return nil, err
	}
	return f.inner.Get(c, k)
}
func (f *faultDS) Has(c context.Context, k datastore.Key) (bool, error) {
	if err := f.dead(); err != nil {
		return false, err
	}
	return f.inner.Has(c, k)
}
func (f *faultDS) GetSize(c context.Context, k datastore.Key) (int, error) {
	if err := f.dead(); err != nil {
		return 0, err
	}
	return f.inner.GetSize(c, k)
}
func (f *faultDS) Query(c context.Context, q query.Query) (query.Results, error) {
	if err := f.dead(); err != nil {
		return nil, err
	}
	return f.inner.Query(c, q)
}
func (f *faultDS) Sync(c context.Context, k datastore.Key) error { return f.inner.Sync(c, k) }
func (f *faultDS) Close() error                                  { return nil }

func (f *faultDS) writes() [][]any {
	f.mu.Lock()
	defer f.mu.Unlock()
	out := make([][]any, len(f.log))
	copy(out, f.log)
	return out
}

//go:build verif

package zzcertstore

import (
	"bufio"
	"math/rand"
	"os"
	"sync"
	"sync/atomic"
	"testing"
	"time"

	"github.com/filecoin-project/go-f3/certs"
)

func openRec(t *testing.T) (*rec, func()) {
	out := os.Getenv("VERIF_OUT")
	if out == "" {
		t.Skip("VERIF_OUT not set")
	}
	fh, err := os.Create(out)
	if err != nil {
		t.Fatal(err)
	}
	r := &rec{w: bufio.NewWriterSize(fh, 1<<20)}
	return r, func() { r.w.Flush(); fh.Close() }
}

// TestCertStoreLong: one history with the production checkpoint frequency (no accessor) from instance 0
// across the 1440 and 2880 checkpoints with changing tables, reopening around the boundaries.
func TestCertStoreLong(t *testing.T) {
	r, done := openRec(t)
	defer done()
	rng := rand.New(rand.NewSource(int64(envInt("VERIF_SEED", 1))))
	puts := envInt("VERIF_PUTS", 3000)
	g := &gen{t: t, r: r, rng: rng, wipeAt: -1}
	w := &world{g: g, raw: newMap()}
	r.emit(ev{"ev": "Reset"})
	w.open("Open", variant{"create", 0, g.randTable(true)})
	near := func(x uint64) bool { m := x % 1440; return m <= 3 || m >= 1437 }
	for n := 0; n < puts && !w.stuck; {
		if w.cs == nil {
			if rng.Intn(2) == 0 {
				w.open("Open", variant{"open", 0, nil})
			} else {
				w.open("Open", variant{"ooc", w.first, w.init})
			}
			if w.cs == nil {
				return
			}
			continue
		}
		next, _ := w.cur()
		p := 3
		if near(next) {
			p = 40
		}
		switch x := rng.Intn(100); {
		case x < p:
			w.crash()
		case x < p+3:
			s, c := w.oddCert()
			w.put("Put", s, c)
		case x < p+6:
			i := uint64(rng.Intn(int(next) + 2))
			if rng.Intn(2) == 0 && next > 1440 {
				i = 1440*(1+uint64(rng.Intn(int(next/1440)))) - 2 + uint64(rng.Intn(5))
			}
			w.getPT(i)
		case x < p+8:
			i := uint64(rng.Intn(int(next) + 2))
			w.get(i)
			w.getRange(i, i+uint64(rng.Intn(12)))
			w.latest()
		default:
			s := w.validSuccessor()
			w.put("Put", s, buildCert(s))
			n++
		}
	}
	next, _ := w.cur()
	for _, i := range []uint64{0, 1, 1439, 1440, 1441, 2879, 2880, 2881, next - 1, next, next + 1} {
		w.getPT(i)
	}
	w.getRange(1430, 1450)
	// long range reads (more than a thousand certificates in one call), complete and running past the end
	if next > 1110 {
		w.getRange(3, 3+1100)
		w.getRange(0, next-1)
		w.getRange(next-1030, next+5)
	}
	w.crash()
	w.open("Open", variant{"open", 0, nil})
	for _, i := range []uint64{1439, 1440, 1441, 2880, next - 1, next, next + 1} {
		w.getPT(i)
	}
	w.latest()
	t.Logf("events=%d", r.n)
}

// TestCertStoreConcurrent (run under -race): one writer appends valid successors while readers call
// Latest/Get/GetRange/GetPowerTable/Subscribe and subscribers receive.  Every observation is stamped with
// lo = number of Puts completed before the call and hi = number of Puts started before it returned; the
// observations are recorded after the writer's events and judged by TLC against the admitted history.
func TestCertStoreConcurrent(t *testing.T) {
	r, done := openRec(t)
	defer done()
	seed := int64(envInt("VERIF_SEED", 1))
	rng := rand.New(rand.NewSource(seed))
	puts, readers := envInt("VERIF_PUTS", 400), envInt("VERIF_READERS", 8)
	g := &gen{t: t, r: r, rng: rng, F: 3, wipeAt: -1}
	w := &world{g: g, raw: newMap()}
	r.emit(ev{"ev": "Reset"})
	first := uint64(2)
	w.open("Open", variant{"create", first, g.randTable(true)})
	cs := w.cs

	var started, completed atomic.Int64
	var stop atomic.Bool
	var mu sync.Mutex
	var observed []ev
	record := func(e ev) { mu.Lock(); observed = append(observed, e); mu.Unlock() }
	obs := func(kind string, lo, hi int64) ev {
		return ev{"ev": "CObs", "kind": kind, "lo": lo, "hi": hi, "i": 0, "e": 0, "id": "", "inst": -1, "prev": -1,
			"ids": []string{}, "pt": atable{}, "err": ""}
	}
	var wg sync.WaitGroup
	for ri := 0; ri < readers; ri++ {
		wg.Add(1)
		go func(ri int) {
			defer wg.Done()
			rr := rand.New(rand.NewSource(seed*1000 + int64(ri)))
			for !stop.Load() {
				lo := completed.Load()
				span := uint64(started.Load()) + 3
				i := first + uint64(rr.Intn(int(span)))
				if rr.Intn(2) == 0 && span > 6 { // stay close to the head
					i = first + span - 6 + uint64(rr.Intn(6))
				}
				switch rr.Intn(5) {
				case 0:
					l := cs.Latest()
					e := obs("Latest", lo, started.Load())
					if l != nil {
						e["id"], e["inst"] = certID(l), int64(l.GPBFTInstance)
					}
					record(e)
				case 1:
					c, err := cs.Get(ctx, i)
					e := obs("Get", lo, started.Load())
					e["i"], e["err"] = i, errClass(err)
					if c != nil {
						e["id"], e["inst"] = certID(c), int64(c.GPBFTInstance)
					}
					record(e)
				case 2:
					pt, err := cs.GetPowerTable(ctx, i)
					e := obs("GetPT", lo, started.Load())
					e["i"], e["err"] = i, errClass(err)
					if err == nil {
						e["pt"] = nz(absTable(pt))
					}
					record(e)
				case 3:
					end := i + uint64(rr.Intn(6))
					cc, err := cs.GetRange(ctx, i, end)
					e := obs("GetRange", lo, started.Load())
					ids := []string{}
					for j := range cc {
						ids = append(ids, certID(&cc[j]))
					}
					e["i"], e["e"], e["ids"], e["err"] = i, end, ids, errClass(err)
					record(e)
				default: // subscribe, look at the initial content, unsubscribe
					ch, closer := cs.Subscribe()
					var c *certs.FinalityCertificate
					select {
					case c = <-ch:
					default:
					}
					closer()
					e := obs("SubInit", lo, started.Load())
					if c != nil {
						e["id"], e["inst"] = certID(c), int64(c.GPBFTInstance)
					}
					record(e)
				}
			}
		}(ri)
	}
	// long-lived subscribers
	finals := make([]chan string, 3)
	for si := range finals {
		finals[si] = make(chan string, 1)
		ch, closer := cs.Subscribe()
		wg.Add(1)
		go func(si int) {
			defer wg.Done()
			defer closer()
			prev, last := int64(-1), ""
			sr := rand.New(rand.NewSource(seed*77 + int64(si)))
			for {
				lo := completed.Load()
				var c *certs.FinalityCertificate
				select {
				case c = <-ch:
				case <-time.After(20 * time.Millisecond):
					if stop.Load() {
						select { // final drain
						case c = <-ch:
						default:
							finals[si] <- last
							return
						}
					} else {
						continue
					}
				}
				e := obs("SubRecv", lo, started.Load())
				e["id"], e["inst"], e["prev"] = certID(c), int64(c.GPBFTInstance), prev
				record(e)
				prev, last = int64(c.GPBFTInstance), certID(c)
				if si == 0 {
					time.Sleep(time.Duration(sr.Intn(300)) * time.Microsecond) // a slow reader must not block the writer
				}
			}
		}(si)
	}
	for n := 0; n < puts && !w.stuck; n++ {
		s := w.validSuccessor()
		c := buildCert(s)
		started.Add(1)
		ok := w.put("Put", s, c)
		if !ok {
			t.Logf("writer: put %d not admitted", n)
			break
		}
		completed.Add(1)
		if n%7 == 0 {
			time.Sleep(50 * time.Microsecond)
		}
	}
	stop.Store(true)
	wg.Wait()
	for _, e := range observed {
		r.emit(e)
	}
	for si := range finals {
		e := obs("SubFinal", completed.Load(), started.Load())
		e["id"] = <-finals[si]
		r.emit(e)
	}
	t.Logf("events=%d observations=%d", r.n, len(observed))
}

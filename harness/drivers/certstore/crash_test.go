//go:build verif

package zzcertstore

import (
	"github.com/filecoin-project/go-f3/certs"
	"github.com/filecoin-project/go-f3/certstore"
	"github.com/ipfs/go-datastore"
)

// Crash forks (C10): before a mutating operation runs on the main line, it is run on copies of the
// datastore behind a faultDS that stops after k writes, for every k below the number of writes the
// operation performs; each crashed copy is then reopened with every open variant (again on
// copies), the stored history is projected, the operation is repeated and the store is used further.

func (w *world) child(raw datastore.Datastore) *world {
	c := &world{g: w.g, raw: raw, exists: w.exists, first: w.first, init: w.init, belief: w.belief,
		admitted: map[uint64]*certs.FinalityCertificate{}, specs: map[uint64]certSpec{}}
	for k, v := range w.admitted {
		c.admitted[k] = v
	}
	for k, v := range w.specs {
		c.specs[k] = v
	}
	return c
}

func (g *gen) fork()    { g.r.emit(ev{"ev": "Fork"}); g.nfork++ }
func (g *gen) forkEnd() { g.r.emit(ev{"ev": "ForkEnd"}) }

// openSilently opens a store over d without recording (used only to count the writes of an operation)
func (w *world) openSilently(d datastore.Datastore) *certstore.Store {
	cs, err := certstore.OpenStore(ctx, d)
	if err != nil {
		return nil
	}
	if w.g.F != 0 {
		certstore.VerifSetPowerTableFrequency(cs, w.g.F)
	}
	return cs
}

func (w *world) reopenVariants() []variant {
	vs := []variant{{"open", 0, nil}, {"ooc", w.first, w.init}, {"create", w.first, w.init}}
	if w.g.rng.Intn(4) == 0 {
		vs = append(vs, variant{"ooc", w.first + 1, w.init})
	}
	return vs
}

// use the reopened store a little further: one more certificate, reopen once more
func (w *world) useFurther() {
	if w.cs == nil || w.stuck {
		return
	}
	s := w.validSuccessor()
	w.put("Put", s, buildCert(s))
	w.proj()
	w.getPT(s.Inst)
	w.crash()
	w.open("Open", variant{"open", 0, nil})
	if w.cs != nil {
		w.proj()
	}
}

func (w *world) forkPut(s certSpec, c *certs.FinalityCertificate) {
	g := w.g
	probe := &faultDS{inner: copyDS(w.raw), limit: -1}
	pcs := w.openSilently(probe)
	if pcs == nil {
		return
	}
	probe.arm(-1)
	_ = pcs.Put(ctx, c)
	n := probe.n
	for k := 0; k < n; k++ {
		g.fork()
		w1 := w.child(copyDS(w.raw))
		f1 := &faultDS{inner: w1.raw, limit: -1}
		g.r.emit(ev{"ev": "Crash"})
		live := w1.raw
		w1.raw = f1 // the store object is opened over the fault injector
		cls := w1.open("Open", variant{"open", 0, nil})
		w1.raw = live
		if cls == "" {
			f1.arm(k)
			err := w1.cs.Put(ctx, c)
			e := certEv("CrashPut", s, c)
			e["k"], e["writes"], e["err"] = k, f1.writes(), errClass(err)
			g.r.emit(e)
			for _, v := range w1.reopenVariants() {
				g.fork()
				w2 := w1.child(copyDS(w1.raw))
				if w2.open("Open", v) == "" {
					w2.proj()
					w2.put("RetryPut", s, c)
					if !w2.stuck {
						w2.proj()
						w2.useFurther()
					}
				}
				g.forkEnd()
			}
		}
		g.forkEnd()
	}
}

func (w *world) forkCreate(v0 variant) {
	g := w.g
	probe := &faultDS{inner: copyDS(w.raw), limit: -1}
	_, _ = callOpen(probe, v0)
	n := probe.n
	for k := 0; k < n; k++ {
		g.fork()
		w1 := w.child(copyDS(w.raw))
		f1 := &faultDS{inner: w1.raw, limit: k}
		_, err := callOpen(f1, v0)
		g.r.emit(ev{"ev": "CrashCreate", "variant": v0.kind, "first": v0.first, "table": nz(canon(v0.table)), "k": k,
			"writes": f1.writes(), "err": errClass(err)})
		vs := []variant{{"open", 0, nil}, {"ooc", v0.first, v0.table}, {"create", v0.first, v0.table},
			{"ooc", v0.first + 1, g.randTable(true)}, {"create", v0.first + 2, g.randTable(true)}}
		for _, v := range vs {
			g.fork()
			w2 := w1.child(copyDS(w1.raw))
			cls := w2.open("Open", v)
			if cls == "" {
				w2.proj()
				w2.useFurther()
			} else if v.kind == "open" {
				// the store was not created: repeat the interrupted operation
				if w2.open("RetryOpen", v0) == "" {
					w2.proj()
					w2.useFurther()
				}
			}
			g.forkEnd()
		}
		g.forkEnd()
	}
}

func (w *world) forkWipe() {
	g := w.g
	probe := &faultDS{inner: copyDS(w.raw), limit: -1}
	pcs := w.openSilently(probe)
	if pcs == nil {
		return
	}
	probe.arm(-1)
	_ = pcs.DeleteAll(ctx)
	n := probe.n
	for k := 0; k < n; k++ {
		g.fork()
		w1 := w.child(copyDS(w.raw))
		f1 := &faultDS{inner: w1.raw, limit: -1}
		g.r.emit(ev{"ev": "Crash"})
		live := w1.raw
		w1.raw = f1
		cls := w1.open("Open", variant{"open", 0, nil})
		w1.raw = live
		if cls == "" {
			f1.arm(k)
			err := w1.cs.DeleteAll(ctx)
			g.r.emit(ev{"ev": "CrashWipe", "k": k, "writes": f1.writes(), "err": errClass(err), "left": keysLeft(w1.raw)})
			w1.cs = nil
			for _, v := range w1.reopenVariants() {
				g.fork()
				w2 := w1.child(copyDS(w1.raw))
				if w2.open("Open", v) == "" {
					w2.proj()
					w2.deleteAll("RetryDeleteAll")
					w2.open("Open", variant{"open", 0, nil})
				}
				g.forkEnd()
			}
			if k >= 1 {
				// the process stops again inside the wipe that reopening resumes
				g.fork()
				m2 := copyDS(w1.raw)
				f2 := &faultDS{inner: m2, limit: g.rng.Intn(n - k)}
				_, err := certstore.OpenStore(ctx, f2)
				g.r.emit(ev{"ev": "CrashResume", "writes": f2.writes(), "err": errClass(err), "left": keysLeft(m2)})
				w2 := w1.child(m2)
				w2.open("Open", variant{"open", 0, nil})
				g.forkEnd()
			}
		}
		g.forkEnd()
	}
}

//go:build verif

package zzcertstore

import (
	"bufio"
	"math/rand"
	"os"
	"testing"
	"time"

	"github.com/filecoin-project/go-f3/certs"
	"github.com/filecoin-project/go-f3/certstore"
	"github.com/ipfs/go-datastore"
)

// gen is what the history generator knows (inputs it chose); it never judges the code.
type gen struct {
	t     *testing.T
	r     *rec
	rng   *rand.Rand
	F     uint64 // frequency set through the accessor after every open; 0 = accessor not used (1440)
	forks bool   // enumerate crash points of every mutating operation (C10)
	nfork int
	wipeAt int  // >= 0: wipe the store (all crash points) as soon as it holds exactly this many certificates
	wiped  bool
}

type sub struct {
	ch    <-chan *certs.FinalityCertificate
	close func()
}

// world = one datastore + at most one live Store object on it
type world struct {
	g        *gen
	raw      datastore.Datastore
	cs       *certstore.Store
	exists   bool // a store was created on raw (generator knowledge)
	first    uint64
	init     atable
	admitted map[uint64]*certs.FinalityCertificate
	specs    map[uint64]certSpec
	belief   atable // table the generator last saw at the next instance
	subs     map[int]sub
	nextSid  int
	stuck    bool // a Put did not return: the history ends
}

func nz(t atable) atable {
	if t == nil {
		return atable{}
	}
	return t
}

// ---------------------------------------------------------------- recorded calls

type variant struct {
	kind  string // open | ooc | create
	first uint64
	table atable
}

func callOpen(d datastore.Datastore, v variant) (*certstore.Store, error) {
	switch v.kind {
	case "open":
		return certstore.OpenStore(ctx, d)
	case "ooc":
		return certstore.OpenOrCreateStore(ctx, d, v.first, realTable(v.table))
	default:
		return certstore.CreateStore(ctx, d, v.first, realTable(v.table))
	}
}

// open calls an open variant on the world's datastore, records it, and applies the accessor.
func (w *world) open(evName string, v variant) string {
	cs, err := callOpen(w.raw, v)
	cls := errClass(err)
	w.g.r.emit(ev{"ev": evName, "variant": v.kind, "first": v.first, "table": nz(canon(v.table)), "err": cls, "left": keysLeft(w.raw)})
	if err != nil {
		w.cs = nil
		return cls
	}
	w.cs = cs
	w.subs = map[int]sub{}
	if v.kind != "open" && (!w.exists || w.first != v.first) {
		// a successful create / open-or-create tells the generator which store is there now
		w.exists, w.first, w.init = true, v.first, canon(v.table)
		w.admitted, w.specs = map[uint64]*certs.FinalityCertificate{}, map[uint64]certSpec{}
		w.belief = canon(v.table)
	}
	if w.g.F != 0 {
		certstore.VerifSetPowerTableFrequency(cs, w.g.F)
		w.g.r.emit(ev{"ev": "SetFreq", "f": w.g.F})
	}
	return cls
}

func (w *world) crash() {
	w.g.r.emit(ev{"ev": "Crash"})
	w.cs, w.subs = nil, nil
}

func certEv(name string, s certSpec, c *certs.FinalityCertificate) ev {
	return ev{"ev": name, "id": certID(c), "inst": s.Inst, "chain": s.Chain, "delta": nz(s.Delta), "supp": nz(s.Supp)}
}

func (w *world) put(evName string, s certSpec, c *certs.FinalityCertificate) bool {
	done := make(chan error, 1)
	go func() { done <- w.cs.Put(ctx, c) }()
	e := certEv(evName, s, c)
	select {
	case err := <-done:
		e["err"], e["blocked"] = errClass(err), false
		w.g.r.emit(e)
		if l := w.cs.Latest(); err == nil && l == c {
			// generator bookkeeping only: what may be re-submitted later
			w.admitted[s.Inst], w.specs[s.Inst] = c, s
		}
		return err == nil
	case <-time.After(3 * time.Second):
		e["err"], e["blocked"] = "other", true
		w.g.r.emit(e)
		w.stuck = true
		return false
	}
}

// next instance / current table as the code reports them (generator input, not recorded)
func (w *world) cur() (uint64, atable) {
	next := w.first
	if l := w.cs.Latest(); l != nil {
		next = l.GPBFTInstance + 1
	}
	if pt, err := w.cs.GetPowerTable(ctx, next); err == nil && len(pt) > 0 {
		w.belief = canon(absTable(pt))
	}
	return next, w.belief
}

func (w *world) get(i uint64) {
	c, err := w.cs.Get(ctx, i)
	inst := int64(-1)
	if c != nil {
		inst = int64(c.GPBFTInstance)
	}
	w.g.r.emit(ev{"ev": "Get", "i": i, "id": certID(c), "inst": inst, "err": errClass(err)})
}

func (w *world) getRange(s, e uint64) {
	cs, err := w.cs.GetRange(ctx, s, e)
	ids, insts := []string{}, []int64{}
	for i := range cs {
		ids = append(ids, certID(&cs[i]))
		insts = append(insts, int64(cs[i].GPBFTInstance))
	}
	w.g.r.emit(ev{"ev": "GetRange", "s": s, "e": e, "ids": ids, "insts": insts, "err": errClass(err)})
}

func (w *world) getPT(i uint64) {
	pt, err := w.cs.GetPowerTable(ctx, i)
	t := failTable
	if err == nil {
		t = absTable(pt)
	}
	w.g.r.emit(ev{"ev": "GetPT", "i": i, "pt": nz(t), "err": errClass(err)})
}

func (w *world) latest() {
	l := w.cs.Latest()
	inst := int64(-1)
	if l != nil {
		inst = int64(l.GPBFTInstance)
	}
	w.g.r.emit(ev{"ev": "Latest", "id": certID(l), "inst": inst})
}

// proj records the whole history the API designates as stored.
func (w *world) proj() {
	l := w.cs.Latest()
	latest, lid := int64(-1), certID(l)
	ids, rids, rerr := []string{}, []string{}, ""
	pts := []atable{}
	next := w.first
	if l != nil {
		latest = int64(l.GPBFTInstance)
		next = l.GPBFTInstance + 1
		if next-w.first > 64 {
			return // long histories are sampled with Get/GetRange/GetPT instead
		}
		for i := w.first; i <= l.GPBFTInstance; i++ {
			c, err := w.cs.Get(ctx, i)
			switch {
			case err != nil:
				ids = append(ids, "!"+errClass(err))
			case c.GPBFTInstance != i:
				ids = append(ids, "!instance")
			default:
				ids = append(ids, certID(c))
			}
		}
		if w.first <= l.GPBFTInstance {
			cs, err := w.cs.GetRange(ctx, w.first, l.GPBFTInstance)
			for i := range cs {
				rids = append(rids, certID(&cs[i]))
			}
			rerr = errClass(err)
		}
	}
	for i := w.first; i <= next; i++ {
		pt, err := w.cs.GetPowerTable(ctx, i)
		if err != nil {
			pts = append(pts, failTable)
		} else {
			pts = append(pts, nz(absTable(pt)))
		}
	}
	w.g.r.emit(ev{"ev": "Proj", "first": w.first, "latest": latest, "lid": lid, "ids": ids, "rids": rids, "rerr": rerr, "pts": pts})
}

func (w *world) subscribe() {
	ch, closer := w.cs.Subscribe()
	sid := w.nextSid
	w.nextSid++
	w.subs[sid] = sub{ch, closer}
	w.g.r.emit(ev{"ev": "Subscribe", "sid": sid})
}

func (w *world) recv(sid int) {
	id := ""
	select {
	case c, ok := <-w.subs[sid].ch:
		if ok {
			id = certID(c)
		} else {
			id = "closed"
		}
	default:
	}
	w.g.r.emit(ev{"ev": "Recv", "sid": sid, "id": id})
}

func (w *world) unsub(sid int) {
	w.subs[sid].close()
	delete(w.subs, sid)
	w.g.r.emit(ev{"ev": "Unsub", "sid": sid})
}

func (w *world) deleteAll(evName string) {
	err := w.cs.DeleteAll(ctx)
	w.g.r.emit(ev{"ev": evName, "err": errClass(err), "left": keysLeft(w.raw)})
	w.cs, w.subs = nil, nil
	if err == nil {
		w.exists = false
	}
}

// ---------------------------------------------------------------- generation of inputs

func (g *gen) randTable(nonEmpty bool) atable {
	for {
		var t atable
		for p := int64(1); p <= 4; p++ {
			if pow := int64(g.rng.Intn(4)); pow > 0 && g.rng.Intn(3) > 0 {
				t = append(t, [3]int64{p, pow, 1 + int64(g.rng.Intn(2))})
			}
		}
		if len(t) > 0 || !nonEmpty {
			return canon(t)
		}
	}
}

// mutate changes one or two participants of t; the result is never empty
func (g *gen) mutate(t atable) atable {
	for {
		m := map[int64][3]int64{}
		for _, e := range t {
			m[e[0]] = e
		}
		for n := 1 + g.rng.Intn(2); n > 0; n-- {
			p := 1 + int64(g.rng.Intn(4))
			if e, ok := m[p]; ok {
				switch g.rng.Intn(4) {
				case 0:
					delete(m, p)
				case 1:
					e[2] = 3 - e[2]
					m[p] = e
				case 2:
					e[1] = 1 + int64(g.rng.Intn(3))
					m[p] = e
				default:
					e[1] = 1 + int64(g.rng.Intn(3))
					e[2] = 3 - e[2]
					m[p] = e
				}
			} else {
				m[p] = [3]int64{p, 1 + int64(g.rng.Intn(3)), 1 + int64(g.rng.Intn(2))}
			}
		}
		var out atable
		for _, e := range m {
			out = append(out, e)
		}
		if len(out) > 0 {
			return canon(out)
		}
	}
}

func diff(from, to atable) atable {
	return absDelta(certs.MakePowerTableDiff(realTable(from), realTable(to)))
}

func (w *world) validSuccessor() certSpec {
	next, cur := w.cur()
	to := cur
	if w.g.rng.Intn(100) < 65 {
		to = w.g.mutate(cur)
	}
	return certSpec{Inst: next, Chain: "ok", Delta: diff(cur, to), Supp: to}
}

// a certificate the store should not admit (the model decides; some of these are valid by accident)
func (w *world) oddCert() (certSpec, *certs.FinalityCertificate) {
	g := w.g
	next, cur := w.cur()
	to := g.mutate(cur)
	s := certSpec{Inst: next, Chain: "ok", Delta: diff(cur, to), Supp: to}
	switch g.rng.Intn(16) {
	case 0: // duplicate: the very certificate that is stored
		if len(w.admitted) > 0 && next > w.first {
			i := w.first + uint64(g.rng.Intn(int(next-w.first)))
			if c, ok := w.admitted[i]; ok {
				return w.specs[i], c
			}
		}
	case 1: // stale: another certificate for a stored instance
		if next > w.first {
			s.Inst = w.first + uint64(g.rng.Intn(int(next-w.first)))
		}
	case 2:
		s.Inst = next + 1 + uint64(g.rng.Intn(3))
	case 3:
		if w.first > 0 {
			s.Inst = w.first - 1
		}
	case 4: // arbitrary delta entries
		s.Delta = nil
		for p := int64(1); p <= 5; p++ {
			if g.rng.Intn(2) == 0 {
				s.Delta = append(s.Delta, [3]int64{p, int64(g.rng.Intn(7) - 3), int64(g.rng.Intn(3))})
			}
		}
	case 5: // delta made from another table
		s.Delta = diff(g.mutate(cur), to)
	case 6:
		s.Supp = g.mutate(to)
	case 7:
		s.Supp = garbageTable
	case 8: // delta to the empty table, committed
		s.Delta, s.Supp = diff(cur, nil), atable{}
	case 9:
		s.Delta, s.Supp = diff(cur, nil), garbageTable
	case 10: // unsorted delta
		if len(s.Delta) >= 2 {
			s.Delta[0], s.Delta[1] = s.Delta[1], s.Delta[0]
		} else {
			s.Delta = append(atable{{9, 1, 1}}, s.Delta...)
		}
	case 11: // delta with an empty entry
		s.Delta = append(atable{}, s.Delta...)
		s.Delta = append(s.Delta, [3]int64{7, 0, 0})
	case 12:
		s.Chain = "bottom"
	case 13:
		s.Chain = "invalid"
	case 14: // no delta, but another table committed
		s.Delta, s.Supp = atable{}, to
	case 15: // no delta, a committed CID that is no table's
		s.Delta, s.Supp = atable{}, garbageTable
	}
	return s, buildCert(s)
}

func (g *gen) pickFirst() uint64 {
	if g.F == 0 { // no accessor: sit right below the real checkpoint boundaries
		return []uint64{1436, 1437, 1438, 1439, 1440, 2877, 2879}[g.rng.Intn(7)]
	}
	return []uint64{0, 0, 1, 2, 3, 5, g.F, g.F - 1, 2*g.F + 1, 1000}[g.rng.Intn(10)]
}

// ---------------------------------------------------------------- one history

func (g *gen) history(steps int) {
	w := &world{g: g, raw: newMap()}
	g.r.emit(ev{"ev": "Reset"})
	if g.rng.Intn(8) == 0 {
		w.open("Open", variant{"open", 0, nil})
	}
	for s := 0; s < steps && !w.stuck; s++ {
		if w.cs == nil {
			w.reopen()
			continue
		}
		next, _ := w.cur()
		// boundary histories: a wipe (with every crash point) of a store holding exactly g.wipeAt certificates -- 0 = straight after creation
		if g.wipeAt >= 0 && !g.wiped && next >= w.first && int(next-w.first) == g.wipeAt {
			g.wiped = true
			if g.forks {
				w.forkWipe()
			}
			w.deleteAll("DeleteAll")
			continue
		}
		lo := w.first
		if lo > 0 {
			lo--
		}
		pick := func() uint64 { return lo + uint64(g.rng.Intn(int(next-lo)+3)) }
		switch x := g.rng.Intn(100); {
		case x < 34:
			s := w.validSuccessor()
			c := buildCert(s)
			if g.forks {
				w.forkPut(s, c)
			}
			w.put("Put", s, c)
		case x < 46:
			s, c := w.oddCert()
			if g.forks && g.rng.Intn(3) == 0 {
				w.forkPut(s, c)
			}
			w.put("Put", s, c)
		case x < 53:
			w.get(pick())
		case x < 60:
			a, b := pick(), pick()
			if a > b && g.rng.Intn(6) > 0 {
				a, b = b, a
			}
			w.getRange(a, b)
		case x < 69:
			w.getPT(pick())
		case x < 73:
			w.latest()
		case x < 77:
			if len(w.subs) < 3 {
				w.subscribe()
			}
		case x < 84:
			for sid := range w.subs {
				w.recv(sid)
				break
			}
		case x < 86:
			for sid := range w.subs {
				w.unsub(sid)
				break
			}
		case x < 92:
			w.proj()
		case x < 98:
			w.crash()
		default:
			if g.forks {
				w.forkWipe()
			}
			w.deleteAll("DeleteAll")
		}
	}
	if w.cs != nil && !w.stuck {
		for sid := range w.subs {
			w.recv(sid)
		}
		w.proj()
		w.crash()
		w.open("Open", variant{"open", 0, nil})
		if w.cs != nil {
			w.proj()
		}
	}
}

// reopen: the datastore has no live object; pick an open variant
func (w *world) reopen() {
	g := w.g
	if !w.exists {
		switch x := g.rng.Intn(10); {
		case x == 0:
			w.open("Open", variant{"open", 0, nil})
		case x == 1:
			w.open("Open", variant{[]string{"ooc", "create"}[g.rng.Intn(2)], g.pickFirst(), nil}) // empty initial table
		default:
			v := variant{[]string{"ooc", "create"}[g.rng.Intn(2)], g.pickFirst(), g.randTable(true)}
			if g.forks {
				w.forkCreate(v)
			}
			w.open("Open", v)
		}
		return
	}
	switch x := g.rng.Intn(20); {
	case x < 10:
		w.open("Open", variant{"open", 0, nil})
	case x < 16:
		w.open("Open", variant{"ooc", w.first, w.init})
	case x == 16:
		w.open("Open", variant{"ooc", w.first + 1, w.init})
	case x == 17:
		w.open("Open", variant{"ooc", w.first, g.mutate(w.init)})
	case x == 18:
		w.open("Open", variant{"create", w.first, w.init})
	default:
		w.open("Open", variant{"ooc", w.first, nil})
	}
}

func runHistories(t *testing.T, forks bool) {
	out := os.Getenv("VERIF_OUT")
	if out == "" {
		t.Skip("VERIF_OUT not set")
	}
	fh, err := os.Create(out)
	if err != nil {
		t.Fatal(err)
	}
	defer fh.Close()
	r := &rec{w: bufio.NewWriterSize(fh, 1<<20)}
	defer r.w.Flush()
	rng := rand.New(rand.NewSource(int64(envInt("VERIF_SEED", 1))))
	nh, steps := envInt("VERIF_N", 30), envInt("VERIF_STEPS", 60)
	noacc := envInt("VERIF_NOACCESSOR_EVERY", 5) // every n-th history runs with the production frequency
	for hi := 0; hi < nh; hi++ {
		g := &gen{t: t, r: r, rng: rng, forks: forks, wipeAt: -1}
		if hi < 4 {
			g.wipeAt = []int{0, 1, 0, 3}[hi] // the first histories wipe an empty / one-certificate / small store
		}
		g.F = uint64(1 + rng.Intn(5))
		if noacc > 0 && hi%noacc == noacc-1 {
			g.F = 0
		}
		g.history(steps)
	}
	t.Logf("events=%d", r.n)
}

func TestCertStoreHistories(t *testing.T) { runHistories(t, false) }
func TestCertStoreCrashes(t *testing.T)   { runHistories(t, true) }

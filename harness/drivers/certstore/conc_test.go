//go:build verif

package zzcertstore

// TestCertStoreLinearizable (C09, "plus concurrent readers and writers"): writers put a pre-built chain of
// valid successors whose power table changes on EVERY certificate (checkpoint frequency lowered so that
// checkpoints are crossed every few certificates) while reader goroutines hammer GetPowerTable(latest+1),
// GetPowerTable(i), Latest, Get, GetRange and subscriptions through the public API.  Every read is recorded with
//
//	g, seq   goroutine and its per-goroutine sequence number
//	lo       number of Puts whose call had RETURNED when the read was invoked   (certainly applied)
//	hi       number of Puts whose call had been ISSUED when the read responded  (possibly applied)
//	wit      position of the newest certificate this goroutine was given before (by Latest / Subscribe / receive)
//	args, and an abstract id of the result (certificate ids, instance numbers, the abstract power table)
//
// The writers bump `started` (atomic max) right BEFORE calling Put and `completed` right AFTER it returned, a
// reader loads `completed` before its call and `started` after it, so the state index at which the read took
// effect lies in [lo, hi] (spec: BracketSound in CertStoreConc.tla).  Nothing is judged here: TLC decides
// (CertStoreConcTrace.tla) whether each answer is the model's answer for SOME state index in the bracket.
//
// The races are provoked, not waited for: the datastore is wrapped (public datastore.Datastore interface) by a
// gate that sees every datastore call of the store.  Modes per episode:
//
//	free     free-running, GOMAXPROCS varied
//	handoff  2-3 writers are pipelined: the next Put is issued as soon as the previous one is inside its critical
//	         section (its first datastore write reached the gate, which holds it there for some microseconds), so
//	         the next writer queues on the store's lock while the readers pile up behind it; a read that is
//	         composed of two critical sections is cut in two by the queued writer
//	gated    every datastore write of a Put (certificate, checkpoint table, latest pointer - before and after) is
//	         held until the lock-free readers have made progress: readers run while a writer is mid-Put at every
//	         pause point; datastore reads of the readers are held until further Puts have completed, so that
//	         multi-read operations (GetRange, historical GetPowerTable) span several Puts

import (
	"context"
	"fmt"
	"math/rand"
	"runtime"
	"strconv"
	"strings"
	"sync"
	"sync/atomic"
	"testing"
	"time"

	"github.com/filecoin-project/go-f3/certs"
	"github.com/filecoin-project/go-f3/certstore"
	"github.com/ipfs/go-datastore"
	"github.com/ipfs/go-datastore/query"
)

// ---------------------------------------------------------------- the gate

type gateDS struct {
	inner     datastore.Datastore
	beforePut func(kind string, idx int64)
	afterPut  func(kind string, idx int64)
	beforeGet func(kind string, idx int64)
}

func (g *gateDS) Put(c context.Context, k datastore.Key, v []byte) error {
	kind, idx, _ := describeKey(k, v)
	if g.beforePut != nil {
		g.beforePut(kind, idx)
	}
	err := g.inner.Put(c, k, v)
	if g.afterPut != nil {
		g.afterPut(kind, idx)
	}
	return err
}
func (g *gateDS) Get(c context.Context, k datastore.Key) ([]byte, error) {
	if g.beforeGet != nil {
		kind, idx, _ := describeKey(k, nil)
		g.beforeGet(kind, idx)
	}
	return g.inner.Get(c, k)
}
func (g *gateDS) Delete(c context.Context, k datastore.Key) error      { return g.inner.Delete(c, k) }
func (g *gateDS) Has(c context.Context, k datastore.Key) (bool, error) { return g.inner.Has(c, k) }
func (g *gateDS) GetSize(c context.Context, k datastore.Key) (int, error) {
	return g.inner.GetSize(c, k)
}
func (g *gateDS) Query(c context.Context, q query.Query) (query.Results, error) {
	return g.inner.Query(c, q)
}
func (g *gateDS) Sync(c context.Context, k datastore.Key) error { return g.inner.Sync(c, k) }
func (g *gateDS) Close() error                                  { return nil }

// ---------------------------------------------------------------- one recorded read

type cread struct {
	g           int
	seq         int64
	kind        string
	lo, hi, wit int64
	i, e        uint64
	id          string
	inst        int64
	ids         []string
	insts       []int64
	pt          atable
	err         string
}

func (c *cread) event() ev {
	ids, insts := c.ids, c.insts
	if ids == nil {
		ids = []string{}
	}
	if insts == nil {
		insts = []int64{}
	}
	return ev{"ev": "CRead", "g": c.g, "seq": c.seq, "kind": c.kind, "lo": c.lo, "hi": c.hi, "wit": c.wit, "i": c.i, "e": c.e,
		"id": c.id, "inst": c.inst, "ids": ids, "insts": insts, "pt": nz(c.pt), "err": c.err}
}

// key identifies the content of a read (everything but seq): identical reads are recorded once
func (c *cread) key() string {
	var b strings.Builder
	fmt.Fprintf(&b, "%s|%d|%d|%d|%d|%d|%s|%d|%s|", c.kind, c.lo, c.hi, c.wit, c.i, c.e, c.id, c.inst, c.err)
	b.WriteString(strings.Join(c.ids, ","))
	for _, x := range c.insts {
		b.WriteString(strconv.FormatInt(x, 10))
		b.WriteByte(',')
	}
	for _, e := range c.pt {
		fmt.Fprintf(&b, "/%d.%d.%d", e[0], e[1], e[2])
	}
	return b.String()
}

// ---------------------------------------------------------------- one episode

type concCfg struct {
	mode    string // free | handoff | gated
	procs   int
	writers int
	readers int
	puts    int
	F       uint64
	first   uint64
	quiet   int // after every quiet-th Put no Put is in flight for a moment (0 = never)
}

type putRes struct {
	done    bool
	err     string
	w       int
	us      int64
	started time.Time
}

type episode struct {
	cfg       concCfg
	cs        *certstore.Store
	first     uint64
	certs     []*certs.FinalityCertificate // 1-based position
	specs     []certSpec
	idOf      map[*certs.FinalityCertificate]string
	started   atomic.Int64 // max position whose Put call has been issued
	completed atomic.Int64 // max position whose Put call has returned nil
	inPut     atomic.Int64 // max position whose Put reached its first datastore write (inside the critical section)
	dsReads   atomic.Int64 // reads completed by the lock-free readers
	allReads  atomic.Int64 // reads completed by all readers
	quiets    atomic.Int64 // quiet windows (no Put in flight) the writers left
	getCalls  atomic.Int64
	stop      atomic.Bool
	failed    atomic.Bool
	res       []putRes
	pauses    [5]atomic.Int64 // cert, power, latest(before), latest(after), reader get
	salt      uint64
}

func amax(a *atomic.Int64, v int64) {
	for {
		c := a.Load()
		if c >= v || a.CompareAndSwap(c, v) {
			return
		}
	}
}

func (ep *episode) pos(inst uint64) int64 { return int64(inst) - int64(ep.first) + 1 }

func spinFor(d time.Duration) {
	t0 := time.Now()
	for time.Since(t0) < d {
	}
}

// hold the caller until cond() or the cap expired
func holdUntil(cond func() bool, limit time.Duration) {
	t0 := time.Now()
	for n := 0; !cond() && time.Since(t0) < limit; n++ {
		if n < 50 {
			runtime.Gosched()
		} else {
			time.Sleep(20 * time.Microsecond)
		}
	}
}

func mix(x uint64) uint64 { // splitmix64
	x += 0x9e3779b97f4a7c15
	x = (x ^ (x >> 30)) * 0xbf58476d1ce4e5b9
	x = (x ^ (x >> 27)) * 0x94d049bb133111eb
	return x ^ (x >> 31)
}

func (ep *episode) gate(raw datastore.Datastore) *gateDS {
	g := &gateDS{inner: raw}
	nread := int64(ep.cfg.readers)
	pause := func(slot int) {
		ep.pauses[slot].Add(1)
		n0 := ep.dsReads.Load()
		holdUntil(func() bool { return ep.dsReads.Load() >= n0+2*nread }, 3*time.Millisecond)
	}
	g.beforePut = func(kind string, idx int64) {
		if ep.cs == nil { // the writes of CreateStore
			return
		}
		p := ep.inPut.Load()
		if kind == "cert" {
			p = ep.pos(uint64(idx))
			amax(&ep.inPut, p)
		}
		switch ep.cfg.mode {
		case "handoff":
			if kind == "cert" && p < int64(ep.cfg.puts) && ep.cfg.writers > 1 {
				// let the next writer issue its Put and queue on the store's lock, the readers behind it
				holdUntil(func() bool { return ep.started.Load() > p }, 2*time.Millisecond)
				spinFor(time.Duration(10+mix(ep.salt+uint64(p))%60) * time.Microsecond)
			}
		case "gated":
			switch kind {
			case "cert":
				pause(0)
			case "power":
				pause(1)
			case "latest":
				pause(2)
			}
		}
	}
	g.afterPut = func(kind string, idx int64) {
		if ep.cs != nil && ep.cfg.mode == "gated" && kind == "latest" {
			pause(3) // pointer durable, memory not yet swapped
		}
	}
	g.beforeGet = func(kind string, idx int64) {
		if ep.cs == nil || ep.cfg.mode != "gated" || ep.stop.Load() {
			return
		}
		n := ep.getCalls.Add(1)
		if mix(ep.salt^uint64(n))%16 != 0 {
			return
		}
		// hold this datastore read until one or two more Puts have returned
		ep.pauses[4].Add(1)
		c0 := ep.completed.Load()
		want := c0 + 1 + int64(mix(uint64(n))%2)
		holdUntil(func() bool { return ep.completed.Load() >= want || ep.stop.Load() }, 400*time.Microsecond)
	}
	return g
}

// ---------------------------------------------------------------- readers

type creader struct {
	ep   *episode
	g    int
	rr   *rand.Rand
	seq  int64
	wit  int64
	out  []cread
	seen map[string]struct{}
	ds   bool // lock-free role: Get / GetRange only
}

func (cr *creader) idOfCert(c *certs.FinalityCertificate) string {
	if id, ok := cr.ep.idOf[c]; ok {
		return id
	}
	return certID(c)
}

// keep: recorded are all reads that overlap a Put (lo < hi) and a sample of the others; identical reads once
func (cr *creader) add(c cread) {
	if !(c.hi > c.lo || cr.seq%24 == 0 || c.kind[0] == 'S') {
		return
	}
	k := c.key()
	if _, dup := cr.seen[k]; dup {
		return
	}
	cr.seen[k] = struct{}{}
	c.g, c.seq = cr.g, cr.seq
	cr.out = append(cr.out, c)
}

func (cr *creader) witness(inst uint64) {
	if p := cr.ep.pos(inst); p > cr.wit {
		cr.wit = p
	}
}

func (cr *creader) latest() *certs.FinalityCertificate {
	ep := cr.ep
	cr.seq++
	wit, lo := cr.wit, ep.completed.Load()
	l := ep.cs.Latest()
	hi := ep.started.Load()
	c := cread{kind: "Latest", lo: lo, hi: hi, wit: wit, inst: -1}
	if l != nil {
		c.inst = int64(l.GPBFTInstance)
		if hi > lo || cr.seq%24 == 0 {
			c.id = cr.idOfCert(l)
		}
		cr.witness(l.GPBFTInstance)
	}
	cr.add(c)
	return l
}

func (cr *creader) getPT(i uint64) {
	ep := cr.ep
	cr.seq++
	wit, lo := cr.wit, ep.completed.Load()
	pt, err := ep.cs.GetPowerTable(ctx, i)
	hi := ep.started.Load()
	c := cread{kind: "GetPT", lo: lo, hi: hi, wit: wit, i: i, inst: -1, err: errClass(err)}
	if err == nil {
		c.pt = absTable(pt)
	}
	cr.add(c)
}

func (cr *creader) get(i uint64) {
	ep := cr.ep
	cr.seq++
	wit, lo := cr.wit, ep.completed.Load()
	x, err := ep.cs.Get(ctx, i)
	hi := ep.started.Load()
	c := cread{kind: "Get", lo: lo, hi: hi, wit: wit, i: i, inst: -1, err: errClass(err)}
	if x != nil && (hi > lo || cr.seq%24 == 0) {
		c.id, c.inst = certID(x), int64(x.GPBFTInstance)
	}
	cr.add(c)
}

func (cr *creader) getRange(s, e uint64) {
	ep := cr.ep
	cr.seq++
	wit, lo := cr.wit, ep.completed.Load()
	xs, err := ep.cs.GetRange(ctx, s, e)
	hi := ep.started.Load()
	c := cread{kind: "GetRange", lo: lo, hi: hi, wit: wit, i: s, e: e, inst: -1, err: errClass(err)}
	if hi > lo || cr.seq%24 == 0 {
		for j := range xs {
			c.ids = append(c.ids, certID(&xs[j]))
			c.insts = append(c.insts, int64(xs[j].GPBFTInstance))
		}
		cr.add(c)
	}
}

// subscribe, look at the initial content, wait for the store to move on, look again, unsubscribe
func (cr *creader) subChurn() {
	ep := cr.ep
	cr.seq++
	wit, lo := cr.wit, ep.completed.Load()
	ch, closer := ep.cs.Subscribe()
	var x *certs.FinalityCertificate
	select {
	case x = <-ch:
	default:
	}
	hi := ep.started.Load()
	c := cread{kind: "SubInit", lo: lo, hi: hi, wit: wit, inst: -1}
	got := int64(0)
	if x != nil {
		c.id, c.inst = cr.idOfCert(x), int64(x.GPBFTInstance)
		cr.witness(x.GPBFTInstance)
		got = ep.pos(x.GPBFTInstance)
	}
	cr.add(c)
	// look again at a moment when every Put that was possibly applied when the subscription started has returned,
	// preferably with no Put in flight: whatever the subscription missed must be waiting then
	holdUntil(func() bool {
		c := ep.completed.Load()
		return (c >= hi && ep.started.Load() == c) || ep.stop.Load()
	}, 400*time.Microsecond)
	cr.seq++
	lo2 := ep.completed.Load()
	var y *certs.FinalityCertificate
	select {
	case y = <-ch:
	default:
	}
	hi2 := ep.started.Load()
	c2 := cread{kind: "SubPoll", lo: lo2, hi: hi2, wit: got, inst: -1, err: "empty"}
	if y != nil {
		c2.id, c2.inst, c2.err = cr.idOfCert(y), int64(y.GPBFTInstance), ""
		cr.witness(y.GPBFTInstance)
	}
	cr.add(c2)
	closer()
}

func (cr *creader) run(wg *sync.WaitGroup) {
	defer wg.Done()
	ep := cr.ep
	first := ep.first
	near := func(base int64, spread int) uint64 { // an instance around position `base`
		v := int64(first) + base - int64(spread) + int64(cr.rr.Intn(2*spread+1))
		if v < 0 {
			v = 0
		}
		return uint64(v)
	}
	for !ep.stop.Load() {
		x := cr.rr.Intn(100)
		if cr.ds {
			switch {
			case x < 40:
				cr.get(near(ep.started.Load(), 1))
			case x < 85:
				s := near(ep.started.Load()-2, 2)
				cr.getRange(s, s+uint64([]int{0, 2, 5}[cr.rr.Intn(3)]))
			default:
				cr.get(near(ep.started.Load()/2, int(ep.started.Load()/2)+1))
			}
			spinFor(3 * time.Microsecond) // the lock-free readers need not saturate the datastore
			ep.dsReads.Add(1)
			ep.allReads.Add(1)
			continue
		}
		ep.allReads.Add(1)
		switch {
		case x < 40: // what a participant does: the committee of the next instance
			next := first
			if l := cr.latest(); l != nil {
				next = l.GPBFTInstance + 1
			}
			cr.getPT(next)
		case x < 55:
			cr.getPT(near(ep.completed.Load()+1, 2))
		case x < 63:
			cr.getPT(near(ep.started.Load()/2, int(ep.started.Load()/2)+2))
		case x < 70:
			cr.latest()
		case x < 80:
			cr.subChurn()
		case x < 88:
			if l := cr.latest(); l != nil {
				cr.get(l.GPBFTInstance)
			}
		case x < 94:
			if l := cr.latest(); l != nil {
				s := l.GPBFTInstance - uint64(cr.rr.Intn(int(ep.pos(l.GPBFTInstance))))
				cr.getRange(s, l.GPBFTInstance)
			}
		default:
			s := near(ep.started.Load()-2, 3)
			cr.getRange(s, s+uint64(cr.rr.Intn(6)))
		}
	}
}

// a long-lived subscriber: receives, and right after each receive asks the store about what it was told
func (cr *creader) subscriber(wg *sync.WaitGroup, final *cread) {
	defer wg.Done()
	ep := cr.ep
	ch, closer := ep.cs.Subscribe()
	defer closer()
	prev, last := int64(0), ""
	recv := func(block bool) bool {
		cr.seq++
		lo := ep.completed.Load()
		var x *certs.FinalityCertificate
		// first look without a timer: "empty" is then a fact about one moment inside [invocation, response]
		// (a select with a ready channel AND an expired timer picks at random)
		select {
		case x = <-ch:
		default:
			if block {
				select {
				case x = <-ch:
				case <-time.After(2 * time.Millisecond):
				}
			}
		}
		hi := ep.started.Load()
		if x == nil {
			cr.add(cread{kind: "SubPoll", lo: lo, hi: hi, wit: prev, inst: -1, err: "empty"})
			return false
		}
		kind := "SubRecv"
		if !block {
			kind = "SubPoll"
		}
		cr.add(cread{kind: kind, lo: lo, hi: hi, wit: prev, inst: int64(x.GPBFTInstance), id: cr.idOfCert(x)})
		prev, last = ep.pos(x.GPBFTInstance), cr.idOfCert(x)
		cr.witness(x.GPBFTInstance)
		// what was announced is stored, is (at least) the latest, and the committee of the next instance is known
		switch cr.rr.Intn(4) {
		case 0:
			cr.get(x.GPBFTInstance)
		case 1:
			cr.latest()
		case 2:
			cr.getPT(x.GPBFTInstance + 1)
		default:
			s := x.GPBFTInstance - uint64(cr.rr.Intn(int(prev)))
			cr.getRange(s, x.GPBFTInstance)
		}
		return true
	}
	for !ep.stop.Load() {
		recv(true)
	}
	// the writers are done: whatever is still waiting in the channel is the last thing this subscriber learns
	for recv(false) {
	}
	n := ep.completed.Load()
	*final = cread{g: cr.g, seq: cr.seq + 1, kind: "SubFinal", lo: n, hi: ep.started.Load(), wit: prev, inst: -1, id: last}
}

// ---------------------------------------------------------------- writers

func (ep *episode) writer(wi int, wg *sync.WaitGroup) {
	defer wg.Done()
	W := ep.cfg.writers
	for p := wi + 1; p <= ep.cfg.puts; p += W {
		// issue Put(p) once its predecessor is inside its critical section (or done)
		for ep.inPut.Load() < int64(p-1) && ep.completed.Load() < int64(p-1) {
			if ep.stop.Load() || ep.failed.Load() {
				return
			}
			runtime.Gosched()
		}
		if ep.failed.Load() {
			return
		}
		if q := ep.cfg.quiet; q > 0 && (p-1)%q == 0 && p > 1 {
			// a quiet window: every issued Put has returned, the readers run against a store at rest
			holdUntil(func() bool { return ep.completed.Load() >= int64(p-1) || ep.stop.Load() }, 5*time.Second)
			ep.quiets.Add(1)
			n0 := ep.allReads.Load()
			holdUntil(func() bool { return ep.allReads.Load() >= n0+3*int64(ep.cfg.readers) }, 300*time.Microsecond)
		}
		ep.res[p].w, ep.res[p].started = wi, time.Now()
		amax(&ep.started, int64(p)) // from now on Put(p) is possibly applied
		err := ep.cs.Put(ctx, ep.certs[p])
		if err == nil {
			amax(&ep.completed, int64(p)) // Put(p) returned: certainly applied
		} else {
			ep.failed.Store(true)
		}
		ep.res[p].us, ep.res[p].err, ep.res[p].done = time.Since(ep.res[p].started).Microseconds(), errClass(err), true
	}
}

func runEpisode(t *testing.T, r *rec, seed int64, n int, cfg concCfg) (reads int, blocked bool) {
	rng := rand.New(rand.NewSource(seed*7919 + int64(n)))
	old := runtime.GOMAXPROCS(cfg.procs)
	defer runtime.GOMAXPROCS(old)
	g := &gen{t: t, r: r, rng: rng, F: cfg.F}
	ep := &episode{cfg: cfg, first: cfg.first, idOf: map[*certs.FinalityCertificate]string{}, salt: mix(uint64(seed)*131 + uint64(n))}
	w := &world{g: g, raw: ep.gate(newMap())}
	r.emit(ev{"ev": "Reset"})
	// the chain: the table changes on every certificate and does not return to one of the 3 previous tables
	tabs := []atable{g.randTable(true)}
	for p := 1; p <= cfg.puts; p++ {
		for {
			nt := g.mutate(tabs[p-1])
			fresh := true
			for q := p - 1; q >= 0 && q >= p-4; q-- {
				if fmt.Sprint(tabs[q]) == fmt.Sprint(nt) {
					fresh = false
				}
			}
			if fresh {
				tabs = append(tabs, nt)
				break
			}
		}
	}
	ep.certs, ep.specs = make([]*certs.FinalityCertificate, cfg.puts+1), make([]certSpec, cfg.puts+1)
	for p := 1; p <= cfg.puts; p++ {
		s := certSpec{Inst: cfg.first + uint64(p-1), Chain: "ok", Delta: diff(tabs[p-1], tabs[p]), Supp: tabs[p]}
		ep.specs[p], ep.certs[p] = s, buildCert(s)
		ep.idOf[ep.certs[p]] = certID(ep.certs[p])
	}
	ep.res = make([]putRes, cfg.puts+1)
	w.open("Open", variant{"create", cfg.first, tabs[0]})
	if w.cs == nil {
		t.Fatalf("episode %d: create failed", n)
	}
	ep.cs = w.cs

	// a subscriber that never reads: its full channel must not hold up any writer
	lazy, lazyClose := ep.cs.Subscribe()
	defer lazyClose()

	var rwg, wwg sync.WaitGroup
	readers := make([]*creader, 0, cfg.readers+2)
	mk := func(ds bool) *creader {
		cr := &creader{ep: ep, g: len(readers), rr: rand.New(rand.NewSource(seed*1000003 + int64(n)*101 + int64(len(readers)))),
			seen: map[string]struct{}{}, ds: ds}
		readers = append(readers, cr)
		return cr
	}
	finals := make([]cread, 2)
	for si := range finals {
		rwg.Add(1)
		go mk(false).subscriber(&rwg, &finals[si])
	}
	for i := 0; i < cfg.readers; i++ {
		rwg.Add(1)
		go mk(i%3 == 2).run(&rwg)
	}
	for wi := 0; wi < cfg.writers; wi++ {
		wwg.Add(1)
		go ep.writer(wi, &wwg)
	}
	// wait for the writers; a Put that does not return although nobody holds it up is reported as blocked
	stall := time.Duration(envInt("VERIF_STALL_S", 40)) * time.Second
	wdone := make(chan struct{})
	go func() { wwg.Wait(); close(wdone) }()
	lastC, lastT := int64(-1), time.Now()
wait:
	for {
		select {
		case <-wdone:
			break wait
		case <-time.After(50 * time.Millisecond):
			if c := ep.completed.Load(); c != lastC {
				lastC, lastT = c, time.Now()
			} else if time.Since(lastT) > stall {
				blocked = true
				break wait
			}
		}
	}
	ep.stop.Store(true)
	emitPuts := func() {
		for p := 1; p <= cfg.puts; p++ {
			pr := ep.res[p]
			if !pr.done && !(blocked && !pr.started.IsZero()) {
				continue
			}
			e := certEv("CPut", ep.specs[p], ep.certs[p])
			e["err"], e["blocked"], e["w"], e["us"], e["lazy"], e["mode"] = pr.err, false, pr.w, pr.us, 1, cfg.mode
			if !pr.done {
				e["err"], e["blocked"], e["us"] = "other", true, time.Since(pr.started).Microseconds()
			}
			r.emit(e)
		}
	}
	if blocked { // the store is wedged: the readers may never return, only the writer's events are recorded
		emitPuts()
		return 0, true
	}
	rwg.Wait()
	emitPuts()
	for _, cr := range readers {
		for i := range cr.out {
			r.emit(cr.out[i].event())
		}
		reads += len(cr.out)
	}
	for si := range finals {
		r.emit(finals[si].event())
	}
	// the subscriber that never read finds the latest certificate waiting
	n0 := ep.completed.Load()
	fl := cread{g: len(readers), seq: 1, kind: "SubFinal", lo: n0, hi: ep.started.Load(), inst: -1}
	select {
	case x := <-lazy:
		if x != nil {
			fl.id, fl.inst = certID(x), int64(x.GPBFTInstance)
		}
	default:
	}
	r.emit(fl.event())
	t.Logf("episode %d mode=%s procs=%d writers=%d readers=%d puts=%d/%d F=%d first=%d quiet=%d reads=%d pauses=%d/%d/%d/%d/%d",
		n, cfg.mode, cfg.procs, cfg.writers, cfg.readers, ep.completed.Load(), cfg.puts, cfg.F, cfg.first, ep.quiets.Load(), reads,
		ep.pauses[0].Load(), ep.pauses[1].Load(), ep.pauses[2].Load(), ep.pauses[3].Load(), ep.pauses[4].Load())
	return reads, false
}

func TestCertStoreLinearizable(t *testing.T) {
	r, done := openRec(t)
	defer done()
	seed := int64(envInt("VERIF_SEED", 1))
	rng := rand.New(rand.NewSource(seed))
	puts, nread, rounds := envInt("VERIF_PUTS", 80), envInt("VERIF_READERS", 8), envInt("VERIF_ROUNDS", 1)
	maxp := runtime.NumCPU()
	if maxp < 4 {
		maxp = 4
	}
	plan := []concCfg{
		{mode: "handoff", procs: 4, writers: 2},
		{mode: "free", procs: 2, writers: 1},
		{mode: "gated", procs: 4, writers: 1},
		{mode: "handoff", procs: maxp, writers: 3},
		{mode: "free", procs: maxp, writers: 1},
		{mode: "gated", procs: maxp, writers: 2},
		{mode: "handoff", procs: 2, writers: 2},
		{mode: "free", procs: 4, writers: 2},
		{mode: "free", procs: 1, writers: 1},
	}
	total, n := 0, 0
	for round := 0; round < rounds; round++ {
		for _, cfg := range plan {
			cfg.puts, cfg.readers = puts+rng.Intn(puts/4+1), nread
			if m := 2*cfg.procs + 2; cfg.readers > m { // few processors: fewer goroutines compete with the writers
				cfg.readers = m
			}
			if cfg.mode == "gated" {
				cfg.puts = cfg.puts / 2
			}
			cfg.F = uint64(2 + rng.Intn(4))
			cfg.quiet = []int{0, 3, 4, 6}[rng.Intn(4)]
			if cfg.mode == "gated" {
				cfg.quiet = 1 + rng.Intn(3)
			}
			cfg.first = []uint64{0, 1, 3, 7, cfg.F, 2*cfg.F - 1}[rng.Intn(6)]
			reads, blocked := runEpisode(t, r, seed, n, cfg)
			total += reads
			n++
			if blocked {
				t.Logf("episode %d: a Put did not return", n-1)
				t.Logf("events=%d reads=%d", r.n, total)
				return
			}
		}
	}
	t.Logf("events=%d reads=%d", r.n, total)
}

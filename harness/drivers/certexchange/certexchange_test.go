//go:build verif

// Driver for property C16. It runs the REAL certexchange.Server, certexchange.Client and
// polling.Poller over in-process libp2p hosts (mocknet) on inputs enumerated by TLC
// (spec/exchange/MCCertExchange.tla, MCPoller.tla) and records one NDJSON line per call.
// It contains no oracle: the verdict is TLC's (CertExchangeTrace.tla / PollerTrace.tla).
package zzcertexchange

import (
	"bufio"
	"bytes"
	"context"
	"crypto/sha256"
	"encoding/hex"
	"encoding/json"
	"fmt"
	"io"
	"math"
	"math/rand"
	"os"
	"sort"
	"strconv"
	"strings"
	"sync"
	"sync/atomic"
	"testing"
	"time"

	"github.com/filecoin-project/go-f3/certexchange"
	"github.com/filecoin-project/go-f3/certexchange/polling"
	"github.com/filecoin-project/go-f3/certs"
	"github.com/filecoin-project/go-f3/certstore"
	"github.com/filecoin-project/go-f3/gpbft"
	"github.com/filecoin-project/go-f3/sim"
	"github.com/filecoin-project/go-f3/sim/signing"
	"github.com/ipfs/go-datastore"
	dsq "github.com/ipfs/go-datastore/query"
	ds_sync "github.com/ipfs/go-datastore/sync"
	"github.com/libp2p/go-libp2p/core/host"
	"github.com/libp2p/go-libp2p/core/network"
	mocknetwork "github.com/libp2p/go-libp2p/p2p/net/mock"
)

const nn gpbft.NetworkName = "verif"
const huge = uint64(1) << 30 // every value >= 2^30 is logged as 2^30 (TLC integers are 32 bit)

func clip(v uint64) uint64 {
	if v >= huge {
		return huge
	}
	return v
}

func h(b []byte) string {
	s := sha256.Sum256(b)
	return hex.EncodeToString(s[:8])
}

// ---------------------------------------------------------------------------- NDJSON
type recorder struct {
	mu sync.Mutex // events are also emitted by datastore hooks / the concurrent writer (conc_test.go)
	f  *os.File
	w  *bufio.Writer
	n  int
}

func newRecorder(t *testing.T, env string) *recorder {
	p := os.Getenv(env)
	if p == "" {
		t.Skip(env + " not set")
	}
	f, err := os.Create(p)
	if err != nil {
		t.Fatal(err)
	}
	return &recorder{f: f, w: bufio.NewWriterSize(f, 1<<20)}
}
func (r *recorder) emit(m map[string]any) {
	b, err := json.Marshal(m)
	if err != nil {
		panic(err)
	}
	r.mu.Lock()
	defer r.mu.Unlock()
	r.w.Write(b)
	r.w.WriteByte('\n')
	r.n++
}
func (r *recorder) close() { r.w.Flush(); r.f.Close() }

func readLines(t *testing.T, env string, into func([]byte)) {
	p := os.Getenv(env)
	if p == "" {
		t.Fatal(env + " not set")
	}
	f, err := os.Open(p)
	if err != nil {
		t.Fatal(err)
	}
	defer f.Close()
	sc := bufio.NewScanner(f)
	sc.Buffer(make([]byte, 1<<20), 1<<24)
	for sc.Scan() {
		if len(bytes.TrimSpace(sc.Bytes())) > 0 {
			into(append([]byte(nil), sc.Bytes()...))
		}
	}
}

// ---------------------------------------------------------------------------- fixture: one honest chain
type fixture struct {
	backend *signing.FakeBackend
	tables  []gpbft.PowerEntries // tables[i] validates instance i
	certs   []*certs.FinalityCertificate
	encs    [][]byte
	base    *gpbft.TipSet
}

func newFixture(t *testing.T) *fixture {
	f := &fixture{backend: signing.NewFakeBackend()}
	var pt gpbft.PowerEntries
	for i := 0; i < 4; i++ {
		k, _ := f.backend.GenerateKey()
		pt = append(pt, gpbft.PowerEntry{ID: gpbft.ActorID(i + 1), Power: gpbft.NewStoragePower(int64(1000 - 100*i)), PubKey: k})
	}
	sort.Sort(pt)
	f.tables = append(f.tables, pt)
	c, err := certs.MakePowerTableCID(pt)
	if err != nil {
		t.Fatal(err)
	}
	f.base = &gpbft.TipSet{Epoch: 0, Key: []byte("genesis"), PowerTable: c}
	return f
}

func mustEnc(c *certs.FinalityCertificate) []byte {
	var buf bytes.Buffer
	if err := c.MarshalCBOR(&buf); err != nil {
		panic(err)
	}
	return buf.Bytes()
}

// cert returns the honest certificate of instance i (the power table changes at every instance).
func (f *fixture) cert(i uint64) *certs.FinalityCertificate {
	for uint64(len(f.certs)) <= i {
		k := uint64(len(f.certs))
		cur := f.tables[k]
		diff := certs.PowerTableDiff{{ParticipantID: gpbft.ActorID(k%4 + 1), PowerDelta: gpbft.NewStoragePower(1)}}
		nxt, err := certs.ApplyPowerTableDiffs(cur, diff)
		if err != nil {
			panic(err)
		}
		ncid, err := certs.MakePowerTableCID(nxt)
		if err != nil {
			panic(err)
		}
		chain, err := gpbft.NewChain(f.base, &gpbft.TipSet{Epoch: int64(k + 1), Key: []byte(fmt.Sprintf("ts-%d", k)), PowerTable: ncid})
		if err != nil {
			panic(err)
		}
		j, err := sim.MakeJustification(f.backend, nn, chain, k, cur, nxt)
		if err != nil {
			panic(err)
		}
		c, err := certs.NewFinalityCertificate(certs.MakePowerTableDiff(cur, nxt), j)
		if err != nil {
			panic(err)
		}
		f.certs = append(f.certs, c)
		f.encs = append(f.encs, mustEnc(c))
		f.tables = append(f.tables, nxt)
		f.base = chain.Head()
	}
	return f.certs[i]
}
func (f *fixture) enc(i uint64) []byte { f.cert(i); return f.encs[i] }
func (f *fixture) table(i uint64) gpbft.PowerEntries {
	if i > 0 {
		f.cert(i - 1)
	}
	return f.tables[i]
}

func tableHash(pt gpbft.PowerEntries) string {
	if len(pt) == 0 {
		return ""
	}
	var buf bytes.Buffer
	if err := pt.MarshalCBOR(&buf); err != nil {
		panic(err)
	}
	return h(buf.Bytes())
}

func cloneCert(c *certs.FinalityCertificate) *certs.FinalityCertificate {
	var out certs.FinalityCertificate
	if err := out.UnmarshalCBOR(bytes.NewReader(mustEnc(c))); err != nil {
		panic(err)
	}
	return &out
}

type item struct {
	Kind  string `json:"kind"`
	Inst  uint64 `json:"inst"`
	Enc   string `json:"enc"`
	bytes []byte
}

// items concretises responder behaviours relative to the requested instance
// (same rule as ItemsRec in spec/exchange/Poller.tla).
func (f *fixture) items(first uint64, kinds []string) []item {
	exp := first
	var out []item
	for _, k := range kinds {
		var it item
		it.Kind = k
		switch k {
		case "V":
			it.Inst, it.bytes = exp, f.enc(exp)
			exp++
		case "S":
			it.Inst, it.bytes = first-1, f.enc(first-1)
		case "D":
			it.Inst, it.bytes = exp-1, f.enc(exp-1)
		case "G":
			it.Inst, it.bytes = exp+1, f.enc(exp+1)
		case "F":
			c := cloneCert(f.cert(exp))
			c.Signature[0] ^= 0xff
			it.Inst, it.bytes = exp, mustEnc(c)
		case "W":
			c := cloneCert(f.cert(exp))
			c.PowerTableDelta[0].PowerDelta = gpbft.NewStoragePower(2)
			it.Inst, it.bytes = exp, mustEnc(c)
		case "O":
			c := cloneCert(f.cert(exp))
			c.Signature = make([]byte, 1024*1024+4096)
			it.Inst, it.bytes = exp, mustEnc(c)
		case "T":
			b := f.enc(exp)
			it.Inst, it.bytes = exp, b[:len(b)/2]
		default:
			panic("kind " + k)
		}
		it.Enc = h(it.bytes)
		out = append(out, it)
	}
	return out
}

// ---------------------------------------------------------------------------- scripted (malicious) responder
type aresp struct {
	Mode  string   `json:"mode"`
	Po    int64    `json:"po"`
	Kinds []string `json:"kinds"`
}
type reqLog struct {
	First uint64 `json:"first"`
	Limit uint64 `json:"limit"`
	Pt    bool   `json:"pt"`
}
type played struct {
	Mode  string `json:"mode"`
	Pend  uint64 `json:"pend"`
	Items []item `json:"items"`
}

// itemSource concretises responder behaviours (fixture: one chain whose table changes at every instance;
// laWorld in conc_test.go: a chain with a chosen pattern of power-table changes).
type itemSource interface {
	items(first uint64, kinds []string) []item
}

type evil struct {
	fx     itemSource
	onReq  func(k int) // called with the number of the request just received (1-based), before responding
	mu     sync.Mutex
	script []aresp
	k      int
	reqs   []reqLog
	played []played
	wg     sync.WaitGroup
}

func (e *evil) install(script []aresp) {
	e.wg.Wait()
	e.mu.Lock()
	e.script, e.k, e.reqs, e.played = script, 0, nil, nil
	e.mu.Unlock()
}
func (e *evil) collect() ([]reqLog, []played) {
	e.wg.Wait()
	e.mu.Lock()
	defer e.mu.Unlock()
	return e.reqs, e.played
}

func (e *evil) handle(s network.Stream) {
	e.wg.Add(1)
	defer e.wg.Done()
	_ = s.SetDeadline(time.Now().Add(20 * time.Second))
	var req certexchange.Request
	if err := req.UnmarshalCBOR(bufio.NewReader(s)); err != nil {
		_ = s.Reset()
		return
	}
	e.mu.Lock()
	e.reqs = append(e.reqs, reqLog{clip(req.FirstInstance), clip(req.Limit), req.IncludePowerTable})
	var ar *aresp
	if e.k < len(e.script) {
		ar = &e.script[e.k]
	}
	e.k++
	if e.onReq != nil {
		e.onReq(e.k)
	}
	if ar == nil || ar.Mode == "reset" {
		e.mu.Unlock()
		_ = s.Reset()
		return
	}
	pend := int64(req.FirstInstance) + ar.Po
	if pend < 0 {
		pend = 0
	}
	its := e.fx.items(req.FirstInstance, ar.Kinds)
	e.played = append(e.played, played{Mode: "ok", Pend: uint64(pend), Items: append([]item{}, its...)})
	e.mu.Unlock()

	bw := bufio.NewWriter(s)
	hdr := certexchange.ResponseHeader{PendingInstance: uint64(pend)}
	if err := hdr.MarshalCBOR(bw); err != nil {
		_ = s.Reset()
		return
	}
	for _, it := range its {
		if _, err := bw.Write(it.bytes); err != nil {
			_ = s.Reset()
			return
		}
		if it.Kind == "T" {
			break // the stream ends in the middle of this certificate
		}
	}
	if err := bw.Flush(); err != nil {
		_ = s.Reset()
		return
	}
	_ = s.Close()
}

// ---------------------------------------------------------------------------- helpers around the real objects
func storedEncodings(ctx context.Context, ds datastore.Datastore, from, to uint64) []string {
	res, err := ds.Query(ctx, dsq.Query{})
	if err != nil {
		panic(err)
	}
	all, err := res.Rest()
	if err != nil {
		panic(err)
	}
	byInst := map[uint64]string{}
	for _, e := range all {
		i := strings.LastIndex(e.Key, "/certs/")
		if i < 0 {
			continue
		}
		n, err := strconv.ParseUint(e.Key[i+len("/certs/"):], 16, 64)
		if err != nil {
			continue
		}
		byInst[n] = h(e.Value)
	}
	out := []string{}
	for i := from; i < to; i++ {
		v, ok := byInst[i]
		if !ok {
			v = "missing"
		}
		out = append(out, v)
	}
	return out
}

func newStore(t *testing.T, ctx context.Context, fx *fixture, first, n uint64) (*certstore.Store, datastore.Datastore) {
	ds := ds_sync.MutexWrap(datastore.NewMapDatastore())
	cs, err := certstore.CreateStore(ctx, ds, first, fx.table(first))
	if err != nil {
		t.Fatal(err)
	}
	for i := first; i < first+n; i++ {
		if err := cs.Put(ctx, fx.cert(i)); err != nil {
			t.Fatal(err)
		}
	}
	return cs, ds
}

func pendingOf(cs *certstore.Store) uint64 {
	if l := cs.Latest(); l != nil {
		return l.GPBFTInstance + 1
	}
	return 0
}

type serveReq struct {
	F     uint64 `json:"F"`
	N     uint64 `json:"n"`
	First uint64 `json:"first"`
	Limit uint64 `json:"limit"`
	Pt    bool   `json:"pt"`
}

func concreteHuge(rng *rand.Rand, v uint64) uint64 {
	if v < huge {
		return v
	}
	return []uint64{1 << 31, 1 << 32, 1 << 63, math.MaxUint64 - 1, math.MaxUint64, math.MaxUint64 - 255, huge}[rng.Intn(7)]
}

func viaClient(ctx context.Context, cl *certexchange.Client, srv host.Host, req certexchange.Request) map[string]any {
	ctx, cancel := context.WithTimeout(ctx, 20*time.Second)
	defer cancel()
	ev := map[string]any{"ok": false, "pending": 0, "table": "", "certs": []string{}, "insts": []uint64{}, "trail": 0}
	rh, ch, err := cl.Request(ctx, srv.ID(), &req)
	if err != nil {
		return ev
	}
	encs, insts := []string{}, []uint64{}
	for c := range ch {
		encs = append(encs, h(mustEnc(c)))
		insts = append(insts, clip(c.GPBFTInstance))
	}
	ev["ok"], ev["pending"], ev["table"], ev["certs"], ev["insts"] = true, clip(rh.PendingInstance), tableHash(rh.PowerTable), encs, insts
	return ev
}

// viaRaw speaks the wire protocol directly: everything the server writes is read and cut into
// certificates, so a certificate written beyond the request limit is seen.
func viaRaw(ctx context.Context, from host.Host, srv host.Host, req certexchange.Request) map[string]any {
	ev := map[string]any{"ok": false, "pending": 0, "table": "", "certs": []string{}, "insts": []uint64{}, "trail": 0}
	ctx, cancel := context.WithTimeout(ctx, 20*time.Second)
	defer cancel()
	s, err := from.NewStream(ctx, srv.ID(), certexchange.FetchProtocolName(nn))
	if err != nil {
		return ev
	}
	defer s.Reset()
	_ = s.SetDeadline(time.Now().Add(20 * time.Second))
	bw := bufio.NewWriter(s)
	if err := req.MarshalCBOR(bw); err != nil {
		return ev
	}
	if err := bw.Flush(); err != nil {
		return ev
	}
	if err := s.CloseWrite(); err != nil {
		return ev
	}
	all, err := io.ReadAll(s)
	if err != nil {
		return ev // stream reset by the server: no response
	}
	rd := bytes.NewReader(all)
	var hdr certexchange.ResponseHeader
	if err := hdr.UnmarshalCBOR(rd); err != nil {
		return ev
	}
	encs, insts := []string{}, []uint64{}
	for rd.Len() > 0 {
		before := len(all) - rd.Len()
		var c certs.FinalityCertificate
		if err := c.UnmarshalCBOR(rd); err != nil {
			ev["trail"] = len(all) - before
			break
		}
		after := len(all) - rd.Len()
		encs = append(encs, h(all[before:after]))
		insts = append(insts, clip(c.GPBFTInstance))
	}
	ev["ok"], ev["pending"], ev["table"], ev["certs"], ev["insts"] = true, clip(hdr.PendingInstance), tableHash(hdr.PowerTable), encs, insts
	return ev
}

func seed() int64 {
	s, _ := strconv.ParseInt(os.Getenv("VERIF_SEED"), 10, 64)
	if s == 0 {
		s = 1
	}
	return s
}

// raceDS lets a certificate be finalized between the moment the server computed the pending instance it
// advertises and the moment it reads the range from the datastore.
type raceDS struct {
	datastore.Datastore
	armed  atomic.Bool
	onRead func()
}

func (d *raceDS) Get(ctx context.Context, key datastore.Key) ([]byte, error) {
	if strings.Contains(key.String(), "/certs/") && d.armed.CompareAndSwap(true, false) {
		d.onRead()
	}
	return d.Datastore.Get(ctx, key)
}

// ---------------------------------------------------------------------------- TestServe
func TestServe(t *testing.T) {
	rec := newRecorder(t, "VERIF_OUT")
	defer rec.close()
	ctx := context.Background()
	rng := rand.New(rand.NewSource(seed()))
	fx := newFixture(t)
	mn := mocknetwork.New()
	srvHost, _ := mn.GenPeer()
	cliHost, _ := mn.GenPeer()
	evilHost, _ := mn.GenPeer()
	if err := mn.LinkAll(); err != nil {
		t.Fatal(err)
	}
	if err := mn.ConnectAllButSelf(); err != nil {
		t.Fatal(err)
	}
	client := &certexchange.Client{Host: cliHost, NetworkName: nn}

	var reqs []serveReq
	readLines(t, "VERIF_REQS", func(b []byte) {
		var r serveReq
		if err := json.Unmarshal(b, &r); err != nil {
			t.Fatal(err)
		}
		reqs = append(reqs, r)
	})
	// the server cap (256) needs a long store; same corner values around the cap
	for _, first := range []uint64{0, 3, 5, 259, 260, 261, huge} {
		for _, limit := range []uint64{0, 1, 255, 256, 257, huge} {
			reqs = append(reqs, serveReq{F: 0, N: 260, First: first, Limit: limit, Pt: rng.Intn(2) == 0})
		}
	}
	type key struct{ F, N uint64 }
	var order []key
	groups := map[key][]serveReq{}
	for _, r := range reqs {
		k := key{r.F, r.N}
		if _, ok := groups[k]; !ok {
			order = append(order, k)
		}
		groups[k] = append(groups[k], r)
	}
	for _, k := range order {
		cs, ds := newStore(t, ctx, fx, k.F, k.N)
		tabs := []string{}
		for i := k.F; i <= k.F+k.N; i++ {
			tabs = append(tabs, tableHash(fx.table(i)))
		}
		rec.emit(map[string]any{"ev": "Store", "first": k.F, "certs": storedEncodings(ctx, ds, k.F, k.F+k.N), "tables": tabs, "pending": pendingOf(cs)})
		srv := &certexchange.Server{NetworkName: nn, Host: srvHost, Store: cs}
		if err := srv.Start(ctx); err != nil {
			t.Fatal(err)
		}
		for _, r := range groups[k] {
			req := certexchange.Request{FirstInstance: concreteHuge(rng, r.First), Limit: concreteHuge(rng, r.Limit), IncludePowerTable: r.Pt}
			for _, via := range []string{"client", "raw"} {
				var ev map[string]any
				if via == "client" {
					ev = viaClient(ctx, client, srvHost, req)
				} else {
					ev = viaRaw(ctx, cliHost, srvHost, req)
				}
				ev["ev"], ev["via"], ev["first"], ev["limit"], ev["pt"] = "Serve", via, clip(req.FirstInstance), clip(req.Limit), req.IncludePowerTable
				rec.emit(ev)
			}
		}
		if err := srv.Stop(ctx); err != nil {
			t.Fatal(err)
		}
	}

	// a certificate is finalized while a request is being served (after the header was computed)
	{
		rds := &raceDS{Datastore: ds_sync.MutexWrap(datastore.NewMapDatastore())}
		cs, err := certstore.CreateStore(ctx, rds, 0, fx.table(0))
		if err != nil {
			t.Fatal(err)
		}
		for i := uint64(0); i < 4; i++ {
			if err := cs.Put(ctx, fx.cert(i)); err != nil {
				t.Fatal(err)
			}
		}
		rds.onRead = func() {
			if err := cs.Put(ctx, fx.cert(pendingOf(cs))); err != nil {
				panic(err)
			}
		}
		emitStore := func() {
			n := pendingOf(cs)
			tabs := []string{}
			for i := uint64(0); i <= n; i++ {
				tabs = append(tabs, tableHash(fx.table(i)))
			}
			rec.emit(map[string]any{"ev": "Store", "first": 0, "certs": storedEncodings(ctx, rds.Datastore, 0, n), "tables": tabs, "pending": n})
		}
		srv := &certexchange.Server{NetworkName: nn, Host: srvHost, Store: cs}
		if err := srv.Start(ctx); err != nil {
			t.Fatal(err)
		}
		for _, r := range []certexchange.Request{{FirstInstance: 0, Limit: math.MaxUint64}, {FirstInstance: 2, Limit: 256}, {FirstInstance: 3, Limit: 5, IncludePowerTable: true}} {
			for _, via := range []string{"client", "raw"} {
				emitStore()
				rds.armed.Store(true)
				var ev map[string]any
				if via == "client" {
					ev = viaClient(ctx, client, srvHost, r)
				} else {
					ev = viaRaw(ctx, cliHost, srvHost, r)
				}
				ev["ev"], ev["via"], ev["first"], ev["limit"], ev["pt"] = "Serve", via+"-race", clip(r.FirstInstance), clip(r.Limit), r.IncludePowerTable
				rec.emit(ev)
			}
		}
		_ = srv.Stop(ctx)
	}

	// the real Client against the scripted responder: what does it hand to its caller?
	ev := &evil{fx: fx}
	evilHost.SetStreamHandler(certexchange.FetchProtocolName(nn), ev.handle)
	var scripts [][]aresp
	readLines(t, "VERIF_SCRIPTS", func(b []byte) {
		var s struct {
			Resps []aresp `json:"resps"`
		}
		if err := json.Unmarshal(b, &s); err != nil {
			t.Fatal(err)
		}
		if len(s.Resps) == 1 && s.Resps[0].Mode == "ok" && s.Resps[0].Po == 5 {
			scripts = append(scripts, s.Resps)
		}
	})
	for _, sc := range scripts {
		for _, limit := range []uint64{0, 1, 2, 256, math.MaxUint64} {
			first := uint64(2 + rng.Intn(4))
			ev.install(sc)
			req := certexchange.Request{FirstInstance: first, Limit: limit}
			out := viaClient(ctx, client, evilHost, req)
			_, pl := ev.collect()
			sent := []item{}
			pend := uint64(0)
			if len(pl) > 0 {
				sent, pend = pl[0].Items, pl[0].Pend
			}
			rec.emit(map[string]any{"ev": "ClientScript", "first": first, "limit": clip(limit), "pt": false, "pend": pend, "sent": sent,
				"ok": out["ok"], "pending": out["pending"], "got": out["certs"], "ginsts": out["insts"]})
		}
	}
	t.Logf("events=%d stores=%d serve-requests=%d client-scripts=%d", rec.n, len(order), len(reqs), len(scripts))
}

// ---------------------------------------------------------------------------- TestPoller
func TestPoller(t *testing.T) {
	rec := newRecorder(t, "VERIF_OUT")
	defer rec.close()
	ctx := context.Background()
	rng := rand.New(rand.NewSource(seed()))
	fx := newFixture(t)
	mn := mocknetwork.New()
	pollHost, _ := mn.GenPeer()
	evilHost, _ := mn.GenPeer()
	honestHost, _ := mn.GenPeer()
	if err := mn.LinkAll(); err != nil {
		t.Fatal(err)
	}
	if err := mn.ConnectAllButSelf(); err != nil {
		t.Fatal(err)
	}
	ev := &evil{fx: fx}
	evilHost.SetStreamHandler(certexchange.FetchProtocolName(nn), ev.handle)
	client := &certexchange.Client{Host: pollHost, NetworkName: nn, RequestTimeout: 20 * time.Second}

	var scripts [][]aresp
	readLines(t, "VERIF_SCRIPTS", func(b []byte) {
		var s struct {
			Resps []aresp `json:"resps"`
		}
		if err := json.Unmarshal(b, &s); err != nil {
			t.Fatal(err)
		}
		scripts = append(scripts, s.Resps)
	})
	rng.Shuffle(len(scripts), func(i, j int) { scripts[i], scripts[j] = scripts[j], scripts[i] })

	var (
		poller *polling.Poller
		cs     *certstore.Store
		ds     datastore.Datastore
	)
	reset := func() {
		start := uint64(2 + rng.Intn(3))
		cs, ds = newStore(t, ctx, fx, 0, start)
		var err error
		poller, err = polling.NewPoller(ctx, client, cs, fx.backend)
		if err != nil {
			t.Fatal(err)
		}
		rec.emit(map[string]any{"ev": "Reset", "next": poller.NextInstance})
	}
	statusName := func(s polling.PollStatus) string { return strings.TrimPrefix(s.String(), "Poll") }
	record := func(kind string, extra map[string]any, run func() (*polling.PollResult, error)) {
		next0 := poller.NextInstance
		latest0 := pendingOf(cs)
		res, err := run()
		m := map[string]any{"ev": "Poll", "type": kind, "next0": next0, "latest0": latest0, "next1": poller.NextInstance, "latest1": pendingOf(cs),
			"stored": storedEncodings(ctx, ds, next0, pendingOf(cs)), "interr": err != nil, "status": "none", "recv": 0, "newc": 0}
		if res != nil {
			m["status"], m["recv"], m["newc"] = statusName(res.Status), res.ReceivedCertificates, res.NewCertificates
		}
		for k, v := range extra {
			m[k] = v
		}
		rec.emit(m)
	}
	reset()
	honestPolls := 0
	honest := func(ahead int64) {
		// a real Server whose store is `ahead` instances ahead of (or behind) the poller
		p := int64(poller.NextInstance) + ahead
		if p < 0 {
			p = 0
		}
		hs, _ := newStore(t, ctx, fx, 0, uint64(p))
		srv := &certexchange.Server{NetworkName: nn, Host: honestHost, Store: hs}
		if err := srv.Start(ctx); err != nil {
			t.Fatal(err)
		}
		encs := []string{}
		for i := poller.NextInstance; i < uint64(p); i++ {
			encs = append(encs, h(fx.enc(i)))
		}
		record("honest", map[string]any{"pend": uint64(p), "base": poller.NextInstance, "encs": encs, "resps": []played{}, "reqs": []reqLog{}, "script": []aresp{}}, func() (*polling.PollResult, error) {
			return poller.Poll(ctx, honestHost.ID())
		})
		_ = srv.Stop(ctx)
		honestPolls++
	}
	for i, sc := range scripts {
		if i > 0 && i%1500 == 0 {
			reset()
		}
		if i%400 == 0 {
			honest([]int64{0, 1, 3, -1, 300, 2, 257, -2}[(i/400)%8])
		}
		ev.install(sc)
		var res *polling.PollResult
		var err error
		next0, latest0 := poller.NextInstance, pendingOf(cs)
		res, err = poller.Poll(ctx, evilHost.ID())
		reqs, pl := ev.collect()
		if reqs == nil {
			reqs = []reqLog{}
		}
		if pl == nil {
			pl = []played{}
		}
		// responses beyond the script are resets: make them explicit for the model
		m := map[string]any{"ev": "Poll", "type": "concrete", "next0": next0, "latest0": latest0, "next1": poller.NextInstance, "latest1": pendingOf(cs),
			"stored": storedEncodings(ctx, ds, next0, pendingOf(cs)), "interr": err != nil, "status": "none", "recv": 0, "newc": 0,
			"resps": pl, "reqs": reqs, "pend": 0, "base": 0, "encs": []string{}, "script": sc}
		if res != nil {
			m["status"], m["recv"], m["newc"] = statusName(res.Status), res.ReceivedCertificates, res.NewCertificates
		}
		rec.emit(m)
	}
	for _, a := range []int64{0, 1, 3, -1, 300} {
		honest(a)
	}
	t.Logf("events=%d scripts=%d honest=%d chain=%d", rec.n, len(scripts), honestPolls, len(fx.certs))
}

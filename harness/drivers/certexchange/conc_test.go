//go:build verif

// Driver for property C16, second part: the same real Server / Poller while the certificate store
// ADVANCES between the steps of a call.
//
//	TestServeConc  requests are served while certstore.Put lands (a) at the k-th datastore read of the
//	               request, for every k (deterministic: a wrapper around the public datastore interface
//	               performs the Put inside the read), (b) from a free-running concurrent writer.
//	TestPollerLA   the polling node's own store advances by 1..3 certificates (every pattern of
//	               power-table change / no change) between and during polls of honest and malicious peers,
//	               including a peer that signs with the keys of the RETIRED committee.
//
// No oracle here: every call is recorded and judged by TLC (CertExchangeTrace.tla / PollerTrace.tla).
package zzcertexchange

import (
	"context"
	"encoding/json"
	"fmt"
	"math"
	"math/rand"
	"os"
	"slices"
	"sort"
	"strings"
	"sync"
	"testing"
	"time"

	"github.com/filecoin-project/go-f3/certexchange"
	"github.com/filecoin-project/go-f3/certexchange/polling"
	"github.com/filecoin-project/go-f3/certs"
	"github.com/filecoin-project/go-f3/certstore"
	"github.com/filecoin-project/go-f3/gpbft"
	"github.com/filecoin-project/go-f3/sim"
	"github.com/filecoin-project/go-f3/sim/signing"
	"github.com/ipfs/go-datastore"
	dsq "github.com/ipfs/go-datastore/query"
	ds_sync "github.com/ipfs/go-datastore/sync"
	"github.com/libp2p/go-libp2p/core/host"
	"github.com/libp2p/go-libp2p/core/network"
	"github.com/libp2p/go-libp2p/core/protocol"
	mocknetwork "github.com/libp2p/go-libp2p/p2p/net/mock"
)

// ---------------------------------------------------------------------------- datastore hook
// hookDS counts the reads (every read method of the public datastore interface) made while it is armed
// and runs `fire` inside read number fireAt, before the read itself is performed.
type hookDS struct {
	datastore.Datastore
	mu     sync.Mutex
	armed  bool
	reads  int
	fireAt int
	fire   func()
	fired  bool
}

func (d *hookDS) arm(fireAt int, fire func()) {
	d.mu.Lock()
	d.armed, d.reads, d.fireAt, d.fire, d.fired = true, 0, fireAt, fire, false
	d.mu.Unlock()
}
func (d *hookDS) disarm() (reads int, fired bool) {
	d.mu.Lock()
	defer d.mu.Unlock()
	d.armed = false
	return d.reads, d.fired
}
func (d *hookDS) onRead() {
	var f func()
	d.mu.Lock()
	if d.armed {
		d.reads++
		if d.reads == d.fireAt && d.fire != nil {
			f, d.fired = d.fire, true
		}
	}
	d.mu.Unlock()
	if f != nil {
		f()
	}
}
func (d *hookDS) Get(ctx context.Context, key datastore.Key) ([]byte, error) {
	d.onRead()
	return d.Datastore.Get(ctx, key)
}
func (d *hookDS) Has(ctx context.Context, key datastore.Key) (bool, error) {
	d.onRead()
	return d.Datastore.Has(ctx, key)
}
func (d *hookDS) GetSize(ctx context.Context, key datastore.Key) (int, error) {
	d.onRead()
	return d.Datastore.GetSize(ctx, key)
}
func (d *hookDS) Query(ctx context.Context, q dsq.Query) (dsq.Results, error) {
	d.onRead()
	return d.Datastore.Query(ctx, q)
}

// put performs one certstore.Put of the next honest certificate and records it as PutBegin / PutEnd.
func recordedPut(ctx context.Context, rec *recorder, cs *certstore.Store, inst uint64, c *certs.FinalityCertificate, ntab string) {
	rec.emit(map[string]any{"ev": "PutBegin", "inst": inst, "enc": h(mustEnc(c)), "ntab": ntab})
	if err := cs.Put(ctx, c); err != nil {
		panic(err)
	}
	rec.emit(map[string]any{"ev": "PutEnd", "inst": inst, "pending": pendingOf(cs)})
}

func doRequest(ctx context.Context, via string, client *certexchange.Client, cliHost, srvHost host.Host, req certexchange.Request) map[string]any {
	if via == "client" {
		return viaClient(ctx, client, srvHost, req)
	}
	return viaRaw(ctx, cliHost, srvHost, req)
}

// ---------------------------------------------------------------------------- TestServeConc
func TestServeConc(t *testing.T) {
	rec := newRecorder(t, "VERIF_OUT")
	defer rec.close()
	ctx := context.Background()
	rng := rand.New(rand.NewSource(seed()))
	fx := newFixture(t)
	mn := mocknetwork.New()
	srvHost, _ := mn.GenPeer()
	cliHost, _ := mn.GenPeer()
	if err := mn.LinkAll(); err != nil {
		t.Fatal(err)
	}
	if err := mn.ConnectAllButSelf(); err != nil {
		t.Fatal(err)
	}
	client := &certexchange.Client{Host: cliHost, NetworkName: nn}
	thorough := strings.Contains(os.Getenv("VERIF_TIER"), "thorough")

	mkStore := func(F, n uint64) (*certstore.Store, *hookDS) {
		hds := &hookDS{Datastore: ds_sync.MutexWrap(datastore.NewMapDatastore())}
		cs, err := certstore.CreateStore(ctx, hds, F, fx.table(F))
		if err != nil {
			t.Fatal(err)
		}
		for i := F; i < F+n; i++ {
			if err := cs.Put(ctx, fx.cert(i)); err != nil {
				t.Fatal(err)
			}
		}
		tabs := []string{}
		for i := F; i <= F+n; i++ {
			tabs = append(tabs, tableHash(fx.table(i)))
		}
		rec.emit(map[string]any{"ev": "Store", "first": F, "certs": storedEncodings(ctx, hds.Datastore, F, F+n), "tables": tabs, "pending": pendingOf(cs)})
		return cs, hds
	}
	nextInst := func(cs *certstore.Store, F uint64) uint64 {
		if l := cs.Latest(); l != nil {
			return l.GPBFTInstance + 1
		}
		return F
	}
	// one request on a fresh store of n certificates from F; nput Puts land inside datastore read k of the request
	serveOnce := func(F, n uint64, req certexchange.Request, via string, k, nput int) (reads int, fired bool) {
		cs, hds := mkStore(F, n)
		srv := &certexchange.Server{NetworkName: nn, Host: srvHost, Store: cs}
		if err := srv.Start(ctx); err != nil {
			t.Fatal(err)
		}
		hds.arm(k, func() {
			for j := 0; j < nput; j++ {
				i := nextInst(cs, F)
				recordedPut(ctx, rec, cs, i, fx.cert(i), tableHash(fx.table(i+1)))
			}
		})
		rec.emit(map[string]any{"ev": "Req", "first": clip(req.FirstInstance), "limit": clip(req.Limit), "pt": req.IncludePowerTable, "via": via, "k": k, "nput": nput})
		ev := doRequest(ctx, via, client, cliHost, srvHost, req)
		reads, fired = hds.disarm()
		ev["ev"], ev["via"], ev["nreads"], ev["fired"] = "Resp", via, reads, fired
		rec.emit(ev)
		if err := srv.Stop(ctx); err != nil {
			t.Fatal(err)
		}
		return reads, fired
	}

	type st struct{ F, n uint64 }
	stores := []st{{0, 1}, {0, 2}, {0, 4}, {0, 6}, {3, 3}, {3, 1}, {3, 0}}
	limits := []uint64{1, 2, 3, math.MaxUint64}
	if thorough {
		stores = append(stores, st{0, 3}, st{0, 9}, st{3, 2}, st{7, 5})
		limits = []uint64{1, 2, 3, 4, 256, math.MaxUint64}
	}
	hooked, firedN, maxReads := 0, 0, 0
	for _, s := range stores {
		pend := uint64(0)
		if s.n > 0 {
			pend = s.F + s.n
		}
		cand := []uint64{s.F, pend, pend + 1}
		if pend >= 1 {
			cand = append(cand, pend-1)
		}
		if pend >= s.F+2 {
			cand = append(cand, pend-2)
		}
		if s.n == 0 {
			cand = append(cand, 0, s.F+1)
		}
		sort.Slice(cand, func(i, j int) bool { return cand[i] < cand[j] })
		cand = slices.Compact(cand)
		for _, first := range cand {
			for _, limit := range limits {
				for _, pt := range []bool{false, true} {
					req := certexchange.Request{FirstInstance: first, Limit: limit, IncludePowerTable: pt}
					// dry run: how many datastore reads does this request make?
					reads, _ := serveOnce(s.F, s.n, req, "raw", 0, 0)
					if reads > maxReads {
						maxReads = reads
					}
					for k := 1; k <= reads; k++ {
						for nput := 1; nput <= 2; nput++ {
							via := []string{"client", "raw"}[(k+nput+hooked)%2]
							_, fired := serveOnce(s.F, s.n, req, via, k, nput)
							hooked++
							if fired {
								firedN++
							}
						}
					}
				}
			}
		}
	}

	// free-running writer: Puts race with requests (each request releases one Put after a random short delay)
	racing := 0
	{
		cs, _ := mkStore(0, 2)
		srv := &certexchange.Server{NetworkName: nn, Host: srvHost, Store: cs}
		if err := srv.Start(ctx); err != nil {
			t.Fatal(err)
		}
		total := 60
		if thorough {
			total = 300
		}
		tick := make(chan struct{}, 1)
		done := make(chan struct{})
		wrng := rand.New(rand.NewSource(seed() + 17))
		go func() {
			defer close(done)
			for n := 0; n < total; n++ {
				<-tick
				if d := wrng.Intn(6); d > 0 {
					time.Sleep(time.Duration(wrng.Intn(150*d)) * time.Microsecond)
				}
				i := nextInst(cs, 0)
				recordedPut(ctx, rec, cs, i, fx.cert(i), tableHash(fx.table(i+1)))
			}
		}()
		running := true
		for running {
			select {
			case <-done:
				running = false
				continue
			default:
			}
			p := pendingOf(cs)
			lo := uint64(0)
			if p > 3 {
				lo = p - 3
			}
			first := lo + uint64(rng.Intn(int(p+2-lo)))
			req := certexchange.Request{FirstInstance: first, Limit: []uint64{1, 3, 256, math.MaxUint64}[rng.Intn(4)], IncludePowerTable: rng.Intn(2) == 0}
			via := []string{"client", "raw"}[rng.Intn(2)]
			rec.emit(map[string]any{"ev": "Req", "first": clip(req.FirstInstance), "limit": clip(req.Limit), "pt": req.IncludePowerTable, "via": via + "-free", "k": 0, "nput": 0})
			select {
			case tick <- struct{}{}:
			default:
			}
			ev := doRequest(ctx, via, client, cliHost, srvHost, req)
			ev["ev"], ev["via"], ev["nreads"], ev["fired"] = "Resp", via+"-free", 0, false
			rec.emit(ev)
			racing++
		}
		_ = srv.Stop(ctx)
	}
	t.Logf("events=%d hooked-requests=%d fired=%d max-reads=%d racing-requests=%d", rec.n, hooked, firedN, maxReads, racing)
}

// ---------------------------------------------------------------------------- a chain with chosen power-table changes
// laTree holds every honest chain as a tree: the child (delta) of a node is the certificate of the next
// instance that changes the power table (delta = true) or not.  A change rotates the signing keys of two
// participants (alternating between two sets, each of which intersects every strong quorum).
type laNode struct {
	tree    *laTree
	parent  *laNode
	inst    int64 // instance of the certificate this node is; -1 for the root
	delta   bool
	changes int // number of changes on the path, this node included
	cert    *certs.FinalityCertificate
	enc     []byte
	ntable  gpbft.PowerEntries // the table that validates inst+1
	head    *gpbft.TipSet
	kids    [2]*laNode
}
type laTree struct {
	backend *signing.FakeBackend
	root    *laNode
	seq     int
}

var rotSets = [2][2]int{{0, 1}, {1, 2}}

func newLaTree(t *testing.T) *laTree {
	tr := &laTree{backend: signing.NewFakeBackend()}
	var pt gpbft.PowerEntries
	for i := 0; i < 4; i++ {
		k, _ := tr.backend.GenerateKey()
		pt = append(pt, gpbft.PowerEntry{ID: gpbft.ActorID(i + 1), Power: gpbft.NewStoragePower(int64(1000 - 100*i)), PubKey: k})
	}
	sort.Sort(pt)
	c, err := certs.MakePowerTableCID(pt)
	if err != nil {
		t.Fatal(err)
	}
	tr.root = &laNode{tree: tr, inst: -1, ntable: pt, head: &gpbft.TipSet{Epoch: 0, Key: []byte("genesis"), PowerTable: c}}
	return tr
}

func rotate(b *signing.FakeBackend, pt gpbft.PowerEntries, idx []int) gpbft.PowerEntries {
	out := slices.Clone(pt)
	for _, i := range idx {
		out[i].PubKey, _ = b.GenerateKey()
	}
	return out
}

func makeCert(b *signing.FakeBackend, base *gpbft.TipSet, inst uint64, key string, cur, nxt gpbft.PowerEntries) (*certs.FinalityCertificate, *gpbft.TipSet) {
	ncid, err := certs.MakePowerTableCID(nxt)
	if err != nil {
		panic(err)
	}
	chain, err := gpbft.NewChain(base, &gpbft.TipSet{Epoch: base.Epoch + 1, Key: []byte(key), PowerTable: ncid})
	if err != nil {
		panic(err)
	}
	j, err := sim.MakeJustification(b, nn, chain, inst, cur, nxt)
	if err != nil {
		panic(err)
	}
	c, err := certs.NewFinalityCertificate(certs.MakePowerTableDiff(cur, nxt), j)
	if err != nil {
		panic(err)
	}
	return c, chain.Head()
}

func (n *laNode) child(delta bool) *laNode {
	i := 0
	if delta {
		i = 1
	}
	if n.kids[i] != nil {
		return n.kids[i]
	}
	k := &laNode{tree: n.tree, parent: n, inst: n.inst + 1, delta: delta, changes: n.changes}
	n.tree.seq++
	cur := n.ntable
	nxt := cur
	if delta {
		nxt = rotate(n.tree.backend, cur, rotSets[n.changes%2][:])
		k.changes++
	}
	k.cert, k.head = makeCert(n.tree.backend, n.head, uint64(k.inst), fmt.Sprintf("ts-%d-%d", k.inst, n.tree.seq), cur, nxt)
	k.enc, k.ntable = mustEnc(k.cert), nxt
	n.kids[i] = k
	return k
}

// laWorld is one honest chain (a path of the tree), extended on demand with seeded random deltas.
type laWorld struct {
	tree *laTree
	path []*laNode // path[i] = certificate of instance i
	rng  *rand.Rand
}

func (w *laWorld) tip() *laNode {
	if len(w.path) == 0 {
		return w.tree.root
	}
	return w.path[len(w.path)-1]
}
func (w *laWorld) extend(delta bool) *laNode {
	n := w.tip().child(delta)
	w.path = append(w.path, n)
	return n
}
func (w *laWorld) at(i uint64) *laNode {
	for uint64(len(w.path)) <= i {
		w.extend(w.rng.Intn(2) == 0)
	}
	return w.path[i]
}
func (w *laWorld) table(i uint64) gpbft.PowerEntries { // validates instance i
	if i == 0 {
		return w.tree.root.ntable
	}
	return w.at(i - 1).ntable
}

// retired returns a certificate for instance exp signed with the keys of the committee that the latest
// power-table change before exp retired (the forger re-rotates the same participants, so the certificate is
// consistent with that retired table AND with the store's power-table-CID sanity check).  Without any earlier
// change the signers are a committee of fresh keys that never was a table.
func (w *laWorld) retired(exp uint64) []byte {
	cur := w.table(exp)
	var old gpbft.PowerEntries
	var set []int
	for j := int64(exp) - 1; j >= 0; j-- {
		if w.path[j].delta {
			old, set = w.table(uint64(j)), rotSets[(w.path[j].changes-1)%2][:]
			break
		}
	}
	if old == nil {
		old, set = rotate(w.tree.backend, cur, []int{0, 1, 2, 3}), []int{0, 1}
	}
	nxt := rotate(w.tree.backend, cur, set)
	base := w.tree.root.head
	if exp > 0 {
		base = w.at(exp - 1).head
	}
	c, _ := makeCert(w.tree.backend, base, exp, fmt.Sprintf("forged-%d", exp), old, nxt)
	return mustEnc(c)
}

func (w *laWorld) items(first uint64, kinds []string) []item {
	exp := first
	var out []item
	for _, k := range kinds {
		var it item
		it.Kind = k
		switch k {
		case "V":
			it.Inst, it.bytes = exp, w.at(exp).enc
			exp++
		case "S":
			it.Inst, it.bytes = first-1, w.at(first-1).enc
		case "D":
			it.Inst, it.bytes = exp-1, w.at(exp-1).enc
		case "G":
			it.Inst, it.bytes = exp+1, w.at(exp+1).enc
		case "F":
			c := cloneCert(w.at(exp).cert)
			c.Signature[0] ^= 0xff
			it.Inst, it.bytes = exp, mustEnc(c)
		case "R":
			it.Inst, it.bytes = exp, w.retired(exp)
		case "T":
			b := w.at(exp).enc
			it.Inst, it.bytes = exp, b[:len(b)/2]
		default:
			panic("kind " + k)
		}
		it.Enc = h(it.bytes)
		out = append(out, it)
	}
	return out
}

// hookHost runs `pre` when a stream for the protocol arrives, before the real handler sees it.
type hookHost struct {
	host.Host
	pre func()
}

func (hh *hookHost) SetStreamHandler(pid protocol.ID, handler network.StreamHandler) {
	hh.Host.SetStreamHandler(pid, func(s network.Stream) {
		if hh.pre != nil {
			hh.pre()
		}
		handler(s)
	})
}

// ---------------------------------------------------------------------------- TestPollerLA
type laHist struct {
	Pre    []bool  `json:"pre"`    // deltas of the certificates the node starts with
	Adv1   []bool  `json:"adv1"`   // local advance (deltas) before the optional CatchUp
	Cu     bool    `json:"cu"`     // explicit Poller.CatchUp
	Adv2   []bool  `json:"adv2"`   // local advance after it
	Peer   string  `json:"peer"`   // "evil" (script) or "honest" (real Server, `ahead` of the node's store)
	Script []aresp `json:"script"` //
	Ahead  int64   `json:"ahead"`  //
	La     []bool  `json:"la"`     // local advance while request 1 is in flight
	Follow []bool  `json:"follow"` // second stage: local advance, then an honest peer 2 ahead
}

func TestPollerLA(t *testing.T) {
	rec := newRecorder(t, "VERIF_OUT")
	defer rec.close()
	ctx := context.Background()
	rng := rand.New(rand.NewSource(seed()))
	tree := newLaTree(t)
	mn := mocknetwork.New()
	pollHost, _ := mn.GenPeer()
	evilHost, _ := mn.GenPeer()
	honestHost0, _ := mn.GenPeer()
	if err := mn.LinkAll(); err != nil {
		t.Fatal(err)
	}
	if err := mn.ConnectAllButSelf(); err != nil {
		t.Fatal(err)
	}
	honestHost := &hookHost{Host: honestHost0}
	ev := &evil{}
	evilHost.SetStreamHandler(certexchange.FetchProtocolName(nn), ev.handle)
	client := &certexchange.Client{Host: pollHost, NetworkName: nn, RequestTimeout: 20 * time.Second}

	var hists []laHist
	readLines(t, "VERIF_HIST", func(b []byte) {
		var x laHist
		if err := json.Unmarshal(b, &x); err != nil {
			t.Fatal(err)
		}
		hists = append(hists, x)
	})

	statusName := func(s polling.PollStatus) string { return strings.TrimPrefix(s.String(), "Poll") }
	polls, advances := 0, 0
	for _, hs := range hists {
		w := &laWorld{tree: tree, rng: rng}
		for _, d := range hs.Pre {
			w.extend(d)
		}
		ds := ds_sync.MutexWrap(datastore.NewMapDatastore())
		cs, err := certstore.CreateStore(ctx, ds, 0, w.table(0))
		if err != nil {
			t.Fatal(err)
		}
		for i := range hs.Pre {
			if err := cs.Put(ctx, w.path[i].cert); err != nil {
				t.Fatal(err)
			}
		}
		poller, err := polling.NewPoller(ctx, client, cs, tree.backend)
		if err != nil {
			t.Fatal(err)
		}
		tabs := func() (string, string) {
			st, err := cs.GetPowerTable(ctx, poller.NextInstance)
			if err != nil {
				return tableHash(poller.PowerTable), "error"
			}
			return tableHash(poller.PowerTable), tableHash(st)
		}
		storeEncs := func() []string { return storedEncodings(ctx, ds, 0, pendingOf(cs)) }
		ptab, stab := tabs()
		rec.emit(map[string]any{"ev": "ResetLA", "next": poller.NextInstance, "store": storeEncs(), "ptab": ptab, "stab": stab})

		// the node's own consensus finalizes the next certificates of the honest chain
		advance := func(deltas []bool, log bool) []string {
			encs := []string{}
			putErr := false
			for _, d := range deltas {
				i := pendingOf(cs)
				var n *laNode
				if uint64(len(w.path)) > i {
					n = w.path[i] // a peer already showed this part of the chain
				} else {
					n = w.extend(d)
				}
				if err := cs.Put(ctx, n.cert); err != nil {
					// only possible when the store already holds something that is not the honest chain
					// (recorded, judged by TLC; the history goes on with what was stored)
					putErr = true
					break
				}
				encs = append(encs, h(n.enc))
			}
			if log && len(deltas) > 0 {
				rec.emit(map[string]any{"ev": "LocalAdvance", "encs": encs, "deltas": deltas, "own1": pendingOf(cs), "next": poller.NextInstance, "err": putErr})
				advances++
			}
			return encs
		}
		poll := func(peer string, script []aresp, ahead int64, la []bool) {
			next0, store0 := poller.NextInstance, storeEncs()
			if script == nil {
				script = []aresp{}
			}
			// the chain the node will finalize while the request is in flight exists before any peer serves it
			for j, d := range la {
				if uint64(len(w.path)) == pendingOf(cs)+uint64(j) {
					w.extend(d)
				}
			}
			var laMu sync.Mutex
			laLog := [][]string{}
			inflight := func(k int) {
				laMu.Lock()
				defer laMu.Unlock()
				if k == 1 && len(la) > 0 {
					laLog = append(laLog, advance(la, false))
				}
			}
			m := map[string]any{"ev": "PollLA", "type": "concrete", "next0": next0, "store0": store0, "script": script,
				"pend": 0, "base": 0, "encs": []string{}, "resps": []played{}, "reqs": []reqLog{}}
			var res *polling.PollResult
			var perr error
			if peer == "evil" {
				ev.install(script)
				ev.fx, ev.onReq = w, inflight
				res, perr = poller.Poll(ctx, evilHost.ID())
				reqs, pl := ev.collect()
				if reqs != nil {
					m["reqs"] = reqs
				}
				if pl != nil {
					m["resps"] = pl
				}
			} else {
				p := int64(pendingOf(cs)) + int64(len(la)) + ahead
				if p < 0 {
					p = 0
				}
				hds := ds_sync.MutexWrap(datastore.NewMapDatastore())
				hcs, err := certstore.CreateStore(ctx, hds, 0, w.table(0))
				if err != nil {
					t.Fatal(err)
				}
				encs := []string{}
				for i := uint64(0); i < uint64(p); i++ {
					if err := hcs.Put(ctx, w.at(i).cert); err != nil {
						t.Fatal(err)
					}
					encs = append(encs, h(w.at(i).enc))
				}
				nreq := 0
				honestHost.pre = func() { nreq++; inflight(nreq) }
				srv := &certexchange.Server{NetworkName: nn, Host: honestHost, Store: hcs}
				if err := srv.Start(ctx); err != nil {
					t.Fatal(err)
				}
				res, perr = poller.Poll(ctx, honestHost.ID())
				_ = srv.Stop(ctx)
				m["type"], m["pend"], m["base"], m["encs"] = "honest", uint64(p), 0, encs
			}
			laMu.Lock()
			m["la"] = laLog
			laMu.Unlock()
			m["next1"], m["store1"], m["interr"], m["status"], m["recv"], m["newc"] = poller.NextInstance, storeEncs(), perr != nil, "none", 0, 0
			if res != nil {
				m["status"], m["recv"], m["newc"] = statusName(res.Status), res.ReceivedCertificates, res.NewCertificates
			}
			m["ptab"], m["stab"] = tabs()
			rec.emit(m)
			polls++
		}

		advance(hs.Adv1, true)
		if hs.Cu {
			next0, store0 := poller.NextInstance, storeEncs()
			prog, err := poller.CatchUp(ctx)
			ptab, stab := tabs()
			rec.emit(map[string]any{"ev": "CatchUp", "next0": next0, "store0": store0, "next1": poller.NextInstance, "progress": prog, "interr": err != nil, "ptab": ptab, "stab": stab})
		}
		advance(hs.Adv2, true)
		poll(hs.Peer, hs.Script, hs.Ahead, hs.La)
		if len(hs.Follow) > 0 {
			advance(hs.Follow, true)
			poll("honest", nil, 2, nil)
		}
	}
	t.Logf("events=%d histories=%d polls=%d local-advances=%d", rec.n, len(hists), polls, advances)
}


//go:build verif

// Driver for property C15: materialises the cases emitted by TLC (spec/host/MCConsensusInputs.tla) - an EC
// block tree behind the public ec.Backend interface, a certificate store holding real certificates for the
// case's history, a manifest and a clock - and calls the PRODUCTION gpbftInputs.GetProposal / GetCommittee
// (consensus_inputs.go, via the accessor VerifNewInputs).  It also starts a real gpbft.Participant on a host
// returning over-long / malformed chains.  One NDJSON line per call; everything is decoded back to model
// identifiers mechanically (tipset key -> id, power-table CID -> id, beacon -> id).  The verdict is TLC's
// (spec/host/ConsensusInputsTrace.tla); this file contains no oracle.
package zzinputs

import (
	"bufio"
	"bytes"
	"context"
	"encoding/json"
	"errors"
	"fmt"
	"os"
	"strconv"
	"strings"
	"testing"
	"time"

	"github.com/filecoin-project/go-bitfield"
	f3 "github.com/filecoin-project/go-f3"
	"github.com/filecoin-project/go-f3/certs"
	"github.com/filecoin-project/go-f3/certstore"
	"github.com/filecoin-project/go-f3/ec"
	"github.com/filecoin-project/go-f3/gpbft"
	"github.com/filecoin-project/go-f3/internal/clock"
	"github.com/filecoin-project/go-f3/manifest"
	"github.com/filecoin-project/go-f3/sim/signing"
	"github.com/ipfs/go-cid"
	"github.com/ipfs/go-datastore"
	ds_sync "github.com/ipfs/go-datastore/sync"
)

const (
	finality = 2
	period   = 30 * time.Second
	netName  = gpbft.NetworkName("verif-c15")
)

var t0 = time.Unix(1_700_000_000, 0)

type caseIn struct {
	Par   []int   `json:"par"`
	Ep    []int64 `json:"ep"`
	Head  int     `json:"head"`
	Head2 int     `json:"head2"`
	Init  uint64  `json:"init"`
	L     uint64  `json:"L"`
	Hl    int     `json:"hl"`
	Plen  int     `json:"plen"`
	BootE int64   `json:"bootE"`
	Now   int64   `json:"now"`
	F0    int     `json:"f0"`
	Fin   []int   `json:"fin"`
	Ctab  []int   `json:"ctab"`
}

type ev map[string]any

type rec struct {
	w *bufio.Writer
	n int
}

func (r *rec) emit(e ev) {
	b, err := json.Marshal(e)
	if err != nil {
		panic(err)
	}
	r.w.Write(b)
	r.w.WriteByte('\n')
	r.n++
}

// ---------------------------------------------------------------- model tables (one distinct table per tipset id)

type world struct {
	sb     *signing.FakeBackend
	keys   []gpbft.PubKey
	tables map[int]gpbft.PowerEntries
	cids   map[int]cid.Cid
	byCid  map[string]int
}

func newWorld() *world {
	w := &world{sb: signing.NewFakeBackend(), tables: map[int]gpbft.PowerEntries{}, cids: map[int]cid.Cid{}, byCid: map[string]int{}}
	for i := 0; i < 3; i++ {
		k, _ := w.sb.GenerateKey()
		w.keys = append(w.keys, k)
	}
	return w
}

// table 0 is the initial table of the certificate store; table t>0 is EC's table at tipset t
func (w *world) table(t int) gpbft.PowerEntries {
	if e, ok := w.tables[t]; ok {
		return e
	}
	e := gpbft.PowerEntries{
		{ID: 1, Power: gpbft.NewStoragePower(int64(1000 + t)), PubKey: w.keys[0]},
		{ID: 2, Power: gpbft.NewStoragePower(700), PubKey: w.keys[1]},
		{ID: 3, Power: gpbft.NewStoragePower(500), PubKey: w.keys[2]},
	}
	c, err := certs.MakePowerTableCID(e)
	if err != nil {
		panic(err)
	}
	w.tables[t], w.cids[t], w.byCid[c.KeyString()] = e, c, t
	return e
}

func (w *world) cid(t int) cid.Cid { w.table(t); return w.cids[t] }
func (w *world) tableID(c cid.Cid) int {
	if !c.Defined() {
		return -1
	}
	if t, ok := w.byCid[c.KeyString()]; ok {
		return t
	}
	return -1
}

// ---------------------------------------------------------------- EC backend over the model tree (public interface ec.Backend)

type mts struct {
	id    int
	epoch int64
}

func (t *mts) Key() gpbft.TipSetKey { return []byte(fmt.Sprintf("T%d", t.id)) }
func (t *mts) Beacon() []byte       { return []byte(fmt.Sprintf("B%d", t.id)) }
func (t *mts) Epoch() int64         { return t.epoch }
func (t *mts) Timestamp() time.Time { return t0.Add(time.Duration(t.epoch) * period) }
func (t *mts) String() string       { return fmt.Sprintf("T%d@%d", t.id, t.epoch) }

func idOf(prefix string, b []byte) int {
	s := string(b)
	if !strings.HasPrefix(s, prefix) {
		return 0
	}
	n, err := strconv.Atoi(s[len(prefix):])
	if err != nil {
		return 0
	}
	return n
}

type modelEC struct {
	w    *world
	c    *caseIn
	head int
	// noncanon: hand out power entries in an order that is not the canonical power-table order (EC makes no
	// promise about the order; gpbft.PowerTable.Add sorts). Only switched on around GetCommittee: the proposal's
	// power-table CIDs are by design computed over the entries exactly as EC returns them.
	noncanon bool
}

// recVerifier remembers the key list of the last Aggregate call, i.e. what the committee's aggregate verifier is keyed on.
type recVerifier struct {
	gpbft.Verifier
	last []gpbft.PubKey
}

func (v *recVerifier) Aggregate(keys []gpbft.PubKey) (gpbft.Aggregate, error) {
	v.last = append([]gpbft.PubKey(nil), keys...)
	return v.Verifier.Aggregate(keys)
}

var _ ec.Backend = (*modelEC)(nil)

func (m *modelEC) ts(id int) *mts { return &mts{id: id, epoch: m.c.Ep[id-1]} }
func (m *modelEC) GetTipsetByEpoch(_ context.Context, epoch int64) (ec.TipSet, error) {
	if epoch > m.c.Ep[m.head-1] {
		return nil, fmt.Errorf("epoch %d is beyond the head", epoch)
	}
	for t := m.head; t != 0; t = m.c.Par[t-1] {
		if m.c.Ep[t-1] <= epoch {
			return m.ts(t), nil
		}
	}
	return nil, fmt.Errorf("no tipset at or before epoch %d", epoch)
}
func (m *modelEC) GetTipset(_ context.Context, k gpbft.TipSetKey) (ec.TipSet, error) {
	id := idOf("T", k)
	if id < 1 || id > len(m.c.Par) {
		return nil, fmt.Errorf("unknown tipset %q", k)
	}
	return m.ts(id), nil
}
func (m *modelEC) GetHead(context.Context) (ec.TipSet, error) { return m.ts(m.head), nil }
func (m *modelEC) GetParent(_ context.Context, t ec.TipSet) (ec.TipSet, error) {
	id := idOf("T", t.Key())
	if id < 1 || id > len(m.c.Par) || m.c.Par[id-1] == 0 {
		return nil, fmt.Errorf("no parent of %v", t)
	}
	return m.ts(m.c.Par[id-1]), nil
}
func (m *modelEC) GetPowerTable(_ context.Context, k gpbft.TipSetKey) (gpbft.PowerEntries, error) {
	id := idOf("T", k)
	if id < 1 || id > len(m.c.Par) {
		return nil, fmt.Errorf("unknown tipset %q", k)
	}
	e := m.w.table(id)
	if m.noncanon {
		r := make(gpbft.PowerEntries, len(e))
		for i := range e {
			r[len(e)-1-i] = e[i]
		}
		return r, nil
	}
	return e, nil
}
func (m *modelEC) Finalize(context.Context, gpbft.TipSetKey) error { return nil }

// ---------------------------------------------------------------- certificate history

func (w *world) tipset(c *caseIn, id int) *gpbft.TipSet {
	return &gpbft.TipSet{Epoch: c.Ep[id-1], Key: []byte(fmt.Sprintf("T%d", id)), PowerTable: w.cid(id)}
}

func (w *world) buildCerts(c *caseIn) ([]*certs.FinalityCertificate, error) {
	ctx := context.Background()
	var out []*certs.FinalityCertificate
	from := c.F0
	for j, to := range c.Fin {
		var path []int
		for t := to; ; t = c.Par[t-1] {
			if t == 0 {
				return nil, fmt.Errorf("case history is not a path: %d does not descend from %d", to, from)
			}
			path = append([]int{t}, path...)
			if t == from {
				break
			}
		}
		tss := make([]*gpbft.TipSet, len(path))
		for i, t := range path {
			tss[i] = w.tipset(c, t)
		}
		chain, err := gpbft.NewChain(tss[0], tss[1:]...)
		if err != nil {
			return nil, err
		}
		cur, next := w.table(c.Ctab[j]), w.table(c.Ctab[j+1])
		pl := gpbft.Payload{Instance: c.Init + uint64(j), Round: 0, Phase: gpbft.DECIDE_PHASE,
			SupplementalData: gpbft.SupplementalData{PowerTable: w.cid(c.Ctab[j+1])}, Value: chain}
		agg, err := w.sb.Aggregate(cur.PublicKeys())
		if err != nil {
			return nil, err
		}
		msg := pl.MarshalForSigning(netName)
		signers := bitfield.New()
		var mask []int
		var sigs [][]byte
		for i, e := range cur {
			s, err := w.sb.Sign(ctx, e.PubKey, msg)
			if err != nil {
				return nil, err
			}
			signers.Set(uint64(i))
			mask, sigs = append(mask, i), append(sigs, s)
		}
		sig, err := agg.Aggregate(mask, sigs)
		if err != nil {
			return nil, err
		}
		crt, err := certs.NewFinalityCertificate(certs.MakePowerTableDiff(cur, next), &gpbft.Justification{Vote: pl, Signers: signers, Signature: sig})
		if err != nil {
			return nil, err
		}
		out = append(out, crt)
		from = to
	}
	// the history handed to the nodes is a valid certificate chain by the library's own validator
	if len(out) > 0 {
		if _, _, _, err := certs.ValidateFinalityCertificates(w.sb, netName, w.table(0), c.Init, nil, out...); err != nil {
			return nil, fmt.Errorf("materialised history does not validate: %w", err)
		}
	}
	return out, nil
}

type node struct {
	in  *f3.VerifInputs
	ec  *modelEC
	ver *recVerifier
}

func (w *world) newNode(c *caseIn, head int, crts []*certs.FinalityCertificate) (*node, error) {
	ctx := context.Background()
	cs, err := certstore.CreateStore(ctx, ds_sync.MutexWrap(datastore.NewMapDatastore()), c.Init, w.table(0))
	if err != nil {
		return nil, err
	}
	for _, crt := range crts {
		if err := cs.Put(ctx, crt); err != nil {
			return nil, fmt.Errorf("certstore.Put(%d): %w", crt.GPBFTInstance, err)
		}
	}
	m := manifest.LocalDevnetManifest()
	m.NetworkName = netName
	m.InitialInstance = c.Init
	m.CommitteeLookback = c.L
	m.EC.Finality = finality
	m.BootstrapEpoch = c.BootE + finality
	m.EC.Period = period
	m.EC.HeadLookback = c.Hl
	m.Gpbft.ChainProposedLength = c.Plen
	clk := clock.NewMock()
	clk.Set(t0.Add(time.Duration(c.Now) * period / 2))
	mec, ver := &modelEC{w: w, c: c, head: head}, &recVerifier{Verifier: w.sb}
	return &node{in: f3.VerifNewInputs(m, cs, mec, ver, clk), ec: mec, ver: ver}, nil
}

func errStr(err error) string {
	if err == nil {
		return ""
	}
	s := err.Error()
	if len(s) > 160 {
		s = s[:160]
	}
	return s
}

func (w *world) proposal(r *rec, n *node, name string, inst uint64) {
	supp, chain, err := n.in.GetProposal(context.Background(), inst)
	e := ev{"ev": "Proposal", "node": name, "inst": inst, "err": err != nil, "errs": errStr(err),
		"chain": []int{}, "eps": []int64{}, "ptids": []int{}, "supp": -1}
	if err == nil {
		ids, eps, pts := []int{}, []int64{}, []int{}
		for _, ts := range chain.TipSets {
			ids = append(ids, idOf("T", ts.Key))
			eps = append(eps, ts.Epoch)
			pts = append(pts, w.tableID(ts.PowerTable))
		}
		e["chain"], e["eps"], e["ptids"], e["supp"] = ids, eps, pts, w.tableID(supp.PowerTable)
	}
	r.emit(e)
}

func (w *world) committee(n *node, i uint64) ev {
	n.ec.noncanon, n.ver.last = true, nil
	com, err := n.in.GetCommittee(context.Background(), i)
	n.ec.noncanon = false
	if err != nil {
		return ev{"err": true, "tab": -1, "beacon": -1, "aggcanon": true, "errs": errStr(err)}
	}
	// the committee's aggregate verifier must be keyed on the power table's own (canonical) key order: signer
	// indices of every justification and certificate refer to positions in that table
	canon := com.PowerTable.Entries.PublicKeys()
	aggcanon := com.AggregateVerifier != nil && len(canon) == len(n.ver.last)
	for k := 0; aggcanon && k < len(canon); k++ {
		aggcanon = bytes.Equal(canon[k], n.ver.last[k])
	}
	c, cerr := certs.MakePowerTableCID(com.PowerTable.Entries)
	tab := -1
	if cerr == nil {
		tab = w.tableID(c)
	}
	return ev{"err": false, "tab": tab, "beacon": idOf("B", com.Beacon), "aggcanon": aggcanon, "errs": ""}
}

func (w *world) runCase(t *testing.T, r *rec, c *caseIn) {
	r.emit(ev{"ev": "Case", "par": c.Par, "ep": c.Ep, "head": c.Head, "head2": c.Head2, "init": c.Init, "L": c.L, "hl": c.Hl,
		"plen": c.Plen, "bootE": c.BootE, "now": c.Now, "f0": c.F0, "fin": c.Fin})
	crts, err := w.buildCerts(c)
	if err != nil {
		t.Fatalf("case %+v: %v", c, err)
	}
	a, err := w.newNode(c, c.Head, crts)
	if err != nil {
		t.Fatalf("case %+v: node A: %v", c, err)
	}
	b, err := w.newNode(c, c.Head2, crts)
	if err != nil {
		t.Fatalf("case %+v: node B: %v", c, err)
	}
	k := uint64(len(c.Fin))
	for inst := c.Init; inst <= c.Init+k; inst++ {
		w.proposal(r, a, "A", inst)
	}
	w.proposal(r, b, "B", c.Init+k)
	for i := c.Init; i <= c.Init+k+c.L; i++ {
		r.emit(ev{"ev": "Committee", "i": i, "a": w.committee(a, i), "b": w.committee(b, i)})
	}
}

// ---------------------------------------------------------------- the participant's own guard

type stubHost struct {
	sb       *signing.FakeBackend
	key      gpbft.PubKey
	chain    *gpbft.ECChain
	proposed *gpbft.ECChain
	now      time.Time
}

var _ gpbft.Host = (*stubHost)(nil)

func (h *stubHost) GetProposal(context.Context, uint64) (*gpbft.SupplementalData, *gpbft.ECChain, error) {
	return &gpbft.SupplementalData{PowerTable: gpbft.MakeCid([]byte("supp"))}, h.chain, nil
}
func (h *stubHost) GetCommittee(context.Context, uint64) (*gpbft.Committee, error) {
	pt := gpbft.NewPowerTable()
	if err := pt.Add(gpbft.PowerEntry{ID: 1, Power: gpbft.NewStoragePower(10), PubKey: h.key}); err != nil {
		return nil, err
	}
	agg, err := h.sb.Aggregate(pt.Entries.PublicKeys())
	if err != nil {
		return nil, err
	}
	return &gpbft.Committee{PowerTable: pt, Beacon: []byte("beacon"), AggregateVerifier: agg}, nil
}
func (h *stubHost) NetworkName() gpbft.NetworkName { return netName }
func (h *stubHost) RequestBroadcast(mb *gpbft.MessageBuilder) error {
	if mb.Payload.Phase == gpbft.QUALITY_PHASE && h.proposed == nil {
		h.proposed = mb.Payload.Value
	}
	return nil
}
func (h *stubHost) RequestRebroadcast(gpbft.Instant) error { return nil }
func (h *stubHost) Time() time.Time                        { return h.now }
func (h *stubHost) SetAlarm(time.Time)                     {}
func (h *stubHost) Verify(k gpbft.PubKey, msg, sig []byte) error {
	return h.sb.Verify(k, msg, sig)
}
func (h *stubHost) Aggregate(keys []gpbft.PubKey) (gpbft.Aggregate, error) {
	return h.sb.Aggregate(keys)
}
func (h *stubHost) ReceiveDecision(context.Context, *gpbft.Justification) (time.Time, error) {
	return h.now, nil
}

// hostChain: n tipsets with keys k1..kn; kind of malformation at position badpos (1-based), "" = none
func hostChain(n, badpos int, kind string) *gpbft.ECChain {
	if n == 0 {
		if kind == "nil" {
			return nil
		}
		return &gpbft.ECChain{}
	}
	pt := gpbft.MakeCid([]byte("pt"))
	ch := &gpbft.ECChain{}
	for i := 1; i <= n; i++ {
		ts := &gpbft.TipSet{Epoch: int64(10 + 2*i), Key: []byte(fmt.Sprintf("k%d", i)), PowerTable: pt}
		if i == badpos {
			switch kind {
			case "epoch":
				ts.Epoch = int64(10 + 2*(i-1))
			case "epochback":
				ts.Epoch = 3
			case "key":
				ts.Key = nil
			case "keylong":
				ts.Key = make([]byte, gpbft.TipsetKeyMaxLen+1)
			case "pt":
				ts.PowerTable = cid.Undef
			}
		}
		ch.TipSets = append(ch.TipSets, ts)
	}
	return ch
}

func runBegin(t *testing.T, r *rec, sb *signing.FakeBackend, key gpbft.PubKey, n, badpos int, kind string) {
	h := &stubHost{sb: sb, key: key, chain: hostChain(n, badpos, kind), now: t0}
	p, err := gpbft.NewParticipant(h)
	if err != nil {
		t.Fatal(err)
	}
	if err := p.StartInstanceAt(0, h.now); err != nil {
		t.Fatal(err)
	}
	err = p.ReceiveAlarm(context.Background())
	e := ev{"ev": "Begin", "n": n, "badpos": badpos, "kind": kind, "err": err != nil, "errs": errStr(err), "len": 0, "ids": []int{}}
	if err == nil {
		if h.proposed == nil {
			err = errors.New("no QUALITY vote observed")
			e["err"], e["errs"] = true, err.Error()
		} else {
			ids := []int{}
			for _, ts := range h.proposed.TipSets {
				ids = append(ids, idOf("k", ts.Key))
			}
			e["len"], e["ids"] = len(ids), ids
		}
	}
	r.emit(e)
}

func TestInputs(t *testing.T) {
	out, in := os.Getenv("VERIF_OUT"), os.Getenv("VERIF_CASES")
	if out == "" || in == "" {
		t.Skip("VERIF_OUT / VERIF_CASES not set")
	}
	fh, err := os.Create(out)
	if err != nil {
		t.Fatal(err)
	}
	defer fh.Close()
	r := &rec{w: bufio.NewWriterSize(fh, 1<<20)}
	defer r.w.Flush()
	w := newWorld()

	cf, err := os.Open(in)
	if err != nil {
		t.Fatal(err)
	}
	defer cf.Close()
	sc := bufio.NewScanner(cf)
	sc.Buffer(make([]byte, 1<<20), 1<<24)
	ncases := 0
	for sc.Scan() {
		line := strings.TrimSpace(sc.Text())
		if line == "" {
			continue
		}
		var c caseIn
		if err := json.Unmarshal([]byte(line), &c); err != nil {
			t.Fatalf("bad case %q: %v", line, err)
		}
		if c.Fin == nil {
			c.Fin = []int{}
		}
		w.runCase(t, r, &c)
		ncases++
	}

	// participant guard: lengths around gpbft.ChainMaxLen, malformations before / at / after the cut
	key, _ := w.sb.GenerateKey()
	M := gpbft.ChainMaxLen
	runBegin(t, r, w.sb, key, 0, 0, "nil")
	runBegin(t, r, w.sb, key, 0, 0, "")
	for _, n := range []int{1, 2, 5, M - 1, M, M + 1, M + 2, 200, 500} {
		runBegin(t, r, w.sb, key, n, 0, "")
		for _, kind := range []string{"epoch", "epochback", "key", "keylong", "pt"} {
			seen := map[int]bool{}
			for _, p := range []int{1, 2, n / 2, n - 1, n, M - 1, M, M + 1, M + 2} {
				if p < 1 || p > n || seen[p] || (p == 1 && (kind == "epoch" || kind == "epochback")) {
					continue
				}
				seen[p] = true
				runBegin(t, r, w.sb, key, n, p, kind)
			}
		}
	}
	t.Logf("cases=%d events=%d", ncases, r.n)
}

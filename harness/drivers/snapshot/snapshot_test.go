//go:build verif

// Driver for property C17 (snapshots): builds real certificate stores, exports them with the real
// ExportSnapshot / ExportLatestSnapshot, imports the bytes (and every class of corrupted bytes) with the
// real import routine into an EMPTY datastore, opens the result and records what the code did as NDJSON:
//
//	Store   the history that was Put into the exporter (arguments)
//	Proj    the exporter's observable state (latest, every certificate, the power table of every instance)
//	Export  end point, error, returned digest, digest recomputed over the bytes, the bytes as framed blocks
//	Import  class / position of the corruption, the imported bytes as framed blocks, manifest, frequency,
//	        error / panic, and - if accepted - the observable state of the imported store
//
// Nothing here decides anything: every verdict is TLC's (spec/certstore/SnapshotTrace.tla).
package zzsnapshot

import (
	"bufio"
	"bytes"
	"context"
	"crypto/sha256"
	"encoding/binary"
	"encoding/hex"
	"encoding/json"
	"errors"
	"fmt"
	"io"
	"math/rand"
	"os"
	"sort"
	"strconv"
	"testing"

	"github.com/filecoin-project/go-f3/certs"
	"github.com/filecoin-project/go-f3/certstore"
	"github.com/filecoin-project/go-f3/gpbft"
	"github.com/filecoin-project/go-f3/manifest"
	"github.com/ipfs/go-cid"
	"github.com/ipfs/go-datastore"
	"github.com/ipfs/go-datastore/query"
	ds_sync "github.com/ipfs/go-datastore/sync"
	"github.com/multiformats/go-multihash"
	"golang.org/x/crypto/blake2b"
)

var ctx = context.Background()

type ev map[string]any

type rec struct {
	w      *bufio.Writer
	n      int
	counts map[string]int
}

func (r *rec) emit(e ev) {
	b, err := json.Marshal(e)
	if err != nil {
		panic(err)
	}
	r.w.Write(b)
	r.w.WriteByte('\n')
	r.n++
}

func envInt(k string, d int) int {
	if v, err := strconv.Atoi(os.Getenv(k)); err == nil {
		return v
	}
	return d
}

// catch runs f and reports a panic as text (recorded in the event, never swallowed).
func catch(f func()) (msg string) {
	defer func() {
		if r := recover(); r != nil {
			msg = fmt.Sprint(r)
			if msg == "" {
				msg = "panic"
			}
		}
	}()
	f()
	return ""
}

// ---------------------------------------------------------------- abstract <-> real power tables

const NP = 3 // participants 1..NP; an abstract table is the tuple of their powers (0 = absent)

type atab []int64

func keyOf(p int) gpbft.PubKey { return gpbft.PubKey("pk" + strconv.Itoa(p)) }

func realTable(t atab) gpbft.PowerEntries {
	pt := make(gpbft.PowerEntries, 0, len(t))
	for i, pw := range t {
		if pw > 0 {
			pt = append(pt, gpbft.PowerEntry{ID: gpbft.ActorID(i + 1), Power: gpbft.NewStoragePower(pw), PubKey: keyOf(i + 1)})
		}
	}
	sort.Sort(pt)
	return pt
}

func unrep(v int64) atab {
	out := make(atab, NP)
	for i := range out {
		out[i] = v
	}
	return out
}

// absTable projects a table returned by the code; anything outside the abstract domain (foreign id, wrong key,
// non-positive power, duplicate, non-canonical order) becomes a tuple that equals no model table.
func absTable(pt gpbft.PowerEntries) atab {
	out := make(atab, NP)
	if !sort.IsSorted(pt) {
		return unrep(-1)
	}
	for _, e := range pt {
		p := int(e.ID)
		if p < 1 || p > NP || out[p-1] != 0 || e.Power.Int == nil || !e.Power.IsInt64() || e.Power.Int64() <= 0 || !bytes.Equal(e.PubKey, keyOf(p)) {
			return unrep(-1)
		}
		out[p-1] = e.Power.Int64()
	}
	return out
}

func absDelta(d certs.PowerTableDiff) atab {
	out := make(atab, NP)
	for _, e := range d {
		p := int(e.ParticipantID)
		if p < 1 || p > NP || out[p-1] != 0 || e.PowerDelta.Int == nil || !e.PowerDelta.IsInt64() || e.PowerDelta.Int64() == 0 ||
			(len(e.SigningKey) != 0 && !bytes.Equal(e.SigningKey, keyOf(p))) {
			return unrep(-999)
		}
		out[p-1] = e.PowerDelta.Int64()
	}
	return out
}

// realDelta encodes the abstract delta d for a running table: a participant that is absent brings its key.
func realDelta(running, d atab) certs.PowerTableDiff {
	var out certs.PowerTableDiff
	for i, x := range d {
		if x == 0 {
			continue
		}
		e := certs.PowerTableDelta{ParticipantID: gpbft.ActorID(i + 1), PowerDelta: gpbft.NewStoragePower(x)}
		if running[i] == 0 {
			e.SigningKey = keyOf(i + 1)
		}
		out = append(out, e)
	}
	return out
}

func plus(a, b atab) atab {
	out := make(atab, len(a))
	for i := range a {
		out[i] = a[i] + b[i]
	}
	return out
}
func minus(a, b atab) atab {
	out := make(atab, len(a))
	for i := range a {
		out[i] = a[i] - b[i]
	}
	return out
}
func bumpOf(p int, v int64) atab { out := make(atab, NP); out[p] = v; return out }

// the CID <-> table dictionary of everything the driver ever built (codec, not a verdict)
var cidTable = map[string]atab{}

func tableCID(t atab) cid.Cid {
	c, err := certs.MakePowerTableCID(realTable(t))
	if err != nil {
		panic(err)
	}
	cidTable[c.String()] = t
	return c
}

var garbageCID = gpbft.MakeCid([]byte("no such power table"))

func absCID(c cid.Cid) atab {
	if t, ok := cidTable[c.String()]; ok {
		return t
	}
	return atab{}
}

// ---------------------------------------------------------------- certificates

func buildCert(inst uint64, delta certs.PowerTableDiff, commit cid.Cid, tag string) *certs.FinalityCertificate {
	ts := func(epoch int64, n int) *gpbft.TipSet {
		return &gpbft.TipSet{Epoch: epoch, Key: gpbft.TipSetKey(fmt.Sprintf("t%d.%d", inst, n)), PowerTable: commit}
	}
	return &certs.FinalityCertificate{
		GPBFTInstance:    inst,
		ECChain:          &gpbft.ECChain{TipSets: []*gpbft.TipSet{ts(int64(inst)*2, 0), ts(int64(inst)*2+1, 1)}},
		SupplementalData: gpbft.SupplementalData{PowerTable: commit},
		Signature:        []byte("sig-" + tag),
		PowerTableDelta:  delta,
	}
}

func hashID(b []byte) string {
	h := sha256.Sum256(b)
	return hex.EncodeToString(h[:8])
}

func certBytes(c *certs.FinalityCertificate) []byte {
	var buf bytes.Buffer
	if err := c.MarshalCBOR(&buf); err != nil {
		panic(err)
	}
	return buf.Bytes()
}

func absCert(c *certs.FinalityCertificate, id string) ev {
	return ev{"id": id, "inst": c.GPBFTInstance, "delta": absDelta(c.PowerTableDelta), "commit": absCID(c.SupplementalData.PowerTable)}
}

var noCert = ev{"id": "!", "inst": -1, "delta": atab{}, "commit": atab{}}

// ---------------------------------------------------------------- framing (the driver's own reader of the bytes)

type blk struct{ off, plen, blen int }

func frame(body []byte) []byte {
	buf := make([]byte, binary.MaxVarintLen64)
	n := binary.PutUvarint(buf, uint64(len(body)))
	return append(buf[:n:n], body...)
}

// frameScan cuts b into complete blocks; torn says what follows the last complete one.
func frameScan(b []byte) (blks []blk, torn string) {
	o := 0
	for o < len(b) {
		v, n := binary.Uvarint(b[o:])
		if n <= 0 {
			return blks, "mid"
		}
		avail := len(b) - o - n
		if uint64(avail) >= v {
			blks = append(blks, blk{o, n, int(v)})
			o += n + int(v)
			continue
		}
		if avail == 0 {
			return blks, "len"
		}
		return blks, "mid"
	}
	return blks, ""
}

func splitRaw(b []byte) [][]byte {
	blks, torn := frameScan(b)
	if torn != "" {
		panic("driver: export is not a sequence of complete blocks")
	}
	out := make([][]byte, len(blks))
	for i, k := range blks {
		out[i] = b[k.off : k.off+k.plen+k.blen]
	}
	return out
}

func join(raw ...[]byte) []byte {
	var out []byte
	for _, r := range raw {
		out = append(out, r...)
	}
	return out
}

func bodyOf(raw []byte) []byte {
	_, n := binary.Uvarint(raw)
	return raw[n:]
}

// describe reports the bytes as header + complete certificate blocks (abstract form, decoded with the real codecs).
func describe(b []byte) ev {
	d := ev{"hdrTorn": false, "version": 0, "first": 0, "latest": 0, "init": atab{}, "blocks": []any{}, "torn": "", "bad": 0}
	blks, torn := frameScan(b)
	if len(blks) == 0 {
		d["hdrTorn"] = true
		return d
	}
	bad := 0
	var h certstore.SnapshotHeader
	hb := b[blks[0].off+blks[0].plen : blks[0].off+blks[0].plen+blks[0].blen]
	if err := h.UnmarshalCBOR(bytes.NewReader(hb)); err != nil {
		bad++
	} else {
		d["version"], d["first"], d["latest"], d["init"] = h.Version, h.FirstInstance, h.LatestInstance, absTable(h.InitialPowerTable)
	}
	blocks := make([]any, 0, len(blks)-1)
	for _, k := range blks[1:] {
		body := b[k.off+k.plen : k.off+k.plen+k.blen]
		var c certs.FinalityCertificate
		if err := c.UnmarshalCBOR(bytes.NewReader(body)); err != nil {
			bad++
			blocks = append(blocks, noCert)
			continue
		}
		blocks = append(blocks, absCert(&c, hashID(body)))
	}
	d["blocks"], d["torn"], d["bad"] = blocks, torn, bad
	return d
}

// ---------------------------------------------------------------- datastores, projection

func newMap() datastore.Batching { return ds_sync.MutexWrap(datastore.NewMapDatastore()) }

func keysLeft(d datastore.Datastore) int {
	res, err := d.Query(ctx, query.Query{KeysOnly: true})
	if err != nil {
		return -1
	}
	all, _ := res.Rest()
	return len(all)
}

func emptyProj() ev {
	return ev{"first": 0, "latest": -1, "lid": "", "certs": []any{}, "tables": []any{}, "errs": 0}
}

// project reads everything an observer of a store can see through its public API.
func project(cs *certstore.Store) ev {
	first := certstore.VerifFirstInstance(cs)
	latest := int64(first) - 1
	lid := ""
	errs := 0
	if l := cs.Latest(); l != nil {
		latest = int64(l.GPBFTInstance)
		lid = hashID(certBytes(l))
	}
	cl := []any{}
	tl := []any{}
	if latest-int64(first) > 1000000 {
		return ev{"first": first, "latest": latest, "lid": lid, "certs": cl, "tables": tl, "errs": 1}
	}
	for i := first; int64(i) <= latest; i++ {
		c, err := cs.Get(ctx, i)
		if err != nil {
			errs++
			cl = append(cl, noCert)
			continue
		}
		cl = append(cl, absCert(c, hashID(certBytes(c))))
	}
	for i := first; int64(i) <= latest+1; i++ {
		pt, err := cs.GetPowerTable(ctx, i)
		if err != nil {
			errs++
			tl = append(tl, unrep(-1))
			continue
		}
		tl = append(tl, absTable(pt))
	}
	return ev{"first": first, "latest": latest, "lid": lid, "certs": cl, "tables": tl, "errs": errs}
}

func errClass(err error) string {
	switch {
	case err == nil:
		return ""
	case errors.Is(err, io.ErrUnexpectedEOF):
		return "ueof"
	case errors.Is(err, io.EOF):
		return "eof"
	default:
		return "other"
	}
}

func errMsg(err error) string {
	if err == nil {
		return ""
	}
	s := err.Error()
	if len(s) > 160 {
		s = s[:160]
	}
	return s
}

// ---------------------------------------------------------------- one history

const prodF = 1440

type hist struct {
	r     *rec
	rng   *rand.Rand
	idx   int
	first uint64
	F     uint64
	n     int
	tabs  []atab // tabs[0] = initial table, tabs[j] = table after the j-th certificate
	certs []*certs.FinalityCertificate
	cs    *certstore.Store
	every int // every-byte truncation for exports up to this many bytes
	v     string // variant of the next import (recorded, then cleared)
}

func (h *hist) nextTable(t atab, quiet bool) atab {
	if quiet {
		return t
	}
	for {
		out := make(atab, NP)
		copy(out, t)
		for p := range out {
			if h.rng.Intn(2) == 0 {
				out[p] = int64(h.rng.Intn(4))
			}
		}
		var sum int64
		for _, x := range out {
			sum += x
		}
		if sum > 0 {
			return out
		}
	}
}

// build creates the exporter: a real store over a fresh datastore with n certificates Put into it.
func (h *hist) build(mode int) {
	init := h.nextTable(atab{1, 0, 2}, false)
	h.tabs = []atab{init}
	tableCID(init)
	for j := 1; j <= h.n; j++ {
		quiet := mode == 3 || (mode == 2 && j > h.n/2) || (mode == 1 && h.rng.Intn(3) == 0)
		h.tabs = append(h.tabs, h.nextTable(h.tabs[j-1], quiet))
	}
	cs, err := certstore.OpenOrCreateStore(ctx, newMap(), h.first, realTable(init))
	if err != nil {
		panic(err)
	}
	if h.F != prodF {
		certstore.VerifSetPowerTableFrequency(cs, h.F)
	}
	h.cs = cs
	puterrs := 0
	cl := []any{}
	for j := 1; j <= h.n; j++ {
		inst := h.first + uint64(j) - 1
		c := buildCert(inst, realDelta(h.tabs[j-1], minus(h.tabs[j], h.tabs[j-1])), tableCID(h.tabs[j]), fmt.Sprintf("%d-%d", h.idx, inst))
		if err := cs.Put(ctx, c); err != nil {
			puterrs++
		}
		h.certs = append(h.certs, c)
		cl = append(cl, absCert(c, hashID(certBytes(c))))
	}
	h.r.emit(ev{"ev": "Store", "h": h.idx, "first": h.first, "F": h.F, "init": init, "certs": cl, "puterrs": puterrs, "mode": mode})
	var p ev
	pm := catch(func() { p = project(cs) })
	if pm != "" {
		p = emptyProj()
		p["errs"] = 1
	}
	p["ev"] = "Proj"
	p["panic"] = pm
	h.r.emit(p)
}

type export struct {
	e    uint64
	data []byte
	raw  [][]byte // raw[0] header block, raw[j] j-th certificate block (with length prefixes)
	ok   bool
}

func (h *hist) export(api string, e uint64) export {
	var buf bytes.Buffer
	var c cid.Cid
	var hdr *certstore.SnapshotHeader
	var err error
	pm := catch(func() {
		if api == "latest" {
			c, hdr, err = h.cs.ExportLatestSnapshot(ctx, &buf)
		} else {
			c, hdr, err = h.cs.ExportSnapshot(ctx, e, &buf)
		}
	})
	data := append([]byte{}, buf.Bytes()...)
	sum := blake2b.Sum256(data)
	redigest := hex.EncodeToString(sum[:])
	recid := ""
	if mh, e2 := multihash.Encode(sum[:], multihash.BLAKE2B_MIN+31); e2 == nil {
		recid = cid.NewCidV1(cid.Raw, mh).String()
	}
	cidS, digest := "", ""
	if err == nil && pm == "" && c.Defined() {
		cidS = c.String()
		if dm, e2 := multihash.Decode(c.Hash()); e2 == nil {
			digest = hex.EncodeToString(dm.Digest)
		}
	}
	hd := ev{"first": 0, "latest": 0, "init": atab{}}
	if hdr != nil {
		hd = ev{"first": hdr.FirstInstance, "latest": hdr.LatestInstance, "init": absTable(hdr.InitialPowerTable)}
	}
	h.r.emit(ev{"ev": "Export", "api": api, "e": e, "err": errClass(err), "errmsg": errMsg(err), "panic": pm, "cid": cidS, "recid": recid,
		"digest": digest, "redigest": redigest, "hdr": hd, "nbytes": len(data), "parsed": describe(data)})
	x := export{e: e, data: data, ok: err == nil && pm == ""}
	if x.ok {
		if _, torn := frameScan(data); torn == "" && len(data) > 0 {
			x.raw = splitRaw(data)
		} else {
			x.ok = false
		}
	}
	return x
}

type manSpec struct {
	on       bool
	first    uint64
	hasTable bool
	table    cid.Cid
	net      string
}

var noMan = manSpec{}

func (h *hist) doImport(class string, pos int, data []byte, ms manSpec, api string, F uint64) {
	var m *manifest.Manifest
	mabs := ev{"on": ms.on, "first": ms.first, "hasTable": ms.hasTable, "table": atab{}}
	if ms.on {
		mm := manifest.LocalDevnetManifest()
		mm.InitialInstance = ms.first
		mm.InitialPowerTable = cid.Undef
		if ms.hasTable {
			mm.InitialPowerTable = ms.table
			mabs["table"] = absCID(ms.table)
		}
		if ms.net != "" {
			mm.NetworkName = gpbft.NetworkName(ms.net)
		}
		m = &mm
	}
	ds := newMap()
	var err error
	pm := catch(func() {
		if api == "public" {
			err = certstore.ImportSnapshotToDatastore(ctx, bytes.NewReader(data), ds, m)
		} else {
			err = certstore.VerifImportSnapshotWithFrequency(ctx, bytes.NewReader(data), ds, m, F)
		}
	})
	proj := emptyProj()
	openerr := ""
	if err == nil && pm == "" {
		ppm := catch(func() {
			cs, oerr := certstore.OpenStore(ctx, ds)
			if oerr != nil {
				openerr = "open: " + errMsg(oerr)
				return
			}
			if api != "public" {
				certstore.VerifSetPowerTableFrequency(cs, F)
			}
			proj = project(cs)
		})
		if ppm != "" {
			openerr = "panic: " + ppm
		}
	}
	h.r.counts[class]++
	variant := h.v
	h.v = ""
	h.r.emit(ev{"ev": "Import", "class": class, "variant": variant, "pos": pos, "api": api, "F": F, "man": mabs, "s": describe(data), "nbytes": len(data),
		"err": errClass(err), "errmsg": errMsg(err), "panic": pm, "openerr": openerr, "left": keysLeft(ds), "proj": proj})
}

func (h *hist) reencodeCert(raw []byte, f func(c *certs.FinalityCertificate)) []byte {
	var c certs.FinalityCertificate
	if err := c.UnmarshalCBOR(bytes.NewReader(bodyOf(raw))); err != nil {
		panic(err)
	}
	f(&c)
	return frame(certBytes(&c))
}

func reencodeHeader(raw []byte, f func(h *certstore.SnapshotHeader)) []byte {
	var hd certstore.SnapshotHeader
	if err := hd.UnmarshalCBOR(bytes.NewReader(bodyOf(raw))); err != nil {
		panic(err)
	}
	f(&hd)
	var buf bytes.Buffer
	if err := hd.MarshalCBOR(&buf); err != nil {
		panic(err)
	}
	return frame(buf.Bytes())
}

func with(raw [][]byte, j int, b []byte) [][]byte {
	out := append([][]byte{}, raw...)
	out[j] = b
	return out
}

// positions of certificate blocks (1..n) that corruptions are applied to
func (h *hist) positions(n int, F uint64) []int {
	if n <= 6 {
		out := make([]int, n)
		for i := range out {
			out[i] = i + 1
		}
		return out
	}
	set := map[int]bool{1: true, 2: true, n - 1: true, n: true}
	cp := 0
	for j := 1; j <= n && cp < 3; j++ {
		if (h.first+uint64(j))%F == 0 { // instance first+j-1 is the last before a checkpoint
			cp++
			for _, k := range []int{j - 1, j, j + 1} {
				if k >= 1 && k <= n {
					set[k] = true
				}
			}
		}
	}
	for i := 0; i < 3; i++ {
		set[1+h.rng.Intn(n)] = true
	}
	out := []int{}
	for k := range set {
		out = append(out, k)
	}
	sort.Ints(out)
	return out
}

func (h *hist) isCheckpoint(j int, F uint64) bool { return (h.first+uint64(j))%F == 0 }

// corrupt applies every corruption class to one export and imports each result into an empty datastore.
func (h *hist) corrupt(x export, full export, api string, F uint64, everyByte bool) {
	n := len(x.raw) - 1
	raw := x.raw
	pos := h.positions(n, F)

	// ---- truncation
	if everyByte {
		for k := 0; k < len(x.data); k++ {
			h.doImport("trunc", k, x.data[:k], noMan, api, F)
		}
	} else {
		blks, _ := frameScan(x.data)
		cut := map[int]bool{0: true, 1: true}
		want := map[int]bool{0: true}
		for _, j := range pos {
			want[j] = true
		}
		for j, k := range blks {
			if !want[j] {
				continue
			}
			for _, o := range []int{k.off, k.off + 1, k.off + k.plen, k.off + k.plen + 1, k.off + k.plen + k.blen/2, k.off + k.plen + k.blen - 1} {
				if o >= 0 && o < len(x.data) {
					cut[o] = true
				}
			}
		}
		offs := []int{}
		for o := range cut {
			offs = append(offs, o)
		}
		sort.Ints(offs)
		for _, o := range offs {
			h.doImport("trunc", o, x.data[:o], noMan, api, F)
		}
	}

	// ---- gap, reorder, duplicate
	for _, j := range pos {
		if j < n {
			g := append(append([][]byte{}, raw[:j]...), raw[j+1:]...)
			h.doImport("gap", j, join(g...), noMan, api, F)
			s := append([][]byte{}, raw...)
			s[j], s[j+1] = s[j+1], s[j]
			h.doImport("reorder", j, join(s...), noMan, api, F)
		}
		d := append(append(append([][]byte{}, raw[:j+1]...), raw[j]), raw[j+1:]...)
		h.doImport("dup", j, join(d...), noMan, api, F)
	}
	if n >= 3 {
		s := append([][]byte{}, raw...)
		s[1], s[n] = s[n], s[1]
		h.doImport("reorder", 0, join(s...), noMan, api, F)
	}

	// ---- surplus certificates after the announced ones
	h.doImport("surplus", 1, join(append(append([][]byte{}, raw...), raw[1])...), noMan, api, F)
	h.doImport("surplus", n, join(append(append([][]byte{}, raw...), raw[n])...), noMan, api, F)
	if len(full.raw)-1 > n { // the exporter's own next certificate: a perfectly valid successor, only the header says stop
		h.doImport("surplus", n+1, join(append(append([][]byte{}, raw...), full.raw[n+1])...), noMan, api, F)
	} else { // a fabricated valid successor (empty delta, same committed table)
		nx := buildCert(x.e+1, nil, tableCID(h.tabs[n]), fmt.Sprintf("%d-surplus", h.idx))
		h.doImport("surplus", n+1, join(append(append([][]byte{}, raw...), frame(certBytes(nx)))...), noMan, api, F)
	}

	// ---- header disagrees with the blocks
	hv := []func(hd *certstore.SnapshotHeader){
		func(hd *certstore.SnapshotHeader) { hd.FirstInstance++ },
		func(hd *certstore.SnapshotHeader) { hd.LatestInstance++ },
		func(hd *certstore.SnapshotHeader) { hd.InitialPowerTable = realTable(plus(h.tabs[0], bumpOf(0, 1))) },
		func(hd *certstore.SnapshotHeader) { hd.InitialPowerTable = realTable(plus(h.tabs[0], bumpOf(2, 2))) },
	}
	if h.first > 0 {
		hv = append(hv, func(hd *certstore.SnapshotHeader) { hd.FirstInstance-- })
	}
	if x.e > 0 {
		hv = append(hv, func(hd *certstore.SnapshotHeader) { hd.LatestInstance-- })
	}
	tableCID(plus(h.tabs[0], bumpOf(0, 1)))
	tableCID(plus(h.tabs[0], bumpOf(2, 2)))
	for i, f := range hv {
		cls := "header"
		if i == 2 || i == 3 { // another initial table: the deltas no longer reproduce the committed tables
			cls = "hdrinit"
		}
		h.doImport(cls, i, join(with(raw, 0, reencodeHeader(raw[0], f))...), noMan, api, F)
	}
	// ... and with a manifest that pins the real initial table
	h.doImport("hdrinit", 11, join(with(raw, 0, reencodeHeader(raw[0], hv[2]))...), manSpec{on: true, first: h.first, hasTable: true, table: tableCID(h.tabs[0])}, api, F)
	// a shifted header that agrees with a shifted manifest still disagrees with the blocks
	h.doImport("header", 10, join(with(raw, 0, reencodeHeader(raw[0], func(hd *certstore.SnapshotHeader) { hd.FirstInstance++ }))...),
		manSpec{on: true, first: h.first + 1}, api, F)

	// ---- manifest disagrees with the header
	initCID := tableCID(h.tabs[0])
	ms := []manSpec{
		{on: true, first: h.first + 1},
		{on: true, first: h.first + 1, hasTable: true, table: initCID},
		{on: true, first: h.first, hasTable: true, table: tableCID(plus(h.tabs[0], bumpOf(0, 1)))},
		{on: true, first: h.first, hasTable: true, table: garbageCID},
		{on: true, first: h.first, hasTable: true, table: tableCID(h.tabs[n])},
	}
	if h.first > 0 {
		ms = append(ms, manSpec{on: true, first: h.first - 1, hasTable: true, table: initCID})
	}
	for i, m := range ms {
		if i == 4 && fmt.Sprint(h.tabs[n]) == fmt.Sprint(h.tabs[0]) {
			continue
		}
		h.doImport("manifest", i, x.data, m, api, F)
	}

	// ---- deltas that do not reproduce the committed tables
	for _, j := range pos {
		trueD := minus(h.tabs[j], h.tabs[j-1])
		b := bumpOf(0, 1)
		// (a) one unit too much, never taken back: noticed at the next checkpoint or at the end
		bad := h.reencodeCert(raw[j], func(c *certs.FinalityCertificate) { c.PowerTableDelta = realDelta(h.tabs[j-1], plus(trueD, b)) })
		h.v = "kept"
		h.doImport("baddelta", j, join(with(raw, j, bad)...), noMan, api, F)
		// (b) taken back by the next certificate: only a check at position j can notice it
		if j < n {
			nextD := minus(minus(h.tabs[j+1], h.tabs[j]), b)
			comp := h.reencodeCert(raw[j+1], func(c *certs.FinalityCertificate) { c.PowerTableDelta = realDelta(plus(h.tabs[j], b), nextD) })
			cls := "obs-midcomp"
			if h.isCheckpoint(j, F) {
				cls = "baddelta"
			}
			h.v = "takenback"
			h.doImport(cls, j, join(with(with(raw, j, bad), j+1, comp)...), noMan, api, F)
		}
		// (c) the committed table is another one
		cls := "obs-midcommit"
		if j == n || h.isCheckpoint(j, F) {
			cls = "baddelta"
		}
		oc := h.reencodeCert(raw[j], func(c *certs.FinalityCertificate) { c.SupplementalData.PowerTable = tableCID(plus(h.tabs[j], b)) })
		h.v = "commit"
		h.doImport(cls, j, join(with(raw, j, oc)...), noMan, api, F)
		// (d) a delta that drives a power below zero
		p := h.rng.Intn(NP)
		neg := h.reencodeCert(raw[j], func(c *certs.FinalityCertificate) {
			c.PowerTableDelta = realDelta(h.tabs[j-1], plus(trueD, bumpOf(p, -(h.tabs[j][p]+1))))
		})
		h.v = "negative"
		h.doImport("baddelta", j, join(with(raw, j, neg)...), noMan, api, F)
		// (e) another signature: the import does not validate signatures, the property does not list it
		sg := h.reencodeCert(raw[j], func(c *certs.FinalityCertificate) { c.Signature = []byte("forged") })
		h.doImport("obs-sig", j, join(with(raw, j, sg)...), noMan, api, F)
	}

	// ---- bytes after the last announced certificate that are not a certificate (not one of the listed classes)
	h.doImport("obs-trail-len", 0, append(append([]byte{}, x.data...), 0x05), noMan, api, F)
	h.doImport("obs-trail-mid", 0, append(append([]byte{}, x.data...), 0x05, 0x01), noMan, api, F)
	h.doImport("obs-trail-mid", 1, append(append([]byte{}, x.data...), 0x85), noMan, api, F)
	// ---- a manifest of another network: the header carries no network name
	h.doImport("obs-netname", 0, x.data, manSpec{on: true, first: h.first, hasTable: true, table: initCID, net: "verif-other-net"}, api, F)
}

func (h *hist) roundtrips(x export, api string, F uint64) {
	initCID := tableCID(h.tabs[0])
	if api == "test" {
		h.doImport("none", 0, x.data, noMan, "test", F)
		h.doImport("none", 1, x.data, manSpec{on: true, first: h.first}, "test", F)
		h.doImport("none", 2, x.data, manSpec{on: true, first: h.first, hasTable: true, table: initCID}, "test", F)
		h.doImport("none", 3, x.data, noMan, "test", F%5+2) // another checkpoint frequency than the exporter's
	}
	h.doImport("none", 4, x.data, noMan, "public", prodF)
	h.doImport("none", 5, x.data, manSpec{on: true, first: h.first, hasTable: true, table: initCID}, "public", prodF)
}

func (h *hist) run(mode int) {
	h.build(mode)
	latest := h.first + uint64(h.n) - 1
	api, F := "test", h.F
	if h.F == prodF || h.idx%5 == 4 {
		api, F = "public", prodF
	}
	full := h.export("latest", latest)
	if !full.ok {
		return
	}
	h.roundtrips(full, api, F)
	h.corrupt(full, full, api, F, len(full.data) <= h.every)

	ends := []uint64{latest, h.first}
	for j := 1; j < h.n; j++ {
		if h.isCheckpoint(j, h.F) {
			ends = append(ends, h.first+uint64(j)-1, h.first+uint64(j))
			break
		}
	}
	if h.n > 2 {
		ends = append(ends, h.first+uint64(h.rng.Intn(h.n-1)))
	}
	seen := map[uint64]bool{}
	for i, e := range ends {
		if (seen[e] && i > 0) || e > latest {
			continue
		}
		seen[e] = true
		x := h.export("end", e)
		if !x.ok {
			continue
		}
		h.roundtrips(x, api, F)
		if i > 0 { // e = latest has been corrupted above (same bytes)
			h.corrupt(x, full, api, F, len(x.data) <= h.every && i == 1)
		}
	}
	// end points outside the stored range: observations only
	h.export("end", latest+1)
	if h.first > 0 {
		x := h.export("end", h.first-1)
		if x.ok {
			h.doImport("emptyexport", 0, x.data, noMan, api, F)
		}
	}
}

// ---------------------------------------------------------------- entry points

func openRec(t *testing.T) (*rec, func()) {
	out := os.Getenv("VERIF_OUT")
	if out == "" {
		t.Skip("VERIF_OUT not set")
	}
	f, err := os.Create(out)
	if err != nil {
		t.Fatal(err)
	}
	r := &rec{w: bufio.NewWriterSize(f, 1<<20), counts: map[string]int{}}
	return r, func() {
		r.w.Flush()
		f.Close()
		t.Logf("events=%d classes=%v", r.n, r.counts)
	}
}

// TestSnapshot: VERIF_N histories; first instance in {0,3} (and just below 1440 for the production frequency),
// checkpoint frequency 1..5 through the accessors or 1440 through the public API, lengths crossing it.
func TestSnapshot(t *testing.T) {
	r, done := openRec(t)
	defer done()
	seed := int64(envInt("VERIF_SEED", 1))
	nh := envInt("VERIF_N", 12)
	maxlen := envInt("VERIF_MAXLEN", 12)
	every := envInt("VERIF_EVERYBYTE", 1500)
	freqs := []uint64{2, 3, 1, 4, 5, prodF}
	for i := 0; i < nh; i++ {
		h := &hist{r: r, rng: rand.New(rand.NewSource(seed*7919 + int64(i))), idx: i, every: every}
		h.F = freqs[i%len(freqs)]
		h.first = []uint64{0, 3}[(i/len(freqs)+i)%2]
		switch {
		case h.F == prodF:
			h.first = uint64(prodF - 1 - h.rng.Intn(4))
			h.n = 3 + h.rng.Intn(5)
		case i%3 == 0:
			h.n = 1 + h.rng.Intn(3)
		default:
			h.n = int(h.F) + 1 + h.rng.Intn(max(2, maxlen-int(h.F))) // always beyond the first checkpoint
		}
		if h.n > maxlen {
			h.n = maxlen
		}
		h.run(i % 4)
	}
}

// TestSnapshotBig: one long store at the production frequency from instance 0 across 1440 (and across the
// import's write batch of 1000 entries), imported through the public API and with a lowered frequency.  The lowered
// frequency divides 1440: OpenStore loads the latest table with the production frequency before the accessor can
// lower it, so a store imported with a test-only frequency that skips the 1440 checkpoint could not be opened at all
// (an artefact of the test-only entry point, not of the production path).
func TestSnapshotBig(t *testing.T) {
	r, done := openRec(t)
	defer done()
	seed := int64(envInt("VERIF_SEED", 1))
	n := envInt("VERIF_BIG", 1500)
	h := &hist{r: r, rng: rand.New(rand.NewSource(seed*104729 + 17)), idx: 0, first: 0, F: prodF, n: n}
	h.build(1)
	latest := uint64(n) - 1
	full := h.export("latest", latest)
	if !full.ok {
		return
	}
	raw := full.raw
	initCID := tableCID(h.tabs[0])
	for _, a := range []struct {
		api string
		F   uint64
	}{{"public", prodF}, {"test", 8}} {
		h.doImport("none", 0, full.data, noMan, a.api, a.F)
		h.doImport("none", 2, full.data, manSpec{on: true, first: 0, hasTable: true, table: initCID}, a.api, a.F)
		blks, _ := frameScan(full.data)
		last := blks[len(blks)-1]
		for _, o := range []int{last.off, last.off + 1, last.off + last.plen, last.off + last.plen + last.blen - 1, blks[n/2].off, blks[n/2].off + 7} {
			h.doImport("trunc", o, full.data[:o], noMan, a.api, a.F)
		}
		j := n / 2
		h.doImport("gap", j, join(append(append([][]byte{}, raw[:j]...), raw[j+1:]...)...), noMan, a.api, a.F)
		s := append([][]byte{}, raw...)
		s[n-3], s[n-2] = s[n-2], s[n-3]
		h.doImport("reorder", n-3, join(s...), noMan, a.api, a.F)
		h.doImport("surplus", n, join(append(append([][]byte{}, raw...), raw[n])...), noMan, a.api, a.F)
		h.doImport("header", 1, join(with(raw, 0, reencodeHeader(raw[0], func(hd *certstore.SnapshotHeader) { hd.LatestInstance++ }))...), noMan, a.api, a.F)
		h.doImport("manifest", 0, full.data, manSpec{on: true, first: 1}, a.api, a.F)
		b := bumpOf(0, 1)
		for _, k := range []int{1, n} {
			bad := h.reencodeCert(raw[k], func(c *certs.FinalityCertificate) {
				c.PowerTableDelta = realDelta(h.tabs[k-1], plus(minus(h.tabs[k], h.tabs[k-1]), b))
			})
			h.v = "kept"
			h.doImport("baddelta", k, join(with(raw, k, bad)...), noMan, a.api, a.F)
		}
		for k := 1; k < n; k++ { // compensated exactly at the first checkpoint of this frequency
			if h.isCheckpoint(k, a.F) {
				bad := h.reencodeCert(raw[k], func(c *certs.FinalityCertificate) {
					c.PowerTableDelta = realDelta(h.tabs[k-1], plus(minus(h.tabs[k], h.tabs[k-1]), b))
				})
				comp := h.reencodeCert(raw[k+1], func(c *certs.FinalityCertificate) {
					c.PowerTableDelta = realDelta(plus(h.tabs[k], b), minus(minus(h.tabs[k+1], h.tabs[k]), b))
				})
				h.v = "takenback"
				h.doImport("baddelta", k, join(with(with(raw, k, bad), k+1, comp)...), noMan, a.api, a.F)
				break
			}
		}
	}
	x := h.export("end", uint64(n/2))
	if x.ok {
		h.doImport("none", 0, x.data, noMan, "public", prodF)
	}
}

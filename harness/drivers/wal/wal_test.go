//go:build verif

// Driver for property C11: runs random and model-generated histories on the real
// internal/writeaheadlog.WriteAheadLog and records one NDJSON event per public call.
// The verdict is TLC's (spec/wal/WALTrace.tla); this file contains no oracle.
package zzwal

import (
	"bufio"
	"encoding/json"
	"fmt"
	"io"
	"math/rand"
	"os"
	"path/filepath"
	"sort"
	"strconv"
	"testing"

	"github.com/filecoin-project/go-f3/internal/writeaheadlog"
	cbg "github.com/whyrusleeping/cbor-gen"
)

type entry struct {
	ID      uint64
	Epoch   uint64
	Payload []byte
	Poison  bool // not encodable: MarshalCBOR emits the headers and half of the payload, then fails
}

func (e *entry) WALEpoch() uint64 { return e.Epoch }
func (e *entry) MarshalCBOR(w io.Writer) error {
	cw := cbg.NewCborWriter(w)
	if err := cw.WriteMajorTypeHeader(cbg.MajArray, 3); err != nil {
		return err
	}
	if err := cw.WriteMajorTypeHeader(cbg.MajUnsignedInt, e.ID); err != nil {
		return err
	}
	if err := cw.WriteMajorTypeHeader(cbg.MajUnsignedInt, e.Epoch); err != nil {
		return err
	}
	if err := cw.WriteMajorTypeHeader(cbg.MajByteString, uint64(len(e.Payload))); err != nil {
		return err
	}
	if e.Poison {
		if _, err := cw.Write(e.Payload[:len(e.Payload)/2]); err != nil {
			return err
		}
		return fmt.Errorf("value cannot be encoded")
	}
	_, err := cw.Write(e.Payload)
	return err
}
func (e *entry) UnmarshalCBOR(r io.Reader) error {
	cr := cbg.NewCborReader(r)
	maj, n, err := cr.ReadHeader()
	if err != nil {
		return err
	}
	if maj != cbg.MajArray || n != 3 {
		return fmt.Errorf("bad entry header")
	}
	if maj, e.ID, err = cr.ReadHeader(); err != nil || maj != cbg.MajUnsignedInt {
		return fmt.Errorf("bad id: %v", err)
	}
	if maj, e.Epoch, err = cr.ReadHeader(); err != nil || maj != cbg.MajUnsignedInt {
		return fmt.Errorf("bad epoch: %v", err)
	}
	maj, n, err = cr.ReadHeader()
	if err != nil || maj != cbg.MajByteString || n > 8<<20 {
		return fmt.Errorf("bad payload header: %v", err)
	}
	e.Payload = make([]byte, n)
	if _, err := io.ReadFull(cr, e.Payload); err != nil {
		return err
	}
	return nil
}

type WAL = writeaheadlog.WriteAheadLog[entry, *entry]

func payload(id uint64, n int) []byte {
	b := make([]byte, n)
	for i := range b {
		b[i] = byte(id*31 + uint64(i)*7)
	}
	return b
}

type ev map[string]any

type rec struct {
	w *bufio.Writer
	n int
}

func (r *rec) emit(e ev) {
	b, _ := json.Marshal(e)
	r.w.Write(b)
	r.w.WriteByte('\n')
	r.n++
}

func listWal(dir string) ([]string, map[string]int64) {
	des, _ := os.ReadDir(dir)
	var names []string
	sizes := map[string]int64{}
	for _, d := range des {
		if filepath.Ext(d.Name()) == ".cbor" {
			names = append(names, d.Name())
			fi, _ := d.Info()
			sizes[d.Name()] = fi.Size()
		}
	}
	sort.Strings(names)
	return names, sizes
}

type hist struct {
	t      *testing.T
	r      *rec
	rng    *rand.Rand
	dir    string
	wal    *WAL
	nextID uint64
	sizes  map[uint64]int // payload size per id
	last   struct {       // last successful append (for tear forks)
		id    uint64
		file  string
		bytes int64 // encoded size of the record
		valid bool
	}
}

func (h *hist) open() {
	names, _ := listWal(h.dir)
	w, err := writeaheadlog.Open[entry](h.dir)
	if err != nil {
		h.t.Fatalf("open: %v", err)
	}
	h.wal = w
	if names == nil {
		names = []string{}
	}
	h.r.emit(ev{"ev": "Open", "files": names})
	h.last.valid = false
}

func (h *hist) appendEntry(epoch uint64, size int) {
	_, before := listWal(h.dir)
	id := h.nextID
	h.nextID++
	e := entry{ID: id, Epoch: epoch, Payload: payload(id, size)}
	err := h.wal.Append(e)
	names, after := listWal(h.dir)
	file := ""
	var grew int64
	for _, n := range names {
		if after[n] != before[n] {
			file = n
			grew = after[n] - before[n]
		}
		if _, ok := before[n]; !ok && file == "" {
			file = n // new empty file cannot happen on success, but keep the observation
		}
	}
	h.sizes[id] = size
	h.r.emit(ev{"ev": "Append", "id": id, "epoch": epoch, "size": grew, "file": file, "ok": err == nil})
	h.last.id, h.last.file, h.last.bytes, h.last.valid = id, file, grew, err == nil
}

// rejectEntry appends a value whose encoder fails half way: the call must be refused and must leave no trace in the log.
func (h *hist) rejectEntry(epoch uint64, size int) {
	_, before := listWal(h.dir)
	err := h.wal.Append(entry{ID: 1 << 40, Epoch: epoch, Payload: payload(1<<40, size), Poison: true})
	names, _ := listWal(h.dir)
	file := ""
	for _, n := range names {
		if _, ok := before[n]; !ok {
			file = n
		}
	}
	h.r.emit(ev{"ev": "Append", "id": 0, "epoch": epoch, "size": 0, "file": file, "ok": err == nil, "rejected": true})
	h.last.valid = false
}

func (h *hist) all() {
	got, err := h.wal.All()
	ids := make([]uint64, 0, len(got))
	intact := true
	for _, g := range got {
		ids = append(ids, g.ID)
		want := payload(g.ID, len(g.Payload))
		if sz, ok := h.sizes[g.ID]; !ok || sz != len(g.Payload) || string(want) != string(g.Payload) {
			intact = false
		}
	}
	h.r.emit(ev{"ev": "All", "ids": ids, "intact": intact, "ok": err == nil})
}

func (h *hist) purge(k uint64) {
	_ = h.wal.Purge(k)
	names, _ := listWal(h.dir)
	if names == nil {
		names = []string{}
	}
	h.r.emit(ev{"ev": "Purge", "k": k, "left": names})
	h.last.valid = h.last.valid && contains(names, h.last.file)
}

func contains(s []string, x string) bool {
	for _, y := range s {
		if y == x {
			return true
		}
	}
	return false
}

// tearForks: for the last successful append, for each cut offset, clone the directory with the
// newest record cut at that byte, reopen, read, append once more, read again.
func (h *hist) tearForks(cuts []int64) {
	if !h.last.valid {
		return
	}
	names, sizes := listWal(h.dir)
	for _, cut := range cuts {
		fork, err := os.MkdirTemp(filepath.Dir(h.dir), "fork")
		if err != nil {
			h.t.Fatal(err)
		}
		for _, n := range names {
			src := filepath.Join(h.dir, n)
			dst := filepath.Join(fork, n)
			if n != h.last.file {
				if sizes[n] > 64<<10 {
					if err := os.Link(src, dst); err != nil {
						h.t.Fatal(err)
					}
				} else {
					b, _ := os.ReadFile(src)
					os.WriteFile(dst, b, 0o644)
				}
				continue
			}
			keep := sizes[n] - h.last.bytes + cut
			in, _ := os.Open(src)
			out, _ := os.Create(dst)
			io.CopyN(out, in, keep)
			in.Close()
			out.Close()
		}
		h.r.emit(ev{"ev": "TearFork", "id": h.last.id, "cut": cut, "of": h.last.bytes})
		f := &hist{t: h.t, r: h.r, rng: h.rng, dir: fork, nextID: h.nextID, sizes: h.sizes}
		f.open()
		f.all()
		f.appendEntry(uint64(h.rng.Intn(4)), 10+h.rng.Intn(40))
		f.all()
		if h.rng.Intn(4) == 0 {
			f.purge(uint64(h.rng.Intn(5)))
			f.all()
		}
		f.wal.Close()
		delete(h.sizes, f.nextID-1)
		h.r.emit(ev{"ev": "ForkEnd"})
		os.RemoveAll(fork)
	}
}

func envInt(k string, d int) int {
	if v, err := strconv.Atoi(os.Getenv(k)); err == nil {
		return v
	}
	return d
}

func TestWALHistories(t *testing.T) {
	out := os.Getenv("VERIF_OUT")
	if out == "" {
		t.Skip("VERIF_OUT not set")
	}
	seed := int64(envInt("VERIF_SEED", 1))
	nh := envInt("VERIF_N", 40)
	steps := envInt("VERIF_STEPS", 30)
	allCuts := envInt("VERIF_ALLCUTS", 3) // how many appends per history get every-byte tear forks
	fh, err := os.Create(out)
	if err != nil {
		t.Fatal(err)
	}
	defer fh.Close()
	r := &rec{w: bufio.NewWriterSize(fh, 1<<20)}
	defer r.w.Flush()
	rng := rand.New(rand.NewSource(seed))
	base := t.TempDir()
	for hi := 0; hi < nh; hi++ {
		if hi > 0 {
			r.emit(ev{"ev": "Reset"})
		}
		h := &hist{t: t, r: r, rng: rng, dir: filepath.Join(base, fmt.Sprintf("h%d", hi)), nextID: 1, sizes: map[uint64]int{}}
		big := hi%4 == 3 // every fourth history crosses the 1 MiB rotation threshold
		h.open()
		forksLeft := allCuts
		for s := 0; s < steps; s++ {
			switch x := rng.Intn(100); {
			case x < 50:
				size := 8 + rng.Intn(300)
				if big && rng.Intn(3) == 0 {
					size = 200_000 + rng.Intn(400_000)
				}
				if rng.Intn(8) == 0 {
					h.rejectEntry(uint64(rng.Intn(5)), size)
					continue
				}
				h.appendEntry(uint64(rng.Intn(5)), size)
				if forksLeft > 0 && rng.Intn(4) == 0 && h.last.valid {
					forksLeft--
					var cuts []int64
					if h.last.bytes <= 700 {
						for c := int64(0); c <= h.last.bytes; c++ {
							cuts = append(cuts, c)
						}
					} else {
						for c := int64(0); c <= 32; c++ {
							cuts = append(cuts, c)
						}
						for i := 0; i < 24; i++ {
							cuts = append(cuts, 33+rng.Int63n(h.last.bytes-33))
						}
						cuts = append(cuts, h.last.bytes-1, h.last.bytes)
					}
					h.tearForks(cuts)
				}
			case x < 60:
				h.wal.Rotate()
				r.emit(ev{"ev": "Rotate"})
				h.last.valid = false
			case x < 65:
				h.wal.Close()
				r.emit(ev{"ev": "Close"})
				h.last.valid = false
			case x < 77:
				h.purge(uint64(rng.Intn(6)))
			case x < 90:
				h.all()
			default:
				// crash between calls: the object is dropped without Close
				r.emit(ev{"ev": "Crash"})
				h.open()
			}
		}
		h.all()
		h.wal.Close()
		os.RemoveAll(h.dir)
	}
	t.Logf("events=%d", r.n)
}

//go:build verif

// Driver for property C08 (quorum arithmetic and power scaling).
// It evaluates the REAL functions (gpbft.IsStrongQuorum, hasWeakQuorum and
// quorumState.CouldReachStrongQuorumFor through harness/inpkg/gpbft/quorum_access.go,
// PowerEntries.Scaled, PowerTable.Add, certs.ValidateFinalityCertificates, the message
// validator's justification check, the real tally) and records what they returned, one NDJSON
// row per line. No verdict is computed here: spec/quorum/QuorumTrace.tla (TLC) recomputes every
// expected value with the operators of Quorum.tla / PowerScale.tla and compares.
//
// Row kinds
//   thr   per whole w: for each predicate the least part in [0,w] for which it holds (w+1 if none)
//         and the number of parts in [0,w] for which it holds (pure counting, all 2^31 pairs evaluated)
//   cr    one CouldReachStrongQuorumFor evaluation (support, senders, whole) -> (without, with adversary)
//   big   IsStrongQuorum / hasWeakQuorum on large int64 values (limbs base 2^12, little endian)
//   scale PowerEntries.Scaled() / PowerTable.Add on big-integer tables (powers as limbs)
//   use   a component's accept/reject of a signer set of known scaled weight (certs / validator)
//   tally the real quorumState after feeding it votes of known weight
package zzquorum

import (
	"bufio"
	"context"
	"encoding/json"
	"math/big"
	"math/rand"
	"os"
	"runtime"
	"sort"
	"strconv"
	"sync"
	"testing"

	"github.com/filecoin-project/go-bitfield"
	"github.com/filecoin-project/go-f3/certs"
	"github.com/filecoin-project/go-f3/gpbft"
	"github.com/filecoin-project/go-f3/sim/signing"
)

const network = gpbft.NetworkName("verif-c08")

func envInt(name string, def int) int {
	if v := os.Getenv(name); v != "" {
		if n, err := strconv.Atoi(v); err == nil {
			return n
		}
	}
	return def
}

type row map[string]any

type out struct {
	w *bufio.Writer
	n int
}

func (o *out) emit(r row) {
	b, err := json.Marshal(r)
	if err != nil {
		panic(err)
	}
	o.w.Write(b)
	o.w.WriteByte('\n')
	o.n++
}

// limbs: little-endian base 2^12 digits of a non-negative big integer (TLC integers are 32 bit).
func limbs(x *big.Int) []int64 {
	if x.Sign() < 0 {
		panic("negative")
	}
	v := new(big.Int).Set(x)
	mask := big.NewInt(4095)
	res := []int64{}
	for v.Sign() > 0 {
		d := new(big.Int).And(v, mask)
		res = append(res, d.Int64())
		v.Rsh(v, 12)
	}
	return res
}

// scan evaluates f on every part in [0, w] and returns the least part where it holds (w+1 if none)
// and the number of parts where it holds.
func scan(w int64, f func(p int64) bool) (int64, int64) {
	min, cnt := w+1, int64(0)
	for p := int64(0); p <= w; p++ {
		if f(p) {
			cnt++
			if p < min {
				min = p
			}
		}
	}
	return min, cnt
}

type thrRow struct {
	sMin, sCnt, wMin, wCnt               int64
	a0Min, a0Cnt, a1Min, a1Cnt           int64 // CouldReach, everybody voted: support = u, senders = w
	b0Min, b0Cnt, b1Min, b1Cnt           int64 // CouldReach, nobody else voted: support = 0.. see below
	crEvaluated                          bool
}

func thresholds(maxW int64, crStride int64) []thrRow {
	rows := make([]thrRow, maxW+1)
	var wg sync.WaitGroup
	nw := runtime.GOMAXPROCS(0)
	var key gpbft.ECChainKey
	key[0] = 7
	for g := 0; g < nw; g++ {
		wg.Add(1)
		go func(g int) {
			defer wg.Done()
			for w := int64(g); w <= maxW; w += int64(nw) {
				r := &rows[w]
				r.sMin, r.sCnt = scan(w, func(p int64) bool { return gpbft.IsStrongQuorum(p, w) })
				r.wMin, r.wCnt = scan(w, func(p int64) bool { return gpbft.VerifQHasWeakQuorum(p, w) })
				if crStride > 1 && w%crStride != 0 && w > 2000 && w < maxW-64 {
					continue
				}
				r.crEvaluated = true
				t := gpbft.VerifQNewSyntheticTally(w, key)
				// family A: every participant has voted (senders = w), support u in [0, w]
				r.a0Min, r.a0Cnt = scan(w, func(u int64) bool { t.SetSynthetic(u, w); return t.CouldReachSynthetic(false) })
				r.a1Min, r.a1Cnt = scan(w, func(u int64) bool { t.SetSynthetic(u, w); return t.CouldReachSynthetic(true) })
				// family B: no support yet, senders = w - u have voted for something else
				r.b0Min, r.b0Cnt = scan(w, func(u int64) bool { t.SetSynthetic(0, w-u); return t.CouldReachSynthetic(false) })
				r.b1Min, r.b1Cnt = scan(w, func(u int64) bool { t.SetSynthetic(0, w-u); return t.CouldReachSynthetic(true) })
			}
		}(g)
	}
	wg.Wait()
	return rows
}

func TestQuorumRows(t *testing.T) {
	path := os.Getenv("VERIF_OUT")
	if path == "" {
		t.Skip("VERIF_OUT not set")
	}
	seed := int64(envInt("VERIF_SEED", 1))
	maxW := int64(envInt("VERIF_MAXW", 65535))
	crStride := int64(envInt("VERIF_CRSTRIDE", 1))
	w3 := int64(envInt("VERIF_W3", 36))
	nCR := envInt("VERIF_NCR", 4000)
	nBig := envInt("VERIF_NBIG", 2000)
	nScale := envInt("VERIF_NSCALE", 600)
	nUse := envInt("VERIF_NUSE", 120)
	rng := rand.New(rand.NewSource(seed))

	f, err := os.Create(path)
	if err != nil {
		t.Fatal(err)
	}
	defer f.Close()
	o := &out{w: bufio.NewWriterSize(f, 1<<20)}
	defer o.w.Flush()

	// ---- thr: all pairs 0 <= part <= whole <= maxW, compressed by counting
	var evals int64
	for w, r := range thresholds(maxW, crStride) {
		evals += 2 * (int64(w) + 1)
		rr := row{"k": "thr", "w": w, "sMin": r.sMin, "sCnt": r.sCnt, "wMin": r.wMin, "wCnt": r.wCnt, "cr": r.crEvaluated,
			"a0Min": r.a0Min, "a0Cnt": r.a0Cnt, "a1Min": r.a1Min, "a1Cnt": r.a1Cnt,
			"b0Min": r.b0Min, "b0Cnt": r.b0Cnt, "b1Min": r.b1Min, "b1Cnt": r.b1Cnt}
		if r.crEvaluated {
			evals += 4 * (int64(w) + 1)
		}
		o.emit(rr)
	}

	// ---- cr: every tally (support <= senders <= whole) for small wholes, random ones beyond
	var key gpbft.ECChainKey
	key[0] = 9
	crRow := func(s, v, w int64) {
		tl := gpbft.VerifQNewSyntheticTally(w, key)
		tl.SetSynthetic(s, v)
		o.emit(row{"k": "cr", "s": s, "v": v, "w": w, "r0": tl.CouldReachSynthetic(false), "r1": tl.CouldReachSynthetic(true)})
		evals += 2
	}
	for w := int64(0); w <= w3; w++ {
		for v := int64(0); v <= w; v++ {
			for s := int64(0); s <= v; s++ {
				crRow(s, v, w)
			}
		}
	}
	for i := 0; i < nCR; i++ {
		var w int64
		switch rng.Intn(3) {
		case 0:
			w = 65535 - rng.Int63n(40)
		case 1:
			w = rng.Int63n(65536)
		default:
			w = rng.Int63n(400)
		}
		v := rng.Int63n(w + 1)
		s := rng.Int63n(v + 1)
		if rng.Intn(2) == 0 { // aim at the boundary: s + (w - v) close to 2w/3 or w/3
			tgt := (2*w)/3 + rng.Int63n(5) - 2
			if rng.Intn(2) == 0 {
				tgt = (2*w)/3 - w/3 + rng.Int63n(5) - 2
			}
			s = tgt - (w - v)
			if s < 0 || s > v {
				s = rng.Int63n(v + 1)
			}
		}
		crRow(s, v, w)
	}

	// ---- big: large int64 operands (2*whole must fit int64: whole < 2^62)
	two62 := new(big.Int).Lsh(big.NewInt(1), 62)
	for i := 0; i < nBig; i++ {
		var whole *big.Int
		switch rng.Intn(4) {
		case 0:
			whole = new(big.Int).Sub(two62, big.NewInt(1+rng.Int63n(1000)))
		case 1:
			whole = new(big.Int).Rand(rng, two62)
		case 2:
			whole = new(big.Int).Rand(rng, new(big.Int).Lsh(big.NewInt(1), uint(17+rng.Intn(45))))
		default:
			whole = new(big.Int).Add(new(big.Int).Lsh(big.NewInt(1), uint(31+rng.Intn(31))), big.NewInt(rng.Int63n(7)-3))
		}
		if whole.Sign() < 0 || whole.Cmp(two62) >= 0 {
			whole = new(big.Int).Sub(two62, big.NewInt(1))
		}
		var part *big.Int
		switch rng.Intn(4) {
		case 0: // around two thirds
			part = new(big.Int).Mul(whole, big.NewInt(2))
			part.Div(part, big.NewInt(3))
			part.Add(part, big.NewInt(rng.Int63n(7)-3))
		case 1: // around one third
			part = new(big.Int).Div(whole, big.NewInt(3))
			part.Add(part, big.NewInt(rng.Int63n(7)-3))
		case 2:
			part = new(big.Int).Sub(whole, big.NewInt(rng.Int63n(3)))
		default:
			part = new(big.Int).Rand(rng, new(big.Int).Add(whole, big.NewInt(1)))
		}
		if part.Sign() < 0 {
			part = big.NewInt(0)
		}
		if part.Cmp(whole) > 0 {
			part = new(big.Int).Set(whole)
		}
		o.emit(row{"k": "big", "part": limbs(part), "whole": limbs(whole), "whole2": limbs(new(big.Int).Add(whole, big.NewInt(2))),
			"strong": gpbft.IsStrongQuorum(part.Int64(), whole.Int64()),
			"weak":   gpbft.VerifQHasWeakQuorum(part.Int64(), whole.Int64())})
		evals += 2
	}

	// ---- scale
	backend := signing.NewFakeBackend()
	keyOf := func(i int) gpbft.PubKey { return backend.Allow(i) }
	for i := 0; i < nScale; i++ {
		entries := randomTable(rng, keyOf, i)
		scaleRows(o, rng, entries)
		evals += 3
	}

	// ---- use: certs / validator / tally around the two-thirds boundary
	for i := 0; i < nUse; i++ {
		useRows(t, o, rng, backend, keyOf, i)
	}
	o.emit(row{"k": "end", "evaluations": evals})
	t.Logf("rows=%d evaluations=%d", o.n, evals)
}

var mag80 = new(big.Int).Add(new(big.Int).Lsh(big.NewInt(1), 80), big.NewInt(7))

// randomTable: big-integer power tables of every magnitude (1 .. 2^200), with boundary shapes.
func randomTable(rng *rand.Rand, keyOf func(int) gpbft.PubKey, idx int) gpbft.PowerEntries {
	n := 1 + rng.Intn(8)
	if rng.Intn(12) == 0 {
		n = 9 + rng.Intn(24)
	}
	shape := idx % 9
	if shape == 6 {
		n = 1 + rng.Intn(3)
	}
	var entries gpbft.PowerEntries
	randPow := func(bits int) *big.Int {
		p := new(big.Int).Rand(rng, new(big.Int).Lsh(big.NewInt(1), uint(bits)))
		return p.Add(p, big.NewInt(1))
	}
	for i := 0; i < n; i++ {
		var p *big.Int
		switch shape {
		case 0: // all equal (rounding must not push the sum above 65535)
			if i == 0 {
				p = randPow(1 + rng.Intn(200))
			} else {
				p = new(big.Int).Set(entries[0].Power.Int)
			}
		case 1: // dust next to huge
			if i%2 == 0 {
				p = randPow(150 + rng.Intn(50))
			} else {
				p = randPow(1 + rng.Intn(20))
			}
		case 2: // tiny integers
			p = big.NewInt(1 + rng.Int63n(5))
		case 3: // same bit length, nearly equal
			p = new(big.Int).Add(new(big.Int).Lsh(big.NewInt(1), 120), big.NewInt(rng.Int63n(3)))
		case 6: // machine-word boundary family: the largest entry just below 2^k, k sweeping 40..66 (where 64-bit shortcuts of p*65535 or of the total would wrap)
			k := 40 + (idx/9)%27
			if i == 0 {
				p = new(big.Int).Add(new(big.Int).Lsh(big.NewInt(1), uint(k-1)), new(big.Int).Rand(rng, new(big.Int).Lsh(big.NewInt(1), uint(k-1))))
			} else {
				p = randPow(k - 3)
			}
		case 4: // 16-bit range
			p = big.NewInt(1 + rng.Int63n(65535))
		default:
			p = randPow(1 + rng.Intn(200))
		}
		entries = append(entries, gpbft.PowerEntry{ID: gpbft.ActorID(1 + i*3 + rng.Intn(3)), Power: gpbft.StoragePower{Int: p}, PubKey: keyOf(i)})
	}
	if shape == 5 { // powers summing to exactly 65535 * m: scaling is exact
		m := big.NewInt(1)
		if rng.Intn(2) == 0 {
			m = mag80
		}
		rest := int64(65535)
		for i := range entries {
			var v int64
			if i == len(entries)-1 {
				v = rest
			} else {
				v = 1 + rng.Int63n(rest-int64(len(entries)-i-1))
				if rng.Intn(3) == 0 {
					v = 1
				}
			}
			rest -= v
			entries[i].Power = gpbft.StoragePower{Int: new(big.Int).Mul(big.NewInt(v), m)}
		}
	}
	if shape == 6 && rng.Intn(4) == 0 { // ill-formed: a zero power
		entries[rng.Intn(len(entries))].Power = gpbft.NewStoragePower(0)
	}
	rng.Shuffle(len(entries), func(i, j int) { entries[i], entries[j] = entries[j], entries[i] })
	return entries
}

func powLimbs(es gpbft.PowerEntries) [][]int64 {
	r := make([][]int64, len(es))
	for i := range es {
		r[i] = limbs(es[i].Power.Int)
	}
	return r
}
func totalLimbs(es gpbft.PowerEntries) []int64 {
	t := new(big.Int)
	for i := range es {
		t.Add(t, es[i].Power.Int)
	}
	return limbs(t)
}
// ordOf: 1-based member indices sorted by ascending power (describes the input; the spec re-checks it)
func ordOf(es gpbft.PowerEntries) []int {
	o := make([]int, len(es))
	for i := range o {
		o[i] = i + 1
	}
	sort.SliceStable(o, func(a, b int) bool { return es[o[a]-1].Power.Int.Cmp(es[o[b]-1].Power.Int) < 0 })
	return o
}
func idsOf(es gpbft.PowerEntries) []int64 {
	r := make([]int64, len(es))
	for i := range es {
		r[i] = int64(es[i].ID)
	}
	return r
}
func nz(a []int64) []int64 {
	if a == nil {
		return []int64{}
	}
	return a
}

func scaleRows(o *out, rng *rand.Rand, entries gpbft.PowerEntries) {
	// PowerEntries.Scaled()
	scaled, total, err := entries.Scaled()
	o.emit(row{"k": "scale", "api": "entries", "ok": err == nil, "ids": idsOf(entries), "p": powLimbs(entries), "t": totalLimbs(entries), "ord": ordOf(entries), "scaled": nz(scaled), "total": total, "valid": true})
	// PowerTable.Add (all at once)
	pt := gpbft.NewPowerTable()
	err = pt.Add(entries...)
	if err != nil {
		o.emit(row{"k": "scale", "api": "table", "ok": false, "ids": idsOf(entries), "p": powLimbs(entries), "t": totalLimbs(entries), "ord": ordOf(entries), "scaled": []int64{}, "total": 0, "valid": true})
		return
	}
	o.emit(row{"k": "scale", "api": "table", "ok": true, "ids": idsOf(pt.Entries), "p": powLimbs(pt.Entries), "t": totalLimbs(pt.Entries), "ord": ordOf(pt.Entries), "scaled": nz(pt.ScaledPower), "total": pt.ScaledTotal, "valid": pt.Validate() == nil})
	// PowerTable.Add in two steps (everything is rescaled against the new total)
	if len(entries) >= 2 {
		cut := 1 + rng.Intn(len(entries)-1)
		pt2 := gpbft.NewPowerTable()
		e1, e2 := pt2.Add(entries[:cut]...), error(nil)
		if e1 == nil {
			e2 = pt2.Add(entries[cut:]...)
		}
		if e1 == nil && e2 == nil {
			o.emit(row{"k": "scale", "api": "table2", "ok": true, "ids": idsOf(pt2.Entries), "p": powLimbs(pt2.Entries), "t": totalLimbs(pt2.Entries), "ord": ordOf(pt2.Entries), "scaled": nz(pt2.ScaledPower), "total": pt2.ScaledTotal, "valid": pt2.Validate() == nil})
		}
	}
}

var ptCid = gpbft.MakeCid([]byte("verif-c08-pt"))

func tipset(epoch int64) *gpbft.TipSet {
	return &gpbft.TipSet{Epoch: epoch, Key: []byte("ts" + strconv.FormatInt(epoch, 10)), PowerTable: ptCid}
}

// boundaryTable: powers (times a magnitude) sum to 65535*m, so that scaled = raw and any signer weight
// near two thirds can be composed from "binary change" entries 1,2,4,...,2048.
func boundaryTable(rng *rand.Rand, keyOf func(int) gpbft.PubKey) gpbft.PowerEntries {
	var raw []int64
	change := int64(0)
	for c := int64(1); c <= 2048; c *= 2 {
		raw = append(raw, c)
		change += c
	}
	rest := 65535 - change
	for rest > 0 {
		v := 1 + rng.Int63n(3900)
		if v > rest {
			v = rest
		}
		raw = append(raw, v)
		rest -= v
	}
	m := big.NewInt(1)
	switch rng.Intn(3) {
	case 1:
		m = mag80
	case 2:
		m = new(big.Int).Add(new(big.Int).Rand(rng, new(big.Int).Lsh(big.NewInt(1), uint(1+rng.Intn(120)))), big.NewInt(1))
	}
	es := make(gpbft.PowerEntries, len(raw))
	for i, v := range raw {
		es[i] = gpbft.PowerEntry{ID: gpbft.ActorID(i + 1), Power: gpbft.StoragePower{Int: new(big.Int).Mul(big.NewInt(v), m)}, PubKey: keyOf(i)}
	}
	sort.Sort(es)
	return es
}

// pickSigners: indices whose real scaled powers sum as close as possible to target (from below), using only
// signers with non-zero scaled power. Input construction only; the row records the weight actually obtained.
func pickSigners(rng *rand.Rand, scaled []int64, target int64) ([]int, int64) {
	order := rng.Perm(len(scaled))
	// large entries first in random order, then fill with the small ones in decreasing order
	sort.SliceStable(order, func(a, b int) bool { return scaled[order[a]] > 2048 && scaled[order[b]] <= 2048 })
	small := []int{}
	var sum int64
	var pick []int
	for _, i := range order {
		if scaled[i] == 0 {
			continue
		}
		if scaled[i] <= 2048 {
			small = append(small, i)
			continue
		}
		if target-sum > 4095 && sum+scaled[i] <= target {
			sum += scaled[i]
			pick = append(pick, i)
		}
	}
	sort.Slice(small, func(a, b int) bool { return scaled[small[a]] > scaled[small[b]] })
	for _, i := range small {
		if sum+scaled[i] <= target {
			sum += scaled[i]
			pick = append(pick, i)
		}
	}
	sort.Ints(pick)
	return pick, sum
}

func signPayload(backend *signing.FakeBackend, es gpbft.PowerEntries, signers []int, payload *gpbft.Payload) (bitfield.BitField, []byte, error) {
	msg := backend.MarshalPayloadForSigning(network, payload)
	bf := bitfield.New()
	sigs := make([][]byte, len(signers))
	for k, i := range signers {
		s, err := backend.Sign(context.Background(), es[i].PubKey, msg)
		if err != nil {
			return bf, nil, err
		}
		sigs[k] = s
		bf.Set(uint64(i))
	}
	agg, err := backend.Aggregate(es.PublicKeys())
	if err != nil {
		return bf, nil, err
	}
	sig, err := agg.Aggregate(signers, sigs)
	return bf, sig, err
}

func useRows(t *testing.T, o *out, rng *rand.Rand, backend *signing.FakeBackend, keyOf func(int) gpbft.PubKey, idx int) {
	var es gpbft.PowerEntries
	if idx%4 == 3 {
		es = randomTable(rng, keyOf, 7)
		for i := range es { // well-formed, unique ids
			es[i].ID = gpbft.ActorID(i + 1)
			if es[i].Power.Sign() <= 0 {
				es[i].Power = gpbft.NewStoragePower(1)
			}
		}
		sort.Sort(es)
	} else {
		es = boundaryTable(rng, keyOf)
	}
	scaled, total, err := es.Scaled()
	if err != nil {
		t.Fatalf("scaled: %v", err)
	}
	pt := gpbft.NewPowerTable()
	if err := pt.Add(es...); err != nil {
		t.Fatalf("add: %v", err)
	}
	ptc, err := certs.MakePowerTableCID(es)
	if err != nil {
		t.Fatal(err)
	}
	chain, err := gpbft.NewChain(tipset(10), tipset(11))
	if err != nil {
		t.Fatal(err)
	}
	var targets []int64
	for d := int64(-2); d <= 3; d++ {
		targets = append(targets, (2*total)/3+d)
	}
	for d := int64(-1); d <= 2; d++ { // the weak-quorum boundary (tally rows)
		targets = append(targets, total/3+d)
	}
	for _, target := range targets {
		if target < 0 {
			continue
		}
		signers, part := pickSigners(rng, scaled, target)
		// --- certs.ValidateFinalityCertificates
		payload := &gpbft.Payload{Instance: 5, Round: 0, Phase: gpbft.DECIDE_PHASE, SupplementalData: gpbft.SupplementalData{PowerTable: ptc}, Value: chain}
		bf, sig, err := signPayload(backend, es, signers, payload)
		if err != nil {
			t.Fatal(err)
		}
		cert, err := certs.NewFinalityCertificate(nil, &gpbft.Justification{Vote: *payload, Signers: bf, Signature: sig})
		if err != nil {
			t.Fatal(err)
		}
		_, _, _, verr := certs.ValidateFinalityCertificates(backend, network, es, 5, nil, cert)
		o.emit(row{"k": "use", "site": "certs", "part": part, "whole": total, "ok": verr == nil, "why": errStr(verr)})
		// --- message validator (justification of a COMMIT = PREPARE quorum)
		jp := &gpbft.Payload{Instance: 5, Round: 0, Phase: gpbft.PREPARE_PHASE, SupplementalData: gpbft.SupplementalData{PowerTable: ptc}, Value: chain}
		// the table of the validator is the PowerTable's own order and scaling
		var vsigners []int
		var vpart int64
		for _, i := range signers {
			j := pt.Lookup[es[i].ID]
			vsigners = append(vsigners, j)
			vpart += pt.ScaledPower[j]
		}
		sort.Ints(vsigners)
		bf2, sig2, err := signPayload(backend, pt.Entries, vsigners, jp)
		if err != nil {
			t.Fatal(err)
		}
		jerr := gpbft.VerifQValidateJustification(network, backend, pt, &gpbft.Justification{Vote: *jp, Signers: bf2, Signature: sig2})
		o.emit(row{"k": "use", "site": "validator", "part": vpart, "whole": pt.ScaledTotal, "ok": jerr == nil, "why": errStr(jerr)})
		// --- the real tally: the signers vote for `chain`, a few others for another value
		tl := gpbft.VerifQNewTally(pt)
		other, _ := gpbft.NewChain(tipset(10), tipset(12))
		var pw, po []int64
		in := map[int]bool{}
		for _, j := range vsigners {
			in[j] = true
			tl.Receive(pt.Entries[j].ID, chain)
			pw = append(pw, pt.ScaledPower[j])
		}
		for j := range pt.Entries {
			if !in[j] && rng.Intn(3) == 0 {
				tl.Receive(pt.Entries[j].ID, other)
				po = append(po, pt.ScaledPower[j])
			}
		}
		o.emit(row{"k": "tally", "w": pt.ScaledTotal, "pw": nz(pw), "po": nz(po),
			"strongFor": tl.HasStrongQuorumFor(chain), "fromStrong": tl.ReceivedFromStrongQuorum(), "fromWeak": tl.ReceivedFromWeakQuorum(),
			"cr0": tl.CouldReachStrongQuorumFor(chain, false), "cr1": tl.CouldReachStrongQuorumFor(chain, true),
			"ocr0": tl.CouldReachStrongQuorumFor(other, false), "ocr1": tl.CouldReachStrongQuorumFor(other, true)})
	}
}

func errStr(e error) string {
	if e == nil {
		return ""
	}
	s := e.Error()
	if len(s) > 120 {
		s = s[:120]
	}
	return s
}

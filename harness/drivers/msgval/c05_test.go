//go:build verif

// Driver for property C05.  Input (VERIF_IN): abstract rows enumerated by TLC from spec/msg/Validator.tla
// (+ progress coordinates).  Every row is materialised as a real signed GMessage and given to the REAL
// gpbft.Participant.ValidateMessage (i) on a fresh participant, (ii) on long-lived participants with a warm
// validation cache (one that evicts constantly, one that never evicts) in family order (valid-looking twin
// first, forged variants after it), in random permutations and reversed, across real instance changes, and
// (iii) from 16 goroutines at once.  Output (VERIF_OUT): the same rows + the verdict classes observed.
// The judgement is TLC's (spec/msg/ValidatorTable.tla).
package zzmsgval

import (
	"bufio"
	"context"
	"encoding/json"
	"math/rand"
	"os"
	"sync"
	"testing"
	"time"

	"github.com/filecoin-project/go-f3/gpbft"
)

type c05Row struct {
	ID int `json:"id"`
	absMsg
	Di  int64  `json:"di"`  // message instance - current instance
	Cr  int64  `json:"cr"`  // current round
	Cph string `json:"cph"` // current phase
	Ep  int    `json:"ep"`  // epoch of the long-lived participants: current instance = baseInst + ep
	Fam int    `json:"fam"` // twin family (rows differing only in sender/signature/signers/aggregate)
	// observations
	Cm bool     `json:"cm"` // the host has a committee for the message's instance
	Vf string   `json:"vf"` // verdict class of a fresh participant
	Vw []string `json:"vw"` // distinct classes seen on the warm participants
	Vc []string `json:"vc"` // distinct classes seen under 16-fold concurrency
	Nw int      `json:"nw"`
	Nc int      `json:"nc"`
}

func TestC05Table(t *testing.T) {
	ctx := context.Background()
	seed := int64(envInt("VERIF_SEED", 1))
	rng := rand.New(rand.NewSource(seed))
	w := newWorld()
	w.missing[baseInst+3] = true
	rows := readRows[c05Row](os.Getenv("VERIF_IN"))
	msgs := make([]*gpbft.GMessage, len(rows))
	for i := range rows {
		r := &rows[i]
		inst := uint64(int64(baseInst) + int64(r.Ep) + r.Di)
		msgs[i] = w.materialise(ctx, &r.absMsg, inst)
		r.Cm = !w.missing[inst]
	}
	setp := func(p *gpbft.Participant, r *c05Row) {
		gpbft.VerifSetProgress(p, baseInst+uint64(r.Ep), uint64(r.Cr), phases[r.Cph])
	}
	// (i) fresh participant per row
	for i := range rows {
		r := &rows[i]
		p := w.participant(8, baseInst+uint64(r.Ep))
		setp(p, r)
		_, err := p.ValidateMessage(ctx, msgs[i])
		r.Vf = class(err)
	}
	// (ii) long-lived participants; epochs advance through the real StartInstanceAt (cache pruning)
	byEp := map[int][]int{}
	maxEp := 0
	for i := range rows {
		byEp[rows[i].Ep] = append(byEp[rows[i].Ep], i)
		if rows[i].Ep > maxEp {
			maxEp = rows[i].Ep
		}
	}
	warm := []*gpbft.Participant{w.participant(3, baseInst), w.participant(1<<17, baseInst)}
	conc := w.participant(64, baseInst)
	ww := [][][]string{make([][]string, len(rows)), make([][]string, len(rows))}
	cc := make([][]string, len(rows))
	nconc := envInt("VERIF_CONC", 16)
	concEvery := envInt("VERIF_CONC_EVERY", 1)
	for ep := 0; ep <= maxEp; ep++ {
		idx := byEp[ep]
		if ep > 0 {
			for _, p := range append(warm, conc) {
				if err := p.StartInstanceAt(baseInst+uint64(ep), time.Unix(1000, 0)); err != nil {
					t.Fatal(err)
				}
			}
		}
		orders := [][]int{idx, rng.Perm(len(idx)), nil, rng.Perm(len(idx))}
		for k, o := range orders {
			if k == 0 {
				continue
			}
			if o == nil { // reversed family order
				o = make([]int, len(idx))
				for j := range idx {
					o[j] = len(idx) - 1 - j
				}
			}
			for j := range o {
				o[j] = idx[o[j]]
			}
			orders[k] = o
		}
		for wi, p := range warm {
			for _, o := range orders {
				for _, i := range o {
					setp(p, &rows[i])
					_, err := p.ValidateMessage(ctx, msgs[i])
					ww[wi][i] = append(ww[wi][i], class(err))
				}
			}
		}
		// (iii) concurrent: rows grouped by participant progress, every goroutine validates the whole group in its own order
		groups := map[[2]int64][]int{}
		var gkeys [][2]int64
		for _, i := range idx {
			if rows[i].ID%concEvery != 0 {
				continue
			}
			k := [2]int64{rows[i].Cr, int64(phases[rows[i].Cph])}
			if _, ok := groups[k]; !ok {
				gkeys = append(gkeys, k)
			}
			groups[k] = append(groups[k], i)
		}
		for _, k := range gkeys {
			g := groups[k]
			setp(conc, &rows[g[0]])
			res := make([][]string, nconc)
			var wg sync.WaitGroup
			for gi := 0; gi < nconc; gi++ {
				perm := rand.New(rand.NewSource(seed*1000 + int64(gi))).Perm(len(g))
				wg.Add(1)
				go func(gi int, perm []int) {
					defer wg.Done()
					out := make([]string, len(g))
					for _, j := range perm {
						_, err := conc.ValidateMessage(ctx, msgs[g[j]])
						out[j] = class(err)
					}
					res[gi] = out
				}(gi, perm)
			}
			wg.Wait()
			for gi := range res {
				for j, c := range res[gi] {
					cc[g[j]] = append(cc[g[j]], c)
				}
			}
		}
	}
	f, err := os.Create(os.Getenv("VERIF_OUT"))
	if err != nil {
		t.Fatal(err)
	}
	bw := bufio.NewWriterSize(f, 1<<20)
	enc := json.NewEncoder(bw)
	for i := range rows {
		r := &rows[i]
		all := append(append([]string{}, ww[0][i]...), ww[1][i]...)
		r.Nw, r.Nc = len(all), len(cc[i])
		r.Vw, r.Vc = distinct(all), distinct(cc[i])
		if err := enc.Encode(r); err != nil {
			t.Fatal(err)
		}
	}
	if err := bw.Flush(); err != nil {
		t.Fatal(err)
	}
	f.Close()
}

//go:build verif

// Shared part of the C05 / C13 drivers: a gpbft.Host with a fixed committee, and the codec that
// materialises an abstract message (coordinates of spec/msg/Validator.tla) as a real, really
// signed gpbft.GMessage.  No oracle here: nothing in this package knows which messages are valid.
package zzmsgval

import (
	"bufio"
	"context"
	"encoding/json"
	"errors"
	"fmt"
	"os"
	"strconv"
	"time"

	"github.com/filecoin-project/go-bitfield"
	"github.com/filecoin-project/go-f3/gpbft"
	"github.com/filecoin-project/go-f3/sim/signing"
)

const (
	netName  = "verif-msg"
	baseInst = uint64(10) // current instance of epoch 0
	lookback = uint64(4)  // WithCommitteeLookback
)

var beacon = []byte("verif-beacon")

// coordinates of one abstract message (relative form used by the enumerated space)
type absMsg struct {
	Ph    string `json:"ph"`    // QUALITY CONVERGE PREPARE COMMIT DECIDE BOGUS INITIAL TERMINATED
	R     int64  `json:"r"`     // round; negative = 2^64 + r (uint64 wrap), -1 = MaxUint64
	V     string `json:"v"`     // bot base ext bad
	Snd   string `json:"snd"`   // member zero stranger
	Sig   string `json:"sig"`   // ok otherpayload othersigner
	Tk    string `json:"tk"`    // none ok wronground othersigner absent
	Jph   string `json:"jph"`   // none PREPARE COMMIT QUALITY
	Jr    int64  `json:"jr"`    // justification round - message round
	Jv    string `json:"jv"`    // same bot other bad
	Jinst string `json:"jinst"` // same other
	Jsupp string `json:"jsupp"` // same other
	JS    string `json:"jS"`    // strong short zero oob
	Jagg  string `json:"jagg"`  // ok otherpayload othersigners
}

type world struct {
	sb      *signing.FakeBackend
	pt      *gpbft.PowerTable // committee of every instance
	signPT  *gpbft.PowerTable // same keys, everybody powerful: only used to obtain the VRF input bytes
	keys    map[gpbft.ActorID]gpbft.PubKey
	agg     gpbft.Aggregate
	chains  map[string]*gpbft.ECChain
	supp    gpbft.SupplementalData
	supp2   gpbft.SupplementalData
	missing map[uint64]bool // instances for which the host has no committee
	jcache  map[string]*gpbft.Justification
	scache  map[string][]byte
}

var phases = map[string]gpbft.Phase{"INITIAL": gpbft.INITIAL_PHASE, "QUALITY": gpbft.QUALITY_PHASE, "CONVERGE": gpbft.CONVERGE_PHASE,
	"PREPARE": gpbft.PREPARE_PHASE, "COMMIT": gpbft.COMMIT_PHASE, "DECIDE": gpbft.DECIDE_PHASE, "TERMINATED": gpbft.TERMINATED_PHASE,
	"BOGUS": gpbft.Phase(9)}

var senders = map[string]gpbft.ActorID{"member": 1, "zero": 5, "stranger": 9}

func newWorld() *world {
	w := &world{sb: signing.NewFakeBackend(), pt: gpbft.NewPowerTable(), signPT: gpbft.NewPowerTable(), keys: map[gpbft.ActorID]gpbft.PubKey{},
		missing: map[uint64]bool{}, jcache: map[string]*gpbft.Justification{}, scache: map[string][]byte{}}
	var entries, all []gpbft.PowerEntry
	for _, id := range []gpbft.ActorID{1, 2, 3, 4, 5, 9} {
		k, _ := w.sb.GenerateKey()
		w.keys[id] = k
		pw := gpbft.NewStoragePower(1_000_000_000)
		all = append(all, gpbft.PowerEntry{ID: id, Power: pw, PubKey: k})
		if id == 5 {
			pw = gpbft.NewStoragePower(1) // scaled power 0
		}
		if id != 9 {
			entries = append(entries, gpbft.PowerEntry{ID: id, Power: pw, PubKey: k})
		}
	}
	if err := w.pt.Add(entries...); err != nil {
		panic(err)
	}
	if err := w.signPT.Add(all...); err != nil {
		panic(err)
	}
	var err error
	if w.agg, err = w.sb.Aggregate(w.pt.Entries.PublicKeys()); err != nil {
		panic(err)
	}
	cidpt := gpbft.MakeCid([]byte("pt"))
	b := &gpbft.TipSet{Epoch: 5, Key: []byte("b"), PowerTable: cidpt}
	w.chains = map[string]*gpbft.ECChain{
		"bot":   {},
		"base":  {TipSets: []*gpbft.TipSet{b}},
		"ext":   {TipSets: []*gpbft.TipSet{b, {Epoch: 6, Key: []byte("x"), PowerTable: cidpt}}},
		"other": {TipSets: []*gpbft.TipSet{b, {Epoch: 6, Key: []byte("y"), PowerTable: cidpt}}},
		"alt":   {TipSets: []*gpbft.TipSet{b, {Epoch: 7, Key: []byte("w"), PowerTable: cidpt}}},
		"bad":   {TipSets: []*gpbft.TipSet{b, {Epoch: 3, Key: []byte("z"), PowerTable: cidpt}}}, // epochs not increasing
	}
	w.supp = gpbft.SupplementalData{PowerTable: gpbft.MakeCid([]byte("supp"))}
	w.supp2 = gpbft.SupplementalData{PowerTable: gpbft.MakeCid([]byte("supp2"))}
	return w
}

// chain returns a private copy (ECChain caches its key lazily; production code may set fields).
func (w *world) chain(name string) *gpbft.ECChain {
	c := w.chains[name]
	if len(c.TipSets) == 0 {
		return &gpbft.ECChain{}
	}
	return &gpbft.ECChain{TipSets: c.TipSets}
}

// ---- gpbft.Host
type host struct {
	w     *world
	now   time.Time
	alarm time.Time
}

func (h *host) GetProposal(ctx context.Context, i uint64) (*gpbft.SupplementalData, *gpbft.ECChain, error) {
	return &h.w.supp, h.w.chain("ext"), nil
}
func (h *host) GetCommittee(ctx context.Context, i uint64) (*gpbft.Committee, error) {
	if h.w.missing[i] {
		return nil, fmt.Errorf("no committee for %d", i)
	}
	return &gpbft.Committee{PowerTable: h.w.pt, Beacon: beacon, AggregateVerifier: h.w.agg}, nil
}
func (h *host) NetworkName() gpbft.NetworkName                   { return netName }
func (h *host) RequestBroadcast(mb *gpbft.MessageBuilder) error  { return nil }
func (h *host) RequestRebroadcast(gpbft.Instant) error           { return nil }
func (h *host) Time() time.Time                                  { return h.now }
func (h *host) SetAlarm(at time.Time)                            { h.alarm = at }
func (h *host) Verify(k gpbft.PubKey, m, s []byte) error         { return h.w.sb.Verify(k, m, s) }
func (h *host) Aggregate(k []gpbft.PubKey) (gpbft.Aggregate, error) { return h.w.sb.Aggregate(k) }
func (h *host) ReceiveDecision(ctx context.Context, d *gpbft.Justification) (time.Time, error) {
	return h.now.Add(time.Hour), nil
}

func (w *world) participant(cacheSize int, instance uint64) *gpbft.Participant {
	h := &host{w: w, now: time.Unix(1000, 0)}
	p, err := gpbft.NewParticipant(h, gpbft.WithCommitteeLookback(lookback), gpbft.WithMaxCachedMessagesPerInstance(cacheSize))
	if err != nil {
		panic(err)
	}
	if err := p.StartInstanceAt(instance, h.now); err != nil {
		panic(err)
	}
	return p
}

func (w *world) sign(ctx context.Context, id gpbft.ActorID, payload []byte) []byte {
	k := strconv.Itoa(int(id)) + ":" + string(payload)
	if s, ok := w.scache[k]; ok {
		return s
	}
	s, err := w.sb.Sign(ctx, w.keys[id], payload)
	if err != nil {
		panic(err)
	}
	w.scache[k] = s
	return s
}

// materialise builds the real message of abstract coordinates a for instance inst.
// "ok" signatures/aggregates are produced by the holders of the keys over the exact payload;
// every corruption is a *real* signature over something else or by somebody else.
func (w *world) materialise(ctx context.Context, a *absMsg, inst uint64) *gpbft.GMessage {
	round := uint64(a.R)
	pl := gpbft.Payload{Instance: inst, Round: round, Phase: phases[a.Ph], SupplementalData: w.supp, Value: w.chain(a.V)}
	sender := senders[a.Snd]
	signedPl := pl
	signer := sender
	switch a.Sig {
	case "otherpayload": // genuine signature of the sender over the same step for another value
		signedPl.Value = w.chain("other")
	case "othersigner": // genuine signature of another committee member over the exact payload
		signer = 2
	}
	msg := &gpbft.GMessage{Sender: sender, Vote: pl, Signature: w.sign(ctx, signer, signedPl.MarshalForSigning(netName))}
	if a.Tk != "none" && a.Tk != "absent" {
		tpl := pl
		tsigner := sender
		switch a.Tk {
		case "wronground":
			tpl.Round = round + 1
		case "othersigner":
			tsigner = 2
		}
		mb := &gpbft.MessageBuilder{NetworkName: netName, PowerTable: w.signPT, Payload: tpl, BeaconForTicket: beacon}
		sbd, err := mb.PrepareSigningInputs(sender)
		if err != nil {
			panic(err)
		}
		msg.Ticket = w.sign(ctx, tsigner, sbd.VRFToSign)
	}
	if a.Jph != "none" {
		msg.Justification = w.justification(ctx, a, inst)
	}
	return msg
}

func (w *world) justification(ctx context.Context, a *absMsg, inst uint64) *gpbft.Justification {
	jvName := a.V
	switch a.Jv {
	case "bot", "other", "bad":
		jvName = a.Jv
	}
	jround := uint64(a.R) + uint64(a.Jr)
	key := fmt.Sprintf("%s/%d/%s/%s/%s/%s/%s/%d", a.Jph, jround, jvName, a.Jinst, a.Jsupp, a.JS, a.Jagg, inst)
	if j, ok := w.jcache[key]; ok {
		return j
	}
	jpl := gpbft.Payload{Instance: inst, Round: jround, Phase: phases[a.Jph], SupplementalData: w.supp, Value: w.chain(jvName)}
	if a.Jinst == "other" {
		jpl.Instance = inst + 1
	}
	if a.Jsupp == "other" {
		jpl.SupplementalData = w.supp2
	}
	signedPl := jpl
	if a.Jagg == "otherpayload" { // genuine aggregate of the same signers for the same step, other value
		signedPl.Value = w.chain("alt")
	}
	var ids []gpbft.ActorID
	switch a.JS {
	case "strong", "oob":
		ids = []gpbft.ActorID{1, 2, 3} // 3 of 4 equal members
	case "short":
		ids = []gpbft.ActorID{1, 2} // half of the power
	case "zero":
		ids = []gpbft.ActorID{1, 2, 3, 5} // strong, plus a member whose scaled power is 0
	}
	bf := bitfield.New()
	var mask []int
	var sigs [][]byte
	payload := signedPl.MarshalForSigning(netName)
	for i, e := range w.pt.Entries {
		for _, id := range ids {
			if e.ID == id {
				by := id
				if a.Jagg == "othersigners" && len(mask) == 0 {
					by = 4 // the first claimed signer did not sign: member 4 (not claimed) did
				}
				mask = append(mask, i)
				sigs = append(sigs, w.sign(ctx, by, payload))
				bf.Set(uint64(i))
			}
		}
	}
	ag, err := w.agg.Aggregate(mask, sigs)
	if err != nil {
		panic(err)
	}
	if a.JS == "oob" {
		bf.Set(7) // index beyond the power table
	}
	j := &gpbft.Justification{Vote: jpl, Signers: bf, Signature: ag}
	w.jcache[key] = j
	return j
}

func class(err error) string {
	switch {
	case err == nil:
		return "OK"
	case errors.Is(err, gpbft.ErrValidationInvalid):
		return "Invalid"
	case errors.Is(err, gpbft.ErrValidationTooOld):
		return "TooOld"
	case errors.Is(err, gpbft.ErrValidationNotRelevant):
		return "NotRelevant"
	case errors.Is(err, gpbft.ErrValidationNoCommittee):
		return "NoCommittee"
	default:
		return "Other"
	}
}

// ---- NDJSON plumbing
func readRows[T any](path string) []T {
	f, err := os.Open(path)
	if err != nil {
		panic(err)
	}
	defer f.Close()
	sc := bufio.NewScanner(f)
	sc.Buffer(make([]byte, 1<<20), 1<<20)
	var out []T
	for sc.Scan() {
		if len(sc.Bytes()) == 0 {
			continue
		}
		var r T
		if err := json.Unmarshal(sc.Bytes(), &r); err != nil {
			panic(fmt.Sprintf("%v: %s", err, sc.Text()))
		}
		out = append(out, r)
	}
	return out
}

func envInt(name string, def int) int {
	if v, err := strconv.Atoi(os.Getenv(name)); err == nil {
		return v
	}
	return def
}

func distinct(xs []string) []string {
	seen := map[string]bool{}
	out := []string{}
	for _, x := range xs {
		if !seen[x] {
			seen[x] = true
			out = append(out, x)
		}
	}
	return out
}

//go:build verif

// Driver for property C13.  Input (VERIF_IN): abstract rows enumerated by TLC from spec/msg/MCPartialValidation.tla:
// an original message x announced key x completing chain x carried justification.  Per row, on the REAL code:
//   strip      pmsg.(*PartialMessageManager).ToPartialGMessage (production), then the announced key is overridden
//   stage 1    Participant.PartiallyValidateMessage
//   complete   pgmsg.Vote.Value = chain; pmsg.inferJustificationVoteValue (production, through the accessor)
//   stage 2    Participant.FullyValidateMessage
//   one-shot   Participant.ValidateMessage on an independently completed copy
// on fresh participants and on long-lived participants whose validation cache is shared by both paths (family order:
// genuine twin first, then other keys / chains / forged signatures; reversed; random permutations).  Also the round trip
// strip -> complete with the original chain, compared by CBOR bytes.  Output (VERIF_OUT): rows + what the code answered.
// The judgement is TLC's (spec/msg/PartialValidationTable.tla).
package zzmsgval

import (
	"bufio"
	"bytes"
	"context"
	"encoding/json"
	"math/rand"
	"os"
	"testing"

	"github.com/filecoin-project/go-f3/gpbft"
	"github.com/filecoin-project/go-f3/pmsg"
)

type c13Row struct {
	ID int `json:"id"`
	absMsg
	Ak  string `json:"ak"` // match zero other
	Cc  string `json:"cc"` // orig other bot bad
	Pj  string `json:"pj"` // strip keep junk
	Di  int64  `json:"di"`
	Cr  int64  `json:"cr"`
	Cph string `json:"cph"`
	Fam int    `json:"fam"`
	// observations
	Cm  bool   `json:"cm"`
	Pcf string `json:"pcf"` // fresh participant: class of the partial stage
	Fcf string `json:"fcf"` // fresh participant: class of the full stage, "-" if stage 1 rejected
	Ocf string `json:"ocf"` // fresh participant: class of one-shot validation of the completed message
	Ts  []bool `json:"ts"`  // distinct acceptances of the two-stage path (fresh and warm histories)
	Os  []bool `json:"os"`  // distinct acceptances of the one-shot path
	Rt  bool   `json:"rt"`  // strip + complete with the original chain reproduced the original bytes
	Nts int    `json:"nts"`
	Nos int    `json:"nos"`
}

func copyChain(c *gpbft.ECChain) *gpbft.ECChain {
	if c == nil {
		return nil
	}
	if len(c.TipSets) == 0 {
		return &gpbft.ECChain{}
	}
	return &gpbft.ECChain{TipSets: append([]*gpbft.TipSet{}, c.TipSets...)}
}

func copyMsg(m *gpbft.GMessage) *gpbft.GMessage {
	c := *m
	c.Vote.Value = copyChain(m.Vote.Value)
	c.Signature = append([]byte{}, m.Signature...)
	if m.Ticket != nil {
		c.Ticket = append(gpbft.Ticket{}, m.Ticket...)
	}
	if m.Justification != nil {
		j := *m.Justification
		j.Vote.Value = copyChain(m.Justification.Vote.Value)
		j.Signature = append([]byte{}, m.Justification.Signature...)
		c.Justification = &j
	}
	return &c
}

func cborOf(m *gpbft.GMessage) []byte {
	var b bytes.Buffer
	if err := m.MarshalCBOR(&b); err != nil {
		return nil
	}
	return b.Bytes()
}

var stripper = &pmsg.PartialMessageManager{} // ToPartialGMessage uses no field of the manager

// partial builds the partial message of the row from a private copy of the original message.
func (w *world) partial(orig *gpbft.GMessage, r *c13Row) *gpbft.PartialGMessage {
	m := copyMsg(orig)
	pm, err := stripper.ToPartialGMessage(m)
	if err != nil {
		panic(err)
	}
	if r.Pj != "strip" && orig.Justification != nil {
		pm.Justification = copyMsg(orig).Justification // "keep": the peer did not strip the justification value
		if r.Pj == "junk" {
			pm.Justification.Vote.Value = w.chain("other") // ... or put another chain there (aggregate unchanged)
		}
	}
	switch r.Ak {
	case "zero":
		pm.VoteValueKey = gpbft.ECChainKey{}
	case "other":
		pm.VoteValueKey = w.chain("other").Key()
	}
	return pm
}

func (w *world) completing(r *c13Row) *gpbft.ECChain {
	if r.Cc == "orig" {
		return w.chain(r.V)
	}
	return w.chain(r.Cc)
}

// complete = what CompleteMessage / the chain discovery loop of pmsg do once the chain is known
func complete(pm *gpbft.PartialGMessage, c *gpbft.ECChain) {
	pm.Vote.Value = c
	pmsg.VerifInferJustificationVoteValue(pm)
}

func (w *world) twoStage(ctx context.Context, p *gpbft.Participant, orig *gpbft.GMessage, r *c13Row) (string, string, bool) {
	pm := w.partial(orig, r)
	pv, err := p.PartiallyValidateMessage(ctx, pm)
	if err != nil {
		return class(err), "-", false
	}
	complete(pv.PartialMessage(), w.completing(r))
	_, err = p.FullyValidateMessage(ctx, pv)
	return "OK", class(err), err == nil
}

func (w *world) oneShot(ctx context.Context, p *gpbft.Participant, orig *gpbft.GMessage, r *c13Row) (string, bool) {
	pm := w.partial(orig, r)
	complete(pm, w.completing(r))
	_, err := p.ValidateMessage(ctx, pm.GMessage)
	return class(err), err == nil
}

func distinctB(xs []bool) []bool {
	var t, f bool
	for _, x := range xs {
		if x {
			t = true
		} else {
			f = true
		}
	}
	out := []bool{}
	if f {
		out = append(out, false)
	}
	if t {
		out = append(out, true)
	}
	return out
}

func TestC13Table(t *testing.T) {
	ctx := context.Background()
	seed := int64(envInt("VERIF_SEED", 1))
	rng := rand.New(rand.NewSource(seed))
	w := newWorld()
	w.missing[baseInst+3] = true
	rows := readRows[c13Row](os.Getenv("VERIF_IN"))
	origs := make([]*gpbft.GMessage, len(rows))
	for i := range rows {
		r := &rows[i]
		inst := uint64(int64(baseInst) + r.Di)
		origs[i] = w.materialise(ctx, &r.absMsg, inst)
		r.Cm = !w.missing[inst]
	}
	setp := func(p *gpbft.Participant, r *c13Row) {
		gpbft.VerifSetProgress(p, baseInst, uint64(r.Cr), phases[r.Cph])
	}
	ts := make([][]bool, len(rows))
	osb := make([][]bool, len(rows))
	// fresh participants: one for the two-stage path, one for the one-shot path
	for i := range rows {
		r := &rows[i]
		p1, p2 := w.participant(8, baseInst), w.participant(8, baseInst)
		setp(p1, r)
		setp(p2, r)
		var a, b bool
		r.Pcf, r.Fcf, a = w.twoStage(ctx, p1, origs[i], r)
		r.Ocf, b = w.oneShot(ctx, p2, origs[i], r)
		ts[i], osb[i] = append(ts[i], a), append(osb[i], b)
		// round trip with the production strip and completion (zero key: returned as is, as CompleteMessage does)
		pm, err := stripper.ToPartialGMessage(copyMsg(origs[i]))
		if err != nil {
			t.Fatal(err)
		}
		if !pm.VoteValueKey.IsZero() {
			complete(pm, w.chain(r.V))
		}
		r.Rt = bytes.Equal(cborOf(pm.GMessage), cborOf(origs[i])) && cborOf(origs[i]) != nil
	}
	// long-lived participants: both paths share one validation cache
	n := len(rows)
	rev := make([]int, n)
	for i := range rev {
		rev[i] = n - 1 - i
	}
	ident := make([]int, n)
	for i := range ident {
		ident[i] = i
	}
	orders := [][]int{ident, rng.Perm(n), rev, rng.Perm(n)}
	for _, p := range []*gpbft.Participant{w.participant(3, baseInst), w.participant(1<<17, baseInst)} {
		for k, o := range orders {
			for _, i := range o {
				r := &rows[i]
				setp(p, r)
				if k == 0 { // the original full message goes through one-shot validation first (fills the full namespaces)
					_, _ = p.ValidateMessage(ctx, copyMsg(origs[i]))
				}
				if k%2 == 0 {
					_, _, a := w.twoStage(ctx, p, origs[i], r)
					_, b := w.oneShot(ctx, p, origs[i], r)
					ts[i], osb[i] = append(ts[i], a), append(osb[i], b)
				} else {
					_, b := w.oneShot(ctx, p, origs[i], r)
					_, _, a := w.twoStage(ctx, p, origs[i], r)
					ts[i], osb[i] = append(ts[i], a), append(osb[i], b)
				}
			}
		}
	}
	f, err := os.Create(os.Getenv("VERIF_OUT"))
	if err != nil {
		t.Fatal(err)
	}
	bw := bufio.NewWriterSize(f, 1<<20)
	enc := json.NewEncoder(bw)
	for i := range rows {
		r := &rows[i]
		r.Nts, r.Nos = len(ts[i]), len(osb[i])
		r.Ts, r.Os = distinctB(ts[i]), distinctB(osb[i])
		if err := enc.Encode(r); err != nil {
			t.Fatal(err)
		}
	}
	if err := bw.Flush(); err != nil {
		t.Fatal(err)
	}
	f.Close()
}

//go:build verif

package zzconsensus

import (
	"fmt"
	"math/rand"
	"os"
	"path/filepath"
	"strconv"
	"testing"
	"time"
)

func envInt(k string, d int) int {
	if v, err := strconv.Atoi(os.Getenv(k)); err == nil {
		return v
	}
	return d
}

type family struct {
	powers []int64
	byz    [][]int // admissible Byzantine sets (< 1/3 scaled power); first is "none"
}

var families = []family{
	{[]int64{1, 1, 1, 1}, [][]int{{}, {4}}},
	{[]int64{4, 3, 2, 1, 1}, [][]int{{}, {4, 5}, {3}}},
	{[]int64{1000000000, 1000000000, 1000000000, 1}, [][]int{{}, {}}}, // member 4 has zero scaled power (honest)
	{[]int64{1, 1, 1, 1, 1, 1, 1}, [][]int{{}, {6, 7}}},
	{[]int64{3, 3, 3, 2}, [][]int{{}, {4}}},
	{[]int64{5, 2, 2, 2, 2, 2}, [][]int{{}, {2, 3}}},
	{[]int64{1, 1, 1, 1}, [][]int{{1}, {2}}},       // the Byzantine member comes first in table order: it is in every minimal quorum it voted with
	{[]int64{3, 2, 2, 2, 2}, [][]int{{1}, {1}}},    // the heaviest member (3/11 < 1/3) is Byzantine
	{[]int64{1 << 50, 1 << 50, 1 << 50, 1 << 46}, [][]int{{4}, {4}}}, // PiB-scale raw powers (scaling arithmetic beyond int64 products); the faulty member holds 1/49
}

// input shapes over base 0: tipset ids increase along every chain
var inputShapes = [][][]int{
	{{0, 1, 2}},                                  // uniform
	{{0, 1, 2}, {0, 1, 2}, {0, 1}, {0, 3}},       // nested prefixes + fork
	{{0, 1, 2}, {0, 1}, {0, 1, 2, 4}, {0, 1, 2}}, // nested prefixes
	{{0, 1}, {0, 3}},                             // fork at the base
	{{0, 1, 2, 4}, {0, 1, 2, 5}, {0, 1}, {0, 3, 6}},
	{{0, 1, 2}, {0, 1, 2}, {0, 1, 2}, {0, 1}},    // three long, one short (clause 6 family)
}

func mkInputs(shape [][]int, n int, rng *rand.Rand, shuffle bool) [][]int {
	out := make([][]int, n)
	for i := 0; i < n; i++ {
		out[i] = shape[i%len(shape)]
	}
	if shuffle {
		rng.Shuffle(n, func(a, b int) { out[a], out[b] = out[b], out[a] })
	}
	return out
}

// lateCandidate: an honest member without which the remaining honest members still hold a strong quorum (0 if none)
func lateCandidate(powers []int64, byz []int) int {
	var total, honest int64
	isByz := map[int]bool{}
	for _, b := range byz {
		isByz[b] = true
	}
	for i, p := range powers {
		total += p
		if !isByz[i+1] {
			honest += p
		}
	}
	for i := len(powers) - 1; i >= 0; i-- {
		if !isByz[i+1] && powers[i] > 0 && 3*(honest-powers[i]) >= 2*total+2 { // margin: scaled powers round down
			return i + 1
		}
	}
	return 0
}

// randomScenario draws one scenario of the given mode.
func randomScenario(mode string, rng *rand.Rand, k int) scenario {
	f := families[rng.Intn(len(families))]
	n := len(f.powers)
	sc := scenario{Powers: f.powers, Instances: 1, MaxSteps: envInt("VERIF_MAXSTEPS", 3000), MaxRound: 8, Lookahead: 0}
	switch mode {
	case "uniform":
		// C02 second sentence: same input everywhere, honest strong quorum, synchronous, no faulty sender
		sc.Byz = []int{}
		sc.Inputs = mkInputs(inputShapes[0], n, rng, false)
		sc.MaxDelay = time.Duration(rng.Intn(900)) * time.Millisecond
		sc.Uniform = true
		sc.Instances = 1 + rng.Intn(2)
		if k%3 == 2 {
			// boundary input lengths: the protocol maximum (128 tipsets), one beyond the default proposal length (101), and 100
			l := []int{100, 101, 128}[rng.Intn(3)]
			long := make([]int, l)
			for x := range long {
				long[x] = x
			}
			sc.Inputs = mkInputs([][]int{long}, n, rng, false)
			sc.Instances = 1
		}
	case "gst":
		sc.Byz = f.byz[rng.Intn(len(f.byz))]
		sc.Inputs = mkInputs(inputShapes[rng.Intn(len(inputShapes))], n, rng, true)
		sc.GST = time.Duration(8+rng.Intn(50)) * time.Second
		sc.PreGSTMaxDelay = time.Duration(10+rng.Intn(50)) * time.Second
		sc.Stagger = time.Duration(rng.Intn(5000)+1) * time.Millisecond
		if len(sc.Byz) > 0 {
			sc.Adversary = "forger"
		}
		sc.MaxRound = 60
		sc.MaxSteps = 10 * envInt("VERIF_MAXSTEPS", 3000)
		switch k % 5 {
		case 2:
			// a member with dust power whose vote is nevertheless needed for the honest strong quorum leaves QUALITY on its time-out with the
			// base only (everything addressed to it is slow), the heavy members agree on the long chain; the QUALITY votes that reach it late
			// must still widen its candidates, or every round ends in COMMIT bottom until its own (dust) ticket happens to win
			sc.Powers = []int64{10000, 10000, 2, 10000}
			sc.Byz, sc.Adversary = []int{4}, ""
			sc.Inputs = mkInputs(inputShapes[0], 4, rng, false)
			sc.SlowDest = 3
			sc.Stagger = time.Millisecond
			sc.GST = time.Duration(12+rng.Intn(20)) * time.Second
		case 3:
			// deep history: very slow network for a long time, so that stabilisation finds everybody several rounds in (back-off, rebroadcast
			// schedule of late rounds) with nothing in flight but timers
			sc.GST = time.Duration(250+rng.Intn(300)) * time.Second
			sc.PreGSTMaxDelay = time.Duration(40+rng.Intn(40)) * time.Second
			sc.SlowFloor = true
			sc.Byz, sc.Adversary = []int{}, "" // timers only: keeps the long pre-stabilisation history small
			sc.Stagger = time.Millisecond
			sc.Inputs = mkInputs(inputShapes[0], n, rng, false) // common input; the early network splits the views (see world.broadcast)
			sc.MaxSteps = 15 * envInt("VERIF_MAXSTEPS", 3000)
		case 4:
			// late starter: one honest member (the others still hold a strong quorum) starts the instance well after stabilisation, when
			// everything the others ever sent sits in its future-instance queue
			// prefer a family with a faulty member (it plants a validly signed vote with a foreign base in the late starter's queue)
			for try := 0; try < 20; try++ {
				f2 := families[rng.Intn(len(families))]
				for _, b := range f2.byz {
					if len(b) > 0 && lateCandidate(f2.powers, b) > 0 {
						f = f2
						sc.Powers, sc.Byz, sc.Adversary = f2.powers, b, "forger"
						sc.Inputs = mkInputs(inputShapes[rng.Intn(len(inputShapes))], len(f2.powers), rng, true)
						try = 20
						break
					}
				}
			}
			if id := lateCandidate(sc.Powers, sc.Byz); id > 0 {
				sc.Late = id
			}
		}
	default: // "random"
		sc.Byz = f.byz[rng.Intn(len(f.byz))]
		sc.Inputs = mkInputs(inputShapes[rng.Intn(len(inputShapes))], n, rng, rng.Intn(2) == 0)
		sc.MaxDelay = []time.Duration{300 * time.Millisecond, 1200 * time.Millisecond, 2500 * time.Millisecond}[rng.Intn(3)]
		sc.DropPct = []int{0, 5, 15, 30}[rng.Intn(4)]
		sc.DupPct = []int{0, 10}[rng.Intn(2)]
		if rng.Intn(2) == 0 {
			sc.Stagger = time.Duration(rng.Intn(4000)+1) * time.Millisecond
		}
		if len(sc.Byz) > 0 {
			sc.Adversary = "forger"
		}
		sc.Instances = 1 + rng.Intn(2)
		if rng.Intn(4) == 0 {
			sc.Lookahead = 5
		}
		if rng.Intn(3) == 0 {
			sc.Partial = true
			sc.Isolate = len(sc.Byz) > 0 && rng.Intn(2) == 0
		} else if len(sc.Byz) > 0 && rng.Intn(2) == 0 {
			sc.Tamper = true
			sc.Isolate = rng.Intn(2) == 0
		}
	}
	sc.RebroadcastAfterRound = []int{0, 0, 1, -1}[rng.Intn(4)]
	if mode == "random" && k%2 == 1 {
		sc.RebroadcastAfterRound = 0 // every other random run: the late-round regime from round 1 on
	}
	sc.Name = fmt.Sprintf("%s-%d", mode, k)
	return sc
}

// TestConsensusRuns: VERIF_OUTDIR, VERIF_SEED, VERIF_N, VERIF_MODE in {random, uniform, gst}
func TestConsensusRuns(t *testing.T) {
	outdir := os.Getenv("VERIF_OUTDIR")
	if outdir == "" {
		t.Skip("VERIF_OUTDIR not set")
	}
	seed := int64(envInt("VERIF_SEED", 1))
	n := envInt("VERIF_N", 10)
	mode := os.Getenv("VERIF_MODE")
	if mode == "" {
		mode = "random"
	}
	modeSalt := map[string]int64{"random": 0, "uniform": 1000003, "gst": 2000003}[mode]
	groups := map[string][]*world{}
	var keys []string
	for k := 0; k < n; k++ {
		rng := rand.New(rand.NewSource(seed*7919 + int64(k)*104729 + modeSalt))
		sc := randomScenario(mode, rng, k)
		w := newWorld(sc, seed*31+int64(k))
		w.run()
		key := w.groupKey()
		if _, ok := groups[key]; !ok {
			keys = append(keys, key)
		}
		groups[key] = append(groups[key], w)
	}
	// runs with the same configuration share a trace file (one TLC start-up); at most 20 runs per file so that no single TLC run gets long
	gi := 0
	for _, key := range keys {
		ws := groups[key]
		for len(ws) > 0 {
			n := len(ws)
			if n > 20 {
				n = 20
			}
			if err := writeGroup(filepath.Join(outdir, fmt.Sprintf("%s-%d-%d.ndjson", mode, seed, gi)), ws[:n]); err != nil {
				t.Fatal(err)
			}
			ws = ws[n:]
			gi++
		}
	}
}

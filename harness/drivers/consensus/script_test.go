//go:build verif

// Spec -> code direction of the consensus binding: schedules chosen by TLC (behaviours of
// spec/consensus/MCGPBFT.tla exported through its history variable, and counterexamples of its
// mutant configurations = attack schedules) are executed on real gpbft.Participants.
// A script step is one action of the spec with its arguments: Start(n), Receive(n, m, to), Alarm(n, to).
// Honest messages are the ones the real participants actually produced (a step whose message was
// never emitted by the real code is skipped); Byzantine messages are signed with the Byzantine keys
// and carry a justification aggregated from exactly the signers the script names, using only
// signatures honest participants really produced. No verdict is computed here: the recorded trace
// has the same format as every other consensus trace and is judged by TLC (GPBFTObs / GPBFTTrace).
package zzconsensus

import (
	"context"
	"encoding/json"
	"errors"
	"fmt"
	"os"
	"path/filepath"
	"sort"
	"testing"
	"time"

	"github.com/filecoin-project/go-bitfield"
	"github.com/filecoin-project/go-f3/gpbft"
)

type scriptStep struct {
	A  string `json:"a"`
	N  int    `json:"n"`
	To bool   `json:"to"`
	M  jMsg   `json:"m"`
}

type script struct {
	Name      string       `json:"name"`
	Powers    []int64      `json:"powers"`
	Byz       []int        `json:"byz"`
	Inputs    [][]int      `json:"inputs"` // per id 1..N (Byzantine ids: ignored)
	Lookahead uint64       `json:"lookahead"`
	Continue  bool         `json:"continue"` // after the script: deliver everything, timely network, until all decide
	Sync      bool         `json:"sync"`     // the script is "asynchronous prefix, then stabilisation" (MCGPBFTSync.tla): the run counts as a C06 run
	Steps     []scriptStep `json:"steps"`
}

// forgeExact aggregates a justification from exactly the named signers: Byzantine members sign
// themselves, honest members contribute only a signature they really produced for that vote.
func (w *world) forgeExact(inst uint64, ph gpbft.Phase, r uint64, v *gpbft.ECChain, signers []int) *gpbft.Justification {
	pl := gpbft.Payload{Instance: inst, Round: r, Phase: ph, SupplementalData: w.supp, Value: v}
	sigs := map[int][]byte{}
	for _, m := range w.votes {
		if m.Vote.Instance == inst && m.Vote.Round == r && m.Vote.Phase == ph && m.Vote.Value.Eq(v) {
			sigs[int(m.Sender)] = m.Signature
		}
	}
	for _, b := range w.sc.Byz {
		idx := w.pt.Lookup[gpbft.ActorID(b)]
		bs, _ := w.sb.Sign(context.Background(), w.pt.Entries[idx].PubKey, pl.MarshalForSigning(network))
		sigs[b] = bs
	}
	want := map[int]bool{}
	for _, s := range signers {
		want[s] = true
	}
	var mask []int
	var ss [][]byte
	bf := bitfield.New()
	for i, e := range w.pt.Entries {
		if s, ok := sigs[int(e.ID)]; ok && want[int(e.ID)] {
			mask = append(mask, i)
			ss = append(ss, s)
			bf.Set(uint64(i))
		}
	}
	if len(mask) == 0 {
		return nil
	}
	a, err := w.agg.Aggregate(mask, ss)
	if err != nil {
		return nil
	}
	return &gpbft.Justification{Vote: pl, Signers: bf, Signature: a}
}

func phaseOf(s string) (gpbft.Phase, bool) {
	switch s {
	case "QUALITY":
		return gpbft.QUALITY_PHASE, true
	case "CONVERGE":
		return gpbft.CONVERGE_PHASE, true
	case "PREPARE":
		return gpbft.PREPARE_PHASE, true
	case "COMMIT":
		return gpbft.COMMIT_PHASE, true
	case "DECIDE":
		return gpbft.DECIDE_PHASE, true
	}
	return 0, false
}

func (w *world) chainOrBottom(ids []int) *gpbft.ECChain {
	if len(ids) == 0 {
		return &gpbft.ECChain{}
	}
	return w.chainOf(ids)
}

// resolve turns an abstract message of a script into a real one (nil: not available in this run).
func (w *world) resolve(m jMsg) (*gpbft.GMessage, bool) {
	ph, ok := phaseOf(m.Ph)
	if !ok {
		return nil, false
	}
	v := w.chainOrBottom(m.V)
	if !w.isByz[m.S] {
		for _, x := range w.votes {
			if int(x.Sender) == m.S && x.Vote.Instance == m.I && x.Vote.Round == m.R && x.Vote.Phase == ph && x.Vote.Value.Eq(v) {
				return x, false
			}
		}
		return nil, false
	}
	var j *gpbft.Justification
	if !m.J.None {
		jph, ok := phaseOf(m.J.Ph)
		if !ok {
			return nil, true
		}
		j = w.forgeExact(m.I, jph, m.J.R, w.chainOrBottom(m.J.V), m.J.S)
		if j == nil {
			return nil, true
		}
	}
	mb := &gpbft.MessageBuilder{NetworkName: network, PowerTable: w.pt, Payload: gpbft.Payload{Instance: m.I, Round: m.R, Phase: ph, SupplementalData: w.supp, Value: v}, Justification: j}
	if ph == gpbft.CONVERGE_PHASE {
		mb.BeaconForTicket = []byte("beacon")
	}
	x, err := mb.Build(context.Background(), w.sb, gpbft.ActorID(m.S))
	if err != nil {
		return nil, true
	}
	return x, true
}

func (w *world) setClock(h *host, p *gpbft.Participant, to bool) bool {
	pt, ok := p.VerifPhaseTimeout()
	if !ok {
		return false
	}
	if to && h.clk.Before(pt) {
		h.clk = pt
	}
	if w.now.Before(h.clk) {
		w.now = h.clk
	}
	return !h.clk.Before(pt)
}

func (w *world) runScript(sc script) {
	ctx := context.Background()
	w.scripted = true
	w.start()
	for _, id := range w.honest {
		w.hosts[id].clk = w.now
	}
	for _, st := range sc.Steps {
		h, ok := w.hosts[st.N]
		if !ok || h.done {
			w.skipped++
			continue
		}
		p := w.parts[st.N]
		pr := p.Progress()
		switch st.A {
		case "Start":
			if pr.Phase != gpbft.INITIAL_PHASE || h.started[pr.ID] {
				w.skipped++
				continue
			}
			h.alarm = nil
			ev := &jEvent{Ev: "Start", N: st.N, M: noMsg}
			err := p.ReceiveAlarm(ctx)
			if c, ok := h.inputs[pr.ID]; ok {
				ev.Input = w.chainIDs(c)
			}
			h.started[pr.ID] = true
			w.after(st.N, ev, err)
		case "Alarm":
			if pr.Phase == gpbft.INITIAL_PHASE {
				w.skipped++
				continue
			}
			ev := &jEvent{Ev: "Alarm", N: st.N, M: noMsg}
			ev.To = w.setClock(h, p, st.To)
			h.alarm = nil
			err := p.ReceiveAlarm(ctx)
			w.after(st.N, ev, err)
		case "Receive":
			msg, byz := w.resolve(st.M)
			if msg == nil {
				w.skipped++
				continue
			}
			to := w.setClock(h, p, st.To)
			vm, err := p.ValidateMessage(ctx, msg)
			if err != nil {
				if errors.Is(err, gpbft.ErrValidationNotRelevant) || errors.Is(err, gpbft.ErrValidationTooOld) || errors.Is(err, gpbft.ErrValidationNoCommittee) {
					w.skipped++
					continue
				}
				ev := &jEvent{Ev: "Rejected", N: st.N, M: w.jm(msg), Byz: byz}
				w.after(st.N, ev, err)
				continue
			}
			if byz {
				w.byzDelivered = true
			}
			ev := &jEvent{Ev: "Receive", N: st.N, M: w.jm(msg), Byz: byz, To: to}
			err = p.ReceiveMessage(ctx, vm)
			w.after(st.N, ev, err)
		default:
			w.skipped++
		}
	}
	if sc.Sync {
		// the tail after the script is a stabilised network with silent faulty members: the run is judged like every other C06 run
		w.sc.GST = time.Millisecond
		if min := w.t0.Add(2 * time.Millisecond); w.now.Before(min) {
			w.now = min // the tail runs strictly after the (nominal) stabilisation time
		}
		for _, id := range w.honest {
			if w.hosts[id].clk.Before(w.now) {
				w.hosts[id].clk = w.now
			}
		}
		w.gstPassed = true
		for _, id := range w.honest {
			w.gstRounds[id] = w.parts[id].Progress().Round
		}
	}
	reason := "done"
	if sc.Continue {
		// timely network from here on: everything honest participants ever sent is delivered, alarms fire when due
		for _, id := range w.honest {
			if w.now.Before(w.hosts[id].clk) {
				w.now = w.hosts[id].clk
			}
		}
		w.scripted = false
		w.sc.MaxDelay = 200 * time.Millisecond
		for _, m := range append([]*gpbft.GMessage{}, w.votes...) {
			w.broadcast(int(m.Sender), m, false)
		}
		for _, id := range w.honest {
			h := w.hosts[id]
			if h.alarm == nil && !h.done && w.parts[id].Progress().Phase != gpbft.INITIAL_PHASE {
				at := w.now.Add(3 * time.Second)
				h.alarm = &at
			}
		}
		steps := 0
		for {
			if steps >= w.sc.MaxSteps {
				reason = "maxsteps"
				break
			}
			if !w.step() {
				break
			}
			steps++
			over := false
			for _, id := range w.honest {
				if !w.hosts[id].done && w.parts[id].Progress().Round > w.sc.MaxRound {
					over = true
				}
			}
			if over {
				reason = "maxround"
				break
			}
		}
	}
	if reason == "done" {
		for _, id := range w.honest {
			if !w.hosts[id].done {
				reason = "drained"
			}
		}
	}
	w.end(reason)
}

// TestConsensusScripts: VERIF_SCRIPTS = JSON file with a list of scripts, VERIF_OUTDIR = directory for the traces
// (one file per group of scripts with identical configuration, as in TestConsensusRuns).
func TestConsensusScripts(t *testing.T) {
	outdir := os.Getenv("VERIF_OUTDIR")
	in := os.Getenv("VERIF_SCRIPTS")
	if outdir == "" || in == "" {
		t.Skip("VERIF_OUTDIR / VERIF_SCRIPTS not set")
	}
	raw, err := os.ReadFile(in)
	if err != nil {
		t.Fatal(err)
	}
	var scripts []script
	if err := json.Unmarshal(raw, &scripts); err != nil {
		t.Fatal(err)
	}
	tag := os.Getenv("VERIF_TAG")
	if tag == "" {
		tag = "script"
	}
	groups := map[string][]*world{}
	var keys []string
	for k, s := range scripts {
		sc := scenario{Name: fmt.Sprintf("%s-%s", tag, s.Name), Powers: s.Powers, Byz: s.Byz, Inputs: s.Inputs, Instances: 1, MaxSteps: envInt("VERIF_MAXSTEPS", 3000),
			MaxRound: 40, Lookahead: s.Lookahead, Adversary: "script", RebroadcastAfterRound: []int{-1, 0, 1}[k%3]}
		sort.Ints(sc.Byz)
		w := newWorld(sc, int64(k)+1)
		w.runScript(s)
		key := w.groupKey()
		if _, ok := groups[key]; !ok {
			keys = append(keys, key)
		}
		groups[key] = append(groups[key], w)
	}
	seed := envInt("VERIF_SEED", 1)
	for gi, key := range keys {
		if err := writeGroup(filepath.Join(outdir, fmt.Sprintf("%s-%d-%d.ndjson", tag, seed, gi)), groups[key]); err != nil {
			t.Fatal(err)
		}
	}
}

//go:build verif

// Driver for the consensus properties (C01, C02, C03, C06, C07): real gpbft.Participants on a
// deterministic scheduler (own clock, priority queue of deliveries and alarms, no goroutines),
// sim/signing.FakeBackend signatures, random / Byzantine-fed / partially synchronous / scripted
// schedules. One NDJSON line per call into a participant: the call, its full argument, and the
// observable result (Progress, messages handed to RequestBroadcast, decision, error).
// No oracle lives here: TLC judges the traces (spec/consensus/GPBFTObs.tla, GPBFTTrace.tla).
package zzconsensus

import (
	"bytes"
	"container/heap"
	"context"
	"encoding/json"
	"errors"
	"fmt"
	"math/big"
	"math/rand"
	"os"
	"sort"
	"time"

	"github.com/filecoin-project/go-bitfield"
	"github.com/filecoin-project/go-f3/certs"
	"github.com/filecoin-project/go-f3/gpbft"
	"github.com/filecoin-project/go-f3/pmsg"
	"github.com/filecoin-project/go-f3/sim/signing"
)

const network = gpbft.NetworkName("verif")

// ---- abstract encoding of messages
type jJust struct {
	None bool   `json:"none"`
	Ph   string `json:"ph"`
	R    uint64 `json:"r"`
	V    []int  `json:"v"`
	S    []int  `json:"S"`
}
type jMsg struct {
	None bool   `json:"none"`
	I    uint64 `json:"i"`
	S    int    `json:"s"`
	R    uint64 `json:"r"`
	Ph   string `json:"ph"`
	V    []int  `json:"v"`
	J    jJust  `json:"j"`
}
type jDec struct {
	None     bool    `json:"none"`
	Inst     uint64  `json:"inst"`
	R        uint64  `json:"r"`
	Ph       string  `json:"ph"`
	V        []int   `json:"v"`
	S        []int   `json:"S"`       // signer ids
	Pw       []int64 `json:"pw"`      // their scaled powers
	InTable  bool    `json:"intable"` // every signer index is inside the power table
	SuppOK   bool    `json:"suppok"`  // supplemental data equals the instance's
	VerifyOK bool    `json:"verifyok"`
	CertOK   bool    `json:"certok"`
	CertErr  string  `json:"certerr"`
}
type jEvent struct {
	Ev     string `json:"ev"`
	N      int    `json:"n"`
	T      int64  `json:"t"` // virtual ms
	Inst   uint64 `json:"inst"`
	Phase  string `json:"phase"`
	Round  uint64 `json:"round"`
	Input  []int  `json:"input"`
	M      jMsg   `json:"m"`
	To     bool   `json:"to"`
	Out    []jMsg `json:"out"`
	Peer   []string `json:"peer"` // verdict of an idle peer's validator for each output
	Dec    []int  `json:"dec"`
	DecJ   jDec   `json:"decj"`
	Err    string `json:"err"`
	ErrClass string `json:"errclass"`
	Byz    bool   `json:"byz"` // delivered message was produced by the adversary
	Bad    bool   `json:"bad"` // the adversary made this message invalid on purpose (garbage signature / foreign supplemental data)
	PostGST bool  `json:"postgst"`
}

type scenario struct {
	Name      string
	Powers    []int64 // raw power per id 1..N
	Byz       []int
	Inputs    [][]int // instance-0 input per id (tipset ids, base first)
	Instances int
	MaxDelay  time.Duration
	DropPct   int
	DupPct    int
	Stagger   time.Duration
	Adversary string // "", "forger"
	GST       time.Duration // 0 = no stabilisation; else time after which the network is timely and faulty members silent
	PreGSTMaxDelay time.Duration
	Uniform   bool // uniform input + synchronous + no faulty sender
	Lookahead uint64
	MaxSteps  int
	MaxRound  uint64
	Crash     map[int]time.Duration // honest id -> time after which it stops (crash-silent), pre-GST only
	SlowDest  int  // before stabilisation every message addressed to this honest member is slow (it leaves QUALITY on its time-out), all others are fast
	RebroadcastAfterRound int // -1: the default (3); otherwise the round after which rebroadcast is scheduled without waiting for the phase timeout
	SlowFloor bool // before stabilisation every message takes between 80% and 100% of PreGSTMaxDelay (a uniformly slow network)
	Late      int  // honest id that starts the instance only long after stabilisation (0 = nobody)
	Tamper    bool // the adversary shows tampered copies of observed votes (value replaced, signature stale) to a victim, twice each
	Isolate   bool // the network (adversarial scheduler) holds back every honest message addressed to the relabelling victim for a long time
	Partial   bool // every message travels as a partial message (announced value key), is partially validated on arrival and completed with its chain (production path of pmsg)
}

type world struct {
	sc      scenario
	sb      *signing.FakeBackend
	pt      *gpbft.PowerTable
	entries gpbft.PowerEntries
	agg     gpbft.Aggregate
	tsByKey map[string]int
	tsByID  map[int]*gpbft.TipSet
	now     time.Time
	t0      time.Time
	q       evq
	seq     int
	rng     *rand.Rand
	hosts   map[int]*host
	parts   map[int]*gpbft.Participant
	honest  []int
	isByz   map[int]bool
	log     []any
	supp    gpbft.SupplementalData
	votes   []*gpbft.GMessage // every honest vote ever emitted (the adversary's knowledge)
	byzDelivered bool
	observer *gpbft.Participant
	obsHost  *host
	gstRounds map[int]uint64
	gstPassed bool
	fatal   string
	relabelled map[*gpbft.GMessage]bool
	scripted bool // schedule comes from a TLC-generated script, not from the event queue
	skipped  int  // script steps whose precondition the real run did not meet
}

type host struct {
	w         *world
	id        int
	alarm     *time.Time
	out       []*gpbft.GMessage
	decs      []*gpbft.Justification
	reported  int
	inputs    map[uint64]*gpbft.ECChain
	sentBy    map[gpbft.Instant]*gpbft.GMessage
	started   map[uint64]bool
	done      bool
	crashed   bool
	maxRound  uint64    // highest round reported while running instance 0
	lastProg  gpbft.InstanceProgress
	lastMove  time.Time // virtual time of the last change of (instance, round, phase)
	clk       time.Time // own clock, scripted mode only (participants never share a clock in reality either)
}

func (h *host) GetProposal(ctx context.Context, i uint64) (*gpbft.SupplementalData, *gpbft.ECChain, error) {
	if c, ok := h.inputs[i]; ok {
		return &h.w.supp, c, nil
	}
	var c *gpbft.ECChain
	if i == 0 {
		c = h.w.chainOf(h.w.sc.Inputs[h.id-1])
	} else {
		// base = head of the previous decision known to this host (own decision)
		var base *gpbft.TipSet
		for _, d := range h.decs {
			if d.Vote.Instance == i-1 {
				base = d.Vote.Value.Head()
			}
		}
		if base == nil {
			return nil, nil, fmt.Errorf("no decision for instance %d", i-1)
		}
		b := h.w.tsByKey[string(base.Key)]
		k := int(i) * 100
		var ids []int
		switch h.id % 3 {
		case 0:
			ids = []int{b, k + 1, k + 2}
		case 1:
			ids = []int{b, k + 1}
		default:
			ids = []int{b, k + 3}
		}
		if h.w.sc.Uniform {
			ids = []int{b, k + 1, k + 2}
		}
		c = h.w.chainOf(ids)
	}
	h.inputs[i] = c
	return &h.w.supp, c, nil
}
func (h *host) GetCommittee(ctx context.Context, i uint64) (*gpbft.Committee, error) {
	return &gpbft.Committee{PowerTable: h.w.pt, Beacon: []byte("beacon"), AggregateVerifier: h.w.agg}, nil
}
func (h *host) NetworkName() gpbft.NetworkName { return network }
func (h *host) RequestBroadcast(mb *gpbft.MessageBuilder) error {
	m, err := mb.Build(context.Background(), h.w.sb, gpbft.ActorID(h.id))
	if err != nil {
		return err
	}
	h.out = append(h.out, m)
	h.sentBy[gpbft.Instant{ID: m.Vote.Instance, Round: m.Vote.Round, Phase: m.Vote.Phase}] = m
	h.w.votes = append(h.w.votes, m)
	return nil
}
func (h *host) RequestRebroadcast(i gpbft.Instant) error {
	if h.w.scripted {
		return nil
	}
	if m, ok := h.sentBy[i]; ok {
		h.w.broadcast(h.id, m, false)
	}
	return nil
}
func (h *host) Time() time.Time {
	if h.w.scripted {
		return h.clk
	}
	return h.w.now
}
func (h *host) SetAlarm(at time.Time) {
	if at.IsZero() {
		h.alarm = nil
	} else {
		h.alarm = &at
	}
}
func (h *host) Verify(k gpbft.PubKey, m, s []byte) error { return h.w.sb.Verify(k, m, s) }
func (h *host) Aggregate(keys []gpbft.PubKey) (gpbft.Aggregate, error) {
	return h.w.sb.Aggregate(keys)
}
func (h *host) ReceiveDecision(ctx context.Context, d *gpbft.Justification) (time.Time, error) {
	h.decs = append(h.decs, d)
	if len(h.decs) >= h.w.sc.Instances {
		h.done = true
		return h.w.now.Add(100000 * time.Hour), nil
	}
	return h.w.now.Add(time.Duration(h.w.rng.Int63n(int64(2 * time.Second)))), nil
}

type qev struct {
	at   time.Time
	seq  int
	dest int
	msg  *gpbft.GMessage
	byz  bool
	bad  bool // invalid on purpose
	badsupp bool // ... by foreign supplemental data (only meaningful for the instance the receiver is running)
	again bool // second delivery of a message the validator already refused once
	prime bool // partial mode: the genuine partial message is only partially validated (its chain "has not been discovered yet"), nothing is delivered
	relabel *gpbft.ECChain // partial mode: an observed message re-announced under the key of another chain and completed with that chain
}
type evq []*qev

func (q evq) Len() int { return len(q) }
func (q evq) Less(i, j int) bool {
	if q[i].at.Equal(q[j].at) {
		return q[i].seq < q[j].seq
	}
	return q[i].at.Before(q[j].at)
}
func (q evq) Swap(i, j int) { q[i], q[j] = q[j], q[i] }
func (q *evq) Push(x any)   { *q = append(*q, x.(*qev)) }
func (q *evq) Pop() any     { o := *q; n := len(o); x := o[n-1]; *q = o[:n-1]; return x }

func (w *world) ms() int64 { return w.now.Sub(w.t0).Milliseconds() }

func (w *world) postGST() bool { return w.sc.GST > 0 && !w.now.Before(w.t0.Add(w.sc.GST)) }

// delivery time of a message sent now
func (w *world) deliverAt() (time.Time, bool) {
	sc := w.sc
	if sc.GST > 0 {
		gst := w.t0.Add(sc.GST)
		bound := time.Duration(float64(time.Second) * 0.9)
		if w.postGST() {
			return w.now.Add(time.Duration(w.rng.Int63n(int64(bound)))), true
		}
		at := w.now.Add(time.Duration(w.rng.Int63n(int64(sc.PreGSTMaxDelay))))
		if sc.SlowFloor {
			at = w.now.Add(sc.PreGSTMaxDelay*4/5 + time.Duration(w.rng.Int63n(int64(sc.PreGSTMaxDelay/5))))
		}
		if lim := gst.Add(time.Duration(w.rng.Int63n(int64(bound)))); at.After(lim) {
			at = lim
		}
		return at, true // no loss between honest participants in GST scenarios
	}
	if w.rng.Intn(100) < sc.DropPct {
		return time.Time{}, false
	}
	return w.now.Add(time.Duration(w.rng.Int63n(int64(sc.MaxDelay) + 1))), true
}

func (w *world) broadcast(from int, m *gpbft.GMessage, byz bool) {
	if w.scripted {
		return
	}
	for _, id := range w.honest {
		at, ok := w.deliverAt()
		if !ok {
			continue
		}
		if w.sc.SlowFloor && !w.postGST() && w.now.Before(w.t0.Add(time.Second)) && 2*w.honestIndex(id) < len(w.honest) {
			// uniformly slow network, except that in the very first second half of the honest members hear everybody: they leave QUALITY with
			// the quorum-backed proposal, the others with the base -- views stay apart, rounds fail until the time-outs outgrow the delay
			at = w.now.Add(10 * time.Millisecond)
		}
		if w.sc.SlowDest > 0 && w.sc.GST > 0 && !w.postGST() {
			if id == w.sc.SlowDest && from != id {
				if m.Vote.Phase == gpbft.QUALITY_PHASE {
					// QUALITY votes reach it only around stabilisation: by then it is one or more rounds in
					at = w.t0.Add(w.sc.GST + time.Duration(w.rng.Int63n(int64(400*time.Millisecond))))
				} else {
					at = w.now.Add(time.Second + time.Duration(w.rng.Int63n(int64(2*time.Second))))
				}
			} else {
				at = w.now.Add(time.Duration(w.rng.Int63n(int64(200 * time.Millisecond))))
			}
			if lim := w.t0.Add(w.sc.GST + 500*time.Millisecond); at.After(lim) {
				at = lim
			}
		}
		if w.sc.Isolate && !byz && id == w.victim() && from != id {
			at = at.Add(40 * time.Second) // delayed, not lost
		}
		w.seq++
		heap.Push(&w.q, &qev{at: at, seq: w.seq, dest: id, msg: m, byz: byz})
		if w.sc.DupPct > 0 && w.rng.Intn(100) < w.sc.DupPct {
			at2, ok2 := w.deliverAt()
			if ok2 {
				w.seq++
				heap.Push(&w.q, &qev{at: at2, seq: w.seq, dest: id, msg: m, byz: byz})
			}
		}
	}
}

func (w *world) mkts(id int) *gpbft.TipSet {
	if ts, ok := w.tsByID[id]; ok {
		return ts
	}
	k := fmt.Sprintf("ts%d", id)
	// epochs must increase along every chain we build: chains are built with increasing ids except
	// forks (e.g. [0,3]) which are still increasing.
	ts := &gpbft.TipSet{Epoch: int64(id), Key: []byte(k), PowerTable: gpbft.MakeCid([]byte("pt"))}
	w.tsByKey[k] = id
	w.tsByID[id] = ts
	return ts
}
func (w *world) chainOf(ids []int) *gpbft.ECChain {
	if len(ids) == 0 {
		return &gpbft.ECChain{}
	}
	var tss []*gpbft.TipSet
	for _, id := range ids[1:] {
		tss = append(tss, w.mkts(id))
	}
	c, err := gpbft.NewChain(w.mkts(ids[0]), tss...)
	if err != nil {
		panic(err)
	}
	return c
}
func (w *world) chainIDs(c *gpbft.ECChain) []int {
	r := []int{}
	if c.IsZero() {
		return r
	}
	for _, ts := range c.TipSets {
		id, ok := w.tsByKey[string(ts.Key)]
		if !ok {
			id = -1
		}
		r = append(r, id)
	}
	return r
}
func (w *world) signers(j *gpbft.Justification) ([]int, []int64, bool) {
	var r []int
	var pw []int64
	ok := true
	_ = j.Signers.ForEach(func(i uint64) error {
		if int(i) >= len(w.pt.Entries) {
			ok = false
			return nil
		}
		r = append(r, int(w.pt.Entries[i].ID))
		pw = append(pw, w.pt.ScaledPower[i])
		return nil
	})
	if r == nil {
		r, pw = []int{}, []int64{}
	}
	return r, pw, ok
}
func (w *world) jm(m *gpbft.GMessage) jMsg {
	o := jMsg{I: m.Vote.Instance, S: int(m.Sender), R: m.Vote.Round, Ph: m.Vote.Phase.String(), V: w.chainIDs(m.Vote.Value)}
	if m.Justification == nil {
		o.J = jJust{None: true, V: []int{}, S: []int{}}
	} else {
		j := m.Justification
		s, _, _ := w.signers(j)
		sort.Ints(s)
		o.J = jJust{Ph: j.Vote.Phase.String(), R: j.Vote.Round, V: w.chainIDs(j.Vote.Value), S: s}
	}
	return o
}

var noMsg = jMsg{None: true, V: []int{}, J: jJust{None: true, V: []int{}, S: []int{}}}
var noDec = jDec{None: true, V: []int{}, S: []int{}, Pw: []int64{}}

// decision record for C03: everything the property's sentence talks about, measured on real objects
func (w *world) decInfo(h *host, d *gpbft.Justification) jDec {
	s, pw, inTable := w.signers(d)
	o := jDec{Inst: d.Vote.Instance, R: d.Vote.Round, Ph: d.Vote.Phase.String(), V: w.chainIDs(d.Vote.Value), S: s, Pw: pw, InTable: inTable}
	// compared field by field here (not with the code's own Eq, which is part of what is being checked)
	o.SuppOK = d.Vote.SupplementalData.Commitments == w.supp.Commitments && d.Vote.SupplementalData.PowerTable.Equals(w.supp.PowerTable)
	// aggregate verifies over exactly the decided value: rebuild the payload from the expected fields
	pl := gpbft.Payload{Instance: d.Vote.Instance, Round: 0, Phase: gpbft.DECIDE_PHASE, SupplementalData: w.supp, Value: d.Vote.Value}
	var idx []int
	_ = d.Signers.ForEach(func(i uint64) error { idx = append(idx, int(i)); return nil })
	if inTable {
		o.VerifyOK = w.agg.VerifyAggregate(idx, pl.MarshalForSigning(network), d.Signature) == nil
	}
	// certificate with the correct (here: empty) delta, validated on a second copy of the table
	second := make(gpbft.PowerEntries, len(w.entries))
	copy(second, w.entries)
	cert, err := certs.NewFinalityCertificate(certs.MakePowerTableDiff(w.entries, w.entries), d)
	if err != nil {
		o.CertErr = "new: " + err.Error()
		return o
	}
	base := h.inputs[d.Vote.Instance].Base()
	_, _, _, err = certs.ValidateFinalityCertificates(w.sb, network, second, d.Vote.Instance, base, cert)
	if err != nil {
		o.CertErr = err.Error()
	} else {
		o.CertOK = true
	}
	return o
}

func (w *world) after(id int, ev *jEvent, err error) {
	h := w.hosts[id]
	pr := w.parts[id].Progress()
	if pr.ID == 0 && pr.Round > h.maxRound {
		h.maxRound = pr.Round
	}
	if pr != h.lastProg || h.lastMove.IsZero() {
		h.lastProg, h.lastMove = pr, w.now
	}
	ev.T = w.ms()
	ev.Phase = pr.Phase.String()
	ev.Round = pr.Round
	ev.Inst = pr.ID
	ev.Dec = []int{}
	ev.DecJ = noDec
	ev.PostGST = w.postGST()
	if ev.Input == nil {
		ev.Input = []int{}
	}
	if len(h.decs) > h.reported {
		d := h.decs[len(h.decs)-1]
		h.reported = len(h.decs)
		ev.Phase = "TERMINATED"
		ev.Inst = d.Vote.Instance
		ev.Dec = w.chainIDs(d.Vote.Value)
		ev.DecJ = w.decInfo(h, d)
	}
	ev.Out = []jMsg{}
	ev.Peer = []string{}
	for _, m := range h.out {
		ev.Out = append(ev.Out, w.jm(m))
		ev.Peer = append(ev.Peer, w.peerVerdict(m))
		w.broadcast(id, m, false)
	}
	h.out = nil
	if err != nil {
		ev.Err = err.Error()
		if len(ev.Err) > 300 {
			ev.Err = ev.Err[:300]
		}
		var pe *gpbft.PanicError
		switch {
		case errors.As(err, &pe):
			ev.ErrClass = "panic"
		case errors.Is(err, gpbft.ErrValidationWrongBase), errors.Is(err, gpbft.ErrValidationWrongSupplement):
			ev.ErrClass = "latebinding"
		case errors.Is(err, gpbft.ErrValidationInvalid):
			ev.ErrClass = "invalid"
		default:
			ev.ErrClass = "other"
		}
	}
	w.log = append(w.log, ev)
}

// peerVerdict: what an idle peer (same committee, instance progress kept at the slowest honest participant) says
func (w *world) peerVerdict(m *gpbft.GMessage) string {
	minInst := uint64(1 << 62)
	for _, id := range w.honest {
		if p := w.parts[id].Progress().ID; p < minInst && !w.hosts[id].done {
			minInst = p
		}
	}
	if minInst != 1<<62 && w.observer.Progress().ID < minInst {
		_ = w.observer.StartInstanceAt(minInst, w.now.Add(1000000*time.Hour))
	}
	_, err := w.observer.ValidateMessage(context.Background(), m)
	switch {
	case err == nil:
		return "ok"
	case errors.Is(err, gpbft.ErrValidationInvalid):
		return "invalid"
	case errors.Is(err, gpbft.ErrValidationTooOld), errors.Is(err, gpbft.ErrValidationNotRelevant), errors.Is(err, gpbft.ErrValidationNoCommittee):
		return "notrelevant"
	default:
		return "error:" + err.Error()
	}
}

func newWorld(sc scenario, seed int64) *world {
	w := &world{sc: sc, sb: signing.NewFakeBackend(), pt: gpbft.NewPowerTable(), tsByKey: map[string]int{}, tsByID: map[int]*gpbft.TipSet{},
		rng: rand.New(rand.NewSource(seed)), now: time.Unix(100000, 0), hosts: map[int]*host{}, parts: map[int]*gpbft.Participant{},
		isByz: map[int]bool{}, gstRounds: map[int]uint64{}}
	w.t0 = w.now
	N := len(sc.Powers)
	for i := 1; i <= N; i++ {
		k, _ := w.sb.GenerateKey()
		w.entries = append(w.entries, gpbft.PowerEntry{ID: gpbft.ActorID(i), Power: gpbft.NewStoragePower(sc.Powers[i-1]), PubKey: k})
	}

	if err := w.pt.Add(w.entries...); err != nil {
		panic(err)
	}
	w.entries = w.pt.Entries
	w.agg, _ = w.sb.Aggregate(w.pt.Entries.PublicKeys())
	ptCid, err := certs.MakePowerTableCID(w.entries)
	if err != nil {
		panic(err)
	}
	w.supp = gpbft.SupplementalData{PowerTable: ptCid}
	for _, b := range sc.Byz {
		w.isByz[b] = true
	}
	for i := 1; i <= N; i++ {
		if !w.isByz[i] {
			w.honest = append(w.honest, i)
		}
	}
	return w
}

func (w *world) scaled(id int) int64 {
	p, _ := w.pt.Get(gpbft.ActorID(id))
	return p
}

func (w *world) newParticipant(h *host) *gpbft.Participant {
	opts := []gpbft.Option{gpbft.WithDelta(time.Second), gpbft.WithRebroadcastBackoff(1.3, 0, 3*time.Second, 30*time.Second)}
	if w.sc.Lookahead > 0 {
		opts = append(opts, gpbft.WithMaxLookaheadRounds(w.sc.Lookahead))
	}
	if w.sc.RebroadcastAfterRound >= 0 {
		// the "late round" regime (rebroadcast before the phase time-out) from round 1 or 2 on, where ordinary runs do get
		opts = append(opts, gpbft.WithRebroadcastImmediatelyAfterRound(uint64(w.sc.RebroadcastAfterRound)))
	}
	p, err := gpbft.NewParticipant(h, opts...)
	if err != nil {
		panic(err)
	}
	return p
}

func (w *world) config() map[string]any {
	N := len(w.sc.Powers)
	ctx := context.Background()
	scaled := []int64{}
	for i := 1; i <= N; i++ {
		scaled = append(scaled, w.scaled(i))
	}
	order := []int{}
	for _, e := range w.pt.Entries {
		order = append(order, int(e.ID))
	}
	maxR := int(w.sc.MaxRound) + 2
	// rank[p][inst][r]: position (1 = best) of p's ticket among all members for that instance/round
	ranks := make([][][]int, N)
	for i := range ranks {
		ranks[i] = make([][]int, w.sc.Instances)
	}
	val := w.chainOf([]int{0, 1})
	for inst := 0; inst < w.sc.Instances; inst++ {
		for r := 0; r <= maxR; r++ {
			type rk struct {
				id int
				v  float64
			}
			var l []rk
			for i := 1; i <= N; i++ {
				mb := &gpbft.MessageBuilder{NetworkName: network, PowerTable: w.pt, Payload: gpbft.Payload{Instance: uint64(inst), Round: uint64(r), Phase: gpbft.CONVERGE_PHASE, SupplementalData: w.supp, Value: val}, BeaconForTicket: []byte("beacon")}
				if scaled[i-1] == 0 {
					l = append(l, rk{i, 1e300}) // a member without scaled power cannot even build a message
					continue
				}
				m, err := mb.Build(ctx, w.sb, gpbft.ActorID(i))
				if err != nil {
					panic(err)
				}
				l = append(l, rk{i, gpbft.ComputeTicketRank(m.Ticket, scaled[i-1])})
			}
			sort.SliceStable(l, func(a, b int) bool { return l[a].v < l[b].v })
			for pos, x := range l {
				ranks[x.id-1][inst] = append(ranks[x.id-1][inst], pos+1)
			}
		}
	}
	byz := append([]int{}, w.sc.Byz...)
	var total int64
	for _, s := range scaled {
		total += s
	}
	return map[string]any{"ev": "Config", "n": N, "byz": byz, "power": scaled, "total": total, "order": order, "rank": ranks,
		"insts": w.sc.Instances, "lookahead": w.sc.Lookahead, "uniform": w.sc.Uniform, "maxround": w.sc.MaxRound}
}

// forge builds a justification from Byzantine keys plus honest signatures actually observed.
func (w *world) forge(inst uint64, ph gpbft.Phase, r uint64, v *gpbft.ECChain) *gpbft.Justification {
	pl := gpbft.Payload{Instance: inst, Round: r, Phase: ph, SupplementalData: w.supp, Value: v}
	sigs := map[int][]byte{}
	for _, m := range w.votes {
		if m.Vote.Instance == inst && m.Vote.Round == r && m.Vote.Phase == ph && m.Vote.Value.Eq(v) {
			sigs[int(m.Sender)] = m.Signature
		}
	}
	for _, b := range w.sc.Byz {
		idx := w.pt.Lookup[gpbft.ActorID(b)]
		bs, _ := w.sb.Sign(context.Background(), w.pt.Entries[idx].PubKey, pl.MarshalForSigning(network))
		sigs[b] = bs
	}
	var power int64
	var mask []int
	var ss [][]byte
	bf := bitfield.New()
	for i, e := range w.pt.Entries {
		if s, ok := sigs[int(e.ID)]; ok && w.pt.ScaledPower[i] > 0 {
			mask = append(mask, i)
			ss = append(ss, s)
			bf.Set(uint64(i))
			power += w.pt.ScaledPower[i]
		}
	}
	if !gpbft.IsStrongQuorum(power, w.pt.ScaledTotal) {
		return nil
	}
	a, err := w.agg.Aggregate(mask, ss)
	if err != nil {
		return nil
	}
	return &gpbft.Justification{Vote: pl, Signers: bf, Signature: a}
}

// byzMessage builds a validly signed message of a Byzantine sender if the rules admit one.
func (w *world) byzMessage(sender int, inst uint64, ph gpbft.Phase, r uint64, v *gpbft.ECChain, jopt int) *gpbft.GMessage {
	return w.byzMessageSupp(sender, inst, ph, r, v, jopt, w.supp)
}

// byzMessageSupp: as byzMessage, but the Byzantine sender signs a payload carrying the given supplemental data
// (the justification, aggregated from observed signatures, necessarily carries the instance's real one).
func (w *world) byzMessageSupp(sender int, inst uint64, ph gpbft.Phase, r uint64, v *gpbft.ECChain, jopt int, supp gpbft.SupplementalData) *gpbft.GMessage {
	if ph == gpbft.QUALITY_PHASE || ph == gpbft.DECIDE_PHASE {
		r = 0
	}
	if (ph == gpbft.QUALITY_PHASE || ph == gpbft.CONVERGE_PHASE || ph == gpbft.DECIDE_PHASE) && v.IsZero() {
		return nil
	}
	if ph == gpbft.CONVERGE_PHASE && r == 0 {
		return nil
	}
	var j *gpbft.Justification
	need := !(ph == gpbft.QUALITY_PHASE || (ph == gpbft.PREPARE_PHASE && r == 0) || (ph == gpbft.COMMIT_PHASE && v.IsZero()))
	if need {
		type opt struct {
			ph gpbft.Phase
			r  uint64
			v  *gpbft.ECChain
		}
		var opts []opt
		switch ph {
		case gpbft.CONVERGE_PHASE, gpbft.PREPARE_PHASE:
			opts = []opt{{gpbft.COMMIT_PHASE, r - 1, &gpbft.ECChain{}}, {gpbft.PREPARE_PHASE, r - 1, v}}
		case gpbft.COMMIT_PHASE:
			opts = []opt{{gpbft.PREPARE_PHASE, r, v}}
		case gpbft.DECIDE_PHASE:
			for rr := uint64(0); rr <= w.sc.MaxRound; rr++ {
				opts = append(opts, opt{gpbft.COMMIT_PHASE, rr, v})
			}
		}
		if jopt >= 0 && jopt < len(opts) {
			opts = []opt{opts[jopt]}
		} else {
			w.rng.Shuffle(len(opts), func(a, b int) { opts[a], opts[b] = opts[b], opts[a] })
		}
		for _, o := range opts {
			if o.ph == gpbft.PREPARE_PHASE && o.v.IsZero() && ph != gpbft.PREPARE_PHASE {
				continue
			}
			if jj := w.forge(inst, o.ph, o.r, o.v); jj != nil {
				j = jj
				break
			}
		}
		if j == nil {
			return nil
		}
	}
	mb := &gpbft.MessageBuilder{NetworkName: network, PowerTable: w.pt, Payload: gpbft.Payload{Instance: inst, Round: r, Phase: ph, SupplementalData: supp, Value: v}, Justification: j}
	if ph == gpbft.CONVERGE_PHASE {
		mb.BeaconForTicket = []byte("beacon")
	}
	m, err := mb.Build(context.Background(), w.sb, gpbft.ActorID(sender))
	if err != nil {
		return nil
	}
	return m
}

func (w *world) knownChains() []*gpbft.ECChain {
	seen := map[string]bool{}
	var out []*gpbft.ECChain
	add := func(c *gpbft.ECChain) {
		k := fmt.Sprint(w.chainIDs(c))
		if !seen[k] {
			seen[k] = true
			out = append(out, c)
		}
	}
	add(&gpbft.ECChain{})
	for _, id := range w.honest {
		for _, c := range w.hosts[id].inputs {
			for _, p := range c.AllPrefixes() {
				add(p)
			}
			// a chain with the right base that no honest participant proposes (the adversary may vote for anything it can sign)
			if b := w.tsByKey[string(c.Base().Key)]; b >= 0 {
				add(w.chainOf([]int{b, 9000 + b}))
				// ... and a chain with a foreign base (valid for the validator, refused by the late-binding check of the instance)
				add(w.chainOf([]int{7000 + b, 7500 + b}))
			}
		}
	}
	return out
}

func (w *world) byzStep() {
	if len(w.sc.Byz) == 0 || w.postGST() {
		return
	}
	if w.sc.Partial && w.rng.Intn(3) == 0 && w.relabelStep() {
		return
	}
	if !w.sc.Partial && w.sc.Tamper && w.rng.Intn(3) == 0 && w.tamperStep() {
		return
	}
	phases := []gpbft.Phase{gpbft.QUALITY_PHASE, gpbft.CONVERGE_PHASE, gpbft.PREPARE_PHASE, gpbft.COMMIT_PHASE, gpbft.DECIDE_PHASE}
	ph := phases[w.rng.Intn(len(phases))]
	var maxR, inst uint64
	inst = 1 << 62
	for _, id := range w.honest {
		pr := w.parts[id].Progress()
		if w.hosts[id].done {
			continue
		}
		if pr.Round > maxR {
			maxR = pr.Round
		}
		if pr.ID < inst {
			inst = pr.ID
		}
	}
	if inst == 1<<62 {
		return
	}
	if w.rng.Intn(4) == 0 && int(inst)+1 < w.sc.Instances {
		inst++ // occasionally target the next instance (queued by slower participants)
	}
	r := uint64(w.rng.Intn(int(maxR) + 2))
	chains := w.knownChains()
	v := chains[w.rng.Intn(len(chains))]
	sender := w.sc.Byz[w.rng.Intn(len(w.sc.Byz))]
	var m *gpbft.GMessage
	bad, badsupp := false, false
	switch w.rng.Intn(12) {
	case 0: // validly signed, but over foreign supplemental data (same power table CID, other commitments)
		supp := w.supp
		supp.Commitments[0] ^= 0x5a
		m = w.byzMessageSupp(sender, inst, ph, r, v, -1, supp)
		bad, badsupp = true, true
	case 1: // garbage payload signature; refused messages are delivered a second time (a verdict must not depend on history)
		m = w.byzMessage(sender, inst, ph, r, v, -1)
		if m != nil {
			cp := *m
			cp.Signature = append([]byte{}, m.Signature...)
			cp.Signature[len(cp.Signature)/2] ^= 0xff
			m = &cp
			bad = true
		}
	default:
		m = w.byzMessage(sender, inst, ph, r, v, -1)
	}
	if m == nil {
		return
	}
	for _, id := range w.honest {
		if w.rng.Intn(2) == 0 {
			at, ok := w.deliverAt()
			if !ok {
				continue
			}
			w.seq++
			heap.Push(&w.q, &qev{at: at, seq: w.seq, dest: id, msg: m, byz: true, bad: bad, badsupp: badsupp})
		}
	}
}

// relabelStep (partial mode): the adversary re-announces a vote it has observed (any sender's, unchanged bytes and signature) under
// the key of another chain, to one fixed victim, right after the victim has partially validated the genuine partial message whose
// chain "has not been discovered yet". Only observed signatures are used. A correct validator refuses the re-announced message.
// tamperStep: the adversary takes a vote it has observed (any sender's), replaces the value by another chain -- the signature no longer
// matches -- and shows the result to one fixed victim twice in a row. A verdict must not depend on history: both copies are refused.
func (w *world) tamperStep() bool {
	victim := w.victim()
	h := w.hosts[victim]
	if h.done || h.crashed {
		return false
	}
	inst := w.parts[victim].Progress().ID
	in := h.inputs[inst]
	if in == nil {
		return false
	}
	if w.relabelled == nil {
		w.relabelled = map[*gpbft.GMessage]bool{}
	}
	var decides, others []*gpbft.GMessage
	for k := len(w.votes) - 1; k >= 0 && len(others) < 12; k-- {
		m := w.votes[k]
		if m.Vote.Instance != inst || m.Vote.Value.IsZero() || int(m.Sender) == victim || w.relabelled[m] {
			continue
		}
		switch m.Vote.Phase {
		case gpbft.DECIDE_PHASE:
			decides = append(decides, m)
		case gpbft.COMMIT_PHASE, gpbft.PREPARE_PHASE:
			others = append(others, m)
		}
	}
	pick := decides
	if len(pick) == 0 && len(others) > 0 {
		pick = []*gpbft.GMessage{others[w.rng.Intn(len(others))]}
	}
	if len(pick) == 0 {
		return false
	}
	for _, m := range pick {
		y := in
		if y.Eq(m.Vote.Value) {
			y = in.BaseChain()
			if y.Eq(m.Vote.Value) {
				continue
			}
		}
		w.relabelled[m] = true
		cp := *m
		cp.Vote.Value = y
		if m.Justification != nil {
			j := *m.Justification
			j.Vote.Value = y
			cp.Justification = &j
		}
		for rep := 0; rep < 2; rep++ {
			w.seq++
			heap.Push(&w.q, &qev{at: w.now.Add(time.Duration(1+rep) * time.Millisecond), seq: w.seq, dest: victim, msg: &cp, byz: true, bad: true, again: true})
		}
		if m.Vote.Phase == gpbft.DECIDE_PHASE {
			if bm := w.byzMessage(w.sc.Byz[0], inst, gpbft.DECIDE_PHASE, 0, m.Vote.Value, -1); bm != nil {
				for _, id := range w.honest {
					if id != victim {
						w.seq++
						heap.Push(&w.q, &qev{at: w.now.Add(time.Millisecond), seq: w.seq, dest: id, msg: bm, byz: true})
					}
				}
				bcp := *bm
				bcp.Vote.Value = y
				if bm.Justification != nil {
					j := *bm.Justification
					j.Vote.Value = y
					bcp.Justification = &j
				}
				for rep := 0; rep < 2; rep++ {
					w.seq++
					heap.Push(&w.q, &qev{at: w.now.Add(time.Duration(1+rep) * time.Millisecond), seq: w.seq, dest: victim, msg: &bcp, byz: true, bad: true, again: true})
				}
			}
		}
	}
	return true
}

func (w *world) honestIndex(id int) int {
	for k, h := range w.honest {
		if h == id {
			return k
		}
	}
	return len(w.honest)
}

func (w *world) victim() int { return w.honest[int(w.sc.MaxSteps+len(w.sc.Inputs))%len(w.honest)] }

func (w *world) relabelStep() bool {
	victim := w.victim()
	h := w.hosts[victim]
	if h.done || h.crashed {
		return false
	}
	inst := w.parts[victim].Progress().ID
	in := h.inputs[inst]
	if in == nil {
		return false
	}
	if w.relabelled == nil {
		w.relabelled = map[*gpbft.GMessage]bool{}
	}
	// every observed DECIDE is re-announced at once (it reaches the victim before the genuine message does); otherwise one earlier vote
	var decides, others []*gpbft.GMessage
	for k := len(w.votes) - 1; k >= 0 && len(others) < 12; k-- {
		m := w.votes[k]
		if m.Vote.Instance != inst || m.Vote.Value.IsZero() || int(m.Sender) == victim || w.relabelled[m] {
			continue
		}
		switch m.Vote.Phase {
		case gpbft.DECIDE_PHASE:
			decides = append(decides, m)
		case gpbft.COMMIT_PHASE, gpbft.PREPARE_PHASE:
			others = append(others, m)
		}
	}
	pick := decides
	if len(pick) == 0 && len(others) > 0 {
		pick = []*gpbft.GMessage{others[w.rng.Intn(len(others))]}
	}
	if len(pick) == 0 {
		return false
	}
	for _, m := range pick {
		// the target chain is fixed per run: the victim's own input (its base if the vote is for that input already)
		y := in
		if y.Eq(m.Vote.Value) {
			y = in.BaseChain()
			if y.Eq(m.Vote.Value) {
				continue
			}
		}
		w.relabelled[m] = true
		w.seq++
		heap.Push(&w.q, &qev{at: w.now.Add(time.Millisecond), seq: w.seq, dest: victim, msg: m, byz: true, bad: true, prime: true})
		w.seq++
		heap.Push(&w.q, &qev{at: w.now.Add(time.Millisecond), seq: w.seq, dest: victim, msg: m, byz: true, bad: true, relabel: y})
		if m.Vote.Phase == gpbft.DECIDE_PHASE {
			// the faulty member helps everybody else to decide the genuine value (a valid DECIDE of its own, if it can justify one)
			if bm := w.byzMessage(w.sc.Byz[0], inst, gpbft.DECIDE_PHASE, 0, m.Vote.Value, -1); bm != nil {
				for _, id := range w.honest {
					if id != victim {
						w.seq++
						heap.Push(&w.q, &qev{at: w.now.Add(time.Millisecond), seq: w.seq, dest: id, msg: bm, byz: true})
					}
				}
				// ... and re-announces its own DECIDE to the victim as well
				w.seq++
				heap.Push(&w.q, &qev{at: w.now.Add(time.Millisecond), seq: w.seq, dest: victim, msg: bm, byz: true, bad: true, prime: true})
				w.seq++
				heap.Push(&w.q, &qev{at: w.now.Add(time.Millisecond), seq: w.seq, dest: victim, msg: bm, byz: true, bad: true, relabel: y})
			}
		}
	}
	return true
}

func (w *world) start() {
	for _, id := range w.honest {
		h := &host{w: w, id: id, inputs: map[uint64]*gpbft.ECChain{}, sentBy: map[gpbft.Instant]*gpbft.GMessage{}, started: map[uint64]bool{}}
		w.hosts[id] = h
		w.parts[id] = w.newParticipant(h)
	}
	w.obsHost = &host{w: w, id: w.honest[0], inputs: map[uint64]*gpbft.ECChain{}, sentBy: map[gpbft.Instant]*gpbft.GMessage{}, started: map[uint64]bool{}}
	w.observer = w.newParticipant(w.obsHost)
	_ = w.observer.StartInstanceAt(0, w.now.Add(1000000*time.Hour))
	w.log = append(w.log, w.config())
	w.log = append(w.log, map[string]any{"ev": "Reset", "name": w.sc.Name, "gst": w.sc.GST.Milliseconds(), "inputs0": w.sc.Inputs,
		"maxdelay": w.sc.MaxDelay.Milliseconds(), "drop": w.sc.DropPct, "adversary": w.sc.Adversary, "partial": w.sc.Partial, "isolate": w.sc.Isolate})
	for _, id := range w.honest {
		when := w.now
		if w.sc.Stagger > 0 {
			when = w.now.Add(time.Duration(w.rng.Int63n(int64(w.sc.Stagger))))
		}
		if w.sc.Late == id && w.sc.GST > 0 {
			when = w.t0.Add(w.sc.GST + 40*time.Second)
			if len(w.sc.Byz) > 0 {
				// a validly signed QUALITY vote of a faulty member for a chain with a foreign base waits in the late starter's queue
				// (first in drain order); the instance must drop it and still absorb everything behind it
				fb := w.chainOf([]int{7000, 7500})
				if m := w.byzMessage(w.sc.Byz[0], 0, gpbft.QUALITY_PHASE, 0, fb, -1); m != nil {
					w.seq++
					heap.Push(&w.q, &qev{at: w.t0.Add(50 * time.Millisecond), seq: w.seq, dest: id, msg: m, byz: true})
				}
			}
		}
		if err := w.parts[id].StartInstanceAt(0, when); err != nil {
			panic(err)
		}
	}
}

// step processes the next scheduled event; returns false when nothing is left or all are done.
func (w *world) step() bool {
	ctx := context.Background()
	alarmID := 0
	var alarmAt time.Time
	alldone := true
	for _, id := range w.honest {
		h := w.hosts[id]
		if h.done || h.crashed {
			continue
		}
		alldone = false
		if h.alarm != nil && (alarmID == 0 || h.alarm.Before(alarmAt)) {
			alarmID, alarmAt = id, *h.alarm
		}
	}
	if alldone || (alarmID == 0 && w.q.Len() == 0) {
		return false
	}
	// stabilisation bookkeeping
	if w.sc.GST > 0 && !w.gstPassed {
		next := alarmAt
		if alarmID == 0 || (w.q.Len() > 0 && w.q[0].at.Before(alarmAt)) {
			next = w.q[0].at
		}
		if !next.Before(w.t0.Add(w.sc.GST)) {
			w.gstPassed = true
			for _, id := range w.honest {
				w.gstRounds[id] = w.parts[id].Progress().Round
			}
		}
	}
	if alarmID != 0 && (w.q.Len() == 0 || !w.q[0].at.Before(alarmAt)) {
		if w.now.Before(alarmAt) {
			w.now = alarmAt
		}
		w.checkCrash()
		h := w.hosts[alarmID]
		if h.crashed {
			return true
		}
		h.alarm = nil
		pr := w.parts[alarmID].Progress()
		first := pr.Phase == gpbft.INITIAL_PHASE
		ev := &jEvent{Ev: "Alarm", N: alarmID, M: noMsg}
		if first {
			ev.Ev = "Start"
		} else if pt, ok := w.parts[alarmID].VerifPhaseTimeout(); ok {
			ev.To = !w.now.Before(pt)
		}
		err := w.parts[alarmID].ReceiveAlarm(ctx)
		if first {
			if c, ok := h.inputs[pr.ID]; ok {
				ev.Input = w.chainIDs(c)
			}
			h.started[pr.ID] = true
		}
		w.after(alarmID, ev, err)
		return true
	}
	e := heap.Pop(&w.q).(*qev)
	if w.now.Before(e.at) {
		w.now = e.at
	}
	w.checkCrash()
	h := w.hosts[e.dest]
	if h.done || h.crashed {
		return true
	}
	if e.badsupp {
		// the queue of a participant that has not started the instance yet cannot tell foreign supplemental data apart; such a
		// message is dropped silently when the queue is drained -- nothing observable, so it is not delivered in the first place
		if pr := w.parts[e.dest].Progress(); pr.Phase == gpbft.INITIAL_PHASE || pr.ID != e.msg.Vote.Instance {
			return true
		}
	}
	if e.prime {
		if pm, perr := stripper.ToPartialGMessage(e.msg); perr == nil {
			_, _ = w.parts[e.dest].PartiallyValidateMessage(ctx, pm)
		}
		return true
	}
	vm, delivered, err := w.validateVia(w.parts[e.dest], e.msg, e.relabel)
	if err != nil {
		if errors.Is(err, gpbft.ErrValidationNotRelevant) || errors.Is(err, gpbft.ErrValidationTooOld) || errors.Is(err, gpbft.ErrValidationNoCommittee) {
			return true
		}
		// a rejected message: an event of its own (C07: honest output must never be branded invalid)
		ev := &jEvent{Ev: "Rejected", N: e.dest, M: w.jm(delivered), Byz: e.byz, Bad: e.bad}
		w.after(e.dest, ev, err)
		if e.bad && !e.again && e.relabel == nil {
			w.seq++
			heap.Push(&w.q, &qev{at: w.now.Add(time.Millisecond), seq: w.seq, dest: e.dest, msg: e.msg, byz: true, bad: true, again: true})
		}
		return true
	}
	if e.byz {
		w.byzDelivered = true
	}
	ev := &jEvent{Ev: "Receive", N: e.dest, M: w.jm(delivered), Byz: e.byz, Bad: e.bad}
	if pt, ok := w.parts[e.dest].VerifPhaseTimeout(); ok {
		ev.To = !w.now.Before(pt)
	}
	err = w.parts[e.dest].ReceiveMessage(ctx, vm)
	w.after(e.dest, ev, err)
	return true
}

var stripper = &pmsg.PartialMessageManager{} // ToPartialGMessage uses no field of the manager

// validateVia validates a message the way the scenario prescribes: one-shot (ValidateMessage), or - partial mode - as the production
// host does: strip to the partial form (announced value key), PartiallyValidateMessage, complete with the chain, FullyValidateMessage.
// relabel != nil: the partial form announces the key of that other chain and is completed with it. Returns the message as delivered.
func (w *world) validateVia(p *gpbft.Participant, msg *gpbft.GMessage, relabel *gpbft.ECChain) (gpbft.ValidatedMessage, *gpbft.GMessage, error) {
	ctx := context.Background()
	if !w.sc.Partial {
		vm, err := p.ValidateMessage(ctx, msg)
		return vm, msg, err
	}
	pm, err := stripper.ToPartialGMessage(msg)
	if err != nil {
		return nil, msg, err
	}
	chain := msg.Vote.Value
	if relabel != nil && !pm.VoteValueKey.IsZero() {
		pm.VoteValueKey = relabel.Key()
		chain = relabel
	}
	shown := *pm.GMessage
	shown.Vote.Value = chain
	if msg.Justification != nil {
		shown.Justification = msg.Justification
	}
	pv, err := p.PartiallyValidateMessage(ctx, pm)
	if err != nil {
		return nil, &shown, err
	}
	if !pm.VoteValueKey.IsZero() {
		pm.Vote.Value = chain
		pmsg.VerifInferJustificationVoteValue(pm)
	}
	vm, err := p.FullyValidateMessage(ctx, pv)
	if err != nil {
		return nil, &shown, err
	}
	return vm, vm.Message(), nil
}

func (w *world) checkCrash() {
	for id, at := range w.sc.Crash {
		if h, ok := w.hosts[id]; ok && !h.crashed && !w.now.Before(w.t0.Add(at)) {
			h.crashed = true
			w.log = append(w.log, &jEvent{Ev: "CrashStop", N: id, T: w.ms(), M: noMsg, Input: []int{}, Out: []jMsg{}, Peer: []string{}, Dec: []int{}, DecJ: noDec})
		}
	}
}

// stalled: under a timely network (after stabilisation) some started, live, undecided honest participant has not changed its
// (instance, round, phase) for 150 times the length of a whole round of its current round number (4 phases of 2*delta*backoff^round).
// The run is cut there; TLC judges it (C06). Runs without stabilisation are never cut this way.
func (w *world) stalled() bool {
	if w.sc.GST == 0 || !w.gstPassed {
		return false
	}
	for _, id := range w.honest {
		h := w.hosts[id]
		if h.done || h.crashed || !h.started[0] || h.lastMove.IsZero() {
			continue
		}
		round := float64(w.parts[id].Progress().Round)
		roundLen := time.Duration(float64(8*time.Second) * pow13(round))
		if w.now.Sub(h.lastMove) > 150*roundLen {
			return true
		}
	}
	return false
}

func pow13(r float64) float64 {
	x := 1.0
	for i := 0; i < int(r); i++ {
		x *= 1.3
	}
	return x
}

func (w *world) end(reason string) {
	type pend struct {
		N        int    `json:"n"`
		Started  bool   `json:"started"`
		Decided  int    `json:"decided"` // number of instances decided
		Crashed  bool   `json:"crashed"`
		Round    uint64 `json:"round"`
		GSTRound uint64 `json:"gstround"`
		MaxRound uint64 `json:"maxround"` // highest round reached in instance 0
		Inst     uint64 `json:"inst"`
	}
	var ps []pend
	for _, id := range w.honest {
		h := w.hosts[id]
		pr := w.parts[id].Progress()
		ps = append(ps, pend{N: id, Started: h.started[0], Decided: len(h.decs), Crashed: h.crashed, Round: pr.Round, GSTRound: w.gstRounds[id], MaxRound: h.maxRound, Inst: pr.ID})
	}
	w.log = append(w.log, map[string]any{"ev": "End", "reason": reason, "parts": ps, "byzdelivered": w.byzDelivered, "t": w.ms(),
		"gstpassed": w.gstPassed, "insts": w.sc.Instances, "gst": w.sc.GST.Milliseconds(), "name": w.sc.Name, "skipped": w.skipped})
}

func (w *world) run() {
	w.start()
	steps := 0
	reason := "done"
	for {
		steps++
		if steps > w.sc.MaxSteps {
			reason = "maxsteps"
			break
		}
		over := false
		for _, id := range w.honest {
			if !w.hosts[id].done && w.parts[id].Progress().Round > w.sc.MaxRound {
				over = true
			}
		}
		if w.gstPassed && !w.byzDelivered {
			// no faulty message was ever delivered: eight rounds beyond the highest round at stabilisation is already beyond the bound TLC
			// checks (+6); there is no point in recording the run any further
			var gmax uint64
			for _, r := range w.gstRounds {
				if r > gmax {
					gmax = r
				}
			}
			for _, id := range w.honest {
				if !w.hosts[id].done && !w.hosts[id].crashed && w.parts[id].Progress().ID == 0 && w.parts[id].Progress().Round > gmax+8 {
					over = true
				}
			}
		}
		if over {
			reason = "maxround"
			break
		}
		if w.stalled() {
			reason = "stalled"
			break
		}
		if !w.step() {
			alldone := true
			for _, id := range w.honest {
				if !w.hosts[id].done && !w.hosts[id].crashed {
					alldone = false
				}
			}
			if !alldone {
				reason = "drained"
			}
			break
		}
		if w.sc.Adversary == "forger" {
			for k := 0; k < 2; k++ {
				w.byzStep()
			}
		}
	}
	w.end(reason)
}

// groupKey: runs with the same key have byte-identical Config lines and are concatenated into one trace file
func (w *world) groupKey() string {
	b, _ := json.Marshal(w.log[0])
	return string(b)
}

// writeGroup writes Config once, then every run (Reset ... End)
func writeGroup(path string, ws []*world) error {
	var buf bytes.Buffer
	enc := json.NewEncoder(&buf)
	if err := enc.Encode(ws[0].log[0]); err != nil {
		return err
	}
	for _, w := range ws {
		for _, e := range w.log[1:] {
			if err := enc.Encode(e); err != nil {
				return err
			}
		}
	}
	return os.WriteFile(path, buf.Bytes(), 0o644)
}

var _ = big.NewInt

//go:build verif

// Driver for property C14 (encodings), parts "signed bytes" and "chain keys".
// It calls the REAL encoders of go-f3 on families of field tuples / chains and records one NDJSON
// row per call with the inputs and the bytes (or keys) the code returned.  It compares nothing:
// the verdicts are TLC's (spec/msg/PayloadTrace.tla, spec/msg/MerkleTrace.tla).
package zzenc

import (
	"bytes"
	"bufio"
	"encoding/binary"
	"encoding/hex"
	"encoding/json"
	"fmt"
	"math/rand"
	"os"
	"strconv"
	"strings"
	"testing"

	"github.com/filecoin-project/go-f3/gpbft"
	"github.com/filecoin-project/go-f3/merkle"
	"github.com/filecoin-project/go-keccak"
	"github.com/ipfs/go-cid"
	"github.com/multiformats/go-multihash"
)

// ----------------------------------------------------------------------------- NDJSON recorder

type recorder struct {
	f *os.File
	w *bufio.Writer
	n int
}

func newRecorder(t *testing.T) *recorder {
	p := os.Getenv("VERIF_OUT")
	if p == "" {
		t.Fatal("VERIF_OUT not set")
	}
	f, err := os.Create(p)
	if err != nil {
		t.Fatal(err)
	}
	return &recorder{f: f, w: bufio.NewWriterSize(f, 1<<20)}
}

func (r *recorder) log(row map[string]any) {
	b, err := json.Marshal(row)
	if err != nil {
		panic(err)
	}
	r.w.Write(b)
	r.w.WriteByte('\n')
	r.n++
}

func (r *recorder) close() {
	r.w.Flush()
	r.f.Close()
}

func envInt(k string, def int) int {
	if v := os.Getenv(k); v != "" {
		n, err := strconv.Atoi(v)
		if err == nil {
			return n
		}
	}
	return def
}

func ints(b []byte) []int {
	out := make([]int, len(b))
	for i, x := range b {
		out[i] = int(x)
	}
	return out
}

func u64b(v uint64) []byte {
	var b [8]byte
	binary.BigEndian.PutUint64(b[:], v)
	return b[:]
}

func rbytes(rng *rand.Rand, n int) []byte {
	b := make([]byte, n)
	rng.Read(b)
	return b
}

func mustCid(b []byte) cid.Cid {
	if len(b) == 0 {
		return cid.Undef
	}
	c, err := cid.Cast(b)
	if err != nil {
		panic(fmt.Sprintf("driver: bad cid bytes %x: %v", b, err))
	}
	return c
}

func identityCid(data []byte) cid.Cid {
	mh, err := multihash.Sum(data, multihash.IDENTITY, -1)
	if err != nil {
		panic(err)
	}
	return cid.NewCidV1(cid.Raw, mh)
}

// ----------------------------------------------------------------------------- abstract tuples (fields are byte strings)

type pTuple struct { // payload with an explicit value key
	nn, inst, round []byte
	phase           int
	comm, pt, key   []byte
}

type tTuple struct{ epoch, comm, key, pt []byte }
type vTuple struct{ nn, beacon, inst, round []byte }

type ts4 [4]int // tipset of a PC row: epoch, key, pt, commitments (indices, mapped injectively below)

type pcTuple struct {
	nn, inst, round []byte
	phase           int
	comm, pt        []byte
	chain           []ts4
}

func concTipSet(x ts4) *gpbft.TipSet {
	var key []byte
	if x[1] < 1000 {
		key = []byte(fmt.Sprintf("key-%d", x[1]))
	} else {
		key = make([]byte, gpbft.TipsetKeyMaxLen)
		for i := range key {
			key[i] = byte(x[1] + i*7)
		}
		binary.BigEndian.PutUint64(key[:8], uint64(x[1]))
	}
	var comm [32]byte
	binary.BigEndian.PutUint64(comm[24:], uint64(x[3]))
	return &gpbft.TipSet{Epoch: int64(x[0]), Key: key, PowerTable: gpbft.MakeCid([]byte(fmt.Sprintf("pt-%d", x[2]))), Commitments: comm}
}

func concChain(c []ts4) *gpbft.ECChain {
	if len(c) == 0 {
		return nil
	}
	out := &gpbft.ECChain{TipSets: make([]*gpbft.TipSet, len(c))}
	for i, x := range c {
		out.TipSets[i] = concTipSet(x)
	}
	return out
}

func (p pTuple) payload() (*gpbft.Payload, gpbft.NetworkName, gpbft.ECChainKey) {
	pl := &gpbft.Payload{Instance: binary.BigEndian.Uint64(p.inst), Round: binary.BigEndian.Uint64(p.round), Phase: gpbft.Phase(p.phase)}
	copy(pl.SupplementalData.Commitments[:], p.comm)
	pl.SupplementalData.PowerTable = mustCid(p.pt)
	var k gpbft.ECChainKey
	copy(k[:], p.key)
	return pl, gpbft.NetworkName(string(p.nn)), k
}

func (p pcTuple) payload() (*gpbft.Payload, gpbft.NetworkName) {
	pl := &gpbft.Payload{Instance: binary.BigEndian.Uint64(p.inst), Round: binary.BigEndian.Uint64(p.round), Phase: gpbft.Phase(p.phase)}
	copy(pl.SupplementalData.Commitments[:], p.comm)
	pl.SupplementalData.PowerTable = mustCid(p.pt)
	pl.Value = concChain(p.chain)
	return pl, gpbft.NetworkName(string(p.nn))
}

func (x tTuple) tipset() *gpbft.TipSet {
	t := &gpbft.TipSet{Epoch: int64(binary.BigEndian.Uint64(x.epoch)), Key: append([]byte{}, x.key...), PowerTable: mustCid(x.pt)}
	copy(t.Commitments[:], x.comm)
	return t
}

// recording verifier: the verify side of the VRF input
type recVerifier struct{ msg []byte }

func (v *recVerifier) Verify(_ gpbft.PubKey, msg, _ []byte) error {
	v.msg = append([]byte{}, msg...)
	return nil
}
func (v *recVerifier) Aggregate([]gpbft.PubKey) (gpbft.Aggregate, error) { return nil, nil }

var pubKey = gpbft.PubKey("verif-public-key")

func powerTable() *gpbft.PowerTable {
	pt := gpbft.NewPowerTable()
	if err := pt.Add(gpbft.PowerEntry{ID: 1, Power: gpbft.NewStoragePower(10), PubKey: pubKey}); err != nil {
		panic(err)
	}
	return pt
}

// ----------------------------------------------------------------------------- the calls that are recorded

func (r *recorder) rowP(fam int, star bool, p pTuple) {
	pl, nn, k := p.payload()
	b1 := pl.MarshalForSigningWithValueKey(nn, k)
	pl2, nn2, k2 := p.payload()
	b2 := pl2.MarshalForSigningWithValueKey(nn2, k2)
	r.log(map[string]any{"ev": "P", "fam": fam, "star": star, "nn": ints(p.nn), "inst": ints(p.inst), "round": ints(p.round),
		"phase": p.phase, "comm": ints(p.comm), "pt": ints(p.pt), "key": ints(p.key), "bytes": ints(b1), "bytes2": ints(b2)})
}

func (r *recorder) rowPC(fam int, star bool, p pcTuple) {
	pl, nn := p.payload()
	b1 := pl.MarshalForSigning(nn)
	// second computation: through the message builder, on an independently built payload
	pl2, nn2 := p.payload()
	mb := &gpbft.MessageBuilder{NetworkName: nn2, PowerTable: powerTable(), Payload: *pl2}
	sb, err := mb.PrepareSigningInputs(1)
	if err != nil {
		panic(err)
	}
	chain := make([][]int, len(p.chain))
	for i, x := range p.chain {
		chain[i] = []int{x[0], x[1], x[2], x[3]}
	}
	r.log(map[string]any{"ev": "PC", "fam": fam, "star": star, "nn": ints(p.nn), "inst": ints(p.inst), "round": ints(p.round),
		"phase": p.phase, "comm": ints(p.comm), "pt": ints(p.pt), "chain": chain, "bytes": ints(b1), "bytes2": ints(sb.PayloadToSign)})
}

func (r *recorder) rowT(fam int, star bool, x tTuple) {
	b1 := x.tipset().MarshalForSigning()
	b2 := x.tipset().MarshalForSigning()
	r.log(map[string]any{"ev": "T", "fam": fam, "star": star, "epoch": ints(x.epoch), "comm": ints(x.comm), "key": ints(x.key),
		"pt": ints(x.pt), "bytes": ints(b1), "bytes2": ints(b2)})
}

func (r *recorder) rowV(fam int, star bool, v vTuple) {
	inst, round := binary.BigEndian.Uint64(v.inst), binary.BigEndian.Uint64(v.round)
	nn := gpbft.NetworkName(string(v.nn))
	beacon := append([]byte{}, v.beacon...) // non-nil even when empty
	mb := &gpbft.MessageBuilder{NetworkName: nn, PowerTable: powerTable(), BeaconForTicket: beacon,
		Payload: gpbft.Payload{Instance: inst, Round: round, Phase: gpbft.CONVERGE_PHASE}}
	sb, err := mb.PrepareSigningInputs(1)
	if err != nil {
		panic(err)
	}
	rv := &recVerifier{}
	gpbft.VerifyTicket(nn, append([]byte{}, v.beacon...), inst, round, pubKey, rv, []byte("ticket"))
	r.log(map[string]any{"ev": "V", "fam": fam, "star": star, "nn": ints(v.nn), "beacon": ints(v.beacon), "inst": ints(v.inst),
		"round": ints(v.round), "bytes": ints(sb.VRFToSign), "bytes2": ints(rv.msg)})
}

// ----------------------------------------------------------------------------- alphabets

type alph struct {
	names, u64s, comms, pts, keys, beacons, tskeys, epochs [][]byte
	phases                                               []int
}

func mkAlph(rng *rand.Rand) alph {
	ff := func(n int, b byte) []byte {
		x := make([]byte, n)
		for i := range x {
			x[i] = b
		}
		return x
	}
	e := func(n, i int, b byte) []byte { x := make([]byte, n); x[i] = b; return x }
	var a alph
	a.names = [][]byte{[]byte("f3"), []byte("f3:"), []byte("f"), {}, []byte("f3:x"), []byte("filecoin/testnetnet-with-a-longer-name"), []byte(fmt.Sprintf("net%d", rng.Intn(1000)))}
	a.u64s = [][]byte{u64b(0), u64b(1), u64b(2), u64b(255), u64b(256), u64b(1 << 32), u64b(1 << 56), u64b(1 << 63), u64b(^uint64(0)), u64b(58), u64b(rng.Uint64())}
	a.phases = []int{0, 1, 2, 3, 4, 5, 6, 58, 255}
	a.comms = [][]byte{ff(32, 0), e(32, 31, 1), e(32, 0, 1), ff(32, 0xff), rbytes(rng, 32)}
	a.pts = [][]byte{gpbft.MakeCid([]byte("pt0")).Bytes(), gpbft.MakeCid([]byte("pt1")).Bytes(), {}, identityCid(nil).Bytes(), identityCid([]byte("x")).Bytes(), gpbft.MakeCid(rbytes(rng, 8)).Bytes()}
	a.keys = [][]byte{ff(32, 0), e(32, 31, 1), e(32, 0, 58), ff(32, 0xff), rbytes(rng, 32)}
	a.beacons = [][]byte{{}, []byte(":"), []byte("b"), []byte("b:c"), rbytes(rng, 32), rbytes(rng, 96)}
	a.tskeys = [][]byte{[]byte("k"), {}, []byte("kk"), gpbft.MakeCid([]byte("blk")).Bytes(), ff(gpbft.TipsetKeyMaxLen, 7), rbytes(rng, 1+rng.Intn(gpbft.TipsetKeyMaxLen))}
	a.epochs = [][]byte{u64b(0), u64b(1), u64b(^uint64(0)), u64b(1<<63 - 1), u64b(1 << 63), u64b(256), u64b(uint64(rng.Int63()))}
	return a
}

func pick(rng *rand.Rand, s [][]byte) []byte { return s[rng.Intn(len(s))] }
func same(a, b []byte) bool                 { return string(a) == string(b) }

// TestSigned: families of tuples for the four signing encoders.
func TestSigned(t *testing.T) {
	seed := int64(envInt("VERIF_SEED", 1))
	rng := rand.New(rand.NewSource(seed))
	nbases := envInt("VERIF_BASES", 4)
	allpos := envInt("VERIF_ALLPOS", 0) == 1
	r := newRecorder(t)
	defer r.close()
	a := mkAlph(rng)

	// ---- P: full product over a small alphabet (every pair is compared by TLC)
	fam := r.n + 1
	for _, nn := range a.names[:2] {
		for _, in := range a.u64s[:2] {
			for _, ro := range a.u64s[:2] {
				for _, ph := range a.phases[:3] {
					for _, co := range a.comms[:2] {
						for _, pt := range a.pts[:2] {
							for _, k := range a.keys[:2] {
								r.rowP(fam, false, pTuple{nn, in, ro, ph, co, pt, k})
							}
						}
					}
				}
			}
		}
	}
	r.rowP(fam, false, pTuple{a.names[0], a.u64s[0], a.u64s[0], a.phases[0], a.comms[0], a.pts[0], a.keys[0]}) // identical pair
	// ---- P: stars around random boundary tuples
	for b := 0; b < nbases; b++ {
		base := pTuple{pick(rng, a.names), pick(rng, a.u64s), pick(rng, a.u64s), a.phases[rng.Intn(len(a.phases))], pick(rng, a.comms), pick(rng, a.pts), pick(rng, a.keys)}
		fam = r.n + 1
		r.rowP(fam, true, base)
		for _, v := range a.names {
			if !same(v, base.nn) {
				q := base
				q.nn = v
				r.rowP(fam, true, q)
			}
		}
		for _, v := range a.u64s {
			if !same(v, base.inst) {
				q := base
				q.inst = v
				r.rowP(fam, true, q)
			}
			if !same(v, base.round) {
				q := base
				q.round = v
				r.rowP(fam, true, q)
			}
		}
		// the round written where the instance is and vice versa (two fields change: no clause, layout only)
		q := base
		q.inst, q.round = base.round, base.inst
		r.rowP(fam, true, q)
		for _, v := range a.phases {
			if v != base.phase {
				q := base
				q.phase = v
				r.rowP(fam, true, q)
			}
		}
		for _, v := range a.comms {
			if !same(v, base.comm) {
				q := base
				q.comm = v
				r.rowP(fam, true, q)
			}
		}
		for _, v := range a.pts {
			if !same(v, base.pt) {
				q := base
				q.pt = v
				r.rowP(fam, true, q)
			}
		}
		for _, v := range a.keys {
			if !same(v, base.key) {
				q := base
				q.key = v
				r.rowP(fam, true, q)
			}
		}
		r.rowP(fam, true, base)
	}

	// ---- T: product + stars
	fam = r.n + 1
	for _, ep := range a.epochs[:3] {
		for _, co := range a.comms[:2] {
			for _, k := range a.tskeys[:3] {
				for _, pt := range a.pts[:2] {
					r.rowT(fam, false, tTuple{ep, co, k, pt})
				}
			}
		}
	}
	r.rowT(fam, false, tTuple{a.epochs[0], a.comms[0], a.tskeys[0], a.pts[0]})
	for b := 0; b < nbases; b++ {
		base := tTuple{pick(rng, a.epochs), pick(rng, a.comms), pick(rng, a.tskeys), pick(rng, a.pts)}
		fam = r.n + 1
		r.rowT(fam, true, base)
		for _, v := range a.epochs {
			if !same(v, base.epoch) {
				q := base
				q.epoch = v
				r.rowT(fam, true, q)
			}
		}
		for _, v := range a.comms {
			if !same(v, base.comm) {
				q := base
				q.comm = v
				r.rowT(fam, true, q)
			}
		}
		for _, v := range a.tskeys {
			if !same(v, base.key) {
				q := base
				q.key = v
				r.rowT(fam, true, q)
			}
		}
		for _, v := range a.pts {
			if !same(v, base.pt) {
				q := base
				q.pt = v
				r.rowT(fam, true, q)
			}
		}
		r.rowT(fam, true, base)
	}

	// ---- V: product + stars
	fam = r.n + 1
	for _, nn := range [][]byte{[]byte("a"), []byte("a:b"), []byte("a:")} {
		for _, be := range [][]byte{{}, []byte("c"), []byte("b:c"), []byte(":")} {
			for _, in := range a.u64s[:3] {
				for _, ro := range a.u64s[:3] {
					r.rowV(fam, false, vTuple{nn, be, in, ro})
				}
			}
		}
	}
	r.rowV(fam, false, vTuple{[]byte("a"), []byte{}, a.u64s[0], a.u64s[0]})
	for b := 0; b < nbases; b++ {
		base := vTuple{pick(rng, a.names), pick(rng, a.beacons), pick(rng, a.u64s), pick(rng, a.u64s)}
		fam = r.n + 1
		r.rowV(fam, true, base)
		for _, v := range a.names {
			if !same(v, base.nn) {
				q := base
				q.nn = v
				r.rowV(fam, true, q)
			}
		}
		for _, v := range a.beacons {
			if !same(v, base.beacon) {
				q := base
				q.beacon = v
				r.rowV(fam, true, q)
			}
		}
		for _, v := range a.u64s {
			if !same(v, base.inst) {
				q := base
				q.inst = v
				r.rowV(fam, true, q)
			}
			if !same(v, base.round) {
				q := base
				q.round = v
				r.rowV(fam, true, q)
			}
		}
		q := base
		q.inst, q.round = base.round, base.inst
		r.rowV(fam, true, q)
		r.rowV(fam, true, base)
	}

	// ---- PC: product over small alphabet with short chains
	ta, tb := ts4{5, 1, 1, 1}, ts4{6, 2, 1, 1}
	fam = r.n + 1
	for _, nn := range a.names[:2] {
		for _, in := range a.u64s[:2] {
			for _, ph := range a.phases[:2] {
				for _, co := range a.comms[:2] {
					for _, pt := range a.pts[:2] {
						for _, ch := range [][]ts4{nil, {ta}, {ta, tb}, {tb, ta}, {ta, tb, ta}} {
							r.rowPC(fam, false, pcTuple{nn, in, a.u64s[1], ph, co, pt, ch})
						}
					}
				}
			}
		}
	}
	r.rowPC(fam, false, pcTuple{a.names[0], a.u64s[0], a.u64s[1], a.phases[0], a.comms[0], a.pts[0], nil})
	// ---- PC: stars over chain perturbations for many chain lengths
	lens := []int{1, 2, 3, 4, 5, 7, 8, 9, 16, 17, 33, 64, 100, 127, 128}
	if envInt("VERIF_ALLLENS", 0) == 1 {
		lens = lens[:0]
		for i := 1; i <= gpbft.ChainMaxLen; i++ {
			lens = append(lens, i)
		}
	}
	for _, L := range lens {
		base := pcTuple{pick(rng, a.names), pick(rng, a.u64s), pick(rng, a.u64s), a.phases[rng.Intn(7)], pick(rng, a.comms), pick(rng, a.pts), nil}
		big := rng.Intn(4) == 0
		for i := 0; i < L; i++ {
			k := i
			if big && i%5 == 0 {
				k = 1000 + i // 760-byte tipset key
			}
			base.chain = append(base.chain, ts4{10 + 2*i, k, i % 3, i % 5})
		}
		fam = r.n + 1
		r.rowPC(fam, true, base)
		pos := map[int]bool{0: true, L - 1: true, L / 2: true}
		for p := 1; p < L; p *= 2 {
			pos[p] = true
			pos[p-1] = true
		}
		for j := 0; j < 3; j++ {
			pos[rng.Intn(L)] = true
		}
		if allpos || L <= 9 {
			for i := 0; i < L; i++ {
				pos[i] = true
			}
		}
		mod := func(f func(c []ts4) []ts4) {
			q := base
			q.chain = f(append([]ts4{}, base.chain...))
			r.rowPC(fam, true, q)
		}
		for i := 0; i < L; i++ {
			if !pos[i] {
				continue
			}
			for c := 0; c < 4; c++ {
				mod(func(ch []ts4) []ts4 { ch[i][c] += 500; return ch })
			}
			if i+1 < L {
				mod(func(ch []ts4) []ts4 { ch[i], ch[i+1] = ch[i+1], ch[i]; return ch })
			}
		}
		if L > 1 {
			mod(func(ch []ts4) []ts4 { return ch[:L-1] })
			mod(func(ch []ts4) []ts4 { return ch[:1] })
			mod(func(ch []ts4) []ts4 { // reverse
				for i, j := 0, L-1; i < j; i, j = i+1, j-1 {
					ch[i], ch[j] = ch[j], ch[i]
				}
				return ch
			})
			mod(func(ch []ts4) []ts4 { return append(ch[1:], ch[0]) }) // rotate
		}
		if L < gpbft.ChainMaxLen {
			mod(func(ch []ts4) []ts4 { return append(ch, ts4{10 + 2*L, L, 0, 0}) })
		}
		mod(func(ch []ts4) []ts4 { return nil }) // bottom
		for _, v := range a.names[:3] {
			if !same(v, base.nn) {
				q := base
				q.nn = v
				r.rowPC(fam, true, q)
			}
		}
		for _, v := range a.u64s[:3] {
			if !same(v, base.inst) {
				q := base
				q.inst = v
				r.rowPC(fam, true, q)
			}
			if !same(v, base.round) {
				q := base
				q.round = v
				r.rowPC(fam, true, q)
			}
		}
		q := base
		q.phase = (base.phase + 1) % 7
		r.rowPC(fam, true, q)
		q = base
		q.comm = a.comms[(rng.Intn(len(a.comms)-1)+1+idx(a.comms, base.comm))%len(a.comms)]
		r.rowPC(fam, true, q)
		q = base
		q.pt = a.pts[(rng.Intn(len(a.pts)-1)+1+idx(a.pts, base.pt))%len(a.pts)]
		r.rowPC(fam, true, q)
		r.rowPC(fam, true, base)
	}
	n := r.n
	r.log(map[string]any{"ev": "End", "rows": n})
}

func idx(s [][]byte, v []byte) int {
	for i := range s {
		if same(s[i], v) {
			return i
		}
	}
	return 0
}

// ----------------------------------------------------------------------------- chain keys

// shape terms emitted by TLC (spec/msg/MCMerkle): ["L",i] | ["N",a,b] | ["Z"]
type shape struct {
	K     int             `json:"k"`
	Shape json.RawMessage `json:"shape"`
	Count []int           `json:"count"`
}

var (
	internalMarker = []byte{0}
	leafMarker     = []byte{1}
)

// evalShape interprets a symbolic digest term with the real keccak: the interpretation of the spec's
// injective hash (leaf: keccak(0x01||value), internal: keccak(0x00||l||r), Z: zero digest).
func evalShape(raw json.RawMessage, values [][]byte, cnt *[3]int) merkle.Digest {
	var parts []json.RawMessage
	if err := json.Unmarshal(raw, &parts); err != nil || len(parts) == 0 {
		panic(fmt.Sprintf("bad shape %s", raw))
	}
	var tag string
	_ = json.Unmarshal(parts[0], &tag)
	h := keccak.NewLegacyKeccak256()
	var out merkle.Digest
	switch tag {
	case "Z":
		cnt[2]++
		return merkle.Digest{}
	case "L":
		var i int
		_ = json.Unmarshal(parts[1], &i)
		cnt[0]++
		h.Write(leafMarker)
		h.Write(values[i])
	case "N":
		l := evalShape(parts[1], values, cnt)
		r := evalShape(parts[2], values, cnt)
		cnt[1]++
		h.Write(internalMarker)
		h.Write(l[:])
		h.Write(r[:])
	default:
		panic("bad shape tag " + tag)
	}
	copy(out[:], h.Sum(nil))
	return out
}

func hx(d [32]byte) string { return hex.EncodeToString(d[:]) }

func randTipSets(rng *rand.Rand, n int) []*gpbft.TipSet {
	out := make([]*gpbft.TipSet, n)
	ep := int64(rng.Intn(1000))
	for i := range out {
		ep += 1 + int64(rng.Intn(3))
		kl := 1 + rng.Intn(80)
		if rng.Intn(10) == 0 {
			kl = gpbft.TipsetKeyMaxLen
		}
		t := &gpbft.TipSet{Epoch: ep, Key: rbytes(rng, kl), PowerTable: gpbft.MakeCid(rbytes(rng, 4))}
		if rng.Intn(2) == 0 {
			copy(t.Commitments[:], rbytes(rng, 32))
		}
		out[i] = t
	}
	return out
}

func cloneTipSets(ts []*gpbft.TipSet) []*gpbft.TipSet {
	out := make([]*gpbft.TipSet, len(ts))
	for i, t := range ts {
		c := *t
		c.Key = append([]byte{}, t.Key...)
		out[i] = &c
	}
	return out
}

// TestKeys: for each n, a random chain of n tipsets; for each prefix length k the key is obtained in
// every way the code offers, plus from the spec's tree shape interpreted with the real keccak.
func TestKeys(t *testing.T) {
	seed := int64(envInt("VERIF_SEED", 1))
	rng := rand.New(rand.NewSource(seed))
	r := newRecorder(t)
	defer r.close()
	shapes := map[int]shape{}
	f, err := os.Open(os.Getenv("VERIF_SHAPES"))
	if err != nil {
		t.Fatal(err)
	}
	sc := bufio.NewScanner(f)
	sc.Buffer(make([]byte, 1<<20), 1<<24)
	for sc.Scan() {
		var s shape
		if err := json.Unmarshal(sc.Bytes(), &s); err != nil {
			t.Fatal(err)
		}
		shapes[s.K] = s
	}
	f.Close()
	var ns []int
	for _, s := range strings.Split(os.Getenv("VERIF_NS"), ",") {
		if n, err := strconv.Atoi(strings.TrimSpace(s)); err == nil {
			ns = append(ns, n)
		}
	}
	zero := (&gpbft.ECChain{}).Key()
	var nilChain *gpbft.ECChain
	r.log(map[string]any{"ev": "Zero", "empty": hx(zero), "nil": hx(nilChain.Key()), "batch_len": len((&gpbft.ECChain{}).KeysForPrefixes()),
		"all_len": len((&gpbft.ECChain{}).AllPrefixes()), "tree0": hx(merkle.Tree(nil)), "batch0_len": len(merkle.BatchTree(nil))})
	for _, n := range ns {
		tipsets := randTipSets(rng, n)
		values := make([][]byte, n)
		for i, ts := range tipsets {
			values[i] = ts.MarshalForSigning()
		}
		cold := &gpbft.ECChain{TipSets: cloneTipSets(tipsets)} // Key() never called on this object
		chain := &gpbft.ECChain{TipSets: tipsets}
		full := chain.Key() // populate the cache of the full chain first
		batchKeys := chain.KeysForPrefixes()
		allp := chain.AllPrefixes()
		bt := merkle.BatchTree(values)
		_ = full
		for k := 1; k <= n; k++ {
			direct := (&gpbft.ECChain{TipSets: cloneTipSets(tipsets[:k])}).Key()
			tree := merkle.Tree(values[:k])
			pc := cold.Prefix(k - 1)
			pw := chain.Prefix(k - 1)
			poc := allp[n-1].Prefix(k - 1)
			var cnt [3]int
			sk := evalShape(shapes[k].Shape, values, &cnt)
			row := map[string]any{"ev": "Key", "n": n, "k": k, "direct": hx(direct), "tree": hx(tree),
				"prefix_cold": hx(pc.Key()), "prefix_warm": hx(pw.Key()), "prefix_of_cached": hx(poc.Key()),
				"shape": hx(sk), "count": []int{cnt[0], cnt[1], cnt[2]}, "shape_k": shapes[k].K,
				"prefix_len": pw.Len(), "batch_n": len(batchKeys), "all_n": len(allp), "batchtree_n": len(bt)}
			get := func(s []gpbft.ECChainKey) string {
				if k-1 < len(s) {
					return hx(s[k-1])
				}
				return "missing"
			}
			row["batch"] = get(batchKeys)
			if k-1 < len(bt) {
				row["batchtree"] = hx(bt[k-1])
			} else {
				row["batchtree"] = "missing"
			}
			if k-1 < len(allp) && allp[k-1] != nil {
				row["cached"] = hx(allp[k-1].Key())
				row["cached_len"] = allp[k-1].Len()
			} else {
				row["cached"] = "missing"
				row["cached_len"] = -1
			}
			r.log(row)
		}
		// prefix objects are values of their own: using one of them (Append builds a longer chain from it) must leave every other prefix
		// object, the chain they were cut from, and their cached keys describing the same content as before
		if n >= 2 {
			orig := make([]string, n)
			for k := 1; k <= n; k++ {
				orig[k-1] = hx((&gpbft.ECChain{TipSets: cloneTipSets(tipsets[:k])}).Key())
			}
			fresh := randTipSets(rng, 2)
			for _, j := range []int{1, (n + 1) / 2} {
				if j < n {
					_ = allp[j-1].Append(fresh[0], fresh[1])
					_ = chain.Prefix(j - 1).Append(fresh[1])
					_ = allp[n-1].Prefix(j - 1).Append(fresh[0])
				}
			}
			for k := 1; k <= n; k++ {
				r.log(map[string]any{"ev": "KeyAfter", "n": n, "k": k, "orig": orig[k-1],
					"cached": hx(allp[k-1].Key()), "cached_content": hx((&gpbft.ECChain{TipSets: cloneTipSets(allp[k-1].TipSets)}).Key()),
					"chain_prefix": hx((&gpbft.ECChain{TipSets: cloneTipSets(chain.TipSets[:k])}).Key()), "cached_len": allp[k-1].Len()})
			}
			// decoding into an object that already holds another chain (and has memoised its key) must yield a value that describes the
			// decoded content: same tipsets, and the key of those tipsets
			src := &gpbft.ECChain{TipSets: cloneTipSets(tipsets[:(n+1)/2])}
			var enc bytes.Buffer
			if err := src.MarshalCBOR(&enc); err == nil {
				want := hx((&gpbft.ECChain{TipSets: cloneTipSets(src.TipSets)}).Key())
				tgt := &gpbft.ECChain{TipSets: cloneTipSets(tipsets)}
				_ = tgt.Key()
				err1 := tgt.UnmarshalCBOR(bytes.NewReader(enc.Bytes()))
				tgt2 := allp[n-1]
				_ = tgt2.Key()
				err2 := tgt2.UnmarshalCBOR(bytes.NewReader(enc.Bytes()))
				r.log(map[string]any{"ev": "KeyDecoded", "n": n, "k": (n + 1) / 2, "want": want, "ok": err1 == nil && err2 == nil,
					"reused": hx(tgt.Key()), "reused_content": hx((&gpbft.ECChain{TipSets: cloneTipSets(tgt.TipSets)}).Key()),
					"reused_prefix": hx(tgt2.Key()), "reused_prefix_content": hx((&gpbft.ECChain{TipSets: cloneTipSets(tgt2.TipSets)}).Key())})
			}
		}
	}
	n := r.n
	r.log(map[string]any{"ev": "End", "rows": n})
}

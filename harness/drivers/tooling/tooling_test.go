//go:build verif

// Driver for property C19 (test tooling is faithful).
//
//	TestSimOracle  runs a real sim.Simulation per case emitted by TLC (spec/tooling/MCSimOracle.tla): a custom
//	               adversary.Generator whose adversary hands a forged decision to Host.ReceiveDecision at instance 0 or 1,
//	               or - holding a strong quorum alone - makes two honest participants decide different values; the row
//	               records whether sim.Run returned an error.
//	TestCertChain  evaluates certchain.CertChain.GetCommittee and the PRODUCTION gpbftInputs.GetCommittee over the same
//	               ec.Backend (linear chain, null epochs, power table changing at every tipset) and the same certificates.
//
// One NDJSON line per run / call; the verdict is TLC's (spec/tooling/ToolingTrace.tla); this file contains no oracle.
package zztooling

import (
	"bufio"
	"context"
	"encoding/json"
	"fmt"
	"os"
	"sort"
	"strconv"
	"strings"
	"testing"
	"time"

	"github.com/filecoin-project/go-bitfield"
	f3 "github.com/filecoin-project/go-f3"
	"github.com/filecoin-project/go-f3/certchain"
	"github.com/filecoin-project/go-f3/certs"
	"github.com/filecoin-project/go-f3/certstore"
	"github.com/filecoin-project/go-f3/ec"
	"github.com/filecoin-project/go-f3/gpbft"
	"github.com/filecoin-project/go-f3/internal/clock"
	"github.com/filecoin-project/go-f3/manifest"
	"github.com/filecoin-project/go-f3/sim"
	"github.com/filecoin-project/go-f3/sim/adversary"
	"github.com/filecoin-project/go-f3/sim/signing"
	"github.com/ipfs/go-cid"
	"github.com/ipfs/go-datastore"
	ds_sync "github.com/ipfs/go-datastore/sync"
)

type ev map[string]any

type rec struct {
	w *bufio.Writer
	n int
}

func (r *rec) emit(e ev) {
	b, err := json.Marshal(e)
	if err != nil {
		panic(err)
	}
	r.w.Write(b)
	r.w.WriteByte('\n')
	r.n++
}

func openRec(t *testing.T) (*rec, func()) {
	out := os.Getenv("VERIF_OUT")
	if out == "" {
		t.Skip("VERIF_OUT not set")
	}
	fh, err := os.Create(out)
	if err != nil {
		t.Fatal(err)
	}
	r := &rec{w: bufio.NewWriterSize(fh, 1<<20)}
	return r, func() { r.w.Flush(); fh.Close() }
}

func errStr(err error) string {
	if err == nil {
		return ""
	}
	s := err.Error()
	if len(s) > 200 {
		s = s[:200]
	}
	return s
}

// ================================================================ simulator oracle

type simCase struct {
	Kind    string  `json:"kind"`
	Tab     []int64 `json:"tab"` // raw power of participants 0..n-1 (honest) and of the adversary (last)
	At      uint64  `json:"at"`
	Label   string  `json:"label"`
	Phase   string  `json:"phase"`
	Round   uint64  `json:"round"`
	Val     string  `json:"val"`
	Sig     bool    `json:"sig"`
	Signers []int   `json:"signers"` // participant ids
	Differ  bool    `json:"differ"`
	Replay  bool    `json:"replay"` // the forged decision re-uses signers and aggregate bytes of an honest decision of the same instance (reported after it)
}

var ptCid = gpbft.MakeCid([]byte("verif-c19-pt"))

// honest participants all propose base + one tipset
type extendGen struct{}

func (extendGen) GenerateECChain(instance uint64, base *gpbft.TipSet, _ gpbft.ActorID) *gpbft.ECChain {
	ch, err := gpbft.NewChain(base, &gpbft.TipSet{Epoch: base.Epoch + 1, Key: []byte(fmt.Sprintf("h%d", instance)), PowerTable: ptCid})
	if err != nil {
		panic(err)
	}
	return ch
}

func phaseOf(s string) gpbft.Phase {
	switch s {
	case "DECIDE":
		return gpbft.DECIDE_PHASE
	case "COMMIT":
		return gpbft.COMMIT_PHASE
	case "PREPARE":
		return gpbft.PREPARE_PHASE
	case "QUALITY":
		return gpbft.QUALITY_PHASE
	case "CONVERGE":
		return gpbft.CONVERGE_PHASE
	}
	panic("unknown phase " + s)
}

// forger: silent in the protocol; reports one forged decision through its own Host.ReceiveDecision
type forger struct {
	adversary.Absent
	c        *simCase
	sm       **sim.Simulation
	host     adversary.Host
	id       gpbft.ActorID
	injected bool
	powers   []int64
	sidx     []int
	injErr   error
}

func (f *forger) StartInstanceAt(instance uint64, _ time.Time) error {
	if f.c.Replay {
		if instance == f.c.At+1 {
			f.inject(f.c.At) // the honest participants have reported their decisions of instance At by now
		}
		return nil
	}
	if f.c.At == instance {
		f.inject(instance)
	}
	return nil
}

func (f *forger) ValidateMessage(_ context.Context, msg *gpbft.GMessage) (gpbft.ValidatedMessage, error) {
	if f.c.Replay {
		if !f.injected && msg.Vote.Instance > f.c.At {
			f.inject(f.c.At) // somebody works on the next instance already: decisions of instance At have been reported
		}
	} else if !f.injected && msg.Vote.Instance >= f.c.At {
		f.inject(f.c.At)
	}
	return adversary.Validated(msg), nil
}

func (f *forger) inject(tgt uint64) {
	if f.injected {
		return
	}
	f.injected = true
	ctx := context.Background()
	inst := (*f.sm).GetInstance(tgt)
	comt, err := f.host.GetCommittee(ctx, tgt)
	if inst == nil || err != nil {
		f.injErr = fmt.Errorf("instance %d not available: %v", tgt, err)
		return
	}
	head := inst.BaseChain.Head()
	next := &gpbft.TipSet{Epoch: head.Epoch + 1, Key: []byte("forged"), PowerTable: ptCid}
	var value *gpbft.ECChain
	switch f.c.Val {
	case "good":
		value, err = gpbft.NewChain(head, next)
	case "empty":
		value = &gpbft.ECChain{}
	case "wrongbase":
		value, err = gpbft.NewChain(&gpbft.TipSet{Epoch: head.Epoch, Key: []byte("otherbase"), PowerTable: ptCid}, next)
	}
	if err != nil {
		f.injErr = err
		return
	}
	voteInst := tgt
	switch f.c.Label {
	case "future":
		voteInst = tgt + 5
	case "other":
		voteInst = tgt - 1
	}
	pl := gpbft.Payload{Instance: voteInst, Round: f.c.Round, Phase: phaseOf(f.c.Phase), SupplementalData: *inst.SupplementalData, Value: value}
	if f.c.Replay {
		honest := inst.VerifDecisionOf(0)
		if honest == nil {
			f.injErr = fmt.Errorf("participant 0 has not reported a decision for instance %d", tgt)
			return
		}
		f.c.Signers = nil
		_ = honest.Signers.ForEach(func(i uint64) error {
			f.sidx = append(f.sidx, int(i))
			f.c.Signers = append(f.c.Signers, int(comt.PowerTable.Entries[i].ID))
			return nil
		})
		for _, e := range comt.PowerTable.Entries {
			f.powers = append(f.powers, e.Power.Int64())
		}
		_, f.injErr = f.host.ReceiveDecision(ctx, &gpbft.Justification{Vote: pl, Signers: honest.Signers, Signature: honest.Signature})
		return
	}
	msg := pl.MarshalForSigning(f.host.NetworkName())
	for _, id := range f.c.Signers {
		idx, ok := comt.PowerTable.Lookup[gpbft.ActorID(id)]
		if !ok {
			f.injErr = fmt.Errorf("participant %d not in the table", id)
			return
		}
		f.sidx = append(f.sidx, idx)
	}
	sort.Ints(f.sidx)
	for _, e := range comt.PowerTable.Entries {
		f.powers = append(f.powers, e.Power.Int64())
	}
	bf := bitfield.New()
	var sigs [][]byte
	for _, idx := range f.sidx {
		s, err := f.host.Sign(ctx, comt.PowerTable.Entries[idx].PubKey, msg)
		if err != nil {
			f.injErr = err
			return
		}
		sigs = append(sigs, s)
		bf.Set(uint64(idx))
	}
	agg, err := comt.AggregateVerifier.Aggregate(f.sidx, sigs)
	if err != nil {
		f.injErr = err
		return
	}
	if !f.c.Sig {
		agg = append([]byte{}, agg...)
		agg[0] ^= 0x55
	}
	_, f.injErr = f.host.ReceiveDecision(ctx, &gpbft.Justification{Vote: pl, Signers: bf, Signature: agg})
}

func baseChain() *gpbft.ECChain {
	ch, err := gpbft.NewChain(&gpbft.TipSet{Epoch: 0, Key: []byte("genesis"), PowerTable: ptCid})
	if err != nil {
		panic(err)
	}
	return ch
}

func powerGen(tab []int64) sim.StoragePowerGenerator {
	return func(_ uint64, id gpbft.ActorID) gpbft.StoragePower { return gpbft.NewStoragePower(tab[id]) }
}

func runForged(t *testing.T, r *rec, c *simCase) {
	n := len(c.Tab) - 1
	var sm *sim.Simulation
	fg := &forger{c: c, sm: &sm}
	gen := func(id gpbft.ActorID, h adversary.Host) *adversary.Adversary {
		fg.id, fg.host = id, h
		return &adversary.Adversary{Receiver: fg, Power: gpbft.NewStoragePower(c.Tab[n]), ID: id}
	}
	var err error
	sm, err = sim.NewSimulation(sim.WithBaseChain(baseChain()), sim.AddHonestParticipants(n, extendGen{}, powerGen(c.Tab)), sim.WithAdversary(gen))
	if err != nil {
		t.Fatal(err)
	}
	n2 := c.At + 1
	if c.Replay {
		n2 = c.At + 2
	}
	runErr := sm.Run(n2, 10)
	if fg.injErr != nil {
		t.Fatalf("case %+v: could not inject: %v", c, fg.injErr)
	}
	if fg.powers == nil {
		fg.powers, fg.sidx = []int64{}, []int{}
	}
	if fg.sidx == nil {
		fg.sidx = []int{}
	}
	r.emit(ev{"ev": "Forged", "tab": c.Tab, "at": c.At, "label": c.Label, "phase": c.Phase, "round": c.Round, "val": c.Val, "sig": c.Sig,
		"signers": c.Signers, "powers": fg.powers, "sidx": fg.sidx, "injected": fg.injected, "err": runErr != nil, "errs": errStr(runErr)})
}

// equivocator: holds a strong quorum alone; sends DECIDE (justified by its own COMMIT) for value A to participant 0 and for
// value B (or A again) to participant 1 at instance `at`; the same value to everybody in earlier instances.
type equivocator struct {
	adversary.Absent
	c      *simCase
	sm     **sim.Simulation
	host   adversary.Host
	id     gpbft.ActorID
	driven map[uint64]bool
	err    error
}

func (q *equivocator) StartInstanceAt(instance uint64, _ time.Time) error {
	q.drive(instance)
	return nil
}
func (q *equivocator) ValidateMessage(_ context.Context, msg *gpbft.GMessage) (gpbft.ValidatedMessage, error) {
	if msg.Sender != q.id && msg.Vote.Instance <= q.c.At {
		q.drive(msg.Vote.Instance)
	}
	return adversary.Validated(msg), nil
}
func (q *equivocator) AllowMessage(from, to gpbft.ActorID, msg gpbft.GMessage) bool {
	if from != q.id || msg.Vote.Phase != gpbft.DECIDE_PHASE || msg.Vote.Instance != q.c.At || !q.c.Differ || to == q.id {
		return true
	}
	switch k := string(msg.Vote.Value.Head().Key); {
	case strings.HasPrefix(k, "A"):
		return to == 0
	case strings.HasPrefix(k, "B"):
		return to == 1
	}
	return true
}

func (q *equivocator) drive(instance uint64) {
	if q.driven[instance] || q.err != nil {
		return
	}
	q.driven[instance] = true
	ctx := context.Background()
	inst := (*q.sm).GetInstance(instance)
	comt, err := q.host.GetCommittee(ctx, instance)
	if inst == nil || err != nil {
		q.err = fmt.Errorf("instance %d not available: %v", instance, err)
		return
	}
	names := []string{"A"}
	if instance == q.c.At && q.c.Differ {
		names = []string{"A", "B"}
	}
	head := inst.BaseChain.Head()
	idx := comt.PowerTable.Lookup[q.id]
	for _, nm := range names {
		value, err := gpbft.NewChain(head, &gpbft.TipSet{Epoch: head.Epoch + 1, Key: []byte(fmt.Sprintf("%s%d", nm, instance)), PowerTable: ptCid})
		if err != nil {
			q.err = err
			return
		}
		jp := gpbft.Payload{Instance: instance, Round: 0, Phase: gpbft.COMMIT_PHASE, SupplementalData: *inst.SupplementalData, Value: value}
		s, err := q.host.Sign(ctx, comt.PowerTable.Entries[idx].PubKey, jp.MarshalForSigning(q.host.NetworkName()))
		if err != nil {
			q.err = err
			return
		}
		agg, err := comt.AggregateVerifier.Aggregate([]int{idx}, [][]byte{s})
		if err != nil {
			q.err = err
			return
		}
		bf := bitfield.New()
		bf.Set(uint64(idx))
		mb := &gpbft.MessageBuilder{
			NetworkName:   q.host.NetworkName(),
			PowerTable:    comt.PowerTable,
			Payload:       gpbft.Payload{Instance: instance, Round: 0, Phase: gpbft.DECIDE_PHASE, SupplementalData: *inst.SupplementalData, Value: value},
			Justification: &gpbft.Justification{Vote: jp, Signers: bf, Signature: agg},
		}
		if err := q.host.RequestSynchronousBroadcast(mb); err != nil {
			q.err = err
			return
		}
	}
}

func valID(ch *gpbft.ECChain) int {
	if ch.IsZero() {
		return 0
	}
	switch k := string(ch.Head().Key); {
	case strings.HasPrefix(k, "A"):
		return 1
	case strings.HasPrefix(k, "B"):
		return 2
	}
	return 3
}

func runDisagree(t *testing.T, r *rec, c *simCase) {
	n := len(c.Tab) - 1
	var sm *sim.Simulation
	q := &equivocator{c: c, sm: &sm, driven: map[uint64]bool{}}
	gen := func(id gpbft.ActorID, h adversary.Host) *adversary.Adversary {
		q.id, q.host = id, h
		return &adversary.Adversary{Receiver: q, Power: gpbft.NewStoragePower(c.Tab[n]), ID: id}
	}
	var err error
	sm, err = sim.NewSimulation(sim.WithBaseChain(baseChain()), sim.AddHonestParticipants(n, extendGen{}, powerGen(c.Tab)), sim.WithAdversary(gen),
		sim.WithGlobalStabilizationTime(1000*time.Hour))
	if err != nil {
		t.Fatal(err)
	}
	runErr := sm.Run(c.At+1, 10)
	if q.err != nil {
		t.Fatalf("case %+v: equivocator failed: %v", c, q.err)
	}
	vals := []int{}
	inst := sm.GetInstance(c.At)
	for id := 0; id < n; id++ {
		v := 0
		if inst != nil {
			v = valID(inst.GetDecision(gpbft.ActorID(id)))
		}
		vals = append(vals, v)
	}
	r.emit(ev{"ev": "Disagree", "tab": c.Tab, "at": c.At, "differ": c.Differ, "vals": vals, "err": runErr != nil, "errs": errStr(runErr)})
}

func TestSimOracle(t *testing.T) {
	in := os.Getenv("VERIF_CASES")
	if in == "" {
		t.Skip("VERIF_CASES not set")
	}
	r, done := openRec(t)
	defer done()
	cf, err := os.Open(in)
	if err != nil {
		t.Fatal(err)
	}
	defer cf.Close()
	sc := bufio.NewScanner(cf)
	sc.Buffer(make([]byte, 1<<20), 1<<24)
	for sc.Scan() {
		line := strings.TrimSpace(sc.Text())
		if line == "" {
			continue
		}
		var c simCase
		if err := json.Unmarshal([]byte(line), &c); err != nil {
			t.Fatalf("bad case %q: %v", line, err)
		}
		if c.Signers == nil {
			c.Signers = []int{}
		}
		switch c.Kind {
		case "Forged":
			runForged(t, r, &c)
		case "Disagree":
			runDisagree(t, r, &c)
		default:
			t.Fatalf("unknown case kind %q", c.Kind)
		}
	}
	t.Logf("events=%d", r.n)
}

// ================================================================ certchain vs node committee

const (
	ccEpochs   = 1500
	ccFinality = 10
	ccNet      = gpbft.NetworkName("verif-c19")
)

var ccT0 = time.Unix(1_700_000_000, 0)

type lts struct{ epoch int64 }

func (t *lts) Key() gpbft.TipSetKey { return []byte(fmt.Sprintf("E%d", t.epoch)) }
func (t *lts) Beacon() []byte       { return []byte(fmt.Sprintf("B%d", t.epoch)) }
func (t *lts) Epoch() int64         { return t.epoch }
func (t *lts) Timestamp() time.Time { return ccT0.Add(time.Duration(t.epoch) * 30 * time.Second) }
func (t *lts) String() string       { return fmt.Sprintf("E%d", t.epoch) }

// linear EC: one tipset per epoch 0..ccEpochs except null epochs (e > 0, e % nullMod == nullRem);
// the power table changes at every tipset
type linEC struct {
	nullMod, nullRem int64
	keys             []gpbft.PubKey
	byCid            map[string]int64
}

var _ ec.Backend = (*linEC)(nil)

func (l *linEC) null(e int64) bool { return e > 0 && l.nullMod > 1 && e%l.nullMod == l.nullRem }
func (l *linEC) table(e int64) gpbft.PowerEntries {
	return gpbft.PowerEntries{
		{ID: 1, Power: gpbft.NewStoragePower(10000 + e), PubKey: l.keys[0]},
		{ID: 2, Power: gpbft.NewStoragePower(800), PubKey: l.keys[1]},
		{ID: 3, Power: gpbft.NewStoragePower(600), PubKey: l.keys[2]},
		{ID: 4, Power: gpbft.NewStoragePower(400), PubKey: l.keys[3]},
	}
}
func (l *linEC) tableID(pe gpbft.PowerEntries) int64 {
	c, err := certs.MakePowerTableCID(pe)
	if err != nil {
		return -1
	}
	if l.byCid == nil {
		l.byCid = map[string]int64{}
		for e := int64(0); e <= ccEpochs; e++ {
			if !l.null(e) {
				var k cid.Cid
				k, _ = certs.MakePowerTableCID(l.table(e))
				l.byCid[k.KeyString()] = e
			}
		}
	}
	if e, ok := l.byCid[c.KeyString()]; ok {
		return e
	}
	return -1
}
func epochOf(prefix string, b []byte) int64 {
	s := string(b)
	if !strings.HasPrefix(s, prefix) {
		return -1
	}
	n, err := strconv.ParseInt(s[len(prefix):], 10, 64)
	if err != nil {
		return -1
	}
	return n
}
func (l *linEC) GetTipsetByEpoch(_ context.Context, e int64) (ec.TipSet, error) {
	if e < 0 || e > ccEpochs {
		return nil, fmt.Errorf("epoch %d out of range", e)
	}
	for l.null(e) {
		e--
	}
	return &lts{epoch: e}, nil
}
func (l *linEC) GetTipset(_ context.Context, k gpbft.TipSetKey) (ec.TipSet, error) {
	e := epochOf("E", k)
	if e < 0 || e > ccEpochs || l.null(e) {
		return nil, fmt.Errorf("unknown tipset %q", k)
	}
	return &lts{epoch: e}, nil
}
func (l *linEC) GetHead(ctx context.Context) (ec.TipSet, error) { return l.GetTipsetByEpoch(ctx, ccEpochs) }
func (l *linEC) GetParent(ctx context.Context, t ec.TipSet) (ec.TipSet, error) {
	if t.Epoch() == 0 {
		return nil, fmt.Errorf("genesis has no parent")
	}
	return l.GetTipsetByEpoch(ctx, t.Epoch()-1)
}
func (l *linEC) GetPowerTable(_ context.Context, k gpbft.TipSetKey) (gpbft.PowerEntries, error) {
	e := epochOf("E", k)
	if e < 0 || e > ccEpochs || l.null(e) {
		return nil, fmt.Errorf("unknown tipset %q", k)
	}
	return l.table(e), nil
}
func (l *linEC) Finalize(context.Context, gpbft.TipSetKey) error { return nil }

func comRow(l *linEC, com *gpbft.Committee, err error) ev {
	if err != nil {
		return ev{"err": true, "tab": -1, "beacon": -1, "errs": errStr(err)}
	}
	return ev{"err": false, "tab": l.tableID(com.PowerTable.Entries), "beacon": epochOf("B", com.Beacon), "errs": ""}
}

func runCertChain(t *testing.T, r *rec, sb *signing.FakeBackend, keys []gpbft.PubKey, L, init uint64, nullMod, nullRem, bootE, seed int64, ncerts uint64) {
	ctx := context.Background()
	backend := &linEC{nullMod: nullMod, nullRem: nullRem, keys: keys}
	m := manifest.LocalDevnetManifest()
	m.NetworkName = ccNet
	m.InitialInstance = init
	m.CommitteeLookback = L
	m.EC.Finality = ccFinality
	m.BootstrapEpoch = bootE + ccFinality
	cc, err := certchain.New(certchain.WithEC(backend), certchain.WithManifest(m), certchain.WithSignVerifier(sb), certchain.WithSeed(seed))
	if err != nil {
		t.Fatal(err)
	}
	crts, genErr := cc.Generate(ctx, ncerts)
	heads := []int64{}
	dup := 0
	for _, c := range crts {
		heads = append(heads, c.ECChain.Head().Epoch)
		seen := map[string]bool{}
		for _, ts := range c.ECChain.TipSets {
			if seen[string(ts.Key)] {
				dup++
				break
			}
			seen[string(ts.Key)] = true
		}
	}
	// the node: production consensus inputs over the same EC and the same certificates
	bts, err := backend.GetTipsetByEpoch(ctx, bootE)
	if err != nil {
		t.Fatal(err)
	}
	cs, err := certstore.CreateStore(ctx, ds_sync.MutexWrap(datastore.NewMapDatastore()), init, backend.table(bts.Epoch()))
	if err != nil {
		t.Fatal(err)
	}
	putErr := ""
	for _, c := range crts {
		if err := cs.Put(ctx, c); err != nil {
			putErr = errStr(err)
			break
		}
	}
	stored := 0
	if l := cs.Latest(); l != nil {
		stored = int(l.GPBFTInstance-init) + 1
	}
	node := f3.VerifNewInputs(m, cs, backend, sb, clock.NewMock())
	sc := ev{"L": L, "init": init, "bootE": bootE, "nullMod": nullMod, "nullRem": nullRem, "heads": heads}
	g := ev{"ev": "CCGen", "seed": seed, "certs": len(crts), "stored": stored, "generr": errStr(genErr), "puterr": putErr, "dupkeys": dup}
	for k, v := range sc {
		g[k] = v
	}
	r.emit(g)
	for i := init; i <= init+ncerts+L; i++ {
		cm, cerr := cc.GetCommittee(ctx, i)
		nm, nerr := node.GetCommittee(ctx, i)
		e := ev{"ev": "CC", "i": i, "cc": comRow(backend, cm, cerr), "node": comRow(backend, nm, nerr)}
		for k, v := range sc {
			e[k] = v
		}
		r.emit(e)
	}
}

func envInt(k string, d int) int {
	if v, err := strconv.Atoi(os.Getenv(k)); err == nil {
		return v
	}
	return d
}

func TestCertChain(t *testing.T) {
	r, done := openRec(t)
	defer done()
	seed := int64(envInt("VERIF_SEED", 1))
	nseeds := envInt("VERIF_N", 2)
	sb := signing.NewFakeBackend()
	var keys []gpbft.PubKey
	for i := 0; i < 4; i++ {
		k, _ := sb.GenerateKey()
		keys = append(keys, k)
	}
	for s := int64(0); s < int64(nseeds); s++ {
		for L := uint64(2); L <= 4; L++ {
			for init := uint64(0); init <= 2; init++ {
				for _, nm := range []int64{0, 5, 2} {
					// bootstrap at a plain epoch and at a null epoch (when there are null epochs)
					bootE := int64(7)
					if nm > 1 && (L+init)%2 == 0 {
						bootE = nm + 1 // e % nm == 1: null
					}
					runCertChain(t, r, sb, keys, L, init, nm, 1, bootE, seed*100+s, 9)
				}
			}
		}
	}
	t.Logf("events=%d", r.n)
}

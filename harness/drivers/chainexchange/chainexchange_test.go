//go:build verif

// Driver for property C18: steps a real chainexchange.PubSubChainExchange (built with the public
// constructor and options, never Start()ed: traffic is fed synchronously through the injected
// accessors to validatePubSubMessage / cacheAsDiscoveredChain / cacheAsWantedChain) through scripted,
// random and model-generated histories and records one NDJSON line per call: the arguments, what the
// call returned, and a read-only dump of the two LRU cache maps.  The verdict is TLC's
// (spec/exchange/ChainExchangeTrace.tla); this file contains no oracle.
//
// Abstraction: tipset id t -> TipSet{Epoch: t / 4, Key: "ts<t>", PowerTable: cid("pt")}; a chain is
// the list of its tipset ids; a key is logged as the id list of the chain it is the key of.
package zzchainexchange

import (
	"bufio"
	"context"
	"encoding/json"
	"fmt"
	"math/rand"
	"os"
	"sort"
	"strconv"
	"strings"
	"testing"
	"time"

	"github.com/filecoin-project/go-f3/chainexchange"
	"github.com/filecoin-project/go-f3/gpbft"
	"github.com/filecoin-project/go-f3/internal/clock"
	pubsub "github.com/libp2p/go-libp2p-pubsub"
)

const (
	epochDiv = 4
	timeBase = int64(1_700_000_000_000) // ms; abstract time t <-> timeBase + t
)

var ptCid = gpbft.MakeCid([]byte("pt"))

type ev map[string]any

type rec struct {
	w *bufio.Writer
	n int
}

func (r *rec) emit(e ev) {
	b, err := json.Marshal(e)
	if err != nil {
		panic(err)
	}
	r.w.Write(b)
	r.w.WriteByte('\n')
	r.n++
}

func tipset(t int) *gpbft.TipSet {
	return &gpbft.TipSet{Epoch: int64(t / epochDiv), Key: []byte("ts" + strconv.Itoa(t)), PowerTable: ptCid}
}

// mk builds a fresh ECChain (no cached key) from tipset ids; nil for the empty list.
func mk(ids []int) *gpbft.ECChain {
	if len(ids) == 0 {
		return nil
	}
	c := &gpbft.ECChain{}
	for _, t := range ids {
		c.TipSets = append(c.TipSets, tipset(t))
	}
	return c
}

// abs reads a chain back as tipset ids from its tipset keys (content, not the cached key).
func abs(c *gpbft.ECChain) []int {
	out := []int{}
	if c == nil {
		return out
	}
	for _, ts := range c.TipSets {
		s := string(ts.Key)
		n, err := strconv.Atoi(strings.TrimPrefix(s, "ts"))
		if !strings.HasPrefix(s, "ts") || err != nil || int64(n/epochDiv) != ts.Epoch {
			n = -1
		}
		out = append(out, n)
	}
	return out
}

func ints(a []int) []int {
	if a == nil {
		return []int{}
	}
	return a
}

type world struct {
	t        *testing.T
	r        *rec
	rng      *rand.Rand
	ctx      context.Context
	cx       *chainexchange.PubSubChainExchange
	clk      *clock.Mock
	prog     gpbft.InstanceProgress
	registry map[gpbft.ECChainKey][]int
	capW     int
	capD     int
	look     int
	maxAge   int
	now      int
	nHist    int
}

type sink struct{ n int }

func (s *sink) NotifyChainDiscovered(context.Context, uint64, *gpbft.ECChain) { s.n++ }

// keyOf registers the chain and all its prefixes and returns its key computed on a fresh object.
func (w *world) keyOf(ids []int) gpbft.ECChainKey {
	for n := 1; n <= len(ids); n++ {
		p := append([]int{}, ids[:n]...)
		w.registry[mk(p).Key()] = p
	}
	return mk(ids).Key()
}

func (w *world) absKey(k gpbft.ECChainKey) []int {
	if k.IsZero() {
		return []int{}
	}
	if ids, ok := w.registry[k]; ok {
		return ids
	}
	return []int{-1}
}

func (w *world) dump() (any, any) {
	wm, dm := w.cx.VerifDump()
	conv := func(m map[uint64][]chainexchange.VerifEntry) any {
		insts := make([]uint64, 0, len(m))
		for i := range m {
			insts = append(insts, i)
		}
		sort.Slice(insts, func(a, b int) bool { return insts[a] < insts[b] })
		out := []any{}
		for _, i := range insts {
			q := []any{}
			for _, e := range m[i] {
				q = append(q, ev{"k": w.absKey(e.Key), "v": abs(e.Chain)})
			}
			out = append(out, ev{"i": i, "q": q})
		}
		return out
	}
	return conv(wm), conv(dm)
}

func (w *world) emit(e ev) {
	e["w"], e["d"] = w.dump()
	w.r.emit(e)
}

func (w *world) reset(capW, capD, look, maxAge, progID int, input []int, now int, compress bool) {
	w.capW, w.capD, w.look, w.maxAge, w.now = capW, capD, look, maxAge, now
	w.clk = clock.NewMock()
	w.clk.Set(time.UnixMilli(timeBase + int64(now)))
	w.prog = gpbft.InstanceProgress{Instant: gpbft.Instant{ID: uint64(progID)}, Input: mk(input)}
	w.registry = map[gpbft.ECChainKey][]int{}
	cx, err := chainexchange.NewPubSubChainExchange(
		chainexchange.WithProgress(func() gpbft.InstanceProgress { return w.prog }),
		chainexchange.WithPubSub(new(pubsub.PubSub)), // never started: no traffic goes through pubsub
		chainexchange.WithTopicName("verif"),
		chainexchange.WithMaxWantedChainsPerInstance(capW),
		chainexchange.WithMaxDiscoveredChainsPerInstance(capD),
		chainexchange.WithMaxInstanceLookahead(uint64(look)),
		chainexchange.WithMaxTimestampAge(time.Duration(maxAge)*time.Millisecond),
		chainexchange.WithCompression(compress),
		chainexchange.WithListener(&sink{}),
		chainexchange.WithClock(w.clk),
	)
	if err != nil {
		w.t.Fatalf("constructor: %v", err)
	}
	w.cx = cx
	w.nHist++
	w.emit(ev{"ev": "Reset", "capW": capW, "capD": capD, "lookahead": look, "maxAge": maxAge, "maxLen": gpbft.ChainMaxLen,
		"id": progID, "input": ints(input), "now": now})
}

func (w *world) lookup(inst int, key []int) []int {
	var k gpbft.ECChainKey
	if len(key) > 0 {
		k = w.keyOf(key)
	}
	c, found := w.cx.GetChainByInstance(w.ctx, uint64(inst), k)
	ret := abs(c)
	retkey := []int{}
	if c != nil {
		retkey = w.absKey(mk(ret).Key()) // the key of the returned content, recomputed
		if len(ret) > 0 && ret[0] == -1 {
			retkey = []int{-1}
		}
	}
	w.emit(ev{"ev": "Lookup", "inst": inst, "key": ints(key), "ret": ret, "retkey": retkey, "found": found})
	return ret
}

func (w *world) own(inst int, chain []int) {
	w.keyOf(chain)
	w.cx.VerifWanted(w.ctx, chainexchange.Message{Instance: uint64(inst), Chain: mk(chain), Timestamp: timeBase + int64(w.now)})
	w.emit(ev{"ev": "Own", "inst": inst, "chain": ints(chain)})
}

func (w *world) admit(inst int, chain []int) {
	w.keyOf(chain)
	w.cx.VerifDiscovered(w.ctx, chainexchange.Message{Instance: uint64(inst), Chain: mk(chain), Timestamp: timeBase + int64(w.now)})
	w.emit(ev{"ev": "Admit", "inst": inst, "chain": ints(chain)})
}

func verdictName(v pubsub.ValidationResult) string {
	switch v {
	case pubsub.ValidationAccept:
		return "accept"
	case pubsub.ValidationReject:
		return "reject"
	case pubsub.ValidationIgnore:
		return "ignore"
	}
	return "other"
}

// deliver: the bytes of a broadcast arrive from the network; the validator decides; an accepted
// message (its ValidatorData) is handed to the discovered-chain cache, as the subscription loop does.
func (w *world) deliver(shape string, inst int, chain []int, ts int) string {
	w.keyOf(chain)
	c := mk(chain)
	switch shape {
	case "emptykey":
		if c != nil {
			c.TipSets[len(c.TipSets)-1].Key = nil
		}
	case "negepoch":
		if c != nil {
			c.TipSets[0].Epoch = -1
		}
	}
	data, err := w.cx.VerifEncode(&chainexchange.Message{Instance: uint64(inst), Chain: c, Timestamp: timeBase + int64(ts)})
	if err != nil {
		w.t.Fatalf("encode %s: %v", shape, err)
	}
	switch shape {
	case "undecodable":
		data = data[:len(data)/2]
	case "garbage":
		data = []byte{0xff, 0x00, 0x13, 0x37}
	case "nothing":
		data = []byte{}
	}
	res, vd := w.cx.VerifValidate(w.ctx, data)
	e := ev{"ev": "Deliver", "shape": shape, "inst": inst, "chain": ints(chain), "ts": ts, "verdict": verdictName(res),
		"vinst": -1, "vchain": []int{}, "vts": -1}
	if vd != nil {
		e["vinst"], e["vchain"], e["vts"] = vd.Instance, abs(vd.Chain), vd.Timestamp-timeBase
	}
	if res == pubsub.ValidationAccept && vd != nil {
		w.cx.VerifDiscovered(w.ctx, *vd)
	}
	w.emit(e)
	return verdictName(res)
}

func (w *world) prune(n int) {
	if err := w.cx.RemoveChainsByInstance(w.ctx, uint64(n)); err != nil {
		w.t.Fatalf("prune: %v", err)
	}
	w.emit(ev{"ev": "Prune", "n": n})
}

func (w *world) progress(id int, input []int) {
	w.prog = gpbft.InstanceProgress{Instant: gpbft.Instant{ID: uint64(id)}, Input: mk(input)}
	w.emit(ev{"ev": "Progress", "id": id, "input": ints(input)})
}

func (w *world) clock(now int) {
	w.now = now
	w.clk.Set(time.UnixMilli(timeBase + int64(now)))
	w.emit(ev{"ev": "Clock", "now": now})
}

func envInt(name string, def int) int {
	if v := os.Getenv(name); v != "" {
		n, err := strconv.Atoi(v)
		if err == nil {
			return n
		}
	}
	return def
}

func newWorld(t *testing.T) (*world, func()) {
	out := os.Getenv("VERIF_OUT")
	if out == "" {
		t.Skip("VERIF_OUT not set")
	}
	f, err := os.Create(out)
	if err != nil {
		t.Fatal(err)
	}
	bw := bufio.NewWriterSize(f, 1<<20)
	w := &world{t: t, r: &rec{w: bw}, rng: rand.New(rand.NewSource(int64(envInt("VERIF_SEED", 1)))), ctx: context.Background()}
	return w, func() {
		bw.Flush()
		f.Close()
		t.Logf("VERIF_STATS histories=%d events=%d", w.nHist, w.r.n)
	}
}

// ---------------------------------------------------------------------------- scripted boundary histories

func sibling(base, j int) []int { return []int{base, epochDiv + j} } // <<base, a tipset of epoch 1>>

func (w *world) scripted() {
	for _, caps := range [][2]int{{1, 1}, {2, 2}, {3, 2}, {2, 3}, {4, 4}, {1, 3}, {3, 1}} {
		capW, capD := caps[0], caps[1]
		// ask first, then the chain arrives, then a flood of unsolicited chains, then ask again
		w.reset(capW, capD, 2, 10, 0, nil, 100, false)
		want := sibling(0, 0)
		w.lookup(0, want)
		w.admit(0, want)
		for j := 1; j <= capD+3; j++ {
			w.admit(0, sibling(0, j%3+1))
			w.admit(0, []int{0, epochDiv + 1, 2*epochDiv + j})
		}
		w.lookup(0, want)
		w.lookup(0, want[:1])
		// the same through the validator, at a future instance, flood by distinct bases
		w.reset(capW, capD, 2, 10, 0, nil, 100, true)
		w.lookup(1, want)
		w.deliver("ok", 1, want, 100)
		for j := 1; j <= capD+2; j++ {
			w.deliver("ok", 1, []int{1, epochDiv + j}, 95)
		}
		w.lookup(1, want)
		// arrives first (unsolicited), is asked for while still held, then the flood
		w.reset(capW, capD, 2, 10, 0, nil, 100, false)
		w.admit(0, want)
		w.lookup(0, want)
		for j := 1; j <= capD+2; j++ {
			w.admit(0, sibling(0, j))
		}
		w.lookup(0, want)
		// arrives first, flood evicts it, then asked, then arrives again, flood again
		w.reset(capW, capD, 2, 10, 0, nil, 100, false)
		w.admit(0, want)
		for j := 1; j <= capD+1; j++ {
			w.admit(0, sibling(0, j))
		}
		w.lookup(0, want)
		w.admit(0, want)
		for j := 1; j <= capD+1; j++ {
			w.admit(0, sibling(0, j))
		}
		w.lookup(0, want)
		// every prefix right after an admit / an own broadcast of chains of length 1..cap+1
		for n := 1; n <= capD+1; n++ {
			w.reset(capW, capD, 2, 10, 0, nil, 100, false)
			c := []int{}
			for j := 0; j < n; j++ {
				c = append(c, j*epochDiv)
			}
			w.admit(2, c)
			for j := n; j >= 1; j-- {
				w.lookup(2, c[:j])
			}
		}
		for n := 1; n <= capW+1; n++ {
			w.reset(capW, capD, 2, 10, 0, nil, 100, false)
			c := []int{}
			for j := 0; j < n; j++ {
				c = append(c, j*epochDiv+1)
			}
			w.own(1, c)
			for j := 1; j <= n; j++ {
				w.lookup(1, c[:j])
			}
			w.lookup(0, c) // another instance: never admitted there
		}
		// prune boundaries: instances n-1, n, n+1 populated in both caches
		for _, n := range []int{0, 1, 2, 3, 4} {
			w.reset(capW, capD, 5, 10, 0, nil, 100, false)
			for i := 0; i <= 3; i++ {
				w.admit(i, sibling(0, i))
				w.lookup(i, sibling(0, 7))
				if i%2 == 1 {
					w.own(i, sibling(1, i))
				}
			}
			w.prune(n)
			for i := 0; i <= 3; i++ {
				w.lookup(i, sibling(0, i))
				w.lookup(i, sibling(0, i)[:1])
			}
			w.prune(n)
		}
	}
}

// heldPrefix: a chain that fits is filed again while one of its prefixes is still held and others are not;
// the held one is not refreshed, so the chain's own remaining prefixes push it out (known finding F10).
func (w *world) heldPrefix() {
	a, b, c := []int{0, epochDiv}, []int{0, epochDiv, 2 * epochDiv}, []int{1}
	w.reset(3, 3, 2, 10, 0, nil, 100, false)
	w.admit(0, a) // discovered (newest first): <0>, <0,4>
	w.admit(0, b) // <0,4,8>, <0>, <0,4>
	w.admit(0, c) // <1>, <0,4,8>, <0>           (<0,4> evicted)
	w.admit(0, b) // <0,4,8> held and oldest-but-one: re-adding <0,4> and <0> evicts it
	for j := 3; j >= 1; j-- {
		w.lookup(0, b[:j])
	}
	w.reset(3, 3, 2, 10, 0, nil, 100, false)
	w.own(0, a)
	w.own(0, b)
	w.lookup(0, c) // a placeholder takes the place of <0,4>
	w.own(0, b)
	for j := 3; j >= 1; j-- {
		w.lookup(0, b[:j])
	}
	w.reset(3, 3, 2, 10, 0, nil, 100, false)
	w.deliver("ok", 1, a, 100)
	w.deliver("ok", 1, b, 100)
	w.deliver("ok", 1, c, 100)
	w.deliver("ok", 1, b, 100)
}

// validation table: every shape x instance window x timestamp window x base agreement x input presence
func (w *world) validation() {
	look, age := 3, 10
	valid := []int{0, epochDiv, 2 * epochDiv}
	otherBase := []int{1, epochDiv, 2 * epochDiv}
	for _, input := range [][]int{nil, valid, {0}, otherBase} {
		for _, cur := range []int{0, 5} {
			w.reset(3, 3, look, age, cur, input, 1000, cur == 5)
			for _, inst := range []int{cur - 1, cur, cur + 1, cur + look, cur + look + 1, cur + 100} {
				if inst < 0 {
					continue
				}
				for _, ts := range []int{1000 - age - 1, 1000 - age, 1000 - 1, 1000, 1000 + 1} {
					for _, c := range [][]int{valid, otherBase, {0}, {2 * epochDiv, epochDiv}, {0, 1}, {}} {
						w.deliver("ok", inst, c, ts)
					}
				}
				for _, shape := range []string{"undecodable", "garbage", "nothing", "emptykey", "negepoch"} {
					w.deliver(shape, inst, valid, 1000)
				}
			}
			// the verdict follows progress and the clock
			w.progress(cur+1, nil)
			w.deliver("ok", cur, valid, 1000)
			w.deliver("ok", cur+1, otherBase, 1000)
			w.progress(cur+1, valid)
			w.deliver("ok", cur+1, otherBase, 1000)
			w.deliver("ok", cur+1, valid, 1000)
			w.clock(1000 + age + 1)
			w.deliver("ok", cur+1, valid, 1000)
			w.deliver("ok", cur+1, valid, 1001)
			w.lookup(cur+1, valid)
			w.lookup(cur+1, otherBase)
			w.lookup(cur, valid)
		}
	}
}

// chains of the maximum length (and one beyond)
func (w *world) longChains() {
	max := gpbft.ChainMaxLen
	long := make([]int, max+1)
	for j := range long {
		long[j] = j * epochDiv
	}
	w.reset(max, max, 2, 10, 0, nil, 100, true)
	w.lookup(0, long[:max])
	w.lookup(0, long[:max/2])
	w.deliver("ok", 0, long[:max], 100)
	w.lookup(0, long[:max])
	w.lookup(0, long[:1])
	w.lookup(0, long[:max-1])
	w.deliver("ok", 0, long, 100) // one too long
	w.deliver("ok", 1, []int{1, epochDiv}, 100)
	w.lookup(0, long[:max/2])
	w.reset(max+2, 3, 2, 10, 0, nil, 100, false)
	w.own(1, long[:max])
	w.lookup(1, long[:max])
	w.lookup(1, long[:2])
	w.admit(1, long[:max])
	w.prune(2)
}

// ---------------------------------------------------------------------------- random histories

func (w *world) randomHistory(steps int) {
	rng := w.rng
	capW, capD := 1+rng.Intn(4), 1+rng.Intn(4)
	look := rng.Intn(3)
	age := 5
	nInst := 1 + rng.Intn(3)
	now := 50
	cur := 0
	// a small tree of chains with shared prefixes, two bases
	var chains [][]int
	for b := 0; b < 2; b++ {
		chains = append(chains, []int{b})
		for j := 0; j < 3+rng.Intn(3); j++ {
			parent := chains[rng.Intn(len(chains))]
			if parent[0] != b || len(parent) > 3 {
				parent = []int{b}
			}
			next := (parent[len(parent)-1]/epochDiv+1)*epochDiv + rng.Intn(epochDiv)
			chains = append(chains, append(append([]int{}, parent...), next))
		}
	}
	pick := func() []int { return chains[rng.Intn(len(chains))] }
	var input []int
	if rng.Intn(2) == 0 {
		input = pick()
	}
	w.reset(capW, capD, look, age, cur, input, now, rng.Intn(2) == 0)
	fresh := 100
	for s := 0; s < steps; s++ {
		inst := cur + rng.Intn(nInst)
		switch x := rng.Intn(100); {
		case x < 28:
			c := pick()
			w.lookup(inst, c[:1+rng.Intn(len(c))])
		case x < 31:
			w.lookup(inst, nil) // zero key
		case x < 50:
			w.admit(inst, pick())
		case x < 58: // a flood of unsolicited chains larger than the discovered capacity
			for j := 0; j < capD+1+rng.Intn(3); j++ {
				fresh++
				w.admit(inst, []int{rng.Intn(2), fresh * epochDiv})
			}
		case x < 72:
			shape := "ok"
			if rng.Intn(6) == 0 {
				shape = []string{"undecodable", "garbage", "emptykey", "negepoch"}[rng.Intn(4)]
			}
			c := pick()
			if rng.Intn(10) == 0 {
				c = []int{c[0], c[0]} // epochs not increasing
			}
			di := cur - 1 + rng.Intn(look+4)
			if di < 0 {
				di = 0
			}
			w.deliver(shape, di, c, now-age-1+rng.Intn(age+3))
			if cur == 0 && rng.Intn(3) == 0 {
				w.deliver("ok", 0, pick(), now)
			}
		case x < 80:
			w.own(inst, pick())
		case x < 86:
			w.prune(cur + rng.Intn(nInst+1))
		case x < 93:
			if rng.Intn(2) == 0 {
				cur++
			}
			input = nil
			if rng.Intn(3) > 0 {
				input = pick()
			}
			w.progress(cur, input)
		default:
			now += rng.Intn(4)
			w.clock(now)
		}
	}
}

func TestCXHistories(t *testing.T) {
	w, done := newWorld(t)
	defer done()
	if envInt("VERIF_SCRIPTED", 1) == 1 {
		w.scripted()
		w.heldPrefix()
		w.validation()
		w.longChains()
	}
	n, steps := envInt("VERIF_N", 40), envInt("VERIF_STEPS", 40)
	for h := 0; h < n; h++ {
		w.randomHistory(steps)
	}
}

// ---------------------------------------------------------------------------- model-generated histories

type mop struct {
	Op    string `json:"op"`
	Inst  int    `json:"inst"`
	Key   []int  `json:"key"`
	Chain []int  `json:"chain"`
	Shape string `json:"shape"`
	Ts    int    `json:"ts"`
	N     int    `json:"n"`
	ID    int    `json:"id"`
	Input []int  `json:"input"`
	Now   int    `json:"now"`
}

type mhist struct {
	CapW      int   `json:"capW"`
	CapD      int   `json:"capD"`
	Lookahead int   `json:"lookahead"`
	MaxAge    int   `json:"maxAge"`
	Now       int   `json:"now"`
	Ops       []mop `json:"ops"`
}

// TestCXModel executes operation sequences generated by TLC (-simulate on MCChainExchange, variable hist).
// The model uses EpochDiv = 1; tipset id t of the model is mapped to id t*epochDiv here.
func TestCXModel(t *testing.T) {
	w, done := newWorld(t)
	defer done()
	in := os.Getenv("VERIF_IN")
	b, err := os.ReadFile(in)
	if err != nil {
		t.Fatal(err)
	}
	var hs []mhist
	if err := json.Unmarshal(b, &hs); err != nil {
		t.Fatal(err)
	}
	sc := func(a []int) []int {
		out := make([]int, len(a))
		for i, x := range a {
			out[i] = x * epochDiv
		}
		return out
	}
	for _, h := range hs {
		w.reset(h.CapW, h.CapD, h.Lookahead, h.MaxAge, 0, nil, h.Now, false)
		for _, o := range h.Ops {
			switch o.Op {
			case "Lookup":
				w.lookup(o.Inst, sc(o.Key))
			case "Own":
				w.own(o.Inst, sc(o.Chain))
			case "Admit":
				w.admit(o.Inst, sc(o.Chain))
			case "Deliver":
				w.deliver(o.Shape, o.Inst, sc(o.Chain), o.Ts)
			case "Prune":
				w.prune(o.N)
			case "Progress":
				w.progress(o.ID, sc(o.Input))
			case "Clock":
				w.clock(o.Now)
			default:
				t.Fatalf("unknown op %q", o.Op)
			}
		}
	}
	_ = fmt.Sprint
}

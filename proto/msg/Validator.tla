---------------------------- MODULE Validator ----------------------------
\* Prototype: content part of gpbft validator (validateMessageWithVoteValueKey, full messages), rules in code order.
EXTENDS Integers, Sequences, TLC, Json
VARIABLE m
Phases == {"QUALITY", "CONVERGE", "PREPARE", "COMMIT", "DECIDE", "BOGUS"}
NoneJ == [jph |-> "none", jr |-> 0, jv |-> "same", jsupp |-> "same", jS |-> "strong", jagg |-> "ok"]
JSpace == {NoneJ} \cup [jph : {"PREPARE", "COMMIT", "QUALITY"}, jr : {-1, 0}, jv : {"same", "bot", "other"},
                        jsupp : {"same", "other"}, jS : {"strong", "short", "zero", "oob"}, jagg : {"ok", "bad"}]
Space == [ph : Phases, r : 0..2, v : {"bot", "base", "ext", "bad"}, snd : {"member", "zero", "stranger"},
          sig : {"ok", "bad"}, tk : {"ok", "bad"}, j : JSpace]

IsBot(x) == x.v = "bot"
NeedsJ(x) == ~(x.ph = "QUALITY" \/ (x.ph = "PREPARE" /\ x.r = 0) \/ (x.ph = "COMMIT" /\ IsBot(x)))
\* justification value relative to the message: "same" means the message's own value (bottom if the message votes bottom)
JIsBot(x) == x.j.jv = "bot" \/ (x.j.jv = "same" /\ IsBot(x))
JIsMsgValue(x) == x.j.jv = "same" \/ (x.j.jv = "bot" /\ IsBot(x))
ShapeOK(x) ==
  LET j == x.j IN
  CASE x.ph \in {"CONVERGE", "PREPARE"} ->
         \/ (j.jph = "COMMIT" /\ j.jr = -1 /\ JIsBot(x))
         \/ (j.jph = "PREPARE" /\ j.jr = -1 /\ JIsMsgValue(x))
    [] x.ph = "COMMIT" -> j.jph = "PREPARE" /\ j.jr = 0 /\ JIsMsgValue(x)
    [] x.ph = "DECIDE" -> j.jph = "COMMIT" /\ JIsMsgValue(x)
    [] OTHER -> FALSE
Verdict(x) ==
  IF x.snd # "member" THEN "Invalid"
  ELSE IF x.v = "bad" THEN "Invalid"
  ELSE IF x.ph = "BOGUS" THEN "Invalid"
  ELSE IF x.ph = "QUALITY" /\ (x.r # 0 \/ IsBot(x)) THEN "Invalid"
  ELSE IF x.ph = "CONVERGE" /\ (x.r = 0 \/ IsBot(x) \/ x.tk = "bad") THEN "Invalid"
  ELSE IF x.ph = "DECIDE" /\ (x.r # 0 \/ IsBot(x)) THEN "Invalid"
  ELSE IF x.sig = "bad" THEN "Invalid"
  ELSE IF NeedsJ(x) THEN
         (IF x.j.jph = "none" THEN "Invalid"
          ELSE IF x.j.jsupp = "other" THEN "Invalid"
          ELSE IF ~ShapeOK(x) THEN "Invalid"
          ELSE IF x.j.jS # "strong" THEN "Invalid"
          ELSE IF x.j.jagg = "bad" THEN "Invalid"
          ELSE "OK")
  ELSE IF x.j.jph # "none" THEN "Invalid"
  ELSE "OK"
Init == m \in Space
Next == UNCHANGED m
Emit == PrintT(ToJson([m |-> m, verdict |-> Verdict(m)]))
=============================================================================

---------------------------- MODULE Broadcast ----------------------------
\* Prototype of host.go BroadcastMessage / rebroadcast / restart with the equivocation filter and the WAL.
\* One local identity; a message is [inst, slot, sig]; two messages with equal (inst, slot) and different sig equivocate.
EXTENDS Integers, Sequences, FiniteSets, TLC
CONSTANTS Insts, Slots, Sigs, MaxRestarts,
          LogBeforePublish      \* TRUE: filter, WAL append, publish (as coded); FALSE: publish before append (mutant)
Msgs == [inst : Insts, slot : Slots, sig : Sigs]
VARIABLES cur, seen,       \* filter: current instance, slot -> sig (of current instance)
          wal,             \* durable sequence of messages
          self,            \* in-memory rebroadcast store: set of messages
          wire,            \* sequence of published messages (history)
          pc,              \* <<>> or <<step, msg>>: BroadcastMessage in flight
          restarts
vars == <<cur, seen, wal, self, wire, pc, restarts>>
None == 0
Init == cur = 0 /\ seen = [s \in {} |-> None] /\ wal = <<>> /\ self = {} /\ wire = <<>> /\ pc = <<>> /\ restarts = 0

\* equivocationFilter.ProcessBroadcast with a single origin: returns <<ok, cur', seen'>>
Filter(c, sn, m) ==
  IF m.inst < c THEN <<FALSE, c, sn>>
  ELSE LET c1 == IF m.inst > c THEN m.inst ELSE c
           s1 == IF m.inst > c THEN [s \in {} |-> None] ELSE sn
       IN IF m.slot \in DOMAIN s1 THEN (IF s1[m.slot] = m.sig THEN <<TRUE, c1, s1>> ELSE <<FALSE, c1, s1>>)
          ELSE <<TRUE, c1, (m.slot :> m.sig) @@ s1>>

Request(m) ==          \* F3.Broadcast: first micro-step = filter
  /\ pc = <<>>
  /\ LET f == Filter(cur, seen, m) IN
     /\ cur' = f[2] /\ seen' = f[3]
     /\ pc' = IF f[1] THEN <<(IF LogBeforePublish THEN "append" ELSE "publish1"), m>> ELSE <<>>
  /\ UNCHANGED <<wal, self, wire, restarts>>
StepAppend == /\ pc # <<>> /\ pc[1] = "append"
              /\ wal' = Append(wal, pc[2]) /\ self' = self \cup {pc[2]} /\ pc' = <<"publish", pc[2]>>
              /\ UNCHANGED <<cur, seen, wire, restarts>>
StepPublish == /\ pc # <<>> /\ pc[1] = "publish"
               /\ wire' = Append(wire, pc[2]) /\ pc' = <<>>
               /\ UNCHANGED <<cur, seen, wal, self, restarts>>
\* mutant order
StepPublish1 == /\ pc # <<>> /\ pc[1] = "publish1"
                /\ wire' = Append(wire, pc[2]) /\ pc' = <<"append2", pc[2]>>
                /\ UNCHANGED <<cur, seen, wal, self, restarts>>
StepAppend2 == /\ pc # <<>> /\ pc[1] = "append2"
               /\ wal' = Append(wal, pc[2]) /\ self' = self \cup {pc[2]} /\ pc' = <<>>
               /\ UNCHANGED <<cur, seen, wire, restarts>>

Rebroadcast(m) ==      \* RequestRebroadcast: messages come from self, pass the same filter, are published
  /\ pc = <<>> /\ m \in self
  /\ LET f == Filter(cur, seen, m) IN
     /\ cur' = f[2] /\ seen' = f[3]
     /\ wire' = IF f[1] THEN Append(wire, m) ELSE wire
  /\ UNCHANGED <<wal, self, pc, restarts>>

\* crash at any point + restart: filter re-armed from the WAL in log order, self rebuilt and trimmed to the newest instance
RECURSIVE Rearm(_, _, _)
Rearm(c, sn, w) == IF w = <<>> THEN <<c, sn>> ELSE LET f == Filter(c, sn, Head(w)) IN Rearm(f[2], f[3], Tail(w))
MaxInst(w) == IF w = <<>> THEN 0 ELSE LET S == {w[i].inst : i \in DOMAIN w} IN CHOOSE x \in S : \A y \in S : y <= x
Restart ==
  /\ restarts < MaxRestarts /\ restarts' = restarts + 1
  /\ LET r == Rearm(0, [s \in {} |-> None], wal) IN cur' = r[1] /\ seen' = r[2]
  /\ self' = {wal[i] : i \in {j \in DOMAIN wal : wal[j].inst = MaxInst(wal)}}
  /\ pc' = <<>> /\ UNCHANGED <<wal, wire>>

Purge(k) ==            \* WAL purge keeps at least everything at or above k
  /\ pc = <<>> /\ k <= cur
  /\ wal' = SelectSeq(wal, LAMBDA m : m.inst >= k)
  /\ self' = {m \in self : m.inst >= k}
  /\ UNCHANGED <<cur, seen, wire, pc, restarts>>

Next == (\E m \in Msgs : Request(m) \/ Rebroadcast(m)) \/ StepAppend \/ StepPublish \/ StepPublish1 \/ StepAppend2
        \/ Restart \/ (\E k \in Insts : Purge(k))
Spec == Init /\ [][Next]_vars

NoSelfEquivocation == \A i, j \in DOMAIN wire : (wire[i].inst = wire[j].inst /\ wire[i].slot = wire[j].slot) => wire[i].sig = wire[j].sig
NoOlderInstance == \A i, j \in DOMAIN wire : i < j => wire[j].inst >= wire[i].inst
Bounded == Len(wire) <= 4 /\ Len(wal) <= 4
=============================================================================

SPECIFICATION Spec
CONSTANTS
  Insts = {1, 2}
  Slots = {1, 2}
  Sigs = {1, 2}
  MaxRestarts = 2
  LogBeforePublish = FALSE
INVARIANT NoSelfEquivocation
INVARIANT NoOlderInstance
CONSTRAINT Bounded
CHECK_DEADLOCK FALSE

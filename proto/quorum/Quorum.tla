---- MODULE Quorum ----
EXTENDS Integers, TLAPS
DivCeil(a, b) == IF a % b = 0 THEN a \div b ELSE (a \div b) + 1
Strong(p, w) == p >= DivCeil(2 * w, 3)
Weak(p, w) == p > DivCeil(w, 3)

THEOREM StrongIff == \A p, w \in Nat : Strong(p, w) <=> 3 * p >= 2 * w
  BY DEF Strong, DivCeil
THEOREM Intersect == \A a, b, w \in Nat : (a <= w /\ b <= w /\ Strong(a, w) /\ Strong(b, w)) => 3 * (a + b - w) >= w
  BY StrongIff
THEOREM WeakStrict == \A p, w \in Nat : Weak(p, w) => 3 * p > w
  BY DEF Weak, DivCeil
====

---- MODULE MC ----
EXTENDS CertStore
====

---------------------------- MODULE CertStore ----------------------------
\* Prototype of the certificate store with crash points between individual datastore writes.
EXTENDS Integers, Sequences, FiniteSets, TLC
CONSTANTS MaxInst, F, First, Tables, WipeResumeWorks
None == -1
Insts == First..MaxInst

\* abstract certificate: delta is <<from, to>>; supp is the committed next table
Certs == [inst : Insts, from : Tables, to : Tables, supp : Tables, ok : BOOLEAN]
Apply(t, c) == IF c.from = t THEN c.to ELSE None   \* a delta that does not fit the table fails

VARIABLES dcert, dpower, dlatest, dfirst, dtomb,    \* durable
          open, mlatest, mpt,                        \* memory
          pc                                         \* pending micro-steps of the running operation
vars == <<dcert, dpower, dlatest, dfirst, dtomb, open, mlatest, mpt, pc>>
Idle == <<>>

Init == /\ dcert = [i \in {} |-> None] /\ dpower = [i \in {} |-> None]
        /\ dlatest = None /\ dfirst = None /\ dtomb = FALSE
        /\ open = FALSE /\ mlatest = None /\ mpt = None /\ pc = Idle

\* ---- derived: power table for instance i from durable state (nearest checkpoint + deltas)
RECURSIVE Fold(_, _, _)
Fold(t, i, j) == IF t = None \/ i >= j THEN t
                 ELSE IF i \notin DOMAIN dcert THEN None ELSE Fold(Apply(t, dcert[i]), i + 1, j)
Checkpoint(i) == LET c == i - (i % F) IN IF c < dfirst THEN dfirst ELSE c
DerivePT(i) == LET s == Checkpoint(i) IN IF s \notin DOMAIN dpower THEN None ELSE Fold(dpower[s], s, i)

Next0 == IF dlatest = None THEN dfirst ELSE dlatest + 1

\* ---- operations (first micro-step does the in-memory checks; writes follow one by one)
Create(t) ==
  /\ ~open /\ pc = Idle /\ dfirst = None /\ ~dtomb
  /\ pc' = << [w |-> "power", i |-> First, v |-> t], [w |-> "first", v |-> First], [w |-> "mem", latest |-> None, pt |-> t] >>
  /\ UNCHANGED <<dcert, dpower, dlatest, dfirst, dtomb, open, mlatest, mpt>>

ContinueWipe ==
  \* resumable wipe on open (only when the implementation looks at the right key)
  /\ ~open /\ pc = Idle /\ dtomb /\ WipeResumeWorks
  /\ pc' = << [w |-> "wipe"] >>
  /\ UNCHANGED <<dcert, dpower, dlatest, dfirst, dtomb, open, mlatest, mpt>>

OpenStore ==
  /\ ~open /\ pc = Idle /\ dfirst # None /\ (dtomb => ~WipeResumeWorks)
  /\ (dlatest # None => dlatest \in DOMAIN dcert)          \* "loading latest cert"
  /\ DerivePT(Next0) # None                                \* "getting latest power table"
  /\ open' = TRUE /\ mlatest' = dlatest /\ mpt' = DerivePT(Next0)
  /\ UNCHANGED <<dcert, dpower, dlatest, dfirst, dtomb, pc>>

OpenFails == ~open /\ pc = Idle /\ dfirst # None /\ (dtomb => ~WipeResumeWorks)
             /\ ~((dlatest # None => dlatest \in DOMAIN dcert) /\ DerivePT(Next0) # None)

Put(c) ==
  /\ open /\ pc = Idle /\ c.ok
  /\ c.inst = (IF mlatest = None THEN First ELSE mlatest + 1)
  /\ LET npt == Apply(mpt, c) IN
     /\ npt # None /\ npt = c.supp
     /\ pc' = << [w |-> "cert", i |-> c.inst, v |-> c] >>
              \o (IF (c.inst + 1) % F = 0 THEN << [w |-> "power", i |-> c.inst + 1, v |-> npt] >> ELSE <<>>)
              \o << [w |-> "latest", v |-> c.inst], [w |-> "mem", latest |-> c.inst, pt |-> npt] >>
  /\ UNCHANGED <<dcert, dpower, dlatest, dfirst, dtomb, open, mlatest, mpt>>

DeleteAll ==
  /\ open /\ pc = Idle
  /\ pc' = << [w |-> "tomb"], [w |-> "wipe"] >>
  /\ UNCHANGED <<dcert, dpower, dlatest, dfirst, dtomb, open, mlatest, mpt>>

Step ==
  /\ pc # Idle
  /\ LET s == Head(pc) IN
     CASE s.w = "cert" -> /\ dcert' = (s.i :> s.v) @@ dcert /\ pc' = Tail(pc)
                          /\ UNCHANGED <<dpower, dlatest, dfirst, dtomb, open, mlatest, mpt>>
       [] s.w = "power" -> /\ dpower' = (s.i :> s.v) @@ dpower /\ pc' = Tail(pc)
                           /\ UNCHANGED <<dcert, dlatest, dfirst, dtomb, open, mlatest, mpt>>
       [] s.w = "latest" -> /\ dlatest' = s.v /\ pc' = Tail(pc)
                            /\ UNCHANGED <<dcert, dpower, dfirst, dtomb, open, mlatest, mpt>>
       [] s.w = "first" -> /\ dfirst' = s.v /\ pc' = Tail(pc)
                           /\ UNCHANGED <<dcert, dpower, dlatest, dtomb, open, mlatest, mpt>>
       [] s.w = "mem" -> /\ open' = TRUE /\ mlatest' = s.latest /\ mpt' = s.pt /\ pc' = Tail(pc)
                         /\ UNCHANGED <<dcert, dpower, dlatest, dfirst, dtomb>>
       [] s.w = "tomb" -> /\ dtomb' = TRUE /\ pc' = Tail(pc)
                          /\ UNCHANGED <<dcert, dpower, dlatest, dfirst, open, mlatest, mpt>>
       [] s.w = "wipe" ->
            \* delete one key at a time, in any order; the tombstone goes last
            \/ \E i \in DOMAIN dcert : /\ dcert' = [j \in DOMAIN dcert \ {i} |-> dcert[j]]
                                       /\ UNCHANGED <<dpower, dlatest, dfirst, dtomb, open, mlatest, mpt, pc>>
            \/ \E i \in DOMAIN dpower : /\ dpower' = [j \in DOMAIN dpower \ {i} |-> dpower[j]]
                                        /\ UNCHANGED <<dcert, dlatest, dfirst, dtomb, open, mlatest, mpt, pc>>
            \/ /\ dlatest # None /\ dlatest' = None /\ UNCHANGED <<dcert, dpower, dfirst, dtomb, open, mlatest, mpt, pc>>
            \/ /\ dfirst # None /\ dfirst' = None /\ UNCHANGED <<dcert, dpower, dlatest, dtomb, open, mlatest, mpt, pc>>
            \/ /\ DOMAIN dcert = {} /\ DOMAIN dpower = {} /\ dlatest = None /\ dfirst = None
               /\ dtomb' = FALSE /\ pc' = Tail(pc) /\ open' = FALSE /\ mlatest' = None /\ mpt' = None
               /\ UNCHANGED <<dcert, dpower, dlatest, dfirst>>

Crash == /\ (open \/ pc # Idle)
         /\ open' = FALSE /\ mlatest' = None /\ mpt' = None /\ pc' = Idle
         /\ UNCHANGED <<dcert, dpower, dlatest, dfirst, dtomb>>

Next == \/ \E t \in Tables : Create(t)
        \/ ContinueWipe \/ OpenStore
        \/ \E c \in Certs : Put(c)
        \/ DeleteAll \/ Step \/ Crash
Spec == Init /\ [][Next]_vars

\* ---- properties
Contiguous == dfirst # None /\ dlatest # None => \A i \in dfirst..dlatest : i \in DOMAIN dcert
Derivable  == dfirst # None => \A i \in dfirst..Next0 : DerivePT(i) # None
\* C10: whenever the process is down and no wipe is pending, the durable state is a store
CrashConsistent == (~open /\ pc = Idle /\ dfirst # None /\ (dtomb => ~WipeResumeWorks)) => ~OpenFails /\ Contiguous /\ Derivable
=============================================================================

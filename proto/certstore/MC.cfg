SPECIFICATION Spec
CONSTANTS
  MaxInst = 4
  F = 2
  First = 1
  Tables = {1, 2}
  WipeResumeWorks = TRUE
INVARIANT CrashConsistent
CHECK_DEADLOCK FALSE

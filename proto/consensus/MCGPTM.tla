---- MODULE MCGPTM ----
EXTENDS GPTM
N == Cfg.n
BC == {Cfg.byz[i] : i \in DOMAIN Cfg.byz}
HC == (1..N) \ BC
PowerC == [p \in 1..N |-> Cfg.power[p]]
ChainsC == {<<0>>, <<0, 1>>, <<0, 1, 2>>, <<0, 3>>}
InputC == [p \in 1..N |-> Cfg.input[p]]
RankC == [p \in 1..N |-> [r \in 0..5 |-> Cfg.rank[p][r + 1]]]
====

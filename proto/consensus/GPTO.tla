---------------------------- MODULE GPTO ----------------------------
EXTENDS Integers, Sequences, FiniteSets, TLC, Json

CONSTANTS H, B, Power, Chains, Input, MaxRound, Rank, Lookahead

P == H \cup B
Bot == << >>
Values == Chains \cup {Bot}
Base(c) == <<c[1]>>
NoJ == [none |-> TRUE]

RECURSIVE SumP(_)
SumP(S) == IF S = {} THEN 0 ELSE LET x == CHOOSE x \in S : TRUE IN Power[x] + SumP(S \ {x})
Total == SumP(P)
DivCeil(a, b) == (a + b - 1) \div b
Strong(pw) == pw >= DivCeil(2 * Total, 3)
Weak(pw) == pw > DivCeil(Total, 3)

IsPrefix(a, b) == Len(a) <= Len(b) /\ SubSeq(b, 1, Len(a)) = a
Phases == {"QUALITY", "CONVERGE", "PREPARE", "COMMIT", "DECIDE"}

VARIABLES phase, round, proposal, value, cands, timedOut, rcv, justs, cself, sent, decided
vars == <<phase, round, proposal, value, cands, timedOut, rcv, justs, cself, sent, decided>>

Msg(s, r, ph, v, j) == [s |-> s, r |-> r, ph |-> ph, v |-> v, j |-> j]
Just(ph, r, v, S) == [ph |-> ph, r |-> r, v |-> v, S |-> S]

HonestVoters(r, ph, v) == {m.s : m \in {x \in sent : x.r = r /\ x.ph = ph /\ x.v = v}}
JustOK(j) == /\ Strong(SumP(j.S))
             /\ (j.S \cap H) \subseteq HonestVoters(j.r, j.ph, j.v)

JustShapeOK(m) ==
  LET j == m.j IN
  CASE m.ph = "QUALITY" -> j = NoJ
    [] m.ph = "PREPARE" /\ m.r = 0 -> j = NoJ
    [] m.ph = "COMMIT" /\ m.v = Bot -> j = NoJ
    [] m.ph \in {"CONVERGE", "PREPARE"} ->
          /\ j # NoJ
          /\ \/ (j.ph = "COMMIT" /\ j.r = m.r - 1 /\ j.v = Bot)
             \/ (j.ph = "PREPARE" /\ j.r = m.r - 1 /\ j.v = m.v)
    [] m.ph = "COMMIT" -> j # NoJ /\ j.ph = "PREPARE" /\ j.r = m.r /\ j.v = m.v
    [] m.ph = "DECIDE" -> j # NoJ /\ j.ph = "COMMIT" /\ j.v = m.v
    [] OTHER -> FALSE

BasicOK(m) ==
  /\ (m.ph = "QUALITY" => m.r = 0 /\ m.v # Bot)
  /\ (m.ph = "CONVERGE" => m.r > 0 /\ m.v # Bot)
  /\ (m.ph = "DECIDE" => m.r = 0 /\ m.v # Bot)

\* The adversary signs with all of B plus any honest voters: maximal signer set suffices
MaxJust(ph, r, v) == Just(ph, r, v, B \cup HonestVoters(r, ph, v))
ByzJusts == {NoJ} \cup {MaxJust(ph, r, v) : ph \in {"PREPARE", "COMMIT"}, r \in 0..MaxRound, v \in Values}
ByzMsgs == {m \in [s : B, r : 0..MaxRound, ph : Phases, v : Values, j : ByzJusts] :
              BasicOK(m) /\ JustShapeOK(m) /\ (m.j # NoJ => JustOK(m.j))}
Net == sent \cup ByzMsgs

\* ---- tallies over a view w = [p, R, J]
Slot(w, r, ph) == {m \in w.R : m.r = r /\ m.ph = ph}
Senders(w, r, ph) == {m.s : m \in Slot(w, r, ph)}
SendersPower(w, r, ph) == SumP(Senders(w, r, ph))
Support(w, r, ph, v) == SumP({m.s : m \in {x \in Slot(w, r, ph) : x.v = v}})
QSupport(w, c) == SumP({m.s : m \in {x \in Slot(w, 0, "QUALITY") : IsPrefix(c, x.v)}})
HasStrong(w, r, ph, v) == Strong(Support(w, r, ph, v))
QHasStrong(w, c) == Len(c) > 1 /\ Strong(QSupport(w, c))
CouldReach(w, r, ph, v, adv) ==
  LET unv == Total - SendersPower(w, r, ph)
      a == IF adv THEN Total \div 3 ELSE 0
      pos == Support(w, r, ph, v) + unv + a
  IN Strong(IF pos > Total THEN Total ELSE pos)
StrongValues(w, r, ph) == {v \in Values : HasStrong(w, r, ph, v)}
LongestQ(w) ==
  LET inp == Input[w.p]
      g2 == {n \in 2..Len(inp) : QHasStrong(w, SubSeq(inp, 1, n))}
  IN IF g2 = {} THEN Base(inp) ELSE SubSeq(inp, 1, CHOOSE n \in g2 : \A k \in g2 : k <= n)

JKey(r, b, v) == <<r, b, v>>
HasJ(w, r, b, jph, v) ==
  IF v = Bot THEN \E k \in DOMAIN w.J : k[1] = r /\ k[2] = b /\ w.J[k].v = Bot /\ w.J[k].ph = jph
  ELSE JKey(r, b, v) \in DOMAIN w.J /\ w.J[JKey(r, b, v)].ph = jph
GetJ(w, r, b, jph, v) ==
  IF v = Bot THEN LET k == CHOOSE k \in DOMAIN w.J : k[1] = r /\ k[2] = b /\ w.J[k].v = Bot /\ w.J[k].ph = jph IN w.J[k]
  ELSE w.J[JKey(r, b, v)]

\* converge store s.cself : function <<r, v>> -> first justification seen for that value (self or received)
ConvVals(w, s, r) == {k[2] : k \in {x \in DOMAIN s.cself : x[1] = r}}
ConvRank(w, r, v) ==
  LET rs == {Rank[m.s][r] : m \in {x \in Slot(w, r, "CONVERGE") : x.v = v}}
  IN IF rs = {} THEN 1000 ELSE CHOOSE x \in rs : \A y \in rs : x <= y
ConvJusts(w, s, r, v) == IF <<r, v>> \in DOMAIN s.cself THEN {s.cself[<<r, v>>]} ELSE {}
ConvHasJ(w, s, r, jph, v) == \E x \in ConvVals(w, s, r) : \E j \in ConvJusts(w, s, r, x) :
                             j.ph = jph /\ (IF v = Bot THEN j.v = Bot ELSE x = v)

Before(u, t) == Power[u] > Power[t] \/ (Power[u] = Power[t] /\ u < t)
MinQuorum(S) == {s \in S : ~Strong(SumP({t \in S : Before(t, s)}))}
BuildJ(w, r, ph, v) == Just(ph, r, v, MinQuorum({m.s : m \in {x \in Slot(w, r, ph) : x.v = v}}))

Init ==
  /\ phase = [p \in H |-> "INITIAL"]
  /\ round = [p \in H |-> 0]
  /\ proposal = [p \in H |-> Input[p]]
  /\ value = [p \in H |-> Bot]
  /\ cands = [p \in H |-> {Base(Input[p])}]
  /\ timedOut = [p \in H |-> FALSE]
  /\ rcv = [p \in H |-> {}]
  /\ justs = [p \in H |-> << >>]
  /\ cself = [p \in H |-> << >>]
  /\ sent = {}
  /\ decided = [p \in H |-> Bot]

LS(p) == [phase |-> phase[p], round |-> round[p], proposal |-> proposal[p], value |-> value[p],
          cands |-> cands[p], timedOut |-> timedOut[p], cself |-> cself[p], out |-> {}, decided |-> decided[p]]

AddCandPrefixes(cs, c) == cs \cup {SubSeq(c, 1, n) : n \in 2..Len(c)}
Out(r, ph, v, j) == [r |-> r, ph |-> ph, v |-> v, j |-> j]

BeginPrepare(s, r, v, j) == [s EXCEPT !.phase = "PREPARE", !.timedOut = FALSE, !.value = v,
                              !.out = @ \cup {Out(r, "PREPARE", v, j)}]

TryQuality(w, s) ==
  IF QHasStrong(w, s.proposal) \/ s.timedOut
  THEN LET np == LongestQ(w)
           s1 == [s EXCEPT !.proposal = np, !.cands = AddCandPrefixes(@, np)]
       IN BeginPrepare(s1, 0, np, NoJ)
  ELSE s

BeginCommit(w, s) ==
  LET r == s.round
      v == s.value
      j == IF v = Bot THEN NoJ
           ELSE IF HasStrong(w, r, "PREPARE", v) THEN BuildJ(w, r, "PREPARE", v)
           ELSE IF HasJ(w, r, "COMMIT", "PREPARE", v) THEN GetJ(w, r, "COMMIT", "PREPARE", v)
           ELSE IF HasJ(w, r + 1, "PREPARE", "PREPARE", v) THEN GetJ(w, r + 1, "PREPARE", "PREPARE", v)
           ELSE CHOOSE jj \in {x \in ConvJusts(w, s, r + 1, v) : x.ph = "PREPARE"} : TRUE
  IN [s EXCEPT !.phase = "COMMIT", !.timedOut = FALSE, !.out = @ \cup {Out(r, "COMMIT", v, j)}]

TryPrepare(w, s) ==
  LET r == s.round
      pv == s.proposal
      fq == HasStrong(w, r, "PREPARE", pv)
      np == ~CouldReach(w, r, "PREPARE", pv, FALSE)
      pc == s.timedOut /\ Strong(SendersPower(w, r, "PREPARE"))
      fj == HasJ(w, r, "COMMIT", "PREPARE", pv) \/ HasJ(w, r + 1, "PREPARE", "PREPARE", pv)
            \/ ConvHasJ(w, s, r + 1, "PREPARE", pv)
  IN IF fq \/ fj THEN BeginCommit(w, [s EXCEPT !.value = pv])
     ELSE IF np \/ pc THEN BeginCommit(w, [s EXCEPT !.value = Bot])
     ELSE s

BeginConverge(w, s, j) ==
  LET r == s.round IN
  [s EXCEPT !.phase = "CONVERGE", !.timedOut = FALSE,
            !.cself = IF <<r, s.proposal>> \in DOMAIN @ THEN @ ELSE (<<r, s.proposal>> :> j) @@ @,
            !.out = @ \cup {Out(r, "CONVERGE", s.proposal, j)}]

BeginNextRound(w, s) ==
  LET r == s.round
      s1 == [s EXCEPT !.round = r + 1]
      js == IF HasStrong(w, r, "COMMIT", Bot) THEN {BuildJ(w, r, "COMMIT", Bot)}
            ELSE IF HasJ(w, r + 1, "PREPARE", "COMMIT", Bot) THEN {GetJ(w, r + 1, "PREPARE", "COMMIT", Bot)}
            ELSE IF ConvHasJ(w, s, r + 1, "COMMIT", Bot) THEN
                   {j \in UNION {ConvJusts(w, s, r + 1, x) : x \in ConvVals(w, s, r + 1)} : j.ph = "COMMIT" /\ j.v = Bot}
            ELSE {w.J[JKey(r, "COMMIT", s.proposal)]}
  IN {BeginConverge(w, s1, j) : j \in js}

BeginDecide(w, s, r) ==
  [s EXCEPT !.phase = "DECIDE", !.timedOut = FALSE,
            !.out = @ \cup {Out(0, "DECIDE", s.value, BuildJ(w, r, "COMMIT", s.value))}]

TryCommit(w, s, r) ==
  LET sv == StrongValues(w, r, "COMMIT")
      nz == sv \ {Bot}
      pc == s.timedOut /\ Strong(SendersPower(w, r, "COMMIT"))
      fjb == HasJ(w, r + 1, "PREPARE", "COMMIT", Bot) \/ ConvHasJ(w, s, r + 1, "COMMIT", Bot)
  IN IF nz # {} THEN {BeginDecide(w, [s EXCEPT !.value = CHOOSE v \in nz : TRUE], r)}
     ELSE IF s.round # r \/ s.phase # "COMMIT" THEN {s}
     ELSE IF Bot \in sv \/ fjb THEN BeginNextRound(w, s)
     ELSE IF pc THEN
        LET vals == {m.v : m \in Slot(w, r, "COMMIT")} \ {Bot}
        IN IF vals = {} THEN BeginNextRound(w, s)
           ELSE UNION {BeginNextRound(w, [s EXCEPT !.cands = @ \cup {v}, !.proposal = v]) : v \in vals}
     ELSE {s}

TryConverge(w, s) ==
  IF ~s.timedOut THEN {s}
  ELSE
  LET r == s.round
      wp == [w EXCEPT !.R = w.R]
      ok(v, j) == v \in s.cands \/ (j.ph = "PREPARE" /\ CouldReach(w, r - 1, "COMMIT", v, TRUE))
      opts == UNION {{<<v, j>> : j \in {x \in ConvJusts(w, s, r, v) : ok(v, x)}} : v \in ConvVals(w, s, r)}
      ranks == {ConvRank(w, r, o[1]) : o \in opts}
      bestRank == CHOOSE x \in ranks : \A y \in ranks : x <= y
      winners == {o \in opts : ConvRank(w, r, o[1]) = bestRank}
  IN {BeginPrepare([s EXCEPT !.cands = @ \cup {o[1]}, !.proposal = o[1]], r, o[1], o[2]) : o \in winners}

TryDecide(w, s) ==
  LET sv == StrongValues(w, 0, "DECIDE")
  IN IF sv # {} THEN [s EXCEPT !.phase = "TERMINATED", !.decided = CHOOSE v \in sv : TRUE] ELSE s

TryCurrent(w, s) ==
  CASE s.phase = "QUALITY" -> {TryQuality(w, s)}
    [] s.phase = "CONVERGE" -> TryConverge(w, s)
    [] s.phase = "PREPARE" -> {TryPrepare(w, s)}
    [] s.phase = "COMMIT" -> TryCommit(w, s, s.round)
    [] s.phase = "DECIDE" -> {TryDecide(w, s)}
    [] OTHER -> {s}

Commit(p, s) ==
  /\ phase' = [phase EXCEPT ![p] = s.phase]
  /\ round' = [round EXCEPT ![p] = s.round]
  /\ proposal' = [proposal EXCEPT ![p] = s.proposal]
  /\ value' = [value EXCEPT ![p] = s.value]
  /\ cands' = [cands EXCEPT ![p] = s.cands]
  /\ timedOut' = [timedOut EXCEPT ![p] = s.timedOut]
  /\ cself' = [cself EXCEPT ![p] = s.cself]
  /\ decided' = [decided EXCEPT ![p] = s.decided]
  /\ sent' = sent \cup {Msg(p, o.r, o.ph, o.v, o.j) : o \in s.out}

Start(p) ==
  /\ phase[p] = "INITIAL"
  /\ Commit(p, [LS(p) EXCEPT !.phase = "QUALITY", !.out = {Out(0, "QUALITY", Input[p], NoJ)}])
  /\ UNCHANGED <<rcv, justs>>

Relevant(p, m) ==
  /\ phase[p] \notin {"INITIAL", "TERMINATED"}
  /\ (phase[p] = "DECIDE" => m.ph = "DECIDE")
  /\ (m.ph \in {"QUALITY", "DECIDE"} \/ m.r >= round[p] \/ m.r + 1 = round[p])
  /\ m.r <= MaxRound
Ignored(p, m) ==
  \/ (m.r < round[p] /\ m.ph \in {"CONVERGE", "PREPARE"})
  \/ (m.r > round[p] + Lookahead /\ m.j = NoJ /\ m.r > 0)

SkipTo(w, s, r) ==
  IF r > s.round /\ s.phase \notin {"DECIDE", "TERMINATED"} /\ Weak(SendersPower(w, r, "PREPARE"))
  THEN LET cv == Slot(w, r, "CONVERGE")
       IN IF cv = {} THEN {s}
          ELSE LET rk == {Rank[m.s][r] : m \in cv}
                   br == CHOOSE x \in rk : \A y \in rk : x <= y
                   x == CHOOSE m \in cv : Rank[m.s][r] = br
                   s1 == [s EXCEPT !.round = r]
                   xj == s.cself[<<r, x.v>>]
                   s2 == IF xj.ph = "PREPARE" THEN [s1 EXCEPT !.cands = @ \cup {x.v}, !.proposal = x.v] ELSE s1
               IN {BeginConverge(w, s2, xj)}
  ELSE {s}

Receive(p, m, to) ==
  /\ Relevant(p, m)
  /\ ~Ignored(p, m)
  /\ (IF m.v = Bot THEN TRUE ELSE Base(m.v) = Base(Input[p]))
  /\ LET slotFree == m.s \notin {x.s : x \in {y \in rcv[p] : y.r = m.r /\ y.ph = m.ph}}
         addJ == /\ m.ph \in {"PREPARE", "COMMIT"} /\ m.j # NoJ
                 /\ JKey(m.r, m.ph, m.v) \notin DOMAIN justs[p]
         R1 == IF slotFree THEN rcv[p] \cup {m} ELSE rcv[p]
         J1 == IF addJ THEN (JKey(m.r, m.ph, m.v) :> m.j) @@ justs[p] ELSE justs[p]
         w == [p |-> p, R |-> R1, J |-> J1]
         s0 == [LS(p) EXCEPT !.timedOut = @ \/ to,
                             !.cself = IF m.ph = "CONVERGE" /\ slotFree /\ <<m.r, m.v>> \notin DOMAIN @
                                       THEN (<<m.r, m.v>> :> m.j) @@ @ ELSE @]
     IN /\ TRUE
        /\ rcv' = [rcv EXCEPT ![p] = R1]
        /\ justs' = [justs EXCEPT ![p] = J1]
        /\ \E s1 \in (CASE m.ph = "QUALITY" ->
                       IF s0.phase # "QUALITY" THEN {[s0 EXCEPT !.cands = AddCandPrefixes(@, LongestQ(w))]} ELSE TryCurrent(w, s0)
                  [] m.ph = "COMMIT" ->
                       IF s0.phase # "DECIDE"
                       THEN UNION {IF sa.phase = "PREPARE" /\ sa.round = m.r /\ m.v # Bot THEN TryCurrent(w, sa) ELSE {sa} : sa \in TryCommit(w, s0, m.r)}
                       ELSE TryCurrent(w, s0)
                  [] m.ph = "DECIDE" ->
                       IF s0.phase # "DECIDE"
                       THEN TryCurrent(w, [s0 EXCEPT !.phase = "DECIDE", !.proposal = m.v, !.value = m.v, !.timedOut = FALSE,
                                                     !.out = @ \cup {Out(0, "DECIDE", m.v, m.j)}])
                       ELSE TryCurrent(w, s0)
                  [] OTHER -> TryCurrent(w, s0)) :
             \E s2 \in SkipTo(w, s1, m.r) : Commit(p, s2)

Alarm(p, to) ==
  /\ phase[p] \in {"QUALITY", "CONVERGE", "PREPARE", "COMMIT", "DECIDE"}
  /\ \E s1 \in TryCurrent([p |-> p, R |-> rcv[p], J |-> justs[p]], [LS(p) EXCEPT !.timedOut = @ \/ to]) : Commit(p, s1)
  /\ UNCHANGED <<rcv, justs>>

Next == \E p \in H : Start(p) \/ (\E to \in BOOLEAN : Alarm(p, to)) \/ \E m \in Net : \E to \in BOOLEAN : Receive(p, m, to)

Spec == Init /\ [][Next]_vars

Agreement == \A p, q \in H : decided[p] # Bot /\ decided[q] # Bot => decided[p] = decided[q]
Validity == \A p \in H : decided[p] # Bot => \E q \in H : IsPrefix(decided[p], Input[q])

\* ---------------- trace binding
Trace == ndJsonDeserialize("trace.ndjson")
Cfg == Trace[1]
VARIABLES l, dlv, outs, bad
tvars == <<vars, l, dlv, outs, bad>>
Range(f) == {f[i] : i \in DOMAIN f}
ToJ(j) == IF "none" \in DOMAIN j THEN NoJ ELSE [ph |-> j.ph, r |-> j.r, v |-> j.v, S |-> Range(j.S)]
ToM(m) == [s |-> m.s, r |-> m.r, ph |-> m.ph, v |-> m.v, j |-> ToJ(m.j)]
Ev == Trace[l]
IsEvent(e) == l <= Len(Trace) /\ Ev.ev = e /\ l' = l + 1
Post(n) ==
  /\ phase'[n] = Ev.phase
  /\ (Ev.phase = "TERMINATED" \/ round'[n] = Ev.round)
  /\ decided'[n] = Ev.dec
  /\ (sent' \ sent) \subseteq {ToM(o) : o \in Range(Ev.out)}
  /\ {ToM(o) : o \in Range(Ev.out)} \subseteq sent'
\* ---- C07 monitors over the observation history (independent of the spec's own guards)
FirstPerSender(seq, r, ph) ==
  \* set of messages in seq for slot (r, ph), keeping the earliest per sender
  {seq[i] : i \in {k \in DOMAIN seq : seq[k].r = r /\ seq[k].ph = ph /\ \A k2 \in 1..(k - 1) : ~(seq[k2].r = r /\ seq[k2].ph = ph /\ seq[k2].s = seq[k].s)}}
MSup(ms, v) == SumP({m.s : m \in {x \in ms : x.v = v}})
MQSup(ms, c) == SumP({m.s : m \in {x \in ms : IsPrefix(c, x.v)}})
MLongestQ(ms, inp) ==
  LET g == {n \in 2..Len(inp) : Strong(MQSup(ms, SubSeq(inp, 1, n)))}
  IN IF g = {} THEN <<inp[1]>> ELSE SubSeq(inp, 1, CHOOSE n \in g : \A k \in g : k <= n)
MCouldReach(ms, v) == Strong(MSup(ms, v) + (Total - SumP({m.s : m \in ms})))
OwnOut(n, r, ph) == {o \in outs[n] : o.r = r /\ o.ph = ph}
\* checks for one new output o of participant n, given the deliveries d (including the current event's message)
Clause1(n, o) == \A x \in outs[n] : ~(x.r = o.r /\ x.ph = o.ph)
Clause5(n, o, d) == (o.ph = "PREPARE" /\ o.r = 0) => o.v = MLongestQ(FirstPerSender(d, 0, "QUALITY"), Input[n])
Clause6(n, o, d) ==
  (o.ph = "PREPARE" /\ o.r > 0 /\ OwnOut(n, 0, "PREPARE") # {}) =>
     LET q == (CHOOSE x \in OwnOut(n, 0, "PREPARE") : TRUE).v
         cv == FirstPerSender(d, o.r, "CONVERGE")
     IN cv # {} =>
        LET best == CHOOSE m \in cv : \A m2 \in cv : Rank[m.s][o.r] <= Rank[m2.s][o.r]
        IN IsPrefix(best.v, q) => o.v = best.v
Clause7(n, o, d, to) ==
  (o.ph = "COMMIT" /\ o.v = Bot /\ OwnOut(n, o.r, "PREPARE") # {}) =>
     LET pv == (CHOOSE x \in OwnOut(n, o.r, "PREPARE") : TRUE).v
         pm == FirstPerSender(d, o.r, "PREPARE")
     IN /\ ~Strong(MSup(pm, pv))
        /\ (~to => ~MCouldReach(pm, pv))
Clause8(n, o, d) ==
  (o.v # Bot /\ ~IsPrefix(o.v, Input[n])) =>
     \/ (o.j # NoJ /\ o.j.v = o.v)
     \/ \E i \in DOMAIN d : d[i].j # NoJ /\ d[i].j.v = o.v
Monitors(n, o, d, to) ==
  <<Clause1(n, o), Clause5(n, o, d), Clause6(n, o, d), Clause7(n, o, d, to), Clause8(n, o, d)>>
Failing(n, os, d, to) == {<<c, o>> \in (1..5) \X os : ~Monitors(n, o, d, to)[c]}
Hist(n) ==
  LET d == IF Ev.ev = "Receive" THEN Append(dlv[n], ToM(Ev.m)) ELSE dlv[n]
      os == {[r |-> x.r, ph |-> x.ph, v |-> x.v, j |-> x.j] : x \in {ToM(o) : o \in Range(Ev.out)}}
  IN /\ dlv' = [dlv EXCEPT ![n] = d]
     /\ outs' = [outs EXCEPT ![n] = @ \cup os]
     /\ bad' = bad \cup {<<l, f[1], f[2].ph, f[2].r>> : f \in Failing(n, os, d, Ev.to)}
NoMonitorFailure == bad = {}
TInit == Init /\ l = 2 /\ dlv = [p \in H |-> <<>>] /\ outs = [p \in H |-> {}] /\ bad = {}
TStart == IsEvent("Start") /\ Start(Ev.n) /\ Post(Ev.n) /\ Hist(Ev.n)
TAlarm == IsEvent("Alarm") /\ Alarm(Ev.n, Ev.to) /\ Post(Ev.n) /\ Hist(Ev.n)
ByzValid(m) == BasicOK(m) /\ JustShapeOK(m) /\ (m.j # NoJ => JustOK(m.j))
TReceive == /\ IsEvent("Receive")
            /\ (ToM(Ev.m).s \in B => ByzValid(ToM(Ev.m)))
            /\ IF Relevant(Ev.n, ToM(Ev.m)) /\ Ignored(Ev.n, ToM(Ev.m))
               THEN UNCHANGED vars
               ELSE Receive(Ev.n, ToM(Ev.m), Ev.to)
            /\ Post(Ev.n) /\ Hist(Ev.n)
OStep == l <= Len(Trace) /\ Ev.ev \in {"Start", "Alarm", "Receive"} /\ l' = l + 1 /\ Hist(Ev.n) /\ UNCHANGED vars
TNext == OStep
TSpec == TInit /\ [][TNext]_tvars
Accepted == TLCGet("stats").diameter = Len(Trace)
NotDone == l <= Len(Trace)
=============================================================================

---- MODULE MCGPMI ----
EXTENDS GPMI
N == Cfg.n
BC == {Cfg.byz[i] : i \in DOMAIN Cfg.byz}
HC == (1..N) \ BC
PowerC == [p \in 1..N |-> Cfg.power[p]]
ChainsC == {<<0>>}
InputC == [p \in 1..N |-> <<0>>]
RankC == [p \in 1..N |-> [k \in 0..1 |-> [r \in 0..5 |-> Cfg.rank[p][k + 1][r + 1]]]]
====

SPECIFICATION TSpec
CONSTANTS
  H <- HC
  B <- BC
  Power <- PowerC
  Chains <- ChainsC
  Input <- InputC
  MaxRound = 5
  Rank <- RankC
  Lookahead = 0
INVARIANT Agreement
POSTCONDITION Accepted
CHECK_DEADLOCK FALSE

SPECIFICATION Spec
CONSTANTS
  H = {1, 2, 3}
  B = {4}
  Power <- PowerC
  Chains <- ChainsC
  Input <- InputC
  MaxRound = 1
  Rank <- RankC
  Strong <- StrongMaj
INVARIANT Agreement
CHECK_DEADLOCK FALSE

---- MODULE MCGQ3m ----
EXTENDS GQ3
PowerC == [p \in {1,2,3,4} |-> 16383]
ChainsC == {<<0>>, <<0, 1>>, <<0, 2>>}
InputC == (1 :> <<0, 1>>) @@ (2 :> <<0, 1>>) @@ (3 :> <<0, 2>>)
RankC == [p \in {1,2,3,4} |-> [r \in 0..3 |-> p]]
StrongMaj(pw) == 2 * pw >= SumP(H \cup B)
PowerBig == (1 :> 16383) @@ (2 :> 16383) @@ (3 :> 16383) @@ (4 :> 24575)
====

SPECIFICATION Spec
CONSTANTS
  H = {1, 2, 3}
  B = {4}
  Power <- PowerC
  Chains <- ChainsC
  Input <- InputC
  MaxRound = 1
  Rank <- RankC
INVARIANT Agreement
INVARIANT Validity
INVARIANT OneVotePerSlot
CHECK_DEADLOCK FALSE

---------------------------- MODULE WAL ----------------------------
\* Prototype of internal/writeaheadlog: files, rotation, purge, crash with torn tail, reopen.
EXTENDS Integers, Sequences, FiniteSets, TLC
CONSTANTS MaxAppends, Epochs, RotateAt    \* RotateAt: number of entries after which the active file is rotated (size abstraction)
VARIABLES files,     \* sequence of closed files as seen on disk: each [ents: Seq(entry), torn: BOOLEAN]
          active,    \* <<>> (no active file) or <<[ents, torn]>>
          stats,     \* in-memory logFiles: sequence of [idx (position in files), maxEpoch]
          acked,     \* set of entries acknowledged to the caller (entry = [id, epoch])
          purged,    \* set of entries removed by purge
          nextId, up
vars == <<files, active, stats, acked, purged, nextId, up>>

MaxEp(es) == IF es = <<>> THEN 0 ELSE LET S == {es[i].epoch : i \in DOMAIN es} IN CHOOSE m \in S : \A x \in S : x <= m
Init == files = <<>> /\ active = <<>> /\ stats = <<>> /\ acked = {} /\ purged = {} /\ nextId = 1 /\ up = TRUE

Flush ==   \* close the active file, remember its stats
  IF active = <<>> THEN <<files, stats>>
  ELSE <<Append(files, active[1]), Append(stats, [idx |-> Len(files) + 1, maxEpoch |-> MaxEp(active[1].ents)])>>

AppendEntry(e) ==
  /\ up /\ nextId <= MaxAppends
  /\ LET rot == active = <<>> \/ Len(active[1].ents) > RotateAt
         fl == IF rot THEN Flush ELSE <<files, stats>>
         cur == IF rot THEN [ents |-> <<>>, torn |-> FALSE] ELSE active[1]
         ent == [id |-> nextId, epoch |-> e]
     IN /\ files' = fl[1] /\ stats' = fl[2]
        /\ active' = <<[cur EXCEPT !.ents = Append(@, ent)]>>
        /\ acked' = acked \cup {ent}
  /\ nextId' = nextId + 1
  /\ UNCHANGED <<purged, up>>

\* the process dies while appending: the entry is never acknowledged, a torn fragment may remain in the active file
CrashDuringAppend(e) ==
  /\ up /\ nextId <= MaxAppends /\ active # <<>>
  /\ files' = Append(files, [active[1] EXCEPT !.torn = TRUE])
  /\ active' = <<>> /\ stats' = <<>> /\ up' = FALSE /\ nextId' = nextId + 1
  /\ UNCHANGED <<acked, purged>>

Crash == /\ up /\ up' = FALSE /\ stats' = <<>>
         /\ files' = (IF active = <<>> THEN files ELSE Append(files, active[1])) /\ active' = <<>>
         /\ UNCHANGED <<acked, purged, nextId>>

Close == /\ up /\ LET fl == Flush IN files' = fl[1] /\ stats' = fl[2]
         /\ active' = <<>> /\ UNCHANGED <<acked, purged, nextId, up>>

Open ==  \* hydrate: every file on disk becomes a closed file, readable up to the first undecodable record
  /\ ~up /\ up' = TRUE /\ active' = <<>>
  /\ stats' = [i \in 1..Len(files) |-> [idx |-> i, maxEpoch |-> MaxEp(files[i].ents)]]
  /\ UNCHANGED <<files, acked, purged, nextId>>

Purge(k) ==
  /\ up
  /\ LET dead == {i \in 1..Len(stats) : stats[i].maxEpoch < k}
         deadIdx == {stats[i].idx : i \in dead}
         gone == UNION {{files[j].ents[n] : n \in DOMAIN files[j].ents} : j \in deadIdx}
         keepF == [j \in 1..Len(files) |-> IF j \in deadIdx THEN [ents |-> <<>>, torn |-> FALSE] ELSE files[j]]
     IN /\ files' = keepF     \* a removed file is modelled as an empty one (keeps indices stable)
        /\ stats' = SelectSeq(stats, LAMBDA s : s.maxEpoch >= k)
        /\ purged' = purged \cup gone
  /\ UNCHANGED <<active, acked, nextId, up>>

Next == (\E e \in Epochs : AppendEntry(e) \/ CrashDuringAppend(e)) \/ Crash \/ Close \/ Open \/ (\E k \in Epochs : Purge(k))
Spec == Init /\ [][Next]_vars

\* what All() returns while up
RECURSIVE Flat(_)
Flat(fs) == IF fs = <<>> THEN <<>> ELSE Head(fs).ents \o Flat(Tail(fs))
All == Flat([i \in 1..Len(stats) |-> files[stats[i].idx]]) \o (IF active = <<>> THEN <<>> ELSE active[1].ents)
AllSet == {All[i] : i \in DOMAIN All}
Durable == up => (acked \ purged) \subseteq AllSet
NoPhantom == up => AllSet \subseteq acked
PurgeConservative == \A e \in purged : \E k \in Epochs : e.epoch < k   \* refined below by the action property
PurgeSafe == [][\A k \in Epochs : Purge(k) => \A e \in purged' \ purged : e.epoch < k]_vars
=============================================================================

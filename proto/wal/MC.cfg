SPECIFICATION Spec
CONSTANTS
  MaxAppends = 5
  Epochs = {0, 1, 2}
  RotateAt = 1
INVARIANT Durable
INVARIANT NoPhantom
PROPERTY PurgeSafe
CHECK_DEADLOCK FALSE

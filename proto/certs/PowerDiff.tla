---------------------------- MODULE PowerDiff ----------------------------
\* Prototype: power tables as functions id -> [p, k] (p > 0), deltas as sequences of [id, dp, k].
EXTENDS Integers, Sequences, FiniteSets, TLC
CONSTANTS Ids, MaxP, Keys
NoKey == 0
Entry == [p : 1..MaxP, k : Keys]
Tables == UNION {[S -> Entry] : S \in SUBSET Ids}
Delta == [id : Ids, dp : (-MaxP)..MaxP, k : Keys \cup {NoKey}]

\* certs.MakePowerTableDiff, result sorted by id
RECURSIVE SortedIds(_)
SortedIds(S) == IF S = {} THEN <<>> ELSE LET m == CHOOSE x \in S : \A y \in S : x <= y IN <<m>> \o SortedIds(S \ {m})
DeltaFor(a, b, i) ==
  IF i \in DOMAIN a /\ i \in DOMAIN b THEN [id |-> i, dp |-> b[i].p - a[i].p, k |-> IF b[i].k = a[i].k THEN NoKey ELSE b[i].k]
  ELSE IF i \in DOMAIN b THEN [id |-> i, dp |-> b[i].p, k |-> b[i].k]
  ELSE [id |-> i, dp |-> 0 - a[i].p, k |-> NoKey]
IsZero(d) == d.dp = 0 /\ d.k = NoKey
Make(a, b) == LET ch == {i \in DOMAIN a \cup DOMAIN b : ~IsZero(DeltaFor(a, b, i))}
                  ids == SortedIds(ch)
              IN [n \in 1..Len(ids) |-> DeltaFor(a, b, ids[n])]

\* certs.ApplyPowerTableDiffsToMap for one diff; returns "err" or a table
Err == (0 :> [p |-> 0, k |-> 0])
RECURSIVE ApplyFrom(_, _, _, _)
ApplyFrom(t, d, n, last) ==
  IF n > Len(d) THEN t
  ELSE LET e == d[n] IN
    IF n > 1 /\ e.id <= last THEN Err
    ELSE IF IsZero(e) THEN Err
    ELSE IF e.id \in DOMAIN t THEN
       LET pe == t[e.id] IN
       IF e.k = pe.k THEN Err
       ELSE LET np == pe.p + e.dp IN
            IF e.k # NoKey /\ np = 0 THEN Err
            ELSE IF np < 0 THEN Err
            ELSE IF np = 0 THEN ApplyFrom([i \in DOMAIN t \ {e.id} |-> t[i]], d, n + 1, e.id)
            ELSE ApplyFrom([t EXCEPT ![e.id] = [p |-> np, k |-> IF e.k # NoKey THEN e.k ELSE pe.k]], d, n + 1, e.id)
    ELSE IF e.dp <= 0 THEN Err
         ELSE IF e.k = NoKey THEN Err
         ELSE ApplyFrom((e.id :> [p |-> e.dp, k |-> e.k]) @@ t, d, n + 1, e.id)
Apply(t, d) == ApplyFrom(t, d, 1, 0)

InRange(t) == t = Err \/ \A i \in DOMAIN t : t[i].p <= MaxP
\* properties, checked by evaluation over the whole domain
RoundTrip == \A a \in Tables : \A b \in Tables : Apply(a, Make(a, b)) = b
Deltas(n) == UNION {[1..m -> Delta] : m \in 0..n}
Unique == \A a \in Tables : \A d \in Deltas(2) :
            LET r == Apply(a, d) IN (r # Err /\ InRange(r)) => d = Make(a, r)
ASSUME PrintT(<<"tables", Cardinality(Tables)>>)
ASSUME PrintT(<<"roundtrip", RoundTrip>>)
ASSUME PrintT(<<"unique", Unique>>)
=============================================================================

CONSTANTS
  Ids = {1, 2, 3}
  MaxP = 2
  Keys = {1, 2}

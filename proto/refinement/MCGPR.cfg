SPECIFICATION Spec
CONSTANTS
  H = {1, 2, 3}
  B = {4}
  Power <- PowerC
  Chains <- ChainsC
  Input <- InputC
  MaxRound = 1
  Rank <- RankC
  Lookahead = 0
INVARIANT Agreement
PROPERTY Refines1
CHECK_DEADLOCK FALSE

SPECIFICATION Spec
CONSTANTS
  Chains <- ChainsC
  CapW = 2
  CapD = 2
  DiscoveredPeeksWanted = TRUE
INVARIANT WantedRetained
INVARIANT NeverPhantom
CHECK_DEADLOCK FALSE

---------------------------- MODULE ChainExchange ----------------------------
\* Prototype: one instance, two LRU caches with hashicorp/golang-lru recency semantics.
\* A cache is a sequence of <<key, val>> pairs, most recent first. val = "ph" (placeholder) or "c" (chain).
EXTENDS Integers, Sequences, FiniteSets, TLC
CONSTANTS Chains,        \* set of chains (sequences); keys are the chains themselves (injective key)
          CapW, CapD,
          DiscoveredPeeksWanted   \* TRUE: documented intent; FALSE: cacheAsDiscoveredChain peeks the discovered cache (as the code does)
VARIABLES wanted, disc, asked, admitted, lastLookup, ata
vars == <<wanted, disc, asked, admitted, lastLookup, ata>>

Prefixes(c) == {SubSeq(c, 1, n) : n \in 1..Len(c)}
Keys(q) == {q[i][1] : i \in DOMAIN q}
Idx(q, k) == CHOOSE i \in DOMAIN q : q[i][1] = k
Val(q, k) == q[Idx(q, k)][2]
Remove(q, k) == IF k \in Keys(q) THEN SubSeq(q, 1, Idx(q, k) - 1) \o SubSeq(q, Idx(q, k) + 1, Len(q)) ELSE q
Trim(q, cap) == IF Len(q) > cap THEN SubSeq(q, 1, cap) ELSE q
Add(q, k, v, cap) == Trim(<<<<k, v>>>> \o Remove(q, k), cap)            \* insert/update, move to front, evict oldest
Touch(q, k) == <<q[Idx(q, k)]>> \o Remove(q, k)                            \* Get
ContainsOrAdd(q, k, v, cap) == IF k \in Keys(q) THEN q ELSE Add(q, k, v, cap)   \* no recency update when present

Init == wanted = <<>> /\ disc = <<>> /\ asked = {} /\ admitted = {} /\ lastLookup = <<"none">> /\ ata = {}

Lookup(k) ==
  /\ asked' = asked \cup {k}
  /\ IF k \in Keys(wanted) /\ Val(wanted, k) = "c"
     THEN wanted' = Touch(wanted, k) /\ disc' = disc /\ lastLookup' = <<"found", k>>
     ELSE LET w1 == IF k \in Keys(wanted) THEN Touch(wanted, k) ELSE wanted IN
          IF k \in Keys(disc)
          THEN wanted' = Add(w1, k, "c", CapW) /\ disc' = Remove(disc, k) /\ lastLookup' = <<"found", k>>
          ELSE wanted' = ContainsOrAdd(w1, k, "ph", CapW) /\ disc' = disc /\ lastLookup' = <<"missing", k>>
  /\ UNCHANGED <<admitted, ata>>

\* remote chain admitted by the validator: cacheAsDiscoveredChain over all prefixes, longest first
RECURSIVE Discover(_, _, _)
Discover(w, d, ps) ==
  IF ps = <<>> THEN <<w, d>>
  ELSE LET k == Head(ps)
           peekIn == IF DiscoveredPeeksWanted THEN w ELSE d
       IN IF k \notin Keys(peekIn)
          THEN Discover(w, ContainsOrAdd(d, k, "c", CapD), Tail(ps))
          ELSE IF Val(peekIn, k) = "ph"
               THEN (IF DiscoveredPeeksWanted THEN Discover(Add(w, k, "c", CapW), d, Tail(ps))
                     ELSE Discover(w, Add(d, k, "c", CapD), Tail(ps)))
               ELSE Discover(w, d, Tail(ps))
PrefixSeqDesc(c) == [n \in 1..Len(c) |-> SubSeq(c, 1, Len(c) - n + 1)]
RemoteAdmit(c) ==
  /\ LET r == Discover(wanted, disc, PrefixSeqDesc(c)) IN wanted' = r[1] /\ disc' = r[2]
  /\ admitted' = admitted \cup Prefixes(c)
  /\ ata' = ata \cup (Prefixes(c) \cap asked)
  /\ UNCHANGED <<asked, lastLookup>>

Next == (\E k \in UNION {Prefixes(c) : c \in Chains} : Lookup(k)) \/ (\E c \in Chains : RemoteAdmit(c))
Spec == Init /\ [][Next]_vars

\* C18: a chain that was asked for and has been admitted is retrievable as long as no more than CapW keys were ever asked for
Stored(k) == (k \in Keys(wanted) /\ Val(wanted, k) = "c") \/ k \in Keys(disc)
WantedRetained == Cardinality(asked) <= CapW => \A k \in ata : Stored(k)
NeverPhantom == lastLookup[1] = "found" => lastLookup[2] \in admitted
=============================================================================

SPECIFICATION Spec
CONSTANTS
  Chains <- ChainsC
  CapW = 2
  CapD = 2
  DiscoveredPeeksWanted = FALSE
INVARIANT WantedRetained
INVARIANT NeverPhantom
CHECK_DEADLOCK FALSE

---- MODULE MC ----
EXTENDS ChainExchange
ChainsC == {<<0, 1>>, <<0, 2>>, <<0, 3>>, <<0, 1, 4>>}
====

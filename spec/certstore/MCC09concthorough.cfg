SPECIFICATION MCCSpec
CONSTANTS
  DefaultF = 2
  ResumeWipe = TRUE
  DrainFirst = TRUE
  LatestLast = TRUE
  Firsts = {0}
  MaxLen = 3
  SubIds = {1, 2}
  Rich = FALSE
  CrashPoints = FALSE
  Readers = {r1, r2}
  MaxOps = 2
  MaxPuts = 3
  CFirst = 1
  CF = 2
  Wide = TRUE
  AtomicPT = TRUE
  AtomicPut = TRUE
  NotifyAfterStore = TRUE
  DrainThenSend = TRUE
  AtomicSubscribe = TRUE
INVARIANTS CountersBracket BracketSound Linearizable LinAdmissible WritersNeverBlock QuiescentSubsSeeLatest LiveIsHistory TablesProper
SYMMETRY Sym
CHECK_DEADLOCK FALSE

------------------------------ MODULE Snapshot ------------------------------
(* certstore/snapshot.go as functions: Export (Store.ExportSnapshot) and Import
   (importSnapshotToDatastoreWithTestingPowerTableFrequency) over abstract snapshots.

   power table   : sequence of NP naturals (power of participant 1..NP; 0 = absent).  The CID of a table
                   is the table itself (MakePowerTableCID is injective on canonical tables).
   delta         : sequence of NP integers (change of power; 0 = participant not listed in the diff)
   certificate   : [inst, delta, commit]   commit = SupplementalData.PowerTable, the table the signers
                   committed to for the next instance
   store         : [first, init, certs]    certs[j] is the certificate of instance first + j - 1
   snapshot      : [first, latest, init,   the header block
                    blocks,                the certificate blocks that are completely present
                    hdrTorn, torn]         hdrTorn: the bytes end inside the header block;
                                           torn: what follows the last complete certificate block:
                                             ""    nothing (the bytes end at a block boundary)
                                             "len" a complete length prefix and not one byte of the block
                                             "mid" anything else (inside the length prefix / inside the block)
   manifest      : [on, first, hasTable, table]

   Import is written the way the code runs (one pass over the blocks, checks in the code's order);
   Valid is the property's declarative list of reasons to reject.  The design check shows that they
   agree on every snapshot of a bounded space and that Import o Export is the identity up to the
   export end point.  Named deviations (all TRUE in the intended design) let TLC demonstrate that each
   check is necessary.                                                                             *)
EXTENDS Integers, Sequences, FiniteSets, TLC

CONSTANTS CheckContiguity,     \* i = cert.GPBFTInstance
          CheckSurplus,        \* i <= header.LatestInstance
          CheckHeaderLatest,   \* last certificate = header.LatestInstance
          CheckCheckpoint,     \* table CID at every (inst+1) % F = 0
          CheckFinal,          \* table CID after the last certificate
          CheckManifest,       \* header vs manifest
          ExportInclusive      \* export writes first..latest inclusive

Fail == <<>>
NoStore == [first |-> 0, init |-> Fail, certs |-> <<>>]

\* ------------------------------------------------------------------ power tables
ApplyDelta(t, d) ==
  IF t = Fail \/ \E p \in DOMAIN t : t[p] + d[p] < 0 THEN Fail
  ELSE [p \in DOMAIN t |-> t[p] + d[p]]
Diff(a, b) == [p \in DOMAIN a |-> b[p] - a[p]]

\* ------------------------------------------------------------------ stores
Latest(st) == st.first + Len(st.certs) - 1
RECURSIVE Fold(_, _)
Fold(t, cs) == IF cs = <<>> THEN t ELSE Fold(ApplyDelta(t, Head(cs).delta), Tail(cs))
\* the power table used to validate instance i (first <= i <= latest + 1)
TableAt(st, i) == Fold(st.init, SubSeq(st.certs, 1, i - st.first))
WellFormed(st) ==
  /\ Len(st.certs) >= 1
  /\ \A j \in DOMAIN st.certs : /\ st.certs[j].inst = st.first + j - 1
                                /\ TableAt(st, st.first + j) # Fail
                                /\ st.certs[j].commit = TableAt(st, st.first + j)
\* what an observer of a store can see: certificates, the table of every instance, the latest pointer
RECURSIVE TabsI(_, _, _)
TabsI(acc, cs, j) == IF j > Len(cs) THEN acc ELSE TabsI(Append(acc, ApplyDelta(acc[Len(acc)], cs[j].delta)), cs, j + 1)
\* <<TableAt(st, first), ..., TableAt(st, latest + 1)>> in one pass (MCSnapshot checks the equality)
Tabs(st) == TabsI(<<st.init>>, st.certs, 1)
Proj(st) == [first |-> st.first, latest |-> Latest(st), certs |-> st.certs, tables |-> Tabs(st)]
UpTo(st, e) == [st EXCEPT !.certs = SubSeq(st.certs, 1, e - st.first + 1)]

\* ------------------------------------------------------------------ export
Export(st, e) ==
  [first |-> st.first, latest |-> e, init |-> st.init,
   blocks |-> SubSeq(st.certs, 1, IF ExportInclusive THEN e - st.first + 1 ELSE e - st.first),
   hdrTorn |-> FALSE, torn |-> ""]

\* ------------------------------------------------------------------ import, as coded
NoManifest == [on |-> FALSE, first |-> 0, hasTable |-> FALSE, table |-> Fail]
Rej(why) == [ok |-> FALSE, why |-> why, store |-> NoStore]

RECURSIVE Scan(_, _, _, _, _)
\* s: snapshot, j: index of the next block, i: expected instance, t: running table, F: checkpoint frequency
Scan(s, j, i, t, F) ==
  IF j > Len(s.blocks)
  THEN [ok |-> TRUE, why |-> "", store |-> NoStore, table |-> t]
  ELSE LET c == s.blocks[j]
           t2 == ApplyDelta(t, c.delta)
       IN IF CheckContiguity /\ i # c.inst THEN Rej("missing")
          ELSE IF CheckSurplus /\ i > s.latest THEN Rej("surplus")
          ELSE IF t2 = Fail THEN Rej("delta")
          ELSE IF CheckCheckpoint /\ (c.inst + 1) % F = 0 /\ t2 # c.commit THEN Rej("checkpoint")
          ELSE Scan(s, j + 1, i + 1, t2, F)

Import(s, m, F) ==
  IF s.hdrTorn THEN Rej("header")
  ELSE IF CheckManifest /\ m.on /\ m.first # s.first THEN Rej("manifest instance")
  ELSE IF CheckManifest /\ m.on /\ m.hasTable /\ m.table # s.init THEN Rej("manifest table")
  ELSE LET r == Scan(s, 1, s.first, s.init, F) IN
       IF ~r.ok THEN r
       \* readSnapshotBlockBytes on a torn tail: io.ErrUnexpectedEOF (an error) - except when the bytes end right
       \* after a complete length prefix: io.ReadFull has read nothing and answers io.EOF, which the import loop
       \* takes for the end of the stream.  The checks below then decide (a strict prefix of an export always
       \* lacks its last certificate).
       ELSE IF s.torn = "mid" THEN Rej("torn")
       ELSE IF s.blocks = <<>> THEN Rej("no certificate")
       ELSE IF CheckHeaderLatest /\ s.blocks[Len(s.blocks)].inst # s.latest THEN Rej("latest")
       ELSE IF CheckFinal /\ r.table # s.blocks[Len(s.blocks)].commit THEN Rej("final table")
       ELSE [ok |-> TRUE, why |-> "", store |-> [first |-> s.first, init |-> s.init, certs |-> s.blocks]]

\* ------------------------------------------------------------------ the property's reasons to reject
Announced(s) == s.latest - s.first + 1            \* number of certificates the header announces
\* truncated = content the header announces is missing.  Bytes after the last announced certificate are not part
\* of the snapshot; cutting *them* is not a truncation of the snapshot (s.torn alone proves nothing).
IsTruncated(s) == s.hdrTorn \/ Len(s.blocks) < Announced(s)
IsGap(s) == \/ (s.blocks # <<>> /\ s.blocks[1].inst > s.first)
            \/ \E j \in 1..(Len(s.blocks) - 1) : s.blocks[j + 1].inst > s.blocks[j].inst + 1
IsReorder(s) == \/ (s.blocks # <<>> /\ s.blocks[1].inst < s.first)
                \/ \E j \in 1..(Len(s.blocks) - 1) : s.blocks[j + 1].inst <= s.blocks[j].inst
IsSurplus(s) == \E j \in DOMAIN s.blocks : s.blocks[j].inst > s.latest \/ j > Announced(s)
IsHeaderMismatch(s) == \/ s.blocks = <<>>
                       \/ s.blocks[1].inst # s.first
                       \/ s.blocks[Len(s.blocks)].inst # s.latest
IsManifestMismatch(s, m) == m.on /\ (m.first # s.first \/ (m.hasTable /\ m.table # s.init))
\* the deltas, applied in order, do not reproduce the table committed at a checkpoint or at the end
RECURSIVE BadAt(_, _, _, _)
BadAt(t, cs, F, isLastSeq) ==
  IF cs = <<>> THEN FALSE
  ELSE LET t2 == ApplyDelta(t, Head(cs).delta) IN
       \/ t2 = Fail
       \/ ((Head(cs).inst + 1) % F = 0 /\ t2 # Head(cs).commit)
       \/ (Len(cs) = 1 /\ isLastSeq /\ t2 # Head(cs).commit)
       \/ BadAt(t2, Tail(cs), F, isLastSeq)
IsBadDelta(s, F) == BadAt(s.init, s.blocks, F, TRUE)
Valid(s, m, F) == ~IsTruncated(s) /\ ~IsGap(s) /\ ~IsReorder(s) /\ ~IsSurplus(s) /\ ~IsHeaderMismatch(s)
                  /\ ~IsManifestMismatch(s, m) /\ ~IsBadDelta(s, F)
=============================================================================

SPECIFICATION MCSpecSpace
CONSTANTS
  CheckContiguity = TRUE
  CheckSurplus = TRUE
  CheckHeaderLatest = TRUE
  CheckCheckpoint = TRUE
  CheckFinal = TRUE
  CheckManifest = TRUE
  ExportInclusive = TRUE
  Firsts = {0, 3}
  MaxLen = 0
  F = 2
  Tables <- TablesSmall
  MaxBlocks = 2
  SpaceInsts = {0, 1, 2, 3, 4, 5}
  SpaceDeltas <- DeltasSmall
INVARIANTS ImportIffValid AcceptedIsWellFormed
CHECK_DEADLOCK FALSE

SPECIFICATION MCSpec
CONSTANTS
  DefaultF = 2
  ResumeWipe = TRUE
  DrainFirst = FALSE
  LatestLast = TRUE
  Firsts = {0, 1}
  MaxLen = 4
  SubIds = {1, 2}
  Rich = FALSE
  CrashPoints = FALSE
INVARIANTS LiveIsHistory TablesProper RangesExact SubsSeeLatest PutNeverBlocks CrashConsistent WipeResumed Repeatable
PROPERTIES Immutable LatestMonotone
CHECK_DEADLOCK FALSE

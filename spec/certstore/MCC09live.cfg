SPECIFICATION MCLive
CONSTANTS
  DefaultF = 2
  ResumeWipe = TRUE
  DrainFirst = TRUE
  LatestLast = TRUE
  Firsts = {0}
  MaxLen = 2
  SubIds = {1}
  Rich = FALSE
  CrashPoints = FALSE
PROPERTIES EventuallyLatest
CHECK_DEADLOCK FALSE

------------------------ MODULE CertStoreCrashTrace ------------------------
(* Trace validation of crash forks (property C10) on top of CertStoreTrace.tla.

   Additional events (driver: harness/drivers/certstore/crash_test.go):
     Fork / ForkEnd        the following events run on a copy of the datastore; ForkEnd returns
     CrashPut, CrashCreate, CrashWipe, CrashResume
                           an operation ran behind a datastore wrapper that let `k` writes through
                           and then failed every call; `writes` are the writes that reached the
                           datastore.  The model applies exactly those writes (CrashWith), memory is
                           gone, and the property allows the state before or after the operation.
     RetryPut, RetryOpen, RetryDeleteAll
                           the interrupted operation repeated after reopening
   Open / Proj after a crash are judged against the allowed set:
     C10_Reopenable   every open variant answers as it would on the state before or after
     C10_PreOrPost    the projected history (Latest, Get, GetRange, GetPowerTable over
                      [first, latest], power table at latest+1) equals one of the two
     C10_Consistent   latest loadable, no hole, every power table derivable
     C10_WipeResumed  a wipe whose tombstone reached the datastore is completed by reopening
     C10_Repeatable   the interrupted operation succeeds when repeated                        *)
EXTENDS CertStoreTrace

Snapshot == [ds |-> ds, up |-> up, mfirst |-> mfirst, mlatest |-> mlatest, mpt |-> mpt, freq |-> freq, subs |-> subs,
             alts |-> alts, lastop |-> lastop, seen |-> seen, hi |-> hi]
TrFork == /\ IsEvent("Fork") /\ saved' = <<Snapshot>> \o saved /\ obs' = NoObs /\ Stutter /\ UNCHANGED hi
TrForkEnd ==
  /\ IsEvent("ForkEnd") /\ saved # <<>>
  /\ LET s == Head(saved) IN
       /\ ds' = s.ds /\ up' = s.up /\ mfirst' = s.mfirst /\ mlatest' = s.mlatest /\ mpt' = s.mpt /\ freq' = s.freq
       /\ subs' = s.subs /\ alts' = s.alts /\ lastop' = s.lastop /\ seen' = s.seen /\ hi' = s.hi
  /\ saved' = Tail(saved) /\ obs' = NoObs /\ wiped' = FALSE

\* a logged write [op, kind, index, value] with the value the model knows
Fill(x, certv, tablev) == W(x[1], x[2], x[3], IF x[1] = "del" THEN 0
                                              ELSE CASE x[2] = "cert" -> certv [] x[2] = "power" -> tablev
                                                     [] x[2] \in {"latest", "first"} -> x[4] [] OTHER -> 0)
KeysOf(ws) == [j \in DOMAIN ws |-> Key(ws[j])]

TrCrashPut ==
  /\ IsEvent("CrashPut") /\ up
  /\ LET c == CertOf(Ev)
         ws == [j \in DOMAIN Ev.writes |-> Fill(Ev.writes[j], c, PutNewPT(Mem, c))]
         exp == PutWrites(Mem, c)
     IN /\ CrashWith(ws, {APut(a, c) : a \in alts}, [type |-> "put", c |-> c])
        /\ obs' = [kind |-> "CrashPut", err |-> Ev.err,
                   cut |-> (PutVerdict(Mem, c) = "ok" /\ Len(ws) = Ev.k /\ Len(ws) < Len(exp) /\ KeysOf(ws) = KeysOf(SubSeq(exp, 1, Len(ws))))]
  /\ UNCHANGED <<hi, saved>>

TrCrashCreate ==
  /\ IsEvent("CrashCreate") /\ ~up
  /\ LET v == VarOf(Ev)
         ws == [j \in DOMAIN Ev.writes |-> Fill(Ev.writes[j], 0, v.table)]
         exp == CreateWrites(v.first, v.table)
     IN /\ CrashWith(ws, {ACreate(a, v.first, v.table) : a \in alts}, [type |-> "create", v |-> v])
        /\ obs' = [kind |-> "CrashCreate", err |-> Ev.err,
                   cut |-> (OpenF(v, ds).created /\ Len(ws) = Ev.k /\ Len(ws) < Len(exp) /\ KeysOf(ws) = KeysOf(SubSeq(exp, 1, Len(ws))))]
  /\ UNCHANGED <<hi, saved>>

TrCrashWipe ==
  /\ IsEvent("CrashWipe") /\ up
  /\ LET ws == [j \in DOMAIN Ev.writes |-> Fill(Ev.writes[j], 0, 0)] IN
       /\ CrashWith(ws, {NoStore}, [type |-> "wipe"])
       /\ obs' = [kind |-> "CrashWipe", err |-> Ev.err, cut |-> (IsWipeCut(ds, ws) /\ Len(ws) = Ev.k /\ Ev.left = KeyCount(DoAll(ds, ws)))]
  /\ UNCHANGED <<hi, saved>>

TrCrashResume ==
  /\ IsEvent("CrashResume") /\ ~up
  /\ LET ws == [j \in DOMAIN Ev.writes |-> Fill(Ev.writes[j], 0, 0)] IN
       /\ CrashWith(ws, {NoStore}, [type |-> "wipe"])
       /\ obs' = [kind |-> "CrashResume", err |-> Ev.err, cut |-> (IsResumeCut(ds, ws) /\ Ev.left = KeyCount(DoAll(ds, ws)))]
  /\ UNCHANGED <<hi, saved>>

TrRetryPut == PutEvent("RetryPut")
TrRetryOpen == OpenEvent("RetryOpen")
TrRetryDeleteAll == DeleteAllEvent("RetryDeleteAll")

CNext == TNext \/ TrFork \/ TrForkEnd \/ TrCrashPut \/ TrCrashCreate \/ TrCrashWipe \/ TrCrashResume
         \/ TrRetryPut \/ TrRetryOpen \/ TrRetryDeleteAll

\* ------------------------------------------------------------------ property monitors (C10)
Bang == {"!notfound", "!other", "!notinit", "!instance"}
Mon_Consistent == obs.kind = "Proj" => obs.consistent
Mon_WipeResumed == (obs.kind \in {"Open", "RetryOpen"} /\ obs.wipe) => (obs.err = obs.wipeerr /\ obs.left = obs.wipeleft)
Mon_Repeatable == /\ obs.kind = "RetryPut" => obs.ok
                  /\ obs.kind = "RetryOpen" => obs.err = ""
                  /\ obs.kind = "RetryDeleteAll" => (obs.err = "" /\ obs.left = 0)
\* ------------------------------------------------------------------ conformance
Conf_CrashCut == obs.kind \in {"CrashPut", "CrashCreate", "CrashWipe", "CrashResume"} => (obs.cut /\ obs.err # "")

CClauses == {"C10_Reopenable", "C10_PreOrPost", "C10_Consistent", "C10_WipeResumed", "C10_Repeatable", "Conf_CrashCut",
             "Conf_Admission", "Conf_PutNeverBlocks", "Conf_GetExact", "Conf_RangeExact", "Conf_PowerTable", "Conf_Latest",
             "Conf_LatestMonotone", "Conf_SubSeesLatest",
             "Conf_OpenVerdict", "Conf_PutVerdict", "Conf_Get", "Conf_Range", "Conf_PT", "Conf_PTOrder", "Conf_Chan", "Conf_DeleteAll"}
CHolds(c) == CASE c = "C10_Reopenable" -> Mon_Reopen [] c = "C10_PreOrPost" -> Mon_ProjExact
               [] c = "C10_Consistent" -> Mon_Consistent [] c = "C10_WipeResumed" -> Mon_WipeResumed
               [] c = "C10_Repeatable" -> Mon_Repeatable [] c = "Conf_CrashCut" -> Conf_CrashCut
               [] c = "Conf_Admission" -> Mon_Admission [] c = "Conf_PutNeverBlocks" -> Mon_PutNeverBlocks
               [] c = "Conf_GetExact" -> Mon_GetExact [] c = "Conf_RangeExact" -> Mon_RangeExact
               [] c = "Conf_PowerTable" -> Mon_PowerTable [] c = "Conf_Latest" -> Mon_Latest
               [] c = "Conf_LatestMonotone" -> Mon_LatestMonotone [] c = "Conf_SubSeesLatest" -> Mon_SubSeesLatest
               [] c = "Conf_OpenVerdict" -> Conf_OpenVerdict [] c = "Conf_PutVerdict" -> Conf_PutVerdict
               [] c = "Conf_Get" -> Conf_Get [] c = "Conf_Range" -> Conf_Range [] c = "Conf_PT" -> Conf_PT
               [] c = "Conf_PTOrder" -> Conf_PTOrder [] c = "Conf_Chan" -> Conf_Chan [] c = "Conf_DeleteAll" -> Conf_DeleteAll
CStep == /\ CNext
         /\ LET nb == {c \in CClauses : ~(CHolds(c))'} IN
              /\ bad' = bad \cup {<<l, c>> : c \in nb}
              /\ (nb = {} \/ Cardinality(bad) > 2000 \/ PrintT(<<"VERIF_BAD", l, nb>>))
CSpec == TInit /\ [][CStep]_tvars
=============================================================================

-------------------------- MODULE CertStoreTrace --------------------------
(* Trace validation of the real certstore.Store against CertStore.tla (driver:
   harness/drivers/certstore).  One NDJSON line per public call.  The model state advances
   with CertStore.tla's own actions, fed with the logged arguments; what the code *returned*
   is bound to `obs` and judged by
     C09_*   clauses of property C09 (failure = VIOLATION),
     Conf_*  "the code still behaves like the implementation-shaped spec" (failure = drift).
   `alts` (ghost of CertStore.tla) is the set of abstract histories the property allows; in
   crash-free traces it is a singleton.                                                     *)
EXTENDS CertStore, Json, TLCExt
CONSTANT TraceFile
VARIABLES l, obs, bad, hi, saved
tvars == <<dvars, l, obs, bad, hi, saved>>

TraceLog == ndJsonDeserialize(TraceFile)
NoObs == [kind |-> "none"]
Ev == TraceLog[l]
IsEvent(e) == l <= Len(TraceLog) /\ TraceLog[l].ev = e /\ l' = l + 1

TabOf(s) == {s[i] : i \in DOMAIN s}
CertOf(e) == [id |-> e.id, inst |-> e.inst, chain |-> e.chain, delta |-> e.delta, supp |-> TabOf(e.supp)]
VarOf(e) == [variant |-> e.variant, first |-> e.first, table |-> TabOf(e.table)]
Max(a, b) == IF a >= b THEN a ELSE b
Stutter == wiped' = FALSE /\ UNCHANGED <<ds, up, mfirst, mlatest, mpt, freq, subs, alts, lastop, seen>>
KeyCount(d) == Cardinality(DelKeys(d)) + (IF d.tomb THEN 1 ELSE 0)

\* ---- what the property allows an open variant to answer, per allowed abstract state
ExpErr(a, v) ==
  CASE v.variant = "open" -> IF a.ex THEN "" ELSE "notinit"
    [] v.variant = "ooc" -> IF v.table = {} THEN "other"
                            ELSE IF ~a.ex THEN "" ELSE IF a.first = v.first /\ a.pts[1] = v.table THEN "" ELSE "other"
    [] v.variant = "create" -> IF v.table = {} THEN "other" ELSE IF a.ex THEN "other" ELSE ""
AfterOpen(a, v) == IF ~a.ex /\ v.variant # "open" /\ v.table # {} THEN Fresh(v.first, v.table) ELSE a
\* abstract states compatible with the answer the code gave
PostOpen(al, v, err) == LET m == {a \in al : ExpErr(a, v) = err} IN
                          IF m = {} THEN al ELSE {AfterOpen(a, v) : a \in m}

\* ---- the history the API designates as stored, as the driver projects it
AProj(a) == [first |-> a.first,
             latest |-> IF a.hist = <<>> THEN None ELSE ALatest(a),
             lid |-> IF a.hist = <<>> THEN "" ELSE a.hist[Len(a.hist)].id,
             ids |-> [j \in 1..Len(a.hist) |-> a.hist[j].id],
             rids |-> [j \in 1..Len(a.hist) |-> a.hist[j].id],
             rerr |-> "",
             pts |-> a.pts]
EvProj(e) == [first |-> e.first, latest |-> e.latest, lid |-> e.lid, ids |-> e.ids, rids |-> e.rids, rerr |-> e.rerr,
              pts |-> [j \in DOMAIN e.pts |-> TabOf(e.pts[j])]]
NoDupTables(e) == \A j \in DOMAIN e.pts : Len(e.pts[j]) = Cardinality(TabOf(e.pts[j]))

TInit == DInit /\ l = 1 /\ obs = NoObs /\ bad = {} /\ hi = None /\ saved = <<>>

TrReset ==
  /\ IsEvent("Reset") /\ obs' = NoObs /\ hi' = None /\ saved' = <<>>
  /\ ds' = EmptyDS /\ up' = FALSE /\ mfirst' = None /\ mlatest' = <<>> /\ mpt' = {} /\ freq' = DefaultF
  /\ subs' = <<>> /\ alts' = {NoStore} /\ lastop' = NoOp /\ seen' = <<>> /\ wiped' = FALSE

\* Open / RetryOpen: the model performs the spec's open; the allowed set follows the code's answer
OpenEvent(kind) ==
  /\ IsEvent(kind) /\ ~up
  /\ LET v == VarOf(Ev)
         r == OpenF(v, ds)
     IN /\ OpenCore(v)
        /\ alts' = PostOpen(alts, v, Ev.err)
        /\ obs' = [kind |-> kind, err |-> Ev.err, experr |-> r.err, allowed |-> {ExpErr(a, v) : a \in alts},
                   left |-> Ev.left, expleft |-> KeyCount(r.st.d),
                   wipe |-> (ds.tomb /\ ~(v.variant # "open" /\ v.table = {})),
                   wipeerr |-> IF v.variant = "open" THEN "notinit" ELSE "",
                   wipeleft |-> IF v.variant = "open" THEN 0 ELSE 2]
  /\ hi' = IF wiped' \/ ~(\E a \in alts' : a.ex) THEN None ELSE hi
  /\ UNCHANGED saved
TrOpen == OpenEvent("Open")

TrSetFreq == IsEvent("SetFreq") /\ SetFreq(Ev.f) /\ obs' = NoObs /\ UNCHANGED <<hi, saved>>

PutEvent(kind) ==
  /\ IsEvent(kind) /\ up
  /\ LET c == CertOf(Ev)
         ok == (Ev.err = "" /\ ~Ev.blocked)
     IN /\ IF ok THEN Put(c) ELSE Stutter
        /\ obs' = [kind |-> kind, ok |-> ok, blocked |-> Ev.blocked, verdict |-> PutVerdict(Mem, c),
                   admissible |-> \A a \in alts : (ValidSuccessor(a, c) \/ c.inst < ANext(a))]
  /\ UNCHANGED <<hi, saved>>
TrPut == PutEvent("Put")

TrGet ==
  /\ IsEvent("Get") /\ up /\ Stutter
  /\ obs' = [kind |-> "Get", i |-> Ev.i, id |-> Ev.id, inst |-> Ev.inst, err |-> Ev.err, exp |-> GetF(Mem, Ev.i)]
  /\ UNCHANGED <<hi, saved>>

TrGetRange ==
  /\ IsEvent("GetRange") /\ up /\ Stutter
  /\ obs' = [kind |-> "GetRange", s |-> Ev.s, e |-> Ev.e, ids |-> Ev.ids, insts |-> Ev.insts, err |-> Ev.err,
             exp |-> IF Ev.s > Ev.e THEN <<>> ELSE RangeF(Mem, Ev.s, Ev.e),
             experr |-> IF Ev.s > Ev.e THEN "other" ELSE IF RangeComplete(Mem, Ev.s, Ev.e) THEN "" ELSE "notfound"]
  /\ UNCHANGED <<hi, saved>>

TrGetPT ==
  /\ IsEvent("GetPT") /\ up /\ Stutter
  /\ obs' = [kind |-> "GetPT", i |-> Ev.i, seq |-> Ev.pt, pt |-> TabOf(Ev.pt), err |-> Ev.err, exp |-> GetPTF(Mem, Ev.i)]
  /\ UNCHANGED <<hi, saved>>

TrLatest ==
  /\ IsEvent("Latest") /\ up /\ Stutter
  /\ obs' = [kind |-> "Latest", id |-> Ev.id, inst |-> Ev.inst, hi |-> hi]
  /\ hi' = Max(hi, Ev.inst) /\ UNCHANGED saved

TrProj ==
  /\ IsEvent("Proj") /\ up
  /\ LET p == EvProj(Ev)
         m == {a \in alts : a.ex /\ AProj(a) = p}
     IN /\ alts' = IF m = {} THEN alts ELSE m
        /\ obs' = [kind |-> "Proj", matches |-> (m # {}), nodup |-> NoDupTables(Ev), latest |-> Ev.latest, hi |-> hi,
                   consistent |-> (/\ p.rerr = "" /\ TabOf(p.ids) \cap {"!notfound", "!other", "!notinit", "!instance"} = {}
                                   /\ Fail \notin TabOf(p.pts)
                                   /\ Len(p.ids) = (IF p.latest = None THEN 0 ELSE p.latest - p.first + 1)
                                   /\ Len(p.rids) = Len(p.ids) /\ Len(p.pts) = Len(p.ids) + 1)]
  /\ wiped' = FALSE /\ UNCHANGED <<ds, up, mfirst, mlatest, mpt, freq, subs, lastop, seen>>
  /\ hi' = Max(hi, Ev.latest) /\ UNCHANGED saved

TrSubscribe == IsEvent("Subscribe") /\ Subscribe(Ev.sid) /\ obs' = NoObs /\ UNCHANGED <<hi, saved>>
TrRecv ==
  /\ IsEvent("Recv") /\ up /\ Ev.sid \in DOMAIN subs
  /\ IF subs[Ev.sid] # <<>> THEN Recv(Ev.sid) ELSE Stutter
  /\ obs' = [kind |-> "Recv", id |-> Ev.id, chan |-> subs[Ev.sid], seen |-> seen[Ev.sid],
             latest |-> IF mlatest = <<>> THEN <<>> ELSE <<mlatest[1].id>>]
  /\ UNCHANGED <<hi, saved>>
TrUnsub == IsEvent("Unsub") /\ Unsubscribe(Ev.sid) /\ obs' = NoObs /\ UNCHANGED <<hi, saved>>

DeleteAllEvent(kind) ==
  /\ IsEvent(kind) /\ up
  /\ IF Ev.err = "" THEN DeleteAll ELSE Stutter
  /\ obs' = [kind |-> kind, err |-> Ev.err, left |-> Ev.left]
  /\ hi' = IF Ev.err = "" THEN None ELSE hi
  /\ UNCHANGED saved
TrDeleteAll == DeleteAllEvent("DeleteAll")

TrCrash == IsEvent("Crash") /\ up /\ Crash /\ obs' = NoObs /\ UNCHANGED <<hi, saved>>

\* an observation made by a reader concurrent with the writer: lo / hi = number of Puts completed before the call /
\* started before it returned; recorded after all the writer's events, so the admitted history is complete
TrCObs ==
  /\ IsEvent("CObs") /\ up /\ Stutter
  /\ obs' = [kind |-> "CObs", what |-> Ev.kind, lo |-> Ev.lo, hi |-> Ev.hi, i |-> Ev.i, e |-> Ev.e, id |-> Ev.id, inst |-> Ev.inst,
             prev |-> Ev.prev, ids |-> Ev.ids, seq |-> Ev.pt, pt |-> TabOf(Ev.pt), err |-> Ev.err]
  /\ UNCHANGED <<hi, saved>>

TNext == TrCObs \/ TrReset \/ TrOpen \/ TrSetFreq \/ TrPut \/ TrGet \/ TrGetRange \/ TrGetPT \/ TrLatest \/ TrProj
         \/ TrSubscribe \/ TrRecv \/ TrUnsub \/ TrDeleteAll \/ TrCrash

\* ------------------------------------------------------------------ property monitors (C09)
\* admitted only as the immediate successor with a delta reproducing the committed, non-empty table;
\* a nil answer for an already stored instance is the idempotent re-submission
Mon_Admission == obs.kind \in {"Put", "RetryPut"} => (obs.ok => obs.admissible)
\* subscribers never block the writer
Mon_PutNeverBlocks == obs.kind \in {"Put", "RetryPut"} => ~obs.blocked
\* Get inside [first, latest] returns the stored certificate
Mon_GetExact == obs.kind = "Get" =>
   \A a \in alts : (a.ex /\ obs.i \in a.first..ALatest(a)) =>
        obs.err = "" /\ obs.id = a.hist[obs.i - a.first + 1].id /\ obs.inst = obs.i
\* range reads return exactly the stored certificates, in order, completely inside the window
Mon_RangeExact == obs.kind = "GetRange" =>
   \A a \in alts : a.ex =>
      /\ Len(obs.ids) <= Max(0, obs.e - obs.s + 1)
      /\ \A j \in DOMAIN obs.ids :
            /\ obs.insts[j] = obs.s + j - 1
            /\ (obs.s + j - 1) \in a.first..ALatest(a) => obs.ids[j] = a.hist[obs.s + j - a.first].id
      /\ (obs.s <= obs.e /\ obs.s >= a.first /\ obs.e <= ALatest(a)) => (obs.err = "" /\ Len(obs.ids) = obs.e - obs.s + 1)
\* the power table for every instance up to the next one = the initial table with all earlier deltas applied
Mon_PowerTable == obs.kind = "GetPT" =>
   \A a \in alts : (a.ex /\ obs.i \in a.first..ANext(a)) =>
        obs.err = "" /\ obs.pt = a.pts[obs.i - a.first + 1] /\ Len(obs.seq) = Cardinality(obs.pt)
\* Latest is the last admitted certificate; the latest pointer only advances
Mon_Latest == obs.kind = "Latest" =>
   \A a \in alts : a.ex => (obs.id = AProj(a).lid /\ obs.inst = AProj(a).latest)
Mon_LatestMonotone == obs.kind \in {"Latest", "Proj"} => (IF obs.kind = "Latest" THEN obs.inst ELSE obs.latest) >= obs.hi
\* the whole stored history (certificates, range read, every power table up to latest+1) is the admitted history,
\* also right after reopening with any open variant
Mon_ProjExact == obs.kind = "Proj" => obs.matches /\ obs.nodup
\* a subscriber that reads gets the latest certificate unless it has seen it already
Mon_SubSeesLatest == obs.kind = "Recv" =>
   /\ obs.id # "" => obs.latest = <<obs.id>>
   /\ obs.id = "" => (obs.latest = <<>> \/ obs.seen = obs.latest)
\* concurrent readers: every answer is the answer of some history length n with lo <= n <= hi
Min(a, b) == IF a <= b THEN a ELSE b
Mon_Concurrent == obs.kind = "CObs" =>
   \A a \in alts :
     LET x == obs.i - a.first + 1            \* position of instance i in the history / table sequence
         y == obs.inst - a.first + 1
         n == Len(a.hist)
     IN CASE obs.what = "Latest" -> IF obs.inst = None THEN obs.lo = 0
                                     ELSE y >= obs.lo /\ y >= 1 /\ y <= obs.hi /\ y <= n /\ obs.id = a.hist[y].id
          [] obs.what = "Get" -> IF obs.err = "" THEN x >= 1 /\ x <= obs.hi /\ x <= n /\ obs.id = a.hist[x].id /\ obs.inst = obs.i
                                 ELSE obs.err = "notfound" /\ (x < 1 \/ x > obs.lo)
          [] obs.what = "GetPT" -> IF obs.err = "" THEN x >= 1 /\ x <= obs.hi + 1 /\ x <= n + 1 /\ obs.pt = a.pts[x]
                                                       /\ Len(obs.seq) = Cardinality(obs.pt)
                                   ELSE x < 1 \/ x > obs.lo + 1
          [] obs.what = "GetRange" ->
               /\ \A j \in DOMAIN obs.ids : x + j - 1 >= 1 /\ x + j - 1 <= Min(obs.hi, n) /\ obs.ids[j] = a.hist[x + j - 1].id
               /\ Len(obs.ids) <= obs.e - obs.i + 1
               /\ x >= 1 => Len(obs.ids) >= Min(obs.e - a.first + 1, obs.lo) - x + 1
               /\ (obs.err = "") = (Len(obs.ids) = obs.e - obs.i + 1)
          [] obs.what = "SubInit" -> IF obs.inst = None THEN (obs.lo = 0 \/ obs.hi > obs.lo)   \* Put drains, then sends: transiently empty
                                      ELSE y >= obs.lo /\ y >= 1 /\ y <= obs.hi /\ y <= n /\ obs.id = a.hist[y].id
          [] obs.what = "SubRecv" -> y >= 1 /\ y <= obs.hi /\ y <= n /\ obs.id = a.hist[y].id /\ obs.inst > obs.prev
          [] obs.what = "SubFinal" -> n > 0 /\ obs.id = a.hist[n].id
\* reopening a store that exists works (power tables identical before and after reopening)
Mon_Reopen == obs.kind \in {"Open", "RetryOpen"} => obs.err \in obs.allowed

\* ------------------------------------------------------------------ conformance
Conf_OpenVerdict == obs.kind \in {"Open", "RetryOpen"} => obs.err = obs.experr /\ obs.left = obs.expleft
Conf_PutVerdict == obs.kind \in {"Put", "RetryPut"} => (obs.ok <=> obs.verdict \in {"ok", "stale"})
Conf_Get == obs.kind = "Get" => IF obs.exp = <<>> THEN obs.err = "notfound" ELSE (obs.err = "" /\ obs.id = obs.exp[1].id)
Conf_Range == obs.kind = "GetRange" => obs.err = obs.experr /\ obs.ids = [j \in DOMAIN obs.exp |-> obs.exp[j].id]
Conf_PT == obs.kind = "GetPT" => IF obs.exp = Fail THEN obs.err # "" ELSE (obs.err = "" /\ obs.pt = obs.exp)
Conf_PTOrder == obs.kind = "GetPT" =>
   \A i \in 1..(Len(obs.seq) - 1) : obs.seq[i][2] > obs.seq[i + 1][2] \/ (obs.seq[i][2] = obs.seq[i + 1][2] /\ obs.seq[i][1] < obs.seq[i + 1][1])
Conf_Chan == obs.kind = "Recv" => obs.id = (IF obs.chan = <<>> THEN "" ELSE obs.chan[1])
Conf_DeleteAll == obs.kind \in {"DeleteAll", "RetryDeleteAll"} => obs.err = "" /\ obs.left = 0

\* ------------------------------------------------------------------ verdict plumbing (see WALTrace.tla)
Clauses == {"C09_Admission", "C09_PutNeverBlocks", "C09_GetExact", "C09_RangeExact", "C09_PowerTable", "C09_Latest",
            "C09_LatestMonotone", "C09_ProjExact", "C09_SubSeesLatest", "C09_Reopen", "C09_Concurrent",
            "Conf_OpenVerdict", "Conf_PutVerdict", "Conf_Get", "Conf_Range", "Conf_PT", "Conf_PTOrder", "Conf_Chan", "Conf_DeleteAll"}
Holds(c) == CASE c = "C09_Admission" -> Mon_Admission [] c = "C09_PutNeverBlocks" -> Mon_PutNeverBlocks
              [] c = "C09_GetExact" -> Mon_GetExact [] c = "C09_RangeExact" -> Mon_RangeExact
              [] c = "C09_PowerTable" -> Mon_PowerTable [] c = "C09_Latest" -> Mon_Latest
              [] c = "C09_LatestMonotone" -> Mon_LatestMonotone [] c = "C09_ProjExact" -> Mon_ProjExact
              [] c = "C09_SubSeesLatest" -> Mon_SubSeesLatest [] c = "C09_Reopen" -> Mon_Reopen
              [] c = "C09_Concurrent" -> Mon_Concurrent
              [] c = "Conf_OpenVerdict" -> Conf_OpenVerdict [] c = "Conf_PutVerdict" -> Conf_PutVerdict
              [] c = "Conf_Get" -> Conf_Get [] c = "Conf_Range" -> Conf_Range [] c = "Conf_PT" -> Conf_PT
              [] c = "Conf_PTOrder" -> Conf_PTOrder [] c = "Conf_Chan" -> Conf_Chan [] c = "Conf_DeleteAll" -> Conf_DeleteAll
TStep == /\ TNext
         /\ LET nb == {c \in Clauses : ~(Holds(c))'} IN
              /\ bad' = bad \cup {<<l, c>> : c \in nb}
              /\ (nb = {} \/ Cardinality(bad) > 2000 \/ PrintT(<<"VERIF_BAD", l, nb>>))
TSpec == TInit /\ [][TStep]_tvars
=============================================================================

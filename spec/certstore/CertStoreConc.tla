---------------------------- MODULE CertStoreConc ----------------------------
(* certstore.Store under concurrent readers and writers (C09: "... plus concurrent readers and
   writers").  Reuses CertStore.tla: the store is CertStore's state (ds, mfirst, mlatest, mpt,
   freq, subs), a Put takes effect with CertStore's Put(c), the reads are CertStore's state
   functions (GetF, RangeF, GetPTF, ...).  What is added is *time*: every operation has an
   invocation step and a response step, and other processes run in between.

     writer    WCall(c)   started  := started + 1     "about to call Put": possibly applied from now on
               WApply     the Put takes effect (CertStore's Put(c): datastore writes, latest
                          certificate and cached table swapped, subscribers notified - one
                          critical section in the code)
               WReturn    completed := completed + 1  "Put returned": certainly applied
     reader r  RInvoke(r, op)  lo := completed
               RRead(r)        the read takes effect: one atomic evaluation of the state function
               RRespond(r)     hi := started; the answer is handed to the client

   The obligation (CertStoreLin.tla, LinOK): the answer is the store's answer in some state k
   with max(lo, wit) <= k <= hi.  TLC shows (a) the bracket is sound - the state index at which
   the read really took effect lies in [lo, hi] (BracketSound) - and (b) an implementation whose
   reads are one atomic step satisfies the obligation (Linearizable), and refutes named
   deviations in which one public call is split over two critical sections:

     AtomicPT = FALSE         GetPowerTable reads the next instance, then (second lock) the cached table
     AtomicPut = FALSE        Put publishes the latest certificate, then (second lock) the cached table
     NotifyAfterStore = FALSE Put notifies the subscribers before the certificate is stored / published
     AtomicSubscribe = FALSE  Subscribe reads the latest certificate, then (second lock) registers the channel  *)
EXTENDS CertStore, CertStoreLin

CONSTANTS Readers,            \* reader processes; reader r owns subscription r
          MaxOps,             \* operations per reader
          AtomicPT, AtomicPut, NotifyAfterStore, AtomicSubscribe,
          DrainThenSend       \* TRUE = the code: inside its critical section Put first drains each subscriber channel, then sends;
                              \* the channels are read without the store's lock, so a receiver can find one transiently empty

VARIABLES started, completed, \* the two counters the driver keeps (atomics bumped by the writer)
          wpc, wcert,         \* writer: "idle" | "called" | "half" (split Put) | "drained" | "applied"; the certificate in flight
          rd                  \* reader -> [pc, op, lo, at, tmp, res, wit, seenpos, nops]
cvars == <<dvars, started, completed, wpc, wcert, rd>>

NoCert == [id |-> <<>>, inst |-> None, chain |-> "none", delta |-> <<>>, supp |-> {}]
Blank == [what |-> "", lo |-> 0, hi |-> 0, wit |-> 0, i |-> 0, e |-> 0, id |-> <<>>, inst |-> None,
          ids |-> <<>>, insts |-> <<>>, pt |-> {}, ptn |-> 0, err |-> ""]
Idle(wit, seenpos, nops) == [pc |-> "idle", op |-> Blank, lo |-> 0, at |-> 0, tmp |-> None, res |-> Blank,
                             wit |-> wit, seenpos |-> seenpos, nops |-> nops]
Op(what, i, e) == [Blank EXCEPT !.what = what, !.i = i, !.e = e]

\* number of Puts that have taken effect (the store's state index)
Applied == Len(Cur.hist)

CInit(first, t0, f) ==
  /\ ds = DoAll(EmptyDS, CreateWrites(first, t0)) /\ up = TRUE /\ mfirst = first /\ mlatest = <<>> /\ mpt = t0
  /\ freq = f /\ subs = <<>> /\ alts = {Fresh(first, t0)} /\ lastop = NoOp /\ seen = <<>> /\ wiped = FALSE
  /\ started = 0 /\ completed = 0 /\ wpc = "idle" /\ wcert = NoCert
  /\ rd = [r \in Readers |-> Idle(0, 0, 0)]

\* ------------------------------------------------------------------ writer
WCall(c) ==
  /\ wpc = "idle" /\ wpc' = "called" /\ wcert' = c /\ started' = started + 1
  /\ UNCHANGED <<dvars, completed, rd>>

NotifyAll(c) == [s \in DOMAIN subs |-> <<c.id>>]
\* the code: one critical section
WApplyAtomic ==
  /\ wpc = "called" /\ AtomicPut /\ NotifyAfterStore /\ ~DrainThenSend
  /\ Put(wcert) /\ wpc' = "applied"
  /\ UNCHANGED <<started, completed, wcert, rd>>
\* ... as lock-free receivers see it: datastore writes, swap and drain, then the send
WApplyDrain ==
  /\ wpc = "called" /\ AtomicPut /\ NotifyAfterStore /\ DrainThenSend /\ ~PutBlocks
  /\ LET st == PutF(Mem, wcert) IN ds' = st.d /\ mlatest' = st.ml /\ mpt' = st.pt
  /\ subs' = IF PutVerdict(Mem, wcert) = "ok" THEN [s \in DOMAIN subs |-> <<>>] ELSE subs
  /\ alts' = {APut(a, wcert) : a \in alts} /\ wpc' = "drained" /\ wiped' = FALSE
  /\ UNCHANGED <<up, mfirst, freq, lastop, seen, started, completed, wcert, rd>>
WSend ==
  /\ wpc = "drained"
  /\ subs' = NotifyAll(wcert) /\ wpc' = "applied" /\ wiped' = FALSE
  /\ UNCHANGED <<ds, up, mfirst, mlatest, mpt, freq, alts, lastop, seen, started, completed, wcert, rd>>
\* deviation: the subscribers are told first, the certificate is stored and published in a later step
WNotifyFirst ==
  /\ wpc = "called" /\ ~NotifyAfterStore /\ PutVerdict(Mem, wcert) = "ok"
  /\ subs' = NotifyAll(wcert) /\ alts' = {APut(a, wcert) : a \in alts} /\ wpc' = "half" /\ wiped' = FALSE
  /\ UNCHANGED <<ds, up, mfirst, mlatest, mpt, freq, lastop, seen, started, completed, wcert, rd>>
WStoreAfterNotify ==
  /\ wpc = "half" /\ ~NotifyAfterStore
  /\ LET st == PutF(Mem, wcert) IN ds' = st.d /\ mlatest' = st.ml /\ mpt' = st.pt
  /\ wpc' = "applied" /\ wiped' = FALSE
  /\ UNCHANGED <<up, mfirst, freq, subs, alts, lastop, seen, started, completed, wcert, rd>>
\* deviation: datastore writes + latest certificate + notification, the cached table in a later step
WPublishCert ==
  /\ wpc = "called" /\ ~AtomicPut /\ NotifyAfterStore /\ PutVerdict(Mem, wcert) = "ok"
  /\ LET st == PutF(Mem, wcert) IN ds' = st.d /\ mlatest' = st.ml
  /\ subs' = NotifyAll(wcert) /\ alts' = {APut(a, wcert) : a \in alts} /\ wpc' = "half" /\ wiped' = FALSE
  /\ UNCHANGED <<up, mfirst, mpt, freq, lastop, seen, started, completed, wcert, rd>>
WPublishTable ==
  /\ wpc = "half" /\ ~AtomicPut /\ NotifyAfterStore
  /\ mpt' = (IF wcert.delta = <<>> THEN mpt ELSE ApplyDelta(mpt, wcert.delta)) /\ wpc' = "applied" /\ wiped' = FALSE
  /\ UNCHANGED <<ds, up, mfirst, mlatest, freq, subs, alts, lastop, seen, started, completed, wcert, rd>>
WReturn ==
  /\ wpc = "applied" /\ wpc' = "idle" /\ completed' = completed + 1 /\ wcert' = NoCert
  /\ UNCHANGED <<dvars, started, rd>>
WStep == WApplyAtomic \/ WApplyDrain \/ WSend \/ WNotifyFirst \/ WStoreAfterNotify \/ WPublishCert \/ WPublishTable \/ WReturn

\* ------------------------------------------------------------------ readers
\* the answers of the state functions, in the shape of a read record
AnsLatest(st) == IF st.ml = <<>> THEN Blank ELSE [Blank EXCEPT !.id = st.ml[1].id, !.inst = st.ml[1].inst]
AnsGet(st, i) == LET g == GetF(st, i) IN
                   IF g = <<>> THEN [Blank EXCEPT !.err = "notfound"] ELSE [Blank EXCEPT !.id = g[1].id, !.inst = g[1].inst]
AnsRange(st, s, e) == LET rs == IF s > e THEN <<>> ELSE RangeF(st, s, e) IN
                        [Blank EXCEPT !.ids = [j \in DOMAIN rs |-> rs[j].id], !.insts = [j \in DOMAIN rs |-> rs[j].inst],
                                      !.err = IF s > e THEN "other" ELSE IF RangeComplete(st, s, e) THEN "" ELSE "notfound"]
AnsTable(t) == IF t = Fail THEN [Blank EXCEPT !.err = "other"] ELSE [Blank EXCEPT !.pt = t, !.ptn = Cardinality(t)]
AnsPT(st, i) == AnsTable(GetPTF(st, i))
\* GetPowerTable with the next instance `nx` read earlier and the cached table read now
AnsPTSplit(st, nx, i) ==
  IF i < st.mf \/ i > nx THEN AnsTable(Fail)
  ELSE IF i = nx /\ st.pt # {} THEN AnsTable(st.pt)
  ELSE AnsTable(GetPTF([st EXCEPT !.pt = {}], i))
AnsPoll(r) == IF subs[r] = <<>> THEN [Blank EXCEPT !.err = "empty"] ELSE [Blank EXCEPT !.id = subs[r][1]]

Subscribed(r) == r \in DOMAIN subs

RInvoke(r, op) ==
  /\ rd[r].pc = "idle" /\ rd[r].nops < MaxOps
  /\ (op.what = "SubPoll") => Subscribed(r)
  /\ (op.what = "Subscribe") => ~Subscribed(r)
  /\ rd' = [rd EXCEPT ![r] = [@ EXCEPT !.pc = "inv", !.op = op, !.lo = completed, !.nops = @ + 1]]
  /\ UNCHANGED <<dvars, started, completed, wpc, wcert>>

Done(r, ans) == [rd EXCEPT ![r] = [@ EXCEPT !.pc = "done", !.res = ans, !.at = Applied]]

\* one atomic evaluation (the code: one critical section, or reads of immutable datastore keys)
RRead(r) ==
  LET op == rd[r].op IN
  /\ rd[r].pc = "inv"
  /\ op.what \notin {"Subscribe", "SubPoll"}
  /\ (op.what = "GetPT") => AtomicPT
  /\ rd' = Done(r, CASE op.what = "Latest" -> AnsLatest(Mem)
                     [] op.what = "Get" -> AnsGet(Mem, op.i)
                     [] op.what = "GetRange" -> AnsRange(Mem, op.i, op.e)
                     [] op.what = "GetPT" -> AnsPT(Mem, op.i))
  /\ UNCHANGED <<dvars, started, completed, wpc, wcert>>
\* deviation: GetPowerTable in two critical sections
RReadNext(r) ==
  /\ rd[r].pc = "inv" /\ rd[r].op.what = "GetPT" /\ ~AtomicPT
  /\ rd' = [rd EXCEPT ![r] = [@ EXCEPT !.pc = "mid", !.tmp = NextInst(Mem)]]
  /\ UNCHANGED <<dvars, started, completed, wpc, wcert>>
RReadTable(r) ==
  /\ rd[r].pc = "mid" /\ rd[r].op.what = "GetPT"
  /\ rd' = Done(r, AnsPTSplit(Mem, rd[r].tmp, rd[r].op.i))
  /\ UNCHANGED <<dvars, started, completed, wpc, wcert>>
\* Subscribe: the channel starts with the latest certificate (one critical section in the code)
RSubscribe(r) ==
  /\ rd[r].pc = "inv" /\ rd[r].op.what = "Subscribe" /\ AtomicSubscribe
  /\ subs' = (r :> (IF mlatest = <<>> THEN <<>> ELSE <<mlatest[1].id>>)) @@ subs
  /\ seen' = (r :> <<>>) @@ seen /\ wiped' = FALSE
  /\ rd' = [Done(r, Blank) EXCEPT ![r].seenpos = 0]
  /\ UNCHANGED <<ds, up, mfirst, mlatest, mpt, freq, alts, lastop, started, completed, wpc, wcert>>
\* deviation: the latest certificate is read first, the channel is registered in a second critical section
RSubscribeRead(r) ==
  /\ rd[r].pc = "inv" /\ rd[r].op.what = "Subscribe" /\ ~AtomicSubscribe
  /\ rd' = [rd EXCEPT ![r] = [@ EXCEPT !.pc = "mid", !.tmp = IF mlatest = <<>> THEN None ELSE Applied]]
  /\ UNCHANGED <<dvars, started, completed, wpc, wcert>>
RSubscribeRegister(r) ==
  /\ rd[r].pc = "mid" /\ rd[r].op.what = "Subscribe"
  /\ subs' = (r :> (IF rd[r].tmp = None THEN <<>> ELSE <<Cur.hist[rd[r].tmp].id>>)) @@ subs
  /\ seen' = (r :> <<>>) @@ seen /\ wiped' = FALSE
  /\ rd' = [Done(r, Blank) EXCEPT ![r].seenpos = 0]
  /\ UNCHANGED <<ds, up, mfirst, mlatest, mpt, freq, alts, lastop, started, completed, wpc, wcert>>
\* a non-blocking receive
RPoll(r) ==
  /\ rd[r].pc = "inv" /\ rd[r].op.what = "SubPoll" /\ Subscribed(r)
  /\ rd' = Done(r, AnsPoll(r))
  /\ subs' = [subs EXCEPT ![r] = <<>>]
  /\ seen' = [seen EXCEPT ![r] = IF subs[r] = <<>> THEN @ ELSE subs[r]] /\ wiped' = FALSE
  /\ UNCHANGED <<ds, up, mfirst, mlatest, mpt, freq, alts, lastop, started, completed, wpc, wcert>>

\* the read as the client sees it when it responds now
PosOfId(a, id) == IF \E k \in 1..Len(a.hist) : a.hist[k].id = id THEN CHOOSE k \in 1..Len(a.hist) : a.hist[k].id = id ELSE 0
IsRecv(x) == x.op.what = "SubPoll"
ReadRec(r) ==
  LET x == rd[r]
      got == IsRecv(x) /\ x.res.err = ""
  IN [x.res EXCEPT !.what = x.op.what, !.i = x.op.i, !.e = x.op.e, !.lo = x.lo, !.hi = started,
                   !.wit = IF IsRecv(x) THEN x.seenpos ELSE x.wit,
                   !.inst = IF got THEN Cur.first + PosOfId(Cur, x.res.id) - 1 ELSE x.res.inst]
\* what the client has witnessed after this answer: the newest certificate Latest or a receive gave it
RRespond(r) ==
  /\ rd[r].pc = "done"
  /\ LET x == rd[r]
         y == IF x.op.what = "Latest" /\ x.res.inst # None THEN LPos(Cur, x.res.inst)
              ELSE IF IsRecv(x) /\ x.res.err = "" THEN PosOfId(Cur, x.res.id) ELSE 0
     IN rd' = [rd EXCEPT ![r] = Idle(LMax(x.wit, y), IF IsRecv(x) /\ x.res.err = "" THEN y ELSE x.seenpos, x.nops)]
  /\ UNCHANGED <<dvars, started, completed, wpc, wcert>>

RStep(r) == RRead(r) \/ RReadNext(r) \/ RReadTable(r) \/ RSubscribe(r) \/ RSubscribeRead(r) \/ RSubscribeRegister(r)
            \/ RPoll(r) \/ RRespond(r)

\* ================= the C09 concurrency clauses as invariants of the design =================
\* the driver's bracket is sound: lo <= (state index at which the read took effect) <= hi, and the counters bracket the store
CountersBracket == completed <= Applied /\ Applied <= started
BracketSound == \A r \in Readers : rd[r].pc = "done" => (rd[r].lo <= rd[r].at /\ rd[r].at <= started)
\* every answer is the store's answer in some state of its bracket
Linearizable == \A r \in Readers : rd[r].pc = "done" => LinOK(Cur, ReadRec(r))
LinAdmissible == \A r \in Readers : (rd[r].pc = "done" /\ rd[r].op.what = "GetPT") => LinPTAdm(Cur, ReadRec(r))
\* subscribers never block the writer: the Put can always take effect
WritersNeverBlock == wpc = "called" => ~PutBlocks
\* at rest every subscriber has the latest certificate or has it waiting
QuiescentSubsSeeLatest == (wpc = "idle" /\ \A r \in Readers : rd[r].pc = "idle") => SubsSeeLatest
=============================================================================

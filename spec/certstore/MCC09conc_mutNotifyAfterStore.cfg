SPECIFICATION MCCSpec
CONSTANTS
  DefaultF = 2
  ResumeWipe = TRUE
  DrainFirst = TRUE
  LatestLast = TRUE
  Firsts = {0}
  MaxLen = 3
  SubIds = {1, 2}
  Rich = FALSE
  CrashPoints = FALSE
  Readers = {r1}
  MaxOps = 3
  MaxPuts = 2
  CFirst = 1
  CF = 2
  Wide = FALSE
  AtomicPT = TRUE
  AtomicPut = TRUE
  NotifyAfterStore = FALSE
  DrainThenSend = TRUE
  AtomicSubscribe = TRUE
INVARIANTS Linearizable
SYMMETRY Sym
CHECK_DEADLOCK FALSE

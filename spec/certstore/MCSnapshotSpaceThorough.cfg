SPECIFICATION MCSpecSpace
CONSTANTS
  CheckContiguity = TRUE
  CheckSurplus = TRUE
  CheckHeaderLatest = TRUE
  CheckCheckpoint = TRUE
  CheckFinal = TRUE
  CheckManifest = TRUE
  ExportInclusive = TRUE
  Firsts = {0, 1}
  MaxLen = 0
  F = 2
  Tables <- TablesTwo
  MaxBlocks = 3
  SpaceInsts = {0, 1, 2, 3}
  SpaceDeltas <- DeltasThree
INVARIANTS ImportIffValid AcceptedIsWellFormed
CHECK_DEADLOCK FALSE

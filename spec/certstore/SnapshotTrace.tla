--------------------------- MODULE SnapshotTrace ---------------------------
(* Trace validation of the real snapshot export / import (certstore/snapshot.go) against Snapshot.tla.
   Driver: harness/drivers/snapshot.  One NDJSON line per call:

     Store   the history Put into the exporter          -> the model store st
     Proj    the exporter's observable state            -> xp  (must be Proj(st): conformance, C09's business)
     Export  ExportSnapshot(e) / ExportLatestSnapshot   -> snap (the bytes, as header + complete blocks)
     Import  the real import of some bytes into an EMPTY datastore, then OpenStore + full projection

   Import events carry the bytes as an abstract snapshot s (header fields, completely present certificate
   blocks, what follows the last complete block), the manifest and the checkpoint frequency of the call.
   TLC evaluates Snapshot.tla on them:
     C17_*   clauses of the property text (failure = VIOLATION):
             - the bytes are exactly an export (first <= e <= latest) and the manifest does not contradict the header
               => accepted, and the imported store shows the exporter's certificates / tables / latest up to e;
             - s is truncated / has a gap / is reordered / has surplus certificates / disagrees with its header /
               disagrees with the manifest / its deltas miss a committed table (Snapshot.tla's declarative
               predicates, not the driver's label) => rejected (an error; a panic is not a rejection);
             - the digest returned by an export is the digest of the bytes it wrote.
     Conf_*  the code still behaves like Import/Export of Snapshot.tla where the property is silent (verdict on
             inputs outside the listed classes - trailing junk, forged signature, compensated mid-chain delta,
             out-of-range end points), the driver's class labels are what Snapshot.tla says they are.     *)
EXTENDS Snapshot, Json, TLCExt
CONSTANT TraceFile
VARIABLES l, obs, bad, st, xp, snap
tvars == <<l, obs, bad, st, xp, snap>>

TraceLog == ndJsonDeserialize(TraceFile)
Ev == TraceLog[l]
IsEvent(e) == l <= Len(TraceLog) /\ TraceLog[l].ev = e /\ l' = l + 1

NoObs == [kind |-> "none"]
NoS == [first |-> 0, latest |-> 0, init |-> Fail, blocks |-> <<>>, hdrTorn |-> TRUE, torn |-> ""]
NoProj == [first |-> 0, latest |-> -1, certs |-> <<>>, tables |-> <<>>]
NoSnap == [ok |-> FALSE, e |-> 0, s |-> NoS]

SOf(p) == [first |-> p.first, latest |-> p.latest, init |-> p.init, blocks |-> p.blocks, hdrTorn |-> p.hdrTorn, torn |-> p.torn]
EvProj(p) == [first |-> p.first, latest |-> p.latest, certs |-> p.certs, tables |-> p.tables]
ProjUpTo(p, e) == [first |-> p.first, latest |-> e, certs |-> SubSeq(p.certs, 1, e - p.first + 1),
                   tables |-> SubSeq(p.tables, 1, e - p.first + 2)]
LastId(p) == IF p.certs = <<>> THEN "" ELSE p.certs[Len(p.certs)].id
ListedClasses == {"trunc", "gap", "reorder", "surplus", "header", "manifest", "baddelta"}
ClassesOf(s, m, F) == {x \in ListedClasses :
                         CASE x = "trunc" -> IsTruncated(s) [] x = "gap" -> IsGap(s) [] x = "reorder" -> IsReorder(s)
                           [] x = "surplus" -> IsSurplus(s) [] x = "header" -> IsHeaderMismatch(s)
                           [] x = "manifest" -> IsManifestMismatch(s, m) [] x = "baddelta" -> IsBadDelta(s, F)}

TInit == l = 1 /\ obs = NoObs /\ bad = {} /\ st = NoStore /\ xp = NoProj /\ snap = NoSnap

TrStore ==
  /\ IsEvent("Store")
  /\ LET s2 == [first |-> Ev.first, init |-> Ev.init, certs |-> Ev.certs] IN
       /\ st' = s2
       /\ obs' = [kind |-> "Store", puterrs |-> Ev.puterrs, wf |-> (Len(s2.certs) <= 60 => WellFormed(s2))]
  /\ xp' = NoProj /\ snap' = NoSnap

TrProj ==
  /\ IsEvent("Proj")
  /\ xp' = EvProj(Ev)
  /\ obs' = [kind |-> "Proj", errs |-> Ev.errs, panic |-> Ev.panic, match |-> (EvProj(Ev) = Proj(st)), lid |-> Ev.lid, explid |-> LastId(Proj(st))]
  /\ UNCHANGED <<st, snap>>

TrExport ==
  /\ IsEvent("Export")
  /\ LET inr == Ev.e >= st.first /\ Ev.e <= Latest(st)
         okc == Ev.err = "" /\ Ev.panic = ""
         p == SOf(Ev.parsed)
     IN /\ snap' = IF okc THEN [ok |-> TRUE, e |-> Ev.e, s |-> p] ELSE NoSnap
        /\ obs' = [kind |-> "Export", api |-> Ev.api, e |-> Ev.e, ok |-> okc, inrange |-> inr, panic |-> Ev.panic,
                   latest |-> Latest(st), xlatest |-> xp.latest,
                   cid |-> Ev.cid, recid |-> Ev.recid, digest |-> Ev.digest, redigest |-> Ev.redigest,
                   parsed |-> p, hdr |-> Ev.hdr, version |-> Ev.parsed.version, pbad |-> Ev.parsed.bad,
                   exp |-> IF Ev.e <= Latest(st) /\ Ev.e + 1 >= st.first THEN Export(st, Ev.e) ELSE NoS]
  /\ UNCHANGED <<st, xp>>

TrImport ==
  /\ IsEvent("Import")
  /\ LET s == SOf(Ev.s)
         m == [on |-> Ev.man.on, first |-> Ev.man.first, hasTable |-> Ev.man.hasTable, table |-> Ev.man.table]
         r == Import(s, m, Ev.F)
         isx == snap.ok /\ s = snap.s /\ snap.e >= st.first /\ snap.e <= Latest(st) /\ snap.e <= xp.latest /\ xp.first = st.first
         p == EvProj(Ev.proj)
     IN obs' = [kind |-> "Import", class |-> Ev.class, acc |-> (Ev.err = "" /\ Ev.panic = ""), rej |-> (Ev.err # "" /\ Ev.panic = ""),
                panic |-> Ev.panic, openerr |-> Ev.openerr, sbad |-> Ev.s.bad,
                expok |-> r.ok, why |-> r.why, proj |-> p, lid |-> Ev.proj.lid, projerrs |-> Ev.proj.errs,
                expproj |-> IF r.ok THEN Proj(r.store) ELSE NoProj,
                classes |-> ClassesOf(s, m, Ev.F), valid |-> Valid(s, m, Ev.F),
                isexport |-> isx, want |-> IF isx THEN ProjUpTo(xp, snap.e) ELSE NoProj]
  /\ UNCHANGED <<st, xp, snap>>

TNext == TrStore \/ TrProj \/ TrExport \/ TrImport

\* ------------------------------------------------------------------ property monitors (C17)
Imp == obs.kind = "Import"
\* the imported bytes are an export of the store, and the manifest (if any) agrees with its header
RT == Imp /\ obs.isexport /\ "manifest" \notin obs.classes
C17_RoundTripAccepted == RT => obs.acc /\ obs.openerr = ""
C17_RoundTripCerts == (RT /\ obs.acc /\ obs.openerr = "") => obs.proj.certs = obs.want.certs
C17_RoundTripTables == (RT /\ obs.acc /\ obs.openerr = "") => obs.proj.tables = obs.want.tables /\ obs.projerrs = 0
C17_Latest == (RT /\ obs.acc /\ obs.openerr = "") =>
                 /\ obs.proj.latest = obs.want.latest /\ obs.proj.first = obs.want.first
                 /\ obs.lid = LastId(obs.want)
C17_Digest == (obs.kind = "Export" /\ obs.ok) => obs.digest = obs.redigest /\ obs.digest # ""
Rejects(x) == (Imp /\ x \in obs.classes) => obs.rej
C17_RejectTruncated == Rejects("trunc")
C17_RejectGap == Rejects("gap")
C17_RejectReorder == Rejects("reorder")
C17_RejectSurplus == Rejects("surplus")
C17_RejectHeaderMismatch == Rejects("header")
C17_RejectManifestMismatch == Rejects("manifest")
C17_RejectBadDelta == Rejects("baddelta")

\* ------------------------------------------------------------------ conformance
Conf_Store == obs.kind = "Store" => obs.puterrs = 0 /\ obs.wf
Conf_ExporterProj == obs.kind = "Proj" => obs.match /\ obs.errs = 0 /\ obs.panic = "" /\ obs.lid = obs.explid
\* an export succeeds iff the end point is stored (an end point below the first instance yields a header without certificates)
Conf_ExportVerdict == obs.kind = "Export" => obs.panic = "" /\ (obs.ok <=> obs.e <= obs.latest)
                                             /\ (obs.api = "latest" => obs.e = obs.latest /\ obs.e = obs.xlatest)
Conf_ExportShape == (obs.kind = "Export" /\ obs.ok) =>
                      /\ obs.parsed = obs.exp /\ obs.version = 1 /\ obs.pbad = 0 /\ obs.cid = obs.recid
                      /\ obs.hdr = [first |-> obs.parsed.first, latest |-> obs.parsed.latest, init |-> obs.parsed.init]
Conf_ImportVerdict == Imp => obs.panic = "" /\ (obs.acc <=> obs.expok) /\ obs.sbad = 0
Conf_ImportStore == (Imp /\ obs.acc /\ obs.expok) => obs.openerr = "" /\ obs.proj = obs.expproj /\ obs.projerrs = 0 /\ obs.lid = LastId(obs.expproj)
\* the driver's labels mean what Snapshot.tla means by them (keeps the vacuity counts of the check honest)
Conf_ClassLabel == Imp =>
   CASE obs.class \in ListedClasses -> obs.class \in obs.classes
     [] obs.class = "dup" -> {"reorder", "surplus"} \cap obs.classes # {}
     [] obs.class = "emptyexport" -> "header" \in obs.classes
     [] obs.class = "hdrinit" -> "baddelta" \in obs.classes
     [] obs.class = "none" -> obs.isexport /\ obs.valid
     [] OTHER -> obs.classes = {}       \* obs-*: none of the property's reasons to reject applies

\* ------------------------------------------------------------------ verdict plumbing (see WALTrace.tla)
Clauses == {"C17_RoundTripAccepted", "C17_RoundTripCerts", "C17_RoundTripTables", "C17_Latest", "C17_Digest",
            "C17_RejectTruncated", "C17_RejectGap", "C17_RejectReorder", "C17_RejectSurplus", "C17_RejectHeaderMismatch",
            "C17_RejectManifestMismatch", "C17_RejectBadDelta",
            "Conf_Store", "Conf_ExporterProj", "Conf_ExportVerdict", "Conf_ExportShape", "Conf_ImportVerdict", "Conf_ImportStore",
            "Conf_ClassLabel"}
Holds(c) == CASE c = "C17_RoundTripAccepted" -> C17_RoundTripAccepted [] c = "C17_RoundTripCerts" -> C17_RoundTripCerts
              [] c = "C17_RoundTripTables" -> C17_RoundTripTables [] c = "C17_Latest" -> C17_Latest [] c = "C17_Digest" -> C17_Digest
              [] c = "C17_RejectTruncated" -> C17_RejectTruncated [] c = "C17_RejectGap" -> C17_RejectGap
              [] c = "C17_RejectReorder" -> C17_RejectReorder [] c = "C17_RejectSurplus" -> C17_RejectSurplus
              [] c = "C17_RejectHeaderMismatch" -> C17_RejectHeaderMismatch
              [] c = "C17_RejectManifestMismatch" -> C17_RejectManifestMismatch [] c = "C17_RejectBadDelta" -> C17_RejectBadDelta
              [] c = "Conf_Store" -> Conf_Store [] c = "Conf_ExporterProj" -> Conf_ExporterProj
              [] c = "Conf_ExportVerdict" -> Conf_ExportVerdict [] c = "Conf_ExportShape" -> Conf_ExportShape
              [] c = "Conf_ImportVerdict" -> Conf_ImportVerdict [] c = "Conf_ImportStore" -> Conf_ImportStore
              [] c = "Conf_ClassLabel" -> Conf_ClassLabel
TStep == /\ TNext
         /\ LET nb == {c \in Clauses : ~(Holds(c))'} IN
              /\ bad' = bad \cup {<<l, c>> : c \in nb}
              /\ (nb = {} \/ Cardinality(bad) > 2000 \/ PrintT(<<"VERIF_BAD", l, nb>>))
TSpec == TInit /\ [][TStep]_tvars
=============================================================================

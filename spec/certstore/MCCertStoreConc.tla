--------------------------- MODULE MCCertStoreConc ---------------------------
(* Exhaustive configuration of CertStoreConc.tla: one writer putting MaxPuts valid successors whose
   power table changes on EVERY certificate (across a checkpoint with frequency CF), Readers each
   performing up to MaxOps operations (Latest, Get, GetRange, GetPowerTable around the head,
   Subscribe, non-blocking receive), every interleaving of invocation / effect / response steps. *)
EXTENDS MCCertStore, CertStoreConc
CONSTANTS MaxPuts, CFirst, CF, Wide
Sym == Permutations(Readers)

TSeq == IF Rich THEN <<TA, TB, TC, TA, TB>> ELSE <<TA, TC, TA, TC, TA>>
MCCert(p) == Cert(CFirst + p - 1, TSeq[p], TSeq[p + 1], TSeq[p + 1], "ok")
Insts == CFirst .. (CFirst + MaxPuts)
WideOps == {Op("Latest", 0, 0), Op("Subscribe", 0, 0), Op("SubPoll", 0, 0)}
           \cup {Op("Get", i, 0) : i \in CFirst .. (CFirst + MaxPuts - 1)}
           \cup {Op("GetPT", i, 0) : i \in Insts}
           \cup {Op("GetRange", CFirst, CFirst + MaxPuts - 1), Op("GetRange", CFirst + 1, CFirst + 1)}
\* around the head only: the instance the first Put creates and the two next ones
NarrowOps == {Op("Latest", 0, 0), Op("Subscribe", 0, 0), Op("SubPoll", 0, 0), Op("Get", CFirst, 0),
              Op("GetPT", CFirst + 1, 0), Op("GetPT", CFirst + 2, 0), Op("GetRange", CFirst, CFirst + 1)}
Ops == IF Wide THEN WideOps ELSE NarrowOps

MCCInit == CInit(CFirst, TSeq[1], CF)
MCCNext == \/ started < MaxPuts /\ WCall(MCCert(started + 1))
           \/ WStep
           \/ \E r \in Readers : RStep(r) \/ \E op \in Ops : RInvoke(r, op)
MCCSpec == MCCInit /\ [][MCCNext]_cvars
\* the tables really change on every certificate (otherwise a stale table is indistinguishable)
ASSUME \A p \in 1..4 : TSeq[p] # TSeq[p + 1]
=============================================================================

SPECIFICATION MCSpec
CONSTANTS
  DefaultF = 2
  ResumeWipe = TRUE
  DrainFirst = TRUE
  LatestLast = FALSE
  Firsts = {0, 1}
  MaxLen = 3
  SubIds = {}
  Rich = FALSE
  CrashPoints = TRUE
INVARIANTS LiveIsHistory TablesProper RangesExact SubsSeeLatest PutNeverBlocks CrashConsistent WipeResumed Repeatable
PROPERTIES Immutable LatestMonotone
CHECK_DEADLOCK FALSE

SPECIFICATION MCSpec
CONSTANTS
  DefaultF = 2
  ResumeWipe = TRUE
  DrainFirst = TRUE
  LatestLast = TRUE
  Firsts = {0, 1}
  MaxLen = 4
  SubIds = {}
  Rich = TRUE
  CrashPoints = TRUE
INVARIANTS LiveIsHistory TablesProper RangesExact SubsSeeLatest PutNeverBlocks CrashConsistent WipeResumed Repeatable
PROPERTIES Immutable LatestMonotone
CHECK_DEADLOCK FALSE

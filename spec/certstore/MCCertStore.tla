--------------------------- MODULE MCCertStore ---------------------------
(* Exhaustive configuration of CertStore.tla: every interleaving of create / open-or-create / open,
   put (valid successor, stale, duplicate, gap, before-first, wrong delta, wrong committed table, delta to the
   empty table, bottom / invalid chain), subscribe / receive / unsubscribe, wipe, crash between calls, crash
   after every strict prefix of the datastore writes of put / create / wipe / resumed wipe, and reopen with
   every open variant.  Checkpoint frequency F is small so that checkpoints are crossed constantly. *)
EXTENDS CertStore
CONSTANTS Firsts,      \* first instances tried by create
          MaxLen,      \* longest history
          SubIds,      \* subscriber identities
          Rich,        \* TRUE: 3 tables (power change, key change, removal), FALSE: 2 tables
          CrashPoints  \* TRUE: the process may also stop between any two datastore writes of an operation (C10)

\* power tables over participants 1..2, keys 1..2
TA == {<<1, 2, 1>>, <<2, 1, 1>>}
TB == {<<1, 2, 1>>, <<2, 1, 2>>}          \* key of 2 changed
TC == {<<1, 3, 1>>}                       \* 2 removed, power of 1 changed
Garbage == {<<0, 0, 1>>}                  \* a CID that is no table's
Tabs == IF Rich THEN {TA, TB, TC} ELSE {TA, TC}
InitTabs == IF Rich THEN {TA, TB} ELSE {TA}

RECURSIVE SortIds(_)
SortIds(S) == IF S = {} THEN <<>> ELSE LET m == CHOOSE x \in S : \A y \in S : x <= y IN <<m>> \o SortIds(S \ {m})
DiffEntry(o, n, p) ==
  IF Has(o, p) /\ Has(n, p) THEN LET a == Entry(o, p)  b == Entry(n, p) IN <<p, b[2] - a[2], IF b[3] # a[3] THEN b[3] ELSE 0>>
  ELSE IF Has(n, p) THEN Entry(n, p) ELSE <<p, 0 - Entry(o, p)[2], 0>>
\* certs.MakePowerTableDiff
Diff(o, n) == LET ids == SortIds({e[1] : e \in o \cup n})
                  raw == [i \in 1..Len(ids) |-> DiffEntry(o, n, ids[i])]
              IN SelectSeq(raw, LAMBDA e : ~(e[2] = 0 /\ e[3] = 0))
ASSUME \A o \in Tabs, n \in Tabs \cup {{}} : ApplyDelta(o, Diff(o, n)) = n
ASSUME ApplyDelta(TA, <<<<2, 1, 0>>, <<1, 1, 0>>>>) = Fail /\ ApplyDelta(TA, <<<<2, 0, 1>>>>) = Fail
ASSUME ApplyDelta(TC, <<<<2, 1, 0>>>>) = Fail /\ ApplyDelta(TC, <<<<1, 0 - 3, 2>>>>) = Fail /\ ApplyDelta(TC, <<<<1, 0 - 4, 0>>>>) = Fail

Cert(i, from, to, supp, chain) == [id |-> <<i, from, to, supp, chain>>, inst |-> i, chain |-> chain, delta |-> Diff(from, to), supp |-> supp]
\* candidates around the live store's next instance
FullCands ==
  LET n == NextInst(Mem) IN
    {Cert(n, f, t, s, "ok") : f \in Tabs, t \in Tabs \cup {{}}, s \in Tabs \cup {{}, Garbage}}
    \cup {Cert(n, mpt, mpt, mpt, ch) : ch \in {"bottom", "invalid"}}
    \cup {Cert(n + 1, mpt, t, t, "ok") : t \in Tabs}
    \cup (IF n > mfirst THEN {Cert(n - 1, f, t, t, "ok") : f \in Tabs, t \in Tabs} ELSE {})
    \cup (IF mfirst > 0 THEN {Cert(mfirst - 1, mpt, mpt, mpt, "ok")} ELSE {})
\* with crash points: every valid successor, one wrong delta, one stale, one gap (rejections write nothing)
LeanCands ==
  LET n == NextInst(Mem) IN
    {Cert(n, mpt, t, t, "ok") : t \in Tabs \cup {{}}} \cup {Cert(n + 1, mpt, mpt, mpt, "ok")}
    \cup {Cert(n, f, f, f, "ok") : f \in Tabs \ {mpt}}
    \cup (IF n > mfirst THEN {Cert(n - 1, mpt, mpt, mpt, "ok")} ELSE {})
Cands == IF CrashPoints THEN LeanCands ELSE FullCands

RECURSIVE SetSeq(_)
SetSeq(S) == IF S = {} THEN <<>> ELSE LET m == CHOOSE x \in S : TRUE IN <<m>> \o SetSeq(S \ {m})
AllV == Variants(Firsts, InitTabs \cup {{}})

MCCrashNext ==
  \/ /\ up /\ Len(Cur.hist) < MaxLen
     /\ \E c \in {x \in Cands : PutVerdict(Mem, x) = "ok"} : \E k \in 0..2 :
           k < Len(PutWrites(Mem, c)) /\ CrashDuringPut(c, SubSeq(PutWrites(Mem, c), 1, k))
  \/ \E v \in AllV : \E k \in 0..1 : v.variant # "open" /\ v.table # {} /\ CrashDuringCreate(v, SubSeq(CreateWrites(v.first, v.table), 1, k))
  \/ /\ up /\ (CrashDuringWipe(<<>>) \/ \E S \in SUBSET DelKeys(ds) : CrashDuringWipe(<<TombW>> \o SetSeq(S)))
  \/ /\ ~up /\ ds.tomb /\ \E S \in SUBSET DelKeys(ds) : CrashDuringResume(SetSeq(S))
MCNext ==
  \/ \E v \in AllV : Open(v)
  \/ /\ up /\ Len(Cur.hist) < MaxLen /\ \E c \in Cands : Put(c)
  \/ /\ up /\ Len(Cur.hist) = MaxLen /\ \E c \in {x \in Cands : x.inst # NextInst(Mem)} : Put(c)
  \/ DeleteAll
  \/ \E s \in SubIds : Subscribe(s) \/ Recv(s) \/ Unsubscribe(s)
  \/ Crash
  \/ CrashPoints /\ MCCrashNext
MCSpec == DInit /\ [][MCNext]_dvars

CrashConsistent == \A v \in AllV : CrashConsistentFor(v)
WipeResumed == \A v \in AllV : WipeResumedFor(v)
Repeatable == \A v \in AllV : RepeatableAfter(v)
\* liveness: a subscriber that stays subscribed keeps getting the latest certificate
Fair == \A s \in SubIds : WF_dvars(Recv(s))
MCLive == MCSpec /\ Fair
EventuallyLatest == \A s \in SubIds : []<>(~up \/ s \notin DOMAIN subs \/ mlatest = <<>> \/ seen[s] = <<mlatest[1].id>>)
=============================================================================

SPECIFICATION MCSpecStores
CONSTANTS
  CheckContiguity = TRUE
  CheckSurplus = TRUE
  CheckHeaderLatest = TRUE
  CheckCheckpoint = FALSE
  CheckFinal = TRUE
  CheckManifest = TRUE
  ExportInclusive = TRUE
  Firsts = {0, 3}
  MaxLen = 2
  F = 2
  Tables <- TablesSmall
  MaxBlocks = 0
  SpaceInsts = {}
  SpaceDeltas = {}
INVARIANTS StoresWellFormed RoundTrip RejectsCorrupt TrailingJunk
CHECK_DEADLOCK FALSE

----------------------------- MODULE CertStore -----------------------------
(* certstore/certstore.go as a state machine, written to be bound to the code.

   One action per public call (CreateStore, OpenOrCreateStore, OpenStore, Put, DeleteAll,
   Subscribe / receive / unsubscribe; Latest, Get, GetRange, GetPowerTable are state functions)
   plus the environment's actions: Crash between two calls and CrashDuring(op, ws) = the process
   stops after the datastore writes `ws`, a strict prefix of the write sequence of `op`
   (C10: Put = cert, optional checkpoint, latest pointer; Create = initial table, first-instance
   marker; DeleteAll = tombstone, one delete per key in any order, tombstone delete).

   Every operation is a *function* from (durable state, memory) to (result, new state, datastore
   writes in code order).  The atomic actions apply all writes, CrashDuring applies a prefix;
   the trace specs call the same functions with the arguments the Go driver logged.

   durable  ds  = [cert : inst -> certificate, power : inst -> table, latest, first, tomb]
                  (keys /certs/<i>, /power/<i>, /latestCert, /firstInstance, /tombstone of the
                  store's namespace; None = key absent)
   memory   up, mfirst, mlatest (<<>> or <<cert>>), mpt (latestPowerTable), freq
            (powerTableFrequency of the live object), subs (subscriber -> channel of capacity 1)
   ghost    alts = the abstract states the property allows now (one, or {before, after} of an
            interrupted operation until a reopen shows which), lastop = the interrupted
            operation, seen = what each subscriber received last, wiped = a wipe completed in
            this step.

   power table   = set of <<participant, power, key>>   (participants are positive integers)
   delta         = sequence of <<participant, power delta, new key or 0>>
   certificate   = [id, inst, chain \in {"ok","bottom","invalid"}, delta, supp]
                   supp = the committed next power table (the model's CID is injective: the
                   table itself), id = identity of the whole certificate (digest in traces).   *)
EXTENDS Integers, Sequences, FiniteSets, TLC

CONSTANTS DefaultF,    \* checkpoint frequency of a freshly opened Store (code: 60*24)
          ResumeWipe,  \* named deviation (DESIGN 8 #1): TRUE  = open completes a wipe whose tombstone is in
                       \* the store namespace (code since e0b9ff2); FALSE = open ignores that tombstone
          DrainFirst,  \* named deviation: TRUE = Put drains a subscriber channel before sending (code)
          LatestLast   \* named deviation: TRUE = Put advances the latest pointer after the other writes (code)

VARIABLES ds, up, mfirst, mlatest, mpt, freq, subs, alts, lastop, seen, wiped
dvars == <<ds, up, mfirst, mlatest, mpt, freq, subs, alts, lastop, seen, wiped>>

None == -1
Fail == {<<0, 0, 0>>}            \* "ApplyPowerTableDiffs returned an error" / "no table"; not a table

\* ------------------------------------------------------------------ power-table delta algebra
\* transcription of certs.ApplyPowerTableDiffsToMap for one diff
Has(t, p) == \E e \in t : e[1] = p
Entry(t, p) == CHOOSE e \in t : e[1] = p
ApplyOne(t, e) ==
  IF e[2] = 0 /\ e[3] = 0 THEN Fail                              \* empty delta entry
  ELSE IF Has(t, e[1])
       THEN LET o == Entry(t, e[1])
                np == o[2] + e[2]
            IN IF e[3] = o[3] THEN Fail                            \* unchanged key
               ELSE IF e[3] # 0 /\ np = 0 THEN Fail                \* new key while removing all power
               ELSE IF np < 0 THEN Fail
               ELSE IF np = 0 THEN t \ {o}
               ELSE (t \ {o}) \cup {<<e[1], np, IF e[3] # 0 THEN e[3] ELSE o[3]>>}
       ELSE IF e[2] <= 0 \/ e[3] = 0 THEN Fail ELSE t \cup {e}
RECURSIVE ApplySeq(_, _)
ApplySeq(t, d) == IF t = Fail \/ d = <<>> THEN t ELSE ApplySeq(ApplyOne(t, Head(d)), Tail(d))
SortedDelta(d) == \A i \in 1..(Len(d) - 1) : d[i][1] < d[i + 1][1]
ApplyDelta(t, d) == IF t = Fail \/ ~SortedDelta(d) THEN Fail ELSE ApplySeq(t, d)

\* ------------------------------------------------------------------ durable state and writes
EmptyDS == [cert |-> <<>>, power |-> <<>>, latest |-> None, first |-> None, tomb |-> FALSE]
W(op, t, i, v) == [op |-> op, t |-> t, i |-> i, v |-> v]
Key(w) == [op |-> w.op, t |-> w.t, i |-> w.i]            \* what a datastore wrapper can see
Without(f, i) == [j \in (DOMAIN f) \ {i} |-> f[j]]
Do(d, w) ==
  IF w.op = "put"
  THEN CASE w.t = "cert"   -> [d EXCEPT !.cert = (w.i :> w.v) @@ @]
         [] w.t = "power"  -> [d EXCEPT !.power = (w.i :> w.v) @@ @]
         [] w.t = "latest" -> [d EXCEPT !.latest = w.v]
         [] w.t = "first"  -> [d EXCEPT !.first = w.v]
         [] w.t = "tomb"   -> [d EXCEPT !.tomb = TRUE]
  ELSE CASE w.t = "cert"   -> [d EXCEPT !.cert = Without(@, w.i)]
         [] w.t = "power"  -> [d EXCEPT !.power = Without(@, w.i)]
         [] w.t = "latest" -> [d EXCEPT !.latest = None]
         [] w.t = "first"  -> [d EXCEPT !.first = None]
         [] w.t = "tomb"   -> [d EXCEPT !.tomb = FALSE]
RECURSIVE DoAll(_, _)
DoAll(d, ws) == IF ws = <<>> THEN d ELSE DoAll(Do(d, Head(ws)), Tail(ws))

\* keys a wipe has to delete (everything in the namespace but the tombstone)
DelKeys(d) == {W("del", "cert", i, 0) : i \in DOMAIN d.cert} \cup {W("del", "power", i, 0) : i \in DOMAIN d.power}
              \cup (IF d.latest # None THEN {W("del", "latest", None, 0)} ELSE {})
              \cup (IF d.first # None THEN {W("del", "first", None, 0)} ELSE {})
TombW == W("put", "tomb", None, 0)
UntombW == W("del", "tomb", None, 0)
SeqSet(s) == {s[i] : i \in DOMAIN s}
Injective(s) == Cardinality(SeqSet(s)) = Len(s)
\* ws is a strict prefix of some write sequence  tombstone, deletes (any order), tombstone delete
IsWipeCut(d, ws) ==
  IF ws = <<>> THEN TRUE
  ELSE /\ Head(ws) = TombW
       /\ LET dels == Tail(ws) IN Injective(dels) /\ SeqSet(dels) \subseteq DelKeys(d)
\* ... of the deletes-then-untomb that open performs when it finds the tombstone
IsResumeCut(d, ws) == d.tomb /\ Injective(ws) /\ SeqSet(ws) \subseteq DelKeys(d)

\* ------------------------------------------------------------------ reads (state functions of the code)
St(d, mf, ml, pt, fq) == [d |-> d, mf |-> mf, ml |-> ml, pt |-> pt, fq |-> fq]
NextInst(st) == IF st.ml = <<>> THEN st.mf ELSE st.ml[1].inst + 1
LatestInst(st) == IF st.ml = <<>> THEN None ELSE st.ml[1].inst

GetF(st, i) == IF i \in DOMAIN st.d.cert THEN <<st.d.cert[i]>> ELSE <<>>          \* <<>> = ErrCertNotFound
RECURSIVE RangeF(_, _, _)
RangeF(st, s, e) == IF s > e \/ s \notin DOMAIN st.d.cert THEN <<>> ELSE <<st.d.cert[s]>> \o RangeF(st, s + 1, e)
RangeComplete(st, s, e) == Len(RangeF(st, s, e)) = e - s + 1

RECURSIVE FoldCerts(_, _, _, _)
FoldCerts(d, t, j, i) == IF t = Fail \/ j >= i THEN t
                         ELSE IF j \notin DOMAIN d.cert THEN Fail
                         ELSE FoldCerts(d, ApplyDelta(t, d.cert[j].delta), j + 1, i)
\* GetPowerTable: memory for the next instance, else nearest checkpoint + deltas
GetPTF(st, i) ==
  IF i < st.mf \/ i > NextInst(st) THEN Fail
  ELSE IF i = NextInst(st) /\ st.pt # {} THEN st.pt
  ELSE LET s0 == i - (i % st.fq)
           s == IF s0 < st.mf THEN st.mf ELSE s0
       IN IF s \notin DOMAIN st.d.power THEN Fail ELSE FoldCerts(st.d, st.d.power[s], s, i)

\* ------------------------------------------------------------------ open variants (functions)
AfterResume(d) == IF d.tomb /\ ResumeWipe THEN EmptyDS ELSE d
ResumeWrites(d) == IF d.tomb /\ ResumeWipe THEN "wipe" ELSE "none"
\* result: [err \in {"", "notinit", "other"}, st, created]   (st.d is the datastore afterwards, also on error)
Res(err, st, created) == [err |-> err, st |-> st, created |-> created]
LatestBroken(d) == d.latest # None /\ d.latest \notin DOMAIN d.cert          \* "loading latest cert: not found"
LoadLatest(d) == IF d.latest = None \/ LatestBroken(d) THEN <<>> ELSE <<d.cert[d.latest]>>
CreateWrites(f, t) == <<W("put", "power", f, t), W("put", "first", None, f)>>

OpenStoreF(d0) ==
  LET d == AfterResume(d0)
      ml == LoadLatest(d)
      bad == St(d, None, <<>>, {}, DefaultF)
  IN IF LatestBroken(d) THEN Res("other", bad, FALSE)
     ELSE IF d.first = None THEN Res("notinit", bad, FALSE)
     ELSE LET st0 == St(d, d.first, ml, {}, DefaultF)
              pt == GetPTF(st0, NextInst(st0))
          IN IF pt = Fail THEN Res("other", bad, FALSE) ELSE Res("", St(d, d.first, ml, pt, DefaultF), FALSE)

OpenOrCreateF(d0, f, t) ==
  IF t = {} THEN Res("other", St(d0, None, <<>>, {}, DefaultF), FALSE)
  ELSE
  LET d == AfterResume(d0)
      ml == LoadLatest(d)
      bad == St(d, None, <<>>, {}, DefaultF)
  IN IF LatestBroken(d) THEN Res("other", bad, FALSE)
     ELSE IF d.first # None
     THEN IF d.first # f \/ f \notin DOMAIN d.power THEN Res("other", bad, FALSE)
          ELSE IF d.power[f] # t THEN Res("other", bad, FALSE)
          ELSE IF ml = <<>> THEN Res("", St(d, f, ml, t, DefaultF), FALSE)
          ELSE LET st0 == St(d, f, ml, {}, DefaultF)
                   pt == GetPTF(st0, NextInst(st0))
               IN IF pt = Fail THEN Res("other", bad, FALSE) ELSE Res("", St(d, f, ml, pt, DefaultF), FALSE)
     ELSE LET d2 == DoAll(d, CreateWrites(f, t)) IN
          IF ml = <<>> THEN Res("", St(d2, f, ml, t, DefaultF), TRUE)
          ELSE LET st0 == St(d2, f, ml, {}, DefaultF)
                   pt == GetPTF(st0, NextInst(st0))
               IN IF pt = Fail THEN Res("other", St(d2, None, <<>>, {}, DefaultF), TRUE)
                  ELSE Res("", St(d2, f, ml, pt, DefaultF), TRUE)

CreateF(d0, f, t) ==
  IF t = {} THEN Res("other", St(d0, None, <<>>, {}, DefaultF), FALSE)
  ELSE
  LET d == AfterResume(d0)
      ml == LoadLatest(d)
      bad == St(d, None, <<>>, {}, DefaultF)
  IN IF LatestBroken(d) THEN Res("other", bad, FALSE)
     ELSE IF d.first # None THEN Res("other", bad, FALSE)
     ELSE Res("", St(DoAll(d, CreateWrites(f, t)), f, ml, t, DefaultF), TRUE)

OpenF(v, d0) == CASE v.variant = "open" -> OpenStoreF(d0)
                  [] v.variant = "ooc" -> OpenOrCreateF(d0, v.first, v.table)
                  [] v.variant = "create" -> CreateF(d0, v.first, v.table)

\* ------------------------------------------------------------------ Put (function)
\* verdict: "ok" admitted, "stale" nil without effect, "err" rejected
PutNewPT(st, c) == IF c.delta = <<>> THEN st.pt ELSE ApplyDelta(st.pt, c.delta)
PutVerdict(st, c) ==
  IF c.inst < st.mf THEN "err"
  ELSE IF c.chain # "ok" THEN "err"
  ELSE IF c.inst > NextInst(st) THEN "err"
  ELSE IF c.inst < NextInst(st) THEN "stale"
  ELSE LET npt == PutNewPT(st, c) IN
       IF npt = Fail THEN "err" ELSE IF npt # c.supp THEN "err" ELSE IF npt = {} THEN "err" ELSE "ok"
PutWrites(st, c) ==
  LET body == <<W("put", "cert", c.inst, c)>>
              \o (IF (c.inst + 1) % st.fq = 0 THEN <<W("put", "power", c.inst + 1, PutNewPT(st, c))>> ELSE <<>>)
      ptr == <<W("put", "latest", None, c.inst)>>
  IN IF LatestLast THEN body \o ptr ELSE ptr \o body
PutF(st, c) == IF PutVerdict(st, c) = "ok"
               THEN St(DoAll(st.d, PutWrites(st, c)), st.mf, <<c>>, PutNewPT(st, c), st.fq)
               ELSE st

\* ------------------------------------------------------------------ the abstract history (what the property talks about)
NoStore == [ex |-> FALSE, first |-> 0, hist |-> <<>>, pts |-> <<>>]
Fresh(f, t) == [ex |-> TRUE, first |-> f, hist |-> <<>>, pts |-> <<t>>]
ALatest(a) == a.first + Len(a.hist) - 1                     \* first-1 when empty
ANext(a) == a.first + Len(a.hist)
ACur(a) == a.pts[Len(a.pts)]
\* "admitted only as the immediate successor of the latest one and only if its delta reproduces the
\*  committed next power table (never an empty one)"
ANewPT(a, c) == IF c.delta = <<>> THEN ACur(a) ELSE ApplyDelta(ACur(a), c.delta)
ValidSuccessor(a, c) == /\ a.ex /\ c.inst = ANext(a) /\ c.chain = "ok"
                        /\ LET n == ANewPT(a, c) IN n # Fail /\ n = c.supp /\ n # {}
APut(a, c) == IF ValidSuccessor(a, c) THEN [a EXCEPT !.hist = Append(@, c), !.pts = Append(@, ANewPT(a, c))] ELSE a
ACreate(a, f, t) == IF ~a.ex /\ t # {} THEN Fresh(f, t) ELSE a

\* observable equality of an opened store with an abstract state: Latest, Get and GetPowerTable over
\* [first, latest] (power table also at latest+1); keys beyond the latest pointer are not history
ObsEq(a, st) ==
  /\ a.ex /\ st.mf = a.first
  /\ st.ml = (IF a.hist = <<>> THEN <<>> ELSE <<a.hist[Len(a.hist)]>>)
  /\ \A i \in a.first..ALatest(a) : GetF(st, i) = <<a.hist[i - a.first + 1]>>
  /\ RangeF(st, a.first, ALatest(a)) = a.hist
  /\ \A i \in a.first..ANext(a) : GetPTF(st, i) = a.pts[i - a.first + 1]
\* the same test with every read served from the datastore (as right after a reopen)
ObsEqCold(a, st) == ObsEq(a, st) /\ ObsEq(a, [st EXCEPT !.pt = {}])

\* which abstract states explain the result r of open variant v, given that `as` are allowed
Explains(al, v, r) ==
  CASE v.variant = "open" ->
         IF r.err = "" THEN {a \in al : a.ex /\ ObsEq(a, r.st)}
         ELSE IF r.err = "notinit" THEN {a \in al : ~a.ex} ELSE {}
    [] v.variant = "ooc" ->
         IF v.table = {} THEN (IF r.err = "other" THEN al ELSE {})
         ELSE IF r.err = "" THEN {a \in al : a.ex /\ a.first = v.first /\ a.pts[1] = v.table /\ ObsEq(a, r.st)}
                                \cup {Fresh(v.first, v.table) : a \in {b \in al : ~b.ex /\ ObsEq(Fresh(v.first, v.table), r.st)}}
         ELSE IF r.err = "other" THEN {a \in al : a.ex /\ (a.first # v.first \/ a.pts[1] # v.table)} ELSE {}
    [] v.variant = "create" ->
         IF v.table = {} THEN (IF r.err = "other" THEN al ELSE {})
         ELSE IF r.err = "" THEN {Fresh(v.first, v.table) : a \in {b \in al : ~b.ex /\ ObsEq(Fresh(v.first, v.table), r.st)}}
         ELSE IF r.err = "other" THEN {a \in al : a.ex} ELSE {}

\* ------------------------------------------------------------------ actions
NoOp == [type |-> "none"]
DInit == /\ ds = EmptyDS /\ up = FALSE /\ mfirst = None /\ mlatest = <<>> /\ mpt = {} /\ freq = DefaultF
         /\ subs = <<>> /\ alts = {NoStore} /\ lastop = NoOp /\ seen = <<>> /\ wiped = FALSE

Mem == St(ds, mfirst, mlatest, mpt, freq)
Down == /\ up' = FALSE /\ mfirst' = None /\ mlatest' = <<>> /\ mpt' = {} /\ freq' = DefaultF /\ subs' = <<>> /\ seen' = <<>>

\* CreateStore / OpenOrCreateStore / OpenStore on a datastore no live object uses
OpenCore(v) ==
  /\ ~up
  /\ LET r == OpenF(v, ds) IN
     /\ ds' = r.st.d
     /\ IF r.err = ""
        THEN /\ up' = TRUE /\ mfirst' = r.st.mf /\ mlatest' = r.st.ml /\ mpt' = r.st.pt /\ freq' = DefaultF
             /\ subs' = <<>> /\ seen' = <<>>
        ELSE Down
     /\ wiped' = (ds.tomb /\ ResumeWipe /\ ~(v.variant # "open" /\ v.table = {}))
  /\ lastop' = NoOp
Open(v) == OpenCore(v) /\ alts' = Explains(alts, v, OpenF(v, ds))

\* the harness lowers the unexported powerTableFrequency of the live object (never in production)
SetFreq(f) == /\ up /\ freq' = f /\ wiped' = FALSE
              /\ UNCHANGED <<ds, up, mfirst, mlatest, mpt, subs, alts, lastop, seen>>

PutBlocks == ~DrainFirst /\ \E s \in DOMAIN subs : subs[s] # <<>>
Put(c) ==
  /\ up /\ ~PutBlocks
  /\ LET st == PutF(Mem, c) IN
     /\ ds' = st.d /\ mlatest' = st.ml /\ mpt' = st.pt
     /\ subs' = IF PutVerdict(Mem, c) = "ok" THEN [s \in DOMAIN subs |-> <<c.id>>] ELSE subs
  /\ alts' = {APut(a, c) : a \in alts}
  /\ wiped' = FALSE
  /\ UNCHANGED <<up, mfirst, freq, lastop, seen>>

\* DeleteAll: the object is abandoned afterwards (its memory is not reset by the code)
DeleteAll ==
  /\ up /\ ds' = EmptyDS /\ Down /\ alts' = {NoStore} /\ lastop' = NoOp /\ wiped' = TRUE

Subscribe(s) ==
  /\ up /\ s \notin DOMAIN subs
  /\ subs' = (s :> (IF mlatest = <<>> THEN <<>> ELSE <<mlatest[1].id>>)) @@ subs
  /\ seen' = (s :> <<>>) @@ seen /\ wiped' = FALSE
  /\ UNCHANGED <<ds, up, mfirst, mlatest, mpt, freq, alts, lastop>>
Recv(s) ==
  /\ up /\ s \in DOMAIN subs /\ subs[s] # <<>>
  /\ seen' = [seen EXCEPT ![s] = subs[s]] /\ subs' = [subs EXCEPT ![s] = <<>>] /\ wiped' = FALSE
  /\ UNCHANGED <<ds, up, mfirst, mlatest, mpt, freq, alts, lastop>>
Unsubscribe(s) ==
  /\ up /\ s \in DOMAIN subs
  /\ subs' = Without(subs, s) /\ seen' = Without(seen, s) /\ wiped' = FALSE
  /\ UNCHANGED <<ds, up, mfirst, mlatest, mpt, freq, alts, lastop>>

\* the process stops between two calls
Crash == /\ up /\ Down /\ wiped' = FALSE /\ UNCHANGED <<ds, alts, lastop>>

\* the process stops inside an operation, after the datastore writes ws (a strict prefix)
StrictPrefix(ws, all) == Len(ws) < Len(all) /\ ws = SubSeq(all, 1, Len(ws))
\* whatever reached the datastore is there, memory is gone, the property allows the state before or after `op`
CrashWith(ws, post, op) ==
  /\ ds' = DoAll(ds, ws) /\ Down /\ alts' = alts \cup post /\ lastop' = op /\ wiped' = FALSE
CrashDuringPut(c, ws) ==
  /\ up /\ PutVerdict(Mem, c) = "ok" /\ StrictPrefix(ws, PutWrites(Mem, c))
  /\ CrashWith(ws, {APut(a, c) : a \in alts}, [type |-> "put", c |-> c])
CrashDuringCreate(v, ws) ==      \* v.variant \in {"create", "ooc"}, the store does not exist yet
  /\ ~up /\ ~ds.tomb /\ v.table # {} /\ OpenF(v, ds).created /\ StrictPrefix(ws, CreateWrites(v.first, v.table))
  /\ CrashWith(ws, {ACreate(a, v.first, v.table) : a \in alts}, [type |-> "create", v |-> v])
CrashDuringWipe(ws) ==
  /\ up /\ IsWipeCut(ds, ws)
  /\ CrashWith(ws, {NoStore}, [type |-> "wipe"])
CrashDuringResume(ws) ==         \* inside the deletes that any open variant performs first
  /\ ~up /\ ResumeWipe /\ IsResumeCut(ds, ws)
  /\ CrashWith(ws, {NoStore}, [type |-> "wipe"])

\* ================= C09 as invariants / action properties of the design =================
Cur == CHOOSE a \in alts : TRUE
\* a live store is the abstract history: contiguous, every read exact, power tables = fold of the deltas
LiveIsHistory == up => Cardinality(alts) = 1 /\ ObsEq(Cur, Mem) /\ ObsEq(Cur, [Mem EXCEPT !.pt = {}])
\* ... and every table of the history is a real, non-empty table
TablesProper == \A a \in alts : \A i \in DOMAIN a.pts : a.pts[i] # Fail /\ a.pts[i] # {}
\* range reads inside the window return exactly the stored certificates
RangesExact == up => LET a == Cur IN \A s \in a.first..ALatest(a) : \A e \in s..ALatest(a) :
                        RangeF(Mem, s, e) = SubSeq(a.hist, s - a.first + 1, e - a.first + 1)
\* stored instances never change and the latest pointer only advances (outside a wipe)
InWipe(d) == d.tomb \/ d.first = None
Immutable == [][(~InWipe(ds') /\ ~wiped' /\ ds.first # None /\ ds.latest # None) =>
                  \A i \in ds.first..ds.latest : i \in DOMAIN ds'.cert /\ i \in DOMAIN ds.cert /\ ds'.cert[i] = ds.cert[i]]_dvars
LatestMonotone == [][(~InWipe(ds') /\ ~wiped' /\ ds.latest # None) => ds'.latest >= ds.latest]_dvars
\* subscribers: a non-empty channel holds the latest certificate, and whoever has not seen the latest has it waiting
SubsSeeLatest == up => \A s \in DOMAIN subs :
                    /\ subs[s] # <<>> => (mlatest # <<>> /\ subs[s] = <<mlatest[1].id>>)
                    /\ (mlatest # <<>> /\ seen[s] # <<mlatest[1].id>>) => subs[s] = <<mlatest[1].id>>
PutNeverBlocks == ~PutBlocks

\* ================= C10 as invariants of the design =================
\* whenever no process holds the datastore, each open variant yields a consistent store that is observably
\* one of the allowed abstract states (before / after the interrupted operation)
Variants(Firsts, Tabs) == {[variant |-> "open", first |-> 0, table |-> {}]}
                          \cup {[variant |-> x, first |-> f, table |-> t] : x \in {"ooc", "create"}, f \in Firsts, t \in Tabs}
CrashConsistentFor(v) == ~up => Explains(alts, v, OpenF(v, ds)) # {}
\* an interrupted wipe whose tombstone reached the datastore is completed by every open variant
WipeResumedFor(v) == (~up /\ ds.tomb /\ ~(v.variant # "open" /\ v.table = {})) =>
                        LET r == OpenF(v, ds) IN
                          /\ r.st.d = (IF r.created THEN DoAll(EmptyDS, CreateWrites(v.first, v.table)) ELSE EmptyDS)
                          /\ (v.variant = "open" => r.err = "notinit")
                          /\ (v.variant # "open" => r.err = "")
\* the interrupted operation can be repeated successfully after reopening
RepeatableAfter(v) ==
  (~up /\ lastop.type # "none") =>
     LET r == OpenF(v, ds) IN
       CASE lastop.type = "put" ->
              (r.err = "") => LET st2 == PutF(r.st, lastop.c) IN
                                 /\ PutVerdict(r.st, lastop.c) \in {"ok", "stale"}
                                 /\ \E a \in alts : ObsEq(APut(a, lastop.c), st2) /\ ValidSuccessor(a, lastop.c)
         [] lastop.type = "create" ->
              (v.variant = "open" /\ r.err = "notinit") =>
                  LET r2 == OpenF(lastop.v, r.st.d) IN r2.err = "" /\ ObsEq(Fresh(lastop.v.first, lastop.v.table), r2.st)
         [] lastop.type = "wipe" -> TRUE      \* DeleteAll on whatever store was reopened always ends in the empty datastore
=============================================================================

SPECIFICATION MCSpec
CONSTANTS
  DefaultF = 3
  ResumeWipe = TRUE
  DrainFirst = TRUE
  LatestLast = TRUE
  Firsts = {0, 2}
  MaxLen = 5
  SubIds = {1, 2}
  Rich = TRUE
  CrashPoints = FALSE
INVARIANTS LiveIsHistory TablesProper RangesExact SubsSeeLatest PutNeverBlocks CrashConsistent WipeResumed Repeatable
PROPERTIES Immutable LatestMonotone
CHECK_DEADLOCK FALSE

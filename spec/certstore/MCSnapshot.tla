----------------------------- MODULE MCSnapshot -----------------------------
(* Exhaustive configurations of Snapshot.tla.  Every case is an initial state (no transitions):
   (1) MCSpecStores: every well-formed store over a table alphabet (first in Firsts, length up to MaxLen,
       crossing the checkpoint frequency F), every export end point, every manifest that matches (or
       none), and every corruption of the export: truncation at / inside each block, removal of a
       certificate (gap), swap of neighbours (reorder), duplicated / appended certificate (surplus),
       header first / latest off by one, manifest instance / table mismatch, a delta that misses the
       committed table at any position - uncompensated, or compensated by the next certificate so that
       only the check at that position can notice it.
   (2) MCSpecSpace: every snapshot over a block alphabet (up to MaxBlocks blocks, arbitrary instance
       numbers, deltas and commitments): Import accepts exactly the snapshots that are Valid.        *)
EXTENDS Snapshot
CONSTANTS Firsts, MaxLen, F, Tables, MaxBlocks, SpaceInsts, SpaceDeltas
VARIABLES c        \* the case
NP == 2
TablesSmall == {<<1, 0>>, <<2, 0>>, <<1, 1>>}
TablesMid == {<<1, 0>>, <<2, 0>>, <<1, 1>>, <<2, 2>>}
DeltasSmall == {<<0, 0>>, <<1, 0>>, <<-1, 0>>, <<0, 1>>}
TablesTwo == {<<1, 0>>, <<2, 0>>}
DeltasThree == {<<0, 0>>, <<1, 0>>, <<-1, 0>>}

\* ---- (1) stores and corruptions of their exports
RECURSIVE TableSeqs(_)
TableSeqs(n) == IF n = 0 THEN {<<>>} ELSE {Append(q, t) : q \in TableSeqs(n - 1), t \in Tables}
StoreOf(first, init, ts) ==
  [first |-> first, init |-> init,
   certs |-> [j \in 1..Len(ts) |-> [inst |-> first + j - 1,
                                     delta |-> Diff(IF j = 1 THEN init ELSE ts[j - 1], ts[j]),
                                     commit |-> ts[j]]]]

Manifests(st) == {NoManifest, [on |-> TRUE, first |-> st.first, hasTable |-> FALSE, table |-> Fail],
                  [on |-> TRUE, first |-> st.first, hasTable |-> TRUE, table |-> st.init]}

DropAt(q, k) == SubSeq(q, 1, k - 1) \o SubSeq(q, k + 1, Len(q))
SwapAt(q, k) == [j \in DOMAIN q |-> IF j = k THEN q[k + 1] ELSE IF j = k + 1 THEN q[k] ELSE q[j]]
Bump == [p \in 1..NP |-> IF p = 1 THEN 1 ELSE 0]
Unbump == [p \in 1..NP |-> IF p = 1 THEN -1 ELSE 0]
Plus(d, e) == [p \in DOMAIN d |-> d[p] + e[p]]
\* certificate k carries a delta that yields one unit more than committed; `comp`: the next one takes it back
Tamper(q, k, comp) == [j \in DOMAIN q |-> IF j = k THEN [q[j] EXCEPT !.delta = Plus(@, Bump)]
                                         ELSE IF comp /\ j = k + 1 THEN [q[j] EXCEPT !.delta = Plus(@, Unbump)] ELSE q[j]]

Corruptions(s, st) ==
  LET n == Len(s.blocks) IN
       {[class |-> "trunc", s |-> [s EXCEPT !.blocks = SubSeq(@, 1, k), !.torn = tr]] : k \in 0..(n - 1), tr \in {"", "len", "mid"}}
  \cup {[class |-> "trunc", s |-> [s EXCEPT !.blocks = <<>>, !.hdrTorn = TRUE]]}
  \cup {[class |-> "gap", s |-> [s EXCEPT !.blocks = DropAt(@, k)]] : k \in 1..(n - 1)}
  \cup {[class |-> "reorder", s |-> [s EXCEPT !.blocks = SwapAt(@, k)]] : k \in 1..(n - 1)}
  \cup {[class |-> "surplus", s |-> [s EXCEPT !.blocks = Append(@, s.blocks[k])]] : k \in 1..n}
  \cup {[class |-> "surplus", s |-> [s EXCEPT !.blocks = Append(@, st.certs[n + 1])]] : k \in {1} \cap {j \in {1} : Len(st.certs) > n}}
  \cup {[class |-> "header", s |-> [s EXCEPT !.first = @ + 1]], [class |-> "header", s |-> [s EXCEPT !.latest = @ + 1]]}
  \cup {[class |-> "header", s |-> [s EXCEPT !.first = @ - 1]] : k \in {1} \cap {j \in {1} : s.first > 0}}
  \cup {[class |-> "header", s |-> [s EXCEPT !.latest = @ - 1]] : k \in {1} \cap {j \in {1} : s.latest > s.first}}
  \cup {[class |-> "baddelta", s |-> [s EXCEPT !.blocks = Tamper(@, k, FALSE)]] : k \in 1..n}
  \cup {[class |-> "baddelta", s |-> [s EXCEPT !.blocks = Tamper(@, k, TRUE)]] :
           k \in {j \in 1..(n - 1) : (s.blocks[j].inst + 1) % F = 0}}
BadManifests(st) == {[on |-> TRUE, first |-> st.first + 1, hasTable |-> FALSE, table |-> Fail],
                     [on |-> TRUE, first |-> st.first, hasTable |-> TRUE, table |-> Plus(st.init, Bump)]}

CasesOf(st, e) ==
       {[kind |-> "roundtrip", st |-> st, e |-> e, m |-> m, s |-> Export(st, e), class |-> "none"] : m \in Manifests(st)}
  \cup {[kind |-> "corrupt", st |-> st, e |-> e, m |-> NoManifest, s |-> x.s, class |-> x.class] : x \in Corruptions(Export(st, e), st)}
  \cup {[kind |-> "corrupt", st |-> st, e |-> e, m |-> m, s |-> Export(st, e), class |-> "manifest"] : m \in BadManifests(st)}
  \* the complete export followed by the beginning of one more block: not one of the property's classes
  \cup {[kind |-> "junk", st |-> st, e |-> e, m |-> NoManifest, s |-> [Export(st, e) EXCEPT !.torn = tr], class |-> "junk"] : tr \in {"len", "mid"}}
MCInitStores ==
  \E f \in Firsts, i \in Tables, n \in 1..MaxLen : \E ts \in TableSeqs(n) :
    LET st == StoreOf(f, i, ts) IN \E e \in f..Latest(st) : c \in CasesOf(st, e)
MCSpecStores == MCInitStores /\ [][UNCHANGED c]_c

StoresWellFormed == WellFormed(c.st) /\ Tabs(c.st) = [j \in 1..(Len(c.st.certs) + 1) |-> TableAt(c.st, c.st.first + j - 1)]
RoundTrip == c.kind = "roundtrip" =>
               LET r == Import(c.s, c.m, F) IN r.ok /\ Proj(r.store) = Proj(UpTo(c.st, c.e)) /\ Valid(c.s, c.m, F)
ClassOf(s, m) == {x \in {"trunc", "gap", "reorder", "surplus", "header", "manifest", "baddelta"} :
                    CASE x = "trunc" -> IsTruncated(s) [] x = "gap" -> IsGap(s) [] x = "reorder" -> IsReorder(s)
                      [] x = "surplus" -> IsSurplus(s) [] x = "header" -> IsHeaderMismatch(s)
                      [] x = "manifest" -> IsManifestMismatch(s, m) [] x = "baddelta" -> IsBadDelta(s, F)}
\* every corruption is rejected, and is recognised as (at least) the class it was built as
RejectsCorrupt == c.kind = "corrupt" => (~Import(c.s, c.m, F).ok /\ c.class \in ClassOf(c.s, c.m))

\* as coded: a lone length prefix after the last announced certificate reads as the end of the stream
TrailingJunk == c.kind = "junk" => (Import(c.s, c.m, F).ok <=> c.s.torn = "len") /\ ClassOf(c.s, c.m) = {}

\* ---- (2) the whole bounded snapshot space
Blocks == [inst : SpaceInsts, delta : SpaceDeltas, commit : Tables]
RECURSIVE BlockSeqs(_)
BlockSeqs(n) == IF n = 0 THEN {<<>>} ELSE {Append(q, b) : q \in BlockSeqs(n - 1), b \in Blocks}
MCInitSpace ==
  \E f \in Firsts, la \in SpaceInsts, i \in Tables, n \in 0..MaxBlocks :
    \E bs \in BlockSeqs(n), m \in {NoManifest, [on |-> TRUE, first |-> CHOOSE x \in Firsts : TRUE, hasTable |-> TRUE, table |-> CHOOSE t \in Tables : TRUE]} :
      c = [kind |-> "space", m |-> m, class |-> "any",
           s |-> [first |-> f, latest |-> la, init |-> i, blocks |-> bs, hdrTorn |-> FALSE, torn |-> ""]]
MCSpecSpace == MCInitSpace /\ [][UNCHANGED c]_c
ImportIffValid == c.kind = "space" => (Import(c.s, c.m, F).ok <=> Valid(c.s, c.m, F))
AcceptedIsWellFormed == (c.kind = "space" /\ Import(c.s, c.m, F).ok) =>
                           LET st == Import(c.s, c.m, F).store IN
                             /\ Latest(st) = c.s.latest /\ st.first = c.s.first
                             /\ \A j \in DOMAIN st.certs : st.certs[j].inst = st.first + j - 1
                             /\ TableAt(st, Latest(st) + 1) = st.certs[Len(st.certs)].commit
=============================================================================

SPECIFICATION CSpec
CONSTANTS
  DefaultF = 1440
  ResumeWipe = TRUE
  DrainFirst = TRUE
  LatestLast = TRUE
  TraceFile = "trace.ndjson"
CHECK_DEADLOCK FALSE

SPECIFICATION TSpec
CONSTANTS
  CheckContiguity = TRUE
  CheckSurplus = TRUE
  CheckHeaderLatest = TRUE
  CheckCheckpoint = TRUE
  CheckFinal = TRUE
  CheckManifest = TRUE
  ExportInclusive = TRUE
  TraceFile = "trace.ndjson"
CHECK_DEADLOCK FALSE

------------------------ MODULE CertStoreConcTrace ------------------------
(* Trace validation of certstore.Store under concurrent readers and writers (driver:
   harness/drivers/certstore/conc_test.go, TestCertStoreLinearizable).  Extends CertStoreTrace.tla
   (all its events and clauses stay available) with

     CPut   one line per Put of the writers, in the order of the admitted history (a Put of position
            p can only be admitted after the one of position p - 1), with what the code returned,
            whether it returned at all (a subscriber that never reads is subscribed all the time)
     CRead  one line per recorded read of a reader goroutine, after the writers' lines of its episode
            (so the admitted history is complete; every earlier state is a prefix): goroutine,
            per-goroutine sequence number, bracket [lo, hi], witness, arguments, abstract result

   Every read is judged with CertStoreLin.tla: the answer must be the model's answer for SOME state
   index k with max(lo, wit) <= k <= hi.  C09_Conc* = clauses of the property, Conf_Conc* = the
   property is silent (drift only).                                                             *)
EXTENDS CertStoreTrace, CertStoreLin

TrCPut ==
  /\ IsEvent("CPut") /\ up
  /\ LET c == CertOf(Ev)
         ok == (Ev.err = "" /\ ~Ev.blocked)
     IN /\ IF ok THEN Put(c) ELSE Stutter
        /\ obs' = [kind |-> "CPut", ok |-> ok, blocked |-> Ev.blocked, verdict |-> PutVerdict(Mem, c),
                   admissible |-> \A a \in alts : (ValidSuccessor(a, c) \/ c.inst < ANext(a)), lazy |-> Ev.lazy, us |-> Ev.us]
  /\ UNCHANGED <<hi, saved>>

ReadOf(e) == [what |-> e.kind, lo |-> e.lo, hi |-> e.hi, wit |-> e.wit, i |-> e.i, e |-> e.e, id |-> e.id, inst |-> e.inst,
              ids |-> e.ids, insts |-> e.insts, pt |-> TabOf(e.pt), ptn |-> Len(e.pt), err |-> e.err]
TrCRead ==
  /\ IsEvent("CRead") /\ up /\ Stutter
  /\ obs' = [kind |-> "CRead", r |-> ReadOf(Ev), g |-> Ev.g, seq |-> Ev.seq,
             pg |-> IF obs.kind = "CRead" THEN obs.g ELSE None, pseq |-> IF obs.kind = "CRead" THEN obs.seq ELSE None]
  /\ UNCHANGED <<hi, saved>>

CNext == TNext \/ TrCPut \/ TrCRead

\* ------------------------------------------------------------------ clauses
IsRead(ws) == obs.kind = "CRead" /\ obs.r.what \in ws
\* a usable bracket and a live store with one admitted history; otherwise nothing can be concluded (drift)
Sane == \A a \in alts : a.ex /\ BracketSane(a, obs.r) /\ (obs.r.what = "SubFinal" => obs.r.lo = LLen(a))
Judge(ws, P(_, _)) == (IsRead(ws) /\ Sane) => \A a \in alts : P(a, obs.r)

ConcAdmission == obs.kind = "CPut" => (obs.ok => obs.admissible)
\* subscribers never block writers: every Put returned although one subscriber never read its channel
ConcWritersNeverBlock == obs.kind = "CPut" => (obs.lazy > 0 /\ ~obs.blocked)
ConcLatest == Judge({"Latest"}, LinLatest)
ConcSubscribe == Judge({"SubInit"}, LinSubInit)
ConcPowerTable == Judge({"GetPT"}, LinPT)
ConcGet == Judge({"Get"}, LinGet)
ConcRange == Judge({"GetRange"}, LinRange)
RecvOK(a, r) == r.err = "" => LinRecv(a, r)
ConcRecv == Judge({"SubRecv", "SubPoll"}, RecvOK)
\* eventually the latest: an empty channel only for a subscriber that has been given the latest certificate of some
\* state of the bracket; after the last Put returned the last certificate received is the latest
EvtOK(a, r) == CASE r.what = "SubPoll" -> (r.err = "empty" => LinEmptyPoll(a, r))
                 [] r.what = "SubFinal" -> LinFinal(a, r)
ConcEventuallyLatest == Judge({"SubPoll", "SubFinal"}, EvtOK)

Conf_ConcBracket == obs.kind = "CRead" => Sane
\* the reads of one goroutine are recorded in its program order (per-goroutine sequence numbers increase)
Conf_ConcSeq == obs.kind = "CRead" => (obs.g = obs.pg => obs.seq > obs.pseq)
Conf_ConcPutVerdict == obs.kind = "CPut" => (obs.ok <=> obs.verdict \in {"ok", "stale"})
Conf_ConcPTAdm == Judge({"GetPT"}, LinPTAdm)
Conf_ConcGetAdm == Judge({"Get"}, LinGetAdm)
Conf_ConcRangeAdm == Judge({"GetRange"}, LinRangeAdm)
RecvStrictOK(a, r) == r.err = "" => LinRecvStrict(a, r)
Conf_ConcRecvStrict == Judge({"SubRecv", "SubPoll"}, RecvStrictOK)

CClauses == Clauses \cup {"C09_ConcAdmission", "C09_WritersNeverBlock", "C09_ConcLatest", "C09_ConcSubscribe", "C09_ConcPowerTable",
                          "C09_ConcGet", "C09_ConcRange", "C09_ConcRecv", "C09_SubscribersEventuallyLatest",
                          "Conf_ConcBracket", "Conf_ConcSeq", "Conf_ConcPutVerdict", "Conf_ConcPTAdm", "Conf_ConcGetAdm", "Conf_ConcRangeAdm",
                          "Conf_ConcRecvStrict"}
CHolds(c) == IF c \in Clauses THEN Holds(c)
             ELSE CASE c = "C09_ConcAdmission" -> ConcAdmission [] c = "C09_WritersNeverBlock" -> ConcWritersNeverBlock
                    [] c = "C09_ConcLatest" -> ConcLatest [] c = "C09_ConcSubscribe" -> ConcSubscribe
                    [] c = "C09_ConcPowerTable" -> ConcPowerTable [] c = "C09_ConcGet" -> ConcGet
                    [] c = "C09_ConcRange" -> ConcRange [] c = "C09_ConcRecv" -> ConcRecv
                    [] c = "C09_SubscribersEventuallyLatest" -> ConcEventuallyLatest
                    [] c = "Conf_ConcBracket" -> Conf_ConcBracket [] c = "Conf_ConcSeq" -> Conf_ConcSeq [] c = "Conf_ConcPutVerdict" -> Conf_ConcPutVerdict
                    [] c = "Conf_ConcPTAdm" -> Conf_ConcPTAdm [] c = "Conf_ConcGetAdm" -> Conf_ConcGetAdm
                    [] c = "Conf_ConcRangeAdm" -> Conf_ConcRangeAdm [] c = "Conf_ConcRecvStrict" -> Conf_ConcRecvStrict
CStep == /\ CNext
         /\ LET nb == {c \in CClauses : ~(CHolds(c))'} IN
              /\ bad' = bad \cup {<<l, c>> : c \in nb}
              /\ (nb = {} \/ Cardinality(bad) > 2000 \/ PrintT(<<"VERIF_BAD", l, nb>>))
CSpec == TInit /\ [][CStep]_tvars
=============================================================================

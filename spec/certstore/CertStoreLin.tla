---------------------------- MODULE CertStoreLin ----------------------------
(* C09 under "concurrent readers and writers": the linearizability obligation of every read of
   certstore.Store, as constant-level operators (no variables) shared by the design model
   CertStoreConc.tla and by the trace spec CertStoreConcTrace.tla.

   The store's states are totally ordered by the admitted Puts: state k = the first k certificates
   of the admitted history `a` (a record [first, hist, pts, ...] as in CertStore.tla; pts[x] is the
   power table of instance first + x - 1, i.e. the initial table with the deltas of the x - 1
   earlier certificates applied).  Because the history is append-only, every earlier state is a
   prefix of the one the judgement is made with.

   A read r = [what, lo, hi, wit, i, e, id, inst, ids, insts, pt, ptn, err] carries a *bracket*:
     lo  = number of Puts that had certainly been applied when the read was invoked
           (their call had returned),
     hi  = number of Puts that had possibly been applied when the read responded
           (their call had been issued),
     wit = a state index the same sequential client had already witnessed before invoking r
           (the position of the newest certificate an earlier Latest / Subscribe / receive gave
           it; 0 = nothing).  States only grow, so r is linearized at or after it.
   The obligation: the answer is the store's answer in SOME state k with
   max(lo, wit) <= k <= hi.  Where the property text is silent (instances beyond the next one,
   error classes) nothing is demanded here; those expectations are the *Adm operators, used as
   conformance (drift) only.                                                                  *)
EXTENDS Integers, Sequences, FiniteSets

LNone == -1
LMax(x, y) == IF x >= y THEN x ELSE y
LMin(x, y) == IF x <= y THEN x ELSE y
LLen(a) == Len(a.hist)
LPos(a, inst) == inst - a.first + 1                 \* position of an instance in hist / pts
\* the state indices a read may have been linearized at
Window(a, r) == LMax(r.lo, r.wit) .. LMin(r.hi, LLen(a))
\* a usable bracket (anything else is a recording problem, not a fact about the store)
BracketSane(a, r) == r.lo >= 0 /\ r.lo <= r.hi /\ r.lo <= LLen(a) /\ r.wit >= 0

\* ---- Latest() / the certificate a new subscription starts with
LatestAt(a, k, r) == IF k = 0 THEN r.inst = LNone
                     ELSE r.inst = a.first + k - 1 /\ r.id = a.hist[k].id
LinLatest(a, r) == \E k \in Window(a, r) : LatestAt(a, k, r)

\* ---- GetPowerTable(i): "for every instance up to the next one it returns the power table obtained by
\*      applying all earlier deltas to the initial table"
PTDefined(a, k, i) == i >= a.first /\ i <= a.first + k
LinPT(a, r) ==
  LET x == LPos(a, r.i) IN
    IF r.err = ""
    THEN x >= 1 => (x <= Len(a.pts) /\ r.pt = a.pts[x] /\ r.ptn = Cardinality(r.pt))   \* whatever table it returns for i is THE table of i
    ELSE \E k \in Window(a, r) : ~PTDefined(a, k, r.i)                                  \* it may only fail where some state has no such instance
\* silent in the property: a table for an instance that is beyond the next one in every state of the bracket
LinPTAdm(a, r) == r.err = "" => \E k \in Window(a, r) : PTDefined(a, k, r.i)

\* ---- Get(i)
LinGet(a, r) ==
  LET x == LPos(a, r.i) IN
    IF r.err = ""
    THEN r.inst = r.i /\ x >= 1 /\ x <= LMin(r.hi, LLen(a)) /\ r.id = a.hist[x].id
    ELSE \E k \in Window(a, r) : ~(x >= 1 /\ x <= k)
LinGetAdm(a, r) == r.err \in {"", "notfound"}

\* ---- GetRange(i, e): exactly the stored certificates, in order; complete inside [first, latest]
LinRange(a, r) ==
  LET x == LPos(a, r.i)
      n == LLen(a)
  IN /\ Len(r.insts) = Len(r.ids)
     /\ Len(r.ids) <= LMax(0, r.e - r.i + 1)
     /\ \A j \in DOMAIN r.ids : /\ r.insts[j] = r.i + j - 1
                                /\ x + j - 1 >= 1 /\ x + j - 1 <= LMin(r.hi, n)
                                /\ r.ids[j] = a.hist[x + j - 1].id
     /\ \E k \in Window(a, r) :
           /\ (x >= 1 /\ r.i <= r.e) => Len(r.ids) >= LMin(r.e - a.first + 1, k) - x + 1
           /\ (x >= 1 /\ r.i <= r.e /\ r.e - a.first + 1 <= k) => r.err = ""
LinRangeAdm(a, r) == /\ r.i <= r.e => ((r.err = "") <=> (Len(r.ids) = r.e - r.i + 1))
                     /\ r.err \in {"", "notfound", "other"}

\* ---- a receive on a subscription whose previous receive gave position r.wit (0 = none yet):
\*      it yields the latest certificate of some state of the bracket, never an older one than before
LinRecv(a, r) == \E k \in Window(a, r) : k >= 1 /\ r.id = a.hist[k].id /\ r.inst = a.first + k - 1
LinRecvStrict(a, r) == \E k \in Window(a, r) : k > r.wit /\ r.id = a.hist[k].id
\* ---- a receive that found the channel empty.  Put drains the channel and then sends (two steps inside its critical
\*      section, but the channel is read without the store's lock), so while a Put is in flight (hi > lo) an empty
\*      channel says nothing.  With no Put in flight during the whole read (lo = hi) the subscriber must already have
\*      been given the latest certificate ("whoever has not seen the latest has it waiting")
LinEmptyPoll(a, r) == r.hi > r.lo \/ \E k \in r.lo .. LMin(r.hi, LLen(a)) : k <= r.wit
\* ---- Subscribe followed by a look at the channel: the latest certificate of some state of the bracket
LinSubInit(a, r) == IF r.inst = LNone THEN r.hi > r.lo \/ LMax(r.lo, r.wit) = 0 ELSE LinLatest(a, r)
\* ---- after the last Put returned and the subscriber drained its channel
LinFinal(a, r) == LLen(a) > 0 => r.id = a.hist[LLen(a)].id

LinOK(a, r) ==
  CASE r.what = "Latest"   -> LinLatest(a, r)
    [] r.what = "SubInit"  -> LinSubInit(a, r)
    [] r.what = "GetPT"    -> LinPT(a, r)
    [] r.what = "Get"      -> LinGet(a, r)
    [] r.what = "GetRange" -> LinRange(a, r)
    [] r.what = "SubRecv"  -> LinRecv(a, r)
    [] r.what = "SubPoll"  -> IF r.err = "empty" THEN LinEmptyPoll(a, r) ELSE LinRecv(a, r)
    [] r.what = "SubFinal" -> LinFinal(a, r)
    [] OTHER -> TRUE
=============================================================================

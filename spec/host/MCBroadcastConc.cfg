SPECIFICATION CSpec
CONSTANTS
  LogBeforePublish = TRUE
  RearmOnStart = TRUE
  Insts = {1, 2}
  Senders = {1}
  Rounds = {r0, r1}
  Phases = {P}
  Sigs = {a, b}
  MaxRequests = 4
VIEW View
SYMMETRY Symm
INVARIANTS OneSignaturePerSlot LoggedBeforePublished
CHECK_DEADLOCK FALSE

SPECIFICATION Spec
CONSTANTS
  Dev = "none"
  MF <- MFb
  MaxInst = 2
  MaxT = 4
  Senders = {1}
  MaxWal = 1
INVARIANTS TypeOK InstanceMonotone NeverBehindFinality ProposalFollowsFinality ScheduledAfterBase ReplayThatInstanceInOrder ReplayComplete DuplicateDoesNotDisturb CertsAndAlarmsFirst
CHECK_DEADLOCK FALSE

-------------------------- MODULE PowerStoreTrace --------------------------
(* Trace validation of the real internal/powerstore.Store (driver: harness/drivers/powerstore) against PowerStore.tla.
   One NDJSON line per step: environment steps (Head, Cert), Restart, one iteration of the real background loop (Tick: the
   loop's memory and the datastore keys afterwards are logged) and GetPowerTable calls (Get: EC answering or refusing).
   C15_PowerStoreExact is the clause of property C15 ("each tipset carries the CID of EC's power table at that tipset",
   "the table ... at the head finalized look-back instances earlier"): a table obtained through the production ec.Backend
   is EC's table at that tipset or an error.  It is judged on the logged answer and the logged chain alone, independent of
   the model state.  Conf_* compare the code with the implementation-shaped model (drift, exit 2).                      *)
EXTENDS PowerStore, Json, TLCExt
CONSTANT TraceFile
VARIABLES l, obs, bad, cov
tvars == <<psvars, l, obs, bad, cov>>

TraceLog == ndJsonDeserialize(TraceFile)
NoObs == [kind |-> "none"]
Ev == TraceLog[l]
IsEvent(e) == l <= Len(TraceLog) /\ TraceLog[l].ev = e /\ l' = l + 1
ToSet(s) == {s[i] : i \in DOMAIN s}
ChainOf(s) == [e \in 0..(Len(s) - 1) |-> s[e + 1]]
Cov0 == [fallbackServed |-> 0, fallbackApplied |-> 0, fallbackRefused |-> 0, engagedTicks |-> 0, wipes |-> 0, partialWipes |-> 0,
         failedLookups |-> 0, restartsEngaged |-> 0, resumedFromDeltas |-> 0, nullDeltas |-> 0, baseMoved |-> 0]
B(c) == IF c THEN 1 ELSE 0

TInit == PSInit([e \in 0..0 |-> 1]) /\ l = 1 /\ obs = NoObs /\ bad = {} /\ cov = Cov0

TrReset == /\ IsEvent("Reset")
           /\ Ev.fin = Finality /\ Ev.boot = Bootstrap /\ Ev.init = Initial /\ Ev.lb = Lookback
           /\ chain' = ChainOf(Ev.chain) /\ ecHead' = Len(Ev.chain) - 1
           /\ heads' = <<>> /\ ds' = Empty /\ lastEpoch' = 0 /\ lastPt' = NoPt /\ initialized' = FALSE
           /\ obs' = NoObs /\ UNCHANGED cov
TrHead == IsEvent("Head") /\ AdvanceHead(Ev.nulls, Ev.t) /\ obs' = NoObs /\ UNCHANGED cov
TrCert == /\ IsEvent("Cert") /\ PutCert(Ev.h) /\ obs' = [kind |-> "Cert", ok |-> Ev.ok]
          /\ cov' = [cov EXCEPT !.baseMoved = @ + B(lastPt # NoPt /\ BaseEpoch' # BaseEpoch)]
TrRestart == /\ IsEvent("Restart") /\ Restart /\ obs' = NoObs
             /\ cov' = [cov EXCEPT !.restartsEngaged = @ + B(lastPt # NoPt)]
TrTick == /\ IsEvent("Tick") /\ Tick(Ev.failAt, ToSet(Ev.keep))
          /\ obs' = [kind |-> "Tick", le |-> Ev.le, lp |-> Ev.lp,
                     keys |-> {<<k[1], IF k[2] = k[3] THEN Nil ELSE <<k[2], k[3]>> >> : k \in ToSet(Ev.keys)}]
          /\ cov' = [cov EXCEPT !.engagedTicks = @ + B(lastPt' # NoPt),
                                !.wipes = @ + B(lastPt # NoPt /\ lastPt' = NoPt),
                                !.partialWipes = @ + B(lastPt' = NoPt /\ lastEpoch' = -1 /\ DOMAIN ds' # {}),
                                !.failedLookups = @ + B(Ev.failAt # None /\ lastPt' # NoPt /\ lastEpoch' = Ev.failAt - 1),
                                !.resumedFromDeltas = @ + B(lastPt = NoPt /\ lastPt' # NoPt /\ Contig(BaseEpoch) > 0),
                                !.nullDeltas = @ + B(\E k \in (DOMAIN ds') \ (DOMAIN ds) : k <= ecHead /\ chain[k] = NullT)]
TrGet == /\ IsEvent("Get") /\ UNCHANGED psvars
         /\ obs' = [kind |-> "Get", e |-> Ev.e, ecOK |-> Ev.ecOK, res |-> Ev.res]
         /\ cov' = [cov EXCEPT !.fallbackServed = @ + B(~Ev.ecOK /\ Ev.res > 0),
                               !.fallbackApplied = @ + B(~Ev.ecOK /\ Ev.res > 0 /\ Ev.e > BaseEpoch
                                                          /\ \E k \in (BaseEpoch + 1)..Ev.e : k \in DOMAIN ds /\ ds[k] # Nil),
                               !.fallbackRefused = @ + B(~Ev.ecOK /\ Ev.res = Err)]

TNext == TrReset \/ TrHead \/ TrCert \/ TrRestart \/ TrTick \/ TrGet

\* ------------------------------------------------------------------ property clause (C15)
C15_PowerStoreExact == obs.kind = "Get" => (obs.res = Err \/ obs.res = chain[obs.e])
\* ------------------------------------------------------------------ conformance
Conf_GetModel == obs.kind = "Get" => obs.res = (IF obs.ecOK THEN chain[obs.e] ELSE GetFallback(obs.e))
Conf_TickMem == obs.kind = "Tick" => (obs.le = lastEpoch /\ obs.lp = lastPt)
Conf_TickKeys == obs.kind = "Tick" => obs.keys = {<<k, ds[k]>> : k \in DOMAIN ds}
Conf_Cert == obs.kind = "Cert" => obs.ok
Conf_DesignMem == PS_MemConsistent
Conf_DesignFacts == PS_DeltasAreFacts
Conf_DesignServes == PS_Serves

Clauses == {"C15_PowerStoreExact", "Conf_GetModel", "Conf_TickMem", "Conf_TickKeys", "Conf_Cert", "Conf_DesignMem", "Conf_DesignFacts", "Conf_DesignServes"}
Holds(c) == CASE c = "C15_PowerStoreExact" -> C15_PowerStoreExact [] c = "Conf_GetModel" -> Conf_GetModel
              [] c = "Conf_TickMem" -> Conf_TickMem [] c = "Conf_TickKeys" -> Conf_TickKeys
              [] c = "Conf_Cert" -> Conf_Cert [] c = "Conf_DesignMem" -> Conf_DesignMem
              [] c = "Conf_DesignFacts" -> Conf_DesignFacts [] c = "Conf_DesignServes" -> Conf_DesignServes
TStep == /\ TNext
         /\ LET nb == {c \in Clauses : ~(Holds(c))'} IN
              /\ bad' = bad \cup {<<l, c>> : c \in nb}
              /\ (nb = {} \/ (Cardinality(bad) > 40 /\ "C15_PowerStoreExact" \notin nb) \/ PrintT(<<"VERIF_BAD", l, nb>>))
         /\ (l' <= Len(TraceLog) \/ PrintT(<<"VERIF_COV", ToJson(cov')>>))
TSpec == TInit /\ [][TStep]_tvars
=============================================================================

----------------------------- MODULE Broadcast -----------------------------
(* Property C12.  host.go BroadcastMessage / RequestRebroadcast / newRunner (re-arming from the
   WAL) with the equivocation filter (equivocation.go) and the write-ahead log, as a state
   machine written to be bound to the code: one operator per critical section of the real code,
   every operator a *function on a state record* so that the design spec (this module + MC),
   the trace spec (BroadcastTrace.tla) and the generator compose the same steps.

   A message is [inst, sender, round, phase, sig]; `sig` identifies the signature bytes (two
   messages with equal (inst, sender, round, phase) and different sig equivocate).

   Filter record  F = [cur, seen, act]
     cur  : equivocationFilter.currentInstance
     seen : Key -> [sig, local]      first signature seen per slot of instance cur; local = the
                                      origin is this process (ProcessBroadcast) and not a remote peer
     act  : sender -> [remotes, equiv]  activeSenders: remote peers that used the same sender id
                                      (records [id, lt]; lt = "peer id sorts before ours"), and the flag
   Runner record  R = [f, wal, open, self, wire, wmax, older, ever, floor]
     wal   : sequence of segments (files), each a non-empty sequence of messages; open = the
             last segment is the active file of this process lifetime
     self  : selfMessages (rebroadcast store), as a set
     wire  : every message handed to topic.Publish so far (set); wmax = highest instance on
             the wire; older = some message was published for an instance below wmax
     ever  : every message that was durably appended at some time (history variable)
     floor : highest WAL purge bound applied so far (environment: no request below it)      *)
EXTENDS Integers, Sequences, FiniteSets, TLC

CONSTANTS LogBeforePublish,   \* TRUE: filter, WAL append, publish (as coded).  FALSE: named deviation "publish first"
          RearmOnStart        \* TRUE: newRunner feeds every WAL entry to the filter (as coded). FALSE: named deviation

Nil == [x \in {} |-> 0]
Max(a, b) == IF a >= b THEN a ELSE b
Key(m) == <<m.sender, m.round, m.phase>>
RECURSIVE SeqToSet(_), Flatten(_)
SeqToSet(s) == {s[i] : i \in DOMAIN s}
Flatten(ss) == IF ss = <<>> THEN <<>> ELSE Head(ss) \o Flatten(Tail(ss))
MaxOf(S) == IF S = {} THEN 0 ELSE CHOOSE x \in S : \A y \in S : y <= x

\* ------------------------------------------------------------------ equivocation.go
EmptyFilter == [cur |-> 0, seen |-> Nil, act |-> Nil]
NoSenders == [remotes |-> {}, equiv |-> FALSE]
LocalIsBest(a) == \A p \in a.remotes : ~p.lt        \* senders.origins[0] == ef.localPID

\* ProcessBroadcast(m): returns [ok, f]
PB(f, m) ==
  IF m.inst < f.cur THEN [ok |-> FALSE, f |-> f]                          \* disallow past instances
  ELSE LET f1 == IF m.inst > f.cur THEN [cur |-> m.inst, seen |-> Nil, act |-> Nil] ELSE f
           k == Key(m)
           has == k \in DOMAIN f1.seen
           conflict == has /\ f1.seen[k].sig # m.sig
       IN IF conflict /\ f1.seen[k].local
          THEN [ok |-> FALSE, f |-> f1]                                    \* local self-equivocation
          ELSE LET seen2 == IF has THEN f1.seen ELSE (k :> [sig |-> m.sig, local |-> TRUE]) @@ f1.seen
                   a0 == IF m.sender \in DOMAIN f1.act THEN f1.act[m.sender] ELSE NoSenders
                   a1 == [a0 EXCEPT !.equiv = @ \/ conflict]
               IN [ok |-> (~a1.equiv) \/ LocalIsBest(a1),
                   f |-> [cur |-> f1.cur, seen |-> seen2, act |-> (m.sender :> a1) @@ f1.act]]

\* ProcessReceive(p, m): a message carrying one of our sender ids was seen on the network from peer p
PR(f, p, m) ==
  IF m.inst # f.cur \/ m.sender \notin DOMAIN f.act THEN f
  ELSE LET k == Key(m)
           has == k \in DOMAIN f.seen
           conflict == has /\ f.seen[k].sig # m.sig
       IN [cur |-> f.cur,
           seen |-> IF has THEN f.seen ELSE (k :> [sig |-> m.sig, local |-> FALSE]) @@ f.seen,
           act |-> IF conflict THEN [f.act EXCEPT ![m.sender] = [remotes |-> @.remotes \cup {p}, equiv |-> TRUE]] ELSE f.act]

\* newRunner: every WAL entry through ProcessBroadcast, in the order All() returns them
RECURSIVE Rearm(_, _)
Rearm(f, w) == IF w = <<>> THEN f ELSE Rearm(PB(f, Head(w)).f, Tail(w))

\* ------------------------------------------------------------------ host.go
InitR == [f |-> EmptyFilter, wal |-> <<>>, open |-> FALSE, self |-> {}, wire |-> {}, wmax |-> 0,
          older |-> FALSE, ever |-> {}, floor |-> 0]

WalSeq(r) == Flatten(r.wal)
WalSet(r) == SeqToSet(WalSeq(r))

\* BroadcastMessage, first critical section: the filter
StepFilter(r, m) == LET p == PB(r.f, m) IN [ok |-> p.ok, r |-> [r EXCEPT !.f = p.f]]
\* second: wal.Append (fsync) and the rebroadcast store
StepAppend(r, m) ==
  [r EXCEPT !.wal = IF r.open THEN [r.wal EXCEPT ![Len(r.wal)] = Append(@, m)] ELSE Append(r.wal, <<m>>),
            !.open = TRUE, !.self = @ \cup {m}, !.ever = @ \cup {m}]
\* third: topic.Publish
StepPublish(r, m) ==
  [r EXCEPT !.wire = @ \cup {m}, !.wmax = Max(@, m.inst), !.older = @ \/ (m.inst < r.wmax)]

\* the whole call without interruption
Broadcast(r, m) ==
  LET s == StepFilter(r, m) IN
    IF ~s.ok THEN s.r
    ELSE IF LogBeforePublish THEN StepPublish(StepAppend(s.r, m), m) ELSE StepAppend(StepPublish(s.r, m), m)

\* RequestRebroadcast(instant): every stored message of that (instance, round, phase) goes
\* through the same filter and, if admitted, to the topic (no WAL append)
RECURSIVE RebroadcastSet(_, _, _)
RebroadcastSet(r, ms, pub) ==       \* returns [r, pub]: the new state and the set of messages published
  IF ms = {} THEN [r |-> r, pub |-> pub]
  ELSE LET m == CHOOSE x \in ms : TRUE
           s == StepFilter(r, m)
       IN IF s.ok THEN RebroadcastSet(StepPublish(s.r, m), ms \ {m}, pub \cup {m})
          ELSE RebroadcastSet(s.r, ms \ {m}, pub)
SelfAt(r, i, rd, ph) == {m \in r.self : m.inst = i /\ m.round = rd /\ m.phase = ph}
RebroadcastFull(r, i, rd, ph) == RebroadcastSet(r, SelfAt(r, i, rd, ph), {})
Rebroadcast(r, i, rd, ph) == RebroadcastFull(r, i, rd, ph).r

\* process death at any point + newRunner over the same WAL directory
Restart(r) ==
  LET w == WalSeq(r)
      mx == MaxOf({w[i].inst : i \in DOMAIN w})
  IN [r EXCEPT !.f = IF RearmOnStart THEN Rearm(EmptyFilter, w) ELSE EmptyFilter,
               !.self = {m \in SeqToSet(w) : m.inst = mx},
               !.open = FALSE]

\* wal.Purge(k): closed files whose newest entry is below k are deleted; the active file stays
SegMax(s) == MaxOf({s[i].inst : i \in DOMAIN s})
PurgeWAL(r, k) ==
  LET n == Len(r.wal)
      closed == IF r.open THEN SubSeq(r.wal, 1, n - 1) ELSE r.wal
      act == IF r.open THEN <<r.wal[n]>> ELSE <<>>
  IN [r EXCEPT !.wal = SelectSeq(closed, LAMBDA s : SegMax(s) >= k) \o act, !.floor = Max(@, k)]
\* a finality certificate for instance c was stored (host.go Start, second goroutine):
\* WAL purged below c - Keep, rebroadcast store trimmed below c
Certificate(r, c, keep) ==
  LET r1 == IF c > keep THEN PurgeWAL(r, c - keep) ELSE r
  IN [r1 EXCEPT !.self = {m \in @ : m.inst >= c}]

\* a message with one of our sender ids arrives from the network (ProcessReceive)
RemoteSeen(r, p, m) == [r EXCEPT !.f = PR(@, p, m)]

\* ================== the property (C12) as invariants over a runner record ==================
\* no two wire messages with equal (instance, sender, round, phase) and different signature
OneSignaturePerSlotR(r) == \A m1, m2 \in r.wire : (m1.inst = m2.inst /\ Key(m1) = Key(m2)) => m1.sig = m2.sig
\* never a wire message for an instance older than one already on the wire
NoOlderInstanceR(r) == ~r.older
\* every message was durably recorded before it was published
LoggedBeforePublishedR(r) == r.wire \subseteq r.ever
\* ================== the state machine (design level: every interleaving) ==================
VARIABLES rn,      \* the runner record R above
          pc      \* BroadcastMessage in flight: <<>> or <<next step, message>>
bvars == <<rn, pc>>
Idle == pc = <<>>
First == IF LogBeforePublish THEN "append" ELSE "publish"
Second == IF LogBeforePublish THEN "publish" ELSE "append"

BInit == rn = InitR /\ pc = <<>>

\* F3.Broadcast -> BroadcastMessage(m): the three critical sections are separate steps, the
\* process may die between any two of them (CrashRestart is enabled in every state)
ReqFilter(m) == /\ Idle /\ m.inst >= rn.floor
                /\ LET s == StepFilter(rn, m) IN rn' = s.r /\ pc' = IF s.ok THEN <<First, m>> ELSE <<>>
ReqAppend == /\ ~Idle /\ pc[1] = "append"
             /\ rn' = StepAppend(rn, pc[2]) /\ pc' = IF First = "append" THEN <<Second, pc[2]>> ELSE <<>>
ReqPublish == /\ ~Idle /\ pc[1] = "publish"
              /\ rn' = StepPublish(rn, pc[2]) /\ pc' = IF First = "publish" THEN <<Second, pc[2]>> ELSE <<>>
DoRebroadcast(i, rd, ph) == Idle /\ rn' = Rebroadcast(rn, i, rd, ph) /\ UNCHANGED pc
CrashRestart == rn' = Restart(rn) /\ pc' = <<>>
DoCertificate(c, keep) == Idle /\ rn' = Certificate(rn, c, keep) /\ UNCHANGED pc
DoRemoteSeen(p, m) == rn' = RemoteSeen(rn, p, m) /\ UNCHANGED pc

OneSignaturePerSlot == OneSignaturePerSlotR(rn)
NoOlderInstance == NoOlderInstanceR(rn)
LoggedBeforePublished == LoggedBeforePublishedR(rn)
\* structural: the rebroadcast store only holds what was logged; the filter knows the newest logged instance
SelfIsLogged == rn.self \subseteq rn.ever
=============================================================================

SPECIFICATION Spec
CONSTANTS
  Dev = "none"
  Periods = {2}
  Mult2s = {2, 3, 5}
  Lookbacks = {0, 2}
  Tables <- TablesThorough
  Aligns = {0, 3, 4}
  Inits = {0, 2}
  MaxCerts = 4
  Skews = {1}
  Offsets <- OffsetsAll
INVARIANTS AfterBase Alignment ClosedFormHolds Monotone
CHECK_DEADLOCK FALSE

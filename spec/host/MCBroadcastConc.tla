-------------------------- MODULE MCBroadcastConc --------------------------
(* Outside the quantifier of C12 (which speaks of *sequences* of requests): two client
   goroutines inside F3.Broadcast at the same time.  BroadcastMessage is not one critical
   section - the filter is atomic, the WAL append is atomic, but another call can run between
   them - so the second caller (pcB) interleaves with the first (pc) step by step.
   Expected, and checked by checks/C12.py in the thorough tier:
     OneSignaturePerSlot, LoggedBeforePublished   hold  (the filter decides atomically)
     NoOlderInstance                              fails (A passes the filter for instance 1, B
        passes it for instance 2 and publishes, then A publishes: an older instance after a newer)
   The Go probe TestConcurrentProbe reproduces that schedule on the real runner.            *)
EXTENDS Broadcast, Json
CONSTANTS Insts, Senders, Rounds, Phases, Sigs, MaxRequests
VARIABLES pcB, nreq, hist
ccvars == <<rn, pc, pcB, nreq, hist>>
View == <<rn, pc, pcB, nreq>>
Symm == Permutations(Sigs) \cup Permutations(Rounds) \cup Permutations(Phases)
Msgs == [inst : Insts, sender : Senders, round : Rounds, phase : Phases, sig : Sigs]

CInit == BInit /\ pcB = <<>> /\ nreq = 0 /\ hist = <<>>
Log(e) == hist' = Append(hist, e)

\* caller A: the actions of Broadcast.tla (pc)
AFilter == /\ nreq < MaxRequests /\ nreq' = nreq + 1
           /\ \E m \in Msgs : ReqFilter(m) /\ Log([op |-> "F", who |-> "A", m |-> m])
           /\ UNCHANGED pcB
AAppend == ReqAppend /\ Log([op |-> "A", who |-> "A"]) /\ UNCHANGED <<pcB, nreq>>
APublish == ReqPublish /\ Log([op |-> "P", who |-> "A"]) /\ UNCHANGED <<pcB, nreq>>
\* caller B: the same three critical sections on the same runner, its own program counter
BFilter == /\ nreq < MaxRequests /\ nreq' = nreq + 1 /\ pcB = <<>>
           /\ \E m \in Msgs :
                LET s == StepFilter(rn, m) IN
                  /\ rn' = s.r /\ pcB' = IF s.ok THEN <<"append", m>> ELSE <<>>
                  /\ Log([op |-> "F", who |-> "B", m |-> m])
           /\ UNCHANGED pc
BAppend == /\ pcB # <<>> /\ pcB[1] = "append" /\ rn' = StepAppend(rn, pcB[2]) /\ pcB' = <<"publish", pcB[2]>>
           /\ Log([op |-> "A", who |-> "B"]) /\ UNCHANGED <<pc, nreq>>
BPublish == /\ pcB # <<>> /\ pcB[1] = "publish" /\ rn' = StepPublish(rn, pcB[2]) /\ pcB' = <<>>
            /\ Log([op |-> "P", who |-> "B"]) /\ UNCHANGED <<pc, nreq>>
CNext == AFilter \/ AAppend \/ APublish \/ BFilter \/ BAppend \/ BPublish
CSpec == CInit /\ [][CNext]_ccvars
NoOlderOrHist == NoOlderInstance \/ (PrintT(<<"VERIF_HIST", ToJson(hist)>>) /\ FALSE)
=============================================================================

------------------------------ MODULE ConsensusInputs ------------------------------
(* Property C15: what an F3 node proposes for an instance and which committee it uses.

   Implementation-shaped reference of consensus_inputs.go (gpbftInputs.GetProposal / GetCommittee)
   over an abstract EC block tree, plus the clauses of the property written declaratively over an
   *observed* output, so that the same formulas judge (a) the reference itself (design check,
   MCConsensusInputs) and (b) what the production code returned (ConsensusInputsTrace).

   A case `c` is a record
     par, ep    : Seq(Nat)   EC block tree: tipset t in 1..Len(par), par[t] its parent (0: none, only t = 1),
                             ep[t] its epoch (strictly larger than the parent's; a gap > 1 = null rounds;
                             siblings = forks)
     head       : tipset     the node's current EC head         (head2: the head of a second node)
     init, L    : Nat        manifest InitialInstance, CommitteeLookback
     hl, plen   : Nat        manifest EC.HeadLookback, Gpbft.ChainProposedLength
     bootE      : Nat        manifest BootstrapEpoch - EC.Finality
     now        : Int        the clock, in half EC periods since the timestamp of epoch 0
     f0, fin    : tipset, Seq(tipset)   certificate history: instance init+j-1 finalized the chain
                             fin[j-1] .. fin[j]  (fin[0] = f0)
   Power tables are identified by the tipset they belong to (every tipset has a different table in the
   driver); 0 is the initial table handed to the certificate store, NoTs = 0 also means "no tipset".  *)
EXTENDS Integers, Sequences, FiniteSets

CONSTANTS ChainMaxLen,   \* gpbft.ChainMaxLen (128); small in the exhaustive configurations
          Dev            \* "none", or a named deviation of the reference (non-vacuity of the design check)

Min(a, b) == IF a <= b THEN a ELSE b
Max(a, b) == IF a >= b THEN a ELSE b
NoTs == 0
InitialTable == 0

Tipsets(c) == 1..Len(c.par)

\* <<t, parent(t), ..., genesis>>   (a recursive *function*: TLC applies it to values, no chains of lazy arguments)
AncSeq(c, t) ==
  LET F[x \in 0..Len(c.par)] == IF x = 0 THEN <<>> ELSE <<x>> \o F[c.par[x]] IN F[t]
Anc(c, t) == LET a == AncSeq(c, t) IN {a[i] : i \in DOMAIN a}
Descends(c, t, b) == b \in Anc(c, t)
\* number of parent steps from h back to t (t an ancestor-or-self of h)
Depth(c, h, t) == LET a == AncSeq(c, h) IN (CHOOSE i \in DOMAIN a : a[i] = t) - 1

\* ec.Backend.GetTipsetByEpoch on the chain of head h: the latest non-null tipset at or before epoch e
TipsetByEpoch(c, h, e) ==
  LET a == AncSeq(c, h)
      cand == {i \in DOMAIN a : c.ep[a[i]] <= e}
  IN IF e > c.ep[h] \/ cand = {} THEN NoTs
     ELSE a[CHOOSE i \in cand : \A j \in cand : i <= j]

\* ------------------------------------------------------------------ certificates / committee
NCerts(c) == Len(c.fin)
HasCert(c, i) == i >= c.init /\ i < c.init + NCerts(c)
CertHead(c, i) == c.fin[i - c.init + 1]
InWindow(c, i) == i < c.init + c.L
ErrCommittee == [err |-> TRUE, tab |-> -1, beacon |-> -1]

\* consensus_inputs.go:192-267 (dev: a named deviation, "none" for the reference)
CommitteeD(c, i, dev) ==
  IF InWindow(c, i) THEN
    LET b == IF NCerts(c) = 0 THEN TipsetByEpoch(c, c.head, c.bootE) ELSE c.f0 IN
    IF b = NoTs THEN ErrCommittee ELSE [err |-> FALSE, tab |-> InitialTable, beacon |-> b]
  ELSE IF HasCert(c, i - c.L) THEN
    LET t == IF dev = "committee_plus1" /\ HasCert(c, i - c.L + 1) THEN CertHead(c, i - c.L + 1) ELSE CertHead(c, i - c.L)
    IN [err |-> FALSE, tab |-> t, beacon |-> t]
  ELSE ErrCommittee
Committee(c, i) == CommitteeD(c, i, "none")

\* the table each instance's committee has in a history produced by correct nodes (used to build the
\* power-table deltas of the certificates the driver stores)
CTab(c) == [j \in 1..(NCerts(c) + 1) |-> Committee(c, c.init + j - 1).tab]

\* ------------------------------------------------------------------ proposal
\* the tipset finalized by the previous instance; the bootstrap tipset for the first instance
BaseOf(c, inst) ==
  IF inst = c.init THEN TipsetByEpoch(c, c.head, c.bootE)
  ELSE IF inst > c.init /\ inst - c.init <= NCerts(c) THEN c.fin[inst - c.init]
  ELSE NoTs
ImplBase(c, inst) == IF Dev = "base_from_head" /\ BaseOf(c, inst) # NoTs THEN c.head ELSE BaseOf(c, inst)

\* collectChain, consensus_inputs.go:69-98: walk the parents of head until base is met; the tipsets after base up to
\* head, or <<>> when head is behind base or the walk reaches an epoch below the base's without meeting it
Reverse(s) == [i \in 1..Len(s) |-> s[Len(s) + 1 - i]]
Collect(c, base, head) ==
  LET a == AncSeq(c, head)
      at == {i \in DOMAIN a : a[i] = base}
  IN IF c.ep[head] < c.ep[base] THEN <<>>
     ELSE IF at # {} THEN Reverse(SubSeq(a, 1, (CHOOSE i \in at : TRUE) - 1))
     ELSE IF Dev = "no_collapse" THEN Reverse(SelectSeq(a, LAMBDA x : c.ep[x] >= c.ep[base]))
     ELSE <<>>

\* now < timestamp(t) + period
Fresh(c, t) == c.now < 2 * (c.ep[t] + 1)
DropLast(s, n) == SubSeq(s, 1, Max(0, Len(s) - n))
ErrProposal == [err |-> TRUE, chain |-> <<>>, supp |-> -1]

\* GetProposal, consensus_inputs.go:106-190
Proposal(c, inst) ==
  LET base == ImplBase(c, inst) IN
  IF base = NoTs THEN ErrProposal
  ELSE LET col == Collect(c, base, c.head)
           lb  == DropLast(col, IF Dev = "lookback_off_by_one" THEN Max(0, c.hl - 1) ELSE c.hl)
           fr  == IF Len(lb) > 0 /\ Fresh(c, lb[Len(lb)]) /\ Dev # "no_freshness" THEN DropLast(lb, 1) ELSE lb
           n   == Min(Min(ChainMaxLen, c.plen) - 1, Len(fr))
           com == CommitteeD(c, inst + 1, Dev)
       IN IF com.err THEN ErrProposal
          ELSE [err |-> FALSE, chain |-> <<base>> \o SubSeq(fr, 1, n), supp |-> com.tab]

\* what the reference would make the driver log
ModelObs(c, inst) ==
  LET p == Proposal(c, inst) IN
  [err |-> p.err, chain |-> p.chain, eps |-> [j \in DOMAIN p.chain |-> c.ep[p.chain[j]]],
   ptids |-> p.chain, supp |-> p.supp]

\* ------------------------------------------------------------------ the clauses of C15 over an observed proposal
\* o = [err, chain (tipset ids, 0 = a key EC does not know), eps (epochs as returned), ptids (tipset whose EC
\*      power table has the CID carried by chain[j], -1 unknown), supp (table the supplemental data commits to)]
KnownIds(c, o) == \A j \in DOMAIN o.chain : o.chain[j] \in Tipsets(c)
LastOf(o) == o.chain[Len(o.chain)]

\* starts at the tipset finalized by the previous instance (bootstrap tipset for the first one)
P_StartsAtFinalized(c, inst, o) ==
  (~o.err /\ BaseOf(c, inst) # NoTs) => (Len(o.chain) >= 1 /\ o.chain[1] = BaseOf(c, inst))
\* continues only along the parent chain of the current EC head
P_AlongHeadParents(c, inst, o) ==
  (~o.err /\ KnownIds(c, o)) =>
     /\ \A j \in 2..Len(o.chain) : c.par[o.chain[j]] = o.chain[j - 1]
     /\ Len(o.chain) > 1 => LastOf(o) \in Anc(c, c.head)
\* well-formed: known tipsets, their EC epochs, strictly increasing
P_WellFormed(c, inst, o) ==
  ~o.err => /\ KnownIds(c, o) /\ Len(o.chain) >= 1 /\ Len(o.eps) = Len(o.chain)
            /\ \A j \in DOMAIN o.chain : o.eps[j] = c.ep[o.chain[j]]
            /\ \A j \in 2..Len(o.chain) : o.eps[j] > o.eps[j - 1]
\* no longer than the configured and protocol maxima: proposal length, protocol chain length, and the
\* configured distance from the head (head look-back; a tipset younger than one EC period is never proposed -
\* judged only when the clock is not behind the head's own timestamp, otherwise several tipsets are "young")
SaneClock(c) == c.now >= 2 * c.ep[c.head]
P_WithinLimits(c, inst, o) ==
  ~o.err => /\ Len(o.chain) <= Min(ChainMaxLen, c.plen)
            /\ (Len(o.chain) > 1 /\ KnownIds(c, o) /\ LastOf(o) \in Anc(c, c.head)) =>
                  (Depth(c, c.head, LastOf(o)) >= c.hl /\ (SaneClock(c) => ~Fresh(c, LastOf(o))))
\* collapses to the base alone when the head does not descend from it (reorg, or head behind base)
P_Collapses(c, inst, o) ==
  (~o.err /\ BaseOf(c, inst) # NoTs /\ ~Descends(c, c.head, BaseOf(c, inst))) => o.chain = <<BaseOf(c, inst)>>
\* each tipset carries the CID of EC's power table at that tipset
P_PowerTableCIDs(c, inst, o) == ~o.err => (Len(o.ptids) = Len(o.chain) /\ \A j \in DOMAIN o.chain : o.ptids[j] = o.chain[j])
\* the supplemental data commits to the next instance's committee
P_Supplemental(c, inst, o) == (~o.err /\ ~Committee(c, inst + 1).err) => o.supp = Committee(c, inst + 1).tab

\* committee of instance i as observed: oc = [err, tab, beacon]
C_FromFinality(c, i, oc) ==
  IF InWindow(c, i) THEN (~oc.err => oc.tab = InitialTable)
  ELSE IF HasCert(c, i - c.L) THEN (~oc.err => (oc.tab = CertHead(c, i - c.L) /\ oc.beacon = CertHead(c, i - c.L)))
  ELSE oc.err       \* nothing finalized to derive it from
\* two nodes with the same certificates (and different EC heads)
C_SameAcrossNodes(c, i, oa, ob) ==
  (~oa.err /\ ~ob.err) => (oa.tab = ob.tab /\ ((~InWindow(c, i) \/ NCerts(c) > 0) => oa.beacon = ob.beacon))

\* ------------------------------------------------------------------ the participant's own guard (gpbft/participant.go:213-226)
\* the host hands over a chain of n tipsets whose first malformed position is `badpos` (0: none)
BeginExpect(n, badpos) ==
  IF n = 0 \/ badpos \in 1..Min(n, ChainMaxLen) THEN [err |-> TRUE, len |-> 0]
  ELSE [err |-> FALSE, len |-> Min(n, ChainMaxLen)]
\* ob = [err, len, ids]: what the participant put into its QUALITY vote (ids: positions in the host's chain)
B_Bounded(n, badpos, ob) ==
  ~ob.err => /\ ob.len >= 1 /\ ob.len <= ChainMaxLen /\ ob.len <= n
             /\ Len(ob.ids) = ob.len /\ \A j \in 1..ob.len : ob.ids[j] = j
             /\ ~(badpos \in 1..ob.len)
=============================================================================

---------------------------- MODULE MCBroadcast ----------------------------
(* Exhaustive configuration of Broadcast.tla (property C12): every interleaving of (possibly
   conflicting) broadcast requests, rebroadcast requests, certificates (WAL purge + store trim),
   echoes of own messages, and process death between any two critical sections followed by a
   restart.  `hist` records the operations (kept out of the fingerprint by VIEW); it is what the
   generator (-simulate) and the named-deviation counterexamples hand to the Go driver.       *)
EXTENDS Broadcast, Json
CONSTANTS Insts, Senders, Rounds, Phases, Sigs,
          MaxRestarts, MaxRequests, MaxOther,   \* bounds on restarts / requests / other environment steps
          Keep,                                  \* keepInstancesInWAL (code: 5)
          Peers,                                 \* remote peers (records [id, lt]) that may use our identity
          Foreign,                               \* FALSE: the property's assumption (no other node signs with our identity)
          HistDepth                              \* simulate mode: print hist when it reaches this length (0 = never)
VARIABLES restarts, nreq, nother, hist
mcvars == <<rn, pc, restarts, nreq, nother, hist>>
View == <<rn, pc, restarts, nreq, nother>>

\* rounds, phases and signatures are opaque to the filter and the runner: symmetric in the exhaustive configs
Symm == Permutations(Sigs) \cup Permutations(Rounds) \cup Permutations(Phases)

PeerSmaller == {[id |-> "p", lt |-> TRUE]}      \* a remote peer whose id sorts before ours
PeerLarger == {[id |-> "q", lt |-> FALSE]}      \* ... after ours
PeerBoth == PeerSmaller \cup PeerLarger

Msgs == [inst : Insts, sender : Senders, round : Rounds, phase : Phases, sig : Sigs]

MCInit == BInit /\ restarts = 0 /\ nreq = 0 /\ nother = 0 /\ hist = <<>>
Log(e) == hist' = Append(hist, e)

Request == /\ nreq < MaxRequests /\ nreq' = nreq + 1
           /\ \E m \in Msgs : ReqFilter(m) /\ Log([op |-> "F", m |-> m])
           /\ UNCHANGED <<restarts, nother>>
StepA == ReqAppend /\ Log([op |-> "A"]) /\ UNCHANGED <<restarts, nreq, nother>>
StepP == ReqPublish /\ Log([op |-> "P"]) /\ UNCHANGED <<restarts, nreq, nother>>
\* a bound >= 99 means "unbounded": the counter is then not advanced (and does not split states)
Tick(v, vnext, mx) == IF mx >= 99 THEN vnext = v ELSE v < mx /\ vnext = v + 1
Crash == /\ Tick(restarts, restarts', MaxRestarts)
         /\ CrashRestart /\ Log([op |-> "X"]) /\ UNCHANGED <<nreq, nother>>
Rebr == /\ Tick(nother, nother', MaxOther)
        /\ \E i \in Insts, rd \in Rounds, ph \in Phases :
              /\ SelfAt(rn, i, rd, ph) # {}
              /\ DoRebroadcast(i, rd, ph) /\ Log([op |-> "R", inst |-> i, round |-> rd, phase |-> ph])
        /\ UNCHANGED <<restarts, nreq>>
Cert == /\ Tick(nother, nother', MaxOther)
        /\ \E c \in Insts : DoCertificate(c, Keep) /\ Log([op |-> "C", c |-> c])
        /\ UNCHANGED <<restarts, nreq>>
\* echo of one of our own published messages (Foreign = FALSE), or any message signed by
\* somebody else with our identity (Foreign = TRUE: outside the property's assumption)
Echo == /\ Tick(nother, nother', MaxOther)
        /\ \E p \in Peers, m \in (IF Foreign THEN Msgs ELSE rn.wire) :
              DoRemoteSeen(p, m) /\ Log([op |-> "E", m |-> m, peer |-> p])
        /\ UNCHANGED <<restarts, nreq>>

MCNext == Request \/ StepA \/ StepP \/ Crash \/ Rebr \/ Cert \/ Echo
MCSpec == MCInit /\ [][MCNext]_mcvars

\* named-deviation runs: print the operation history of the counterexample as JSON
OneSigOrHist == OneSignaturePerSlot \/ (PrintT(<<"VERIF_HIST", ToJson(hist)>>) /\ FALSE)
NoOlderOrHist == NoOlderInstance \/ (PrintT(<<"VERIF_HIST", ToJson(hist)>>) /\ FALSE)

\* ---------------------------------------------------------------- generator (tlc -simulate)
\* weighted choice of the operation class so that the rare steps (death between two critical
\* sections, restart, rebroadcast of an old slot, certificate) appear in every behaviour
\* half of the requests aim at a slot that already has a logged message (same or other signature)
Hot == {x \in Msgs : \E e \in rn.ever : x.inst = e.inst /\ Key(x) = Key(e)}
SimRequest == /\ nreq' = nreq
              /\ LET pool == IF RandomElement(1..100) <= 50 /\ Hot # {} THEN Hot ELSE Msgs
                 IN \E m \in pool : ReqFilter(m) /\ Log([op |-> "F", m |-> m])
              /\ UNCHANGED <<restarts, nother>>
SimNext ==
  LET d == RandomElement(1..100) IN
    IF ~Idle THEN (IF d <= 70 THEN (StepA \/ StepP) ELSE Crash)
    ELSE IF d <= 55 THEN SimRequest
    ELSE IF d <= 70 THEN (IF \E i \in Insts, rd \in Rounds, ph \in Phases : SelfAt(rn, i, rd, ph) # {} THEN Rebr ELSE Request)
    ELSE IF d <= 88 THEN Crash
    ELSE IF d <= 94 THEN Cert
    ELSE (IF rn.wire # {} \/ Foreign THEN Echo ELSE Request)
SimSpec == MCInit /\ [][SimNext]_mcvars
HistPrinted == (HistDepth = 0 \/ Len(hist) < HistDepth) \/ PrintT(<<"VERIF_HIST", ToJson(hist)>>)
=============================================================================

SPECIFICATION SimSpec
CONSTANTS
  LogBeforePublish = TRUE
  RearmOnStart = TRUE
  Insts = {1, 2, 3, 4}
  Senders = {1, 2}
  Rounds = {0, 1}
  Phases = {3, 4}
  Sigs = {"a", "b", "c"}
  MaxRestarts = 99
  MaxRequests = 99
  MaxOther = 99
  Keep = 1
  Peers <- PeerBoth
  Foreign = FALSE
  HistDepth = 26
INVARIANTS HistPrinted OneSignaturePerSlot NoOlderInstance LoggedBeforePublished
CHECK_DEADLOCK FALSE

SPECIFICATION MCSpec
CONSTANTS
  Tables = {1, 2}
  Finality = 2
  Bootstrap = 2
  Initial = 0
  Lookback = 1
  Dev = "stale_lp"
  MaxEpoch = 9
  MaxCerts = 2
  MaxNulls = 1
  MaxRestarts = 1
  KeepAll = FALSE
  Chain0 <- Chain0Plain
INVARIANTS PS_Exact PS_MemConsistent PS_Serves PS_DeltasAreFacts
CHECK_DEADLOCK FALSE

---------------------------- MODULE PowerStore ----------------------------
(* internal/powerstore/powerstore.go - the ec.Backend the production node hands to consensus (f3.go:293): EC's own
   GetPowerTable first; when EC no longer has the state (F3 fell behind EC by more than 1.5 finalities and EC pruned it)
   the table is rebuilt from the certificate store's base table plus per-epoch power-table deltas that a background loop
   recorded while EC still had them.  C15 says every proposal tipset carries "the CID of EC's power table at that tipset"
   and the committee is "the table ... at the head finalized look-back instances earlier": both go through this object,
   so the property needs    GetPowerTable(tsk) \in {error, EC's table at tsk}    in every reachable state.

   Implementation-shaped: one action per step the code takes atomically with respect to its own goroutine
     Tick(failAt, keep)  one iteration of run(): the threshold logic, mostRecentPowerTable, advance (epoch by epoch,
                         null epochs as nil deltas), deleteAll (individual deletes may fail: `keep`)
     Restart             New() over the same datastore: memory forgotten, deltas survive
     AdvanceHead / PutCert   the environment: EC grows (null epochs, evolving table), F3 finalizes
     Get(e, ecOK)        GetPowerTable for the tipset at epoch e, EC answering itself or not
   Tables are small integers; a delta is <<from, to>> (or Nil when nothing changed / null epoch).  Applying a delta
   to a table it was not made from has no specified outcome (`Bad`) - the exactness clause forbids ever getting there. *)
EXTENDS Integers, Sequences, FiniteSets, TLC

CONSTANTS Tables,                 \* table ids, positive integers
          Finality, Bootstrap,    \* manifest.EC.Finality, manifest.BootstrapEpoch
          Initial, Lookback,      \* manifest.InitialInstance, manifest.CommitteeLookback
          Dev                     \* named deviation of the reference ("none" = the code as written)

NullT == 0
Err == -1
NoPt == -2
Bad == -3
None == -9
Nil == <<>>

VARIABLES ecHead,      \* epoch of EC's head tipset
          chain,       \* [0..ecHead -> Tables \cup {NullT}]: EC's power table at the tipset of that epoch, NullT = null epoch
          heads,       \* head epochs of the certificates Initial, Initial+1, ... held by the certificate store
          ds,          \* the /ohshitstore/powerdiffs keys: epoch -> delta
          lastEpoch, lastPt, initialized    \* lastStoredEpoch, lastStoredPt, run()'s local flag
psvars == <<ecHead, chain, heads, ds, lastEpoch, lastPt, initialized>>

Max(S) == CHOOSE x \in S : \A y \in S : y <= x
MaxOf(a, b) == IF a >= b THEN a ELSE b
MinOf(a, b) == IF a <= b THEN a ELSE b
StartTh == MaxOf((Finality * 3) \div 2, 1)
StopTh == MaxOf(Finality \div 2, 1)

\* ec.GetTipsetByEpoch: the tipset at or immediately before e (epoch 0 is never null)
TipsetAt(e) == Max({x \in 0..MinOf(e, ecHead) : chain[x] # NullT})
ECTable(e) == chain[TipsetAt(e)]

\* ------------------------------------------------------------------ certificate store as the power store reads it
NCerts == Len(heads)
BaseInstance == Initial + NCerts                       \* lastCert.GPBFTInstance + 1, or InitialInstance
HeadOf(i) == heads[i - Initial + 1]                    \* head epoch finalized by instance i
InWindow(i) == i < Initial + Lookback
BaseEpoch == IF NCerts > 0 /\ ~InWindow(BaseInstance) THEN HeadOf(BaseInstance - Lookback) ELSE Bootstrap - Finality
\* certstore.GetPowerTable(i): the committee of instance i = initial table in the window, else EC's table at the head
\* finalized Lookback instances earlier (what the certificates' deltas add up to; C09 and C15 establish that part)
CsPower(i) == IF InWindow(i) THEN ECTable(Bootstrap - Finality)
              ELSE IF Dev = "base_instance_off" /\ ~InWindow(i - 1) /\ i - 1 - Lookback >= Initial THEN chain[HeadOf(i - 1 - Lookback)]
              ELSE chain[HeadOf(i - Lookback)]
BasePt == CsPower(BaseInstance)

\* ------------------------------------------------------------------ deltas
Diff(a, b) == IF a = b THEN Nil ELSE <<a, b>>
ApplyOne(cur, d) == IF cur \in {Err, Bad} THEN cur ELSE IF d = Nil THEN cur ELSE IF d[1] = cur THEN d[2] ELSE Bad
RECURSIVE ApplyRange(_, _, _)
ApplyRange(pt, a, b) == IF a > b THEN pt ELSE ApplyRange(ApplyOne(pt, ds[a]), a + 1, b)

\* ------------------------------------------------------------------ GetPowerTable when EC refuses
GetFallback(e) ==
  LET bE == BaseEpoch IN
  IF e < bE THEN Err
  ELSE IF e = bE THEN BasePt
  ELSE IF \E x \in (bE + 1)..e : x \notin DOMAIN ds THEN Err
  ELSE ApplyRange(BasePt, bE + 1, e)

\* ------------------------------------------------------------------ mostRecentPowerTable
Contig(bE) == Max({k \in 0..(ecHead + 1) : \A j \in 1..k : (bE + j) \in DOMAIN ds})
MostRecent == LET bE == BaseEpoch
                  n == Contig(bE)
              IN <<bE + n, IF Dev = "mostrecent_noapply" THEN BasePt ELSE ApplyRange(BasePt, bE + 1, bE + n)>>

\* ------------------------------------------------------------------ advance(head): epochs le+1 .. head-Finality, one key each
\* failAt: first epoch whose EC power-table lookup fails (None: all succeed); everything before it is stored
AdvanceTo(le, lp, failAt) ==
  LET target == ecHead - Finality
      lim == IF failAt = None \/ failAt > target \/ failAt <= le \/ chain[failAt] = NullT THEN target ELSE failAt - 1
      Prev(x) == LET S == {y \in (le + 1)..(x - 1) : chain[y] # NullT} IN IF S = {} \/ Dev = "stale_lp" THEN lp ELSE chain[Max(S)]
      KeyOf(x) == IF Dev = "diff_key_off" /\ chain[x] # NullT THEN x - 1 ELSE x
      New == (le + 1)..lim
      Val(x) == IF chain[x] = NullT THEN Nil ELSE Diff(Prev(x), chain[x])
      NewKeys == IF Dev = "null_skip" THEN {KeyOf(x) : x \in {y \in New : chain[y] # NullT}} ELSE {KeyOf(x) : x \in New}
      Src(k) == IF \E x \in New : KeyOf(x) = k /\ chain[x] # NullT THEN CHOOSE x \in New : KeyOf(x) = k /\ chain[x] # NullT
                ELSE CHOOSE x \in New : KeyOf(x) = k
  IN IF le >= target \/ lim <= le THEN [ds |-> ds, le |-> le, lp |-> lp]
     ELSE [ds |-> [k \in (DOMAIN ds) \cup NewKeys |-> IF k \in NewKeys THEN Val(Src(k)) ELSE ds[k]],
           le |-> lim, lp |-> Prev(lim + 1)]

Empty == [k \in {} |-> Nil]
Wipe(keep) == /\ ds' = [k \in (DOMAIN ds) \cap keep |-> ds[k]]
              /\ lastEpoch' = -1 /\ lastPt' = NoPt

Tick(failAt, keep) ==
  LET f3 == BaseEpoch IN
  /\ initialized' = TRUE
  /\ UNCHANGED <<ecHead, chain, heads>>
  /\ IF ~initialized /\ f3 > ecHead - StopTh THEN Wipe(keep)
     ELSE IF lastPt = NoPt THEN
            IF f3 > ecHead - StartTh THEN UNCHANGED <<ds, lastEpoch, lastPt>>
            ELSE LET mr == MostRecent IN
                 IF mr[2] \in {Err, Bad} THEN /\ lastEpoch' = 0 /\ lastPt' = NoPt /\ UNCHANGED ds
                 ELSE LET a == AdvanceTo(mr[1], mr[2], failAt) IN ds' = a.ds /\ lastEpoch' = a.le /\ lastPt' = a.lp
     ELSE IF f3 > ecHead - StopTh /\ Dev # "never_stop" THEN Wipe(keep)
     ELSE LET a == AdvanceTo(lastEpoch, lastPt, failAt) IN ds' = a.ds /\ lastEpoch' = a.le /\ lastPt' = a.lp

Restart == /\ lastEpoch' = 0 /\ lastPt' = NoPt /\ initialized' = FALSE
           /\ UNCHANGED <<ecHead, chain, heads, ds>>

\* EC grows by `nulls` null epochs and one tipset whose table is t
AdvanceHead(nulls, t) ==
  /\ ecHead' = ecHead + nulls + 1
  /\ chain' = [e \in 0..ecHead' |-> IF e <= ecHead THEN chain[e] ELSE IF e = ecHead' THEN t ELSE NullT]
  /\ UNCHANGED <<heads, ds, lastEpoch, lastPt, initialized>>

LastFinal == IF NCerts = 0 THEN TipsetAt(Bootstrap - Finality) ELSE heads[NCerts]
\* F3 finalizes up to the tipset at epoch h (h = LastFinal: a base decision)
PutCert(h) ==
  /\ h \in LastFinal..ecHead /\ chain[h] # NullT
  /\ heads' = Append(heads, h)
  /\ UNCHANGED <<ecHead, chain, ds, lastEpoch, lastPt, initialized>>

PSInit(chain0) ==
  /\ chain = chain0 /\ ecHead = Max(DOMAIN chain0)
  /\ heads = <<>> /\ ds = Empty /\ lastEpoch = 0 /\ lastPt = NoPt /\ initialized = FALSE

\* ------------------------------------------------------------------ the property, at design level
NonNull == {e \in 0..ecHead : chain[e] # NullT}
\* C15: a table obtained through the power store is EC's table at that tipset, or an error - never another table
PS_Exact == \A e \in NonNull : GetFallback(e) \in {Err, chain[e]}
\* what the loop keeps in memory describes the chain (the inductive half of PS_Exact)
PS_MemConsistent == lastPt # NoPt => (lastPt = ECTable(lastEpoch) /\ lastEpoch <= ecHead - Finality)
\* what it is for: once engaged, every tipset between the F3 base and the last recorded epoch is served without EC
\* (not when the base fell back below the nominal start: Bootstrap - Finality a null epoch and the look-back window left through
\*  base decisions moves the base from the nominal epoch to the earlier tipset's epoch, whose successor epochs were never recorded -
\*  the store then refuses until it is wiped and re-engaged; found by the first recorded traces, see DESIGN 12.6)
PS_Serves == (lastPt # NoPt /\ BaseEpoch >= Bootstrap - Finality) =>
                \A e \in NonNull : (BaseEpoch <= e /\ e <= lastEpoch) => GetFallback(e) = chain[e]
\* every recorded delta is a fact about the (final) chain, whoever recorded it and whenever
PS_DeltasAreFacts == \A k \in DOMAIN ds : k >= 1 /\ k <= ecHead /\
                        ds[k] = (IF chain[k] = NullT THEN Nil ELSE Diff(ECTable(k - 1), chain[k]))
=============================================================================

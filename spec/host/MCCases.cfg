INIT InitR
NEXT NextNone
CONSTANTS
  ChainMaxLen = 128
  Dev = "none"
  MaxN = 7
  MaxLeaves = 3
  MaxCerts = 4
  HLs = {0, 1, 2}
  PLens = {1, 2, 3, 4}
  Ks = {0, 1, 2}
  NCases = 3000
INVARIANTS Emit
CHECK_DEADLOCK FALSE

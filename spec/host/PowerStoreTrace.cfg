SPECIFICATION TSpec
CONSTANTS
  Tables = {1, 2, 3, 4}
  Finality = 2
  Bootstrap = 2
  Initial = 0
  Lookback = 1
  Dev = "none"
  TraceFile = "trace.ndjson"
CHECK_DEADLOCK FALSE

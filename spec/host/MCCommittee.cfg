INIT InitTC
NEXT NextC
CONSTANTS
  ChainMaxLen = 3
  Dev = "none"
  MaxN = 5
  MaxLeaves = 3
  MaxCerts = 4
  HLs = {0}
  PLens = {3}
  Ks = {0}
  NCases = 0
INVARIANTS D_Proposal D_Committee D_NoError
CHECK_DEADLOCK FALSE

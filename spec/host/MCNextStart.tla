---------------------------- MODULE MCNextStart ----------------------------
(* computeNextInstanceStart as a function (Runner.tla, NextStart): TLC enumerates a grid of
   manifests x certificate histories x certificate x EC head x clock as initial states (no transitions) and
   checks what the code's comments promise about the result:
     AfterBase    never earlier than one EC delay plus the head look-back after the finalized tipset's timestamp
     Alignment    with catch-up alignment: never more than one alignment in the past; a moved start is the first
                  alignment point (counted from the finalized tipset's timestamp) at or after now
     ClosedForm   the back-off loop over the store equals the closed form: 2 delays for a first base decision, plus
                  table[k] for the k-th consecutive earlier base decision (the initial instance is not counted),
                  the last element reused beyond the table
     Monotone     one more base decision in a row never schedules earlier
   Time unit: arbitrary (the arithmetic is integer); periods are even so that halves stay integral.            *)
EXTENDS Runner, TLC
CONSTANTS Periods, Mult2s, Lookbacks, Tables, Aligns, Inits, MaxCerts, Skews, Offsets
VARIABLE x
OffsetsAll == {-7, 0, 5, 9, 14, 26, 41}
OffsetsQuick == {-7, 0, 9, 41}
TablesQuick == {<<3>>, <<1, 2>>, <<2, 4, 1>>}
TablesThorough == {<<3>>, <<1, 2>>, <<2, 4, 1>>, <<3, 1, 4, 6, 5>>, <<0, 2>>}
Bits(n) == [1..n -> BOOLEAN]
\* certificate history from a suffix pattern: a decision with suffix advances the finalized epoch by two
RECURSIVE EpochAt(_, _)
EpochAt(b, k) == IF k = 0 THEN 3 ELSE EpochAt(b, k - 1) + (IF b[k] THEN 2 ELSE 0)
StoreOf(init, n, b) == [k \in 1..n |-> [inst |-> init + k - 1, suffix |-> b[k], epoch |-> EpochAt(b, k)]]
Init == \E p \in Periods, m \in Mult2s, lb \in Lookbacks, t \in Tables, a \in Aligns, i \in Inits, n \in 1..MaxCerts :
          \E b \in Bits(n), c \in 1..n, hd \in {-1, 0, 2}, sk \in Skews, off \in Offsets :
             x = [mf |-> [period |-> p, mult2 |-> m, lookback |-> lb, table2 |-> t, align |-> a, init |-> i],
                  n |-> n, b |-> b, c |-> c, hd |-> hd, skew |-> sk, off |-> off]
Next == FALSE /\ UNCHANGED x
Spec == Init /\ [][Next]_x

St == StoreOf(x.mf.init, x.n, x.b)
Ct == St[x.c]
Hd == [epoch |-> Ct.epoch + x.hd, ts |-> (Ct.epoch + x.hd) * x.mf.period + x.skew, err |-> FALSE]
Now == BaseTs(Ct, Hd, x.mf) + x.off
Out == NextStart(Ct, St, Hd, Now, x.mf)

AfterBase == P_AfterBase(Ct, Hd, Now, x.mf, Out)
Alignment == P_Alignment(Ct, St, Hd, Now, x.mf, Out)
ClosedFormHolds == P_ClosedForm(Ct, St, Hd, x.mf)
\* the same certificate one instance later, after one more base decision: never earlier (tables are non-negative)
Monotone == (x.c < x.n /\ ~St[x.c + 1].suffix /\ ~Ct.suffix) =>
               Unaligned(St[x.c + 1], St, Hd, x.mf) >= Unaligned(Ct, St, Hd, x.mf)
=============================================================================

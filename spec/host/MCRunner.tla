------------------------------ MODULE MCRunner ------------------------------
(* Exhaustive configuration of Runner.tla: one node (runner + participant + event loop) in an environment that
   advances the clock and the EC head, stores certificates obtained from other nodes (certificate exchange),
   queues messages, lets the node decide itself, and kills / restarts the process over the same WAL and store.

   The certificate subscription holds only the LATEST stored certificate (certstore.Subscribe, a channel of
   capacity 1): intermediate certificates are skipped, and an own decision echoes back as a stale certificate.   *)
EXTENDS Runner, TLC
CONSTANTS MF,           \* the manifest
          MaxInst,      \* certificates / decisions up to this instance
          MaxT,         \* clock bound
          Senders,      \* identities the node signs for
          MaxWal        \* bound on own messages
VARIABLES up, rs, store, head, now, wal, pcert, pmsg, hi, prop, last
vars == <<up, rs, store, head, now, wal, pcert, pmsg, hi, prop, last>>

Dead == [cur |-> 0, inInst |-> FALSE, alarm |-> -1, fin |-> -1, self |-> {}, replay |-> <<>>, sched |-> NoSched]
NoTake == [kind |-> "none"]

Init == /\ up = FALSE /\ rs = Dead /\ store = <<>> /\ head = [epoch |-> 0, ts |-> 0, err |-> FALSE] /\ now = 0
        /\ wal = {} /\ pcert = -1 /\ pmsg = 0 /\ hi = 0 /\ prop = [inst |-> -1, fin |-> -1] /\ last = NoTake

Track(r) == hi' = PMax(hi, r.cur)
AlarmDue == up /\ rs.alarm # -1 /\ now >= rs.alarm

\* ---------------------------------------------------------------- process
Start == /\ ~up /\ up' = TRUE
         /\ rs' = OnStart(wal, store, head, now, MF) /\ Track(rs')
         /\ pcert' = -1 /\ last' = [kind |-> "start"]
         /\ UNCHANGED <<store, head, now, wal, pmsg, prop>>
Crash == /\ up /\ up' = FALSE /\ rs' = Dead /\ pcert' = -1 /\ pmsg' = 0 /\ last' = NoTake
         /\ UNCHANGED <<store, head, now, wal, hi, prop>>

\* ---------------------------------------------------------------- environment
BaseEpoch == IF store = <<>> THEN 0 ELSE Latest(store).epoch
\* a certificate obtained from other nodes; its head may lie one epoch beyond this node's EC head
EnvPut == /\ NextInst(store, MF) <= MaxInst
          /\ \E sfx \in BOOLEAN :
               \E e \in (IF sfx THEN (BaseEpoch + 1)..(head.epoch + 1) ELSE {BaseEpoch}) :
                 LET c == [inst |-> NextInst(store, MF), suffix |-> sfx, epoch |-> e] IN
                   /\ store' = Append(store, c)
                   /\ pcert' = IF up THEN c.inst ELSE -1
          /\ UNCHANGED <<up, rs, head, now, wal, pmsg, hi, prop, last>>
Tick == /\ now < MaxT /\ now' = now + 1
        /\ \E e \in head.epoch..(now' \div MF.period) : head' = [epoch |-> e, ts |-> e * MF.period, err |-> FALSE]
        /\ UNCHANGED <<up, rs, store, wal, pcert, pmsg, hi, prop, last>>
EnvMsg == /\ up /\ pmsg = 0 /\ pmsg' = 1
          /\ UNCHANGED <<up, rs, store, head, now, wal, pcert, hi, prop, last>>

\* ---------------------------------------------------------------- the event loop (host.go:194-253)
TakeCert == /\ up /\ pcert # -1
            /\ LET c == Get(store, pcert) IN
                 /\ rs' = OnCert(rs, c, store, head, now, MF) /\ Track(rs')
                 /\ last' = [kind |-> "cert", dup |-> (rs.cur = c.inst + 1), wasIn |-> rs.inInst, isIn |-> rs'.inInst]
            /\ pcert' = -1
            /\ UNCHANGED <<up, store, head, now, wal, pmsg, prop>>
\* own messages of the running instance (requested by the participant, signed, logged, stored for rebroadcast)
OwnMsgs == {m \in [inst : {rs.cur}, round : {0, 1}, phase : {1, 2}, sender : Senders] : m \notin wal}
Broadcast(r) == \/ wal' = wal /\ rs' = r
                \/ /\ r.inInst /\ Cardinality(wal) < MaxWal
                   /\ \E m \in OwnMsgs : wal' = wal \cup {m} /\ rs' = OnBroadcast(r, m)
Decide(r) == /\ r.inInst /\ r.cur <= MaxInst
             /\ IF Has(store, r.cur)
                  THEN \* the instance was finalized by others meanwhile (agreement: same value); Put is a no-op
                       /\ rs' = OnDecide(r, Get(store, r.cur), store, head, now, MF)
                       /\ UNCHANGED <<store, pcert>>
                  ELSE /\ r.cur = NextInst(store, MF)
                       /\ \E sfx \in BOOLEAN :
                            \E e \in (IF sfx THEN (BaseEpoch + 1)..(head.epoch + 1) ELSE {BaseEpoch}) :
                              LET c == [inst |-> r.cur, suffix |-> sfx, epoch |-> e] IN
                                /\ store' = Append(store, c)
                                /\ rs' = OnDecide(r, c, store', head, now, MF)
                                /\ pcert' = c.inst            \* the store notifies the runner's own subscription
TakeAlarm == /\ AlarmDue
             /\ last' = [kind |-> "alarm"]
             /\ \E next \in {-1, now + 2} :
                  IF ~rs.inInst
                    THEN /\ prop' = [inst |-> rs.cur, fin |-> rs.fin]
                         /\ Broadcast(OnAlarm(rs, next)) /\ UNCHANGED <<store, pcert>>
                    ELSE /\ UNCHANGED prop
                         /\ \/ Broadcast([rs EXCEPT !.alarm = next, !.replay = <<>>]) /\ UNCHANGED <<store, pcert>>
                            \/ Decide(rs) /\ UNCHANGED wal
             /\ Track(rs')
             /\ UNCHANGED <<up, head, now, pmsg>>
TakeMsg == /\ up /\ pmsg > 0 /\ pmsg' = 0
           /\ (Dev = "no_priority" \/ (pcert = -1 /\ ~AlarmDue))            \* :195-210
           /\ last' = [kind |-> "msg", pc |-> (pcert # -1), pa |-> AlarmDue]
           /\ \/ Broadcast([rs EXCEPT !.replay = <<>>]) /\ UNCHANGED <<store, pcert>>
              \/ Decide(rs) /\ UNCHANGED wal
           /\ Track(rs')
           /\ UNCHANGED <<up, head, now, prop>>

Next == Start \/ Crash \/ EnvPut \/ Tick \/ EnvMsg \/ TakeCert \/ TakeAlarm \/ TakeMsg
Spec == Init /\ [][Next]_vars

MFa == [period |-> 2, mult2 |-> 2, lookback |-> 0, table2 |-> <<1, 2>>, align |-> 0, init |-> 0]
MFb == [period |-> 2, mult2 |-> 3, lookback |-> 1, table2 |-> <<2>>, align |-> 3, init |-> 1]

\* ---------------------------------------------------------------- invariants
TypeOK == GapFree(store) /\ (up => rs.cur <= NextInst(store, MF))
\* the instance never decreases - within a process lifetime and across restarts
InstanceMonotone == up => rs.cur = hi
NeverBehindFinality == up => FollowsFinality(rs, MF)
ProposalFollowsFinality == prop.inst # -1 => (prop.inst >= prop.fin + 1 /\ prop.inst >= MF.init)
ScheduledAfterBase == up => SchedOK(rs)
ReplayThatInstanceInOrder == up => (ReplayOK(rs) /\ \A k \in DOMAIN rs.replay : rs.replay[k] \in wal)
ReplayComplete == (up /\ last.kind = "start") => {rs.replay[k] : k \in DOMAIN rs.replay} = {m \in Trimmed(wal) : m.inst = rs.cur}
DuplicateDoesNotDisturb == (last.kind = "cert" /\ last.dup /\ last.wasIn) => last.isIn
CertsAndAlarmsFirst == last.kind = "msg" => (~last.pc /\ ~last.pa)
=============================================================================

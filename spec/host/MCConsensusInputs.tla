---------------------------- MODULE MCConsensusInputs ----------------------------
(* Exhaustive evaluation of ConsensusInputs.tla, and generation of the cases the Go driver executes.

   The input space is enumerated as states at depth 1: the initial states are the EC block trees
   (stage 0), one step picks everything else (stage 1) - so that TLC's workers share the work.
   The clauses of C15 are checked on the reference's own output in every stage-1 state.

   INIT InitT  NEXT NextP : proposal space  - every tree (<= MaxN tipsets, <= MaxLeaves leaves, null
               rounds), every head, every base tipset (behind / at / ahead of the head, on or off its
               chain), head look-back, proposal length, clock around the freshness boundary, 0..2
               certificates behind the base.
   INIT InitTC NEXT NextC : committee space - linear tree, every non-decreasing sequence of <= MaxCerts
               finalized heads, committee look-back 2..3, initial instance 0..2.
   INIT InitR  (no steps) : NCases cases drawn with TLC's seeded RandomElement from the same space with
               larger trees; each is printed as JSON (invariant Emit) for the driver.               *)
EXTENDS ConsensusInputs, TLC, Json

CONSTANTS MaxN, MaxLeaves, MaxCerts, HLs, PLens, Ks, NCases
NowDs == {-1, 0, 1, 8}     \* clock: half periods past the freshness boundary (fresh, exactly one period old, older)

VARIABLES c, stage
vars == <<c, stage>>

\* ------------------------------------------------------------------ trees
RECURSIVE Pars(_)
Pars(n) == IF n = 1 THEN {<<0>>} ELSE {Append(p, q) : p \in Pars(n - 1), q \in 1..(n - 1)}
Leaves(p) == {t \in DOMAIN p : \A u \in DOMAIN p : p[u] # t}
AllTrees == UNION {{p \in Pars(n) : Cardinality(Leaves(p)) <= MaxLeaves} : n \in 1..MaxN}
RECURSIVE EpochOf(_, _, _)
EpochOf(p, g, t) == IF t = 1 THEN 0 ELSE EpochOf(p, g, p[t]) + g[t]
Epochs(p) == {[t \in DOMAIN p |-> EpochOf(p, g, t)] : g \in [DOMAIN p -> 1..2]}
Tree(p, e) == [par |-> p, ep |-> e]

\* the last tipset GetProposal would test for freshness (head look-back applied), else the head
RefTs(t, h, hlv, base) ==
  LET cc == [par |-> t.par, ep |-> t.ep, head |-> h]
      col == IF base \in Anc(cc, h) THEN Collect(cc, base, h) ELSE <<>>
      lb == DropLast(col, hlv)
  IN IF Len(lb) > 0 THEN lb[Len(lb)] ELSE h

\* a full case: tree t, head h, second node's head h2, manifest values, history f0v/finv, clock offset d (half periods
\* past the freshness boundary of the tipset tested for freshness)
MkCase(t, h, h2, initv, lv, hlv, pl, f0v, finv, bootv, d) ==
  LET base == IF finv = <<>> THEN f0v ELSE finv[Len(finv)] IN
  [par |-> t.par, ep |-> t.ep, head |-> h, head2 |-> h2, init |-> initv, L |-> lv, hl |-> hlv, plen |-> pl,
   bootE |-> bootv, now |-> 2 * (t.ep[RefTs(t, h, hlv, base)] + 1) + d, f0 |-> f0v, fin |-> finv]

\* with no certificate the base is the bootstrap tipset: ask for the largest epoch that still resolves to it
BootFor(t, h, b) == LET on == {x \in Anc(t, h) : t.par[x] = b} IN IF on # {} THEN t.ep[CHOOSE x \in on : TRUE] - 1 ELSE t.ep[b]

PoS(p, x) == IF p[x] = 0 THEN x ELSE p[x]      \* parent, or self for the genesis
PCase(t, h, hlv, pl, bs, k, d) ==
  LET finv == IF k = 0 THEN <<>> ELSE IF k = 1 THEN <<bs>> ELSE <<PoS(t.par, bs), bs>>
      f0v == IF k = 0 THEN bs ELSE IF k = 1 THEN PoS(t.par, bs) ELSE PoS(t.par, PoS(t.par, bs))
  IN MkCase(t, h, (h % Len(t.par)) + 1, 2 * ((bs + pl) % 2), 2 + ((h + hlv) % 2), hlv, pl, f0v, finv,
            IF k = 0 THEN BootFor(t, h, bs) ELSE t.ep[f0v], d)

InitT == stage = 0 /\ \E p \in AllTrees : \E e \in Epochs(p) : c = Tree(p, e)
NextP == /\ stage = 0 /\ stage' = 1
         /\ \E h \in DOMAIN c.par, hlv \in HLs, pl \in PLens, bs \in DOMAIN c.par, k \in Ks, d \in NowDs :
              /\ (k = 0 => bs \in Anc(c, h))          \* the bootstrap tipset lies on the head's chain
              /\ c' = PCase(c, h, hlv, pl, bs, k, d)

RECURSIVE NonDec(_, _, _)
NonDec(n, k, lo) == IF k = 0 THEN {<<>>} ELSE UNION {{<<x>> \o s : s \in NonDec(n, k - 1, x)} : x \in lo..n}
LinTrees == UNION {{Tree([t \in 1..n |-> t - 1], [t \in 1..n |-> t - 1]), Tree([t \in 1..n |-> t - 1], [t \in 1..n |-> 2 * t - 1])} : n \in 1..MaxN}
InitTC == stage = 0 /\ c \in LinTrees
NextC == /\ stage = 0 /\ stage' = 1
         /\ \E initv \in 0..2, lv \in 2..3, k \in 0..MaxCerts :
              \E finv \in NonDec(Len(c.par), k, 1) :
                 \E f0v \in 1..(IF finv = <<>> THEN Len(c.par) ELSE finv[1]) :
                    c' = MkCase(c, Len(c.par), 1, initv, lv, 0, 3, f0v, finv, c.ep[f0v], 4)

\* seeded random cases (TLC -seed); bound variables over singleton sets so that every draw is made exactly once
InitR ==
  /\ stage = 1
  /\ \E j \in 1..NCases : \E p \in {RandomElement(AllTrees)} : \E e \in {RandomElement(Epochs(p))} :
     \E h \in {RandomElement(DOMAIN p)}, h2 \in {RandomElement(DOMAIN p)}, bs \in {RandomElement(DOMAIN p)},
        initv \in {RandomElement(0..2)}, lv \in {RandomElement(2..3)}, hlv \in {RandomElement(HLs)},
        pl \in {RandomElement(PLens)}, d \in {RandomElement(NowDs)}, k0 \in {RandomElement(0..3)} :
     LET t == Tree(p, e)
         k == IF k0 = 0 /\ bs \notin Anc(t, h) THEN 1 ELSE k0
     IN \E g1 \in {RandomElement(Anc(t, bs))} : \E g2 \in {RandomElement(Anc(t, g1))} : \E g3 \in {RandomElement(Anc(t, g2))} :
        LET finv == IF k = 0 THEN <<>> ELSE IF k = 1 THEN <<bs>> ELSE IF k = 2 THEN <<g1, bs>> ELSE <<g2, g1, bs>>
            f0v == IF k = 0 THEN bs ELSE IF k = 1 THEN g1 ELSE IF k = 2 THEN g2 ELSE g3
        IN c = MkCase(t, h, h2, initv, lv, hlv, pl, f0v, finv, IF k = 0 THEN BootFor(t, h, bs) ELSE t.ep[f0v], d)
NextNone == UNCHANGED vars

\* ------------------------------------------------------------------ the clauses on the reference itself
CaseB == [c EXCEPT !.head = c.head2]
Insts == c.init..(c.init + NCerts(c))
CInsts == c.init..(c.init + NCerts(c) + c.L)
PNames == {"StartsAtFinalized", "AlongHeadParents", "WellFormed", "WithinLimits", "Collapses", "PowerTableCIDs", "Supplemental"}
PHolds(nm, i, o) == CASE nm = "StartsAtFinalized" -> P_StartsAtFinalized(c, i, o)
                      [] nm = "AlongHeadParents" -> P_AlongHeadParents(c, i, o)
                      [] nm = "WellFormed" -> P_WellFormed(c, i, o)
                      [] nm = "WithinLimits" -> P_WithinLimits(c, i, o)
                      [] nm = "Collapses" -> P_Collapses(c, i, o)
                      [] nm = "PowerTableCIDs" -> P_PowerTableCIDs(c, i, o)
                      [] nm = "Supplemental" -> P_Supplemental(c, i, o)
D_Proposal == stage = 1 =>
  \A i \in Insts : LET o == ModelObs(c, i)
                       bad == {nm \in PNames : ~PHolds(nm, i, o)}
                   IN bad = {} \/ (PrintT(<<"DESIGN_BAD", bad, i, o, c>>) /\ FALSE)
D_Committee == stage = 1 =>
  \A i \in CInsts : LET a == CommitteeD(c, i, Dev) b == CommitteeD(CaseB, i, Dev)
                    IN C_FromFinality(c, i, a) /\ C_FromFinality(CaseB, i, b) /\ C_SameAcrossNodes(c, i, a, b)
\* a proposal always exists for the next instance of a consistent history
D_NoError == stage = 1 => ~ModelObs(c, c.init + NCerts(c)).err
\* the participant's guard: what it proposes is bounded and well-formed
D_Begin == stage = 0 => \A n \in 0..(ChainMaxLen + 2), b \in 0..(ChainMaxLen + 2) :
              B_Bounded(n, b, LET e == BeginExpect(n, b) IN [err |-> e.err, len |-> e.len, ids |-> [j \in 1..e.len |-> j]])

Emit == PrintT(ToJson(c @@ [ctab |-> CTab(c)]))
=============================================================================

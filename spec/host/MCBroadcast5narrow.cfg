SPECIFICATION MCSpec
CONSTANTS
  LogBeforePublish = TRUE
  RearmOnStart = TRUE
  Insts = {1, 2}
  Senders = {1}
  Rounds = {r0}
  Phases = {P, C}
  Sigs = {a, b}
  MaxRestarts = 99
  MaxRequests = 5
  MaxOther = 99
  Keep = 1
  Peers <- PeerSmaller
  Foreign = FALSE
  HistDepth = 0
VIEW View
SYMMETRY Symm
INVARIANTS OneSignaturePerSlot NoOlderInstance LoggedBeforePublished SelfIsLogged
CHECK_DEADLOCK FALSE

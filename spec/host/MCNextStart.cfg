SPECIFICATION Spec
CONSTANTS
  Dev = "none"
  Periods = {2}
  Mult2s = {3}
  Lookbacks = {0, 2}
  Tables <- TablesQuick
  Aligns = {0, 3}
  Inits = {0, 2}
  MaxCerts = 4
  Skews = {1}
  Offsets <- OffsetsQuick
INVARIANTS AfterBase Alignment ClosedFormHolds Monotone
CHECK_DEADLOCK FALSE

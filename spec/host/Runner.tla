------------------------------- MODULE Runner -------------------------------
(* The node-level runner of go-f3 (host.go): WHICH instance a node works on and WHEN.
   Additional conformance coverage for property C15 (the proposal / committee of C15 are derived for
   the instance chosen here).

     Start                 host.go:158-185   newRunner rebuilds selfMessages from the WAL (trimmed to the newest
                                             instance, host.go:105-132); then the initial choice: the latest stored
                                             certificate -> receiveCertificate, none -> startInstanceAt(InitialInstance, now)
     OnCert                host.go:324-335   receiveCertificate: skip forward to cert.instance+1 only if the participant
                                             is behind it; never backwards; a duplicate does not disturb the instance
     StartAt               host.go:337-390   startInstanceAt: participant.StartInstanceAt(instance, at) (alarm armed at
                                             max(now, at), gpbft/participant.go:73-96 + host.go:774-788), then the node's
                                             own WAL-recorded messages OF THAT INSTANCE are replayed in
                                             (instance, round, phase, sender) order
     NextStart             host.go:392-463   computeNextInstanceStart, transcribed with Go's integer semantics (below)
     OnDecide              host.go:796-810   ReceiveDecision: own decision stored as certificate, next instance scheduled
     TakeCert/Alarm/Msg    host.go:194-253   the event loop: certificates and alarms are taken before messages

   TIME.  One unit is one millisecond relative to an arbitrary origin; every quantity is an integer.
   computeNextInstanceStart multiplies in float64:
        ecDelay := Duration(DelayMultiplier * float64(Period))      backoff := Duration(float64(ecDelay) * multiplier)
   The transcription below is exact only where float64 is: DelayMultiplier and every back-off table entry a multiple
   of 0.5 (they are carried here in HALVES: mult2 = 2*DelayMultiplier, table2[k] = 2*table[k-1]), Period a whole number
   of seconds, all products below 2^53 ns.  The drivers' grids are restricted to such parameters; the default table
   {1.3, 1.69, ...} is outside the exact domain and is not judged.

     manifest  mf   = [period, mult2, lookback, table2, align, init]      (align = 0: CatchUpAlignment off)
     cert           = [inst, suffix, epoch]        epoch = epoch of the head tipset of the certificate's chain
     store          = gap-free sequence of certs (the certificate store, oldest first)
     head           = [epoch, ts, err]             what ec.GetHead returns (err: the call failed)

   Dev names a deviation of this reference ("none" = the code as read); every deviation must be refuted by an
   invariant of MCRunner / MCNextStart (non-vacuity).                                                          *)
EXTENDS Integers, Sequences, FiniteSets
CONSTANT Dev

PMax(a, b) == IF a >= b THEN a ELSE b
PMin(a, b) == IF a <= b THEN a ELSE b
\* Go's % truncates towards zero: the sign follows the dividend
GoMod(a, b) == IF a >= 0 THEN a % b ELSE 0 - ((0 - a) % b)

\* ------------------------------------------------------------------ certificate store
Has(store, i) == store # <<>> /\ i >= store[1].inst /\ i < store[1].inst + Len(store)
Get(store, i) == store[i - store[1].inst + 1]
Latest(store) == store[Len(store)]
NextInst(store, mf) == IF store = <<>> THEN mf.init ELSE Latest(store).inst + 1
GapFree(store) == \A k \in 1..Len(store) : store[k].inst = store[1].inst + k - 1

\* ------------------------------------------------------------------ computeNextInstanceStart (host.go:392-463)
EcDelay(mf) == (mf.period * mf.mult2) \div 2                               \* :393
LookbackDelay(mf) == mf.period * mf.lookback                               \* :426
\* tipsettimestamp.go:15   timestamp(base) = timestamp(head) + (epoch(base) - epoch(head)) * period
BaseTs(cert, head, mf) == head.ts + (cert.epoch - head.epoch) * mf.period  \* :403-406

\* :450-456   attempts (already incremented) indexes the table 0-based; beyond it the last element is reused
TabInc(mf, a) ==
  IF Dev = "backoff_index" THEN (IF a <= Len(mf.table2) THEN mf.table2[a] ELSE mf.table2[Len(mf.table2)])
  ELSE IF a < Len(mf.table2) THEN mf.table2[a + 1] ELSE mf.table2[Len(mf.table2)]

\* :440-457   for instance := cert.instance-1; instance > InitialInstance; instance--   (bm2 = multiplier in halves)
RECURSIVE BackoffLoop(_, _, _, _, _)
BackoffLoop(store, mf, i, a, bm2) ==
  IF ~(IF Dev = "backoff_counts_initial" THEN i >= mf.init ELSE i > mf.init) THEN bm2
  ELSE IF ~Has(store, i) THEN bm2                                          \* certStore.Get failed: break
  ELSE IF Get(store, i).suffix THEN bm2                                    \* break
  ELSE BackoffLoop(store, mf, i - 1, a + 1, bm2 + TabInc(mf, a + 1))
BM2(cert, store, mf) == BackoffLoop(store, mf, cert.inst - 1, 0, 4)        \* :439  2.0

Unaligned(cert, store, head, mf) ==
  LET base == BaseTs(cert, head, mf) IN
    IF cert.suffix THEN base + EcDelay(mf) + LookbackDelay(mf)             \* :428-431
    ELSE IF cert.inst = mf.init /\ Dev # "initial_special_dropped"
           THEN base + EcDelay(mf) + LookbackDelay(mf)                     \* :432-435
    ELSE base + (EcDelay(mf) * BM2(cert, store, mf)) \div 2                \* :459
              + (IF Dev = "lookback_dropped" THEN 0 ELSE LookbackDelay(mf))   \* :462

\* :409-424 (deferred): if the start lies more than one alignment in the past, move it to the first multiple of
\* the alignment (counted from the base timestamp) that is not before now
Aligned(raw, base, now, mf) ==
  IF mf.align > 0 /\ raw < now - mf.align
    THEN LET delay == now - base
             off == GoMod(delay, mf.align)
         IN base + delay + (IF off > 0 THEN (IF Dev = "align_plus_offset" THEN off ELSE mf.align - off) ELSE 0)
    ELSE raw

NextStart(cert, store, head, now, mf) ==
  IF head.err THEN now + EcDelay(mf)                                       \* :395-400 (returns before the defer exists)
  ELSE Aligned(Unaligned(cert, store, head, mf), BaseTs(cert, head, mf), now, mf)

\* ---- what the code's comments promise about the result (checked on the grid of MCNextStart and on every
\*      value the real function returned)
\* "the tipset that got finalized can at minimum be 30-60s old": never earlier than one EC delay (plus the head
\* look-back) after the finalized tipset's timestamp
P_AfterBase(cert, head, now, mf, start) ==
  head.err \/ start >= BaseTs(cert, head, mf) + EcDelay(mf) + LookbackDelay(mf)
\* "If we were supposed to start this instance more than one GPBFT round ago ... try to align our start times":
\* with alignment configured the result is never more than one alignment in the past, and a moved start is the
\* first alignment point (counted from the base timestamp) at or after now
P_Alignment(cert, store, head, now, mf, start) ==
  (mf.align > 0 /\ ~head.err) =>
     LET base == BaseTs(cert, head, mf)
         raw == Unaligned(cert, store, head, mf)
     IN /\ start >= now - mf.align
        /\ (raw >= now - mf.align => start = raw)
        /\ (raw < now - mf.align => /\ GoMod(start - base, mf.align) = 0
                                    /\ start >= now /\ start < now + mf.align)
\* the back-off as a closed form: a first base decision waits 2 delays; the k-th consecutive earlier base decision
\* (not counting the initial instance) adds table[k], the last element being reused beyond the table
Consecutive(cert, store, mf) ==
  Cardinality({k \in 1..PMax(0, cert.inst - mf.init - 1) :
                 \A j \in 1..k : Has(store, cert.inst - j) /\ ~Get(store, cert.inst - j).suffix})
RECURSIVE TabSum(_, _)
TabSum(mf, a) == IF a = 0 THEN 0
                 ELSE TabSum(mf, a - 1) + (IF a < Len(mf.table2) THEN mf.table2[a + 1] ELSE mf.table2[Len(mf.table2)])
ClosedForm(cert, store, head, mf) ==
  BaseTs(cert, head, mf) + LookbackDelay(mf)
    + (IF cert.suffix \/ cert.inst = mf.init THEN EcDelay(mf)
       ELSE (EcDelay(mf) * (4 + TabSum(mf, Consecutive(cert, store, mf)))) \div 2)
P_ClosedForm(cert, store, head, mf) == Unaligned(cert, store, head, mf) = ClosedForm(cert, store, head, mf)

\* ------------------------------------------------------------------ the node's own messages
\* m = [inst, round, phase, sender]
MsgLess(a, b) == \/ a.inst < b.inst
                 \/ a.inst = b.inst /\ a.round < b.round
                 \/ a.inst = b.inst /\ a.round = b.round /\ a.phase < b.phase
                 \/ a.inst = b.inst /\ a.round = b.round /\ a.phase = b.phase /\ a.sender < b.sender
RECURSIVE SortMsgs(_)
SortMsgs(S) == IF S = {} THEN <<>>
               ELSE LET m == CHOOSE x \in S : \A y \in S : ~MsgLess(y, x) IN <<m>> \o SortMsgs(S \ {m})
IsSorted(s) == \A k \in 1..(Len(s) - 1) : ~MsgLess(s[k + 1], s[k])
\* host.go:110-132: every WAL entry is loaded, then everything below the largest instance is dropped
Trimmed(W) == {m \in W : \A x \in W : x.inst <= m.inst}

\* ------------------------------------------------------------------ volatile runner state and its transitions
\* rs = [cur     participant.Progress().ID
\*       inInst  the participant has begun `cur` (gpbft # nil): GetProposal/GetCommittee were called for it
\*       alarm   time the alert timer is armed for (-1: none)
\*       fin     newest certificate instance handed to the runner in this process lifetime (-1: none)
\*       self    selfMessages
\*       replay  the messages replayed to the participant by the last transition
\*       sched   the last start computed by the runner: [set, start, ok]; ok = the promises of the code's comments
\*               (P_AfterBase, P_Alignment) hold for it]
NoSched == [set |-> FALSE]
Sched(c, store, head, now, mf, at) ==
  [set |-> TRUE, start |-> at, ok |-> (P_AfterBase(c, head, now, mf, at) /\ P_Alignment(c, store, head, now, mf, at))]
Fresh(W) == [cur |-> 0, inInst |-> FALSE, alarm |-> -1, fin |-> -1, self |-> Trimmed(W), replay |-> <<>>, sched |-> NoSched]

ReplayOf(rs, i) == SortMsgs({m \in rs.self : m.inst = (IF Dev = "replay_next" THEN i + 1 ELSE i)})
StartAt(rs, i, at, now) == [rs EXCEPT !.cur = i, !.inInst = FALSE, !.alarm = PMax(now, at), !.replay = ReplayOf(rs, i)]

Ahead(rs, c) == CASE Dev = "skip_backwards" -> TRUE
                  [] Dev = "ge_to_gt" -> ~(rs.cur > c.inst + 1)
                  [] OTHER -> ~(rs.cur >= c.inst + 1)                        \* :327
OnCert(rs, c, store, head, now, mf) ==
  LET r1 == [rs EXCEPT !.fin = PMax(@, c.inst), !.replay = <<>>] IN
    IF ~Ahead(rs, c) THEN r1
    ELSE LET at == NextStart(c, store, head, now, mf) IN
           [StartAt(r1, c.inst + 1, at, now) EXCEPT
              !.sched = Sched(c, store, head, now, mf, at)]

OnStart(W, store, head, now, mf) ==
  IF store # <<>> /\ Dev # "start_ignores_store" THEN OnCert(Fresh(W), Latest(store), store, head, now, mf)   \* :176-180
  ELSE StartAt(Fresh(W), IF Dev = "start_ignores_initial" THEN 0 ELSE mf.init, now, now)                       \* :181-185

\* the alarm fires while no instance is running: beginInstance fetches the proposal / committee for `cur`
\* (gpbft/participant.go:213-250); `next` is whatever alarm the participant arms afterwards (its business)
OnAlarm(rs, next) == [rs EXCEPT !.inInst = TRUE, !.alarm = next, !.replay = <<>>]
OnBroadcast(rs, m) == [rs EXCEPT !.self = @ \cup {m}, !.replay = <<>>]     \* :477-486 (after filter and WAL append)
\* own decision c for instance cur: store2 = the store after saveDecision (gpbft/participant.go:252-265, host.go:796-810)
OnDecide(rs, c, store2, head, now, mf) ==
  LET at == NextStart(c, store2, head, now, mf) IN
    [rs EXCEPT !.cur = c.inst + 1, !.inInst = FALSE, !.alarm = PMax(now, at), !.fin = PMax(@, c.inst), !.replay = <<>>,
               !.sched = Sched(c, store2, head, now, mf, at)]

\* ------------------------------------------------------------------ clauses on a runner state
\* C15_InstanceFollowsFinality: the node never works on (and never derives a proposal / committee for) an instance
\* at or below one it has been told is final, nor below the manifest's initial instance
FollowsFinality(rs, mf) == rs.cur >= rs.fin + 1 /\ rs.cur >= mf.init
ReplayOK(rs) == /\ \A k \in DOMAIN rs.replay : rs.replay[k].inst = rs.cur
                /\ IsSorted(rs.replay)
SchedOK(rs) == rs.sched.set => rs.sched.ok
=============================================================================

SPECIFICATION TSpec
CONSTANTS
  LogBeforePublish = TRUE
  RearmOnStart = TRUE
  TraceFile = "trace.ndjson"
CHECK_DEADLOCK FALSE

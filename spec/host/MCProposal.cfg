INIT InitT
NEXT NextP
CONSTANTS
  ChainMaxLen = 3
  Dev = "none"
  MaxN = 4
  MaxLeaves = 3
  MaxCerts = 0
  HLs = {0, 1, 2}
  PLens = {1, 2, 3, 4}
  Ks = {0, 1, 2}
  NCases = 0
INVARIANTS D_Proposal D_Committee D_NoError D_Begin
CHECK_DEADLOCK FALSE

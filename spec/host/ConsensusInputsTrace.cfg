SPECIFICATION TSpec
CONSTANTS
  ChainMaxLen = 128
  Dev = "none"
  TraceFile = "trace.ndjson"
CHECK_DEADLOCK FALSE

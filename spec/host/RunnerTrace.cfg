SPECIFICATION TSpec
CONSTANTS
  Dev = "none"
  TraceFile = "trace.ndjson"
CHECK_DEADLOCK FALSE

---------------------------- MODULE RunnerTrace ----------------------------
(* Validation of what the production gpbftRunner (host.go, through harness/inpkg/runner_access.go) did, against
   Runner.tla.  Runner stage of property C15; driver harness/drivers/runner.  One NDJSON line per call:

   table      TReset    manifest + the certificate store's content (read back from the real certificates)
              Row       computeNextInstanceStart(cert i) for an EC head and a clock value -> the time returned
   histories  HReset    manifest, clock, EC head, identities the node signs for
              Put       certificates obtained from other nodes are stored (the runner is not told)
              Boot      newRunner over the WAL directory -> selfMessages
              Cert      receiveCertificate(stored certificate i)       (newest, stale, duplicate, skipping)
              StartAt   startInstanceAt(instance, at)
              Tick      clock and EC head move
              Alarm     the alert timer's tick is taken: participant.ReceiveAlarm (host.go:202-203)
              Bcast     BroadcastMessage(own signed message)  -> stored for replay or refused by the filter
              Deliver   a complete message is validated and handed to the participant (host.go:566, :228)
              Crash     the process dies (volatile state lost; WAL and store stay)
   loop       LStart    the REAL Start: WAL -> selfMessages, initial choice, event loop running
              LPut      certificates stored while the loop runs; the subscription hands over the newest
              LTick     clock moves, the loop takes the alarm
              LPrio     a message and a certificate / alarm are pending at once: who was served first
              LStop     Stop

   C15_* clauses judge what the code did with the property's own words (VIOLATION); Conf_* say the code still
   equals the implementation-shaped reference where the property is silent (spec drift).                    *)
EXTENDS Runner, Json, TLC, TLCExt
CONSTANT TraceFile
VARIABLES l, mf, up, rs, store, head, now, wal, bootE, hi, lp, obs, bad
tvars == <<l, mf, up, rs, store, head, now, wal, bootE, hi, lp, obs, bad>>

TraceLog == ndJsonDeserialize(TraceFile)
Ev == TraceLog[l]
IsEvent(e) == l <= Len(TraceLog) /\ TraceLog[l].ev = e /\ l' = l + 1
NoObs == [kind |-> "none"]
Dead == [cur |-> 0, inInst |-> FALSE, alarm |-> -1, fin |-> -1, self |-> {}, replay |-> <<>>, sched |-> NoSched]
MF0 == [period |-> 1000, mult2 |-> 2, lookback |-> 0, table2 |-> <<2>>, align |-> 0, init |-> 0]
Head0 == [epoch |-> 0, ts |-> 0, err |-> FALSE]

M(e) == [inst |-> e.inst, round |-> e.round, phase |-> e.phase, sender |-> e.sender]
RECURSIVE MapM(_)
MapM(s) == IF s = <<>> THEN <<>> ELSE <<M(Head(s))>> \o MapM(Tail(s))
MSet(s) == {M(s[i]) : i \in DOMAIN s}
C(e) == [inst |-> e.inst, suffix |-> e.suffix, epoch |-> e.epoch]
RECURSIVE MapC(_)
MapC(s) == IF s = <<>> THEN <<>> ELSE <<C(Head(s))>> \o MapC(Tail(s))
H(e) == [epoch |-> e.epoch, ts |-> e.ts, err |-> e.err]
MFOf(e) == [period |-> e.period, mult2 |-> e.mult2, lookback |-> e.lookback, table2 |-> e.table2, align |-> e.align, init |-> e.init]
ObsAlarm(o) == IF o.alarm.armed THEN o.alarm.at ELSE -1

TInit == /\ l = 1 /\ mf = MF0 /\ up = FALSE /\ rs = Dead /\ store = <<>> /\ head = Head0 /\ now = 0 /\ wal = {}
         /\ bootE = 0 /\ hi = 0 /\ lp = 0 /\ obs = NoObs /\ bad = {}

\* ------------------------------------------------------------------ table
TrTReset == /\ IsEvent("TReset") /\ mf' = MFOf(Ev.mf) /\ store' = MapC(Ev.store) /\ obs' = [kind |-> "TReset"]
            /\ up' = FALSE /\ rs' = Dead /\ wal' = {} /\ lp' = 0 /\ UNCHANGED <<head, now, bootE, hi>>
TrRow == /\ IsEvent("Row")
         /\ obs' = [kind |-> "Row", known |-> Has(store, Ev.i), i |-> Ev.i, head |-> H(Ev.head), now |-> Ev.now,
                    start |-> Ev.start, rem |-> Ev.rem]
         /\ UNCHANGED <<mf, up, rs, store, head, now, wal, bootE, hi, lp>>

\* ------------------------------------------------------------------ histories (loop calls made one at a time)
TrHReset == /\ IsEvent("HReset") /\ mf' = MFOf(Ev.mf) /\ store' = <<>> /\ head' = H(Ev.head) /\ now' = Ev.now /\ wal' = {}
            /\ bootE' = Ev.bootE /\ up' = FALSE /\ rs' = Dead /\ hi' = 0 /\ lp' = 0 /\ obs' = [kind |-> "HReset"]
TrPut == /\ IsEvent("Put") /\ store' = store \o MapC(Ev.certs)
         /\ obs' = [kind |-> "Put", latest |-> Ev.latest]
         /\ UNCHANGED <<mf, up, rs, head, now, wal, bootE, hi, lp>>
TrBoot == /\ IsEvent("Boot") /\ rs' = Fresh(wal) /\ up' = FALSE
          /\ obs' = [kind |-> "Boot", self |-> MSet(Ev.self), o |-> Ev.o]
          /\ lp' = 0 /\ UNCHANGED <<mf, store, head, now, wal, bootE, hi>>
Started(kind, pre, o, e) ==
  [kind |-> kind, pre |-> pre, hib |-> hi, lp |-> lp, o |-> o, replay |-> MapM(e.replay), queued |-> MSet(e.queued), err |-> e.err]
TrCert == /\ IsEvent("Cert")
          /\ LET c == C(Ev.cert) IN
               /\ rs' = OnCert(rs, c, store, head, now, mf)
               /\ obs' = Started("Cert", rs, Ev.o, Ev) @@ [cert |-> c, stored |-> (Has(store, c.inst) /\ Get(store, c.inst) = c)]
          /\ up' = TRUE /\ hi' = PMax(hi, Ev.o.prog) /\ lp' = Ev.o.prog
          /\ UNCHANGED <<mf, store, head, now, wal, bootE>>
TrStartAt == /\ IsEvent("StartAt")
             /\ rs' = StartAt([rs EXCEPT !.replay = <<>>], Ev.inst, Ev.at, now)
             /\ obs' = Started("StartAt", rs, Ev.o, Ev) @@ [inst |-> Ev.inst]
             /\ up' = TRUE /\ hi' = PMax(hi, Ev.o.prog) /\ lp' = Ev.o.prog
             /\ UNCHANGED <<mf, store, head, now, wal, bootE>>
TrTick == /\ IsEvent("Tick") /\ now' = Ev.now /\ head' = H(Ev.head)
          /\ obs' = [kind |-> "Tick", o |-> Ev.o, back |-> (Ev.now < now)]
          /\ UNCHANGED <<mf, up, rs, store, wal, bootE, hi, lp>>
\* an own decision read back from the store after a call during which the participant moved on by itself
Decision(e) == e.dec.inst >= 0
StoreAfter(c) == IF Has(store, c.inst) THEN store ELSE Append(store, c)
Outs(e) == [k \in DOMAIN e.out |-> [inst |-> e.out[k].inst, round |-> e.out[k].round, phase |-> e.out[k].phase,
                                     base |-> e.out[k].base, len |-> e.out[k].len]]
TrAlarm ==
  /\ IsEvent("Alarm")
  /\ LET begin == ~rs.inInst
         c == C(Ev.dec)
     IN /\ IF Decision(Ev) THEN /\ store' = StoreAfter(c)
                                 /\ rs' = OnDecide(rs, c, store', head, now, mf)
           ELSE /\ store' = store
                /\ rs' = IF begin /\ Ev.err = "" THEN OnAlarm(rs, ObsAlarm(Ev.o))
                         ELSE [rs EXCEPT !.alarm = ObsAlarm(Ev.o), !.replay = <<>>]
        /\ obs' = [kind |-> "Alarm", pre |-> rs, hib |-> hi, lp |-> lp, o |-> Ev.o, begin |-> begin, fired |-> Ev.fired, err |-> Ev.err, out |-> Outs(Ev),
                   dec |-> Decision(Ev), cert |-> c, agree |-> (Decision(Ev) => (Ev.dec.own = c.epoch /\ (Has(store, c.inst) => Get(store, c.inst) = c)))]
  /\ hi' = PMax(hi, Ev.o.prog) /\ lp' = Ev.o.prog
  /\ UNCHANGED <<mf, up, head, now, wal, bootE>>
TrBcast == /\ IsEvent("Bcast")
           /\ IF Ev.stored THEN wal' = wal \cup {M(Ev.m)} /\ rs' = OnBroadcast(rs, M(Ev.m))
              ELSE wal' = wal /\ rs' = [rs EXCEPT !.replay = <<>>]
           /\ obs' = [kind |-> "Bcast", o |-> Ev.o, m |-> M(Ev.m), stored |-> Ev.stored, pre |-> rs, hib |-> hi, lp |-> lp]
           /\ hi' = PMax(hi, Ev.o.prog) /\ lp' = Ev.o.prog
           /\ UNCHANGED <<mf, up, store, head, now, bootE>>
TrDeliver ==
  /\ IsEvent("Deliver")
  /\ LET c == C(Ev.dec) IN
       /\ IF Decision(Ev) THEN /\ store' = StoreAfter(c)
                               /\ rs' = OnDecide(rs, c, store', head, now, mf)
          ELSE /\ store' = store
               /\ rs' = IF rs.inInst THEN [rs EXCEPT !.alarm = ObsAlarm(Ev.o), !.replay = <<>>] ELSE [rs EXCEPT !.replay = <<>>]
       /\ obs' = [kind |-> "Deliver", pre |-> rs, hib |-> hi, lp |-> lp, o |-> Ev.o, out |-> Outs(Ev), dec |-> Decision(Ev), cert |-> c,
                  agree |-> (Decision(Ev) => (Ev.dec.own = c.epoch /\ (Has(store, c.inst) => Get(store, c.inst) = c)))]
  /\ hi' = PMax(hi, Ev.o.prog) /\ lp' = Ev.o.prog
  /\ UNCHANGED <<mf, up, head, now, wal, bootE>>
TrCrash == /\ IsEvent("Crash") /\ up' = FALSE /\ rs' = Dead /\ obs' = [kind |-> "Crash"]
           /\ lp' = 0 /\ UNCHANGED <<mf, store, head, now, wal, bootE, hi>>

\* ------------------------------------------------------------------ the real Start and event loop
\* the loop has settled: an alarm that was due has been taken (the instance begun, or the participant's own
\* timeout handled - the alarm it arms then is its business and is bound from the observation)
Settled(r, t, o) == IF r.alarm # -1 /\ t >= r.alarm
                      THEN (IF ~r.inInst /\ o.begun THEN OnAlarm(r, ObsAlarm(o)) ELSE [r EXCEPT !.alarm = ObsAlarm(o)])
                      ELSE r
\* host.go:310-316 (the second goroutine of Start): selfMessages below the newest certificate's instance are dropped
FinalizeTrim(S, st) == IF st = <<>> THEN S ELSE {m \in S : m.inst >= Latest(st).inst}
TrLStart ==
  /\ IsEvent("LStart")
  /\ LET r1 == OnStart(wal, store, head, now, mf) IN
       /\ rs' = [Settled(r1, now, Ev.o) EXCEPT !.self = FinalizeTrim(@, store)]
       /\ obs' = [kind |-> "LStart", pre |-> Fresh(wal), hib |-> hi, lp |-> lp, o |-> Ev.o, replay |-> MapM(Ev.replay), mreplay |-> r1.replay,
                  queued |-> MSet(Ev.o.queued), self |-> MSet(Ev.self), mself |-> r1.self, out |-> Outs(Ev),
                  due |-> (r1.alarm # -1 /\ now >= r1.alarm), first |-> "", ncerts |-> 0]
  /\ up' = TRUE /\ hi' = PMax(hi, Ev.o.prog) /\ lp' = Ev.o.prog
  /\ UNCHANGED <<mf, store, head, now, wal, bootE>>
TrLStep ==
  /\ IsEvent("LStep")
  /\ now' = Ev.now /\ head' = H(Ev.head) /\ store' = store \o MapC(Ev.certs)
  /\ LET r1 == IF Ev.certs # <<>> THEN OnCert(rs, Latest(store'), store', head', now', mf) ELSE [rs EXCEPT !.replay = <<>>] IN
       /\ rs' = [Settled(r1, now', Ev.o) EXCEPT !.self = FinalizeTrim(@, store')]
       /\ obs' = [kind |-> "LStep", pre |-> rs, hib |-> hi, lp |-> lp, o |-> Ev.o, replay |-> MapM(Ev.replay), mreplay |-> r1.replay,
                  queued |-> MSet(Ev.o.queued), out |-> Outs(Ev), due |-> (r1.alarm # -1 /\ now' >= r1.alarm),
                  first |-> Ev.first, ncerts |-> Len(Ev.certs), back |-> (Ev.now < now)]
  /\ hi' = PMax(hi, Ev.o.prog) /\ lp' = Ev.o.prog
  /\ UNCHANGED <<mf, up, wal, bootE>>
TrLStop == /\ IsEvent("LStop") /\ up' = FALSE /\ rs' = Dead /\ obs' = [kind |-> "LStop", err |-> Ev.err]
           /\ lp' = 0 /\ UNCHANGED <<mf, store, head, now, wal, bootE, hi>>

TNext == TrTReset \/ TrRow \/ TrHReset \/ TrPut \/ TrBoot \/ TrCert \/ TrStartAt \/ TrTick \/ TrAlarm \/ TrBcast
           \/ TrDeliver \/ TrCrash \/ TrLStart \/ TrLStep \/ TrLStop

\* ------------------------------------------------------------------ clauses
Has_o == obs.kind \in {"Cert", "StartAt", "Alarm", "Bcast", "Deliver", "LStart", "LStep"}
IsLoop == obs.kind \in {"LStart", "LStep"}
\* the tipset finalized by the instance before i, as the node's store (now) tells it
PrevEpoch(i) == IF i = mf.init THEN bootE ELSE IF Has(store, i - 1) THEN Get(store, i - 1).epoch ELSE -1
IsStart == obs.kind \in {"Cert", "StartAt"}
\* C15: "starts at the tipset finalized by the previous instance": after certificate i has been handed to the runner
\* the participant works on max(current, i+1); it never goes back (not even across a restart over the same store);
\* it never works below the manifest's initial instance; every vote it asks to be signed (hence every instance it
\* fetched a proposal / committee for) is for an instance above everything it has been told is final; and the
\* proposal it starts an instance with has the tipset finalized by the previous instance as its base.
C15_InstanceFollowsFinality ==
  /\ Has_o => /\ obs.o.prog >= rs.fin + 1
              /\ obs.o.prog >= mf.init
              /\ obs.o.prog >= obs.lp                            \* never goes back (lp: the instance observed before)
              /\ obs.o.prog >= obs.hib                           \* ... nor across a restart
  /\ obs.kind = "Cert" => obs.o.prog = PMax(obs.lp, obs.cert.inst + 1)
  /\ obs.kind = "LStart" => obs.o.prog = (IF store = <<>> THEN mf.init ELSE Latest(store).inst + 1)
  /\ (obs.kind = "LStep" /\ obs.ncerts > 0) => obs.o.prog = PMax(obs.lp, Latest(store).inst + 1)
  /\ obs.kind \in {"Alarm", "Deliver", "LStart", "LStep"} =>
        \A k \in DOMAIN obs.out : obs.out[k].inst >= obs.pre.fin + 1 /\ obs.out[k].inst >= mf.init
\* every proposal (QUALITY vote of round 0) the node asks to be signed has the tipset finalized by the previous instance as base
C15_ProposalBaseIsFinalized ==
  obs.kind \in {"Alarm", "Deliver", "LStart", "LStep"} =>
     \A k \in DOMAIN obs.out : (obs.out[k].phase = 1 /\ obs.out[k].round = 0) => obs.out[k].base = PrevEpoch(obs.out[k].inst)

\* conformance with the reference
ExpRow == NextStart(Get(store, obs.i), store, obs.head, obs.now, mf)
Conf_StartFormula == obs.kind = "Row" => (obs.known /\ obs.rem = 0 /\ obs.start = ExpRow)
Conf_StartAfterBase == (obs.kind = "Row" /\ obs.known) => P_AfterBase(Get(store, obs.i), obs.head, obs.now, mf, obs.start)
Conf_StartAlignment == (obs.kind = "Row" /\ obs.known) => P_Alignment(Get(store, obs.i), store, obs.head, obs.now, mf, obs.start)
Conf_Progress == Has_o => (obs.o.prog = rs.cur /\ obs.o.begun = rs.inInst)
Conf_Alarm == Has_o => ObsAlarm(obs.o) = rs.alarm
Conf_Sched == (Has_o /\ up) => SchedOK(rs)
\* (a certificate that is not ahead starts nothing; what is queued then is none of its business)
Conf_ReplayThatInstance ==
  /\ (IsStart /\ obs.o.prog # obs.pre.cur) => (obs.queued = {rs.replay[k] : k \in DOMAIN rs.replay} /\ ReplayOK(rs))
  /\ (obs.kind = "LStart" /\ ~obs.o.begun) => obs.queued = {obs.mreplay[k] : k \in DOMAIN obs.mreplay}
\* (the WAL may hold the same vote twice - re-requested with the same signature after a restart; a repeated message
\* is validated once, or twice if its justification differs: adjacent repetitions are dropped before comparing)
RECURSIVE Dedup(_)
Dedup(s) == IF Len(s) < 2 THEN s ELSE IF s[1] = s[2] THEN Dedup(Tail(s)) ELSE <<s[1]>> \o Dedup(Tail(s))
\* (while the loop runs, rebroadcasts of own votes pass the topic validator as well: only Start is judged there)
Conf_ReplayOrder == /\ IsStart => Dedup(obs.replay) = rs.replay
                    /\ obs.kind = "LStart" => Dedup(obs.replay) = obs.mreplay
Conf_Boot == /\ obs.kind = "Boot" => (obs.self = rs.self /\ obs.o.prog = 0 /\ ~obs.o.alarm.armed /\ ~obs.o.begun)
             /\ obs.kind = "LStart" => obs.self = rs.self
Conf_SelfStore == obs.kind = "Bcast" => {obs.o.selfinsts[k] : k \in DOMAIN obs.o.selfinsts} = {m.inst : m \in rs.self}
Conf_Begin == /\ (obs.kind = "Alarm" /\ obs.begin /\ obs.err = "") =>
                   (obs.out # <<>> /\ obs.out[1].phase = 1 /\ obs.out[1].round = 0 /\ obs.out[1].inst = obs.pre.cur)
              /\ IsLoop => (obs.o.begun => (obs.due \/ obs.pre.inInst))      \* nothing begins before its time
\* host.go:195-210: a pending certificate or alarm is served before a pending message
Conf_Priority == obs.kind = "LStep" => obs.first # "msg"
Conf_Tick == (obs.kind = "Tick" /\ up /\ ~rs.inInst) =>
               (ObsAlarm(obs.o) = rs.alarm /\ (rs.alarm # -1 => (obs.o.alarm.fired <=> now >= rs.alarm)))
\* the driver's environment stayed inside the model's assumptions
Conf_Env == /\ GapFree(store)
            /\ obs.kind = "Put" => (store # <<>> /\ Latest(store).inst = obs.latest)
            /\ obs.kind = "Cert" => (obs.stored /\ obs.err = "")
            /\ obs.kind = "StartAt" => obs.err = ""
            /\ obs.kind = "Tick" => ~obs.back
            /\ obs.kind = "Alarm" => (obs.fired /\ obs.agree /\ (obs.dec => obs.cert.inst = obs.pre.cur))
            /\ obs.kind = "Deliver" => (obs.agree /\ (obs.dec => obs.cert.inst = obs.pre.cur))
            /\ obs.kind = "LStep" => ~obs.back
            /\ obs.kind = "LStop" => obs.err = ""

Clauses == {"C15_InstanceFollowsFinality", "C15_ProposalBaseIsFinalized", "Conf_StartFormula", "Conf_StartAfterBase",
            "Conf_StartAlignment", "Conf_Progress", "Conf_Alarm", "Conf_Sched", "Conf_ReplayThatInstance", "Conf_ReplayOrder",
            "Conf_Boot", "Conf_SelfStore", "Conf_Begin", "Conf_Tick", "Conf_Env", "Conf_Priority"}
PropClauses == {"C15_InstanceFollowsFinality", "C15_ProposalBaseIsFinalized"}
Holds(x) == CASE x = "C15_InstanceFollowsFinality" -> C15_InstanceFollowsFinality
              [] x = "C15_ProposalBaseIsFinalized" -> C15_ProposalBaseIsFinalized
              [] x = "Conf_StartFormula" -> Conf_StartFormula [] x = "Conf_StartAfterBase" -> Conf_StartAfterBase
              [] x = "Conf_StartAlignment" -> Conf_StartAlignment [] x = "Conf_Progress" -> Conf_Progress
              [] x = "Conf_Alarm" -> Conf_Alarm [] x = "Conf_Sched" -> Conf_Sched
              [] x = "Conf_ReplayThatInstance" -> Conf_ReplayThatInstance [] x = "Conf_ReplayOrder" -> Conf_ReplayOrder
              [] x = "Conf_Boot" -> Conf_Boot [] x = "Conf_SelfStore" -> Conf_SelfStore [] x = "Conf_Begin" -> Conf_Begin
              [] x = "Conf_Tick" -> Conf_Tick [] x = "Conf_Env" -> Conf_Env [] x = "Conf_Priority" -> Conf_Priority
TStep == /\ TNext
         /\ LET nb == {x \in Clauses : ~(Holds(x))'} IN
              /\ bad' = bad \cup {<<l, x>> : x \in nb}
              /\ (nb = {} \/ (Cardinality(bad) > 40 /\ (nb \cap PropClauses = {} \/ Cardinality({b \in bad : b[2] \in PropClauses}) > 40))
                          \/ \A x \in nb : PrintT(<<"VERIF_BAD", l, {x}>>))
TSpec == TInit /\ [][TStep]_tvars
=============================================================================

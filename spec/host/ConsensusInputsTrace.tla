--------------------------- MODULE ConsensusInputsTrace ---------------------------
(* Validation of what the production consensus-inputs component (consensus_inputs.go, through the
   accessor harness/inpkg/inputs_access.go) and a real gpbft.Participant returned, against
   ConsensusInputs.tla.  One NDJSON line per call (driver: harness/drivers/inputs):
     Case       the inputs materialised by the driver (EC tree, heads, manifest values, certificate history, clock)
     Proposal   GetProposal(inst) of node A or B   -> chain as tipset ids, epochs, power-table ids, supplemental table
     Committee  GetCommittee(i) of node A and of node B (same certificates, different EC head)
     Begin      a real participant started on a host whose GetProposal returns a chain of n tipsets, malformed at badpos
   C15_* are the clauses of the property (failure = VIOLATION); Conf_* say the code still equals the
   implementation-shaped reference where the property leaves freedom (failure = spec drift).        *)
EXTENDS ConsensusInputs, Json, TLC, TLCExt
CONSTANT TraceFile
VARIABLES l, cur, obs, bad
tvars == <<l, cur, obs, bad>>

TraceLog == ndJsonDeserialize(TraceFile)
NoObs == [kind |-> "none"]
Ev == TraceLog[l]
IsEvent(e) == l <= Len(TraceLog) /\ TraceLog[l].ev = e /\ l' = l + 1

TInit == l = 1 /\ cur = [par |-> <<0>>] /\ obs = NoObs /\ bad = {}

TrCase == IsEvent("Case") /\ obs' = NoObs
          /\ cur' = [par |-> Ev.par, ep |-> Ev.ep, head |-> Ev.head, head2 |-> Ev.head2, init |-> Ev.init, L |-> Ev.L,
                     hl |-> Ev.hl, plen |-> Ev.plen, bootE |-> Ev.bootE, now |-> Ev.now, f0 |-> Ev.f0, fin |-> Ev.fin]
TrProposal == IsEvent("Proposal") /\ UNCHANGED cur
              /\ obs' = [kind |-> "Proposal", node |-> Ev.node, inst |-> Ev.inst,
                         o |-> [err |-> Ev.err, chain |-> Ev.chain, eps |-> Ev.eps, ptids |-> Ev.ptids, supp |-> Ev.supp]]
TrCommittee == IsEvent("Committee") /\ UNCHANGED cur
               /\ obs' = [kind |-> "Committee", i |-> Ev.i, a |-> Ev.a, b |-> Ev.b]
TrBegin == IsEvent("Begin") /\ UNCHANGED cur
           /\ obs' = [kind |-> "Begin", n |-> Ev.n, badpos |-> Ev.badpos, ob |-> [err |-> Ev.err, len |-> Ev.len, ids |-> Ev.ids]]
\* the driver's check appends one End line: clauses are evaluated on the *current* state (the observation bound by the
\* previous line) - evaluating them primed disables TLC's caching of lazy values and costs a factor 4
TrEnd == IsEvent("End") /\ UNCHANGED cur /\ obs' = NoObs
TNext == TrCase \/ TrProposal \/ TrCommittee \/ TrBegin \/ TrEnd

\* the case as seen by the node that answered
NodeCase == IF obs.kind = "Proposal" /\ obs.node = "B" THEN [cur EXCEPT !.head = cur.head2] ELSE cur
CaseB == [cur EXCEPT !.head = cur.head2]
IsP == obs.kind = "Proposal"
IsC == obs.kind = "Committee"

C15_StartsAtFinalized == IsP => P_StartsAtFinalized(NodeCase, obs.inst, obs.o)
C15_AlongHeadParents == IsP => P_AlongHeadParents(NodeCase, obs.inst, obs.o)
C15_WellFormed == IsP => P_WellFormed(NodeCase, obs.inst, obs.o)
C15_WithinLimits == IsP => P_WithinLimits(NodeCase, obs.inst, obs.o)
C15_CollapsesOnDivergence == IsP => P_Collapses(NodeCase, obs.inst, obs.o)
C15_PowerTableCIDs == IsP => P_PowerTableCIDs(NodeCase, obs.inst, obs.o)
C15_SupplementalCommitsNext == IsP => P_Supplemental(NodeCase, obs.inst, obs.o)
C15_CommitteeFromFinality == IsC => (C_FromFinality(cur, obs.i, obs.a) /\ C_FromFinality(CaseB, obs.i, obs.b))
C15_CommitteeSameAcrossNodes == IsC => C_SameAcrossNodes(cur, obs.i, obs.a, obs.b)
\* the committee's aggregate verifier is keyed on the key order of the committee's own power table (a function of
\* finalized history), never on the order in which EC or the store happened to hand out the entries
C15_CommitteeVerifierCanonical == IsC => (obs.a.aggcanon /\ obs.b.aggcanon)
C15_ParticipantBoundsChain == obs.kind = "Begin" => B_Bounded(obs.n, obs.badpos, obs.ob)

\* conformance with the implementation-shaped reference
Conf_ProposalExact == IsP => LET p == Proposal(NodeCase, obs.inst) IN
                               obs.o.err = p.err /\ (~p.err => (obs.o.chain = p.chain /\ obs.o.supp = p.supp))
Conf_CommitteeExact == IsC => LET ea == Committee(cur, obs.i) eb == Committee(CaseB, obs.i) IN
                               /\ obs.a.err = ea.err /\ (~ea.err => (obs.a.tab = ea.tab /\ obs.a.beacon = ea.beacon))
                               /\ obs.b.err = eb.err /\ (~eb.err => (obs.b.tab = eb.tab /\ obs.b.beacon = eb.beacon))
Conf_BeginExact == obs.kind = "Begin" => LET e == BeginExpect(obs.n, obs.badpos) IN
                               obs.ob.err = e.err /\ (~e.err => obs.ob.len = e.len)

Clauses == {"C15_StartsAtFinalized", "C15_AlongHeadParents", "C15_WellFormed", "C15_WithinLimits", "C15_CollapsesOnDivergence",
            "C15_PowerTableCIDs", "C15_SupplementalCommitsNext", "C15_CommitteeFromFinality", "C15_CommitteeSameAcrossNodes",
            "C15_CommitteeVerifierCanonical", "C15_ParticipantBoundsChain", "Conf_ProposalExact", "Conf_CommitteeExact", "Conf_BeginExact"}
PropClauses == Clauses \ {"Conf_ProposalExact", "Conf_CommitteeExact", "Conf_BeginExact"}
Holds(x) == CASE x = "C15_StartsAtFinalized" -> C15_StartsAtFinalized [] x = "C15_AlongHeadParents" -> C15_AlongHeadParents
              [] x = "C15_WellFormed" -> C15_WellFormed [] x = "C15_WithinLimits" -> C15_WithinLimits
              [] x = "C15_CollapsesOnDivergence" -> C15_CollapsesOnDivergence [] x = "C15_PowerTableCIDs" -> C15_PowerTableCIDs
              [] x = "C15_SupplementalCommitsNext" -> C15_SupplementalCommitsNext
              [] x = "C15_CommitteeFromFinality" -> C15_CommitteeFromFinality
              [] x = "C15_CommitteeSameAcrossNodes" -> C15_CommitteeSameAcrossNodes
              [] x = "C15_CommitteeVerifierCanonical" -> C15_CommitteeVerifierCanonical
              [] x = "C15_ParticipantBoundsChain" -> C15_ParticipantBoundsChain
              [] x = "Conf_ProposalExact" -> Conf_ProposalExact [] x = "Conf_CommitteeExact" -> Conf_CommitteeExact
              [] x = "Conf_BeginExact" -> Conf_BeginExact
TStep == /\ TNext
         /\ LET nb == {x \in Clauses : ~Holds(x)} IN
              /\ bad' = bad \cup {<<l - 1, x>> : x \in nb}
              \* print at most ~40 failing lines, but never let conformance failures hide a property clause
              /\ (nb = {} \/ (Cardinality(bad) > 40 /\ (nb \cap PropClauses = {} \/ Cardinality({b \in bad : b[2] \in PropClauses}) > 40))
                          \/ \A x \in nb : PrintT(<<"VERIF_BAD", l - 1, {x}>>))      \* one short line per clause (TLC wraps long values)
TSpec == TInit /\ [][TStep]_tvars
=============================================================================

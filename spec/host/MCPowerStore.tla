--------------------------- MODULE MCPowerStore ---------------------------
(* Bounded exploration of PowerStore.tla: every interleaving of EC growth (null epochs, changing tables), F3 finalizing
   (any admissible head, base decisions included), loop iterations (with an EC lookup failing at any epoch, deletes
   failing for any subset of keys), and restarts. *)
EXTENDS PowerStore
CONSTANTS MaxEpoch, MaxCerts, MaxNulls, MaxRestarts, Chain0, KeepAll
VARIABLE restarts
mcvars == <<psvars, restarts>>

Chain0Plain == [e \in 0..2 |-> 1]
Chain0Null == [e \in 0..3 |-> IF e = 0 THEN 1 ELSE IF e = 3 THEN 2 ELSE NullT]

MCInit == PSInit(Chain0) /\ restarts = 0

FailChoices == {None} \cup {e \in 1..(ecHead - Finality) : chain[e] # NullT /\ e > lastEpoch}
KeepChoices == IF KeepAll THEN SUBSET (DOMAIN ds) ELSE {{}, DOMAIN ds}

MCNext ==
  \/ \E n \in 0..MaxNulls, t \in Tables : ecHead + n + 1 <= MaxEpoch /\ AdvanceHead(n, t) /\ UNCHANGED restarts
  \/ \E h \in 0..ecHead : NCerts < MaxCerts /\ PutCert(h) /\ UNCHANGED restarts
  \/ \E f \in FailChoices, k \in KeepChoices : Tick(f, k) /\ UNCHANGED restarts
  \/ restarts < MaxRestarts /\ Restart /\ restarts' = restarts + 1

MCSpec == MCInit /\ [][MCNext]_mcvars
Engaged == lastPt # NoPt
=============================================================================

--------------------------- MODULE BroadcastTrace ---------------------------
(* Trace validation for property C12: recorded executions of the real equivocationFilter
   (filter level) and of a production gpbftRunner built by newRunner over a real WAL directory
   (runner level) against Broadcast.tla.  Driver: harness/drivers/broadcast.

   The model state `rn` advances with Broadcast.tla's own operators.  What the code *did* is
   kept apart from the model, in observation variables:
     onet    : (end-to-end level) every message that arrived at the observing libp2p host
     owire   : per history, every message observed leaving the node, in order (runner level:
               what passed the publish point / arrived on the topic; filter level: every
               message for which ProcessBroadcast returned true)
     ologged : every message seen in a snapshot of the WAL directory so far
     obs     : the observation of the last call
   C12_* clauses are evaluated on the observations only (a failure is a VIOLATION); Conf_*
   clauses compare observations with the model (a failure is spec drift, exit 2).          *)
EXTENDS Broadcast, Json, TLCExt
CONSTANT TraceFile
VARIABLES l, obs, owire, ologged, foreign, stack, onet, bad
tvars == <<rn, pc, l, obs, owire, ologged, foreign, stack, onet, bad>>

TraceLog == ndJsonDeserialize(TraceFile)
Ev == TraceLog[l]
IsEvent(e) == l <= Len(TraceLog) /\ TraceLog[l].ev = e /\ l' = l + 1
NoObs == [kind |-> "none"]

M(e) == [inst |-> e.inst, sender |-> e.sender, round |-> e.round, phase |-> e.phase, sig |-> e.sig]
RECURSIVE MapM(_)
MapM(s) == IF s = <<>> THEN <<>> ELSE <<M(Head(s))>> \o MapM(Tail(s))
MSet(s) == {M(s[i]) : i \in DOMAIN s}

\* the accessor's dump of the real filter, converted to the model's representation
SeenOf(lst) == [k \in {<<lst[i].sender, lst[i].round, lst[i].phase>> : i \in DOMAIN lst} |->
                  LET i == CHOOSE j \in DOMAIN lst : <<lst[j].sender, lst[j].round, lst[j].phase>> = k
                  IN [sig |-> lst[i].sig, local |-> lst[i].local]]
ActOf(lst) == [s \in {lst[i].sender : i \in DOMAIN lst} |->
                  LET i == CHOOSE j \in DOMAIN lst : lst[j].sender = s
                  IN [remotes |-> {[id |-> lst[i].remotes[j].id, lt |-> lst[i].remotes[j].lt] : j \in DOMAIN lst[i].remotes},
                      equiv |-> lst[i].equiv]]
DumpOf(e) == [cur |-> e.cur, seen |-> SeenOf(e.seen), act |-> ActOf(e.act)]
Peer(e) == [id |-> e.id, lt |-> e.lt]

TInit == BInit /\ l = 1 /\ obs = NoObs /\ owire = <<>> /\ ologged = {} /\ foreign = FALSE /\ stack = <<>> /\ onet = {} /\ bad = {}

TrReset == /\ IsEvent("Reset") /\ rn' = InitR /\ obs' = NoObs /\ owire' = <<>> /\ ologged' = {}
           /\ foreign' = Ev.foreign /\ stack' = <<>> /\ onet' = {} /\ UNCHANGED pc

\* -------------------------------------------------------------------- filter level
TrFBroadcast ==
  /\ IsEvent("FBroadcast")
  /\ LET p == PB(rn.f, M(Ev.m)) IN
       /\ rn' = [rn EXCEPT !.f = p.f]
       /\ obs' = [kind |-> "F", ok |-> Ev.ok, pred |-> p.ok, dump |-> DumpOf(Ev)]
       /\ owire' = IF Ev.ok THEN Append(owire, M(Ev.m)) ELSE owire
  /\ UNCHANGED <<pc, ologged, foreign, stack, onet>>
TrFReceive ==
  /\ IsEvent("FReceive")
  /\ rn' = [rn EXCEPT !.f = PR(@, Peer(Ev.peer), M(Ev.m))]
  /\ obs' = [kind |-> "FR", dump |-> DumpOf(Ev)]
  /\ UNCHANGED <<pc, owire, ologged, foreign, stack, onet>>
\* depth-first enumeration of the real filter's state graph: remember / return to a state
TrFPush == IsEvent("FPush") /\ stack' = <<[rn |-> rn, owire |-> owire]>> \o stack /\ obs' = NoObs
           /\ UNCHANGED <<rn, pc, owire, ologged, foreign, onet>>
TrFPop == IsEvent("FPop") /\ stack # <<>> /\ rn' = Head(stack).rn /\ owire' = Head(stack).owire /\ stack' = Tail(stack)
          /\ obs' = NoObs /\ UNCHANGED <<pc, ologged, foreign, onet>>

\* -------------------------------------------------------------------- runner level
\* what the call let through the publish point (in order), then anything else seen on the topic
RECURSIVE Published(_)
Published(enc) == IF enc = <<>> THEN <<>>
                  ELSE (IF Head(enc).aborted THEN <<>> ELSE <<M(Head(enc).m)>>) \o Published(Tail(enc))
RECURSIVE Minus(_, _)
Minus(s, S) == IF s = <<>> THEN <<>> ELSE (IF Head(s) \in S THEN <<>> ELSE <<Head(s)>>) \o Minus(Tail(s), S)
Left(e) == LET pub == Published(e.enc) IN pub \o Minus(MapM(e.wire), SeqToSet(pub))
Snapshots(e) == UNION {MSet(e.encWal[i]) : i \in DOMAIN e.encWal} \cup MSet(e.wal)
RunnerObs(kind, e, predPub) ==
  [kind |-> kind, enc |-> e.enc, encWal |-> e.encWal, wire |-> MapM(e.wire), wal |-> MapM(e.wal), loggedBefore |-> ologged,
   dump |-> DumpOf(e), self |-> MSet(e.self), predPub |-> predPub]

TrBroadcast ==
  /\ IsEvent("Broadcast")
  /\ LET m == M(Ev.m)
         s == StepFilter(rn, m)
         nxt == IF ~s.ok THEN s.r
                ELSE IF Ev.abort = "none" THEN StepPublish(StepAppend(s.r, m), m)
                ELSE StepAppend(s.r, m)         \* the call ended between the WAL append and the publish
     IN /\ rn' = nxt
        /\ obs' = RunnerObs("B", Ev, IF s.ok /\ Ev.abort = "none" THEN <<m>> ELSE <<>>)
  /\ owire' = owire \o Left(Ev) /\ ologged' = ologged \cup Snapshots(Ev)
  /\ UNCHANGED <<pc, foreign, stack, onet>>

\* the messages the model expects a rebroadcast to publish (any order)
TrRebroadcast ==
  /\ IsEvent("Rebroadcast")
  /\ LET nxt == RebroadcastFull(rn, Ev.inst, Ev.round, Ev.phase)
     IN /\ rn' = nxt.r
        /\ obs' = RunnerObs("R", Ev, nxt.pub)
  /\ owire' = owire \o Left(Ev) /\ ologged' = ologged \cup Snapshots(Ev)
  /\ UNCHANGED <<pc, foreign, stack, onet>>

\* death inside wal.Append of the call that was cut: its record is incomplete, hence unreadable
TearLast(r) ==
  LET n == Len(r.wal) IN
    IF n = 0 THEN r
    ELSE [r EXCEPT !.wal = IF Len(r.wal[n]) = 1 THEN SubSeq(r.wal, 1, n - 1)
                           ELSE [r.wal EXCEPT ![n] = SubSeq(@, 1, Len(@) - 1)]]
TrRestart ==
  /\ IsEvent("Restart") /\ rn' = Restart(IF Ev.tear THEN TearLast(rn) ELSE rn)
  /\ obs' = [kind |-> "S", wal |-> MapM(Ev.wal), dump |-> DumpOf(Ev), self |-> MSet(Ev.self)]
  /\ ologged' = ologged \cup MSet(Ev.wal)
  /\ UNCHANGED <<pc, owire, foreign, stack, onet>>

TrPurge ==
  /\ IsEvent("Purge") /\ rn' = PurgeWAL(rn, Ev.k)
  /\ obs' = [kind |-> "P", wal |-> MapM(Ev.wal), dump |-> DumpOf(Ev), self |-> MSet(Ev.self)]
  /\ UNCHANGED <<pc, owire, ologged, foreign, stack, onet>>

TrReceive ==
  /\ IsEvent("Receive") /\ rn' = RemoteSeen(rn, Peer(Ev.peer), M(Ev.m))
  /\ obs' = [kind |-> "E", dump |-> DumpOf(Ev)]
  /\ UNCHANGED <<pc, owire, ologged, foreign, stack, onet>>

\* -------------------------------------------------------------------- end-to-end level (public F3 API, two hosts)
\* F3.Broadcast was called with m (the outcome is observed by F3Enc / F3Wire events)
TrF3Request == IsEvent("F3Request") /\ obs' = NoObs /\ UNCHANGED <<rn, pc, owire, ologged, foreign, stack, onet>>
\* a message reached the publish point of the node (encoder call preceding topic.Publish)
TrF3Enc ==
  /\ IsEvent("F3Enc")
  /\ obs' = [kind |-> "F3E", m |-> M(Ev.m), wal |-> MSet(Ev.wal), loggedBefore |-> ologged]
  /\ owire' = IF Ev.aborted THEN owire ELSE Append(owire, M(Ev.m))
  /\ ologged' = ologged \cup MSet(Ev.wal)
  /\ UNCHANGED <<rn, pc, foreign, stack, onet>>
\* a message of the node's topic arrived at the other host; the WAL directory was read at that moment
TrF3Wire ==
  /\ IsEvent("F3Wire")
  /\ obs' = [kind |-> "F3W", m |-> M(Ev.m), wal |-> MSet(Ev.wal), loggedBefore |-> ologged]
  /\ onet' = onet \cup {M(Ev.m)} /\ ologged' = ologged \cup MSet(Ev.wal)
  /\ UNCHANGED <<rn, pc, owire, foreign, stack>>
\* the node came up (f3.New + Start over the same datastore and disk path): WAL as read, filter as dumped
TrF3Start ==
  /\ IsEvent("F3Start")
  /\ obs' = [kind |-> "F3S", dump |-> DumpOf(Ev), rearmed |-> Rearm(EmptyFilter, MapM(Ev.wal))]
  /\ ologged' = ologged \cup MSet(Ev.wal)
  /\ UNCHANGED <<rn, pc, owire, foreign, stack, onet>>
TrF3Stop == IsEvent("F3Stop") /\ obs' = NoObs /\ UNCHANGED <<rn, pc, owire, ologged, foreign, stack, onet>>

TrInfo == IsEvent("Info") /\ obs' = NoObs /\ UNCHANGED <<rn, pc, owire, ologged, foreign, stack, onet>>

TNext == TrInfo \/ TrF3Request \/ TrF3Enc \/ TrF3Wire \/ TrF3Start \/ TrF3Stop \/ TrReset \/ TrFBroadcast \/ TrFReceive \/ TrFPush \/ TrFPop \/ TrBroadcast \/ TrRebroadcast \/ TrRestart
         \/ TrPurge \/ TrReceive

\* ------------------------------------------------------------------ property monitors (C12)
\* (under the property's assumption: histories in which another node signs with our identity are exempt)
C12_OneSignaturePerSlot ==
  foreign \/ \A m1, m2 \in SeqToSet(owire) \cup onet : (m1.inst = m2.inst /\ Key(m1) = Key(m2)) => m1.sig = m2.sig
C12_NoOlderInstance == foreign \/ \A i, j \in DOMAIN owire : i < j => owire[j].inst >= owire[i].inst
\* at the moment a message was encoded for topic.Publish it was in the WAL directory (as a
\* restarted process would read it), or had been there before
C12_LoggedBeforePublished ==
  /\ obs.kind \in {"F3E", "F3W"} => obs.m \in obs.wal \cup obs.loggedBefore
  /\ obs.kind \in {"B", "R"} =>
     /\ \A i \in DOMAIN obs.enc : M(obs.enc[i].m) \in MSet(obs.encWal[i]) \cup obs.loggedBefore
     /\ \A i \in DOMAIN obs.wire : obs.wire[i] \in obs.loggedBefore \cup UNION {MSet(obs.encWal[j]) : j \in DOMAIN obs.encWal}

\* ------------------------------------------------------------------ conformance
Conf_FilterVerdict == obs.kind = "F" => obs.ok = obs.pred
Conf_FilterState == obs.kind \in {"F", "FR", "B", "R", "S", "P", "E"} => obs.dump = rn.f
\* "the record re-arms the filter on restart": the filter of a node that just came up is what feeding the WAL to it gives
Conf_RearmedFromWAL == obs.kind = "F3S" => obs.dump = obs.rearmed
Conf_Published == obs.kind \in {"B", "R"} =>
     LET pub == Published(obs.enc) IN
        IF obs.kind = "B" THEN pub = obs.predPub ELSE SeqToSet(pub) = obs.predPub
Conf_WAL == obs.kind \in {"B", "R", "S", "P"} => (SeqToSet(obs.wal) = WalSet(rn) /\ Len(obs.wal) = Len(WalSeq(rn)))
Conf_Self == obs.kind \in {"B", "R", "S", "P"} => obs.self = rn.self

Clauses == {"C12_OneSignaturePerSlot", "C12_NoOlderInstance", "C12_LoggedBeforePublished",
            "Conf_FilterVerdict", "Conf_FilterState", "Conf_RearmedFromWAL", "Conf_Published", "Conf_WAL", "Conf_Self"}
Holds(c) == CASE c = "C12_OneSignaturePerSlot" -> C12_OneSignaturePerSlot
              [] c = "C12_NoOlderInstance" -> C12_NoOlderInstance
              [] c = "C12_LoggedBeforePublished" -> C12_LoggedBeforePublished
              [] c = "Conf_FilterVerdict" -> Conf_FilterVerdict [] c = "Conf_FilterState" -> Conf_FilterState [] c = "Conf_RearmedFromWAL" -> Conf_RearmedFromWAL
              [] c = "Conf_Published" -> Conf_Published [] c = "Conf_WAL" -> Conf_WAL [] c = "Conf_Self" -> Conf_Self
\* Failing (line, clause) pairs are printed as they occur.  Conformance failures cascade once the model has
\* diverged from the code, so only the first 40 are printed; property clauses are always printed (up to 400).
PropClauses == {"C12_OneSignaturePerSlot", "C12_NoOlderInstance", "C12_LoggedBeforePublished"}
TStep == /\ TNext
         /\ LET nb == {c \in Clauses : ~(Holds(c))'}
                nbp == nb \cap PropClauses IN
              /\ bad' = bad \cup {<<l, c>> : c \in nb}
              /\ \/ nb = {}
                 \/ (nbp = {} /\ Cardinality(bad) > 40)
                 \/ Cardinality(bad) > 400
                 \/ PrintT(<<"VERIF_BAD", l, IF Cardinality(bad) > 40 THEN nbp ELSE nb>>)
TSpec == TInit /\ [][TStep]_tvars
=============================================================================

SPECIFICATION MCSpec
CONSTANTS
  LogBeforePublish = TRUE
  RearmOnStart = TRUE
  Insts = {1, 2, 3}
  Senders = {1}
  Rounds = {r0, r1}
  Phases = {P, C}
  Sigs = {a, b}
  MaxRestarts = 99
  MaxRequests = 3
  MaxOther = 99
  Keep = 1
  Peers <- PeerLarger
  Foreign = TRUE
  HistDepth = 0
VIEW View
SYMMETRY Symm
INVARIANTS OneSigOrHist NoOlderOrHist
CHECK_DEADLOCK FALSE

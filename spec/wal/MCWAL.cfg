SPECIFICATION MCSpec
CONSTANTS
  RotateAt = 10
  NoFile = 0
  MaxAppends = 4
  Epochs = {0, 1, 2}
  Sizes = {1, 8}
  MaxCrashes = 1
INVARIANTS Durable NoPhantom OrderWithinFile PurgeSafe PurgeComplete TornIsLast
CHECK_DEADLOCK FALSE

------------------------------ MODULE MCWAL ------------------------------
(* Exhaustive configuration of WAL.tla: every interleaving of appends (two sizes, epochs 0..2),
   rotate/close, purge, crash between calls, crash inside an append (torn or whole) and reopen. *)
EXTENDS WAL
CONSTANTS MaxAppends, Epochs, Sizes, MaxCrashes
VARIABLES crashes
mcvars == <<wvars, crashes>>

NextId == Cardinality(DOMAIN epoch) + 1
NextFile == Cardinality(Files) + 1
Target == IF NeedRotate THEN NextFile ELSE active
\* hydrate order: creation order (the property is insensitive to the order of files)
RECURSIVE SortedSeq(_)
SortedSeq(S) == IF S = {} THEN <<>> ELSE LET m == CHOOSE x \in S : \A y \in S : x <= y IN <<m>> \o SortedSeq(S \ {m})

MCInit == WInit /\ crashes = 0
MCNext ==
  \/ /\ Open(SortedSeq(Files \ removed)) /\ UNCHANGED crashes
  \/ /\ NextId <= MaxAppends /\ \E ep \in Epochs, sz \in Sizes : AppendOK(NextId, ep, sz, Target) /\ UNCHANGED crashes
  \/ /\ Flush /\ UNCHANGED crashes
  \/ /\ \E k \in Epochs \cup {3} : Purge(k) /\ UNCHANGED crashes
  \/ /\ crashes < MaxCrashes /\ Crash /\ crashes' = crashes + 1
  \/ /\ crashes < MaxCrashes /\ NextId <= MaxAppends
     /\ \E ep \in Epochs, sz \in Sizes, whole \in BOOLEAN : CrashInAppend(NextId, ep, sz, Target, whole)
     /\ crashes' = crashes + 1
MCSpec == MCInit /\ [][MCNext]_mcvars
=============================================================================

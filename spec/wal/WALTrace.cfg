SPECIFICATION TSpec
CONSTANTS
  RotateAt = 1048576
  NoFile = ""
  TraceFile = "trace.ndjson"
CHECK_DEADLOCK FALSE

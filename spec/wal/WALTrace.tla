----------------------------- MODULE WALTrace -----------------------------
(* Trace validation of the real internal/writeaheadlog against WAL.tla.
   One NDJSON line per public call of the real object (driver: harness/drivers/wal).
   The model state advances with WAL.tla's own actions; what the code *returned*
   (ids from All(), files left after Purge) is bound to `obs` and compared with the
   model by the invariants below:  C11_*  are the clauses of property C11 (a failure is
   a VIOLATION), Conf_* say "the code still behaves like the implementation-shaped
   spec" (a failure is spec drift, exit 2).                                            *)
EXTENDS WAL, Json, TLCExt
CONSTANT TraceFile
VARIABLES l, obs, saved, bad
tvars == <<wvars, l, obs, saved, bad>>

TraceLog == ndJsonDeserialize(TraceFile)
NoObs == [kind |-> "none"]
Ev == TraceLog[l]
IsEvent(e) == l <= Len(TraceLog) /\ TraceLog[l].ev = e /\ l' = l + 1

TInit == WInit /\ l = 1 /\ obs = NoObs /\ saved = <<>> /\ bad = {}

TrReset == IsEvent("Reset") /\ obs' = NoObs /\ saved' = <<>>
           /\ disk' = <<>> /\ up' = FALSE /\ logFiles' = <<>> /\ active' = NoFile /\ activeMax' = 0
           /\ epoch' = <<>> /\ size' = <<>> /\ acked' = {} /\ inflight' = 0 /\ removed' = {} /\ lastPurge' = NoPurge

TrOpen == IsEvent("Open") /\ Open(Ev.files) /\ obs' = NoObs /\ UNCHANGED saved

\* total: the model follows the file the bytes really landed in; whether that file is the one the rotation rule prescribes is a
\* conformance clause, and what a wrong target does to durability is judged by the C11 clauses on the next All()
TrAppend == IsEvent("Append") /\ Ev.ok /\ AppendAny(Ev.id, Ev.epoch, Ev.size, Ev.file)
            /\ obs' = [kind |-> "Append", targetOK |-> AppendTargetOK(Ev.file)] /\ UNCHANGED saved

\* an append the code refused (value not encodable); Ev.file = the active file afterwards
TrAppendRejected == IsEvent("Append") /\ ~Ev.ok /\ Ev.rejected /\ AppendRejected(IF Ev.file = "" THEN active ELSE Ev.file) /\ obs' = NoObs /\ UNCHANGED saved

TrFlush == (IsEvent("Rotate") \/ IsEvent("Close")) /\ Flush /\ obs' = NoObs /\ UNCHANGED saved

TrCrash == IsEvent("Crash") /\ Crash /\ obs' = NoObs /\ UNCHANGED saved

\* Purge: the model follows what the code removed (dir listing before/after); the clauses of
\* the property are evaluated on that observation through lastPurge (same formulas as the design).
TrPurge ==
  /\ IsEvent("Purge") /\ up
  /\ LET left == SeqToSet(Ev.left)
         gone == (Files \ removed) \ left
         pred == {logFiles[i].f : i \in {j \in DOMAIN logFiles : logFiles[j].maxEpoch < Ev.k}}
     IN /\ removed' = removed \cup gone
        /\ logFiles' = SelectSeq(logFiles, LAMBDA s : s.f \notin gone)
        /\ lastPurge' = [k |-> Ev.k, gone |-> gone, closed |-> {logFiles[i].f : i \in DOMAIN logFiles}]
        /\ obs' = [kind |-> "Purge", gone |-> gone, pred |-> pred, activeGone |-> (active # NoFile /\ active \in gone)]
  /\ UNCHANGED <<disk, up, active, activeMax, epoch, size, acked, inflight, saved>>

TrAll == IsEvent("All") /\ up
         /\ obs' = [kind |-> "All", ids |-> Ev.ids, intact |-> Ev.intact, ok |-> Ev.ok]
         /\ UNCHANGED <<wvars, saved>>

\* fork: remember the state, declare the last append cut at byte `cut` of `of`
TrTearFork ==
  /\ IsEvent("TearFork")
  /\ saved' = <<[disk |-> disk, up |-> up, logFiles |-> logFiles, active |-> active, activeMax |-> activeMax,
                 epoch |-> epoch, size |-> size, acked |-> acked, inflight |-> inflight, removed |-> removed]>>
  /\ TearLast(Ev.id, Ev.cut = Ev.of)
  /\ obs' = NoObs
TrForkEnd ==
  /\ IsEvent("ForkEnd") /\ saved # <<>>
  /\ disk' = saved[1].disk /\ up' = saved[1].up /\ logFiles' = saved[1].logFiles /\ active' = saved[1].active
  /\ activeMax' = saved[1].activeMax /\ epoch' = saved[1].epoch /\ size' = saved[1].size /\ acked' = saved[1].acked
  /\ inflight' = saved[1].inflight /\ removed' = saved[1].removed /\ lastPurge' = NoPurge
  /\ saved' = <<>> /\ obs' = NoObs

TNext == TrReset \/ TrOpen \/ TrAppend \/ TrAppendRejected \/ TrFlush \/ TrCrash \/ TrPurge \/ TrAll \/ TrTearFork \/ TrForkEnd

\* ------------------------------------------------------------------ property monitors (C11)
ObsSet == SeqToSet(obs.ids)
C11_Durable == obs.kind = "All" =>
                 /\ obs.ok
                 /\ \A id \in acked : FileOf(id) \notin removed => id \in ObsSet
                 /\ Len(obs.ids) = Cardinality(ObsSet)
C11_Intact == obs.kind = "All" => obs.intact
C11_NoPhantom == obs.kind = "All" => ObsSet \subseteq (acked \cup {inflight})
C11_OrderWithinFile == obs.kind = "All" =>
   \A i, j \in DOMAIN obs.ids :
      (i < j /\ obs.ids[i] \in DOMAIN epoch /\ obs.ids[j] \in DOMAIN epoch /\ FileOf(obs.ids[i]) = FileOf(obs.ids[j]))
         => obs.ids[i] < obs.ids[j]
C11_PurgeSafe == PurgeSafe
C11_PurgeComplete == PurgeComplete
C11_PurgeKeepsActive == obs.kind = "Purge" => ~obs.activeGone  \* entries of the active file are >= nothing known: never removed
\* ------------------------------------------------------------------ conformance
Conf_AllExact == (obs.kind = "All" /\ inflight = 0) => obs.ids = All
Conf_Purge == obs.kind = "Purge" => obs.gone = obs.pred
Conf_AppendTarget == obs.kind = "Append" => obs.targetOK

\* ------------------------------------------------------------------ verdict plumbing
\* Clauses are evaluated by TLC in the successor state of every consumed event; failures are
\* accumulated in `bad` (and printed at once) instead of stopping TLC, so that one run reports
\* every failing (line, clause) of a long trace without printing 10^5-state counterexamples.
Clauses == {"C11_Durable", "C11_Intact", "C11_NoPhantom", "C11_OrderWithinFile", "C11_PurgeSafe",
            "C11_PurgeComplete", "C11_PurgeKeepsActive", "Conf_AllExact", "Conf_Purge", "Conf_AppendTarget"}
Holds(c) == CASE c = "C11_Durable" -> C11_Durable [] c = "C11_Intact" -> C11_Intact
              [] c = "C11_NoPhantom" -> C11_NoPhantom [] c = "C11_OrderWithinFile" -> C11_OrderWithinFile
              [] c = "C11_PurgeSafe" -> C11_PurgeSafe [] c = "C11_PurgeComplete" -> C11_PurgeComplete
              [] c = "C11_PurgeKeepsActive" -> C11_PurgeKeepsActive
              [] c = "Conf_AllExact" -> Conf_AllExact [] c = "Conf_Purge" -> Conf_Purge [] c = "Conf_AppendTarget" -> Conf_AppendTarget
TStep == /\ TNext
         /\ LET nb == {c \in Clauses : ~(Holds(c))'} IN
              /\ bad' = bad \cup {<<l, c>> : c \in nb}
              /\ (nb = {} \/ Cardinality(bad) > 2000 \/ PrintT(<<"VERIF_BAD", l, nb>>))
TSpec == TInit /\ [][TStep]_tvars
=============================================================================

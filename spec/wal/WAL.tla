------------------------------- MODULE WAL -------------------------------
(* internal/writeaheadlog/wal.go as a state machine, one action per public call
   (Open, Append, Rotate/Close, Purge, All is a state function) plus the environment's
   crash actions.  Written to be bound: every action takes as parameters exactly
   what the Go driver logs (entry id/epoch/size, the file the bytes landed in).

   disk   : file -> [ents : Seq(entry id), torn : 0 or the entry id whose bytes are cut]
            (files are abstract values: small integers in MC, file names in traces)
   mem    : the in-memory object: logFiles (sequence of [f, maxEpoch]), active file, its
            running maxEpoch; "down" when no process holds the log
   epoch, size : entry id -> metadata of every entry ever handed to Append
   acked  : ids whose Append returned nil
   inflight : id of an entry whose Append was cut by a crash (0 if none) - it may or
              may not be readable afterwards, everything else is fixed
   removed : files deleted by Purge                                                   *)
EXTENDS Integers, Sequences, FiniteSets, TLC

CONSTANTS RotateAt,      \* bytes after which maybeRotate opens a new file (code: 1 MiB)
          NoFile         \* a value that is not a file

VARIABLES disk, up, logFiles, active, activeMax, epoch, size, acked, inflight, removed, lastPurge

NoPurge == [k |-> 0, gone |-> {}, closed |-> {}]
wvars == <<disk, up, logFiles, active, activeMax, epoch, size, acked, inflight, removed, lastPurge>>

Max(a, b) == IF a >= b THEN a ELSE b
RECURSIVE SumSize(_, _), MaxEpochOf(_, _), SeqToSet(_)
SeqToSet(s) == {s[i] : i \in DOMAIN s}
SumSize(s, sz) == IF s = <<>> THEN 0 ELSE sz[Head(s)] + SumSize(Tail(s), sz)
MaxEpochOf(s, ep) == IF s = <<>> THEN 0 ELSE Max(ep[Head(s)], MaxEpochOf(Tail(s), ep))
Files == DOMAIN disk

WInit ==
  /\ disk = <<>> /\ up = FALSE /\ logFiles = <<>> /\ active = NoFile /\ activeMax = 0
  /\ epoch = <<>> /\ size = <<>> /\ acked = {} /\ inflight = 0 /\ removed = {} /\ lastPurge = NoPurge

\* ---- Open: hydrate. Every file on disk becomes a closed file; its maxEpoch is that of the
\*      records readable before the first undecodable one.  `order` is the (name-sorted) order.
Readable(f) == disk[f].ents           \* torn bytes are never part of ents
Open(order) ==
  /\ ~up
  /\ SeqToSet(order) = Files \ removed /\ Len(order) = Cardinality(Files \ removed)
  /\ up' = TRUE /\ active' = NoFile /\ activeMax' = 0
  /\ logFiles' = [i \in 1..Len(order) |-> [f |-> order[i], maxEpoch |-> MaxEpochOf(Readable(order[i]), epoch)]]
  /\ UNCHANGED <<disk, epoch, size, acked, inflight, removed>> /\ lastPurge' = NoPurge

\* ---- flush(): close the active file and remember its stats
FlushLogFiles == IF active = NoFile THEN logFiles ELSE Append(logFiles, [f |-> active, maxEpoch |-> activeMax])

NeedRotate == active = NoFile \/ SumSize(disk[active].ents, size) > RotateAt

\* ---- Append(value): maybeRotate; marshal; write; fsync; update maxEpoch; return nil.
\*      `f` is the file the bytes land in: a fresh file iff NeedRotate.
AppendOK(id, ep, sz, f) ==
  /\ up /\ id \notin DOMAIN epoch
  /\ IF NeedRotate THEN f \notin Files ELSE f = active
  /\ disk' = IF f \in Files THEN [disk EXCEPT ![f].ents = Append(@, id)]
             ELSE disk @@ (f :> [ents |-> <<id>>, torn |-> 0])
  /\ logFiles' = IF NeedRotate THEN FlushLogFiles ELSE logFiles
  /\ active' = f
  /\ activeMax' = IF NeedRotate THEN ep ELSE Max(activeMax, ep)
  /\ epoch' = epoch @@ (id :> ep) /\ size' = size @@ (id :> sz)
  /\ acked' = acked \cup {id}
  /\ UNCHANGED <<up, inflight, removed>> /\ lastPurge' = NoPurge

\* ---- total form of Append for trace binding: the bytes landed in file f, whatever the rule above says.  f = an existing closed file is the
\*      named deviation "append to an old file after restart": the file becomes the active one again.  The model keeps the record in ents
\*      (it was acknowledged, so the property demands it back); if the file ends in a torn record the real reader stops before it, and the
\*      durability clause fails on the observed All() -- which is exactly why the rule forbids appending to an old file.
AppendTargetOK(f) == IF NeedRotate THEN f \notin Files ELSE f = active
AppendAny(id, ep, sz, f) ==
  /\ up /\ id \notin DOMAIN epoch
  /\ disk' = IF f \notin Files THEN disk @@ (f :> [ents |-> <<id>>, torn |-> 0])
             ELSE [disk EXCEPT ![f].ents = Append(@, id)]
  /\ logFiles' = IF f = active THEN logFiles
                 ELSE SelectSeq(FlushLogFiles, LAMBDA s : s.f # f)
  /\ active' = f
  /\ activeMax' = IF f = active THEN Max(activeMax, ep) ELSE ep
  /\ epoch' = epoch @@ (id :> ep) /\ size' = size @@ (id :> sz)
  /\ acked' = acked \cup {id}
  /\ UNCHANGED <<up, inflight, removed>> /\ lastPurge' = NoPurge

\* ---- Append(value) refused because the value does not encode: maybeRotate has already run (a fresh, empty active file f if a
\*      rotation was due), nothing is written or acknowledged.  Whatever the encoder emitted before failing must not reach the log:
\*      the durability clause is judged on the All() that follows the *next* acknowledged append.
AppendRejected(f) ==
  /\ up
  /\ IF NeedRotate
     THEN /\ f \notin Files
          /\ disk' = disk @@ (f :> [ents |-> <<>>, torn |-> 0])
          /\ logFiles' = FlushLogFiles /\ active' = f /\ activeMax' = 0
     ELSE f = active /\ UNCHANGED <<disk, logFiles, active, activeMax>>
  /\ UNCHANGED <<up, epoch, size, acked, inflight, removed>> /\ lastPurge' = NoPurge

\* ---- Rotate() and Close() both call flush()
Flush ==
  /\ up
  /\ logFiles' = FlushLogFiles /\ active' = NoFile /\ activeMax' = 0
  /\ UNCHANGED <<disk, up, epoch, size, acked, inflight, removed>> /\ lastPurge' = NoPurge

\* ---- Purge(k): delete closed files whose maxEpoch < k; never the active file
Purge(k) ==
  /\ up
  /\ LET dead == {i \in DOMAIN logFiles : logFiles[i].maxEpoch < k}
         deadF == {logFiles[i].f : i \in dead}
     IN /\ removed' = removed \cup deadF
        /\ logFiles' = SelectSeq(logFiles, LAMBDA s : ~(s.maxEpoch < k))
        /\ lastPurge' = [k |-> k, gone |-> deadF, closed |-> {logFiles[i].f : i \in DOMAIN logFiles}]
  /\ UNCHANGED <<disk, up, active, activeMax, epoch, size, acked, inflight>>

\* ---- the process stops between calls: acknowledged bytes are on disk (fsync), memory is gone
Crash ==
  /\ up /\ up' = FALSE /\ logFiles' = <<>> /\ active' = NoFile /\ activeMax' = 0
  /\ UNCHANGED <<disk, epoch, size, acked, inflight, removed>> /\ lastPurge' = NoPurge

\* ---- the process stops inside Append(id): `whole` says whether all bytes of the record
\*      reached the disk; the entry is not acknowledged either way.
CrashInAppend(id, ep, sz, f, whole) ==
  /\ up /\ id \notin DOMAIN epoch /\ inflight = 0
  /\ IF NeedRotate THEN f \notin Files ELSE f = active
  /\ disk' = IF f \in Files
             THEN [disk EXCEPT ![f] = IF whole THEN [@ EXCEPT !.ents = Append(@, id)] ELSE [@ EXCEPT !.torn = id]]
             ELSE disk @@ (f :> IF whole THEN [ents |-> <<id>>, torn |-> 0] ELSE [ents |-> <<>>, torn |-> id])
  /\ epoch' = epoch @@ (id :> ep) /\ size' = size @@ (id :> sz)
  /\ inflight' = id
  /\ up' = FALSE /\ logFiles' = <<>> /\ active' = NoFile /\ activeMax' = 0
  /\ UNCHANGED <<acked, removed>> /\ lastPurge' = NoPurge

\* ---- trace-binding form of CrashInAppend: the *last* call was AppendOK(id, ..) and is now
\*      declared to have been cut by a crash after `whole`/part of its bytes reached the disk
\*      (the driver truncates the newest file of a copy of the directory).
TearLast(id, whole) ==
  /\ up /\ active # NoFile /\ disk[active].ents # <<>> /\ disk[active].ents[Len(disk[active].ents)] = id
  /\ inflight = 0
  /\ disk' = IF whole THEN disk
             ELSE [disk EXCEPT ![active] = [ents |-> SubSeq(@.ents, 1, Len(@.ents) - 1), torn |-> id]]
  /\ acked' = acked \ {id} /\ inflight' = id
  /\ up' = FALSE /\ logFiles' = <<>> /\ active' = NoFile /\ activeMax' = 0
  /\ UNCHANGED <<epoch, size, removed>> /\ lastPurge' = NoPurge

\* ---- All(): closed files in logFiles order, then the active file
RECURSIVE Flat(_, _)
Flat(lf, d) == IF lf = <<>> THEN <<>> ELSE d[Head(lf).f].ents \o Flat(Tail(lf), d)
All == Flat(logFiles, disk) \o (IF active = NoFile THEN <<>> ELSE disk[active].ents)
AllSet == SeqToSet(All)
FileOf(id) == CHOOSE f \in Files : id \in SeqToSet(disk[f].ents) \/ disk[f].torn = id

\* ================= the property (C11), as invariants of the design =================
\* every acknowledged entry whose file was not purged is returned, exactly once
Durable == up => /\ \A id \in acked : FileOf(id) \notin removed => id \in AllSet
                 /\ Len(All) = Cardinality(AllSet)
\* nothing is returned that was not appended (an entry cut by a crash may appear, whole)
NoPhantom == up => AllSet \subseteq (acked \cup {inflight})
\* within each file the order of return is the order of appending (ids grow with time)
OrderWithinFile == up => \A i, j \in DOMAIN All : (i < j /\ FileOf(All[i]) = FileOf(All[j])) => All[i] < All[j]
\* purge below k removes no entry at or above k ...
PurgeSafe == \A f \in lastPurge.gone : \A id \in SeqToSet(disk[f].ents) : epoch[id] < lastPurge.k
\* ... and removes every closed, non-empty file whose entries are all below k
PurgeComplete == \A f \in lastPurge.closed :
                    (disk[f].ents # <<>> /\ \A id \in SeqToSet(disk[f].ents) : epoch[id] < lastPurge.k) => f \in lastPurge.gone
\* restart never appends to an old file: a torn record is always the last thing in its file
TornIsLast == \A f \in Files : disk[f].torn # 0 => (up => active # f)
=============================================================================

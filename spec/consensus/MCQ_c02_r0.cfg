SPECIFICATION Spec
CONSTANTS
  H = {1, 2, 3}
  B = {4}
  Power <- Power4
  Chains <- Chains4
  Input <- InputNested
  MaxRound = 0
  Rank <- RankId
INVARIANT Agreement
INVARIANT Validity
INVARIANT OneVotePerSlot
INVARIANT VotesFromInputs
INVARIANT CommitBacked
INVARIANT DecideBacked
CHECK_DEADLOCK FALSE

SPECIFICATION MSpec
CONSTANTS
  H = {1, 2, 3}
  B = {4}
  Power <- Power4
  Chains <- ChainsNest
  MaxRound = 2
  Rank <- RankMix
  Lookahead = 0
  Order <- Order4
  Input <- InputNest
  Depth = 70
  Noop = FALSE
INVARIANT MAgreement
INVARIANT MValidity
INVARIANT MOneVotePerSlot
INVARIANT MEmitsValid
INVARIANT MEvidenceBacked
INVARIANT Export
PROPERTY MProgressMonotone
CHECK_DEADLOCK FALSE

SPECIFICATION Spec
CONSTANTS
  H = {1, 2, 3}
  B = {4}
  Power <- Power4
  Chains <- Chains3x
  Input <- InputFork
  MaxRound = 0
  Rank <- RankId
INVARIANT Agreement
INVARIANT Validity
INVARIANT VotesFromInputs
CHECK_DEADLOCK FALSE

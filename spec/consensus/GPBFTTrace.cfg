SPECIFICATION TSpec
CONSTANTS
  TraceFile = "trace.ndjson"
  H <- HC
  B <- BC
  Power <- PowerC
  Chains = {}
  MaxRound = 1000
  Rank <- RankC
  Lookahead <- LookaheadC
  Order <- OrderC
INVARIANT Consumed
CHECK_DEADLOCK FALSE

SPECIFICATION Spec
CONSTANTS
  H = {1, 2}
  B = {3}
  Power <- Power3
  Chains <- Chains3
  Input <- InputTwo
  MaxRound = 0
  Rank <- RankId
INVARIANT Agreement
CHECK_DEADLOCK FALSE

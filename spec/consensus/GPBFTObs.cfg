SPECIFICATION Spec
CONSTANTS
  TraceFile = "trace.ndjson"
  Pid = "ALL"
CHECK_DEADLOCK FALSE

---------------------------- MODULE GPBFTQuorum ----------------------------
(* Quorum-view abstraction of GossiPBFT (gpbft/gpbft.go), the exhaustible design-level model behind C01/C02.
   Participants keep only control state (phase, round, proposal, value, candidates, decision); the network is the
   set of honest votes.  Every guard of the code ("strong quorum for v among what I received", "cannot reach",
   "received from a strong quorum and timed out", "holds a justification of ...") becomes "there EXISTS a view --
   at most one vote per sender and slot, honest senders with the vote they really cast, Byzantine senders with any
   value the validator would admit now -- for which the guard holds".  Every real received-set is such a view, so
   every behaviour of the per-message model GPBFT.tla maps to a behaviour of this module (stuttering on steps that
   only grow the received set): the abstraction over-approximates, which is the sound direction for safety.
   The adversary has no state and no script: ByzMay is what a Byzantine sender can validly sign given the votes
   honest participants have cast so far (a justification is forgeable iff its honest signers really cast that vote
   and the signers hold a strong quorum); it may be shown to any participant at any time or never.
   Strong, JOK and ConvOk are overridden by the mutant configurations (non-vacuity, attack schedules).            *)
EXTENDS Integers, Sequences, FiniteSets, TLC
CONSTANTS H, B, Power, Chains, Input, MaxRound, Rank
P == H \cup B
Bot == << >>
Values == Chains \cup {Bot}
Base(c) == <<c[1]>>
RECURSIVE SumP(_)
SumP(S) == IF S = {} THEN 0 ELSE LET x == CHOOSE x \in S : TRUE IN Power[x] + SumP(S \ {x})
Total == SumP(P)
DivCeil(a, b) == (a + b - 1) \div b
Strong(pw) == pw >= DivCeil(2 * Total, 3)
IsPrefix(a, b) == Len(a) <= Len(b) /\ SubSeq(b, 1, Len(a)) = a

VARIABLES st, votes
vars == <<st, votes>>

Vote(s, r, ph, v) == [s |-> s, r |-> r, ph |-> ph, v |-> v]
HV(r, ph, v) == {x.s : x \in {y \in votes : y.r = r /\ y.ph = ph /\ y.v = v}}
JOK(ph, r, v) == Strong(SumP(HV(r, ph, v) \cup B))

\* what a byzantine sender may validly claim in slot (r, ph)
ByzMay(r, ph, v) ==
  CASE ph = "QUALITY" -> v # Bot /\ r = 0
    [] ph = "PREPARE" -> r = 0 \/ JOK("COMMIT", r - 1, Bot) \/ (v # Bot /\ JOK("PREPARE", r - 1, v))
    [] ph = "CONVERGE" -> r > 0 /\ v # Bot /\ (JOK("COMMIT", r - 1, Bot) \/ JOK("PREPARE", r - 1, v))
    [] ph = "COMMIT" -> v = Bot \/ JOK("PREPARE", r, v)
    [] ph = "DECIDE" -> v # Bot /\ \E rr \in 0..MaxRound : JOK("COMMIT", rr, v)
    [] OTHER -> FALSE

\* Views: functions from a set of senders D to values
HonestVal(h, r, ph) == {x.v : x \in {y \in votes : y.s = h /\ y.r = r /\ y.ph = ph}}
Views(r, ph) ==
  LET HVoted == {h \in H : HonestVal(h, r, ph) # {}}
      ba == {v \in Values : ByzMay(r, ph, v)}
  IN UNION {UNION {{[s \in HD \cup BD |-> IF s \in HD THEN CHOOSE v \in HonestVal(s, r, ph) : TRUE ELSE bf[s]] : bf \in [BD -> ba]}
                   : BD \in SUBSET B} : HD \in SUBSET HVoted}
Sup(f, v) == SumP({s \in DOMAIN f : f[s] = v})
QSup(f, c) == SumP({s \in DOMAIN f : IsPrefix(c, f[s])})
SendP(f) == SumP(DOMAIN f)
CouldReach(f, v, adv) ==
  LET pos == Sup(f, v) + (Total - SendP(f)) + (IF adv THEN Total \div 3 ELSE 0)
  IN Strong(IF pos > Total THEN Total ELSE pos)
LongestQ(f, inp) ==
  LET g == {n \in 2..Len(inp) : Strong(QSup(f, SubSeq(inp, 1, n)))}
  IN IF g = {} THEN Base(inp) ELSE SubSeq(inp, 1, CHOOSE n \in g : \A k \in g : k <= n)
ConvOk(fc, v) == CouldReach(fc, v, TRUE)   \* the CONVERGE filter: v may already have been decided in the previous round
\* a non-candidate CONVERGE value is admitted only with the proof of a PREPARE quorum in the previous round, and only if it may have been decided there
ConvAdmit(r, fc, v) == JOK("PREPARE", r - 1, v) /\ ConvOk(fc, v)
PrefixesOf(c) == {SubSeq(c, 1, n) : n \in 1..Len(c)}

Init ==
  /\ st = [p \in H |-> [phase |-> "INITIAL", round |-> 0, prop |-> Input[p], val |-> Bot,
                        cands |-> {Base(Input[p])}, dec |-> Bot]]
  /\ votes = {}

Set(p, s, newvotes) == st' = [st EXCEPT ![p] = s] /\ votes' = votes \cup newvotes

Start(p) == /\ st[p].phase = "INITIAL"
            /\ Set(p, [st[p] EXCEPT !.phase = "QUALITY"], {Vote(p, 0, "QUALITY", Input[p])})

QualityExit(p) ==
  /\ st[p].phase = "QUALITY"
  /\ \E np \in {LongestQ(f, Input[p]) : f \in Views(0, "QUALITY")} :
       Set(p, [st[p] EXCEPT !.phase = "PREPARE", !.prop = np, !.val = np, !.cands = @ \cup PrefixesOf(np)],
           {Vote(p, 0, "PREPARE", np)})

LateQuality(p) ==
  /\ st[p].phase \in {"CONVERGE", "PREPARE", "COMMIT"}
  /\ \E np \in {LongestQ(f, Input[p]) : f \in Views(0, "QUALITY")} :
       /\ ~(PrefixesOf(np) \subseteq st[p].cands)
       /\ Set(p, [st[p] EXCEPT !.cands = @ \cup PrefixesOf(np)], {})

PrepareExit(p) ==
  /\ st[p].phase = "PREPARE"
  /\ LET r == st[p].round
         pv == st[p].prop IN
     \/ /\ (\E f \in Views(r, "PREPARE") : Strong(Sup(f, pv))) \/ JOK("PREPARE", r, pv)
        /\ Set(p, [st[p] EXCEPT !.phase = "COMMIT", !.val = pv], {Vote(p, r, "COMMIT", pv)})
     \/ /\ \E f \in Views(r, "PREPARE") : ~Strong(Sup(f, pv)) /\ (~CouldReach(f, pv, FALSE) \/ Strong(SendP(f)))
        /\ Set(p, [st[p] EXCEPT !.phase = "COMMIT", !.val = Bot], {Vote(p, r, "COMMIT", Bot)})

\* tryCommit(round of the message) runs on every relevant COMMIT in any phase before DECIDE -- QUALITY included -- and for the current round, the
\* previous one, or any later one (found by the refinement check GPBFTRefine.tla: the first version of this action excluded QUALITY and future rounds)
Decide(p) ==
  /\ st[p].phase \in {"QUALITY", "CONVERGE", "PREPARE", "COMMIT"}
  /\ \E v \in {x \in Chains : \E rr \in 0..MaxRound :
                  /\ (rr >= st[p].round \/ rr + 1 = st[p].round)
                  /\ \E f \in Views(rr, "COMMIT") : Strong(Sup(f, x))} :
       Set(p, [st[p] EXCEPT !.phase = "DECIDE", !.val = v], {Vote(p, 0, "DECIDE", v)})

SkipDecide(p) ==
  /\ st[p].phase \in {"QUALITY", "CONVERGE", "PREPARE", "COMMIT"}
  /\ \E v \in {x \in Chains : /\ Base(x) = Base(Input[p])
                                /\ ((\E y \in votes : y.ph = "DECIDE" /\ y.v = x) \/ (B # {} /\ ByzMay(0, "DECIDE", x)))} :
       Set(p, [st[p] EXCEPT !.phase = "DECIDE", !.val = v, !.prop = v], {Vote(p, 0, "DECIDE", v)})

NextRound(p) ==
  /\ st[p].phase = "COMMIT"
  /\ st[p].round < MaxRound
  /\ LET r == st[p].round IN
     \/ /\ (\E f \in Views(r, "COMMIT") : Strong(Sup(f, Bot))) \/ JOK("COMMIT", r, Bot)
        /\ Set(p, [st[p] EXCEPT !.phase = "CONVERGE", !.round = r + 1], {Vote(p, r + 1, "CONVERGE", st[p].prop)})
     \/ \E v \in UNION {({f[s] : s \in DOMAIN f} \ {Bot}) : f \in {g \in Views(r, "COMMIT") :
                              Strong(SendP(g)) /\ \A x \in Values : ~Strong(Sup(g, x))}} :
               /\ Base(v) = Base(Input[p])
               /\ Set(p, [st[p] EXCEPT !.phase = "CONVERGE", !.round = r + 1, !.prop = v, !.cands = @ \cup {v}],
                      {Vote(p, r + 1, "CONVERGE", v)})

ConvWinners(p) ==
  LET r == st[p].round IN
  UNION {UNION {
       LET vals == {f[s] : s \in DOMAIN f \ {p}} \cup {st[p].prop}
           bestRank(v) == LET rs == {Rank[s][r] : s \in {x \in DOMAIN f \ {p} : f[x] = v}} IN
                          IF rs = {} THEN 1000 ELSE CHOOSE x \in rs : \A y \in rs : x <= y
           ok(v) == v \in st[p].cands \/ ConvAdmit(r, fc, v) \/ v = st[p].prop
           adm == {v \in vals : ok(v) /\ Base(v) = Base(Input[p])}
           w == CHOOSE v \in adm : \A u \in adm : bestRank(v) <= bestRank(u)
       IN {u \in adm : bestRank(u) = bestRank(w)}
     : fc \in Views(r - 1, "COMMIT")} : f \in Views(r, "CONVERGE")}

ConvergeExit(p) ==
  /\ st[p].phase = "CONVERGE"
  /\ \E v \in ConvWinners(p) :
          Set(p, [st[p] EXCEPT !.phase = "PREPARE", !.prop = v, !.val = v, !.cands = @ \cup {v}],
              {Vote(p, st[p].round, "PREPARE", v)})

SkipRound(p) ==
  /\ st[p].phase \in {"QUALITY", "CONVERGE", "PREPARE", "COMMIT"}
  /\ \E r \in (st[p].round + 1)..MaxRound :
       LET cv == {x \in Chains : Base(x) = Base(Input[p]) /\ \E f \in Views(r, "CONVERGE") : \E s \in DOMAIN f : f[s] = x} IN
       \/ \E v \in {x \in cv : JOK("PREPARE", r - 1, x)} :
             Set(p, [st[p] EXCEPT !.phase = "CONVERGE", !.round = r, !.prop = v, !.cands = @ \cup {v}],
                    {Vote(p, r, "CONVERGE", v)})
       \/ /\ cv # {} /\ JOK("COMMIT", r - 1, Bot)
          /\ Set(p, [st[p] EXCEPT !.phase = "CONVERGE", !.round = r], {Vote(p, r, "CONVERGE", st[p].prop)})

Terminate(p) ==
  /\ st[p].phase = "DECIDE"
  /\ \E v \in {x \in Chains : \E f \in Views(0, "DECIDE") : Strong(Sup(f, x))} :
       Set(p, [st[p] EXCEPT !.phase = "TERMINATED", !.dec = v], {})

Next == \E p \in H : Start(p) \/ QualityExit(p) \/ LateQuality(p) \/ PrepareExit(p) \/ Decide(p) \/ SkipDecide(p)
                     \/ NextRound(p) \/ ConvergeExit(p) \/ SkipRound(p) \/ Terminate(p)
Spec == Init /\ [][Next]_vars

Agreement == \A p, q \in H : st[p].dec # Bot /\ st[q].dec # Bot => st[p].dec = st[q].dec
\* C02: non-empty, starts at the base the participant entered the instance with, prefix of some honest input
Validity == \A p \in H : st[p].dec # Bot =>
              /\ Len(st[p].dec) >= 1 /\ Base(st[p].dec) = Base(Input[p])
              /\ \E q \in H : IsPrefix(st[p].dec, Input[q])
\* every honest vote is for a prefix of an honest input or bottom (no foreign value is ever voted for)
VotesFromInputs == \A x \in votes : x.v = Bot \/ \E q \in H : IsPrefix(x.v, Input[q])
\* a COMMIT for a value is only ever cast when a strong PREPARE quorum for it is formable
CommitBacked == \A x \in votes : (x.ph = "COMMIT" /\ x.v # Bot) => JOK("PREPARE", x.r, x.v)
DecideBacked == \A x \in votes : x.ph = "DECIDE" => \E rr \in 0..MaxRound : JOK("COMMIT", rr, x.v)
OneVotePerSlot == \A x, y \in votes : x.s = y.s /\ x.r = y.r /\ x.ph = y.ph => x.v = y.v
=============================================================================

------------------------------ MODULE Decision ------------------------------
(* C03 at design level: how a reported decision is built (gpbft.go tryDecide / FindStrongQuorumFor / buildJustification).
   One participant in DECIDE phase receives DECIDE votes in any order from any members (Byzantine members may equivocate;
   the tally keeps the first vote per sender; votes of members without scaled power never pass validation).  As soon as some
   value holds a strong quorum the participant terminates and reports a justification whose signers are the shortest prefix,
   in power-table order, of that value's voters that is a strong quorum.  TLC checks the C03 sentence on every reachable
   report, for every arrival order and every power table of the configuration.                                           *)
EXTENDS Integers, Sequences, FiniteSets, TLC
CONSTANTS Tables,      \* set of records [power: [1..n -> Nat] (scaled), order: Seq(1..n) (power-table order)]
          Vals,        \* decidable values
          MaxVotes
VARIABLES tbl, votes, seen, report
vars == <<tbl, votes, seen, report>>
None == [none |-> TRUE]
Members(t) == DOMAIN t.power
RECURSIVE SumP(_, _)
SumP(t, S) == IF S = {} THEN 0 ELSE LET x == CHOOSE x \in S : TRUE IN t.power[x] + SumP(t, S \ {x})
Total(t) == SumP(t, Members(t))
DivCeil(a, b) == (a + b - 1) \div b
Strong(t, pw) == pw >= DivCeil(2 * Total(t), 3)
Pos(t, u) == CHOOSE k \in DOMAIN t.order : t.order[k] = u
MinQuorum(t, S) == {s \in S : ~Strong(t, SumP(t, {u \in S : Pos(t, u) < Pos(t, s)}))}
Voters(v) == {s \in DOMAIN votes : votes[s] = v}

Init == tbl \in Tables /\ votes = << >> /\ seen = 0 /\ report = None
\* ReceiveMessage(DECIDE from s for v) followed by tryDecide
Receive(s, v) ==
  /\ report = None /\ seen < MaxVotes
  /\ seen' = seen + 1
  /\ tbl' = tbl
  /\ LET accepted == tbl.power[s] > 0 /\ s \notin DOMAIN votes        \* validator: non-zero scaled power; tally: first vote per sender
         nv == IF accepted THEN (s :> v) @@ votes ELSE votes
         strong == {x \in Vals : Strong(tbl, SumP(tbl, {u \in DOMAIN nv : nv[u] = x}))}
     IN /\ votes' = nv
        /\ report' = IF strong = {} THEN None
                     ELSE LET x == CHOOSE x \in strong : TRUE
                          IN [none |-> FALSE, v |-> x, r |-> 0, ph |-> "DECIDE", S |-> MinQuorum(tbl, {u \in DOMAIN nv : nv[u] = x})]
Next == \E s \in Members(tbl), v \in Vals : Receive(s, v)
Spec == Init /\ [][Next]_vars

\* ---- the C03 sentence
C03_Shape == report # None => report.r = 0 /\ report.ph = "DECIDE" /\ report.v \in Vals
C03_SignersInCommittee == report # None => report.S \subseteq Members(tbl)
C03_SignersNonZeroPower == report # None => \A s \in report.S : tbl.power[s] > 0
C03_StrongQuorum == report # None => Strong(tbl, SumP(tbl, report.S))
C03_SignersVoted == report # None => \A s \in report.S : s \in DOMAIN votes /\ votes[s] = report.v     \* the aggregate verifies over exactly the decided value
\* at most one value can hold a strong quorum when equivocators' second votes are dropped
C03_Unique == Cardinality({x \in Vals : Strong(tbl, SumP(tbl, Voters(x)))}) <= 1
\* minimality in table order (implementation choice; named Conf because the property does not demand it)
Conf_MinimalPrefix == report # None => \A s \in report.S : ~Strong(tbl, SumP(tbl, {u \in report.S : Pos(tbl, u) < Pos(tbl, s)}))
=============================================================================

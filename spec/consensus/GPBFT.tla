------------------------------- MODULE GPBFT -------------------------------
(* GossiPBFT (gpbft/gpbft.go, gpbft/participant.go) as an implementation-shaped state machine:
   one action per entry point of gpbft.Participant (StartInstanceAt+first alarm, ReceiveMessage,
   ReceiveAlarm), each atomic like the code under apiMutex.  Per honest participant: phase, round,
   proposal, value, cands (candidate set), timedOut, rcv (accepted votes, one per sender/round/phase),
   justs (first justification stored per (round, bucket, value)), cself (convergeState.values: first
   justification per (round, value), own SetSelfValue included), decided, inst, queue (future-instance
   message queue), input.  `sent` is every vote honest participants handed to RequestBroadcast.
   The adversary has no state: ByzMsgs is the set of all messages a Byzantine sender can validly
   sign given the votes honest participants have cast so far (forgeable justification = its honest
   signers really cast that vote and the signers hold a strong quorum).
   try*/begin* are operators returning the SET of possible successor local states, so the places where
   Go map iteration order decides are explicit nondeterminism.                                       *)
EXTENDS Integers, Sequences, FiniteSets, TLC

CONSTANTS H, B, Power, Chains, MaxRound, Rank, Lookahead, Order

P == H \cup B
Bot == << >>
Values == Chains \cup {Bot}
Base(c) == <<c[1]>>
NoJ == [none |-> TRUE]

RECURSIVE SumP(_)
SumP(S) == IF S = {} THEN 0 ELSE LET x == CHOOSE x \in S : TRUE IN Power[x] + SumP(S \ {x})
Total == SumP(P)
DivCeil(a, b) == (a + b - 1) \div b
Strong(pw) == pw >= DivCeil(2 * Total, 3)
Weak(pw) == pw > DivCeil(Total, 3)

IsPrefix(a, b) == Len(a) <= Len(b) /\ SubSeq(b, 1, Len(a)) = a
Phases == {"QUALITY", "CONVERGE", "PREPARE", "COMMIT", "DECIDE"}

VARIABLES phase, round, proposal, value, cands, timedOut, rcv, justs, cself, sent, decided, inst, queue, input
vars == <<phase, round, proposal, value, cands, timedOut, rcv, justs, cself, sent, decided, inst, queue, input>>

Msg(s, r, ph, v, j) == [s |-> s, r |-> r, ph |-> ph, v |-> v, j |-> j]
Just(ph, r, v, S) == [ph |-> ph, r |-> r, v |-> v, S |-> S]

HonestVotersI(i, r, ph, v) == {m.s : m \in {x \in sent : x.i = i /\ x.r = r /\ x.ph = ph /\ x.v = v}}
HonestVoters(r, ph, v) == HonestVotersI(0, r, ph, v)
JustOKI(i, j) == /\ Strong(SumP(j.S))
                 /\ (j.S \cap H) \subseteq HonestVotersI(i, j.r, j.ph, j.v)
JustOK(j) == JustOKI(0, j)

JustShapeOK(m) ==
  LET j == m.j IN
  CASE m.ph = "QUALITY" -> j = NoJ
    [] m.ph = "PREPARE" /\ m.r = 0 -> j = NoJ
    [] m.ph = "COMMIT" /\ m.v = Bot -> j = NoJ
    [] m.ph \in {"CONVERGE", "PREPARE"} ->
          /\ j # NoJ
          /\ \/ (j.ph = "COMMIT" /\ j.r = m.r - 1 /\ j.v = Bot)
             \/ (j.ph = "PREPARE" /\ j.r = m.r - 1 /\ j.v = m.v)
    [] m.ph = "COMMIT" -> j # NoJ /\ j.ph = "PREPARE" /\ j.r = m.r /\ j.v = m.v
    [] m.ph = "DECIDE" -> j # NoJ /\ j.ph = "COMMIT" /\ j.v = m.v
    [] OTHER -> FALSE

BasicOK(m) ==
  /\ (m.ph = "QUALITY" => m.r = 0 /\ m.v # Bot)
  /\ (m.ph = "CONVERGE" => m.r > 0 /\ m.v # Bot)
  /\ (m.ph = "DECIDE" => m.r = 0 /\ m.v # Bot)

\* The adversary signs with all of B plus any honest voters: maximal signer set suffices
MaxJust(ph, r, v) == Just(ph, r, v, B \cup HonestVoters(r, ph, v))
ByzJusts == {NoJ} \cup {MaxJust(ph, r, v) : ph \in {"PREPARE", "COMMIT"}, r \in 0..MaxRound, v \in Values}
ByzMsgs == {m \in [s : B, r : 0..MaxRound, ph : Phases, v : Values, j : ByzJusts] :
              BasicOK(m) /\ JustShapeOK(m) /\ (m.j # NoJ => JustOK(m.j))}
Net == sent \cup ByzMsgs

\* ---- tallies over a view w = [p, R, J]
Slot(w, r, ph) == {m \in w.R : m.r = r /\ m.ph = ph}
Senders(w, r, ph) == {m.s : m \in Slot(w, r, ph)}
SendersPower(w, r, ph) == SumP(Senders(w, r, ph))
Support(w, r, ph, v) == SumP({m.s : m \in {x \in Slot(w, r, ph) : x.v = v}})
QSupport(w, c) == SumP({m.s : m \in {x \in Slot(w, 0, "QUALITY") : IsPrefix(c, x.v)}})
HasStrong(w, r, ph, v) == Strong(Support(w, r, ph, v))
QHasStrong(w, c) == Len(c) > 1 /\ Strong(QSupport(w, c))
CouldReach(w, r, ph, v, adv) ==
  LET unv == Total - SendersPower(w, r, ph)
      a == IF adv THEN Total \div 3 ELSE 0
      pos == Support(w, r, ph, v) + unv + a
  IN Strong(IF pos > Total THEN Total ELSE pos)
StrongValues(w, r, ph) == {v \in {m.v : m \in Slot(w, r, ph)} : HasStrong(w, r, ph, v)}
LongestQ(w) ==
  LET inp == w.inp
      g2 == {n \in 2..Len(inp) : QHasStrong(w, SubSeq(inp, 1, n))}
  IN IF g2 = {} THEN Base(inp) ELSE SubSeq(inp, 1, CHOOSE n \in g2 : \A k \in g2 : k <= n)

JKey(r, b, v) == <<r, b, v>>
HasJ(w, r, b, jph, v) ==
  IF v = Bot THEN \E k \in DOMAIN w.J : k[1] = r /\ k[2] = b /\ w.J[k].v = Bot /\ w.J[k].ph = jph
  ELSE JKey(r, b, v) \in DOMAIN w.J /\ w.J[JKey(r, b, v)].ph = jph
GetJ(w, r, b, jph, v) ==
  IF v = Bot THEN LET k == CHOOSE k \in DOMAIN w.J : k[1] = r /\ k[2] = b /\ w.J[k].v = Bot /\ w.J[k].ph = jph IN w.J[k]
  ELSE w.J[JKey(r, b, v)]

\* converge store s.cself : function <<r, v>> -> first justification seen for that value (self or received)
ConvVals(w, s, r) == {k[2] : k \in {x \in DOMAIN s.cself : x[1] = r}}
ConvRank(w, r, v) ==
  LET rs == {Rank[m.s][w.k][r] : m \in {x \in Slot(w, r, "CONVERGE") : x.v = v}}
  IN IF rs = {} THEN 1000 ELSE CHOOSE x \in rs : \A y \in rs : x <= y
ConvJusts(w, s, r, v) == IF <<r, v>> \in DOMAIN s.cself THEN {s.cself[<<r, v>>]} ELSE {}
ConvHasJ(w, s, r, jph, v) == \E x \in ConvVals(w, s, r) : \E j \in ConvJusts(w, s, r, x) :
                             j.ph = jph /\ (IF v = Bot THEN j.v = Bot ELSE x = v)

Pos(u) == CHOOSE k \in DOMAIN Order : Order[k] = u
Before(u, t) == Pos(u) < Pos(t)   \* power-table order (power desc, id asc), given by the configuration
MinQuorum(S) == {s \in S : ~Strong(SumP({t \in S : Before(t, s)}))}
BuildJ(w, r, ph, v) == Just(ph, r, v, MinQuorum({m.s : m \in {x \in Slot(w, r, ph) : x.v = v}}))

Init ==
  /\ phase = [p \in H |-> "INITIAL"]
  /\ round = [p \in H |-> 0]
  /\ proposal = [p \in H |-> Bot]
  /\ value = [p \in H |-> Bot]
  /\ cands = [p \in H |-> {}]
  /\ timedOut = [p \in H |-> FALSE]
  /\ rcv = [p \in H |-> {}]
  /\ justs = [p \in H |-> << >>]
  /\ cself = [p \in H |-> << >>]
  /\ sent = {}
  /\ decided = [p \in H |-> Bot]
  /\ inst = [p \in H |-> 0]
  /\ queue = [p \in H |-> {}]
  /\ input = [p \in H |-> Bot]

LS(p) == [phase |-> phase[p], round |-> round[p], proposal |-> proposal[p], value |-> value[p],
          cands |-> cands[p], timedOut |-> timedOut[p], cself |-> cself[p], out |-> {}, decided |-> decided[p]]

AddCandPrefixes(cs, c) == cs \cup {SubSeq(c, 1, n) : n \in 2..Len(c)}
Out(r, ph, v, j) == [r |-> r, ph |-> ph, v |-> v, j |-> j]

BeginPrepare(s, r, v, j) == [s EXCEPT !.phase = "PREPARE", !.timedOut = FALSE, !.value = v,
                              !.out = @ \cup {Out(r, "PREPARE", v, j)}]

TryQuality(w, s) ==
  IF QHasStrong(w, s.proposal) \/ s.timedOut
  THEN LET np == LongestQ(w)
           s1 == [s EXCEPT !.proposal = np, !.cands = AddCandPrefixes(@, np)]
       IN BeginPrepare(s1, 0, np, NoJ)
  ELSE s

BeginCommit(w, s) ==
  LET r == s.round
      v == s.value
      j == IF v = Bot THEN NoJ
           ELSE IF HasStrong(w, r, "PREPARE", v) THEN BuildJ(w, r, "PREPARE", v)
           ELSE IF HasJ(w, r, "COMMIT", "PREPARE", v) THEN GetJ(w, r, "COMMIT", "PREPARE", v)
           ELSE IF HasJ(w, r + 1, "PREPARE", "PREPARE", v) THEN GetJ(w, r + 1, "PREPARE", "PREPARE", v)
           ELSE CHOOSE jj \in {x \in ConvJusts(w, s, r + 1, v) : x.ph = "PREPARE"} : TRUE
  IN [s EXCEPT !.phase = "COMMIT", !.timedOut = FALSE, !.out = @ \cup {Out(r, "COMMIT", v, j)}]

TryPrepare(w, s) ==
  LET r == s.round
      pv == s.proposal
      fq == HasStrong(w, r, "PREPARE", pv)
      np == ~CouldReach(w, r, "PREPARE", pv, FALSE)
      pc == s.timedOut /\ Strong(SendersPower(w, r, "PREPARE"))
      fj == HasJ(w, r, "COMMIT", "PREPARE", pv) \/ HasJ(w, r + 1, "PREPARE", "PREPARE", pv)
            \/ ConvHasJ(w, s, r + 1, "PREPARE", pv)
  IN IF fq \/ fj THEN BeginCommit(w, [s EXCEPT !.value = pv])
     ELSE IF np \/ pc THEN BeginCommit(w, [s EXCEPT !.value = Bot])
     ELSE s

BeginConverge(w, s, j) ==
  LET r == s.round IN
  [s EXCEPT !.phase = "CONVERGE", !.timedOut = FALSE,
            !.cself = IF <<r, s.proposal>> \in DOMAIN @ THEN @ ELSE (<<r, s.proposal>> :> j) @@ @,
            !.out = @ \cup {Out(r, "CONVERGE", s.proposal, j)}]

BeginNextRound(w, s) ==
  LET r == s.round
      s1 == [s EXCEPT !.round = r + 1]
      js == IF HasStrong(w, r, "COMMIT", Bot) THEN {BuildJ(w, r, "COMMIT", Bot)}
            \* GetJustificationOf(COMMIT, bottom) returns the first match in Go map order: any stored justification of COMMIT for bottom
            ELSE IF HasJ(w, r + 1, "PREPARE", "COMMIT", Bot) THEN
                   {w.J[k] : k \in {x \in DOMAIN w.J : x[1] = r + 1 /\ x[2] = "PREPARE" /\ w.J[x].v = Bot /\ w.J[x].ph = "COMMIT"}}
            ELSE IF ConvHasJ(w, s, r + 1, "COMMIT", Bot) THEN
                   {j \in UNION {ConvJusts(w, s, r + 1, x) : x \in ConvVals(w, s, r + 1)} : j.ph = "COMMIT" /\ j.v = Bot}
            ELSE {w.J[JKey(r, "COMMIT", s.proposal)]}
  IN {BeginConverge(w, s1, j) : j \in js}

BeginDecide(w, s, r) ==
  [s EXCEPT !.phase = "DECIDE", !.timedOut = FALSE,
            !.out = @ \cup {Out(0, "DECIDE", s.value, BuildJ(w, r, "COMMIT", s.value))}]

TryCommit(w, s, r) ==
  LET sv == StrongValues(w, r, "COMMIT")
      nz == sv \ {Bot}
      pc == s.timedOut /\ Strong(SendersPower(w, r, "COMMIT"))
      fjb == HasJ(w, r + 1, "PREPARE", "COMMIT", Bot) \/ ConvHasJ(w, s, r + 1, "COMMIT", Bot)
  IN IF nz # {} THEN {BeginDecide(w, [s EXCEPT !.value = CHOOSE v \in nz : TRUE], r)}
     ELSE IF s.round # r \/ s.phase # "COMMIT" THEN {s}
     ELSE IF Bot \in sv \/ fjb THEN BeginNextRound(w, s)
     ELSE IF pc THEN
        LET vals == {m.v : m \in Slot(w, r, "COMMIT")} \ {Bot}
        IN IF vals = {} THEN BeginNextRound(w, s)
           ELSE UNION {BeginNextRound(w, [s EXCEPT !.cands = @ \cup {v}, !.proposal = v]) : v \in vals}
     ELSE {s}

\* the CONVERGE filter (isValidConvergeValue): a candidate, or a value that carries the proof of a PREPARE quorum and may already have
\* been decided by somebody in the previous round (1/3 adversary slack)
ConvOK(w, s, r, v, j) == v \in s.cands \/ (j.ph = "PREPARE" /\ CouldReach(w, r - 1, "COMMIT", v, TRUE))
TryConverge(w, s) ==
  IF ~s.timedOut THEN {s}
  ELSE
  LET r == s.round
      wp == [w EXCEPT !.R = w.R]
      ok(v, j) == ConvOK(w, s, r, v, j)
      opts == UNION {{<<v, j>> : j \in {x \in ConvJusts(w, s, r, v) : ok(v, x)}} : v \in ConvVals(w, s, r)}
      ranks == {ConvRank(w, r, o[1]) : o \in opts}
      bestRank == CHOOSE x \in ranks : \A y \in ranks : x <= y
      winners == {o \in opts : ConvRank(w, r, o[1]) = bestRank}
  IN {BeginPrepare([s EXCEPT !.cands = @ \cup {o[1]}, !.proposal = o[1]], r, o[1], o[2]) : o \in winners}

TryDecide(w, s) ==
  LET sv == StrongValues(w, 0, "DECIDE")
  IN IF sv # {} THEN [s EXCEPT !.phase = "TERMINATED", !.decided = CHOOSE v \in sv : TRUE] ELSE s

TryCurrent(w, s) ==
  CASE s.phase = "QUALITY" -> {TryQuality(w, s)}
    [] s.phase = "CONVERGE" -> TryConverge(w, s)
    [] s.phase = "PREPARE" -> {TryPrepare(w, s)}
    [] s.phase = "COMMIT" -> TryCommit(w, s, s.round)
    [] s.phase = "DECIDE" -> {TryDecide(w, s)}
    [] OTHER -> {s}

CommitI(p, s, k) ==
  /\ phase' = [phase EXCEPT ![p] = s.phase]
  /\ round' = [round EXCEPT ![p] = s.round]
  /\ proposal' = [proposal EXCEPT ![p] = s.proposal]
  /\ value' = [value EXCEPT ![p] = s.value]
  /\ cands' = [cands EXCEPT ![p] = s.cands]
  /\ timedOut' = [timedOut EXCEPT ![p] = s.timedOut]
  /\ cself' = [cself EXCEPT ![p] = s.cself]
  /\ decided' = [decided EXCEPT ![p] = s.decided]
  /\ sent' = sent \cup (IF Power[p] > 0 THEN {[i |-> k, s |-> p, r |-> o.r, ph |-> o.ph, v |-> o.v, j |-> o.j] : o \in s.out} ELSE {})  \* a member without scaled power cannot build a message

Relevant(p, m) ==
  /\ phase[p] \notin {"INITIAL", "TERMINATED"}
  /\ (phase[p] = "DECIDE" => m.ph = "DECIDE")
  /\ (m.ph \in {"QUALITY", "DECIDE"} \/ m.r >= round[p] \/ m.r + 1 = round[p])
  /\ m.r <= MaxRound
IgnoredS(s, m) ==
  \/ s.phase = "TERMINATED"
  \/ (m.r < s.round /\ m.ph \in {"CONVERGE", "PREPARE"})
  \/ (m.r > s.round + Lookahead /\ m.j = NoJ /\ m.r > 0)

SkipTo(w, s, r) ==
  IF r > s.round /\ s.phase \notin {"DECIDE", "TERMINATED"} /\ Weak(SendersPower(w, r, "PREPARE"))
  THEN LET cv == Slot(w, r, "CONVERGE")
       IN IF cv = {} THEN {s}
          ELSE LET rk == {Rank[m.s][w.k][r] : m \in cv}
                   br == CHOOSE x \in rk : \A y \in rk : x <= y
                   x == CHOOSE m \in cv : Rank[m.s][w.k][r] = br
                   s1 == [s EXCEPT !.round = r]
                   xj == s.cself[<<r, x.v>>]
                   s2 == IF xj.ph = "PREPARE" THEN [s1 EXCEPT !.cands = @ \cup {x.v}, !.proposal = x.v] ELSE s1
               IN {BeginConverge(w, s2, xj)}
  ELSE {s}

WrongBase(m, inp) == m.v # Bot /\ Base(m.v) # Base(inp)   \* late-binding check of receiveOne (ErrValidationWrongBase)
\* receiveOne + tryCurrentPhase as a function: state st = [R, J, s]; returns the set of successor states
Absorb(p, st, m, inp) ==
  IF IgnoredS(st.s, m) \/ WrongBase(m, inp) THEN {st}
  ELSE
  LET slotFree == m.s \notin {x.s : x \in {y \in st.R : y.r = m.r /\ y.ph = m.ph}}
      addJ == /\ m.ph \in {"PREPARE", "COMMIT"} /\ m.j # NoJ
              /\ JKey(m.r, m.ph, m.v) \notin DOMAIN st.J
      R1 == IF slotFree THEN st.R \cup {m} ELSE st.R
      J1 == IF addJ THEN (JKey(m.r, m.ph, m.v) :> m.j) @@ st.J ELSE st.J
      w == [p |-> p, k |-> st.k, R |-> R1, J |-> J1, inp |-> inp]
      s0 == [st.s EXCEPT !.cself = IF m.ph = "CONVERGE" /\ slotFree /\ <<m.r, m.v>> \notin DOMAIN @
                                   THEN (<<m.r, m.v>> :> m.j) @@ @ ELSE @]
      nexts == CASE m.ph = "QUALITY" ->
                       IF s0.phase # "QUALITY" THEN {[s0 EXCEPT !.cands = AddCandPrefixes(@, LongestQ(w))]} ELSE TryCurrent(w, s0)
                  [] m.ph = "COMMIT" ->
                       IF s0.phase # "DECIDE"
                       THEN UNION {IF sa.phase = "PREPARE" /\ sa.round = m.r /\ m.v # Bot THEN TryCurrent(w, sa) ELSE {sa} : sa \in TryCommit(w, s0, m.r)}
                       ELSE TryCurrent(w, s0)
                  [] m.ph = "DECIDE" ->
                       IF s0.phase # "DECIDE"
                       THEN TryCurrent(w, [s0 EXCEPT !.phase = "DECIDE", !.proposal = m.v, !.value = m.v, !.timedOut = FALSE,
                                                     !.out = @ \cup {Out(0, "DECIDE", m.v, m.j)}])
                       ELSE TryCurrent(w, s0)
                  [] OTHER -> TryCurrent(w, s0)
  IN {[R |-> R1, J |-> J1, s |-> s2, k |-> st.k] : s2 \in nexts}

Commit(p, s) == CommitI(p, s, inst[p])
InstallI(p, st, k) ==
  /\ rcv' = [rcv EXCEPT ![p] = st.R]
  /\ justs' = [justs EXCEPT ![p] = st.J]
  /\ CommitI(p, st.s, k)
Install(p, st) == InstallI(p, st, inst[p])

Strip(m) == [s |-> m.s, r |-> m.r, ph |-> m.ph, v |-> m.v, j |-> m.j]

Receive(p, m, to) ==
  /\ m.i = inst[p] /\ Relevant(p, Strip(m))
  /\ LET st0 == [R |-> rcv[p], J |-> justs[p], s |-> [LS(p) EXCEPT !.timedOut = @ \/ to], k |-> inst[p]] IN
     \E st1 \in Absorb(p, st0, Strip(m), input[p]) :
       \E s2 \in (IF st1 = st0 THEN {st1.s} ELSE SkipTo([p |-> p, k |-> inst[p], R |-> st1.R, J |-> st1.J, inp |-> input[p]], st1.s, m.r)) :
          Install(p, [st1 EXCEPT !.s = s2])
  /\ UNCHANGED <<inst, queue, input>>

Enqueue(p, m) ==
  /\ (m.i > inst[p] \/ (m.i = inst[p] /\ phase[p] = "INITIAL"))
  /\ queue' = [queue EXCEPT ![p] =
        IF (m.r > Lookahead /\ m.j = NoJ /\ m.r > 0) \/ (\E q \in @ : q.i = m.i /\ q.s = m.s /\ q.r = m.r /\ q.ph = m.ph)
        THEN @ ELSE @ \cup {m}]
  /\ UNCHANGED <<phase, round, proposal, value, cands, timedOut, rcv, justs, cself, sent, decided, inst, input>>

DropOld(p, m) == (m.i < inst[p] \/ (m.i = inst[p] /\ phase[p] = "TERMINATED")) /\ UNCHANGED vars

PhaseOrd(ph) == CASE ph = "QUALITY" -> 1 [] ph = "CONVERGE" -> 2 [] ph = "PREPARE" -> 3 [] ph = "COMMIT" -> 4 [] OTHER -> 5
\* messageQueue.Drain returns the queued messages sorted by round, then phase; the order inside a group of equal round and phase is Go map
\* iteration order (by sender), i.e. arbitrary.  Every order of a group is considered; the states reached are merged before the next group is
\* processed (orders of different groups do not multiply).
RECURSIVE Perm(_, _, _, _)
Perm(p, sts, g, inp) ==
  IF g = {} THEN sts
  ELSE UNION {Perm(p, UNION {Absorb(p, st, Strip(m), inp) : st \in sts}, g \ {m}, inp) : m \in g}
RECURSIVE Drain(_, _, _, _)
Drain(p, sts, ms, inp) ==
  IF ms = {} THEN sts
  ELSE LET mins == {m \in ms : \A x \in ms : m.r < x.r \/ (m.r = x.r /\ PhaseOrd(m.ph) <= PhaseOrd(x.ph))}
       IN Drain(p, Perm(p, sts, mins, inp), ms \ mins, inp)
RECURSIVE SkipDesc(_, _, _)
SkipDesc(w, s, rs) ==
  IF rs = {} THEN {s}
  ELSE LET r == CHOOSE x \in rs : \A y \in rs : y <= x
           n == SkipTo(w, s, r)
       IN IF n # {s} THEN n ELSE SkipDesc(w, s, rs \ {r})

StartInst(p, k, inp) ==
  /\ phase[p] \in {"INITIAL", "TERMINATED"}
  /\ (phase[p] = "TERMINATED" => k = inst[p] + 1) /\ (phase[p] = "INITIAL" => k = inst[p])
  /\ LET s0 == [phase |-> "QUALITY", round |-> 0, proposal |-> inp, value |-> Bot, cands |-> {Base(inp)},
                timedOut |-> FALSE, cself |-> << >>, out |-> {Out(0, "QUALITY", inp, NoJ)}, decided |-> Bot]
         mine == {m \in queue[p] : m.i = k}
         sts == Drain(p, {[R |-> {}, J |-> << >>, s |-> s0, k |-> k]}, mine, inp)
     IN \E st1 \in sts :
          \E s2 \in SkipDesc([p |-> p, k |-> k, R |-> st1.R, J |-> st1.J, inp |-> inp], st1.s, {m.r : m \in mine}) :
            /\ inst' = [inst EXCEPT ![p] = k]
            /\ input' = [input EXCEPT ![p] = inp]
            /\ queue' = [queue EXCEPT ![p] = {m \in @ : m.i > k}]
            /\ InstallI(p, [st1 EXCEPT !.s = s2], k)

Alarm(p, to) ==
  /\ phase[p] \in {"QUALITY", "CONVERGE", "PREPARE", "COMMIT", "DECIDE"}
  /\ \E s1 \in TryCurrent([p |-> p, k |-> inst[p], R |-> rcv[p], J |-> justs[p], inp |-> input[p]], [LS(p) EXCEPT !.timedOut = @ \/ to]) : Commit(p, s1)
  /\ UNCHANGED <<rcv, justs, inst, queue, input>>

Agreement == \A p, q \in H : (inst[p] = inst[q] /\ decided[p] # Bot /\ decided[q] # Bot) => decided[p] = decided[q]
=============================================================================

SPECIFICATION Spec
CONSTANTS
  H = {1, 2, 3}
  B = {4}
  Power <- Power4
  Chains <- Chains3x
  Input <- InputFork
  MaxRound = 1
  Rank <- RankRev
  ConvAdmit <- ConvAdmitNoPrepare
INVARIANT Agreement
INVARIANT Validity
CHECK_DEADLOCK FALSE

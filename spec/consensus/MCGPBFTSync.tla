---------------------------- MODULE MCGPBFTSync ----------------------------
(* C06 at design level, on the implementation-shaped per-message model (GPBFT.tla / MCGPBFT.tla):
   an arbitrary asynchronous prefix (any delivery order, loss so far, timers at any admissible time, any validly
   signed Byzantine message), then stabilisation: from that point on faulty members are silent, every vote an
   honest member has sent or sends is delivered to every started honest member, and a phase timeout fires only when
   the network is quiescent (every sent vote has been absorbed by everybody) -- the logical content of "messages
   arrive within the bound and time-outs are at least twice the bound".  TLC checks, on every walk,
     * no stuck state: after stabilisation some step is enabled until every started honest member has decided
       (checked as deadlock freedom; Done is the only step of a finished run),
     * the round bound: nobody moves more than K rounds beyond the highest round reached at stabilisation.
   Timer arithmetic (back-off, rebroadcast) is not in this model; it is exercised on the real participants with
   their real timers by the C06 driver runs.                                                                     *)
EXTENDS MCGPBFT
CONSTANTS PrefixLen, K
VARIABLES gst, gstRound
svars == <<mvars, gst, gstRound>>

Started(p) == phase[p] # "INITIAL"
AllStartedDone == \A p \in H : phase[p] \in {"INITIAL", "TERMINATED"}
St0(p) == [R |-> rcv[p], J |-> justs[p], s |-> LS(p), k |-> inst[p]]
\* delivering m to p would change nothing
NoEffect(p, m) ==    \* IF, not \/: TLC splits a disjunction inside an action into branches and would evaluate Absorb for an unstarted member
  IF ~Started(p) THEN TRUE
  ELSE IF phase[p] = "TERMINATED" THEN TRUE
  ELSE IF m.i # inst[p] THEN TRUE
  ELSE IF ~Relevant(p, Strip(m)) THEN TRUE
  ELSE LET st0 == St0(p) IN Absorb(p, st0, Strip(m), input[p]) = {st0}
\* every honest member has started (members start an instance by their own clock; after stabilisation they all do so within the
\* bound) and every vote sent so far has been absorbed by everybody
Quiescent == (\A p \in H : Started(p)) /\ \A p \in H : \A m \in sent : NoEffect(p, m)
MaxR(f) == CHOOSE x \in {f[p] : p \in H} : \A q \in H : f[q] <= x

SInit == MInit /\ gst = FALSE /\ gstRound = 0
Async == ~gst /\ Len(hist) < PrefixLen /\ MNext /\ UNCHANGED <<gst, gstRound>>
Stabilise == /\ ~gst          \* at any time; at the latest when the prefix budget is used up
             /\ gst' = TRUE /\ gstRound' = MaxR(round) /\ UNCHANGED mvars
SStart(p) == MStart(p)
SReceive(p) == /\ Started(p) /\ phase[p] # "TERMINATED"
               /\ \E m \in sent : /\ Receive(p, m, FALSE)
                                  /\ vars' # vars
                                  /\ Rec("Receive", p, FALSE, MJ(m))
STimeout(p) == /\ Quiescent
               /\ Alarm(p, TRUE)
               /\ vars' # vars
               /\ Rec("Alarm", p, TRUE, NoM)
Sync == gst /\ (\E p \in H : SStart(p) \/ SReceive(p) \/ STimeout(p)) /\ UNCHANGED <<gst, gstRound>>
Done == gst /\ AllStartedDone /\ (\A p \in H : Started(p)) /\ UNCHANGED svars
SNext == Async \/ Stabilise \/ Sync \/ Done
SSpec == SInit /\ [][SNext]_svars

RoundBound == gst => \A p \in H : round[p] <= gstRound + K
SafetyStill == MAgreement /\ MValidity
\* C02, second sentence: common input, honest strong quorum, synchronous from the start, no faulty sender => that chain is decided
UniformDecides == \A p \in H : decided[p] # Bot => decided[p] = Input[p]
SyncFromStart == gst \/ hist = << >>          \* (used with PrefixLen = 0: the only first step is Stabilise)
ViewNoHist == <<vars, gst, gstRound>>
ExportSync == (gst /\ AllDone) => PrintT(<<"VERIF_HIST", ToJson(hist)>>)
=============================================================================

---------------------------- MODULE GPBFTTrace ----------------------------
(* Layer B of the consensus binding: conformance of recorded executions of real gpbft.Participants
   with GPBFT.tla.  Every Start/Receive/Alarm line must be explained by the corresponding action of
   GPBFT.tla with the logged arguments, and the logged result (progress, votes handed to
   RequestBroadcast, decision) must equal the action's result.  A trace that is not consumed to the
   end is "spec drift" (exit 2): the exhaustive results obtained on GPBFT.tla / GPBFTQuorum.tla do
   not transfer to such code.  Property verdicts are Layer A's (GPBFTObs.tla).                   *)
EXTENDS GPBFT, Json, TLCExt
CONSTANT TraceFile
TraceLog == ndJsonDeserialize(TraceFile)
Cfg == TraceLog[1]
VARIABLE l
tvars == <<vars, l>>
Range(f) == {f[i] : i \in DOMAIN f}
ToJ(j) == IF j.none THEN NoJ ELSE [ph |-> j.ph, r |-> j.r, v |-> j.v, S |-> Range(j.S)]
ToM(m) == [i |-> m.i, s |-> m.s, r |-> m.r, ph |-> m.ph, v |-> m.v, j |-> ToJ(m.j)]
Ev == TraceLog[l]
IsEvent(e) == l <= Len(TraceLog) /\ Ev.ev = e /\ l' = l + 1
Post(n) ==
  /\ phase'[n] = Ev.phase
  /\ inst'[n] = Ev.inst
  /\ (Ev.phase = "TERMINATED" \/ round'[n] = Ev.round)
  /\ decided'[n] = Ev.dec
  /\ (sent' \ sent) \subseteq {ToM(o) : o \in Range(Ev.out)}
  /\ {ToM(o) : o \in Range(Ev.out)} \subseteq sent'
TInit == Init /\ l = 2
TStart == IsEvent("Start") /\ StartInst(Ev.n, Ev.inst, Ev.input) /\ Post(Ev.n)
TAlarm == IsEvent("Alarm") /\ Alarm(Ev.n, Ev.to) /\ Post(Ev.n)
ByzValidI(m) == BasicOK(Strip(m)) /\ JustShapeOK(Strip(m)) /\ (m.j # NoJ => JustOKI(m.i, m.j))
TReceive == /\ IsEvent("Receive")
            /\ (ToM(Ev.m).s \in B => (Ev.bad \/ ByzValidI(ToM(Ev.m))))
            /\ LET m == ToM(Ev.m)
                   n == Ev.n IN
               IF Ev.bad /\ Ev.errclass = "latebinding"
               THEN UNCHANGED vars    \* foreign supplemental data: receiveOne returns before touching any state
               ELSE \/ DropOld(n, m)
                    \/ Enqueue(n, m)
                    \/ (phase[n] \notin {"INITIAL", "TERMINATED"} /\ Receive(n, m, Ev.to) /\ Post(n))
TReset == IsEvent("Reset")
          /\ phase' = [p \in H |-> "INITIAL"] /\ round' = [p \in H |-> 0] /\ proposal' = [p \in H |-> Bot]
          /\ value' = [p \in H |-> Bot] /\ cands' = [p \in H |-> {}] /\ timedOut' = [p \in H |-> FALSE]
          /\ rcv' = [p \in H |-> {}] /\ justs' = [p \in H |-> << >>] /\ cself' = [p \in H |-> << >>] /\ sent' = {}
          /\ decided' = [p \in H |-> Bot] /\ inst' = [p \in H |-> 0] /\ queue' = [p \in H |-> {}] /\ input' = [p \in H |-> Bot]
TSkip == (IsEvent("Rejected") \/ IsEvent("CrashStop") \/ IsEvent("End")) /\ UNCHANGED vars
TNext == TStart \/ TAlarm \/ TReceive \/ TSkip \/ TReset
TSpec == TInit /\ [][TNext]_tvars
\* acceptance: some behaviour of the spec explains the whole trace.  (The number of distinct states may exceed the number of lines: where the
\* code's choice is not observable -- e.g. the order in which queued messages of equal round and phase are drained at instance start, which
\* decides whose justification is stored first -- the spec branches and every branch that matches the logged results is followed.)
Consumed == l = Len(TraceLog) + 1 => PrintT("VERIF_CONSUMED")

N == Cfg.n
BC == Range(Cfg.byz)
HC == (1..N) \ BC
PowerC == [p \in 1..N |-> Cfg.power[p]]
LookaheadC == Cfg.lookahead
OrderC == Cfg.order
RankC == [p \in 1..N |-> [k \in 0..(Cfg.insts - 1) |-> [r \in 0..(Cfg.maxround + 2) |-> Cfg.rank[p][k + 1][r + 1]]]]
=============================================================================

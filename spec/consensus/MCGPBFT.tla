------------------------------ MODULE MCGPBFT ------------------------------
(* Design-level model of the implementation-shaped per-message spec GPBFT.tla (the module the real
   participants are trace-validated against): a next-state relation over its actions, a history
   variable that records every action with its arguments (exported as JSON so that the Go driver can
   replay TLC-chosen schedules on real gpbft.Participants, spec -> code), the design-level
   invariants of C01/C02/C07, and the mutant operators used to make TLC produce attack schedules.

   Network: Net = every honest vote ever handed to RequestBroadcast plus every message a Byzantine
   member can validly sign now (GPBFT!ByzMsgs); Receive(p, m, to) may take any of them at any time,
   any number of times, or never.  `to` = "the phase timeout of p has elapsed when the call is made". *)
EXTENDS GPBFT, Json

CONSTANTS Input,      \* [H -> Chains] honest inputs (instance 0)
          Depth,      \* export the history when it reaches this length (simulation mode)
          Noop        \* TRUE: deliveries without effect (duplicates, ignored, irrelevant) are steps too

VARIABLE hist
mvars == <<vars, hist>>

WithI(m) == [i |-> 0, s |-> m.s, r |-> m.r, ph |-> m.ph, v |-> m.v, j |-> m.j]
NetI == sent \cup {WithI(m) : m \in ByzMsgs}

JJ(j) == IF j = NoJ THEN [none |-> TRUE, ph |-> "", r |-> 0, v |-> << >>, S |-> {}]
         ELSE [none |-> FALSE, ph |-> j.ph, r |-> j.r, v |-> j.v, S |-> j.S]
MJ(m) == [none |-> FALSE, i |-> m.i, s |-> m.s, r |-> m.r, ph |-> m.ph, v |-> m.v, j |-> JJ(m.j)]
NoM == [none |-> TRUE, i |-> 0, s |-> 0, r |-> 0, ph |-> "", v |-> << >>, j |-> JJ(NoJ)]
Rec(a, p, to, m) == hist' = Append(hist, [a |-> a, n |-> p, to |-> to, m |-> m])

ToSet(p) == IF timedOut[p] THEN {FALSE} ELSE BOOLEAN

MInit == Init /\ hist = << >>
MStart(p) == /\ phase[p] = "INITIAL"
             /\ StartInst(p, 0, Input[p])
             /\ Rec("Start", p, FALSE, NoM)
MReceive(p) == /\ phase[p] \notin {"INITIAL", "TERMINATED"}
               /\ \E m \in NetI : \E to \in ToSet(p) :
                    /\ Receive(p, m, to)
                    /\ (Noop \/ vars' # vars)
                    /\ Rec("Receive", p, to, MJ(m))
MAlarm(p) == \E to \in ToSet(p) :
               /\ Alarm(p, to)
               /\ (Noop \/ to \/ vars' # vars)
               /\ Rec("Alarm", p, to, NoM)
MNext == \E p \in H : MStart(p) \/ MReceive(p) \/ MAlarm(p)
MSpec == MInit /\ [][MNext]_mvars

\* ---------------------------------------------------------------- design-level properties
AllDone == \A p \in H : phase[p] = "TERMINATED"
\* C01
MAgreement == Agreement
\* C02 (first sentence)
MValidity == \A p \in H : decided[p] # Bot =>
               /\ Len(decided[p]) >= 1 /\ Base(decided[p]) = Base(Input[p])
               /\ \E q \in H : IsPrefix(decided[p], Input[q])
\* C07 clause 1: one vote per instance, round and step
MOneVotePerSlot == \A x, y \in sent : (x.i = y.i /\ x.s = y.s /\ x.r = y.r /\ x.ph = y.ph) => x = y
\* C07 clause 2 (valid under the protocol rules): every honest vote would be admitted by the validator rules
MEmitsValid == \A x \in sent : BasicOK(Strip(x)) /\ JustShapeOK(Strip(x)) /\ (x.j # NoJ => JustOKI(x.i, x.j))
\* C07 clause 8: only votes for a prefix of the own input or for a value with a formable strong quorum behind it
MEvidenceBacked == \A x \in sent : x.v = Bot \/ IsPrefix(x.v, Input[x.s]) \/ \E y \in NetI : y.j # NoJ /\ y.j.v = x.v
\* C07 clause 3: (round, step) progress never moves backwards -- action property
PhRank(ph) == CASE ph = "INITIAL" -> 0 [] ph = "QUALITY" -> 1 [] ph = "CONVERGE" -> 2 [] ph = "PREPARE" -> 3
                [] ph = "COMMIT" -> 4 [] ph = "DECIDE" -> 5 [] OTHER -> 6
ProgressLE(p) == \/ phase'[p] \in {"DECIDE", "TERMINATED"} /\ PhRank(phase'[p]) >= PhRank(phase[p])
                 \/ /\ phase[p] \notin {"DECIDE", "TERMINATED"}
                    /\ (round'[p] > round[p] \/ (round'[p] = round[p] /\ PhRank(phase'[p]) >= PhRank(phase[p])))
MProgressMonotone == [][\A p \in H : ProgressLE(p)]_mvars
\* ---------------------------------------------------------------- export of behaviours (simulation mode)
Export == (Len(hist) = Depth \/ (AllDone /\ Len(hist) < Depth)) => PrintT(<<"VERIF_HIST", ToJson(hist)>>)
\* attack search: a violated safety property prints the schedule that led to it
AttackAgreement == MAgreement \/ (PrintT(<<"VERIF_ATTACK", "Agreement", ToJson(hist)>>) /\ FALSE)
AttackValidity == MValidity \/ (PrintT(<<"VERIF_ATTACK", "Validity", ToJson(hist)>>) /\ FALSE)

\* ---------------------------------------------------------------- constants of the configurations
P4 == {1, 2, 3, 4}
Power4 == [p \in P4 |-> 16383]
Order4 == <<1, 2, 3, 4>>
ChainsFork == {<<0>>, <<0, 1>>, <<0, 3>>}
ChainsNest == {<<0>>, <<0, 1>>, <<0, 1, 2>>, <<0, 3>>}
InputFork == (1 :> <<0, 1>>) @@ (2 :> <<0, 1>>) @@ (3 :> <<0, 3>>)
InputNest == (1 :> <<0, 1, 2>>) @@ (2 :> <<0, 1>>) @@ (3 :> <<0, 3>>)
InputNest3 == (1 :> <<0, 1, 2>>) @@ (2 :> <<0, 1, 2>>) @@ (3 :> <<0, 1>>)
InputUni == (1 :> <<0, 1, 2>>) @@ (2 :> <<0, 1, 2>>) @@ (3 :> <<0, 1, 2>>)
RankId == [p \in P4 |-> [k \in {0} |-> [r \in 0..6 |-> p]]]
RankRev == [p \in P4 |-> [k \in {0} |-> [r \in 0..6 |-> 5 - p]]]
RankMix == [p \in P4 |-> [k \in {0} |-> [r \in 0..6 |-> ((p + r) % 4) + 1]]]
PowerBound3 == (1 :> 21845) @@ (2 :> 21845) @@ (3 :> 21844)
Order3 == <<1, 2, 3>>
InputTwo == (1 :> <<0, 1>>) @@ (2 :> <<0, 3>>)
\* ---- mutant operators (each configuration overriding one of them must be refuted by TLC)
StrongFloor(pw) == pw >= (2 * Total) \div 3     \* two thirds rounded down
StrongHalf(pw) == 2 * pw >= Total
StrongMinus(pw) == pw >= DivCeil(2 * Total, 3) - 16383
\* the validator does not weigh the signers of a justification
JustNoPower(i, j) == (j.S \cap H) \subseteq HonestVotersI(i, j.r, j.ph, j.v)
\* the validator accepts a justification from any round where a specific round is prescribed
JustShapeAnyRound(m) ==
  LET j == m.j IN
  CASE m.ph = "QUALITY" -> j = NoJ
    [] m.ph = "PREPARE" /\ m.r = 0 -> j = NoJ
    [] m.ph = "COMMIT" /\ m.v = Bot -> j = NoJ
    [] m.ph \in {"CONVERGE", "PREPARE"} -> j # NoJ /\ ((j.ph = "COMMIT" /\ j.v = Bot) \/ (j.ph = "PREPARE" /\ j.v = m.v))
    [] m.ph = "COMMIT" -> j # NoJ /\ j.ph = "PREPARE" /\ j.v = m.v
    [] m.ph = "DECIDE" -> j # NoJ /\ j.ph = "COMMIT" /\ j.v = m.v
    [] OTHER -> FALSE
\* the validator does not compare the justified value with the message's value
JustShapeAnyValue(m) ==
  LET j == m.j IN
  CASE m.ph = "QUALITY" -> j = NoJ
    [] m.ph = "PREPARE" /\ m.r = 0 -> j = NoJ
    [] m.ph = "COMMIT" /\ m.v = Bot -> j = NoJ
    [] m.ph \in {"CONVERGE", "PREPARE"} -> j # NoJ /\ ((j.ph = "COMMIT" /\ j.r = m.r - 1 /\ j.v = Bot) \/ (j.ph = "PREPARE" /\ j.r = m.r - 1))
    [] m.ph = "COMMIT" -> j # NoJ /\ j.ph = "PREPARE" /\ j.r = m.r
    [] m.ph = "DECIDE" -> j # NoJ /\ j.ph = "COMMIT"
    [] OTHER -> FALSE
\* DECIDE accepted with the justification of a PREPARE quorum (instead of COMMIT)
JustShapeOrig(m) ==   \* copy of GPBFT!JustShapeOK (an overriding operator must not refer to the operator it replaces)
  LET j == m.j IN
  CASE m.ph = "QUALITY" -> j = NoJ
    [] m.ph = "PREPARE" /\ m.r = 0 -> j = NoJ
    [] m.ph = "COMMIT" /\ m.v = Bot -> j = NoJ
    [] m.ph \in {"CONVERGE", "PREPARE"} -> j # NoJ /\ ((j.ph = "COMMIT" /\ j.r = m.r - 1 /\ j.v = Bot) \/ (j.ph = "PREPARE" /\ j.r = m.r - 1 /\ j.v = m.v))
    [] m.ph = "COMMIT" -> j # NoJ /\ j.ph = "PREPARE" /\ j.r = m.r /\ j.v = m.v
    [] m.ph = "DECIDE" -> j # NoJ /\ j.ph = "COMMIT" /\ j.v = m.v
    [] OTHER -> FALSE
JustShapeDecideByPrepare(m) ==
  IF m.ph = "DECIDE" THEN m.j # NoJ /\ m.j.ph \in {"COMMIT", "PREPARE"} /\ m.j.v = m.v ELSE JustShapeOrig(m)
\* DECIDE accepted without any justification
JustShapeDecideNoJ(m) == IF m.ph = "DECIDE" THEN TRUE ELSE JustShapeOrig(m)
\* only the chain itself becomes a candidate, not its quorum-backed prefixes (the defect repaired by "fix: every quorum-backed prefix ...")
AddCandOnlyFull(cs, c) == cs \cup {c}
\* the CONVERGE filter does not insist on a PREPARE-quorum justification for a non-candidate value
ConvOKNoPrepare(w, s, r, v, j) == v \in s.cands \/ CouldReach(w, r - 1, "COMMIT", v, TRUE)
\* receiveOne does not compare the base of a vote with the base of the own input
WrongBaseNever(m, inp) == FALSE
ChainsForkX == {<<0>>, <<0, 1>>, <<0, 3>>, <<0, 5>>}   \* <<0, 5>>: right base, proposed by no honest participant
ChainsForeign == {<<0>>, <<0, 1>>, <<0, 3>>, <<7>>, <<7, 8>>}
=============================================================================

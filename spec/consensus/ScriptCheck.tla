---------------------------- MODULE ScriptCheck ----------------------------
(* A schedule (sequence of Start / Receive / Alarm actions with arguments, the format of the attack library and of the exported
   histories) is run through the actions of the per-message model, possibly with a mutant operator overridden in the cfg.  TLC says whether
   the schedule is a behaviour of that model (every step enabled: Consumed) and whether it ends in a violation of Agreement / Validity.
   Used to confirm hand-guided attack schedules before they enter the library (tools/scriptcheck.py).                                    *)
EXTENDS MCGPBFT, TLCExt
CONSTANT ScriptFile
Script == ndJsonDeserialize(ScriptFile)
VARIABLE k
svars2 == <<mvars, k>>
RangeS(f) == {f[i] : i \in DOMAIN f}
SJ(j) == IF j.none THEN NoJ ELSE [ph |-> j.ph, r |-> j.r, v |-> j.v, S |-> RangeS(j.S)]
SM(m) == [i |-> m.i, s |-> m.s, r |-> m.r, ph |-> m.ph, v |-> m.v, j |-> SJ(m.j)]
E == Script[k]
SInit2 == MInit /\ k = 1
SStep == /\ k <= Len(Script) /\ k' = k + 1
         /\ CASE E.a = "Start" -> StartInst(E.n, 0, Input[E.n])
              [] E.a = "Receive" -> /\ SM(E.m) \in NetI      \* honest messages must have been sent, Byzantine ones must be signable now
                                    /\ Receive(E.n, SM(E.m), E.to)
              [] E.a = "Alarm" -> Alarm(E.n, E.to)
              [] OTHER -> FALSE
         /\ hist' = hist
SSpec2 == SInit2 /\ [][SStep]_svars2
Consumed == k = Len(Script) + 1
\* reported as "violated" when the whole schedule was consumed and ended in the bad state (what an attack schedule must do on its mutant)
NoAttack == ~(Consumed /\ ~(MAgreement /\ MValidity))
\* reported as "violated" when the whole schedule was consumed at all (used to show the unmutated model refuses it)
NotConsumed == ~Consumed
=============================================================================

SPECIFICATION Spec
CONSTANTS
  Tables <- TablesC
  Vals = {"a", "b"}
  MaxVotes = 6
  MinQuorum <- DropLast
INVARIANT C03_Shape
INVARIANT C03_SignersInCommittee
INVARIANT C03_SignersNonZeroPower
INVARIANT C03_StrongQuorum
INVARIANT C03_SignersVoted
INVARIANT C03_Unique
INVARIANT Conf_MinimalPrefix
CHECK_DEADLOCK FALSE

---- MODULE MCGPBFTQuorum ----
(* Model-checking configurations of the quorum-view abstraction.  Scaled powers are the code's (16383 each for four
   equal members; 5-4-3-2-1-1 style skew scaled to 65535).  Mutant operators: a configuration that overrides Strong /
   JOK / ConvOk with one of them must be refuted by TLC (the invariants are live; the counterexample is an attack schedule). *)
EXTENDS GPBFTQuorum
Power4 == [p \in {1,2,3,4} |-> 16383]
Chains3 == {<<0>>, <<0, 1>>, <<0, 2>>}
Chains4 == {<<0>>, <<0, 1>>, <<0, 1, 3>>, <<0, 2>>}
InputFork == (1 :> <<0, 1>>) @@ (2 :> <<0, 1>>) @@ (3 :> <<0, 2>>)
InputNested == (1 :> <<0, 1, 3>>) @@ (2 :> <<0, 1>>) @@ (3 :> <<0, 2>>)
InputUniform == (1 :> <<0, 1>>) @@ (2 :> <<0, 1>>) @@ (3 :> <<0, 1>>)
RankId == [p \in {1,2,3,4,5} |-> [r \in 0..4 |-> p]]
RankRev == [p \in {1,2,3,4,5} |-> [r \in 0..4 |-> 6 - p]]
\* skewed table: 1:5/12, 2:3/12, 3:2/12, 4(B):2/12 -> scaled as the code scales (floor(p * 65535 / total))
PowerSkew == (1 :> 27306) @@ (2 :> 16383) @@ (3 :> 10922) @@ (4 :> 10922)
\* Byzantine power AT the bound (1/3): agreement must be refutable (non-vacuity of the < 1/3 premise)
Power3 == [p \in {1,2,3} |-> 21845]
InputTwo == (1 :> <<0, 1>>) @@ (2 :> <<0, 2>>)
\* ---- mutants
StrongHalf(pw) == 2 * pw >= SumP(H \cup B)
StrongMinusOne(pw) == pw >= DivCeil(2 * SumP(H \cup B), 3) - 16383
JOKNoPower(ph, r, v) == TRUE
ConvOkAlways(fc, v) == TRUE
ConvAdmitNoPrepare(r, fc, v) == CouldReach(fc, v, TRUE)     \* the PREPARE-quorum requirement of the CONVERGE filter dropped
Chains3x == {<<0>>, <<0, 1>>, <<0, 2>>, <<0, 5>>}           \* <<0, 5>>: right base, proposed by no honest participant
====

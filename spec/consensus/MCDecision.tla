---- MODULE MCDecision ----
EXTENDS Decision
T(pw, ord) == [power |-> pw, order |-> ord]
TablesC == {
  T(<<16383, 16383, 16383, 16383>>, <<1, 2, 3, 4>>),                 \* equal
  T(<<39321, 13107, 6553, 6553>>, <<1, 2, 3, 4>>),                    \* one dominant (not yet a quorum alone)
  T(<<21845, 21845, 21844, 0>>, <<1, 2, 3, 4>>),                      \* a member without scaled power, total not divisible by 3
  T(<<21845, 21845, 21845>>, <<1, 2, 3>>),                            \* exactly-2/3 boundary: two members = 43690 = ceil(2*65535/3)
  T(<<23830, 17873, 11915, 5957, 5957>>, <<1, 2, 3, 4, 5>>),          \* 4-3-2-1-1
  T(<<13107, 13107, 13107, 13107, 13107>>, <<1, 2, 3, 4, 5>>) }
\* mutant: the justification is built from ALL voters of any value (would put signers of another value under the aggregate)
AllSenders(t, S) == DOMAIN votes'
MinQuorumOrig(t, S) == {s \in S : ~Strong(t, SumP(t, {u \in S : Pos(t, u) < Pos(t, s)}))}
DropLast(t, S) == IF Cardinality(MinQuorumOrig(t, S)) > 1 THEN MinQuorumOrig(t, S) \ {CHOOSE s \in MinQuorumOrig(t, S) : \A u \in MinQuorumOrig(t, S) : Pos(t, u) <= Pos(t, s)} ELSE S
====

----------------------------- MODULE GPBFTObs -----------------------------
(* Layer A of the consensus binding: observation-only monitors.
   The module has NO protocol state and no guards: it consumes every line of a trace
   recorded from real gpbft.Participants (harness/drivers/consensus), keeps for each
   participant the sequence of messages delivered to it, the votes it emitted, its
   inputs and decisions, and evaluates the clauses of C01, C02, C03, C06 and C07 exactly
   as the property texts state them.  Because it has no guards it can never reject a
   trace for a reason other than a clause of a property.                               *)
EXTENDS Integers, Sequences, FiniteSets, TLC, Json, TLCExt
CONSTANTS TraceFile, Pid      \* Pid: which property's clauses are reported ("ALL" = every clause)

TraceLog == ndJsonDeserialize(TraceFile)
Cfg == TraceLog[1]
Range(f) == {f[i] : i \in DOMAIN f}
N == Cfg.n
P == 1..N
B == Range(Cfg.byz)
H == P \ B
Power == [p \in P |-> Cfg.power[p]]
Total == Cfg.total
Bot == << >>
NoJ == [none |-> TRUE]

RECURSIVE SumP(_)
SumP(S) == IF S = {} THEN 0 ELSE LET x == CHOOSE x \in S : TRUE IN Power[x] + SumP(S \ {x})
RECURSIVE SumSeq(_)
SumSeq(s) == IF s = << >> THEN 0 ELSE Head(s) + SumSeq(Tail(s))
DivCeil(a, b) == (a + b - 1) \div b
Strong(pw) == pw >= DivCeil(2 * Total, 3)
IsPrefix(a, b) == Len(a) <= Len(b) /\ SubSeq(b, 1, Len(a)) = a
Rank(s, i, r) == Cfg.rank[s][i + 1][r + 1]
PhaseRank(ph) == CASE ph = "INITIAL" -> 0 [] ph = "QUALITY" -> 1 [] ph = "CONVERGE" -> 2 [] ph = "PREPARE" -> 3
                   [] ph = "COMMIT" -> 4 [] ph = "DECIDE" -> 5 [] ph = "TERMINATED" -> 6 [] OTHER -> 7

VARIABLES l,      \* next line
          dlv,    \* participant -> sequence of messages delivered to it (validated, handed to ReceiveMessage)
          outs,   \* set of votes emitted: [n, i, r, ph, v, j]
          inputs, \* set of [n, i, c]: input chain of participant n in instance i
          prog,   \* participant -> <<instance, round, phase rank>> last reported
          decs,   \* set of [n, i, v]
          adv,    \* adversary of the current run ("script": a TLC-generated attack/schedule replay, whose forged messages the real validator is EXPECTED to refuse)
          bad
ovars == <<l, dlv, outs, inputs, prog, decs, adv, bad>>

ToJ(j) == IF j.none THEN NoJ ELSE [ph |-> j.ph, r |-> j.r, v |-> j.v, S |-> Range(j.S)]
ToM(m) == [i |-> m.i, s |-> m.s, r |-> m.r, ph |-> m.ph, v |-> m.v, j |-> ToJ(m.j)]
Ev == TraceLog[l]
Acting == {"Start", "Receive", "Alarm"}

Init == l = 2 /\ dlv = [p \in H |-> << >>] /\ outs = {} /\ inputs = {} /\ prog = [p \in H |-> <<0, 0, 0>>] /\ decs = {} /\ adv = "" /\ bad = {}

InputOf(I, n, i) == LET S == {x \in I : x.n = n /\ x.i = i} IN IF S = {} THEN Bot ELSE (CHOOSE x \in S : TRUE).c

\* ------------------------------------------------------------------ message rules (C07 "valid under the protocol rules")
BasicOK(m) ==
  /\ (m.ph = "QUALITY" => m.r = 0 /\ m.v # Bot)
  /\ (m.ph = "CONVERGE" => m.r > 0 /\ m.v # Bot)
  /\ (m.ph = "DECIDE" => m.r = 0 /\ m.v # Bot)
JustShapeOK(m) ==
  LET j == m.j IN
  CASE m.ph = "QUALITY" -> j = NoJ
    [] m.ph = "PREPARE" /\ m.r = 0 -> j = NoJ
    [] m.ph = "COMMIT" /\ m.v = Bot -> j = NoJ
    [] m.ph \in {"CONVERGE", "PREPARE"} ->
          /\ j # NoJ
          /\ \/ (j.ph = "COMMIT" /\ j.r = m.r - 1 /\ j.v = Bot)
             \/ (j.ph = "PREPARE" /\ j.r = m.r - 1 /\ j.v = m.v)
    [] m.ph = "COMMIT" -> j # NoJ /\ j.ph = "PREPARE" /\ j.r = m.r /\ j.v = m.v
    [] m.ph = "DECIDE" -> j # NoJ /\ j.ph = "COMMIT" /\ j.v = m.v
    [] OTHER -> FALSE
\* every honest signer of a justification really cast that vote; signers hold a strong quorum, none without power
JustBacked(O, i, j) ==
  j # NoJ =>
    /\ j.S \subseteq P /\ \A s \in j.S : Power[s] > 0
    /\ Strong(SumP(j.S))
    /\ \A s \in j.S \cap H : \E x \in O : x.n = s /\ x.i = i /\ x.r = j.r /\ x.ph = j.ph /\ x.v = j.v

\* ------------------------------------------------------------------ tallies over what was delivered
(* d is the sequence of messages of one instance delivered to a participant.  An honest sender casts one
   vote per slot; a Byzantine sender may have delivered several different ones (or one with a foreign
   base, which is dropped) and the property does not say which of them counts.  Hence two tallies:
   Fixed = votes of senders that delivered exactly one distinct value in the slot (these certainly count),
   Any   = all well-based votes (an equivocator counted with whichever value suits).
   Without equivocation both coincide and the clauses below are exact equalities.                    *)
ForInst(d, i) == SelectSeq(d, LAMBDA m : m.i = i)
Good(m, inp) == m.v = Bot \/ (inp # Bot /\ m.v[1] = inp[1])
Slot(d, r, ph) == {d[k] : k \in {k \in DOMAIN d : d[k].r = r /\ d[k].ph = ph /\ Power[d[k].s] > 0}}
Equiv(S) == {s \in {m.s : m \in S} : Cardinality({m.v : m \in {x \in S : x.s = s}}) > 1}
Fixed(S, inp) == {m \in S : m.s \notin Equiv(S) /\ Good(m, inp)}
AnyVote(S, inp) == {m \in S : Good(m, inp)}
MSup(ms, v) == SumP({m.s : m \in {x \in ms : x.v = v}})
MQSup(ms, c) == SumP({m.s : m \in {x \in ms : x.v # Bot /\ IsPrefix(c, x.v)}})
MLongestQ(ms, inp) ==
  LET g == {n \in 2..Len(inp) : Strong(MQSup(ms, SubSeq(inp, 1, n)))}
  IN IF g = {} THEN <<inp[1]>> ELSE SubSeq(inp, 1, CHOOSE n \in g : \A k \in g : k <= n)
OwnOut(O, n, i, r, ph) == {o \in O : o.n = n /\ o.i = i /\ o.r = r /\ o.ph = ph}

\* ------------------------------------------------------------------ C07 clauses for one new output o of participant n
\* d = deliveries of instance o.i to n including the current event's message, O = all votes emitted so far incl. this event's
C07_OneVotePerSlot(n, o, os) == /\ OwnOut(outs, n, o.i, o.r, o.ph) = {}
                                /\ \A x \in os : (x.i = o.i /\ x.r = o.r /\ x.ph = o.ph) => x = o
C07_EmitsValid(n, o, O, peer) == /\ BasicOK(o) /\ JustShapeOK(o) /\ JustBacked(O, o.i, o.j)
                                 /\ peer \in {"ok", "notrelevant"}
\* round-0 PREPARE = longest input prefix backed by a strong quorum of delivered QUALITY votes
C07_Round0Prepare(n, o, d, inp) ==
  (o.ph = "PREPARE" /\ o.r = 0) =>
     LET q == Slot(d, 0, "QUALITY") IN
     /\ IsPrefix(MLongestQ(Fixed(q, inp), inp), o.v)
     /\ IsPrefix(o.v, MLongestQ(AnyVote(q, inp), inp))
\* later rounds: adopt the best-ticket CONVERGE value whenever it is a prefix of the QUALITY proposal
C07_ConvergeAdopt(n, o, d, O, inp) ==
  (o.ph = "PREPARE" /\ o.r > 0 /\ OwnOut(O, n, o.i, 0, "PREPARE") # {}) =>
     LET q == (CHOOSE x \in OwnOut(O, n, o.i, 0, "PREPARE") : TRUE).v
         all == Slot(d, o.r, "CONVERGE")
         cv == AnyVote(all, inp)
     IN cv # {} =>
        LET best == CHOOSE m \in cv : \A m2 \in cv : Rank(m.s, o.i, o.r) <= Rank(m2.s, o.i, o.r)
        IN (best.s \notin Equiv(all) /\ IsPrefix(best.v, q)) => o.v = best.v
\* never COMMIT bottom while holding a strong PREPARE quorum for the proposal, nor before the timeout unless impossible
C07_CommitDiscipline(n, o, d, O, to, inp) ==
  (o.ph = "COMMIT" /\ o.v = Bot /\ OwnOut(O, n, o.i, o.r, "PREPARE") # {}) =>
     LET pv == (CHOOSE x \in OwnOut(O, n, o.i, o.r, "PREPARE") : TRUE).v
         all == Slot(d, o.r, "PREPARE")
         fx == Fixed(all, inp)
     IN /\ ~Strong(MSup(fx, pv))
        /\ (~to => ~Strong(MSup(fx, pv) + (Total - SumP({m.s : m \in all}))))
\* only votes for a prefix of the own input or for a value with delivered proof of a strong quorum
C07_EvidenceBacked(n, o, d, inp) ==
  (o.v # Bot /\ ~IsPrefix(o.v, inp)) =>
     \/ (o.j # NoJ /\ o.j.v = o.v)
     \/ \E k \in DOMAIN d : d[k].j # NoJ /\ d[k].j.v = o.v
     \/ \E r \in {d[k].r : k \in DOMAIN d}, ph \in {"PREPARE", "COMMIT", "DECIDE"} : Strong(MSup(AnyVote(Slot(d, r, ph), inp), o.v))

\* ------------------------------------------------------------------ decision clauses (C01, C02, C03)
DecClauses(n, i, v, dj, inp) ==
  {<<"C01_Agreement", \A x \in decs : x.i = i => x.v = v>>,
   <<"C02_NonEmpty", v # Bot>>,
   <<"C02_Base", v # Bot /\ inp # Bot /\ v[1] = inp[1]>>,
   <<"C03_DecisionShape", ~dj.none /\ dj.inst = i /\ dj.r = 0 /\ dj.ph = "DECIDE" /\ dj.suppok /\ dj.v = v>>,
   <<"C03_SignersInCommittee", dj.intable /\ Range(dj.S) \subseteq P /\ Len(dj.S) = Cardinality(Range(dj.S))>>,
   <<"C03_SignersNonZeroPower", \A k \in DOMAIN dj.pw : dj.pw[k] > 0>>,
   <<"C03_StrongQuorum", Strong(SumSeq(dj.pw)) /\ \A k \in DOMAIN dj.S : dj.S[k] \in P /\ dj.pw[k] = Power[dj.S[k]]>>,
   <<"C03_AggregateVerifies", dj.verifyok>>,
   <<"C03_CertificateAccepted", dj.certok>>}

\* ------------------------------------------------------------------ end-of-run clauses (C02, C06)
EndClauses(e) ==
  LET parts == Range(e.parts)
      hdec == {x \in decs : x.n \in H}
      bound == IF e.byzdelivered THEN 40 ELSE 6     \* "a bounded number of further rounds": calibrated in DESIGN.md section 6 C06
      gmax == LET rs == {p.gstround : p \in parts} IN CHOOSE x \in rs : \A y \in rs : y <= x
  IN
  {<<"C02_HonestPrefix", \A x \in hdec : \E y \in inputs : y.i = x.i /\ y.n \in H /\ IsPrefix(x.v, y.c)>>,
   <<"C02_UniformDecidesInput", Cfg.uniform => \A x \in hdec : x.v = InputOf(inputs, x.n, x.i)>>,
   <<"C02_UniformAllDecide", Cfg.uniform => (e.reason = "done" /\ \A p \in parts : p.decided = e.insts)>>,
   \* C06: after stabilisation every started honest participant decides within the round bound
   <<"C06_DecidesWithinBound",
      \* "stalled": the driver cut the run because, long after stabilisation, a started live participant had not moved for 150 round lengths.
      \* Moving beyond the round bound is a violation whatever ended the run; being undecided is one unless the step budget of the driver ran out.
      (e.gst > 0 /\ e.gstpassed) =>
         \A p \in parts : (p.started /\ ~p.crashed) =>
            /\ p.maxround <= gmax + bound
            /\ (e.reason # "maxsteps" => (p.decided = e.insts /\ e.reason = "done"))>>,
   <<"Conf_RunBudget", e.reason # "maxsteps" \/ e.gst = 0>>}

\* ------------------------------------------------------------------ the step
Failed(S) == {c[1] : c \in {x \in S : ~x[2]}}

ActStep ==
  /\ Ev.ev \in Acting
  /\ LET n == Ev.n
         i == Ev.inst
         msg == IF Ev.ev = "Receive" THEN ToM(Ev.m) ELSE [i |-> 0]
         \* a message refused by the late-binding checks of receiveOne (foreign base / supplemental data) is not part of what was delivered
         d0 == IF Ev.ev = "Receive" /\ Ev.errclass # "latebinding" THEN Append(dlv[n], msg) ELSE dlv[n]
         I1 == IF Ev.ev = "Start" /\ Ev.input # Bot THEN inputs \cup {[n |-> n, i |-> i, c |-> Ev.input]} ELSE inputs
         os == {[n |-> n, i |-> x.i, r |-> x.r, ph |-> x.ph, v |-> x.v, j |-> x.j] : x \in {ToM(o) : o \in Range(Ev.out)}}
         O == outs \cup os
         outClauses == UNION {
            LET o == [n |-> n, i |-> x.i, r |-> x.r, ph |-> x.ph, v |-> x.v, j |-> x.j]
                inp == InputOf(I1, n, o.i)
                d == ForInst(d0, o.i)
                pk == Ev.peer[CHOOSE k \in DOMAIN Ev.out : ToM(Ev.out[k]) = x]
            IN {<<"C07_OneVotePerSlot", C07_OneVotePerSlot(n, o, os)>>,
                <<"C07_EmitsValid", C07_EmitsValid(n, o, O, pk)>>,
                <<"C07_Round0Prepare", C07_Round0Prepare(n, o, d, inp)>>,
                <<"C07_ConvergeAdopt", C07_ConvergeAdopt(n, o, d, O, inp)>>,
                <<"C07_CommitDiscipline", C07_CommitDiscipline(n, o, d, O, Ev.to, inp)>>,
                <<"C07_EvidenceBacked", C07_EvidenceBacked(n, o, d, inp)>>}
            : x \in {ToM(o) : o \in Range(Ev.out)}}
         np == <<Ev.inst, Ev.round, PhaseRank(Ev.phase)>>
         mono == \/ np[1] > prog[n][1]
                 \/ (np[1] = prog[n][1] /\ np[2] > prog[n][2])
                 \/ (np[1] = prog[n][1] /\ np[2] = prog[n][2] /\ np[3] >= prog[n][3])
                 \/ Ev.phase = "TERMINATED"   \* a decision may be reported from any round (DECIDE uses round 0)
         stepClauses == {<<"C07_ProgressMonotone", mono>>,
                         \* the late-binding refusals (foreign base / supplemental data) are the only errors a message delivery may return;
                         \* delivering a timer (start of the instance included: queued messages are drained there) returns none
                         <<"C07_NoInternalError", IF Ev.ev = "Receive" THEN Ev.errclass \in {"", "latebinding"} ELSE Ev.errclass = "">>}
         decClauses == IF Ev.dec # Bot THEN DecClauses(n, i, Ev.dec, Ev.decj, InputOf(I1, n, i)) ELSE {}
         nb == Failed(outClauses \cup stepClauses \cup decClauses)
     IN /\ dlv' = [dlv EXCEPT ![n] = d0]
        /\ outs' = O
        /\ inputs' = I1
        /\ prog' = [prog EXCEPT ![n] = IF Ev.phase = "TERMINATED" THEN <<Ev.inst, 0, 6>> ELSE np]
        /\ decs' = IF Ev.dec # Bot THEN decs \cup {[n |-> n, i |-> i, v |-> Ev.dec]} ELSE decs
        /\ bad' = bad \cup {<<l, c>> : c \in nb}
        /\ (nb = {} \/ Cardinality(bad) > 2000 \/ PrintT(<<"VERIF_BAD", l, nb>>))
        /\ UNCHANGED adv

RejStep ==
  /\ Ev.ev = "Rejected"
  /\ LET nb == IF Ev.byz THEN (IF adv = "script" \/ Ev.bad THEN {} ELSE {"Conf_ByzMessageRejected"}) ELSE {"C07_EmitsValid"}
     IN /\ bad' = bad \cup {<<l, c>> : c \in nb}
        /\ (nb = {} \/ Cardinality(bad) > 2000 \/ PrintT(<<"VERIF_BAD", l, nb>>))
  /\ UNCHANGED <<dlv, outs, inputs, prog, decs, adv>>

OtherStep == Ev.ev \in {"CrashStop"} /\ UNCHANGED <<dlv, outs, inputs, prog, decs, adv, bad>>
\* a new run with the same configuration starts: forget the previous run's history
ResetStep == Ev.ev = "Reset" /\ dlv' = [p \in H |-> << >>] /\ outs' = {} /\ inputs' = {} /\ prog' = [p \in H |-> <<0, 0, 0>>] /\ decs' = {}
             /\ adv' = Ev.adversary /\ UNCHANGED bad

EndStep ==
  /\ Ev.ev = "End"
  /\ LET nb == Failed(EndClauses(Ev))
     IN /\ bad' = bad \cup {<<l, c>> : c \in nb}
        /\ (nb = {} \/ PrintT(<<"VERIF_BAD", l, nb>>))
  /\ UNCHANGED <<dlv, outs, inputs, prog, decs, adv>>

Next == l <= Len(TraceLog) /\ l' = l + 1 /\ (ActStep \/ RejStep \/ OtherStep \/ EndStep \/ ResetStep)
Spec == Init /\ [][Next]_ovars
=============================================================================

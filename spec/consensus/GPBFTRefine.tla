---------------------------- MODULE GPBFTRefine ----------------------------
(* Refinement link between the two consensus models: every step of the implementation-shaped per-message model
   (GPBFT.tla, with the next-state relation of MCGPBFT.tla) is a step -- or a stuttering step -- of the quorum-view
   abstraction GPBFTQuorum.tla under the forgetful mapping (control state of every participant, honest votes without
   justifications; received sets, stored justifications, time-outs, the queue are forgotten).  This is what transfers
   the exhaustive Agreement/Validity results of the abstraction to the model the real participants are
   trace-validated against.  Checked by TLC as an action property on random walks of the per-message model
   (simulation) and on its bounded BFS.                                                                            *)
EXTENDS MCGPBFT

\* ---- the concrete model with ReceiveMessage split into its two halves -------------------------------------------------------------
\* One ReceiveMessage call of the code = receiveOne (tally update + one tryCurrentPhase) followed by postReceive (skip to a later round).
\* When both halves move, the call performs TWO moves of the abstraction (e.g. PREPARE exit by a carried justification, then the round skip).
\* TLC has no action composition, so for the refinement check the call is split into two consecutive sub-steps RReceive ; RSkip (nothing
\* else may happen in between): the split model has exactly the behaviours of the atomic one, with the intermediate state made visible.
VARIABLE pend                 \* << >> or <<p, r>>: postReceive(r) of participant p is still to run
rvars == <<mvars, pend>>
ReceiveNoSkip(p, m, to) ==
  /\ m.i = inst[p] /\ Relevant(p, Strip(m))
  /\ LET st0 == [R |-> rcv[p], J |-> justs[p], s |-> [LS(p) EXCEPT !.timedOut = @ \/ to], k |-> inst[p]] IN
     \E st1 \in Absorb(p, st0, Strip(m), input[p]) :
        /\ Install(p, st1)
        /\ pend' = IF st1 = st0 THEN << >> ELSE <<p, m.r>>
  /\ UNCHANGED <<inst, queue, input>>
RReceive(p) == /\ phase[p] \notin {"INITIAL", "TERMINATED"}
               /\ \E m \in NetI : \E to \in ToSet(p) :
                    /\ ReceiveNoSkip(p, m, to)
                    /\ vars' # vars
                    /\ Rec("Receive", p, to, MJ(m))
RSkip == /\ pend # << >>
         /\ LET p == pend[1]
                r == pend[2] IN
            \E s2 \in SkipTo([p |-> p, k |-> inst[p], R |-> rcv[p], J |-> justs[p], inp |-> input[p]], LS(p), r) : Commit(p, s2)
         /\ pend' = << >>
         /\ UNCHANGED <<rcv, justs, inst, queue, input, hist>>
RNext == IF pend # << >> THEN RSkip
         ELSE \E p \in H : (MStart(p) /\ pend' = << >>) \/ RReceive(p) \/ (MAlarm(p) /\ pend' = << >>)
RSpec == MInit /\ pend = << >> /\ [][RNext]_rvars

AbsSt == [p \in H |->
            IF phase[p] = "INITIAL"
            THEN [phase |-> "INITIAL", round |-> 0, prop |-> Input[p], val |-> Bot, cands |-> {Base(Input[p])}, dec |-> Bot]
            ELSE [phase |-> phase[p], round |-> round[p], prop |-> proposal[p], val |-> value[p], cands |-> cands[p], dec |-> decided[p]]]
AbsVotes == {[s |-> m.s, r |-> m.r, ph |-> m.ph, v |-> m.v] : m \in sent}
RankA == [p \in P |-> [r \in 0..(MaxRound + 3) |-> Rank[p][0][r]]]
\* honest participants of the per-message model are not bounded by MaxRound (only the adversary's messages are): the abstract model gets room
Abs == INSTANCE GPBFTQuorum WITH st <- AbsSt, votes <- AbsVotes, Rank <- RankA, MaxRound <- MaxRound + 3
absvars == <<AbsSt, AbsVotes>>
\* one concrete step = at most two abstract moves (e.g. a phase exit followed by a round skip in the same ReceiveMessage,
\* or skipToDecide immediately followed by termination)
Refines == [][Abs!Next \/ (Abs!Next \cdot Abs!Next)]_absvars
Refines1 == [][Abs!Next]_absvars
RefinesBad == [][Abs!Start(1)]_absvars     \* deliberately false: shows that TLC does check the action property in simulation mode
=============================================================================

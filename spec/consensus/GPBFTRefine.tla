---------------------------- MODULE GPBFTRefine ----------------------------
(* Refinement link between the two consensus models: every step of the implementation-shaped per-message model
   (GPBFT.tla, with the next-state relation of MCGPBFT.tla) is a step -- or a stuttering step -- of the quorum-view
   abstraction GPBFTQuorum.tla under the forgetful mapping (control state of every participant, honest votes without
   justifications; received sets, stored justifications, time-outs, the queue are forgotten).  This is what transfers
   the exhaustive Agreement/Validity results of the abstraction to the model the real participants are
   trace-validated against.  Checked by TLC as an action property on random walks of the per-message model
   (simulation) and on its bounded BFS.                                                                            *)
EXTENDS MCGPBFT

AbsSt == [p \in H |->
            IF phase[p] = "INITIAL"
            THEN [phase |-> "INITIAL", round |-> 0, prop |-> Input[p], val |-> Bot, cands |-> {Base(Input[p])}, dec |-> Bot]
            ELSE [phase |-> phase[p], round |-> round[p], prop |-> proposal[p], val |-> value[p], cands |-> cands[p], dec |-> decided[p]]]
AbsVotes == {[s |-> m.s, r |-> m.r, ph |-> m.ph, v |-> m.v] : m \in sent}
RankA == [p \in P |-> [r \in 0..(MaxRound + 3) |-> Rank[p][0][r]]]
\* honest participants of the per-message model are not bounded by MaxRound (only the adversary's messages are): the abstract model gets room
Abs == INSTANCE GPBFTQuorum WITH st <- AbsSt, votes <- AbsVotes, Rank <- RankA, MaxRound <- MaxRound + 3
absvars == <<AbsSt, AbsVotes>>
\* one concrete step = at most two abstract moves (e.g. a phase exit followed by a round skip in the same ReceiveMessage,
\* or skipToDecide immediately followed by termination)
Refines == [][Abs!Next \/ (Abs!Next \cdot Abs!Next)]_absvars
Refines1 == [][Abs!Next]_absvars
RefinesBad == [][Abs!Start(1)]_absvars     \* deliberately false: shows that TLC does check the action property in simulation mode
=============================================================================

SPECIFICATION Spec
CONSTANTS
  MaxW = 30
  MaxW3 = 64
  UseMutant = TRUE
INVARIANT Lemmas
CHECK_DEADLOCK FALSE

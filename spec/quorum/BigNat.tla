------------------------------- MODULE BigNat -------------------------------
(* Naturals of arbitrary size as little-endian sequences of limbs base 2^12, because TLC's integers
   are 32-bit.  The only operation the C08 row checks need is the sign of  ka*a - kb*b  for small
   factors ka, kb <= 65536 (and of sum(xs) - t).  It is computed limb-wise without normalisation:
     d[j] = ka*a[j] - kb*b[j]            (|d[j]| < 2^28)
     sign(sum_j d[j]*B^(j-1)) is obtained by a fold from the most significant limb,
        acc := Clamp(acc)*B + d[j],  Clamp to [-K, K] with K = 2^17:
   the not-yet-visited tail is below 2^28/B * (1 + 1/B + ...) < K/2 units of the current position, so
   once |acc| >= K the sign is decided and clamping preserves it; K*B + 2^28 < 2^31 never overflows.
   FoldRight has a Java implementation in the CommunityModules (no TLA+ recursion).
   MCPowerScale checks these operators against native integer arithmetic.                        *)
EXTENDS Integers, Sequences, SequencesExt
B == 4096
K == 131072

Limb(n, i) == IF i <= Len(n) THEN n[i] ELSE 0
MaxLen(a, b) == IF Len(a) >= Len(b) THEN Len(a) ELSE Len(b)
Clamp(x) == IF x > K THEN K ELSE IF x < 0 - K THEN 0 - K ELSE x
\* sign (as some integer of that sign) of the number whose unnormalised little-endian digits are d
SignOf(d) == FoldRight(LAMBDA x, acc : Clamp(acc) * B + x, d, 0)

\* sign of ka*a - kb*b
Diff(a, ka, b, kb) == SignOf([j \in 1..MaxLen(a, b) |-> ka * Limb(a, j) - kb * Limb(b, j)])
LeqK(a, ka, b, kb) == Diff(a, ka, b, kb) <= 0      \* ka*a <= kb*b
LessK(a, ka, b, kb) == Diff(a, ka, b, kb) < 0      \* ka*a <  kb*b
Leq(a, b) == LeqK(a, 1, b, 1)
Less(a, b) == LessK(a, 1, b, 1)

\* sum of the naturals xs[1..n] (n <= 500) equals t
MaxLenOf(xs) == FoldLeft(LAMBDA acc, x : IF Len(x) > acc THEN Len(x) ELSE acc, 0, xs)
SumIs(xs, t) == LET m == IF MaxLenOf(xs) > Len(t) THEN MaxLenOf(xs) ELSE Len(t)
                IN SignOf([j \in 1..m |-> FoldLeft(LAMBDA acc, x : acc + Limb(x, j), 0, xs) - Limb(t, j)]) = 0

IsZero(a) == \A i \in 1..Len(a) : a[i] = 0
WellFormed(a) == \A i \in 1..Len(a) : a[i] \in 0..(B - 1)

RECURSIVE FromInt(_)
FromInt(n) == IF n = 0 THEN <<>> ELSE <<n % B>> \o FromInt(n \div B)
=============================================================================

------------------------------- MODULE BigNat -------------------------------
(* Naturals of arbitrary size as little-endian sequences of limbs base 2^14, because TLC's
   integers are 32-bit.  Only what the C08 row checks need: addition, multiplication by a small
   factor (<= 65536), comparison.  With B = 2^14 every intermediate value is below 2^31:
   16383 * 65536 + 65536 < 2^31.  MCPowerScale checks these operators against native integers. *)
EXTENDS Integers, Sequences
B == 16384

Limb(n, i) == IF i <= Len(n) THEN n[i] ELSE 0
MaxLen(a, b) == IF Len(a) >= Len(b) THEN Len(a) ELSE Len(b)

RECURSIVE CarrySeq(_)
CarrySeq(c) == IF c = 0 THEN <<>> ELSE <<c % B>> \o CarrySeq(c \div B)

RECURSIVE MulFrom(_, _, _, _)
MulFrom(n, k, i, carry) ==
  IF i > Len(n) THEN CarrySeq(carry)
  ELSE LET v == n[i] * k + carry IN <<v % B>> \o MulFrom(n, k, i + 1, v \div B)
MulSmall(n, k) == MulFrom(n, k, 1, 0)          \* 0 <= k <= 65536

RECURSIVE AddFrom(_, _, _, _)
AddFrom(a, b, i, carry) ==
  IF i > MaxLen(a, b) THEN CarrySeq(carry)
  ELSE LET v == Limb(a, i) + Limb(b, i) + carry IN <<v % B>> \o AddFrom(a, b, i + 1, v \div B)
Add(a, b) == AddFrom(a, b, 1, 0)

\* -1, 0, 1 ; leading zero limbs are harmless
RECURSIVE CmpFrom(_, _, _)
CmpFrom(a, b, i) ==
  IF i = 0 THEN 0
  ELSE IF Limb(a, i) < Limb(b, i) THEN -1
  ELSE IF Limb(a, i) > Limb(b, i) THEN 1
  ELSE CmpFrom(a, b, i - 1)
Cmp(a, b) == CmpFrom(a, b, MaxLen(a, b))
Leq(a, b) == Cmp(a, b) <= 0
Less(a, b) == Cmp(a, b) < 0
IsZero(a) == \A i \in 1..Len(a) : a[i] = 0
WellFormed(a) == \A i \in 1..Len(a) : a[i] \in 0..(B - 1)

RECURSIVE SumSeq(_, _)
SumSeq(s, i) == IF i > Len(s) THEN <<>> ELSE Add(s[i], SumSeq(s, i + 1))

RECURSIVE FromInt(_)
FromInt(n) == IF n = 0 THEN <<>> ELSE <<n % B>> \o FromInt(n \div B)
=============================================================================

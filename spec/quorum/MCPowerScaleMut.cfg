SPECIFICATION Spec
CONSTANTS
  N = 3
  Powers = {1, 2, 3, 7, 100, 4099, 16384, 32767}
  UseCeil = TRUE
INVARIANT FactsInv
CHECK_DEADLOCK FALSE

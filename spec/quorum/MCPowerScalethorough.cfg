SPECIFICATION Spec
CONSTANTS
  N = 4
  Powers = {1, 2, 3, 5, 7, 8, 100, 4099, 16384, 32767}
  UseCeil = FALSE
INVARIANT Inv
CHECK_DEADLOCK FALSE

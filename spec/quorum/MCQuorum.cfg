SPECIFICATION Spec
CONSTANTS
  MaxW = 200
  MaxW3 = 48
  UseMutant = FALSE
INVARIANT Lemmas
CHECK_DEADLOCK FALSE

SPECIFICATION Spec
CONSTANTS
  MaxW = 120
  MaxW3 = 40
  UseMutant = FALSE
INVARIANT Lemmas
CHECK_DEADLOCK FALSE

---------------------------- MODULE MCPowerScale ----------------------------
(* Design check of PowerScale.tla: for every table of N members with powers in Powers (one state
   per table) the scaled vector is order preserving, every component is <= 65535, the sum is <= 65535;
   and the limb arithmetic of BigNat agrees with native arithmetic (so the row checks that use limbs
   are checking the same function).  UseCeil = TRUE is the named deviation (rounding up) that must be refuted. *)
EXTENDS PowerScale, TLC
CONSTANTS N, Powers, UseCeil
VARIABLES ps, c

\* root -> 16 chunk states -> one state per table (spreads the tables over the workers)
AllTables == UNION {[1..n -> Powers] : n \in 1..N}
Init == ps = <<>> /\ c = -1
Next == \/ (c = -1 /\ c' \in 0..15 /\ ps' = ps)
        \/ (c >= 0 /\ ps = <<>> /\ ps' \in {t \in AllTables : (SumInts(t, 1) + Len(t)) % 16 = c} /\ c' = c)
Spec == Init /\ [][Next]_<<ps, c>>

T == SumInts(ps, 1)
Sc == IF UseCeil THEN [i \in 1..Len(ps) |-> ((ps[i] * MaxScaled) + T - 1) \div T] ELSE ScaledOf(ps)
Facts == /\ OrderPreserving(ps, Sc) /\ Bounded(Sc) /\ SumBounded(Sc)
         /\ \A i \in 1..Len(ps) : (ps[i] = T) <=> (Sc[i] = MaxScaled)     \* only a sole member reaches the maximum
LimbsAgree == /\ SumIs([i \in 1..Len(ps) |-> FromInt(ps[i])], FromInt(T)) /\ ~SumIs([i \in 1..Len(ps) |-> FromInt(ps[i])], FromInt(T + 1))
              /\ \A i \in 1..Len(ps) : /\ IsFloorScale(FromInt(ps[i]), FromInt(T), Scale(ps[i], T))
                                       /\ Scale(ps[i], T) > 0 => ~IsFloorScale(FromInt(ps[i]), FromInt(T), Scale(ps[i], T) - 1)
                                       /\ ~IsFloorScale(FromInt(ps[i]), FromInt(T), Scale(ps[i], T) + 1)
                                       /\ Diff(FromInt(ps[i]), 65536, FromInt(ps[i] * 8), 8192) = 0
              /\ \A i, j \in 1..Len(ps) : Leq(FromInt(ps[i]), FromInt(ps[j])) <=> ps[i] <= ps[j]
FactsInv == ps # <<>> => Facts
Inv == ps # <<>> => (Facts /\ LimbsAgree)
=============================================================================

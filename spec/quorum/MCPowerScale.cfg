SPECIFICATION Spec
CONSTANTS
  N = 3
  Powers = {1, 2, 3, 7, 100, 4099, 16384, 32767}
  UseCeil = FALSE
INVARIANT Inv
CHECK_DEADLOCK FALSE

----------------------------- MODULE QuorumTrace -----------------------------
(* Row-table validation for property C08.  Every line of the NDJSON file is one row recorded by
   harness/drivers/quorum from the REAL code (input + what the code returned); each step consumes one
   line, recomputes the expected value with the operators of Quorum.tla / PowerScale.tla and the clauses
   below compare.  C08_* are clauses of the property text (failure = VIOLATION), Conf_* say "the code
   still computes exactly the transcribed function" where the property is silent (failure = drift).   *)
EXTENDS Quorum, PowerScale, Json, TLCExt, TLC
CONSTANT TraceFile
VARIABLES l, bad

TraceLog == ndJsonDeserialize(TraceFile)
\* the row consumed by the step that leaves state l (clauses are evaluated on it, unprimed)
row == TraceLog[l]
TInit == l = 1 /\ bad = {}
TNext == l <= Len(TraceLog) /\ l' = l + 1

\* ---------------------------------------------------------------- threshold rows
\* A predicate over parts 0..w was compressed by the driver to (least part where it holds or w+1,
\* number of parts where it holds).  It equals the spec predicate P on all of 0..w iff
\*   P(min) /\ ~P(min-1) /\ cnt = w+1-min     (P is an up-set: StrongMono/WeakMono, checked by TLAPS and TLC)
UpSet(w, min, cnt) == min \in 0..(w + 1) /\ cnt = w + 1 - min
AtThreshold(P(_), w, min) == (min <= w => P(min)) /\ (min > 0 => ~P(min - 1))

IsThr == row.k = "thr"
\* "a set counts as a strong quorum exactly when it holds at least two thirds of the total"
C08_StrongExact == IsThr => /\ UpSet(row.w, row.sMin, row.sCnt)
                            /\ AtThreshold(LAMBDA p : 3 * p >= 2 * row.w, row.w, row.sMin)
\* "anything counted as a weak quorum strictly exceeds one third" (sMin is the least part counted)
C08_WeakStrict == IsThr => (row.wMin <= row.w => 3 * row.wMin > row.w) /\ row.wMin >= 0
Conf_WeakExact == IsThr => UpSet(row.w, row.wMin, row.wCnt) /\ AtThreshold(LAMBDA p : Weak(p, row.w), row.w, row.wMin)
\* "a value reported as unable to reach a strong quorum indeed cannot reach one": everything the code
\* reports unreachable (parts below min, and nothing else: up-set) is unreachable in the spec, whose
\* verdict is sound by CouldReachSound / CouldReachSoundAdv.
\*   family a: support = u, senders = w ;  family b: support = 0, senders = w - u
CRa(u, adv) == CouldReach(u, row.w, row.w, adv)
CRb(u, adv) == CouldReach(0, row.w - u, row.w, adv)
Sound(P(_), w, min, cnt) == UpSet(w, min, cnt) /\ (min > 0 => ~P(min - 1))
C08_CouldReachSound == (IsThr /\ row.cr) =>
    /\ Sound(LAMBDA u : CRa(u, FALSE), row.w, row.a0Min, row.a0Cnt)
    /\ Sound(LAMBDA u : CRa(u, TRUE), row.w, row.a1Min, row.a1Cnt)
    /\ Sound(LAMBDA u : CRb(u, FALSE), row.w, row.b0Min, row.b0Cnt)
    /\ Sound(LAMBDA u : CRb(u, TRUE), row.w, row.b1Min, row.b1Cnt)
Conf_CouldReachExact == (IsThr /\ row.cr) =>
    /\ (row.a0Min <= row.w => CRa(row.a0Min, FALSE)) /\ (row.a1Min <= row.w => CRa(row.a1Min, TRUE))
    /\ (row.b0Min <= row.w => CRb(row.b0Min, FALSE)) /\ (row.b1Min <= row.w => CRb(row.b1Min, TRUE))

\* ---------------------------------------------------------------- single tallies
IsCR == row.k = "cr"
C08_CouldReachSoundRow == IsCR =>
    /\ (~row.r0 => ~Strong(row.s + (row.w - row.v), row.w))
    /\ (~row.r1 => ~Strong(Min2(row.s + (row.w - row.v) + (row.w \div 3), row.w), row.w))
Conf_CouldReachRow == IsCR => /\ row.r0 = CouldReach(row.s, row.v, row.w, FALSE)
                              /\ row.r1 = CouldReach(row.s, row.v, row.w, TRUE)

\* ---------------------------------------------------------------- large int64 operands (limbs)
IsBig == row.k = "big"
C08_BigStrongExact == IsBig => (row.strong <=> LeqK(row.whole, 2, row.part, 3))
C08_BigWeakStrict == IsBig => (row.weak => LessK(row.whole, 1, row.part, 3))
\* Weak(p, w) <=> 3p > w + 2  (WeakLinear, proved; L_WeakLinear in MCQuorum); whole2 = whole + 2 as logged
Conf_BigWeakExact == IsBig => /\ SumIs(<<row.whole, <<2>>>>, row.whole2)
                              /\ (row.weak <=> LessK(row.whole2, 1, row.part, 3))

\* ---------------------------------------------------------------- the same threshold everywhere
IsUse == row.k = "use"
C08_SitesAgree == IsUse => (row.ok <=> 3 * row.part >= 2 * row.whole)
IsTally == row.k = "tally"
Sum(seq) == FoldLeft(LAMBDA acc, x : acc + x, 0, seq)
TallyStrong(ts, tv, w) == /\ (row.strongFor <=> 3 * ts >= 2 * w) /\ (row.fromStrong <=> 3 * tv >= 2 * w)
C08_TallyStrong == IsTally => LET ts == Sum(row.pw) IN TallyStrong(ts, ts + Sum(row.po), row.w)
C08_TallyWeakStrict == IsTally => (row.fromWeak => 3 * (Sum(row.pw) + Sum(row.po)) > row.w)
TallySound(ts, to, tv, w) ==
    /\ (~row.cr0 => ~Strong(ts + (w - tv), w))
    /\ (~row.cr1 => ~Strong(Min2(ts + (w - tv) + (w \div 3), w), w))
    /\ (~row.ocr0 => ~Strong(to + (w - tv), w))
    /\ (~row.ocr1 => ~Strong(Min2(to + (w - tv) + (w \div 3), w), w))
C08_TallyCouldReachSound == IsTally => LET ts == Sum(row.pw) to == Sum(row.po) IN TallySound(ts, to, ts + to, row.w)
TallyConf(ts, to, tv, w) ==
    /\ row.fromWeak = Weak(tv, w)
    /\ row.cr0 = CouldReach(ts, tv, w, FALSE) /\ row.cr1 = CouldReach(ts, tv, w, TRUE)
    /\ row.ocr0 = CouldReach(to, tv, w, FALSE) /\ row.ocr1 = CouldReach(to, tv, w, TRUE)
Conf_Tally == IsTally => LET ts == Sum(row.pw) to == Sum(row.po) IN TallyConf(ts, to, ts + to, row.w)

\* ---------------------------------------------------------------- scaling rows
IsScale == row.k = "scale"
ScOK == IsScale /\ row.ok
AllPositive == \A i \in 1..Len(row.p) : ~IsZero(row.p[i])
\* "order-preserving, individually at most 65,535 and sum to at most 65,535"
\* row.ord = the member indices sorted by ascending power, as logged; verified here, then order
\* preservation is checked on neighbours (equal powers => equal scaled powers)
OrdIsSorted == /\ Len(row.ord) = Len(row.p) /\ {row.ord[i] : i \in 1..Len(row.ord)} = 1..Len(row.p)
               /\ \A i \in 1..(Len(row.ord) - 1) : Leq(row.p[row.ord[i]], row.p[row.ord[i + 1]])
C08_ScaleOrder == ScOK => /\ Len(row.scaled) = Len(row.p)
                          /\ \A i \in 1..(Len(row.ord) - 1) :
                                /\ row.scaled[row.ord[i]] <= row.scaled[row.ord[i + 1]]
                                /\ (row.p[row.ord[i]] = row.p[row.ord[i + 1]] => row.scaled[row.ord[i]] = row.scaled[row.ord[i + 1]])
Conf_ScaleOrdLogged == ScOK => OrdIsSorted
C08_ScaleBound == ScOK => Bounded(row.scaled)
C08_ScaleSum == ScOK => LET t == Sum(row.scaled) IN t <= MaxScaled /\ row.total = t
\* row.t = total unscaled power as logged; checked to be the sum of the powers
Conf_ScaleFloor == ScOK => /\ SumIs(row.p, row.t)
                           /\ \A i \in 1..Len(row.p) : IsFloorScale(row.p[i], row.t, row.scaled[i])
Conf_ScaleAccepts == IsScale => (row.ok <=> AllPositive) /\ row.valid

\* clauses that apply to a row kind (only those are evaluated: 65k-row tables)
ClausesFor(k) ==
  CASE k = "thr" -> {"C08_StrongExact", "C08_WeakStrict", "Conf_WeakExact", "C08_CouldReachSound", "Conf_CouldReachExact"}
    [] k = "cr" -> {"C08_CouldReachSoundRow", "Conf_CouldReachRow"}
    [] k = "big" -> {"C08_BigStrongExact", "C08_BigWeakStrict", "Conf_BigWeakExact"}
    [] k = "use" -> {"C08_SitesAgree"}
    [] k = "tally" -> {"C08_TallyStrong", "C08_TallyWeakStrict", "C08_TallyCouldReachSound", "Conf_Tally"}
    [] k = "scale" -> {"C08_ScaleOrder", "C08_ScaleBound", "C08_ScaleSum", "Conf_ScaleFloor", "Conf_ScaleAccepts", "Conf_ScaleOrdLogged"}
    [] OTHER -> {}
Holds(c) == CASE c = "C08_StrongExact" -> C08_StrongExact [] c = "C08_WeakStrict" -> C08_WeakStrict
              [] c = "Conf_WeakExact" -> Conf_WeakExact [] c = "C08_CouldReachSound" -> C08_CouldReachSound
              [] c = "Conf_CouldReachExact" -> Conf_CouldReachExact [] c = "C08_CouldReachSoundRow" -> C08_CouldReachSoundRow
              [] c = "Conf_CouldReachRow" -> Conf_CouldReachRow [] c = "C08_BigStrongExact" -> C08_BigStrongExact
              [] c = "C08_BigWeakStrict" -> C08_BigWeakStrict [] c = "Conf_BigWeakExact" -> Conf_BigWeakExact
              [] c = "C08_SitesAgree" -> C08_SitesAgree [] c = "C08_TallyStrong" -> C08_TallyStrong
              [] c = "C08_TallyWeakStrict" -> C08_TallyWeakStrict [] c = "C08_TallyCouldReachSound" -> C08_TallyCouldReachSound
              [] c = "Conf_Tally" -> Conf_Tally [] c = "C08_ScaleOrder" -> C08_ScaleOrder [] c = "C08_ScaleBound" -> C08_ScaleBound
              [] c = "C08_ScaleSum" -> C08_ScaleSum [] c = "Conf_ScaleFloor" -> Conf_ScaleFloor
              [] c = "Conf_ScaleAccepts" -> Conf_ScaleAccepts [] c = "Conf_ScaleOrdLogged" -> Conf_ScaleOrdLogged
TStep == /\ TNext
         /\ LET nb == {c \in ClausesFor(row.k) : ~Holds(c)} IN
              /\ bad' = bad \cup {<<l, c>> : c \in nb}
              /\ (nb = {} \/ Cardinality(bad) > 2000 \/ PrintT(<<"VERIF_BAD", l, nb>>))
TSpec == TInit /\ [][TStep]_<<l, bad>>
=============================================================================

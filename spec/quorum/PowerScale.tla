----------------------------- MODULE PowerScale -----------------------------
(* Power scaling of go-f3 (gpbft/powertable.go scalePower, PowerEntries.Scaled, PowerTable.rescale):
     scaled_i = floor(power_i * 0xffff / total),  total = sum of all powers,  ScaledTotal = sum of scaled_i
   and the scaling facts of property C08.  Powers are big integers in the code; here they are either
   native integers (design check, MCPowerScale) or limb sequences (rows recorded from the code).    *)
EXTENDS BigNat, FiniteSets
MaxScaled == 65535

\* native: p <= t, p * 65535 < 2^31 needs p <= 32767
Scale(p, t) == (p * MaxScaled) \div t

RECURSIVE SumInts(_, _)
SumInts(s, i) == IF i > Len(s) THEN 0 ELSE s[i] + SumInts(s, i + 1)
ScaledOf(ps) == [i \in 1..Len(ps) |-> Scale(ps[i], SumInts(ps, 1))]

\* the facts of the property, over a table of native powers ps and a vector sc of scaled powers
OrderPreserving(ps, sc) == \A i, j \in 1..Len(ps) : (ps[i] <= ps[j]) => (sc[i] <= sc[j])
Bounded(sc) == \A i \in 1..Len(sc) : sc[i] >= 0 /\ sc[i] <= MaxScaled
SumBounded(sc) == SumInts(sc, 1) <= MaxScaled

\* the same over limb-encoded powers
OrderPreservingBig(ps, sc) == \A i, j \in 1..Len(ps) : Leq(ps[i], ps[j]) => (sc[i] <= sc[j])
\* s = floor(p * 65535 / t)  <=>  s * t <= 65535 * p < (s + 1) * t
IsFloorScale(p, t, s) == /\ s >= 0 /\ s <= MaxScaled
                         /\ LeqK(t, s, p, MaxScaled)
                         /\ LessK(p, MaxScaled, t, s + 1)
=============================================================================

SPECIFICATION Spec
CONSTANTS
  MaxW = 600
  MaxW3 = 110
  UseMutant = FALSE
INVARIANT Lemmas
CHECK_DEADLOCK FALSE

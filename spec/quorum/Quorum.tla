------------------------------ MODULE Quorum ------------------------------
(* Quorum arithmetic of go-f3, transcribed from gpbft/gpbft.go:
     divCeil / IsStrongQuorum / hasWeakQuorum                  (gpbft.go:1479-1498)
     quorumState.CouldReachStrongQuorumFor                     (gpbft.go:1182-1200)
   and the lemmas of property C08.  The lemmas are proved for all naturals with TLAPS
   (`tlapm Quorum.tla`) and re-checked exhaustively by TLC for whole <= MaxW (MCQuorum). *)
EXTENDS Integers, TLAPS

\* func divCeil(a, b int64) int64 { quo := a / b; rem := a % b; if rem != 0 { quo += 1 }; return quo }
\* (a, b >= 0 here, so Go's truncated division coincides with \div and %)
DivCeil(a, b) == IF a % b = 0 THEN a \div b ELSE (a \div b) + 1

\* func IsStrongQuorum(part, whole int64) bool { return part >= divCeil(2*whole, 3) }
Strong(p, w) == p >= DivCeil(2 * w, 3)

\* func hasWeakQuorum(part, whole int64) bool { return part > divCeil(whole, 3) }
Weak(p, w) == p > DivCeil(w, 3)

Min2(a, b) == IF a <= b THEN a ELSE b

\* CouldReachStrongQuorumFor: support = power already voting for the value, senders = power of
\* everybody who voted (for anything), w = ScaledTotal, adv = withAdversary.
Possible(support, senders, w, adv) ==
  Min2(support + (w - senders) + (IF adv THEN w \div 3 ELSE 0), w)
CouldReach(support, senders, w, adv) == Strong(Possible(support, senders, w, adv), w)

\* ------------------------------------------------------------------ lemmas of C08
\* "a set counts as a strong quorum exactly when it holds at least two thirds of the total"
THEOREM StrongIff == \A p, w \in Nat : Strong(p, w) <=> 3 * p >= 2 * w
  BY DEF Strong, DivCeil

\* "any two strong quorums overlap in at least one third of the total"
THEOREM Intersect == \A a, b, w \in Nat :
          (a <= w /\ b <= w /\ Strong(a, w) /\ Strong(b, w)) => 3 * (a + b - w) >= w
  BY StrongIff

\* "anything counted as a weak quorum strictly exceeds one third"
THEOREM WeakStrict == \A p, w \in Nat : Weak(p, w) => 3 * p > w
  BY DEF Weak, DivCeil

\* the weak-quorum test in linear form (used for the large-operand rows)
THEOREM WeakLinear == \A p, w \in Nat : Weak(p, w) <=> 3 * p > w + 2
  BY DEF Weak, DivCeil

\* a weak quorum cannot be contained in the complement of a strong quorum's... : if a weak quorum
\* voted, whatever disjoint set remains is not a strong quorum
THEOREM WeakBlocksStrong == \A a, b, w \in Nat : (Weak(a, w) /\ a + b <= w) => ~Strong(b, w)
  BY StrongIff, WeakStrict

\* up-sets: the predicates are monotone in the part (used by the threshold compression)
THEOREM StrongMono == \A p, q, w \in Nat : (p <= q /\ Strong(p, w)) => Strong(q, w)
  BY StrongIff
THEOREM WeakMono == \A p, q, w \in Nat : (p <= q /\ Weak(p, w)) => Weak(q, w)
  BY DEF Weak, DivCeil

\* "a value reported as unable to reach a strong quorum indeed cannot reach one given the votes
\* already cast": the support can grow by at most the power that has not voted yet (x <= w - senders)
THEOREM CouldReachSound == \A s, v, w, x \in Nat :
          (s <= v /\ v <= w /\ x <= w - v /\ ~CouldReach(s, v, w, FALSE)) => ~Strong(s + x, w)
  BY StrongIff DEF CouldReach, Possible, Min2

\* with an equivocating adversary of at most a third: another participant may see x <= w - senders
\* fresh votes plus y <= w \div 3 double votes
THEOREM CouldReachSoundAdv == \A s, v, w, x, y \in Nat :
          (s <= v /\ v <= w /\ x <= w - v /\ y <= w \div 3 /\ ~CouldReach(s, v, w, TRUE))
             => ~Strong(Min2(s + x + y, w), w)
  BY StrongIff DEF CouldReach, Possible, Min2

\* the slack only ever makes the answer more permissive
THEOREM CouldReachAdvWeaker == \A s, v, w \in Nat :
          (s <= v /\ v <= w /\ CouldReach(s, v, w, FALSE)) => CouldReach(s, v, w, TRUE)
  BY StrongIff DEF CouldReach, Possible, Min2

\* a strong quorum already reached is always reported reachable
THEOREM StrongImpliesCouldReach == \A s, v, w \in Nat :
          (s <= v /\ v <= w /\ Strong(s, w)) => (CouldReach(s, v, w, FALSE) /\ CouldReach(s, v, w, TRUE))
  BY StrongIff DEF CouldReach, Possible, Min2
=============================================================================

----------------------------- MODULE MCQuorum -----------------------------
(* TLC re-check of the Quorum.tla lemmas, exhaustively for every whole <= MaxW (one state per
   whole, all parts / pairs / tallies quantified inside the invariant).  Guards the TLAPS proof
   against vacuity and checks the statements in the form the property text gives them.
   The operators under test are parameters of the cfg (StrongOp <- ...) so that a mutant
   configuration (MCQuorumMut.cfg: `>` instead of `>=`) must be refuted.                    *)
EXTENDS Quorum, TLC
CONSTANTS MaxW, MaxW3, UseMutant
VARIABLES w, c

StrongMut(p, ww) == p > DivCeil(2 * ww, 3)
S(p, ww) == IF UseMutant THEN StrongMut(p, ww) ELSE Strong(p, ww)
CR(s, v, ww, adv) == S(Possible(s, v, ww, adv), ww)

\* root -> 16 chunk states -> one state per whole (so that the 16 workers share the wholes)
Init == w = -1 /\ c = -1
Next == \/ (w = -1 /\ c = -1 /\ c' \in 0..15 /\ w' = -1)
        \/ (w = -1 /\ c >= 0 /\ w' \in {x \in 0..MaxW : x % 16 = c} /\ c' = c)
Spec == Init /\ [][Next]_<<w, c>>

L_StrongIff == \A p \in 0..w : S(p, w) <=> 3 * p >= 2 * w
L_Intersect == \A a \in 0..w : \A b \in 0..w : (S(a, w) /\ S(b, w)) => 3 * (a + b - w) >= w
L_WeakStrict == \A p \in 0..w : Weak(p, w) => 3 * p > w
L_WeakLinear == \A p \in 0..w : Weak(p, w) <=> 3 * p > w + 2
L_WeakBlocks == \A a \in 0..w : \A b \in 0..(w - a) : Weak(a, w) => ~S(b, w)
L_Mono == \A p \in 0..w : (p < w) => ((S(p, w) => S(p + 1, w)) /\ (Weak(p, w) => Weak(p + 1, w)))
\* tallies: s <= v <= w ; extension x by unvoted power, y by double votes
L_CouldReach == \A v \in 0..w : \A s \in 0..v :
                   /\ (~CR(s, v, w, FALSE) => \A x \in 0..(w - v) : ~S(s + x, w))
                   /\ (~CR(s, v, w, TRUE) => \A x \in 0..(w - v) : ~S(Min2(s + x + (w \div 3), w), w))
                   /\ (CR(s, v, w, FALSE) => CR(s, v, w, TRUE))
                   /\ (S(s, w) => CR(s, v, w, FALSE))
                   \* exactness: reported reachable <=> the full unvoted power would make it strong
                   /\ (CR(s, v, w, FALSE) <=> S(s + (w - v), w))
Lemmas == w >= 0 => /\ L_StrongIff /\ L_Intersect /\ L_WeakStrict /\ L_WeakLinear /\ L_WeakBlocks /\ L_Mono
                    /\ (w <= MaxW3 => L_CouldReach)
=============================================================================

--------------------------- MODULE PowerDiffTrace ---------------------------
(* Row-table validation for property C04, power-table deltas.  Every line of the NDJSON file is one call recorded by
   harness/drivers/certs from the REAL code:
     make   d = MakePowerTableDiff(a, b), then res = ApplyPowerTableDiffs(a, d)        (a, b well-formed, any order)
     apply  res = ApplyPowerTableDiffs(a, ds...)                                       (a well-formed, any deltas)
   with the caller's tables as they are after the call (aAfter, bAfter).  Tables are sequences of [id, p, k] in the
   order passed / returned, deltas sequences of [id, dp, k]; powers are abstract levels (the driver maps them to big
   integers by x1 and x(2^80+7) and back; a value that is not a multiple of the magnitude comes back as -999999).
     C04_*   clauses of the property text;  Conf_*  the code still computes exactly the transcribed functions.         *)
EXTENDS PowerDiff, Json, TLCExt
CONSTANT TraceFile
VARIABLES l, bad

TraceLog == ndJsonDeserialize(TraceFile)
row == TraceLog[l]
TInit == l = 1 /\ bad = {}
TNext == l <= Len(TraceLog) /\ l' = l + 1

\* "every delta that application accepts is the unique canonical delta between its input and output" (output well-formed)
UniqueCanonical(a, d, res) == /\ WellFormedSeq(res)
                              /\ d = Make(TableOf(a), TableOf(res))

MakeBad ==
  LET a == row.a
      b == row.b
      C == [
        \* "the delta computed between any two well-formed tables, applied to the first, yields the second in canonical order"
        C04_RoundTrip |-> row.ok /\ row.res = Canon(TableOf(b)),
        \* the computed delta is itself the canonical one for the application it went through
        C04_UniqueCanonical |-> row.ok => UniqueCanonical(a, row.d, row.res),
        Conf_MakeExact |-> row.d = Make(TableOf(a), TableOf(b)),
        Conf_InputsUntouched |-> row.aAfter = a /\ row.bAfter = b]
  IN IF ~(WellFormedSeq(a) /\ WellFormedSeq(b)) THEN {"Conf_Domain"} ELSE {c \in DOMAIN C : ~C[c]}

ApplyBad ==
  LET a == row.a
      ds == row.ds
      exp == ApplyAll(TableOf(a), ds)
      single == Len(ds) = 1
      C == [
        C04_UniqueCanonical |-> (row.ok /\ single) => UniqueCanonical(a, ds[1], row.res),
        \* "malformed deltas are rejected ..."
        C04_MalformedRejected |-> (single /\ exp = Err) => ~row.ok,
        \* "... without modifying the caller's table"
        C04_RejectNoMutation |-> ~row.ok => row.aAfter = a,
        \* the canonical delta between two well-formed tables applies and yields the second in canonical order
        C04_AppliesCanonicalDelta |-> (single /\ exp # Err) => (row.ok /\ row.res = Canon(exp)),
        Conf_ApplyAll |-> /\ row.ok <=> (exp # Err)
                          /\ (row.ok /\ exp # Err) => row.res = Canon(exp),
        Conf_CallerTable |-> row.aAfter = a]
  IN IF ~WellFormedSeq(a) THEN {"Conf_Domain"} ELSE {c \in DOMAIN C : ~C[c]}

RowBad == CASE row.k = "make" -> MakeBad [] row.k = "apply" -> ApplyBad [] OTHER -> {}
TStep == /\ TNext
         /\ LET nb == RowBad IN
              /\ bad' = bad \cup {<<l, c>> : c \in nb}
              /\ (nb = {} \/ Cardinality(bad) > 2000 \/ PrintT(<<"VERIF_BAD", l, nb>>))
TSpec == TInit /\ [][TStep]_<<l, bad>>
=============================================================================

---------------------------- MODULE MCPowerDiff ----------------------------
(* Design check of PowerDiff.tla: one state per table a over the carrier; the invariant quantifies
   over every table b (round trip) and every structurally near-valid delta d of length <= MaxLen over
   the whole entry alphabet, sorted or not, plus every strictly sorted delta of length MaxLen + 1.   *)
EXTENDS PowerDiff, TLC
CONSTANTS IdSet, MaxP, Keys, MaxLen
VARIABLES a, c

Entry == [p : 1..MaxP, k : Keys]
Tables == UNION {[S -> Entry] : S \in SUBSET IdSet}
Alphabet == [id : IdSet, dp : (0 - MaxP)..MaxP, k : Keys \cup {NoKey}]
Deltas == UNION {[1..m -> Alphabet] : m \in 0..MaxLen}
SortedLong == {d \in [1..(MaxLen + 1) -> Alphabet] : \A n \in 1..MaxLen : d[n].id < d[n + 1].id}

Init == a = Empty /\ c = -1
Next == \/ (c = -1 /\ c' \in 0..15 /\ a' = a)
        \/ (c \in 0..15 /\ c' = 16 /\ \E t \in Tables : (Cardinality(DOMAIN t) * 7 + Cardinality({i \in DOMAIN t : t[i].p = 1}) * 3
                                                         + Cardinality({i \in DOMAIN t : t[i].k = 1})) % 16 = c /\ a' = t)
Spec == Init /\ [][Next]_<<a, c>>

RoundTrip == c = 16 => \A b \in Tables : RoundTripAt(a, b)
Unique == c = 16 => /\ \A d \in Deltas : UniqueAt(a, d) /\ ResultWellFormedAt(a, d)
                    /\ \A d \in SortedLong : UniqueAt(a, d)
CanonOK == c = 16 => LET s == Canon(a) IN IsCanonSeq(s) /\ TableOf(s) = a /\ Len(s) = Cardinality(DOMAIN a)
=============================================================================

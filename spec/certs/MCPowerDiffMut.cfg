SPECIFICATION Spec
CONSTANTS
  IdSet = {1, 2, 3}
  MaxP = 2
  Keys = {1, 2}
  MaxLen = 2
  CheckSorted = FALSE
INVARIANTS RoundTrip Unique CanonOK
CHECK_DEADLOCK FALSE

SPECIFICATION Spec
CONSTANTS
  MaxLen = 2
  MaxWeight = 1
  SignerMenu = "all"
  Emit = FALSE
  Starts = {0, 1}
  PairMenu = "core"
  OneBadCert = TRUE
  CheckSorted = TRUE
  StrongQ <- StrongHalf
INVARIANTS InvAcceptIff InvReport InvHonest
CHECK_DEADLOCK FALSE

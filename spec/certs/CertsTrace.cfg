SPECIFICATION TSpec
CONSTANTS
  TraceFile = "trace.ndjson"
  CheckSorted = TRUE
CHECK_DEADLOCK FALSE

SPECIFICATION Spec
CONSTANTS
  MaxLen = 3
  MaxWeight = 1
  SignerMenu = "named"
  Emit = FALSE
  Starts = {0, 1}
  PairMenu = "core"
  OneBadCert = TRUE
  CheckSorted = TRUE

INVARIANTS InvHonestMut
CHECK_DEADLOCK FALSE

SPECIFICATION Spec
CONSTANTS
  IdSet = {1, 2, 3}
  MaxP = 3
  Keys = {1, 2}
  MaxLen = 2
  CheckSorted = TRUE
INVARIANTS RoundTrip Unique CanonOK
CHECK_DEADLOCK FALSE

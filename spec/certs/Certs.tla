------------------------------- MODULE Certs -------------------------------
(* Validation of a sequence of finality certificates, transcribed from certs/certs.go:
     ValidateFinalityCertificates        (certs.go:91-142)   -> Validate(seq, pt, next, base)   (a fold, Step = loop body)
     verifyFinalityCertificateSignature  (certs.go:147-196)  -> SignerErr / StrongQ / SigOK
     ApplyPowerTableDiffs + MakePowerTableCID comparison     -> Apply / Canon of PowerDiff.tla, compared with c.supp
   and, independently of the fold, the clauses of property C04 in declarative form (TableBefore, ValidAt, ...).

   Abstract certificate (everything the driver can log about a REAL certificate it built):
     inst     GPBFTInstance
     chain    [ts |-> sequence of tipset ids (base first), bad |-> "" | "emptykey" | "nocid" | "longkey"]
              tipset id t stands for TipSet{Epoch: t % 1000, Key: "ts<t % 1000>", Commitments: variant t \div 1000}
     signers  ascending sequence of 0-based indices into the table in force (the bitfield)
     sig      what the aggregate signature really is: [over, mask, keys]
                over = "exact"  the signed bytes are the DECIDE payload (instance, round 0, DECIDE, supplemental data, chain,
                                network) rebuilt from the certificate's own fields; "consensus" = produced by real gpbft
                                participants (provenance, treated as exact); anything else names the deviation
                mask = the index list the aggregate was computed over, keys = the key ids that signed (aligned with mask)
     supp     the table (sequence, in the order that was hashed) whose CID is committed in the supplemental data
     delta    sequence of [id, dp, k]
   A table is a sequence of [id, p, k]; entry e verifies with key id  e.id * 64 + e.k.                                  *)
EXTENDS PowerDiff

NoBase == -1
ScaleMax == 65535
ErrT == <<[id |-> 0, p |-> 0, k |-> 0]>>          \* "no table" (0 is not a participant id)

\* ------------------------------------------------------------------ arithmetic (gpbft/powertable.go:87-107, gpbft.go IsStrongQuorum)
RECURSIVE SumTo(_, _)
SumTo(f, n) == IF n = 0 THEN 0 ELSE f[n] + SumTo(f, n - 1)
CSum(s) == SumTo(s, Len(s))
TotalP(T) == CSum([n \in 1..Len(T) |-> T[n].p])
Scalable(T) == \A n \in 1..Len(T) : T[n].p > 0
ScaledOf(T, n) == (ScaleMax * T[n].p) \div TotalP(T)
ScaledTotal(T) == LET tot == TotalP(T) IN CSum([n \in 1..Len(T) |-> (ScaleMax * T[n].p) \div tot])
\* "strong quorum": at least two thirds (C08 binds gpbft.IsStrongQuorum to exactly this)
StrongQ(a, w) == 3 * a >= 2 * w
KeyId(e) == e.id * 64 + e.k

\* ------------------------------------------------------------------ chains (gpbft/chain.go:66-83, 368-386)
Epoch(t) == t % 1000
ChainWellFormed(ch) == /\ ch.bad = ""
                       /\ Len(ch.ts) <= 128
                       /\ \A n \in 1..Len(ch.ts) : ch.ts[n] >= 0
                       /\ \A n \in 1..(Len(ch.ts) - 1) : Epoch(ch.ts[n]) < Epoch(ch.ts[n + 1])
LastOf(s) == s[Len(s)]

\* ------------------------------------------------------------------ signature (certs.go:147-196)
InRange(c, T) == \A n \in 1..Len(c.signers) : c.signers[n] >= 0 /\ c.signers[n] < Len(T)
SignerPower(c, T) == LET tot == TotalP(T) IN CSum([n \in 1..Len(c.signers) |-> (ScaleMax * T[c.signers[n] + 1].p) \div tot])
\* first failing signer in index order decides the error class
RECURSIVE SignerErrFrom(_, _, _)
SignerErrFrom(c, T, n) == IF n > Len(c.signers) THEN ""
                          ELSE IF c.signers[n] < 0 \/ c.signers[n] >= Len(T) THEN "range"
                          ELSE IF ScaledOf(T, c.signers[n] + 1) = 0 THEN "zeropower"
                          ELSE SignerErrFrom(c, T, n + 1)
SignerErr(c, T) == SignerErrFrom(c, T, 1)
\* over = "consensus": the aggregate was produced by real gpbft participants deciding (provenance, not a description of
\* the bytes); that it is over the exact payload with the committee's keys is property C03 and assumed here.
SigOK(c, T) == \/ c.sig.over = "consensus"
               \/ /\ c.sig.over = "exact"
                  /\ c.sig.mask = c.signers
                  /\ Len(c.sig.keys) = Len(c.signers)
                  /\ InRange(c, T)
                  /\ \A n \in 1..Len(c.signers) : c.sig.keys[n] = KeyId(T[c.signers[n] + 1])

\* ------------------------------------------------------------------ the fold = the loop of ValidateFinalityCertificates
\* named points where a mutant configuration deviates (non-vacuity of the design check)
NextBase(ts) == LastOf(ts)              \* certs.go:138   base = cert.ECChain.Head()
FailNext(st) == st.next               \* certs.go:95..  "return nextInstance, chain, prevPowerTable, err"
CommitMatches(nt, c) == Canon(nt) = c.supp    \* certs.go:130

Start(pt, next, base) == [next |-> next, chain |-> <<>>, table |-> pt, tnil |-> TRUE, base |-> base, err |-> ""]
Fail(st, why) == [st EXCEPT !.err = why, !.next = FailNext(st), !.tnil = FALSE]
Step(st, c) ==
  IF st.err # "" THEN st
  ELSE IF c.inst # st.next THEN Fail(st, "instance")
  ELSE IF ~ChainWellFormed(c.chain) THEN Fail(st, "chain")
  ELSE IF c.chain.ts = <<>> THEN Fail(st, "empty")
  ELSE IF st.base # NoBase /\ st.base # c.chain.ts[1] THEN Fail(st, "base")
  ELSE IF ~Scalable(st.table) THEN Fail(st, "table")
  ELSE IF SignerErr(c, st.table) # "" THEN Fail(st, SignerErr(c, st.table))
  ELSE IF ~StrongQ(SignerPower(c, st.table), ScaledTotal(st.table)) THEN Fail(st, "quorum")
  ELSE IF ~SigOK(c, st.table) THEN Fail(st, "signature")
  ELSE LET nt == Apply(TableOf(st.table), c.delta) IN
       IF nt = Err THEN Fail(st, "delta")
       ELSE IF ~CommitMatches(nt, c) THEN Fail(st, "commit")
       ELSE [next |-> st.next + 1, chain |-> st.chain \o Tail(c.chain.ts), table |-> Canon(nt), tnil |-> FALSE,
             base |-> NextBase(c.chain.ts), err |-> ""]
RECURSIVE Fold(_, _, _)
Fold(st, seq, n) == IF n > Len(seq) THEN st ELSE Fold(Step(st, seq[n]), seq, n + 1)
\* result: [next, chain, table, tnil, err]; on acceptance of the empty sequence the code returns a nil table (tnil)
Validate(seq, pt, next, base) == Fold(Start(pt, next, base), seq, 1)
Accepted(r) == r.err = ""

\* ------------------------------------------------------------------ property C04, clause by clause (no reference to the fold)
\* Tables(seq, pt)[n] = the power table in force for certificate n: the caller's for n = 1, afterwards the canonical result of
\* applying delta n-1 (ErrT once a delta does not apply); [Len(seq)+1] = the table after the whole sequence.
\* (computed once per call and passed around as `tabs`: TLC does not cache operator applications)
NextTable(T, d) == IF T = ErrT \/ ~UniqueIds(T) THEN ErrT
                   ELSE LET r == Apply(TableOf(T), d) IN IF r = Err THEN ErrT ELSE Canon(r)
RECURSIVE TablesFrom(_, _, _)
TablesFrom(seq, acc, n) == IF n > Len(seq) THEN acc ELSE TablesFrom(seq, Append(acc, NextTable(acc[n], seq[n].delta)), n + 1)
Tables(seq, pt) == TablesFrom(seq, <<pt>>, 1)
\* "instances are consecutive from the expected one"
Consecutive(seq, next, n) == seq[n].inst = next + n - 1
\* "every finalized chain is well-formed, non-empty"
ChainOK(seq, n) == ChainWellFormed(seq[n].chain) /\ seq[n].chain.ts # <<>>
\* "and starts at the head finalized by its predecessor (or at the caller's base)"
Linked(seq, base, n) == /\ seq[n].chain.ts # <<>>
                        /\ IF n = 1 THEN base = NoBase \/ seq[n].chain.ts[1] = base
                           ELSE seq[n - 1].chain.ts # <<>> /\ seq[n].chain.ts[1] = LastOf(seq[n - 1].chain.ts)
\* "signed ... by a strong quorum of the power table in force for its instance" (signers are members with effective power)
QuorumOn(c, T) == /\ T # ErrT /\ Scalable(T) /\ InRange(c, T)
                  /\ \A m \in 1..Len(c.signers) : ScaledOf(T, c.signers[m] + 1) > 0
                  /\ 3 * SignerPower(c, T) >= 2 * ScaledTotal(T)
QuorumOK(seq, tabs, n) == QuorumOn(seq[n], tabs[n])
\* the same without the implementation's extra rule that a listed signer must have non-zero scaled power (the property text only
\* asks for a strong quorum of the table: accepting an additional zero-power signer would be drift, not a C04 violation)
QuorumTextOK(seq, tabs, n) == LET T == tabs[n] c == seq[n] IN
                                /\ T # ErrT /\ Scalable(T) /\ InRange(c, T) /\ 3 * SignerPower(c, T) >= 2 * ScaledTotal(T)
\* "signed over the exact DECIDE payload" by exactly those signers with the keys of that table
PayloadOK(seq, tabs, n) == tabs[n] # ErrT /\ SigOK(seq[n], tabs[n])
\* "applying its power-table delta yields the table committed in its supplemental data"
DeltaOK(seq, tabs, n) == tabs[n] # ErrT /\ tabs[n + 1] # ErrT /\ tabs[n + 1] = seq[n].supp
ValidAt(seq, tabs, next, base, n) == /\ Consecutive(seq, next, n) /\ ChainOK(seq, n) /\ Linked(seq, base, n)
                                     /\ QuorumOK(seq, tabs, n) /\ PayloadOK(seq, tabs, n) /\ DeltaOK(seq, tabs, n)
\* length of the valid prefix
RECURSIVE ValidLenFrom(_, _, _, _, _)
ValidLenFrom(seq, tabs, next, base, n) == IF n > Len(seq) \/ ~ValidAt(seq, tabs, next, base, n) THEN n - 1
                                          ELSE ValidLenFrom(seq, tabs, next, base, n + 1)
ValidLen(seq, tabs, next, base) == ValidLenFrom(seq, tabs, next, base, 1)
\* what the valid prefix of length k finalizes: next instance, newly finalized tipsets, table in force afterwards
RECURSIVE SuffixesTo(_, _)
SuffixesTo(seq, k) == IF k = 0 THEN <<>> ELSE SuffixesTo(seq, k - 1) \o Tail(seq[k].chain.ts)
PrefixReport(seq, tabs, next, k) == [next |-> next + k, chain |-> SuffixesTo(seq, k), table |-> tabs[k + 1]]

\* "certificates produced by consensus": every instance decides a well-formed, non-empty chain extending the previous head, its
\* DECIDE aggregate is by a strong quorum of members with effective power of the table the previous certificate committed (the
\* caller's for the first), over the exact payload, and the supplemental data commits the canonical next table.  The delta the
\* host attaches is the computed one (MakeOp).
CommittedBefore(seq, pt, n) == IF n = 1 THEN pt ELSE seq[n - 1].supp
ProducedAt(seq, pt, next, base, n) ==
  LET T == CommittedBefore(seq, pt, n) c == seq[n] IN
    /\ WellFormedSeq(T) /\ WellFormedSeq(c.supp) /\ IsCanonSeq(c.supp)
    /\ Consecutive(seq, next, n) /\ ChainOK(seq, n) /\ Linked(seq, base, n)
    /\ QuorumOn(c, T) /\ SigOK(c, T)
ProducedSeq(seq, pt, next, base) == \A n \in 1..Len(seq) : ProducedAt(seq, pt, next, base, n)
DeltasComputed(seq, pt, MakeOp(_, _)) ==
    \A n \in 1..Len(seq) : seq[n].delta = MakeOp(TableOf(CommittedBefore(seq, pt, n)), TableOf(seq[n].supp))
HonestSeq(seq, pt, next, base, MakeOp(_, _)) == ProducedSeq(seq, pt, next, base) /\ DeltasComputed(seq, pt, MakeOp)

\* ------------------------------------------------------------------ design-level statements relating fold and clauses
\* r = Validate(...), k = ValidLen(...), rep = PrefixReport(..., k)
\* accepts only if (and, for this fold, if) every certificate satisfies every clause
AcceptIffValid(r, k, n) == Accepted(r) <=> (k = n)
\* on rejection the report describes exactly the valid prefix; on acceptance the whole sequence
ReportIsPrefix(r, k, rep, n) == /\ r.next = rep.next /\ r.chain = rep.chain
                                /\ (~r.tnil => r.table = rep.table)
                                /\ (r.tnil <=> (Accepted(r) /\ n = 0))
                                /\ (~Accepted(r) => k < n)
AcceptIffValidAt(seq, pt, next, base) ==
    LET tabs == Tables(seq, pt) IN AcceptIffValid(Validate(seq, pt, next, base), ValidLen(seq, tabs, next, base), Len(seq))
ReportAt(seq, pt, next, base) ==
    LET tabs == Tables(seq, pt)
        k == ValidLen(seq, tabs, next, base)
    IN ReportIsPrefix(Validate(seq, pt, next, base), k, PrefixReport(seq, tabs, next, k), Len(seq))
HonestAcceptedAt(seq, pt, next, base, MakeOp(_, _)) ==
    HonestSeq(seq, pt, next, base, MakeOp) => Accepted(Validate(seq, pt, next, base))
=============================================================================

SPECIFICATION Spec
CONSTANTS
  MaxLen = 2
  MaxWeight = 1
  SignerMenu = "named"
  Emit = FALSE
  Starts = {0, 1}
  PairMenu = "core"
  OneBadCert = TRUE
  CheckSorted = TRUE
  CommitMatches <- CommitLoose
INVARIANTS InvAcceptIff InvReport InvHonest
CHECK_DEADLOCK FALSE

----------------------------- MODULE PowerDiff -----------------------------
(* Power-table deltas of go-f3, transcribed from certs/certs.go:
     MakePowerTableDiff          (certs.go:201-237)   -> Make(a, b)
     ApplyPowerTableDiffsToMap   (certs.go:270-328)   -> Apply(t, d), ApplyAll(t, ds)
     PowerTableMapToArray / PowerEntries.Less (powertable.go:65-79) -> Canon(t)
   A table is a function  id -> [p, k]  (p > 0 an abstract power level, k > 0 an abstract key
   version); on the wire / in rows a table is a sequence of [id, p, k].  A delta is a sequence of
   [id, dp, k] with k = NoKey (0) for "no key change".  The power map to big.Int is linear, so
   sign, addition and order commute with it.                                                    *)
EXTENDS Integers, Sequences, FiniteSets, TLC
CONSTANT CheckSorted      \* TRUE = as coded; FALSE is the named deviation used for non-vacuity

NoKey == 0
Err == (0 :> [p |-> 0, k |-> 0])          \* not a table (0 is not a participant id)
Empty == [i \in {} |-> 0]

\* ------------------------------------------------------------------ sequences <-> tables
Ids(seq) == {seq[n].id : n \in 1..Len(seq)}
UniqueIds(seq) == Cardinality(Ids(seq)) = Len(seq)
TableOf(seq) == [i \in Ids(seq) |-> LET n == CHOOSE m \in 1..Len(seq) : seq[m].id = i IN [p |-> seq[n].p, k |-> seq[n].k]]
WellFormedSeq(seq) == UniqueIds(seq) /\ \A n \in 1..Len(seq) : seq[n].p > 0 /\ seq[n].k # NoKey

\* canonical order: power descending, id ascending
Before(t, i, j) == t[i].p > t[j].p \/ (t[i].p = t[j].p /\ i < j)
RECURSIVE CanonFrom(_, _)
CanonFrom(t, S) == IF S = {} THEN <<>>
                   ELSE LET m == CHOOSE x \in S : \A y \in S \ {x} : Before(t, x, y)
                        IN <<[id |-> m, p |-> t[m].p, k |-> t[m].k]>> \o CanonFrom(t, S \ {m})
Canon(t) == CanonFrom(t, DOMAIN t)
IsCanonSeq(seq) == \A n \in 1..(Len(seq) - 1) :
                      seq[n].p > seq[n + 1].p \/ (seq[n].p = seq[n + 1].p /\ seq[n].id < seq[n + 1].id)

\* ------------------------------------------------------------------ MakePowerTableDiff
RECURSIVE SortedIds(_)
SortedIds(S) == IF S = {} THEN <<>> ELSE LET m == CHOOSE x \in S : \A y \in S : x <= y IN <<m>> \o SortedIds(S \ {m})
DeltaFor(a, b, i) ==
  IF i \in DOMAIN a /\ i \in DOMAIN b
    THEN [id |-> i, dp |-> b[i].p - a[i].p, k |-> IF b[i].k = a[i].k THEN NoKey ELSE b[i].k]
  ELSE IF i \in DOMAIN b THEN [id |-> i, dp |-> b[i].p, k |-> b[i].k]
  ELSE [id |-> i, dp |-> 0 - a[i].p, k |-> NoKey]
IsZero(d) == d.dp = 0 /\ d.k = NoKey
Make(a, b) == LET ch == {i \in DOMAIN a \cup DOMAIN b : ~IsZero(DeltaFor(a, b, i))}
                  ids == SortedIds(ch)
              IN [n \in 1..Len(ids) |-> DeltaFor(a, b, ids[n])]

\* ------------------------------------------------------------------ ApplyPowerTableDiffsToMap (one diff)
RECURSIVE ApplyFrom(_, _, _, _)
ApplyFrom(t, d, n, last) ==
  IF n > Len(d) THEN t
  ELSE LET e == d[n] IN
    IF CheckSorted /\ n > 1 /\ e.id <= last THEN Err                      \* "not sorted by participant ID"
    ELSE IF IsZero(e) THEN Err                                            \* "empty delta"
    ELSE IF e.id \in DOMAIN t THEN
       LET pe == t[e.id]
           np == pe.p + e.dp
       IN IF e.k = pe.k THEN Err                                          \* "unchanged key"
          ELSE IF e.k # NoKey /\ np = 0 THEN Err                          \* "removes all power while specifying a new key"
          ELSE IF np < 0 THEN Err                                         \* "negative power"
          ELSE IF np = 0 THEN ApplyFrom([i \in DOMAIN t \ {e.id} |-> t[i]], d, n + 1, e.id)
          ELSE ApplyFrom([t EXCEPT ![e.id] = [p |-> np, k |-> IF e.k # NoKey THEN e.k ELSE pe.k]], d, n + 1, e.id)
    ELSE IF e.dp <= 0 THEN Err                                            \* "new entry with a non-positive power delta"
         ELSE IF e.k = NoKey THEN Err                                     \* "new entry with an empty signing key"
         ELSE ApplyFrom((e.id :> [p |-> e.dp, k |-> e.k]) @@ t, d, n + 1, e.id)
Apply(t, d) == ApplyFrom(t, d, 1, 0)

RECURSIVE ApplyAllFrom(_, _, _)
ApplyAllFrom(t, ds, j) == IF t = Err \/ j > Len(ds) THEN t ELSE ApplyAllFrom(Apply(t, ds[j]), ds, j + 1)
ApplyAll(t, ds) == ApplyAllFrom(t, ds, 1)

\* ------------------------------------------------------------------ the delta clauses of C04 (over one input)
\* "the delta computed between any two well-formed tables, applied to the first, yields the second in canonical order"
RoundTripAt(a, b) == Apply(a, Make(a, b)) = b
\* "every delta that application accepts is the unique canonical delta between its input and output"
UniqueAt(a, d) == LET r == Apply(a, d) IN r # Err => d = Make(a, r)
\* sanity of the transcription: an accepted result is a well-formed table
ResultWellFormedAt(a, d) == LET r == Apply(a, d) IN r # Err => \A i \in DOMAIN r : r[i].p > 0 /\ r[i].k # NoKey
=============================================================================

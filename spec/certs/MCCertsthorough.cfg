SPECIFICATION Spec
CONSTANTS
  MaxLen = 3
  MaxWeight = 2
  SignerMenu = "named"
  Emit = TRUE
  Starts = {0, 1}
  PairMenu = "all"
  OneBadCert = FALSE
  CheckSorted = TRUE

INVARIANTS InvAcceptIff InvReport InvHonest InvHonestNonVacuous InvEmit
CHECK_DEADLOCK FALSE

----------------------------- MODULE CertsTrace -----------------------------
(* Row-table validation for property C04, certificate chains.  Every line of the NDJSON file is one call of the REAL
   certs.ValidateFinalityCertificates recorded by harness/drivers/certs: the abstract description of the real
   certificates that were passed (see Certs.tla) and what the code returned.  Each step consumes one line and judges
   it with the operators of Certs.tla.
     C04_*   clauses of the property text, stated with the declarative operators (ValidLen, PrefixReport, ProducedSeq)
     Conf_*  "the code still computes exactly the transcribed fold" where the property is silent (drift, never an alarm) *)
EXTENDS Certs, Json, TLCExt
CONSTANT TraceFile
VARIABLES l, bad

TraceLog == ndJsonDeserialize(TraceFile)
row == TraceLog[l]
TInit == l = 1 /\ bad = {}
TNext == l <= Len(TraceLog) /\ l' = l + 1

IsVal == row.k = "val"
MaxAbs == 32767                     \* 65535 * p must fit TLC's 32-bit integers
TableInDomain(T) == UniqueIds(T) /\ \A n \in 1..Len(T) : T[n].p >= -MaxAbs /\ T[n].p <= MaxAbs /\ T[n].id > 0
DomainOK == /\ TableInDomain(row.pt) /\ Scalable(row.pt)
            /\ \A n \in 1..Len(row.certs) : TableInDomain(row.certs[n].supp)
Honest == row.src \in {"consensus", "pipeline"}

\* the set of failing clauses of a val row (one LET so that fold and clauses are evaluated once)
ValBad ==
  LET seq == row.certs
      pt == row.pt
      nx == row.next
      bs == row.base
      n == Len(seq)
      tabs == Tables(seq, pt)
      r == Validate(seq, pt, nx, bs)
      k == ValidLen(seq, tabs, nx, bs)
      rep == PrefixReport(seq, tabs, nx, k)
      \* accepted although certificate k+1 violates a clause
      wrong == row.ok /\ k < n
      produced == Honest /\ ProducedSeq(seq, pt, nx, bs)
      C == [
        \* "accepts it only if instances are consecutive from the expected one"
        C04_AcceptOnlyConsecutive |-> ~(wrong /\ ~Consecutive(seq, nx, k + 1)),
        \* "every finalized chain is well-formed, non-empty"
        C04_AcceptOnlyWellFormedChain |-> ~(wrong /\ ~ChainOK(seq, k + 1)),
        \* "and starts at the head finalized by its predecessor (or at the caller's base)"
        C04_AcceptOnlyLinked |-> ~(wrong /\ ~Linked(seq, bs, k + 1)),
        \* "signed ... by a strong quorum of the power table in force for its instance"
        C04_AcceptOnlyStrongQuorum |-> ~(wrong /\ ~QuorumTextOK(seq, tabs, k + 1)),
        \* "signed over the exact DECIDE payload"
        C04_AcceptOnlyExactPayload |-> ~(wrong /\ ~PayloadOK(seq, tabs, k + 1)),
        \* "applying its power-table delta yields the table committed in its supplemental data"
        C04_AcceptOnlyCommittedDelta |-> ~(wrong /\ ~DeltaOK(seq, tabs, k + 1)),
        \* "on rejection the reported next instance, chain and power table describe exactly the valid prefix"
        C04_RejectReportsValidPrefix |-> (~row.ok /\ k < n) =>
                                            /\ row.rnext = rep.next /\ row.rchain = rep.chain
                                            /\ ~row.rnil /\ row.rtable = rep.table,
        \* "certificates produced by consensus are always accepted"
        C04_ConsensusAccepted |-> produced => row.ok,
        \* "malformed deltas are rejected without modifying the caller's table"
        C04_DeltaRejectNoMutation |-> (~row.ok /\ r.err = "delta") => row.ptAfter = pt,
        \* ---- conformance
        Conf_HonestRecognised |-> Honest => (produced /\ DeltasComputed(seq, pt, Make)),
        Conf_ZeroPowerSignerRejected |-> ~(wrong /\ QuorumTextOK(seq, tabs, k + 1) /\ ~QuorumOK(seq, tabs, k + 1)),
        Conf_AcceptsValid |-> (k = n) => row.ok,
        Conf_AcceptReport |-> row.ok => /\ row.rnext = r.next /\ row.rchain = r.chain /\ row.rnil = r.tnil
                                        /\ (~r.tnil => row.rtable = r.table),
        Conf_ErrClass |-> row.errc = r.err,
        Conf_CallerTable |-> row.ptAfter = pt,
        Conf_NoPanic |-> row.panic = "",
        Conf_FoldMatchesClauses |-> AcceptIffValid(r, k, n) /\ ReportIsPrefix(r, k, rep, n)]
  IN IF ~DomainOK THEN {"Conf_Domain"} ELSE {c \in DOMAIN C : ~C[c]}

RowBad == IF IsVal THEN ValBad ELSE {}
TStep == /\ TNext
         /\ LET nb == RowBad IN
              /\ bad' = bad \cup {<<l, c>> : c \in nb}
              /\ (nb = {} \/ Cardinality(bad) > 2000 \/ PrintT(<<"VERIF_BAD", l, nb>>))
TSpec == TInit /\ [][TStep]_<<l, bad>>
=============================================================================

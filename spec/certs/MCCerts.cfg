SPECIFICATION Spec
CONSTANTS
  MaxLen = 3
  MaxWeight = 2
  SignerMenu = "all"
  Emit = TRUE
  Starts = {0, 1}
  PairMenu = "core"
  OneBadCert = TRUE
  CheckSorted = TRUE

INVARIANTS InvAcceptIff InvReport InvHonest InvHonestNonVacuous InvEmit
CHECK_DEADLOCK FALSE

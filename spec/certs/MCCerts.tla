------------------------------ MODULE MCCerts ------------------------------
(* Design check of Certs.tla and generator of the systematic part of the C04 input domain.
   States = all sequences of <= MaxLen certificate descriptors of total corruption weight <= MaxWeight over two
   honest histories (the state graph is the tree of sequences; a descriptor is [h, off, cs]: history, instance
   offset relative to the expected instance, list of field corruptions; with OneBadCert at most one certificate of a
   sequence is corrupted - the code never looks past the first invalid one).  Every state is one call
   Validate(seq, pt, next, base); the invariants are the design-level statements of Certs.tla; with Emit = TRUE each
   state is also printed as JSON and the driver realises it as REAL certificates (harness/drivers/certs).

   Tables are engineered (ScaleMax = 65535):
     (1,1,1)            two signers are exactly 2/3 (3*43690 = 2*65535), one signer is below
     (3,2,1)            signers {0,2} are one unit below the threshold after rounding (3*43689 < 2*65534)
     (30000,30000,20000,1)  member 4 has zero scaled power                                                     *)
EXTENDS Certs, Json, TLC
CONSTANTS MaxLen, MaxWeight, SignerMenu, Emit, Starts, OneBadCert, PairMenu
VARIABLES cfgv, ds, seq, wt
vars == <<cfgv, ds, seq, wt>>

E(i, p, k) == [id |-> i, p |-> p, k |-> k]
H1 == [tables |-> << <<E(1, 1, 1), E(2, 1, 1), E(3, 1, 1)>>,
                     <<E(1, 3, 1), E(2, 2, 1), E(3, 1, 1)>>,
                     <<E(1, 30000, 1), E(2, 30000, 2), E(3, 20000, 1), E(4, 1, 1)>>,
                     <<E(1, 30000, 1), E(2, 30000, 2), E(3, 20000, 1)>>,
                     <<E(1, 30000, 1), E(2, 30000, 2), E(3, 20000, 1)>> >>,
       chains |-> << <<10, 11, 12>>, <<12, 13>>, <<13>>, <<13, 15, 16>> >>]
H2 == [tables |-> << <<E(1, 1, 1), E(2, 1, 1), E(3, 1, 1)>>,
                     <<E(1, 1, 1), E(2, 1, 1)>>,
                     <<E(1, 1, 1), E(2, 1, 1), E(5, 1, 1)>>,
                     <<E(1, 1, 1), E(2, 1, 1), E(5, 1, 1)>>,
                     <<E(5, 2, 1), E(1, 1, 1), E(2, 1, 2)>> >>,
       chains |-> << <<10, 21>>, <<21, 22, 23>>, <<23, 24>>, <<24>> >>]
Hist(h) == IF h = 1 THEN H1 ELSE H2
NInst == 4
ASSUME \A h \in {1, 2} : \A j \in 1..5 : IsCanonSeq(Hist(h).tables[j]) /\ WellFormedSeq(Hist(h).tables[j])

\* ------------------------------------------------------------------ honest certificates
KeysAt(T, s) == [n \in 1..Len(s) |-> IF s[n] >= 0 /\ s[n] < Len(T) THEN KeyId(T[s[n] + 1]) ELSE 0]
Idx(m) == [n \in 1..m |-> n - 1]
\* shortest index prefix that is a strong quorum (what FindStrongQuorumFor / sim.MakeJustification amount to)
MinPrefix(T) == LET ok == {m \in 1..Len(T) : StrongQ(CSum([n \in 1..m |-> ScaledOf(T, n)]), ScaledTotal(T))}
                IN Idx(CHOOSE m \in ok : \A x \in ok : m <= x)
Honest(h, j) == LET T == Hist(h).tables[j + 1]
                    Tn == Hist(h).tables[j + 2]
                    S == MinPrefix(T)
                IN [inst |-> j, chain |-> [ts |-> Hist(h).chains[j + 1], bad |-> ""], signers |-> S,
                    sig |-> [over |-> "exact", mask |-> S, keys |-> KeysAt(T, S)],
                    supp |-> Tn, delta |-> Make(TableOf(T), TableOf(Tn))]

\* ------------------------------------------------------------------ corruptions: [f |-> field group, v |-> kind, s |-> signer indices]
X(f, v) == [f |-> f, v |-> v, s |-> <<>>]
FRank(f) == CASE f = "inst" -> 1 [] f = "chain" -> 2 [] f = "signers" -> 3 [] f = "sig" -> 4 [] f = "supp" -> 5 [] OTHER -> 6
RECURSIVE SubSeqs(_)
\* all ascending index sequences over 0..m-1
SubSeqs(m) == IF m = 0 THEN {<<>>} ELSE LET r == SubSeqs(m - 1) IN r \cup {Append(s, m - 1) : s \in r}
Ascending(s) == \A n \in 1..(Len(s) - 1) : s[n] < s[n + 1]
NamedSigners(T) == {s \in {<<>>, <<0>>, Idx(Len(T)), <<0, Len(T) - 1>>, <<0, 1, Len(T)>>, <<1, 2>>, <<0, 1, Len(T) - 1>>} : Ascending(s)}
SignerSets(T) == (IF SignerMenu = "all" THEN SubSeqs(Len(T) + 1) ELSE NamedSigners(T)) \ {MinPrefix(T)}
Reverse(s) == [n \in 1..Len(s) |-> s[Len(s) + 1 - n]]
DeltaKinds(c) == {"plusOne", "zeroEntry", "dupFirst", "sameKey", "extraNew", "badNew"}
                 \cup (IF Len(c.delta) >= 2 THEN {"reversed", "dropLast"} ELSE {})
                 \cup (IF Len(c.delta) >= 1 THEN {"emptied"} ELSE {})
Corruptions(c, T) ==
     {X("inst", v) : v \in {"inst+1", "reinst+1"} \cup (IF c.inst > 0 THEN {"inst-1"} ELSE {})}
  \cup {X("chain", v) : v \in {"wrongBase", "baseVariant", "epochs", "emptykey", "nocid", "empty", "headVariant"}}
  \cup {[f |-> "signers", v |-> "set", s |-> s] : s \in SignerSets(T)}
  \cup {X("sig", v) : v \in {"otherValue", "otherInst", "otherSupp", "otherNet", "otherRound", "otherPhase", "garbage",
                              "maskDrop", "keysOther"}}
  \cup {X("supp", v) : v \in {"commitOther", "commitPermuted"}}
  \cup {X("delta", v) : v \in DeltaKinds(c)}
\* one representative per field group (pairs of corruptions inside one certificate in the quick configuration)
CoreCorruptions(c, T) == {X("inst", "reinst+1"), X("chain", "wrongBase"), X("chain", "empty"), [f |-> "signers", v |-> "set", s |-> <<0>>],
                          X("sig", "otherValue"), X("sig", "maskDrop"), X("supp", "commitOther"), X("delta", "plusOne"), X("delta", "zeroEntry")}
MaxId(T) == CHOOSE m \in Ids(T) : \A x \in Ids(T) : x <= m
Bump(T) == [T EXCEPT ![1] = [@ EXCEPT !.p = @ + 1]]
ApplyCorr(c, T, x) ==
  CASE x.v = "inst+1" -> [c EXCEPT !.inst = @ + 1, !.sig.over = "otherInst"]
    [] x.v = "inst-1" -> [c EXCEPT !.inst = @ - 1, !.sig.over = "otherInst"]
    [] x.v = "reinst+1" -> [c EXCEPT !.inst = @ + 1]
    [] x.v = "wrongBase" -> [c EXCEPT !.chain.ts = <<5>> \o Tail(@)]
    [] x.v = "baseVariant" -> [c EXCEPT !.chain.ts = <<@[1] + 1000>> \o Tail(@)]
    [] x.v = "headVariant" -> [c EXCEPT !.chain.ts = SubSeq(@, 1, Len(@) - 1) \o <<@[Len(@)] + 1000>>]
    [] x.v = "epochs" -> [c EXCEPT !.chain.ts = @ \o <<@[1]>>]
    [] x.v = "emptykey" -> [c EXCEPT !.chain.bad = "emptykey"]
    [] x.v = "nocid" -> [c EXCEPT !.chain.bad = "nocid"]
    [] x.v = "empty" -> [c EXCEPT !.chain.ts = <<>>]
    [] x.v = "set" -> [c EXCEPT !.signers = x.s, !.sig.mask = x.s, !.sig.keys = KeysAt(T, x.s)]
    [] x.v = "maskDrop" -> [c EXCEPT !.sig.mask = SubSeq(@, 1, Len(@) - 1), !.sig.keys = SubSeq(@, 1, Len(@) - 1)]
    [] x.v = "keysOther" -> [c EXCEPT !.sig.keys = [@ EXCEPT ![1] = @ + 1]]
    [] x.f = "sig" -> [c EXCEPT !.sig.over = x.v]
    [] x.v = "commitOther" -> [c EXCEPT !.supp = IF @ = T THEN Bump(T) ELSE T]
    [] x.v = "commitPermuted" -> [c EXCEPT !.supp = Reverse(@)]
    [] x.v = "plusOne" -> [c EXCEPT !.delta = IF @ = <<>> THEN <<[id |-> T[1].id, dp |-> 1, k |-> NoKey]>>
                                              ELSE [@ EXCEPT ![1] = [@ EXCEPT !.dp = @ + 1]]]
    [] x.v = "zeroEntry" -> [c EXCEPT !.delta = @ \o <<[id |-> MaxId(T) + 3, dp |-> 0, k |-> NoKey]>>]
    [] x.v = "dupFirst" -> [c EXCEPT !.delta = IF @ = <<>> THEN <<[id |-> T[1].id, dp |-> 1, k |-> NoKey], [id |-> T[1].id, dp |-> 0 - 1, k |-> NoKey]>>
                                               ELSE <<@[1]>> \o @]
    [] x.v = "sameKey" -> [c EXCEPT !.delta = <<[id |-> T[1].id, dp |-> 0, k |-> T[1].k]>>]
    [] x.v = "extraNew" -> [c EXCEPT !.delta = @ \o <<[id |-> MaxId(T) + 3, dp |-> 1, k |-> 1]>>]
    [] x.v = "badNew" -> [c EXCEPT !.delta = @ \o <<[id |-> MaxId(T) + 3, dp |-> 1, k |-> NoKey]>>]
    [] x.v = "reversed" -> [c EXCEPT !.delta = Reverse(@)]
    [] x.v = "dropLast" -> [c EXCEPT !.delta = SubSeq(@, 1, Len(@) - 1)]
    [] x.v = "emptied" -> [c EXCEPT !.delta = <<>>]
RECURSIVE ApplyCorrs(_, _, _, _)
ApplyCorrs(c, T, cs, n) == IF n > Len(cs) THEN c ELSE ApplyCorrs(ApplyCorr(c, T, cs[n]), T, cs, n + 1)

\* ------------------------------------------------------------------ descriptors -> call
\* (the realised certificates and the weight are kept in the state: TLC does not cache operator values)
CertOf(d, n) == LET j == cfgv.start + n - 1 + d.off IN ApplyCorrs(Honest(d.h, j), Hist(d.h).tables[j + 1], d.cs, 1)
Weight(d) == (IF d.h = 2 THEN 1 ELSE 0) + (IF d.off # 0 THEN 1 ELSE 0) + Len(d.cs)
Pt == H1.tables[cfgv.start + 1]
BaseOf == CASE cfgv.base = "nil" -> NoBase [] cfgv.base = "right" -> H1.chains[cfgv.start + 1][1]
            [] cfgv.base = "variant" -> H1.chains[cfgv.start + 1][1] + 1000 [] OTHER -> 7
Call == [pt |-> Pt, next |-> cfgv.start, base |-> BaseOf, certs |-> seq]

\* the menu for position n (budget b left)
Menu(n, b) ==
  UNION {UNION {LET j == cfgv.start + n - 1 + off IN
                IF j < 0 \/ j >= NInst \/ (IF h = 2 THEN 1 ELSE 0) + (IF off # 0 THEN 1 ELSE 0) > b THEN {}
                ELSE LET c == Honest(h, j)
                         T == Hist(h).tables[j + 1]
                         \* a certificate for the wrong instance is rejected before anything else is looked at: no further corruption
                         left == IF off # 0 THEN 0 ELSE b - (IF h = 2 THEN 1 ELSE 0)
                         C1 == Corruptions(c, T)
                         C2 == IF PairMenu = "all" THEN C1 ELSE CoreCorruptions(c, T)
                     IN {[h |-> h, off |-> off, cs |-> <<>>]}
                        \cup (IF left >= 1 THEN {[h |-> h, off |-> off, cs |-> <<x>>] : x \in C1} ELSE {})
                        \cup (IF left >= 2 THEN {[h |-> h, off |-> off, cs |-> <<x, y>>] :
                                                    <<x, y>> \in {p \in C2 \X C2 : FRank(p[1].f) < FRank(p[2].f)}} ELSE {})
                : off \in {0 - 1, 0, 1}} : h \in {1, 2}}

Init == cfgv = [start |-> -1, base |-> ""] /\ ds = <<>> /\ seq = <<>> /\ wt = 0
\* a wrong caller's base is itself a corruption (weight 1)
BaseWeight(b) == IF b \in {"nil", "right"} THEN 0 ELSE 1
Next == \/ /\ cfgv.start = -1
           /\ cfgv' \in [start : Starts, base : {"nil", "right", "wrong", "variant"}]
           /\ wt' = BaseWeight(cfgv'.base) /\ wt' <= MaxWeight
           /\ UNCHANGED <<ds, seq>>
        \/ /\ cfgv.start >= 0 /\ Len(ds) < MaxLen
           /\ \E d \in Menu(Len(ds) + 1, IF OneBadCert /\ (\E m \in 1..Len(ds) : Weight(ds[m]) > 0) THEN 0 ELSE MaxWeight - wt) :
                 /\ ds' = Append(ds, d) /\ seq' = Append(seq, CertOf(d, Len(ds) + 1)) /\ wt' = wt + Weight(d)
           /\ cfgv' = cfgv
Spec == Init /\ [][Next]_vars

\* ------------------------------------------------------------------ invariants (one call per state)
Live == cfgv.start >= 0
InvAcceptIff == Live => AcceptIffValidAt(seq, Pt, cfgv.start, BaseOf)
InvReport == Live => ReportAt(seq, Pt, cfgv.start, BaseOf)
InvHonest == Live => HonestAcceptedAt(seq, Pt, cfgv.start, BaseOf, Make)
\* the uncorrupted sequences are "produced by consensus" in the sense of HonestSeq (guards InvHonest against vacuity)
InvHonestNonVacuous == (Live /\ wt = 0 /\ cfgv.base \in {"nil", "right"}) =>
                          HonestSeq(seq, Pt, cfgv.start, BaseOf, Make)
InvEmit == (Live /\ Emit) => PrintT(ToJson(Call))

\* named deviations for the mutant configurations
StrongHalf(a, w) == 2 * a >= w
NoLink(ts) == NoBase
FailNextPlus(st) == st.next + 1
CommitLoose(nt, c) == c.delta = <<>> \/ Canon(nt) = c.supp
MakeNoRemovals(a, b) == LET ch == {i \in DOMAIN b : ~IsZero(DeltaFor(a, b, i))}
                            ids == SortedIds(ch)
                        IN [n \in 1..Len(ids) |-> DeltaFor(a, b, ids[n])]
InvHonestMut == Live => HonestAcceptedAt(seq, Pt, cfgv.start, BaseOf, MakeNoRemovals)
=============================================================================

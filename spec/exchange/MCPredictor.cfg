SPECIFICATION PSpec
CONSTANTS
  OffsetMax = FALSE
  SettleN = 64
  SettleW = 136
  L = 5
  Alphabet = {0, 1, 2, 5}
INVARIANTS PInvShrinks PInvBacksOff PInvBounded PEmit
CHECK_DEADLOCK FALSE

SPECIFICATION Spec
CONSTANTS
  Cap = 3
  NoTable = 0
  InclusiveEnd = FALSE
  MaxCerts = 5
  Firsts = {0, 3}
  Huge = 1073741824
  MaxPuts = 3
  Dev = "none"
INVARIANTS InvBelowPending InvAtMostLimit InvExactSlice InvPowerTable InvInterleavingIrrelevant
CHECK_DEADLOCK FALSE

SPECIFICATION PSpec
CONSTANTS
  OffsetMax = FALSE
  SettleN = 64
  SettleW = 136
  L = 6
  Alphabet = {0, 1, 2, 3, 7}
INVARIANTS PInvShrinks PInvBacksOff PInvBounded PEmit
CHECK_DEADLOCK FALSE

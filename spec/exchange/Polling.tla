------------------------------ MODULE Polling ------------------------------
(* Certificate polling cadence (property C20): certexchange/polling/subscriber.go `run`/`poll` and
   predictor.go, in integer time.  One tick is the unit of Go's time.Duration (the arithmetic of the
   code is plain int64 arithmetic, so a tick may be read as 1 ns of a mock clock or as anything else);
   all values stay below 2^31.

   Environment: certificates are produced according to a pattern, a sequence of segments
   [dur, T, settle]: for `dur` ticks one certificate every T ticks (T = 0: stall).  Steady production,
   bursts (small T), stalls and resumption are such sequences.  Produced(segs, t) certificates exist
   at time t.

   One subscriber round at pollTime `now` (timer fired):
       cprog    := CatchUp()                                  local progress since the last round
       if cprog = 0:  (progress, newCert) := poll peers       takes rt ticks (request time)
       interval := Predict(progress)                          predictor.update
       base     := max(pollTime + interval - (pollTime + rt), 0)
       offset   := rt if polled /\ progress > 0 /\ ~newCert else 0
       delay    := base + min(offset, base/2)                 timer.Reset(delay)

   Clauses of C20: progress = advance of the store; delay within the envelope
   [base, base + min(rt, interval/2)]; cadence monitors (settles at the production rate, shrinks on
   multi-certificate polls, backs off on empty polls).                                              *)
EXTENDS Integers, Sequences, FiniteSets
CONSTANTS OffsetMax,       \* named deviation (mutant): delay += max(offset, delay/2) (before fix 382eb0b)
          SettleN, SettleW \* settle monitor: skip SettleN rounds of a steady segment, then judge blocks of SettleW rounds

PMin(a, b) == IF a <= b THEN a ELSE b
PMax(a, b) == IF a >= b THEN a ELSE b
Abs(a) == IF a < 0 THEN -a ELSE a

\* ---------------------------------------------------------------- predictor.go, transcribed
MaxBackoffMultiplier == 10
NewPredictor(mn, init, mx) == [mn |-> mn, mx |-> mx, iv |-> init, inc |-> FALSE, ex |-> init \div 2, bo |-> 0]

Explore(p, pr) ==
  LET switched == p.inc = (pr > 1)
      iv1 == IF ~switched /\ pr > 2 THEN p.iv \div pr ELSE p.iv
      ex1 == IF switched THEN p.ex \div 3 ELSE IF pr <= 2 THEN p.ex * 2 ELSE iv1 \div 2
      ex2 == IF ex1 < p.mn \div 100 THEN p.mn \div 100 ELSE IF ex1 > p.mx \div 2 THEN p.mx \div 2 ELSE ex1
      iv2 == IF pr = 0 THEN iv1 + ex2 ELSE iv1 - ex2
      iv3 == IF iv2 < p.mn THEN p.mn ELSE IF iv2 > p.mx THEN p.mx ELSE iv2
  IN [p EXCEPT !.ex = ex2, !.iv = iv3, !.inc = (pr = 0), !.bo = IF pr = 0 THEN iv1 ELSE 0]

PStep1(p, pr) == IF p.bo > 0 THEN (IF pr > 0 THEN [p EXCEPT !.bo = 0] ELSE p)
                 ELSE IF pr # 1 THEN Explore(p, pr) ELSE p
POut(q) == IF q.bo > 0 THEN q.bo ELSE q.iv
PStep2(q) == IF q.bo > 0 THEN [q EXCEPT !.bo = PMin(2 * q.bo, MaxBackoffMultiplier * q.mx)] ELSE q
\* update(progress): new predictor state and the returned interval
Update(p, pr) == [p |-> PStep2(PStep1(p, pr)), out |-> POut(PStep1(p, pr))]

\* ---------------------------------------------------------------- production patterns
RECURSIVE ProducedRec(_, _, _, _)
ProducedRec(segs, i, start, t) ==
  IF i > Len(segs) \/ t <= start THEN 0
  ELSE LET e == start + segs[i].dur
           here == IF segs[i].T > 0 THEN (PMin(t, e) - start) \div segs[i].T ELSE 0
       IN here + ProducedRec(segs, i + 1, e, t)
Produced(segs, t) == ProducedRec(segs, 1, 0, t)
RECURSIVE SegAtRec(_, _, _, _)
SegAtRec(segs, i, start, t) == IF i >= Len(segs) \/ t < start + segs[i].dur THEN i ELSE SegAtRec(segs, i + 1, start + segs[i].dur, t)
SegAt(segs, t) == IF Len(segs) = 0 THEN 0 ELSE SegAtRec(segs, 1, 0, t)

\* ---------------------------------------------------------------- the delay armed by a round
Base(I, rt) == PMax(I - rt, 0)
OffsetOf(polled, progress, newCert, rt) == IF polled /\ progress > 0 /\ ~newCert THEN rt ELSE 0
Armed(I, rt, offset) == LET b == Base(I, rt) IN
                        IF OffsetMax THEN b + PMax(offset, b \div 2) ELSE b + PMin(offset, b \div 2)
\* property envelope: the predicted interval (less the time already spent), extended only by the
\* request time and by at most half of the interval
InEnvelope(I, rt, armed) == LET b == Base(I, rt) IN armed >= b /\ armed - b <= rt /\ 2 * (armed - b) <= I

\* ---------------------------------------------------------------- cadence monitors over a run
\* c = [mn, mx, segs]; one MonStep per round with (pollTime, progress, request time, period until the next poll)
MonInit == [p1 |-> -1, w1 |-> 0, r1 |-> 0, p2 |-> -1, w2 |-> 0, r2 |-> 0, seg |-> -1, rs |-> 0, inb |-> 0, certs |-> 0, win |-> 0, viol |-> {}]
MonStep(m, c, t, pr, rt, w) ==
  LET sg == SegAt(c.segs, t)
      T == IF sg = 0 THEN 0 ELSE c.segs[sg].T
      steady == sg > 0 /\ c.segs[sg].settle /\ T >= c.mn /\ T <= c.mx
      same == sg = m.seg
      rs1 == IF same THEN m.rs + 1 ELSE 1
      inWin == steady /\ rs1 > SettleN
      inb1 == IF inWin THEN (IF same THEN m.inb ELSE 0) + (IF T <= 2 * w /\ w <= 2 * T THEN 1 ELSE 0) ELSE 0
      certs1 == IF inWin THEN (IF same THEN m.certs ELSE 0) + pr ELSE 0
      complete == inWin /\ rs1 = SettleN + SettleW
      settles == 4 * inb1 >= 3 * SettleW /\ 4 * Abs(SettleW - certs1) <= certs1
      shrinks == (m.p1 >= 2 /\ pr >= 2) => (w - rt < m.w1 \/ w - rt <= c.mn)
      backs == /\ (m.p1 = 0 /\ pr = 0) => w >= m.w1 - m.r1
               /\ (m.p2 = 0 /\ m.p1 = 0 /\ pr = 0) => (w > m.w2 - m.r2 \/ m.w2 >= c.mx)
  IN [p1 |-> pr, w1 |-> w, r1 |-> rt, p2 |-> m.p1, w2 |-> m.w1, r2 |-> m.r1, seg |-> sg,
      rs |-> IF complete THEN SettleN ELSE rs1, inb |-> IF complete THEN 0 ELSE inb1, certs |-> IF complete THEN 0 ELSE certs1,
      win |-> IF complete THEN m.win + 1 ELSE m.win,   \* settle windows judged so far (vacuity guard)
      viol |-> (IF complete /\ ~settles THEN {"Settles"} ELSE {}) \cup (IF shrinks THEN {} ELSE {"Shrinks"})
               \cup (IF backs THEN {} ELSE {"BacksOff"})]
=============================================================================

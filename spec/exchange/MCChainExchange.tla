-------------------------- MODULE MCChainExchange --------------------------
(* Exhaustive configuration of ChainExchange.tla: every interleaving of lookups (all prefix keys and the
   zero key), own broadcasts, deliveries (valid and invalid messages: every shape x instance x timestamp),
   prunes, progress and clock changes, over a small chain alphabet that contains siblings (flood >
   capacity), a chain with a common prefix and a chain with a foreign base.
   `hist` (only in the *Sim configuration, via HistOn) records the operations for spec -> code replay. *)
EXTENDS ChainExchange, Json
CONSTANTS Insts, PruneAt, ChainsC, MsgChains, CapW, CapD, Lookahead, MaxAge, Times, ProgIds, HistOn, HistLen
VARIABLES hist
mcvars == <<cxvars, hist>>

ChainsSmall == {<<0, 1>>, <<0, 2>>, <<0, 1, 3>>, <<4, 5>>}
ChainsCache == {<<0, 1>>, <<0, 2>>, <<0, 1, 3>>}
ChainsOne == {<<0, 1>>}
ChainsTwo == {<<0, 1>>, <<0, 2>>}
ChainsMid == {<<0, 1>>, <<0, 2>>, <<0, 3>>, <<0, 1, 4>>}
ChainsSim == {<<0, 1>>, <<0, 2>>, <<0, 3>>, <<0, 4>>, <<0, 5>>, <<0, 6>>, <<0, 1, 7>>, <<0, 1, 7, 8>>, <<0, 2, 9>>, <<10, 11>>, <<10, 12>>, <<0>>}
MCChains == ChainsC
AllKeys == UNION {Prefixes(c) : c \in MCChains} \cup {NoChain}
BadChains == {<<1, 0>>, NoChain}
MsgChainsSim == {<<0, 1>>, <<0, 2, 9>>, <<10, 11>>}
Msgs == [shape : {"ok"}, inst : Insts \cup {Lookahead + 2}, chain : MsgChains \cup BadChains, ts : Times]
        \cup [shape : {"undecodable"}, inst : {0}, chain : {<<0, 1>>}, ts : Times]
Inputs == {NoChain} \cup {c \in MCChains : Len(c) = 2}

Rec(op) == hist' = IF HistOn THEN Append(hist, op) ELSE hist

MCInit == /\ CxInit([capW |-> CapW, capD |-> CapD, lookahead |-> Lookahead, maxAge |-> MaxAge, maxLen |-> 3],
                    [id |-> 0, input |-> NoChain, now |-> 1])
          /\ hist = <<>>
OpLookup == \E i \in Insts, k \in AllKeys : Lookup(i, k) /\ Rec([op |-> "Lookup", inst |-> i, key |-> k])
OpOwn == \E i \in Insts, c \in MCChains : OwnBroadcast(i, c) /\ Rec([op |-> "Own", inst |-> i, chain |-> c])
OpAdmit == \E i \in Insts, c \in MCChains : RemoteAdmit(i, c) /\ Rec([op |-> "Admit", inst |-> i, chain |-> c])
OpDeliver == \E m \in Msgs : Deliver(m) /\ Rec([op |-> "Deliver", inst |-> m.inst, chain |-> m.chain, shape |-> m.shape, ts |-> m.ts])
OpPrune == \E n \in PruneAt : Prune(n) /\ Rec([op |-> "Prune", n |-> n])
OpProgress == \E id \in ProgIds, inp \in Inputs : (id # prog.id \/ inp # prog.input) /\ SetProgress(id, inp)
                                          /\ Rec([op |-> "Progress", id |-> id, input |-> inp])
OpClock == \E t \in Times : t # prog.now /\ SetClock(t) /\ Rec([op |-> "Clock", now |-> t])

\* (1) the caches: every interleaving of lookups, own broadcasts, admitted remote chains and prunes
MCNextCache == OpLookup \/ OpOwn \/ OpAdmit \/ OpPrune
MCSpecCache == MCInit /\ [][MCNextCache]_mcvars
\* (2) the validator: every message x every progress state x every clock value, one delivery each
MCInitVal == /\ \E id \in ProgIds, inp \in Inputs, t \in Times :
                  CxInit([capW |-> CapW, capD |-> CapD, lookahead |-> Lookahead, maxAge |-> MaxAge, maxLen |-> 3],
                         [id |-> id, input |-> inp, now |-> t])
             /\ hist = <<>>
MCNextVal == last = NoLast /\ OpDeliver
MCSpecVal == MCInitVal /\ [][MCNextVal]_mcvars
\* (3) everything together (simulation only: generates histories for the driver)
MCNext == OpLookup \/ OpOwn \/ OpAdmit \/ OpDeliver \/ OpPrune \/ OpProgress \/ OpClock
MCSpec == MCInit /\ [][MCNext]_mcvars

\* `last` (what the caller saw) is kept out of the fingerprint; the clauses that speak about it are
\* checked on EVERY transition as action properties (TLC evaluates implied actions for every generated
\* successor, seen or not), the others as ordinary invariants.
MCView == <<wanted, disc, prog, cfg, admitted, ever, ata, hist>>
A_LookupKeyMatches == [][LookupKeyMatches']_mcvars
A_LookupFinds == [][LookupFinds']_mcvars
A_OnlyAdmitted == [][OnlyAdmitted']_mcvars
A_AdmitRetrievable == [][AdmitRetrievable']_mcvars
A_VerdictSound == [][VerdictSound']_mcvars
A_VerdictExact == [][VerdictExact']_mcvars
A_PruneExact == [][PruneExact']_mcvars

\* spec -> code: in -simulate mode every behaviour prints its operation sequence once
HistDone == (HistOn /\ Len(hist) = HistLen) => PrintT(<<"VERIF_HIST", ToJson(hist)>>)
HistBound == Len(hist) < HistLen
=============================================================================

SPECIFICATION Spec
CONSTANTS
  Cap = 256
  NoTable = 0
  InclusiveEnd = FALSE
  MaxCerts = 6
  Firsts = {0, 3}
  Huge = 1073741824
INVARIANTS Emit
CHECK_DEADLOCK FALSE

---------------------------- MODULE PollingLoop ----------------------------
(* The subscriber round of Polling.tla closed over a certificate production pattern: a state machine
   whose behaviours are whole runs (pollTime, poller instance, predictor state, cadence monitor).
   Request time and "certificates arrived locally while polling" are nondeterministic.          *)
EXTENDS Polling
\* ---------------------------------------------------------------- the subscriber round as a state machine
CONSTANTS Configs,    \* set of [mn, init, mx, segs]
          ReqTimes,   \* request times a round may take
          LocalDuring,\* {FALSE} or BOOLEAN: certificates may arrive locally while polling
          MaxRounds
VARIABLES cfg, now, next, pred, mon, rnd, last
vars == <<cfg, now, next, pred, mon, rnd, last>>

Init == /\ cfg \in Configs
        /\ now = cfg.init /\ next = 0 /\ pred = NewPredictor(cfg.mn, cfg.init, cfg.mx)
        /\ mon = MonInit /\ rnd = 0
        /\ last = [progress |-> 0, adv |-> 0, I |-> 0, rt |-> 0, armed |-> 0]
Round == /\ rnd < MaxRounds
         /\ \E rt \in ReqTimes, loc \in LocalDuring :
              LET avail == Produced(cfg.segs, now)
                  progress == avail - next
                  u == Update(pred, progress)
                  newCert == progress > 0 /\ ~loc
                  armed == Armed(u.out, rt, OffsetOf(TRUE, progress, newCert, rt))
              IN /\ next' = avail /\ pred' = u.p /\ now' = now + rt + armed
                 /\ mon' = MonStep(mon, cfg, now, progress, rt, rt + armed)
                 /\ last' = [progress |-> progress, adv |-> avail - next, I |-> u.out, rt |-> rt, armed |-> armed]
         /\ rnd' = rnd + 1 /\ UNCHANGED cfg
Next == Round
Spec == Init /\ [][Next]_vars

InvProgressExact == last.progress = last.adv
InvDelayEnvelope == InEnvelope(last.I, last.rt, last.armed)
InvSettles == "Settles" \notin mon.viol
InvShrinks == "Shrinks" \notin mon.viol
InvBacksOff == "BacksOff" \notin mon.viol
InvBounded == now < 2000000000 /\ pred.iv >= cfg.mn /\ pred.iv <= cfg.mx /\ pred.bo <= MaxBackoffMultiplier * cfg.mx
=============================================================================

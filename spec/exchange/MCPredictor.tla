---------------------------- MODULE MCPredictor ----------------------------
(* The predictor of Polling.tla fed with every progress sequence of length <= L over Alphabet
   (open loop) for a few settings: the pure-predictor cadence clauses (shrinks on consecutive
   multi-certificate rounds, backs off on consecutive empty rounds, stays within bounds) are
   invariants; the complete sequences are printed as JSON and fed to the REAL predictor by
   harness/drivers/polling, whose outputs TLC compares with Update (PollingTrace Conf_Predictor). *)
EXTENDS Polling, TLC, Json
CONSTANTS L, Alphabet
VARIABLES st, p, m, hist
pvars == <<st, p, m, hist>>
PSettings == {<<1000, 30000, 120000>>, <<100, 100, 1000>>, <<2000, 20000, 20000>>}
PInit == /\ st \in PSettings /\ p = NewPredictor(st[1], st[2], st[3]) /\ m = MonInit /\ hist = <<>>
PNext == /\ Len(hist) < L
         /\ \E pr \in Alphabet :
              LET u == Update(p, pr) IN
              /\ p' = u.p /\ hist' = Append(hist, pr)
              /\ m' = MonStep(m, [mn |-> st[1], mx |-> st[3], segs |-> <<>>], 0, pr, 0, u.out)
         /\ UNCHANGED st
PSpec == PInit /\ [][PNext]_pvars
PInvShrinks == "Shrinks" \notin m.viol
PInvBacksOff == "BacksOff" \notin m.viol
PInvBounded == p.iv >= st[1] /\ p.iv <= st[3] /\ p.ex >= st[1] \div 100 /\ p.ex <= PMax(st[3] \div 2, st[2] \div 2)
               /\ p.bo >= 0 /\ p.bo <= MaxBackoffMultiplier * st[3]
PEmit == Len(hist) = L => PrintT(ToJson([mn |-> st[1], init |-> st[2], mx |-> st[3], seq |-> hist]))
=============================================================================
